#!/usr/bin/env python3
"""Import confirmed seeded changes from /tmp/seed-out into /verif/seeded/<id>/ and regenerate seeded/INDEX.md.
usage: tools/seed_import.py            (reads /tmp/seed-out/results.jsonl, latest record per id wins)"""
import glob, json, os, re, shutil, sys
V = "/verif"
res = {}
# round 1: results.jsonl; round 2: confirmations in results-r2.jsonl, final check runs in results-r2-final.jsonl;
# runs of other properties' checks against a change in cross.jsonl (check ids are in the "== Cxx seed=" lines)
for fn in ("results.jsonl", "results-r2.jsonl", "results-r2-final.jsonl", "results-r3.jsonl", "results-r3-final.jsonl",
           "results-r4.jsonl", "results-r4-final.jsonl"):
    p = os.path.join("/tmp/seed-out", fn)
    if not os.path.exists(p):
        continue
    for line in open(p):
        try:
            r = json.loads(line)
        except ValueError:
            continue
        old = res.get(r["id"])
        if old is not None and r.get("confirm", "skipped") == "skipped":
            r["confirm"] = old["confirm"]
        res[r["id"]] = r
cross = {}
p = "/tmp/seed-out/cross.jsonl"
if os.path.exists(p):
    for line in open(p):
        try:
            r = json.loads(line)
        except ValueError:
            continue
        cross.setdefault(r["id"], []).append(r["check"])
rows = []
for d in sorted(glob.glob("/tmp/seed-out/C*C*/C*-?") + glob.glob("/tmp/seed-out/r2-*/C*-?*") + glob.glob("/tmp/seed-out/r3-*/C*-?") + glob.glob("/tmp/seed-out/r4-*/C*-?")):
    sid = os.path.basename(d)
    if sid not in res:
        continue
    r = res[sid]
    conf = r["confirm"]
    ok_suite = "100% tests passed" in conf
    m = re.search(r"demo clean rc=(\d+) changed rc=(\d+)", conf)
    ok_demo = bool(m) and m.group(1) == "0" and m.group(2) != "0"
    if not (ok_suite and ok_demo):
        print("NOT confirmed:", sid, conf)
        continue
    dst = os.path.join(V, "seeded", sid)
    shutil.rmtree(dst, ignore_errors=True)
    os.makedirs(dst)
    shutil.copy(os.path.join(d, "patch.diff"), dst)
    if os.path.isdir(os.path.join(d, "demo")):
        shutil.copytree(os.path.join(d, "demo"), os.path.join(dst, "demo"),
                        ignore=shutil.ignore_patterns("*.o", "a.out", "demo", "*.xz", "*.bin", "core*"))
    meta = {}
    try:
        meta = json.load(open(os.path.join(d, "meta.json")))
    except Exception:
        pass
    chk = r["check"]
    keys = sorted(set(k.strip() for k in re.findall(r"key: ([^;\n]*)", chk)))
    caught = "rc=1" in chk
    other = []
    for c in cross.get(sid, []):
        for ln in c.splitlines():
            m2 = re.match(r"== (C\d\d) seed=\S+ rc=1 ", ln)
            if m2:
                other.append({"check": m2.group(1), "violation_keys": sorted(set(re.findall(r"key: ([^;]*);", ln)))[:6]})
    prop = sid.split("-")[0]
    extra = {}
    ov = os.path.join(V, "seeded", "overrides.json")
    if os.path.exists(ov):
        extra = json.load(open(ov)).get(sid, {})
    out = {
        "id": sid, "property": prop,
        "summary": meta.get("summary", ""), "needs_to_manifest": meta.get("needs", meta.get("needs_to_manifest", "")),
        "written_by": "fresh sub-agent given only the property text and its own scratch worktree of /repo (no access to /verif)",
        "confirmation": {"what_i_ran": "tools/seed_confirm.sh: scratch worktree, RelWithDebInfo build, ctest -j8 (19 tests), "
                         "demo/run.sh on the unchanged and on the changed build", "result": conf},
        "check_run": {"what_i_ran": "tools/seed_run.sh: git -C /repo apply patch.diff; ./check %s --tier quick (default seed, "
                      "then seed 1 if silent); git -C /repo checkout -- ." % prop,
                      "caught": caught, "violation_keys": keys[:12]},
    }
    if sid.split("-")[1][0] not in "ab":
        out["check_run"]["what_i_ran"] = ("tools/seed_par.sh: scratch worktree of /repo + patch.diff, private build/output directories "
                                          "(VERIF_REPO/VERIF_BUILD/VERIF_OUT); ./check %s --tier quick with seeds 12648430, 1, 2 until one fires" % prop)
        out["confirmation"]["what_i_ran"] = out["confirmation"]["what_i_ran"].replace("tools/seed_confirm.sh", "tools/seed_par.sh (same steps as tools/seed_confirm.sh)")
    if other:
        out["other_checks_that_catch_it"] = other
    out.update(extra)
    json.dump(out, open(os.path.join(dst, "meta.json"), "w"), indent=1)
    rows.append(out)
with open(os.path.join(V, "seeded", "INDEX.md"), "w") as f:
    f.write("# Seeded breaking changes and which check catches them\n\n"
            "Each change compiles, passes the 19-test suite and fails its own demonstration only with the change applied "
            "(confirmed by `tools/seed_confirm.sh` / `tools/seed_par.sh`). `caught` = the property's quick check exits 1 with the "
            "keys listed (ids ending in a/b: round 1, run by applying the change to /repo and restoring it; c/d/e: round 2, f/g: round 3, h: round 4, all "
            "run in a scratch worktree with private build and output directories, seeds 12648430, 1, 2 until one fires). "
            "Where the check of the property a change was written for does not catch it, the check that does is named; "
            "`meta.json` of each change has the details (`other_checks_that_catch_it` lists cross-property runs).\n\n"
            "| id | what it breaks | needs | caught by quick check | violation keys (first) | note |\n|---|---|---|---|---|---|\n")
    for o in rows:
        f.write("| %s | %s | %s | %s | %s | %s |\n" % (
            o["id"], o["summary"].replace("|", "\\|")[:160], o["needs_to_manifest"].replace("|", "\\|")[:140],
            "yes" if o["check_run"]["caught"] else ("**no** (caught by %s)" % ", ".join(o["caught_by"]) if o.get("caught_by") else "**no**"),
            "; ".join(k.replace("|", "\\|") for k in o["check_run"]["violation_keys"][:3]), o.get("note", "")))
print("imported", len(rows))
