#!/bin/bash
# usage: tools/seed_recheck.sh <seed-dir> [check ids...]  - re-run check(s) for an already confirmed seeded change and record it
d=$1; shift; id=$(basename $d); prop=${id%%-*}
[ $# -eq 0 ] && set -- $prop
SEEDS="${SEEDS:-12648430 1}" /verif/tools/seed_run.sh $d "$@" 2>&1 | grep -v "binary file" > /tmp/seedrun-last.txt
cut -c1-300 /tmp/seedrun-last.txt
python3 - "$id" <<'PY'
import json,sys
sid=sys.argv[1]
conf=''
for l in open('/tmp/seed-out/results.jsonl'):
    try: r=json.loads(l)
    except ValueError: continue
    if r['id']==sid and r.get('confirm'): conf=r['confirm']
rec={'id':sid,'confirm':conf,'check':open('/tmp/seedrun-last.txt').read()[-1500:]}
open('/tmp/seed-out/results.jsonl','a').write(json.dumps(rec)+'\n')
PY
