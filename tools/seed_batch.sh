#!/bin/bash
# usage: tools/seed_batch.sh <tag-dir> ...   e.g. /tmp/seed-out/C19C20
# For each <prop>-<x> below it: confirm in a scratch worktree, then run the property's quick check against it.
cd /verif
for tagdir in "$@"; do
  for d in $tagdir/C*-?; do
    [ -f $d/patch.diff ] || continue
    id=$(basename $d); prop=${id%%-*}
    echo "##### $id"
    conf=$(tools/seed_confirm.sh $d 2>&1 | tail -1)
    echo "confirm: $conf"
    out=$(SEEDS="${SEEDS:-12648430 1}" tools/seed_run.sh $d $prop 2>&1)
    echo "$out" | cut -c1-300
    echo "{\"id\":\"$id\",\"confirm\":\"$conf\",\"check\":$(echo "$out" | python3 -c 'import sys,json; print(json.dumps(sys.stdin.read()[-1500:]))')}" >> /tmp/seed-out/results.jsonl
  done
done
