#!/bin/bash
# usage: tools/seed_confirm.sh <seed-dir>
# Confirms a seeded change in a scratch worktree: applies, builds like the baseline, runs the 19-test suite,
# runs the demonstration with and without the change. Removes the worktree afterwards.
set -u
d=$(readlink -f $1)
wt=/tmp/wt-confirm-$$
git -C /repo worktree add -q $wt HEAD || exit 2
trap 'git -C /repo worktree remove --force $wt' EXIT
cmake -G Ninja -S $wt -B $wt/_build_clean -DCMAKE_BUILD_TYPE=RelWithDebInfo >/dev/null 2>&1 && cmake --build $wt/_build_clean -j16 >/dev/null 2>&1 || { echo "clean build failed"; exit 2; }
( cd $d/demo && bash ./run.sh $wt/_build_clean $wt ) > /tmp/confirm-clean.log 2>&1; rc_clean=$?
git -C $wt apply $d/patch.diff || { echo "patch does not apply"; exit 2; }
cmake -G Ninja -S $wt -B $wt/_build -DCMAKE_BUILD_TYPE=RelWithDebInfo >/dev/null 2>&1 && cmake --build $wt/_build -j16 >/dev/null 2>&1 || { echo "changed build failed"; exit 2; }
suite=$(ctest --test-dir $wt/_build -j8 --timeout 900 2>&1 | grep "tests passed")
( cd $d/demo && bash ./run.sh $wt/_build $wt ) > /tmp/confirm-changed.log 2>&1; rc_changed=$?
echo "suite: $suite | demo clean rc=$rc_clean changed rc=$rc_changed"
