#!/bin/bash
# usage: tools/seed_run.sh <seed-dir-with-patch.diff> <PROPERTY> [more check ids...]
# Applies the seeded change to /repo, runs the quick check(s), restores /repo.
set -u
d=$1; shift
cd /verif
if ! git -C /repo diff --quiet; then echo "/repo working tree not clean"; exit 2; fi
git -C /repo apply "$d/patch.diff" || { echo "patch does not apply"; exit 2; }
trap 'git -C /repo checkout -- . ; git -C /repo clean -fdq -e _build 2>/dev/null' EXIT
for p in "$@"; do
  for s in ${SEEDS:-12648430}; do
    VERIF_SEED=$s timeout ${TMO:-1500} ./check $p --tier quick > /tmp/seedrun-$p.log 2>&1
    rc=$?
    echo "== $p seed=$s rc=$rc  $(grep -c '^VIOLATION' /tmp/seedrun-$p.log) violation line(s)"
    grep -A1 '^VIOLATION' /tmp/seedrun-$p.log | grep 'key:' | sort | uniq -c | head -8
    tail -1 /tmp/seedrun-$p.log | cut -c1-200
    [ $rc -eq 1 ] && break
  done
done
