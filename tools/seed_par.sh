#!/bin/bash
# usage: tools/seed_par.sh <seed-dir> [CHECK...]     (one seeded change; safe to run several at once)
# Confirms the change (suite passes, demo passes on clean / fails on changed) and runs the property's quick check
# against a scratch worktree with the change applied, using private build and output directories
# (VERIF_REPO / VERIF_BUILD / VERIF_OUT), so /repo and /verif/.build are never touched. Appends one JSON line to
# $RESULTS (default /tmp/seed-out/results-r2.jsonl). Removes worktrees and scratch directories afterwards.
set -u
d=$(readlink -f $1); shift
id=$(basename $d); prop=${id%%-*}
checks=${*:-$prop}
wt=/tmp/wt-par-$id; vb=/tmp/vb-$id; vo=/tmp/vo-$id
cd /verif
git -C /repo worktree remove --force $wt 2>/dev/null; rm -rf $vb $vo
git -C /repo worktree add -q --detach $wt HEAD || exit 2
cleanup() { git -C /repo worktree remove --force $wt 2>/dev/null; rm -rf $vb $vo; }
trap cleanup EXIT
conf="skipped"
if [ -z "${NOCONFIRM:-}" ]; then
  cmake -G Ninja -S $wt -B $wt/_build_clean -DCMAKE_BUILD_TYPE=RelWithDebInfo >/dev/null 2>&1 && cmake --build $wt/_build_clean -j8 >/dev/null 2>&1 || { echo "$id clean build failed"; exit 2; }
  ( cd $d/demo && timeout 900 bash ./run.sh $wt/_build_clean $wt ) > /tmp/par-$id-clean.log 2>&1; rc_clean=$?
fi
git -C $wt apply $d/patch.diff || { echo "$id patch does not apply"; exit 2; }
if [ -z "${NOCONFIRM:-}" ]; then
  cmake -G Ninja -S $wt -B $wt/_build -DCMAKE_BUILD_TYPE=RelWithDebInfo >/dev/null 2>&1 && cmake --build $wt/_build -j8 >/dev/null 2>&1 || { echo "$id changed build failed"; exit 2; }
  suite=$(ctest --test-dir $wt/_build -j8 --timeout 900 2>&1 | grep "tests passed")
  ( cd $d/demo && timeout 900 bash ./run.sh $wt/_build $wt ) > /tmp/par-$id-changed.log 2>&1; rc_changed=$?
  conf="suite: $suite | demo clean rc=$rc_clean changed rc=$rc_changed"
  rm -rf $wt/_build $wt/_build_clean
fi
out=""
for p in $checks; do
  for s in ${SEEDS:-12648430 1}; do
    VERIF_REPO=$wt VERIF_BUILD=$vb VERIF_OUT=$vo VERIF_SEED=$s timeout ${TMO:-2400} ./check $p --tier quick > /tmp/par-$id-$p.log 2>&1
    rc=$?
    keys=$(grep -A1 '^VIOLATION' /tmp/par-$id-$p.log | grep 'key:' | sort | uniq -c | head -6 | tr '\n' ';')
    out="$out== $p seed=$s rc=$rc $(grep -c '^VIOLATION' /tmp/par-$id-$p.log) violation line(s) $keys $(tail -1 /tmp/par-$id-$p.log | cut -c1-160)
"
    [ $rc -eq 1 ] && break
  done
done
echo "##### $id"; echo "confirm: $conf"; echo "$out"
python3 - "$id" "$conf" "$out" >> ${RESULTS:-/tmp/seed-out/results-r2.jsonl} <<'PY'
import sys, json
print(json.dumps({"id": sys.argv[1], "confirm": sys.argv[2], "check": sys.argv[3][-1500:]}))
PY
