// refhelper: second referee for C14/C15. A tiny UN-sanitized process that
// dlopen()s a *released* liblzma given on the command line and serves
// requests on stdin/stdout:
//
//   request  (24 bytes, little endian, then `len` data bytes)
//     u8  op        1 = filter, 2 = crc32, 3 = crc64, 4 = version, 0 = quit
//     u8  id        filter ID (0x03 delta, 0x04..0x0B BCJ)          [op 1]
//     u8  dir       0 = encoder direction, 1 = decoder direction    [op 1]
//     u8  pad
//     u32 param     BCJ start_offset, or delta distance             [op 1]
//     u64 init      initial CRC                                     [op 2,3]
//     u32 len
//     u32 pad2
//   response (8 bytes, then `len` data bytes)
//     u32 status    0 = ok, 1 = not supported by this library, 2 = error
//     u32 len
//
// A raw filter chain must end in LZMA1/LZMA2, so the filtered bytes are
// observed like this:
//   encoder direction: raw-encode with [filter, LZMA2], raw-decode the result
//                      with [LZMA2] only  -> the bytes the filter produced;
//   decoder direction: raw-encode with [LZMA2] only, raw-decode with
//                      [filter, LZMA2]     -> the bytes the filter's decoder
//                      makes of the input.
// CRC requests call the library's lzma_crc32()/lzma_crc64().
//
// Only public, ABI-stable structures of <lzma.h> are used.
#define _GNU_SOURCE
#include <dlfcn.h>
#include <stdint.h>
#include <stdio.h>
#include <stdlib.h>
#include <string.h>
#include <unistd.h>
#include <errno.h>
#include <lzma.h>

static lzma_ret (*p_raw_buffer_encode)(const lzma_filter *, const lzma_allocator *,
		const uint8_t *, size_t, uint8_t *, size_t *, size_t);
static lzma_ret (*p_raw_buffer_decode)(const lzma_filter *, const lzma_allocator *,
		const uint8_t *, size_t *, size_t, uint8_t *, size_t *, size_t);
static lzma_bool (*p_lzma_preset)(lzma_options_lzma *, uint32_t);
static lzma_bool (*p_enc_supported)(lzma_vli);
static lzma_bool (*p_dec_supported)(lzma_vli);
static uint32_t (*p_crc32)(const uint8_t *, size_t, uint32_t);
static uint64_t (*p_crc64)(const uint8_t *, size_t, uint64_t);
static const char *(*p_version_string)(void);

static int read_full(void *buf, size_t n)
{
	uint8_t *p = buf;
	while (n > 0) {
		ssize_t r = read(0, p, n);
		if (r == 0)
			return 0;
		if (r < 0) {
			if (errno == EINTR)
				continue;
			return -1;
		}
		p += r; n -= (size_t)r;
	}
	return 1;
}

static int write_full(const void *buf, size_t n)
{
	const uint8_t *p = buf;
	while (n > 0) {
		ssize_t r = write(1, p, n);
		if (r < 0) {
			if (errno == EINTR)
				continue;
			return -1;
		}
		p += r; n -= (size_t)r;
	}
	return 1;
}

static void respond(uint32_t status, const void *data, uint32_t len)
{
	uint32_t h[2] = { status, len };
	if (write_full(h, sizeof(h)) < 0 || (len && write_full(data, len) < 0))
		exit(3);
}

static uint32_t rd32(const uint8_t *p) { uint32_t v; memcpy(&v, p, 4); return v; }
static uint64_t rd64(const uint8_t *p) { uint64_t v; memcpy(&v, p, 8); return v; }

int main(int argc, char **argv)
{
	if (argc != 2) {
		fprintf(stderr, "usage: refhelper /path/to/liblzma.so\n");
		return 2;
	}
	void *h = dlopen(argv[1], RTLD_NOW | RTLD_LOCAL);
	if (h == NULL) {
		fprintf(stderr, "refhelper: %s\n", dlerror());
		return 4;
	}
#define SYM(var, name) do { *(void **)&(var) = dlsym(h, name); \
		if ((var) == NULL) { fprintf(stderr, "refhelper: %s lacks %s\n", argv[1], name); return 4; } } while (0)
	SYM(p_raw_buffer_encode, "lzma_raw_buffer_encode");
	SYM(p_raw_buffer_decode, "lzma_raw_buffer_decode");
	SYM(p_lzma_preset, "lzma_lzma_preset");
	SYM(p_enc_supported, "lzma_filter_encoder_is_supported");
	SYM(p_dec_supported, "lzma_filter_decoder_is_supported");
	SYM(p_crc32, "lzma_crc32");
	SYM(p_crc64, "lzma_crc64");
	SYM(p_version_string, "lzma_version_string");

	lzma_options_lzma lz;
	if (p_lzma_preset(&lz, 0)) {
		fprintf(stderr, "refhelper: preset 0 unsupported\n");
		return 4;
	}
	lz.dict_size = 1u << 16;

	uint8_t *data = NULL, *comp = NULL, *out = NULL;
	size_t cap = 0;
	for (;;) {
		uint8_t rq[24];
		int r = read_full(rq, sizeof(rq));
		if (r <= 0)
			return r < 0 ? 3 : 0;
		unsigned op = rq[0], id = rq[1], dir = rq[2];
		uint32_t param = rd32(rq + 4);
		uint64_t init = rd64(rq + 8);
		uint32_t len = rd32(rq + 16);
		if (op == 0)
			return 0;
		if ((size_t)len + 1 > cap) {
			cap = (size_t)len + 1;
			free(data); free(comp); free(out);
			data = malloc(cap);
			comp = malloc(cap + cap / 4 + 65536);
			out = malloc(cap);
			if (!data || !comp || !out)
				return 3;
		}
		if (len && read_full(data, len) <= 0)
			return 3;
		if (op == 4) {
			const char *v = p_version_string();
			respond(0, v, (uint32_t)strlen(v));
			continue;
		}
		if (op == 2) {
			uint64_t v = p_crc32(data, len, (uint32_t)init);
			respond(0, &v, 8);
			continue;
		}
		if (op == 3) {
			uint64_t v = p_crc64(data, len, init);
			respond(0, &v, 8);
			continue;
		}
		if (op != 1) {
			respond(2, NULL, 0);
			continue;
		}
		if (!p_enc_supported(id) || !p_dec_supported(id)) {
			respond(1, NULL, 0);
			continue;
		}
		lzma_options_bcj ob = { .start_offset = param };
		lzma_options_delta od;
		memset(&od, 0, sizeof(od));
		od.type = LZMA_DELTA_TYPE_BYTE;
		od.dist = param;
		lzma_filter with[3], without[2];
		with[0].id = id;
		with[0].options = id == LZMA_FILTER_DELTA ? (void *)&od : (void *)&ob;
		with[1].id = LZMA_FILTER_LZMA2; with[1].options = &lz;
		with[2].id = LZMA_VLI_UNKNOWN; with[2].options = NULL;
		without[0] = with[1];
		without[1] = with[2];
		const lzma_filter *encf = dir == 0 ? with : without;
		const lzma_filter *decf = dir == 0 ? without : with;
		size_t comp_cap = cap + cap / 4 + 65536, cpos = 0;
		lzma_ret ret = p_raw_buffer_encode(encf, NULL, data, len, comp, &cpos, comp_cap);
		if (ret != LZMA_OK) {
			char msg[64];
			int m = snprintf(msg, sizeof(msg), "encode ret %d", (int)ret);
			respond(2, msg, (uint32_t)m);
			continue;
		}
		size_t ipos = 0, opos = 0;
		// one spare output byte so that the end of the LZMA2 stream is
		// always reached
		ret = p_raw_buffer_decode(decf, NULL, comp, &ipos, cpos, out, &opos, (size_t)len + 1);
		if (ret != LZMA_OK || ipos != cpos || opos != len) {
			char msg[96];
			int m = snprintf(msg, sizeof(msg), "decode ret %d in %zu/%zu out %zu/%u",
					(int)ret, ipos, cpos, opos, len);
			respond(2, msg, (uint32_t)m);
			continue;
		}
		respond(0, out, len);
	}
}
