#define _GNU_SOURCE
#include "dec_common.h"

const char *const d_names[D_COUNT] = {
	"stream", "stream_mt", "auto", "alone", "lzip", "microlzma", "raw", "block", "index", "file_info",
};

int dec_for_stream(vrng *r, const gstream *g)
{
	int k = g->kind == SK_CORPUS ? g->sub : g->kind;
	switch (k) {
	case SK_XZ: {
		static const uint8_t w[] = { D_STREAM, D_STREAM, D_STREAM, D_STREAM_MT, D_AUTO, D_FILE_INFO };
		return w[vrng_below(r, sizeof(w))];
	}
	case SK_ALONE: return vrng_chance(r, 2, 3) ? D_ALONE : D_AUTO;
	case SK_LZIP: return vrng_chance(r, 2, 3) ? D_LZIP : D_AUTO;
	case SK_RAW: return D_RAW;
	case SK_BLOCK: return D_BLOCK;
	case SK_MICROLZMA: return D_MICROLZMA;
	case SK_INDEX: return D_INDEX;
	default: {
		static const uint8_t w[] = { D_STREAM, D_STREAM_MT, D_AUTO, D_ALONE, D_LZIP, D_INDEX, D_FILE_INFO };
		return w[vrng_below(r, sizeof(w))];
	}
	}
}

void dec_spec_for(dec_spec *s, int kind, const gstream *g)
{
	memset(s, 0, sizeof(*s));
	s->kind = kind;
	s->memlimit = UINT64_MAX; s->memlimit_threading = UINT64_MAX;
	s->threads = 2;
	if (g) {
		if (g->cfg_valid) { s->filters = g->cfg.filters; s->dict_size = g->cfg.lzma.dict_size; }
		s->comp_size = g->comp_size; s->uncomp_size = g->uncomp_size; s->uncomp_exact = true;
		s->check = g->check;
		s->file_size = g->data.n;
	}
}

lzma_ret dec_init(lzma_stream *strm, dec_spec *s, const lzma_allocator *a, const uint8_t *in, size_t in_size)
{
	strm->allocator = a;
	s->skip = 0;
	switch (s->kind) {
	case D_STREAM: return lzma_stream_decoder(strm, s->memlimit, s->flags);
	case D_STREAM_MT: {
		lzma_mt mt = { .flags = s->flags, .threads = s->threads ? s->threads : 1, .timeout = s->timeout,
			.memlimit_threading = s->memlimit_threading, .memlimit_stop = s->memlimit };
		return lzma_stream_decoder_mt(strm, &mt);
	}
	case D_AUTO: return lzma_auto_decoder(strm, s->memlimit, s->flags);
	case D_ALONE: return lzma_alone_decoder(strm, s->memlimit);
	case D_LZIP: return lzma_lzip_decoder(strm, s->memlimit, s->flags);
	case D_MICROLZMA: return lzma_microlzma_decoder(strm, s->comp_size, s->uncomp_size, s->uncomp_exact, s->dict_size);
	case D_RAW: return s->filters ? lzma_raw_decoder(strm, s->filters) : LZMA_OPTIONS_ERROR;
	case D_BLOCK: {
		memset(&s->block, 0, sizeof(s->block));
		s->block.version = 1; s->block.check = s->check; s->block.filters = s->bf;
		s->bf[0].id = LZMA_VLI_UNKNOWN;
		if (in_size < 1) return LZMA_DATA_ERROR;
		if (in[0] == 0) return LZMA_DATA_ERROR;  // index indicator, not a Block
		s->block.header_size = lzma_block_header_size_decode(in[0]);
		if (s->block.header_size > in_size) return LZMA_DATA_ERROR;
		lzma_ret ret = lzma_block_header_decode(&s->block, a, in);
		if (ret != LZMA_OK) return ret;
		s->block_inited = true;
		s->skip = s->block.header_size;
		return lzma_block_decoder(strm, &s->block);
	}
	case D_INDEX: s->idx_out = NULL; return lzma_index_decoder(strm, &s->idx_out, s->memlimit);
	case D_FILE_INFO: s->idx_out = NULL; return lzma_file_info_decoder(strm, &s->idx_out, s->memlimit, s->file_size);
	}
	return LZMA_PROG_ERROR;
}

void dec_cleanup(dec_spec *s, const lzma_allocator *a)
{
	if (s->block_inited) { lzma_filters_free(s->bf, a); s->block_inited = false; }
	if (s->idx_out) { lzma_index_end(s->idx_out, a); s->idx_out = NULL; }
}

void dec_result_free(dec_result *r) { vbuf_free(&r->out); }

static void run_file_info(lzma_stream *strm, dec_spec *s, const uint8_t *in, size_t in_size,
		const slice_plan *plan, dec_result *res)
{
	// Seek protocol: feed `chunk` bytes at a time from file position pos.
	vrng r; vrng_init(&r, plan->seed, 0xF1, 0, 0);
	size_t chunk = plan->mode == SL_WHOLE ? in_size : (plan->mode == SL_ONEBYTE || plan->mode == SL_ONEIN ? 1 : (plan->max_in ? plan->max_in : 4096));
	if (chunk == 0) chunk = 1;
	uint64_t pos = 0;
	uint8_t *tmp = malloc(chunk + 1);
	lzma_ret ret = LZMA_OK;
	uint64_t calls = 0, max_calls = 8 * (uint64_t)in_size + 100000;
	bool prev_noprog = false;
	for (;;) {
		size_t n = pos < in_size ? (in_size - pos < chunk ? in_size - (size_t)pos : chunk) : 0;
		if (plan->mode == SL_RANDOM && n > 1) n = 1 + (size_t)vrng_below64(&r, n);
		if (n) memcpy(tmp, in + pos, n);
		strm->next_in = tmp; strm->avail_in = n;
		lzma_action act = (pos + n >= in_size && plan->final_action == LZMA_FINISH) ? LZMA_FINISH : LZMA_RUN;
		uint64_t ti0 = strm->total_in;
		ret = lzma_code(strm, act);
		++calls;
		size_t used = n - strm->avail_in;
		if (strm->avail_in > n) { res->sr.protocol_violation = true; snprintf(res->sr.why, sizeof(res->sr.why), "file_info: avail_in grew"); break; }
		(void)ti0;
		pos += used;
		if (ret == LZMA_SEEK_NEEDED) {
			++res->seeks;
			if (strm->seek_pos > in_size) {
				res->seek_violation = true;
				snprintf(res->why, sizeof(res->why), "seek_pos %" PRIu64 " beyond file size %zu", strm->seek_pos, in_size);
				break;
			}
			pos = strm->seek_pos;
			prev_noprog = false;
			continue;
		}
		if (ret == LZMA_OK) {
			bool noprog = used == 0;
			if (noprog && prev_noprog) { res->sr.protocol_violation = true; snprintf(res->sr.why, sizeof(res->sr.why), "file_info: LZMA_OK twice without progress"); break; }
			prev_noprog = noprog;
			if (calls > max_calls) { res->sr.hit_call_limit = true; break; }
			continue;
		}
		break;
	}
	free(tmp);
	if ((unsigned)ret > LZMA_SEEK_NEEDED) { res->sr.protocol_violation = true; snprintf(res->sr.why, sizeof(res->sr.why), "undocumented return value %d", (int)ret); }
	res->ret = ret; res->sr.ret = ret; res->sr.calls = calls;
	res->total_in = strm->total_in; res->total_out = strm->total_out;
}

// Contrast files for the first life of a reused handle (built once per process).
static void contrast_plain(vbuf *p, size_t n)
{
	static const char words[][8] = { "alpha ", "beta ", "gamma ", "delta ", "xz ", "\xE8\0\0\0\1", "lzma ", "\0\0\0\0" };
	uint32_t x = 12345;
	while (p->n < n) { x = x * 1664525u + 1013904223u; const char *w = words[(x >> 24) & 7]; vbuf_append(p, (const uint8_t *)w, strlen(w) ? strlen(w) : 4); }
	p->n = n;
}

static void enc_all(lzma_stream *strm, const vbuf *plain, vbuf *out)
{
	uint8_t buf[4096];
	strm->next_in = plain->p; strm->avail_in = plain->n;
	for (;;) {
		strm->next_out = buf; strm->avail_out = sizeof(buf);
		lzma_ret r = lzma_code(strm, LZMA_FINISH);
		vbuf_append(out, buf, sizeof(buf) - strm->avail_out);
		if (r != LZMA_OK) break;
	}
	lzma_end(strm);
}

static const vbuf *contrast_input(int kind, const uint8_t *in, size_t in_size)
{
	static vbuf xz, alone_unknown, alone_known, lz; static bool built;
	if (!built) {
		built = true;
		vbuf plain = {0}; contrast_plain(&plain, 21845);   // 0x5555 bytes
		lzma_options_lzma o; lzma_lzma_preset(&o, 0); o.lc = 0; o.lp = 2; o.pb = 0; o.dict_size = 1u << 16;
		lzma_options_delta od = { .type = LZMA_DELTA_TYPE_BYTE, .dist = 7 };
		lzma_filter f[4] = { { LZMA_FILTER_DELTA, &od }, { LZMA_FILTER_X86, NULL }, { LZMA_FILTER_LZMA2, &o }, { LZMA_VLI_UNKNOWN, NULL } };
		lzma_stream e = LZMA_STREAM_INIT;
		lzma_mt mt = { .threads = 1, .block_size = 8000, .filters = f, .check = LZMA_CHECK_SHA256 };
		if (lzma_stream_encoder_mt(&e, &mt) == LZMA_OK) enc_all(&e, &plain, &xz); else lzma_end(&e);
		lzma_stream e2 = LZMA_STREAM_INIT;
		if (lzma_alone_encoder(&e2, &o) == LZMA_OK) enc_all(&e2, &plain, &alone_unknown); else lzma_end(&e2);
		if (alone_unknown.n > 13) {
			// dictionary size field with many bits set (decoders allocate what the header says: 1 MiB - 1)
			alone_unknown.p[1] = 0xFF; alone_unknown.p[2] = 0xFF; alone_unknown.p[3] = 0x0F; alone_unknown.p[4] = 0x00;
			vbuf_append(&alone_known, alone_unknown.p, alone_unknown.n);
			for (int i = 0; i < 8; ++i) alone_known.p[5 + i] = (uint8_t)((uint64_t)plain.n >> (8 * i));   // known size (+ end marker: valid)
		}
		// .lz version 0 member, 64 KiB dictionary
		{
			uint8_t hdr[6] = { 'L', 'Z', 'I', 'P', 0, 16 };
			vbuf_append(&lz, hdr, 6);
			lzma_options_lzma l; lzma_lzma_preset(&l, 0); l.dict_size = 1u << 16; l.lc = 3; l.lp = 0; l.pb = 2;
			lzma_filter lf[2] = { { LZMA_FILTER_LZMA1, &l }, { LZMA_VLI_UNKNOWN, NULL } };
			lzma_stream e3 = LZMA_STREAM_INIT;
			if (lzma_raw_encoder(&e3, lf) == LZMA_OK) enc_all(&e3, &plain, &lz); else lzma_end(&e3);
			uint32_t crc = lzma_crc32(plain.p, plain.n, 0); uint8_t ft[12];
			for (int i = 0; i < 4; ++i) ft[i] = (uint8_t)(crc >> (8 * i));
			for (int i = 0; i < 8; ++i) ft[4 + i] = (uint8_t)((uint64_t)plain.n >> (8 * i));
			vbuf_append(&lz, ft, 12);
		}
		vbuf_free(&plain);
	}
	switch (kind) {
	case D_STREAM: case D_STREAM_MT: return &xz;
	case D_ALONE: return (in_size & 1) ? &alone_unknown : &alone_known;
	case D_LZIP: return &lz;
	case D_AUTO:
		if (in_size && in[0] == 0xFD) return &xz;
		if (in_size && in[0] == 'L') return &lz;
		return (in_size & 1) ? &alone_unknown : &alone_known;
	default: return NULL;
	}
}

void dec_run(dec_spec *s, const lzma_allocator *a, const uint8_t *in, size_t in_size,
		const slice_plan *plan, dec_result *res)
{
	memset(res, 0, sizeof(*res));
	lzma_stream strm = LZMA_STREAM_INIT;
	if (s->warm_in != NULL && s->kind != D_FILE_INFO && s->kind != D_INDEX) {
		// use the handle once for another input of the same decoder, then re-initialise it without lzma_end()
		// the first life of the handle uses another memory limit, so that anything left over from it is visible
		const uint64_t keep_limit = s->memlimit;
		s->memlimit = keep_limit == UINT64_MAX ? UINT64_C(1) << 40 : UINT64_MAX;
		// what the first life decodes, and how far (see dec_common.h)
		uint64_t wh = vhash(in, in_size < 64 ? in_size : 64, vhash(&in_size, sizeof(in_size), VHASH_INIT));
		const uint8_t *wi = s->warm_in; size_t wn = s->warm_n;
		const vbuf *cb = (!s->warm_exact && ((wh >> 8) & 1)) ? contrast_input(s->kind, in, in_size) : NULL;
		if (cb != NULL && cb->n) { wi = cb->p; wn = cb->n; }
		const bool abandon = !s->warm_exact && ((wh >> 9) & 1) && wn > 2;
		if (abandon) wn = 1 + (size_t)((wh >> 16) % (wn - 1));
		if (s->warm_mon != NULL && s->warm_fail_at > 0) alloc_mon_fail_nth_from_now(s->warm_mon, (unsigned)s->warm_fail_at);
		const lzma_ret wret = dec_init(&strm, s, a, wi, wn);
		s->memlimit = keep_limit;
		if (wret == LZMA_OK) {
			slice_plan wp = { .mode = SL_WHOLE, .final_action = abandon ? LZMA_RUN : LZMA_FINISH, .continue_informational = true };
			if (s->kind == D_STREAM_MT && s->timeout) wp.timeout_coder = true;
			if (abandon) { wp.mode = SL_RANDOM; wp.max_in = 600; wp.max_out = 600; wp.seed = wh; wp.out_limit = 1 + (size_t)((wh >> 32) % 3000); }
			vbuf wo = {0}; slice_result wr;
			slicer_run(&strm, wi + s->skip, wn - s->skip, &wo, &wp, &wr);
			vbuf_free(&wo);
		}
		if (s->warm_mon != NULL) alloc_mon_reset_plan(s->warm_mon);
		if (s->block_inited) { lzma_filters_free(s->bf, a); s->block_inited = false; }
	}
	lzma_ret ret = dec_init(&strm, s, a, in, in_size);
	if (ret != LZMA_OK) {
		res->init_failed = true; res->init_ret = ret; res->ret = ret;
		lzma_end(&strm); dec_cleanup(s, a);
		return;
	}
	// the limit in force is the one just given, also on a reused handle (and asking must not trip an assertion)
	bool readback_bad = false; uint64_t readback = 0;
	if (s->kind == D_STREAM || s->kind == D_STREAM_MT || s->kind == D_AUTO || s->kind == D_ALONE || s->kind == D_LZIP
			|| s->kind == D_INDEX || s->kind == D_FILE_INFO) {
		readback = lzma_memlimit_get(&strm);
		(void)lzma_memusage(&strm);
		readback_bad = readback != (s->memlimit ? s->memlimit : 1);
	}
	if (s->kind == D_FILE_INFO) {
		run_file_info(&strm, s, in, in_size, plan, res);
	} else {
		slice_plan p = *plan;
		if (s->kind == D_STREAM_MT && s->timeout) p.timeout_coder = true;
		slicer_run(&strm, in + s->skip, in_size - s->skip, &res->out, &p, &res->sr);
		res->ret = res->sr.ret; res->total_in = res->sr.total_in; res->total_out = res->sr.total_out;
	}
	if (readback_bad && !res->sr.protocol_violation) {
		res->sr.protocol_violation = true;
		snprintf(res->sr.why, sizeof(res->sr.why), "lzma_memlimit_get() right after %s init returned %" PRIu64 ", the limit given was %" PRIu64 "%s",
				d_names[s->kind], readback, s->memlimit, s->warm_in ? " (handle reused without lzma_end)" : "");
	}
	lzma_end(&strm);
	// keep idx_out for the caller to inspect? callers that need it use their
	// own loop; free here
	dec_cleanup(s, a);
}
