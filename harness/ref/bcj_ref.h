// Independent reference implementations of the .xz BCJ and delta
// transforms, written from the published reference algorithms (7-Zip's
// Bra*.c behaviour for x86/PowerPC/IA-64/ARM/ARM-Thumb/SPARC, the documented
// ARM64 and RISC-V transforms, and the delta pseudo-code in
// doc/xz-file-format.txt section 5.3.3). They share no code with liblzma.
#ifndef REF_BCJ_REF_H
#define REF_BCJ_REF_H
#include <stdbool.h>
#include <stddef.h>
#include <stdint.h>

// Filter IDs as in the .xz format
#define REF_ID_DELTA    0x03
#define REF_ID_X86      0x04
#define REF_ID_POWERPC  0x05
#define REF_ID_IA64     0x06
#define REF_ID_ARM      0x07
#define REF_ID_ARMTHUMB 0x08
#define REF_ID_SPARC    0x09
#define REF_ID_ARM64    0x0A
#define REF_ID_RISCV    0x0B

// Alignment required of start_offset (and the instruction granularity).
unsigned ref_bcj_alignment(unsigned id);

// Whole-stream transform, in place. `buf` holds the COMPLETE data of the
// stream from its first to its last byte; trailing bytes that cannot form a
// complete instruction are left unchanged (as the format prescribes at end
// of stream). encode=true is the compressor direction (relative -> absolute).
void ref_bcj(unsigned id, bool encode, uint32_t start_offset, uint8_t *buf, size_t n);

// Delta filter, in place, distance 1..256.
void ref_delta(bool encode, unsigned dist, uint8_t *buf, size_t n);
#endif
