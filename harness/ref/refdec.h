// refdec: an INDEPENDENT reference decoder and field checker for the .xz,
// .lzma and .lz formats, raw LZMA1/LZMA2/delta/BCJ chains and .xz Blocks.
//
// Written from doc/xz-file-format.txt, doc/lzma-file-format.txt, Igor
// Pavlov's LZMA specification (reference decoder) and the published LZMA2
// chunk layout; rules are those of DESIGN.md Appendix A. It shares no code
// with liblzma and does not link against it. Depends only on check_ref.h
// (CRC32/CRC64/SHA-256) and bcj_ref.h (BCJ/delta whole-buffer transforms).
//
// Robustness contract: every read of the input is bounds-checked, the output
// never grows beyond the caller's `out_limit` (status RD_LIMIT), all
// allocations are bounded by out_limit / input size / small constants, and
// every loop consumes input or produces output, so arbitrary garbage cannot
// crash it or make it spin.
#ifndef REF_REFDEC_H
#define REF_REFDEC_H
#include <stdbool.h>
#include <stddef.h>
#include <stdint.h>

typedef enum {
	RD_OK = 0,
	RD_INVALID,         // violates the format rules
	RD_UNSUPPORTED,     // valid-but-unsupported feature; see rd_result.unsupported_what
	RD_TRUNCATED,       // input ended before the structure was complete
	RD_LIMIT,           // out_limit reached (or an allocation failed): no verdict
	RD_NOT_THIS_FORMAT  // first magic bytes / .lzma properties byte do not match
} rd_status;
// Every proper prefix of a valid file that is not itself a valid file gives
// RD_TRUNCATED or RD_INVALID (or RD_NOT_THIS_FORMAT when even the magic is
// incomplete and wrong), never RD_OK.

// Field kinds of the structure map
enum {
	RDF_STREAM_MAGIC, RDF_STREAM_FLAGS, RDF_STREAM_HEADER_CRC,
	RDF_BLOCK_HEADER_SIZE, RDF_BLOCK_FLAGS, RDF_BLOCK_COMP_SIZE,
	RDF_BLOCK_UNCOMP_SIZE, RDF_FILTER_FLAGS, RDF_BLOCK_HEADER_PADDING,
	RDF_BLOCK_HEADER_CRC, RDF_BLOCK_PAYLOAD, RDF_BLOCK_PADDING, RDF_BLOCK_CHECK,
	RDF_INDEX_INDICATOR, RDF_INDEX_COUNT, RDF_INDEX_RECORD, RDF_INDEX_PADDING,
	RDF_INDEX_CRC, RDF_FOOTER_CRC, RDF_FOOTER_BACKWARD_SIZE, RDF_FOOTER_FLAGS,
	RDF_FOOTER_MAGIC, RDF_STREAM_PADDING,
	/* .lzma */ RDF_ALONE_PROPS, RDF_ALONE_DICT, RDF_ALONE_SIZE, RDF_ALONE_PAYLOAD,
	/* .lz */ RDF_LZIP_MAGIC, RDF_LZIP_VERSION, RDF_LZIP_DICT, RDF_LZIP_PAYLOAD,
	RDF_LZIP_CRC, RDF_LZIP_DATA_SIZE, RDF_LZIP_MEMBER_SIZE,
	RDF_TRAILING,
	/* raw */ RDF_RAW_PAYLOAD,
	RDF_KIND_COUNT
};
const char *rd_field_name(int kind);
const char *rd_status_name(rd_status s);

// Fields are recorded in input order, never overlap, and (on RD_OK) cover
// [0, consumed) completely, plus one RDF_TRAILING field for unread bytes when
// there are any. For .xz, `stream`/`block` are indices into streams[]/blocks[]
// (block = -1 for Stream-level fields; RDF_INDEX_RECORD's block is the Block
// the Record describes); for .lz, `stream` is the member number.
typedef struct { size_t off, len; int kind; int stream, block; } rd_field;

typedef struct { uint64_t id; uint8_t props[16]; size_t props_len; } rd_filter;

#define RD_FILTER_LZMA1 UINT64_C(0x4000000000000001)  // raw chains only; props = 5 bytes (properties byte + dict LE32)
#define RD_FILTER_LZMA2 UINT64_C(0x21)

typedef struct {   // per Block (also filled, as far as it applies, for .lzma / .lz members / raw chains)
	size_t offset; size_t header_size;
	uint64_t comp_size, uncomp_size;         // MEASURED sizes (Compressed Data field; Block's plaintext)
	bool has_comp_size, has_uncomp_size;     // header carried the fields ...
	uint64_t hdr_comp_size, hdr_uncomp_size; // ... with these values
	size_t padding; unsigned check_id; size_t check_size; unsigned nfilters; rd_filter filters[4];
	uint32_t dict_size_declared;
	uint64_t max_distance_used;   // max (distance+1) any match/rep used in the LZMA2/LZMA1 layer (0 = no match)
	size_t out_offset;            // offset of this Block's data in the output
	// LZMA2 chunk statistics
	unsigned chunks, chunks_uncompressed, chunks_lzma, dict_resets, state_resets, prop_changes;
	bool end_marker_seen;         // LZMA2: control 0x00 seen; LZMA1: end-of-payload marker seen
	bool first_chunk_resets_dict; // also true for an LZMA2 stream without any chunk
	bool chunk_order_ok;
	uint8_t lc, lp, pb;           // last LZMA properties in effect
} rd_block;

typedef struct {   // per LZMA2 chunk (all Blocks, in input order)
	size_t off;               // offset of the control byte in the input
	size_t header_len;        // 3 (uncompressed), 5 or 6 (LZMA)
	size_t comp_len;          // payload bytes following the header
	size_t uncomp_len;
	uint8_t control;
	int block;
} rd_chunk;

typedef struct {
	size_t offset, size; unsigned check_id; unsigned nblocks; size_t first_block;
	size_t index_offset, index_size; uint64_t backward_size; size_t padding_after;
} rd_stream;

// rd_result.unsupported_what bits
#define RDU_CHECK         0x01u  // reserved Check ID (2,3,5-9,11-15): Stream fully parsed, Check bytes not verified.
                                 //   liblzma is documented to accept this without LZMA_TELL_UNSUPPORTED_CHECK.
#define RDU_FILTER        0x02u  // unknown Filter ID, unsupported property size/value, or unsupported chain order
#define RDU_LCLP          0x04u  // LZMA1 with lc+lp > 4 (decoded anyway; the data was otherwise valid)
#define RDU_BLOCK_HEADER  0x08u  // reserved Block Flags bits or non-zero Header Padding under a correct CRC32
#define RDU_STREAM_FLAGS  0x10u  // reserved Stream Flags bits under a correct CRC32
#define RDU_LZIP_VERSION  0x20u  // .lz version >= 2
// With anything but RDU_CHECK / RDU_LCLP decoding stops at the unsupported
// field. A conforming decoder that does not support the feature must reject
// (liblzma: LZMA_OPTIONS_ERROR); only RDU_CHECK alone is "accept unverified".

typedef struct {
	rd_status status; char why[240]; size_t err_offset;
	uint8_t *out; size_t out_len;            // everything decoded (also what was decoded before an error)
	size_t consumed;                          // input bytes consumed by the accepted structure(s);
	                                          // on failure: end of the last completely accepted Stream/member (0 if none)
	rd_field *fields; size_t nfields;
	rd_block *blocks; size_t nblocks;
	rd_stream *streams; size_t nstreams;
	rd_chunk *chunks; size_t nchunks;
	// "no verdict" markers
	bool relaxation_zone;   // a match distance was >= the declared dictionary (LZMA1: max(declared, 4096))
	                        // but < max(4096, round_up16(dict)). Strictly invalid; liblzma documents accepting
	                        // it. refdec CONTINUES decoding as liblzma would: status/out describe that lenient
	                        // reading, and this flag turns the whole result into "no verdict".
	bool unsupported_check; // a Check ID other than 0,1,4,10 was present (valid, unverifiable)
	bool check_none;
	bool lzma_lclp_gt4;     // lc+lp > 4 seen (valid LZMA, unsupported by liblzma)
	unsigned unsupported_what; // RDU_* bits (non-zero iff status == RD_UNSUPPORTED, or RDU_CHECK seen before another error)
	bool alone_has_eopm, alone_size_known;
	uint64_t alone_declared_size; uint32_t alone_declared_dict;
	unsigned lzip_members; unsigned lzip_version /* of the last member */; size_t trailing_bytes;
} rd_result;

#define RD_CONCATENATED 1u

// All decoders: *r need not be initialised; always call rd_result_free(r)
// afterwards. `out_limit` caps r->out_len.
void rd_result_free(rd_result *r);

// One Stream, or with RD_CONCATENATED all Streams + Stream Padding. Without the
// flag decoding stops at the end of the first Stream: consumed says where,
// trailing_bytes how much was left.
void rd_xz_decode(const uint8_t *in, size_t n, unsigned flags, size_t out_limit, rd_result *r);

// .lzma: decodes the first stream; r->consumed tells where it ended.
void rd_alone_decode(const uint8_t *in, size_t n, size_t out_limit, rd_result *r);

// .lz members. Without RD_CONCATENATED: exactly the first member. With it: all
// members, then the trailing-data rules of Appendix A (consumed includes the
// up-to-3 bytes of partial magic that are documented to be swallowed).
void rd_lzip_decode(const uint8_t *in, size_t n, unsigned flags, size_t out_limit, rd_result *r);

// Raw chain: filters in .xz order (last = RD_FILTER_LZMA1 or RD_FILTER_LZMA2).
// LZMA1: known_size == UINT64_MAX -> end marker mandatory; otherwise the
// stream ends at known_size (code == 0), and with allow_eopm an end marker may
// follow. LZMA2: ends at the 0x00 control byte; known_size, if given, must
// match. The preset dictionary seeds the LZ window (only its last dict_size
// bytes) and lifts the "first chunk must reset the dictionary" rule.
void rd_raw_decode(const rd_filter *filters, unsigned nfilters, const uint8_t *in, size_t n,
		uint64_t known_size /* UINT64_MAX unknown */, bool allow_eopm,
		const uint8_t *preset_dict, size_t preset_dict_len, size_t out_limit, rd_result *r);

// One Block at in[0]: header + payload + padding + check.
void rd_block_decode(const uint8_t *in, size_t n, unsigned check_id, size_t out_limit, rd_result *r);

// Auto-detection rule of the *documents* (Appendix A ".lzma" paragraph):
// 'x' xz magic, 'z' lzip magic, 'l' plausible .lzma header (properties <= 224
// with lc+lp <= 4, dictionary 2^n or 2^n+2^(n-1) or 2^32-1, size unknown or
// < 2^38), 0 unrecognised (also when n is too short to tell).
// NOTE: dictionary size 0 is NOT of the form 2^n and gives 0 here.
int rd_detect(const uint8_t *in, size_t n);

// Helpers exported for other monitors
size_t rd_check_size(unsigned check_id);                 // by Check ID (0..15)
int rd_vli_decode(const uint8_t *p, size_t avail, uint64_t *v); // bytes used 1..9, 0 = invalid, -1 = needs more input
uint32_t rd_lzma2_dict_size(uint8_t props_byte);         // props_byte <= 40
#endif
