// Independent reference implementations of CRC32 (IEEE 802.3, reflected,
// polynomial 0x04C11DB7 -> 0xEDB88320), CRC64 (ECMA-182, reflected,
// polynomial 0x42F0E1EBA9EA3693 -> 0xC96C5795D7870F42) and SHA-256
// (FIPS 180-4). See check_ref.h. Nothing here comes from liblzma: the CRCs
// are derived from the polynomials written in their normal (MSB-first) form,
// and the SHA-256 constants are derived at first use from the cube/square
// roots of the first primes, as the standard defines them.
#include "check_ref.h"
#include <string.h>

/////////
// CRC //
/////////

#define POLY32_NORMAL UINT32_C(0x04C11DB7)
#define POLY64_NORMAL UINT64_C(0x42F0E1EBA9EA3693)

static uint32_t reflect32(uint32_t v)
{
	uint32_t r = 0;
	for (int i = 0; i < 32; ++i)
		if (v & (UINT32_C(1) << i))
			r |= UINT32_C(1) << (31 - i);
	return r;
}

static uint64_t reflect64(uint64_t v)
{
	uint64_t r = 0;
	for (int i = 0; i < 64; ++i)
		if (v & (UINT64_C(1) << i))
			r |= UINT64_C(1) << (63 - i);
	return r;
}

uint32_t ref_crc32_bitwise(const uint8_t *p, size_t n, uint32_t crc)
{
	const uint32_t poly = reflect32(POLY32_NORMAL);
	uint32_t r = ~crc;
	for (size_t i = 0; i < n; ++i) {
		for (int bit = 0; bit < 8; ++bit) {
			uint32_t in = (p[i] >> bit) & 1;
			uint32_t fb = (r ^ in) & 1;
			r >>= 1;
			if (fb)
				r ^= poly;
		}
	}
	return ~r;
}

uint64_t ref_crc64_bitwise(const uint8_t *p, size_t n, uint64_t crc)
{
	const uint64_t poly = reflect64(POLY64_NORMAL);
	uint64_t r = ~crc;
	for (size_t i = 0; i < n; ++i) {
		for (int bit = 0; bit < 8; ++bit) {
			uint64_t in = (p[i] >> bit) & 1;
			uint64_t fb = (r ^ in) & 1;
			r >>= 1;
			if (fb)
				r ^= poly;
		}
	}
	return ~r;
}

static uint32_t tab32[256];
static uint64_t tab64[256];
static int tabs_ready;

static void make_tabs(void)
{
	const uint32_t p32 = reflect32(POLY32_NORMAL);
	const uint64_t p64 = reflect64(POLY64_NORMAL);
	for (unsigned b = 0; b < 256; ++b) {
		uint32_t r = b;
		uint64_t q = b;
		for (int k = 0; k < 8; ++k) {
			r = (r & 1) ? (r >> 1) ^ p32 : r >> 1;
			q = (q & 1) ? (q >> 1) ^ p64 : q >> 1;
		}
		tab32[b] = r;
		tab64[b] = q;
	}
	__atomic_store_n(&tabs_ready, 1, __ATOMIC_RELEASE);
}

uint32_t ref_crc32(const uint8_t *p, size_t n, uint32_t crc)
{
	if (!__atomic_load_n(&tabs_ready, __ATOMIC_ACQUIRE))
		make_tabs();
	uint32_t r = ~crc;
	while (n--)
		r = tab32[(r ^ *p++) & 0xFF] ^ (r >> 8);
	return ~r;
}

uint64_t ref_crc64(const uint8_t *p, size_t n, uint64_t crc)
{
	if (!__atomic_load_n(&tabs_ready, __ATOMIC_ACQUIRE))
		make_tabs();
	uint64_t r = ~crc;
	while (n--)
		r = tab64[(r ^ *p++) & 0xFF] ^ (r >> 8);
	return ~r;
}

/////////////
// SHA-256 //
/////////////

static uint32_t K256[64];
static uint32_t H0[8];
static int sha_ready;

// floor(frac(root) * 2^32) for root = n-th root of prime p, by integer
// arithmetic: find the largest x with x^n <= p * 2^(32 n) ... that needs
// wide integers for n = 3 (p * 2^96), so use a 128-bit search on
// y = floor(root * 2^32) directly: y^n <= p << (32 n).
static uint32_t frac_root(unsigned p, int n)
{
	// y < 2^37 (the roots of primes <= 311 are < 18)
	uint64_t lo = 0, hi = (uint64_t)1 << 37;
	while (hi - lo > 1) {
		uint64_t mid = lo + (hi - lo) / 2;
		// compare mid^n with p << (32 n) without overflow:
		// n == 2: mid^2 < 2^74 fits in 128 bits. n == 3: mid^3 < 2^111 fits.
		unsigned __int128 v = (unsigned __int128)mid * mid;
		if (n == 3)
			v *= mid;
		unsigned __int128 t = (unsigned __int128)p << (32 * n);
		if (v <= t)
			lo = mid;
		else
			hi = mid;
	}
	return (uint32_t)lo; // low 32 bits = fractional part
}

static void sha_setup(void)
{
	unsigned found = 0;
	for (unsigned c = 2; found < 64; ++c) {
		int prime = 1;
		for (unsigned d = 2; d * d <= c; ++d)
			if (c % d == 0) { prime = 0; break; }
		if (!prime)
			continue;
		if (found < 8)
			H0[found] = frac_root(c, 2);
		K256[found] = frac_root(c, 3);
		++found;
	}
	__atomic_store_n(&sha_ready, 1, __ATOMIC_RELEASE);
}

static uint32_t rotr(uint32_t x, unsigned n) { return (x >> n) | (x << (32 - n)); }

static void sha_block(uint32_t h[8], const uint8_t blk[64])
{
	uint32_t w[64];
	for (int t = 0; t < 16; ++t)
		w[t] = ((uint32_t)blk[4 * t] << 24) | ((uint32_t)blk[4 * t + 1] << 16)
			| ((uint32_t)blk[4 * t + 2] << 8) | (uint32_t)blk[4 * t + 3];
	for (int t = 16; t < 64; ++t) {
		uint32_t s0 = rotr(w[t - 15], 7) ^ rotr(w[t - 15], 18) ^ (w[t - 15] >> 3);
		uint32_t s1 = rotr(w[t - 2], 17) ^ rotr(w[t - 2], 19) ^ (w[t - 2] >> 10);
		w[t] = s1 + w[t - 7] + s0 + w[t - 16];
	}
	uint32_t a = h[0], b = h[1], c = h[2], d = h[3], e = h[4], f = h[5], g = h[6], hh = h[7];
	for (int t = 0; t < 64; ++t) {
		uint32_t S1 = rotr(e, 6) ^ rotr(e, 11) ^ rotr(e, 25);
		uint32_t ch = (e & f) ^ (~e & g);
		uint32_t t1 = hh + S1 + ch + K256[t] + w[t];
		uint32_t S0 = rotr(a, 2) ^ rotr(a, 13) ^ rotr(a, 22);
		uint32_t maj = (a & b) ^ (a & c) ^ (b & c);
		uint32_t t2 = S0 + maj;
		hh = g; g = f; f = e; e = d + t1; d = c; c = b; b = a; a = t1 + t2;
	}
	h[0] += a; h[1] += b; h[2] += c; h[3] += d; h[4] += e; h[5] += f; h[6] += g; h[7] += hh;
}

void ref_sha256_init(ref_sha256_ctx *c)
{
	if (!__atomic_load_n(&sha_ready, __ATOMIC_ACQUIRE))
		sha_setup();
	memcpy(c->h, H0, sizeof(c->h));
	c->nbytes = 0;
	memset(c->buf, 0, sizeof(c->buf));
}

void ref_sha256_update(ref_sha256_ctx *c, const uint8_t *p, size_t n)
{
	size_t fill = (size_t)(c->nbytes % 64);
	c->nbytes += n;
	while (n > 0) {
		size_t take = 64 - fill;
		if (take > n)
			take = n;
		memcpy(c->buf + fill, p, take);
		fill += take; p += take; n -= take;
		if (fill == 64) {
			sha_block(c->h, c->buf);
			fill = 0;
		}
	}
}

void ref_sha256_final(ref_sha256_ctx *c, uint8_t out[32])
{
	uint64_t bits = c->nbytes * 8;
	size_t fill = (size_t)(c->nbytes % 64);
	// padding: 0x80, zeros up to 56 mod 64, 64-bit big-endian bit length
	c->buf[fill++] = 0x80;
	if (fill > 56) {
		memset(c->buf + fill, 0, 64 - fill);
		sha_block(c->h, c->buf);
		fill = 0;
	}
	memset(c->buf + fill, 0, 56 - fill);
	for (int i = 0; i < 8; ++i)
		c->buf[56 + i] = (uint8_t)(bits >> (56 - 8 * i));
	sha_block(c->h, c->buf);
	for (int i = 0; i < 8; ++i) {
		out[4 * i] = (uint8_t)(c->h[i] >> 24);
		out[4 * i + 1] = (uint8_t)(c->h[i] >> 16);
		out[4 * i + 2] = (uint8_t)(c->h[i] >> 8);
		out[4 * i + 3] = (uint8_t)c->h[i];
	}
}

void ref_sha256(const uint8_t *p, size_t n, uint8_t out[32])
{
	ref_sha256_ctx c;
	ref_sha256_init(&c);
	ref_sha256_update(&c, p, n);
	ref_sha256_final(&c, out);
}
