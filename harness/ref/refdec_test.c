// refdec_test: validation of the independent reference decoder (refdec)
// against liblzma and the test-file corpus.
//
//   --mode files   every file of --corpus (tests/files): good-* accepted with
//                  output identical to liblzma, bad-* rejected,
//                  unsupported-* classified RD_UNSUPPORTED
//   --mode rt      random round trips: gen_data() encoded by liblzma with
//                  gen_cfg() configurations through every encoder entry
//                  point, decoded by refdec, structure map cross-checked
//   --mode mut     mutation agreement: mutated valid streams, refdec verdict
//                  and output vs lzma_stream_decoder / lzma_alone_decoder /
//                  lzma_lzip_decoder / lzma_raw_decoder
//   --mode garbage random / semi-structured garbage into every rd_* entry
//                  point (sanitizers are the oracle) + rd_detect() vs
//                  lzma_auto_decoder()
//   --mode all     files, then rt, mut and garbage for --cases cases each
//
// Other options (hx_parse): --seed N --cases N --shard i/n --only IDX (replay
// one case verbosely; for mut "--extra K" selects mutation K of the base),
// --corpus DIR, --outdir DIR (witness files; default
// /verif/.build/refdec-scratch), --extra verbose.
// rt also contains "raw_lzma2_insert": an uncompressed LZMA2 chunk without
// dictionary reset spliced in front of an LZMA chunk that continues without
// state reset (something liblzma's encoder never emits), and mut contains
// field-aimed mutations with CRC32 re-fixing driven by refdec's structure map.
//
// Exit status 0 = no failure (disagreements inside the documented
// relaxations are counted as "no verdict" classes and do not fail).
#define _GNU_SOURCE
#include "vh.h"
#include "ref/refdec.h"
#include "ref/check_ref.h"
#include <sys/stat.h>
#include <stdarg.h>

static hx_args A;
static const char *outdir = "/verif/.build/refdec-scratch";
static uint64_t n_fail;
static bool verbose;

static void failf(const char *fmt, ...) __attribute__((format(printf, 1, 2)));
static void failf(const char *fmt, ...)
{
	va_list ap;
	va_start(ap, fmt);
	fputs("FAIL: ", stderr);
	vfprintf(stderr, fmt, ap);
	fputc('\n', stderr);
	va_end(ap);
	++n_fail;
}

static void save_witness(const char *name, const uint8_t *p, size_t n, char *path, size_t pathsz)
{
	mkdir(outdir, 0755);
	snprintf(path, pathsz, "%s/%s", outdir, name);
	FILE *f = fopen(path, "wb");
	if (f) {
		if (n) fwrite(p, 1, n, f);
		fclose(f);
	}
}

///////////////////////////////////////////////////////////////////////////
// liblzma side
///////////////////////////////////////////////////////////////////////////

typedef struct {
	lzma_ret ret;       // final return value (LZMA_STREAM_END = accepted)
	vbuf out;
	size_t total_in;
	bool limit;         // stopped because out_limit was reached
} ldec;

#define OUT_LIMIT ((size_t)48 << 20)
#define MEMLIMIT ((uint64_t)200 << 20)   // hostile dictionary sizes: LZMA_MEMLIMIT_ERROR -> no verdict

static void ll_run(lzma_stream *s, const uint8_t *in, size_t n, size_t out_limit, ldec *d)
{
	static uint8_t buf[1 << 16];
	vbuf_clear(&d->out);
	d->limit = false;
	s->next_in = in; s->avail_in = n;
	lzma_ret ret = LZMA_OK;
	for (unsigned spins = 0; ret == LZMA_OK; ) {
		s->next_out = buf; s->avail_out = sizeof(buf);
		size_t in_before = s->avail_in;
		ret = lzma_code(s, LZMA_FINISH);
		size_t got = sizeof(buf) - s->avail_out;
		if (got) vbuf_append(&d->out, buf, got);
		if (d->out.n > out_limit) { d->limit = true; break; }
		if (got == 0 && in_before == s->avail_in) {
			if (++spins > 4) { ret = LZMA_PROG_ERROR; break; }
		} else spins = 0;
	}
	d->ret = ret;
	if (ret == LZMA_MEMLIMIT_ERROR || ret == LZMA_MEM_ERROR) d->limit = true;
	d->total_in = n - s->avail_in;
}

static void ll_xz(const uint8_t *in, size_t n, uint32_t flags, ldec *d)
{
	lzma_stream s = LZMA_STREAM_INIT;
	lzma_ret r = lzma_stream_decoder(&s, MEMLIMIT, flags);
	if (r != LZMA_OK) { d->ret = r; vbuf_clear(&d->out); d->total_in = 0; return; }
	ll_run(&s, in, n, OUT_LIMIT, d);
	lzma_end(&s);
}

static void ll_alone(const uint8_t *in, size_t n, ldec *d)
{
	lzma_stream s = LZMA_STREAM_INIT;
	lzma_ret r = lzma_alone_decoder(&s, MEMLIMIT);
	if (r != LZMA_OK) { d->ret = r; vbuf_clear(&d->out); d->total_in = 0; return; }
	ll_run(&s, in, n, OUT_LIMIT, d);
	lzma_end(&s);
}

static void ll_lzip(const uint8_t *in, size_t n, uint32_t flags, ldec *d)
{
	lzma_stream s = LZMA_STREAM_INIT;
	lzma_ret r = lzma_lzip_decoder(&s, MEMLIMIT, flags);
	if (r != LZMA_OK) { d->ret = r; vbuf_clear(&d->out); d->total_in = 0; return; }
	ll_run(&s, in, n, OUT_LIMIT, d);
	lzma_end(&s);
}

static void ll_raw(const lzma_filter *f, const uint8_t *in, size_t n, ldec *d)
{
	lzma_stream s = LZMA_STREAM_INIT;
	lzma_ret r = lzma_raw_decoder(&s, f);
	if (r != LZMA_OK) { d->ret = r; vbuf_clear(&d->out); d->total_in = 0; return; }
	ll_run(&s, in, n, OUT_LIMIT, d);
	lzma_end(&s);
}

static void ll_auto(const uint8_t *in, size_t n, uint32_t flags, ldec *d)
{
	lzma_stream s = LZMA_STREAM_INIT;
	lzma_ret r = lzma_auto_decoder(&s, MEMLIMIT, flags);
	if (r != LZMA_OK) { d->ret = r; vbuf_clear(&d->out); d->total_in = 0; return; }
	ll_run(&s, in, n, OUT_LIMIT, d);
	lzma_end(&s);
}

///////////////////////////////////////////////////////////////////////////
// verdict comparison
///////////////////////////////////////////////////////////////////////////

// rd_detect() (the documents' sniffing rule) vs lzma_auto_decoder():
// "unrecognised" must correspond to LZMA_FORMAT_ERROR.
static void compare_detect(const char *label, const uint8_t *in, size_t n)
{
	static ldec d;
	if (n < 13) return;
	int det = rd_detect(in, n);
	ll_auto(in, n, 0, &d);
	bool ll_unrec = d.ret == LZMA_FORMAT_ERROR;
	if ((det == 0) == ll_unrec) { hx_count(det ? "detect_agree_recognised" : "detect_agree_unrecognised", 1); return; }
	uint32_t dict = (uint32_t)in[1] | (uint32_t)in[2] << 8 | (uint32_t)in[3] << 16 | (uint32_t)in[4] << 24;
	if (det == 0 && in[0] <= 224 && dict == 0) { hx_count("detect_class_dict0_liblzma_recognises", 1); return; }
	char path[512], name[200];
	snprintf(name, sizeof(name), "detect-%s.bin", label);
	save_witness(name, in, n, path, sizeof(path));
	failf("DETECT %s: rd_detect=%d liblzma auto decoder %s | witness %s", label, det, lzma_ret_name(d.ret), path);
}

enum { RV_ACCEPT, RV_ACCEPT_UNVERIFIED, RV_REJECT, RV_REJECT_UNSUPPORTED, RV_NOVERDICT };

static int rd_verdict(const rd_result *r)
{
	if (r->relaxation_zone || r->status == RD_LIMIT)
		return RV_NOVERDICT;
	switch (r->status) {
	case RD_OK: return RV_ACCEPT;
	case RD_UNSUPPORTED:
		return r->unsupported_what == RDU_CHECK ? RV_ACCEPT_UNVERIFIED : RV_REJECT_UNSUPPORTED;
	default: return RV_REJECT;
	}
}

typedef struct {
	uint64_t both_accept, both_reject, unsup_reject, unverified_accept, noverdict_relax, noverdict_limit;
	uint64_t dis_rd_accept_ll_reject, dis_rd_reject_ll_accept, dis_output, dis_consumed, dis_unsup_ll_accept;
	uint64_t ll_buf_rd_trunc, ll_buf_rd_invalid, ll_data_rd_trunc;
} agree_stats;

static agree_stats AS[9];
static const char *const as_names[9] = { "xz", "xz-concat", "alone", "lzip", "lzip-concat", "raw-lzma2", "raw-lzma1", "files", "block" };

// Compare a refdec result with a liblzma result for the same input.
// `tag` names the decoder pair, `label` the case. check_consumed: compare
// r->consumed with liblzma's total_in on acceptance. Returns true on agreement
// (or no verdict).
static bool compare(int as, const char *label, const uint8_t *in, size_t n,
		const rd_result *r, const ldec *d, bool check_consumed)
{
	agree_stats *S = &AS[as];
	const bool ll_accept = d->ret == LZMA_STREAM_END;
	const int v = rd_verdict(r);
	const char *cls = NULL;
	if (d->limit) { ++S->noverdict_limit; return true; }
	if (v == RV_NOVERDICT) {
		if (r->relaxation_zone) {
			++S->noverdict_relax;
			// how does liblzma read it? (informational: refdec's lenient reading predicts liblzma)
			bool lenient_accept = r->status == RD_OK || (r->status == RD_UNSUPPORTED && r->unsupported_what == RDU_CHECK);
			if (lenient_accept && ll_accept && r->out_len == d->out.n && (!r->out_len || !memcmp(r->out, d->out.p, r->out_len)))
				hx_count("relax_lenient_accept_liblzma_accept_same_output", 1);
			else if (!lenient_accept && !ll_accept) hx_count("relax_lenient_reject_liblzma_reject", 1);
			else if (lenient_accept && !ll_accept) hx_count("relax_lenient_accept_liblzma_REJECT", 1);
			else hx_count(ll_accept && lenient_accept ? "relax_both_accept_OUTPUT_DIFFERS" : "relax_lenient_reject_liblzma_ACCEPT", 1);
		} else ++S->noverdict_limit;
		return true;
	}
	if (v == RV_ACCEPT || v == RV_ACCEPT_UNVERIFIED) {
		if (!ll_accept) {
			cls = "refdec-accepts_liblzma-rejects"; ++S->dis_rd_accept_ll_reject;
		} else if (r->out_len != d->out.n || (r->out_len && memcmp(r->out, d->out.p, r->out_len) != 0)) {
			cls = "both-accept_output-differs"; ++S->dis_output;
		} else if (check_consumed && r->consumed != d->total_in) {
			cls = "both-accept_consumed-differs"; ++S->dis_consumed;
		} else {
			if (v == RV_ACCEPT) ++S->both_accept; else ++S->unverified_accept;
			return true;
		}
	} else if (v == RV_REJECT_UNSUPPORTED) {
		if (ll_accept) { cls = "refdec-unsupported_liblzma-accepts"; ++S->dis_unsup_ll_accept; }
		else { ++S->unsup_reject; return true; }
	} else {
		if (ll_accept) { cls = "refdec-rejects_liblzma-accepts"; ++S->dis_rd_reject_ll_accept; }
		else {
			++S->both_reject;
			if (d->ret == LZMA_BUF_ERROR || d->ret == LZMA_OK) {
				if (r->status == RD_TRUNCATED) ++S->ll_buf_rd_trunc; else ++S->ll_buf_rd_invalid;
			} else if (r->status == RD_TRUNCATED) ++S->ll_data_rd_trunc;
			return true;
		}
	}
	char path[512], name[256];
	snprintf(name, sizeof(name), "dis-%s-%s-%s.bin", as_names[as], cls, label);
	for (char *q = name; *q; ++q) if (*q == '/' || *q == ' ') *q = '_';
	save_witness(name, in, n, path, sizeof(path));
	failf("DISAGREE [%s] %s: %s | refdec %s (%s @%zu) out=%zu consumed=%zu | liblzma %s out=%zu total_in=%zu | witness %s",
		as_names[as], label, cls, rd_status_name(r->status), r->why, r->err_offset, r->out_len, r->consumed,
		lzma_ret_name(d->ret), d->out.n, d->total_in, path);
	return false;
}

static void print_agree_stats(void)
{
	for (int i = 0; i < 9; ++i) {
		agree_stats *S = &AS[i];
		uint64_t tot = S->both_accept + S->both_reject + S->unsup_reject + S->unverified_accept
			+ S->noverdict_relax + S->noverdict_limit + S->dis_rd_accept_ll_reject
			+ S->dis_rd_reject_ll_accept + S->dis_output + S->dis_consumed + S->dis_unsup_ll_accept;
		if (tot == 0) continue;
		fprintf(stderr, "agreement[%-11s] total=%" PRIu64 " both_accept=%" PRIu64 " both_reject=%" PRIu64
			" (liblzma BUF_ERROR: refdec TRUNCATED %" PRIu64 " / INVALID %" PRIu64 "; liblzma other error & refdec TRUNCATED %" PRIu64 ")"
			" unsupported&rejected=%" PRIu64 " check-unverified&accepted=%" PRIu64
			" noverdict_relaxation=%" PRIu64 " noverdict_limit=%" PRIu64
			" | DISAGREE: rd_accept/ll_reject=%" PRIu64 " rd_reject/ll_accept=%" PRIu64 " output=%" PRIu64
			" consumed=%" PRIu64 " rd_unsupported/ll_accept=%" PRIu64 "\n",
			as_names[i], tot, S->both_accept, S->both_reject, S->ll_buf_rd_trunc, S->ll_buf_rd_invalid,
			S->ll_data_rd_trunc, S->unsup_reject, S->unverified_accept, S->noverdict_relax, S->noverdict_limit,
			S->dis_rd_accept_ll_reject, S->dis_rd_reject_ll_accept, S->dis_output, S->dis_consumed,
			S->dis_unsup_ll_accept);
	}
}

///////////////////////////////////////////////////////////////////////////
// structure-map self-consistency (every accepted result)
///////////////////////////////////////////////////////////////////////////

static bool check_map(const char *label, const rd_result *r, size_t n)
{
	size_t pos = 0;
	for (size_t i = 0; i < r->nfields; ++i) {
		const rd_field *f = &r->fields[i];
		if (f->off != pos || f->len == 0 || f->len > n - f->off) {
			failf("%s: structure map field %zu (%s) off=%zu len=%zu does not continue at %zu",
				label, i, rd_field_name(f->kind), f->off, f->len, pos);
			return false;
		}
		pos += f->len;
	}
	bool complete = r->status == RD_OK || (r->status == RD_UNSUPPORTED && !(r->unsupported_what & ~(RDU_CHECK | RDU_LCLP)));
	if (complete && pos != n) {
		failf("%s: structure map covers %zu of %zu bytes", label, pos, n);
		return false;
	}
	if (complete && r->consumed + r->trailing_bytes != n) {
		failf("%s: consumed %zu + trailing %zu != %zu", label, r->consumed, r->trailing_bytes, n);
		return false;
	}
	return true;
}

///////////////////////////////////////////////////////////////////////////
// mode files
///////////////////////////////////////////////////////////////////////////

static bool has_suffix(const char *s, const char *suf)
{
	size_t a = strlen(s), b = strlen(suf);
	return a >= b && strcmp(s + a - b, suf) == 0;
}

static void mode_files(void)
{
	const char *dir = A.corpus && *A.corpus ? A.corpus : "/verif/.build/src/tests/files";
	char **names;
	size_t nn = list_dir(dir, &names);
	unsigned ngood = 0, nbad = 0, nunsup = 0;
	vbuf f = {0};
	ldec d = {0};
	for (size_t i = 0; i < nn; ++i) {
		const char *path = names[i];
		const char *base = strrchr(path, '/'); base = base ? base + 1 : path;
		int fmt = has_suffix(base, ".xz") ? 'x' : has_suffix(base, ".lzma") ? 'l' : has_suffix(base, ".lz") ? 'z' : 0;
		if (!fmt || !load_file(path, &f)) { free(names[i]); continue; }
		rd_result r;
		if (fmt == 'x') { rd_xz_decode(f.p, f.n, RD_CONCATENATED, OUT_LIMIT, &r); ll_xz(f.p, f.n, LZMA_CONCATENATED, &d); }
		else if (fmt == 'l') { rd_alone_decode(f.p, f.n, OUT_LIMIT, &r); ll_alone(f.p, f.n, &d); }
		else { rd_lzip_decode(f.p, f.n, RD_CONCATENATED, OUT_LIMIT, &r); ll_lzip(f.p, f.n, LZMA_CONCATENATED, &d); }
		int det = rd_detect(f.p, f.n);
		if (verbose)
			fprintf(stderr, "%-44s refdec %-15s out=%-8zu consumed=%zu/%zu %s | liblzma %s out=%zu in=%zu | detect=%c\n", base,
				rd_status_name(r.status), r.out_len, r.consumed, f.n, r.why, lzma_ret_name(d.ret), d.out.n, d.total_in,
				det ? det : '-');
		check_map(base, &r, f.n);
		if (!strncmp(base, "good-", 5)) {
			++ngood;
			if (r.status != RD_OK) failf("%s: good file not accepted: %s (%s @%zu)", base, rd_status_name(r.status), r.why, r.err_offset);
			if (d.ret != LZMA_STREAM_END) failf("%s: liblzma does not accept a good file: %s", base, lzma_ret_name(d.ret));
			if (r.out_len != d.out.n || (r.out_len && memcmp(r.out, d.out.p, r.out_len))) failf("%s: output differs from liblzma's", base);
			if (r.consumed != d.total_in) failf("%s: consumed %zu != liblzma total_in %zu", base, r.consumed, d.total_in);
			if (det != fmt) failf("%s: rd_detect says %d", base, det);
			if (fmt == 'l' && r.consumed != f.n) failf("%s: .lzma not consumed to the end", base);
		} else if (!strncmp(base, "bad-", 4)) {
			++nbad;
			if (r.status != RD_INVALID && r.status != RD_TRUNCATED && r.status != RD_NOT_THIS_FORMAT)
				failf("%s: bad file not rejected: %s", base, rd_status_name(r.status));
			if (d.ret == LZMA_STREAM_END) failf("%s: liblzma accepts a bad file", base);
		} else if (!strncmp(base, "unsupported-", 12)) {
			++nunsup;
			if (r.status != RD_UNSUPPORTED) failf("%s: unsupported file classified %s (%s)", base, rd_status_name(r.status), r.why);
		}
		compare(7, base, f.p, f.n, &r, &d, true);
		// every proper prefix of a good file must not be accepted as a complete file
		if (!strncmp(base, "good-", 5) && f.n < 4000) {
			for (size_t cut = 0; cut < f.n; ++cut) {
				rd_result q;
				if (fmt == 'x') rd_xz_decode(f.p, cut, RD_CONCATENATED, OUT_LIMIT, &q);
				else if (fmt == 'l') rd_alone_decode(f.p, cut, OUT_LIMIT, &q);
				else rd_lzip_decode(f.p, cut, RD_CONCATENATED, OUT_LIMIT, &q);
				bool ok_prefix = false;
				if (q.status == RD_OK) {
					// legitimate only if liblzma also accepts this prefix (a shorter valid file)
					ldec e = {0};
					if (fmt == 'x') ll_xz(f.p, cut, LZMA_CONCATENATED, &e);
					else if (fmt == 'l') ll_alone(f.p, cut, &e);
					else ll_lzip(f.p, cut, LZMA_CONCATENATED, &e);
					ok_prefix = e.ret == LZMA_STREAM_END;
					vbuf_free(&e.out);
					if (!ok_prefix) failf("%s: prefix of %zu bytes accepted by refdec only", base, cut);
				}
				rd_result_free(&q);
			}
		}
		rd_result_free(&r);
		free(names[i]);
	}
	free(names);
	vbuf_free(&f); vbuf_free(&d.out);
	fprintf(stderr, "files: %u good, %u bad, %u unsupported checked in %s\n", ngood, nbad, nunsup, dir);
	if (ngood < 30 || nbad < 40 || nunsup < 5) failf("files: corpus smaller than expected");
}

///////////////////////////////////////////////////////////////////////////
// building valid streams with liblzma's encoders
///////////////////////////////////////////////////////////////////////////

enum { F_XZ, F_ALONE, F_LZIP, F_RAW, F_BLOCK };
enum { EP_STREAM, EP_STREAM_MT, EP_EASY_BUF, EP_MULTI, EP_ALONE, EP_ALONE_KNOWN, EP_ALONE_KNOWN_NOEOPM,
	EP_RAW, EP_BLOCK_BUF, EP_BLOCK, EP_LZIP, EP_RAW_INSERT, EP_COUNT };
static const char *const ep_names[EP_COUNT] = { "stream", "stream_mt", "easy_buffer", "multi_stream", "alone",
	"alone_known_eopm", "alone_known_noeopm", "raw", "block_buffer", "block", "lzip", "raw_lzma2_insert" };

typedef struct {
	int fmt, ep;
	vbuf data, enc;
	vcfg cfg;
	bool have_cfg;
	// raw
	rd_filter rf[4]; unsigned nrf; uint64_t known; bool allow_eopm;
	lzma_check check;
	unsigned nstreams; size_t first_stream_size; size_t total_padding;
	unsigned lz_members; size_t lz_trailing; size_t lz_swallowed;
	bool alone_known, alone_eopm;
	char desc[700];
} tcase;

static void tcase_free(tcase *t)
{
	vbuf_free(&t->data); vbuf_free(&t->enc);
	if (t->have_cfg) vcfg_free(&t->cfg);
	t->have_cfg = false;
}

// Drive an initialised encoder over the input in random pieces; optional
// flushes (1 = SYNC_FLUSH allowed, 2 = FULL_FLUSH allowed, 3 = both).
static lzma_ret enc_run(lzma_stream *s, const uint8_t *in, size_t n, vbuf *out, vrng *r, unsigned flushes)
{
	static uint8_t buf[1 << 16];
	size_t pos = 0;
	lzma_ret ret = LZMA_OK;
	bool pieces = vrng_chance(r, 1, 2);
	while (ret == LZMA_OK) {
		size_t piece = n - pos;
		lzma_action act = LZMA_FINISH;
		if (pieces && piece > 0) {
			size_t p = 1 + vrng_logsize(r, piece);
			if (p < piece) {
				piece = p;
				act = LZMA_RUN;
				if (flushes && vrng_chance(r, 1, 3)) {
					if (flushes == 3) act = vrng_chance(r, 1, 2) ? LZMA_SYNC_FLUSH : LZMA_FULL_FLUSH;
					else act = flushes == 1 ? LZMA_SYNC_FLUSH : LZMA_FULL_FLUSH;
				}
			}
		}
		s->next_in = in + pos; s->avail_in = piece;
		pos += piece;
		for (;;) {
			s->next_out = buf; s->avail_out = sizeof(buf);
			ret = lzma_code(s, act);
			vbuf_append(out, buf, sizeof(buf) - s->avail_out);
			if (ret != LZMA_OK) break;
			if (act == LZMA_RUN && s->avail_in == 0) break;
		}
		if (ret == LZMA_STREAM_END && act != LZMA_FINISH) ret = LZMA_OK;
		else if (ret == LZMA_STREAM_END) break;
	}
	return ret;
}

static bool chain_has_bcj(const vcfg *c)
{
	for (unsigned i = 0; i + 1 < c->nfilters; ++i)
		if (c->filters[i].id != LZMA_FILTER_DELTA) return true;
	return false;
}

static bool filters_to_rd(const lzma_filter *f, rd_filter *rf, unsigned *n)
{
	unsigned k = 0;
	for (; f[k].id != LZMA_VLI_UNKNOWN; ++k) {
		if (k == 4) return false;
		uint32_t ps = 0;
		if (lzma_properties_size(&ps, &f[k]) != LZMA_OK || ps > 16) return false;
		memset(&rf[k], 0, sizeof(rf[k]));
		rf[k].id = f[k].id == LZMA_FILTER_LZMA1EXT ? RD_FILTER_LZMA1 : f[k].id;
		rf[k].props_len = ps;
		if (ps && lzma_properties_encode(&f[k], rf[k].props) != LZMA_OK) return false;
	}
	*n = k;
	return true;
}

static void put_le32(vbuf *b, uint32_t v) { uint8_t t[4] = { (uint8_t)v, (uint8_t)(v >> 8), (uint8_t)(v >> 16), (uint8_t)(v >> 24) }; vbuf_append(b, t, 4); }
static void put_le64(vbuf *b, uint64_t v) { put_le32(b, (uint32_t)v); put_le32(b, (uint32_t)(v >> 32)); }

// One .xz Stream of `data` appended to `enc`.
static lzma_ret make_xz_stream(vrng *r, tcase *t, int ep, const uint8_t *data, size_t n, vbuf *enc)
{
	lzma_stream s = LZMA_STREAM_INIT;
	lzma_ret ret;
	if (ep == EP_STREAM_MT) {
		lzma_mt mt = { .flags = 0, .threads = 1 + vrng_below(r, 4),
			.block_size = vrng_chance(r, 1, 2) ? 0 : 4096 + vrng_logsize(r, 1 << 20),
			.timeout = vrng_chance(r, 1, 4) ? 1 : 0, .preset = t->cfg.preset,
			.filters = t->cfg.filters, .check = t->cfg.check };
		ret = lzma_stream_encoder_mt(&s, &mt);
		if (ret == LZMA_OK) ret = enc_run(&s, data, n, enc, r, vrng_chance(r, 1, 2) ? 2 : 0);
	} else if (ep == EP_EASY_BUF) {
		size_t bound = lzma_stream_buffer_bound(n);
		size_t base = enc->n, op = 0;
		vbuf_reserve(enc, base + bound);
		ret = lzma_stream_buffer_encode(t->cfg.filters, t->cfg.check, NULL, data, n, enc->p + base, &op, bound);
		if (ret == LZMA_OK) { enc->n = base + op; ret = LZMA_STREAM_END; }
		return ret;
	} else {
		ret = lzma_stream_encoder(&s, t->cfg.filters, t->cfg.check);
		unsigned fl = vrng_chance(r, 1, 2) ? 0 : (chain_has_bcj(&t->cfg) ? 2 : 3);
		if (ret == LZMA_OK) ret = enc_run(&s, data, n, enc, r, fl);
	}
	lzma_end(&s);
	return ret;
}

static const uint8_t lz_dict_bytes[] = { 0x0C, 0x0D, 0x2D, 0xED, 0x10, 0x34, 0x14, 0xF5, 0x16, 0x17 };

// Build a valid stream. max_size bounds the plaintext; small=true keeps
// dictionaries and sizes small (mutation mode).
static bool make_case(vrng *r, tcase *t, int ep, size_t max_size, uint32_t max_dict)
{
	memset(t, 0, sizeof(*t));
	t->ep = ep;
	t->known = UINT64_MAX;
	size_t size = gen_size(r, max_size);
	lzma_ret ret = LZMA_PROG_ERROR;
	int w = snprintf(t->desc, sizeof(t->desc), "%s ", ep_names[ep]);
	switch (ep) {
	case EP_STREAM: case EP_STREAM_MT: case EP_EASY_BUF: case EP_MULTI: {
		t->fmt = F_XZ;
		gen_cfg(r, &t->cfg, VCFG_XZ, max_dict); t->have_cfg = true;
		gen_data(r, &t->data, size, -1, t->cfg.lzma.dict_size);
		t->check = t->cfg.check;
		if (ep != EP_MULTI) {
			ret = make_xz_stream(r, t, ep, t->data.p, t->data.n, &t->enc);
			t->nstreams = 1; t->first_stream_size = t->enc.n;
		} else {
			unsigned ns = 2 + vrng_below(r, 2);
			size_t pos = 0;
			for (unsigned i = 0; i < ns; ++i) {
				size_t part = i + 1 == ns ? t->data.n - pos : (size_t)vrng_below64(r, t->data.n - pos + 1);
				ret = make_xz_stream(r, t, vrng_chance(r, 1, 3) ? EP_STREAM_MT : EP_STREAM, t->data.p + pos, part, &t->enc);
				if (ret != LZMA_STREAM_END) break;
				if (i == 0) t->first_stream_size = t->enc.n;
				pos += part;
				size_t pad = 4 * vrng_below(r, 4);
				if (vrng_chance(r, 1, 2)) pad = 0;
				for (size_t k = 0; k < pad; ++k) vbuf_putc(&t->enc, 0);
				t->total_padding += pad;
			}
			t->nstreams = ns;
		}
		w += snprintf(t->desc + w, sizeof(t->desc) - w, "%s", t->cfg.desc);
		break;
	}
	case EP_ALONE: case EP_ALONE_KNOWN: {
		t->fmt = F_ALONE;
		gen_cfg(r, &t->cfg, VCFG_ONLY_LZMA1, max_dict); t->have_cfg = true;
		gen_data(r, &t->data, size, -1, t->cfg.lzma.dict_size);
		lzma_stream s = LZMA_STREAM_INIT;
		ret = lzma_alone_encoder(&s, &t->cfg.lzma);
		if (ret == LZMA_OK) ret = enc_run(&s, t->data.p, t->data.n, &t->enc, r, 0);
		lzma_end(&s);
		t->alone_eopm = true;
		if (ret == LZMA_STREAM_END && ep == EP_ALONE_KNOWN && t->enc.n >= 13) {
			uint64_t v = t->data.n;
			for (int i = 0; i < 8; ++i) t->enc.p[5 + i] = (uint8_t)(v >> (8 * i));
			t->alone_known = true;
		}
		w += snprintf(t->desc + w, sizeof(t->desc) - w, "%s", t->cfg.desc);
		break;
	}
	case EP_ALONE_KNOWN_NOEOPM: {
		// LZMA1EXT raw encoder without end marker, wrapped into a .lzma header
		t->fmt = F_ALONE;
		gen_cfg(r, &t->cfg, VCFG_ONLY_LZMA1, max_dict); t->have_cfg = true;
		gen_data(r, &t->data, size, -1, t->cfg.lzma.dict_size);
		t->cfg.filters[0].id = LZMA_FILTER_LZMA1EXT;
		t->cfg.lzma.ext_flags = 0;
		lzma_set_ext_size(t->cfg.lzma, (uint64_t)t->data.n);
		uint8_t props[5];
		if (lzma_properties_encode(&t->cfg.filters[0], props) != LZMA_OK) return false;
		// any 32-bit dictionary value is legal in the header; sometimes store the
		// exact (unrounded) size, which is what exercises the relaxation zone
		vbuf_append(&t->enc, props, 5);
		put_le64(&t->enc, t->data.n);
		lzma_stream s = LZMA_STREAM_INIT;
		ret = lzma_raw_encoder(&s, t->cfg.filters);
		if (ret == LZMA_OK) ret = enc_run(&s, t->data.p, t->data.n, &t->enc, r, 0);
		lzma_end(&s);
		t->alone_known = true; t->alone_eopm = false;
		w += snprintf(t->desc + w, sizeof(t->desc) - w, "%s", t->cfg.desc);
		break;
	}
	case EP_RAW: {
		t->fmt = F_RAW;
		gen_cfg(r, &t->cfg, VCFG_XZ | VCFG_ALLOW_LZMA1 | VCFG_ALLOW_PRESETD | VCFG_LZMA1EXT, max_dict); t->have_cfg = true;
		gen_data(r, &t->data, size, -1, t->cfg.lzma.dict_size);
		lzma_filter *last = &t->cfg.filters[t->cfg.nfilters - 1];
		if (last->id == LZMA_FILTER_LZMA1EXT) {
			bool eopm = (t->cfg.lzma.ext_flags & LZMA_LZMA1EXT_ALLOW_EOPM) != 0;
			if (!eopm || vrng_chance(r, 1, 2)) {
				lzma_set_ext_size(t->cfg.lzma, (uint64_t)t->data.n);
				t->known = t->data.n;
			}
			t->allow_eopm = eopm;
		} else if (last->id == LZMA_FILTER_LZMA1) {
			t->allow_eopm = true;
		}
		if (!filters_to_rd(t->cfg.filters, t->rf, &t->nrf)) return false;
		lzma_stream s = LZMA_STREAM_INIT;
		ret = lzma_raw_encoder(&s, t->cfg.filters);
		unsigned fl = 0;
		if (last->id == LZMA_FILTER_LZMA2 && !chain_has_bcj(&t->cfg) && vrng_chance(r, 1, 2)) fl = 1;
		if (ret == LZMA_OK) ret = enc_run(&s, t->data.p, t->data.n, &t->enc, r, fl);
		lzma_end(&s);
		w += snprintf(t->desc + w, sizeof(t->desc) - w, "%s known=%" PRId64 " eopm_ok=%d", t->cfg.desc, (int64_t)t->known, t->allow_eopm);
		break;
	}
	case EP_BLOCK_BUF: case EP_BLOCK: {
		t->fmt = F_BLOCK;
		gen_cfg(r, &t->cfg, VCFG_XZ, max_dict); t->have_cfg = true;
		gen_data(r, &t->data, size, -1, t->cfg.lzma.dict_size);
		t->check = t->cfg.check;
		lzma_block b;
		memset(&b, 0, sizeof(b));
		b.version = 1; b.check = t->cfg.check; b.filters = t->cfg.filters;
		if (ep == EP_BLOCK_BUF) {
			size_t bound = lzma_block_buffer_bound(t->data.n), op = 0;
			vbuf_reserve(&t->enc, bound + 16);
			if (vrng_chance(r, 1, 6)) ret = lzma_block_uncomp_encode(&b, t->data.p, t->data.n, t->enc.p, &op, bound);
			else ret = lzma_block_buffer_encode(&b, NULL, t->data.p, t->data.n, t->enc.p, &op, bound);
			if (ret == LZMA_OK) { t->enc.n = op; ret = LZMA_STREAM_END; }
		} else {
			b.compressed_size = LZMA_VLI_UNKNOWN; b.uncompressed_size = LZMA_VLI_UNKNOWN;
			if (vrng_chance(r, 1, 3)) b.uncompressed_size = t->data.n;
			ret = lzma_block_header_size(&b);
			if (vrng_chance(r, 1, 3) && b.header_size + 8 <= LZMA_BLOCK_HEADER_SIZE_MAX) b.header_size += 4 * vrng_below(r, 3);
			uint8_t hdr[LZMA_BLOCK_HEADER_SIZE_MAX];
			if (ret == LZMA_OK) ret = lzma_block_header_encode(&b, hdr);
			if (ret == LZMA_OK) {
				vbuf_append(&t->enc, hdr, b.header_size);
				lzma_stream s = LZMA_STREAM_INIT;
				ret = lzma_block_encoder(&s, &b);
				if (ret == LZMA_OK) ret = enc_run(&s, t->data.p, t->data.n, &t->enc, r, chain_has_bcj(&t->cfg) ? 0 : 1);
				lzma_end(&s);
			}
		}
		w += snprintf(t->desc + w, sizeof(t->desc) - w, "%s", t->cfg.desc);
		break;
	}
	case EP_RAW_INSERT: {
		// LZMA2 semantics the encoder never emits on its own: an uncompressed
		// chunk WITHOUT dictionary reset (control 0x02) spliced in front of an
		// LZMA chunk that continues without state reset. The spliced chunk
		// repeats the last L bytes (L = dictionary size, a multiple of 16), so
		// every distance, the previous byte and the position bits seen by the
		// following chunks are unchanged: the stream stays valid iff probabilities,
		// state and rep0-3 persist across the uncompressed chunk (Appendix A).
		t->fmt = F_RAW;
		gen_cfg(r, &t->cfg, 0, 4096); t->have_cfg = true;
		if (t->cfg.lzma.preset_dict) { t->cfg.lzma.preset_dict = NULL; t->cfg.lzma.preset_dict_size = 0; }
		const size_t L = 4096;
		t->cfg.lzma.dict_size = (uint32_t)L;
		vbuf plain = {0};
		size_t psize = L + 2 + gen_size(r, max_size);
		gen_data(r, &plain, psize, vrng_chance(r, 1, 2) ? GD_TEXT : -1, L);
		if (plain.n < L + 2) { vbuf_free(&plain); return false; }
		size_t cutp = L + (size_t)vrng_below64(r, plain.n - L - 1);
		if (!filters_to_rd(t->cfg.filters, t->rf, &t->nrf)) { vbuf_free(&plain); return false; }
		vbuf e0 = {0};
		lzma_stream s = LZMA_STREAM_INIT;
		ret = lzma_raw_encoder(&s, t->cfg.filters);
		if (ret == LZMA_OK) {
			static uint8_t ob[1 << 16];
			s.next_in = plain.p; s.avail_in = cutp;
			do { s.next_out = ob; s.avail_out = sizeof(ob); ret = lzma_code(&s, LZMA_SYNC_FLUSH); vbuf_append(&e0, ob, sizeof(ob) - s.avail_out); } while (ret == LZMA_OK);
			if (ret == LZMA_STREAM_END) {
				s.next_in = plain.p + cutp; s.avail_in = plain.n - cutp;
				do { s.next_out = ob; s.avail_out = sizeof(ob); ret = lzma_code(&s, LZMA_FINISH); vbuf_append(&e0, ob, sizeof(ob) - s.avail_out); } while (ret == LZMA_OK);
			}
		}
		lzma_end(&s);
		if (ret == LZMA_STREAM_END) {
			rd_result b0;
			rd_raw_decode(t->rf, t->nrf, e0.p, e0.n, UINT64_MAX, false, NULL, 0, OUT_LIMIT, &b0);
			size_t upos = 0, at = SIZE_MAX; uint8_t ctl = 0;
			for (size_t i = 0; i < b0.nchunks; ++i) {
				if (upos == cutp && b0.chunks[i].control != 0) { at = b0.chunks[i].off; ctl = b0.chunks[i].control; break; }
				upos += b0.chunks[i].uncomp_len;
			}
			if (b0.status != RD_OK || at == SIZE_MAX) {
				failf("raw_lzma2_insert: no chunk boundary at the flush point (status %s)", rd_status_name(b0.status));
				ret = LZMA_PROG_ERROR;
			} else {
				char cn[48]; snprintf(cn, sizeof(cn), "insert_before_control_0x%02X", ctl & 0xE0); hx_count(cn, 1);
				vbuf_append(&t->enc, e0.p, at);
				uint8_t h[3] = { 0x02, (uint8_t)((L - 1) >> 8), (uint8_t)(L - 1) };
				vbuf_append(&t->enc, h, 3);
				vbuf_append(&t->enc, plain.p + cutp - L, L);
				vbuf_append(&t->enc, e0.p + at, e0.n - at);
				vbuf_append(&t->data, plain.p, cutp);
				vbuf_append(&t->data, plain.p + cutp - L, L);
				vbuf_append(&t->data, plain.p + cutp, plain.n - cutp);
			}
			rd_result_free(&b0);
		}
		vbuf_free(&e0); vbuf_free(&plain);
		w += snprintf(t->desc + w, sizeof(t->desc) - w, "%s cut=%zu", t->cfg.desc, cutp);
		break;
	}
	case EP_LZIP: {
		t->fmt = F_LZIP;
		gen_cfg(r, &t->cfg, VCFG_ONLY_LZMA1, max_dict); t->have_cfg = true;
		t->cfg.lzma.lc = 3; t->cfg.lzma.lp = 0; t->cfg.lzma.pb = 2;
		gen_data(r, &t->data, size, -1, 4096);
		unsigned nm = vrng_chance(r, 2, 3) ? 1 : 2 + vrng_below(r, 2);
		size_t pos = 0;
		ret = LZMA_STREAM_END;
		for (unsigned i = 0; i < nm && ret == LZMA_STREAM_END; ++i) {
			size_t part = i + 1 == nm ? t->data.n - pos : (size_t)vrng_below64(r, t->data.n - pos + 1);
			uint8_t db = lz_dict_bytes[vrng_below(r, sizeof(lz_dict_bytes))];
			uint32_t dict = (1u << (db & 31)) - (db >> 5) * (1u << ((db & 31) - 4));
			t->cfg.lzma.dict_size = dict;
			unsigned ver = vrng_below(r, 2);
			size_t mstart = t->enc.n;
			vbuf_append(&t->enc, "LZIP", 4); vbuf_putc(&t->enc, (uint8_t)ver); vbuf_putc(&t->enc, db);
			lzma_stream s = LZMA_STREAM_INIT;
			ret = lzma_raw_encoder(&s, t->cfg.filters);
			if (ret == LZMA_OK) ret = enc_run(&s, t->data.p + pos, part, &t->enc, r, 0);
			lzma_end(&s);
			put_le32(&t->enc, ref_crc32(t->data.p + pos, part, 0));
			put_le64(&t->enc, part);
			if (ver == 1) put_le64(&t->enc, t->enc.n + 8 - mstart);
			pos += part;
		}
		t->lz_members = nm;
		t->first_stream_size = 0;
		if (vrng_chance(r, 1, 3)) {
			// trailing data, sometimes starting with a partial magic
			static const char *const tr[] = { "junk", "L", "LZ", "LZI", "LZIx", "Lx", "\0\0\0\0", "LZIQ trailing" };
			const char *q = tr[vrng_below(r, 8)];
			size_t ql = q[0] ? strlen(q) : 4;
			size_t k = 0; while (k < ql && k < 4 && q[k] == "LZIP"[k]) ++k;
			t->lz_swallowed = k; t->lz_trailing = ql - k;
			vbuf_append(&t->enc, q, ql);
		}
		w += snprintf(t->desc + w, sizeof(t->desc) - w, "members=%u trailing=%zu+%zu %s", nm, t->lz_swallowed, t->lz_trailing, t->cfg.desc);
		break;
	}
	}
	if (ret != LZMA_STREAM_END) {
		failf("encoder failed: %s (%s)", lzma_ret_name(ret), t->desc);
		return false;
	}
	return true;
}

static void decode_case_rd(const tcase *t, const uint8_t *in, size_t n, unsigned flags, rd_result *r)
{
	switch (t->fmt) {
	case F_XZ: rd_xz_decode(in, n, flags, OUT_LIMIT, r); break;
	case F_ALONE: rd_alone_decode(in, n, OUT_LIMIT, r); break;
	case F_LZIP: rd_lzip_decode(in, n, flags, OUT_LIMIT, r); break;
	case F_RAW: rd_raw_decode(t->rf, t->nrf, in, n, t->known, t->allow_eopm, t->cfg.lzma.preset_dict,
			t->cfg.lzma.preset_dict_size, OUT_LIMIT, r); break;
	case F_BLOCK: rd_block_decode(in, n, (unsigned)t->check, OUT_LIMIT, r); break;
	}
}

static void ll_block(const tcase *t, const uint8_t *in, size_t n, ldec *d)
{
	lzma_filter f[LZMA_FILTERS_MAX + 1];
	lzma_block b;
	memset(&b, 0, sizeof(b));
	vbuf_clear(&d->out); d->total_in = 0; d->limit = false;
	b.version = 1; b.check = t->check; b.filters = f;
	if (n < 1 || in[0] == 0) { d->ret = LZMA_DATA_ERROR; return; }
	b.header_size = lzma_block_header_size_decode(in[0]);
	if (n < b.header_size) { d->ret = LZMA_BUF_ERROR; return; }
	d->ret = lzma_block_header_decode(&b, NULL, in);
	if (d->ret != LZMA_OK) return;
	if (lzma_raw_decoder_memusage(f) > MEMLIMIT) { d->limit = true; d->ret = LZMA_MEMLIMIT_ERROR; lzma_filters_free(f, NULL); return; }
	lzma_stream s = LZMA_STREAM_INIT;
	d->ret = lzma_block_decoder(&s, &b);
	if (d->ret == LZMA_OK) {
		ll_run(&s, in + b.header_size, n - b.header_size, OUT_LIMIT, d);
		d->total_in += b.header_size;
	}
	lzma_end(&s);
	lzma_filters_free(f, NULL);
}

// returns the agreement-table index used
static int decode_case_ll(const tcase *t, const uint8_t *in, size_t n, unsigned flags, ldec *d)
{
	switch (t->fmt) {
	case F_XZ: ll_xz(in, n, flags ? LZMA_CONCATENATED : 0, d); return flags ? 1 : 0;
	case F_ALONE: ll_alone(in, n, d); return 2;
	case F_LZIP: ll_lzip(in, n, flags ? LZMA_CONCATENATED : 0, d); return flags ? 4 : 3;
	case F_RAW: ll_raw(t->cfg.filters, in, n, d);
		return t->rf[t->nrf - 1].id == RD_FILTER_LZMA2 ? 5 : 6;
	default: ll_block(t, in, n, d); return 8;
	}
}

static void mode_rt(void)
{
	uint64_t idx = UINT64_MAX;
	ldec d = {0};
	while (hx_next_case(&A, &idx)) {
		hx_case_begin(idx);
		vrng r;
		vrng_init(&r, A.seed, 0x7264, idx, 0);
		tcase t;
		int ep = (int)vrng_below(&r, EP_COUNT);
		size_t max_size = vrng_chance(&r, 1, 25) ? (5u << 20) : (vrng_chance(&r, 1, 4) ? (1u << 18) : (1u << 14));
		uint32_t max_dict = vrng_chance(&r, 1, 10) ? (1u << 24) : (1u << 20);
		if (!make_case(&r, &t, ep, max_size, max_dict)) { tcase_free(&t); hx_eval(); continue; }
		char label[64];
		snprintf(label, sizeof(label), "rt%" PRIu64 "-seed%" PRIu64, idx, A.seed);
		if (verbose) fprintf(stderr, "case %" PRIu64 ": %s in=%zu enc=%zu\n", idx, t.desc, t.data.n, t.enc.n);
		unsigned flags = (t.fmt == F_XZ || t.fmt == F_LZIP) ? (ep == EP_MULTI || ep == EP_LZIP || vrng_chance(&r, 1, 2) ? RD_CONCATENATED : 0) : 0;
		rd_result q;
		decode_case_rd(&t, t.enc.p, t.enc.n, flags, &q);
		if (verbose && q.nchunks) fprintf(stderr, "  first chunk control 0x%02X, dict_resets=%u, max_distance_used=%" PRIu64 "\n", q.chunks[0].control, q.blocks[0].dict_resets, q.blocks[0].max_distance_used);
		bool ok = true;
#define RTFAIL(...) do { ok = false; failf(__VA_ARGS__); } while (0)
		if (q.relaxation_zone) {
			hx_count("rt_relaxation_zone", 1);
		} else if (q.status != RD_OK) {
			RTFAIL("%s: refdec rejects encoder output: %s (%s @%zu) [%s]", label, rd_status_name(q.status), q.why, q.err_offset, t.desc);
		}
		if (ok && q.status == RD_OK) {
			if (q.out_len != t.data.n || (q.out_len && memcmp(q.out, t.data.p, q.out_len)))
				RTFAIL("%s: refdec output differs from the plaintext (%zu vs %zu) [%s]", label, q.out_len, t.data.n, t.desc);
			size_t want_consumed = t.enc.n - t.lz_trailing;
			if (q.consumed != want_consumed)
				RTFAIL("%s: consumed %zu, expected %zu [%s]", label, q.consumed, want_consumed, t.desc);
			if (!check_map(label, &q, t.enc.n)) ok = false;
			// structure cross-checks
			for (size_t i = 0; i < q.nblocks && ok; ++i) {
				const rd_block *b = &q.blocks[i];
				uint64_t dlim = b->dict_size_declared;
				if (b->filters[b->nfilters - 1].id == RD_FILTER_LZMA1 && dlim < 4096) dlim = 4096;
				if (b->max_distance_used > dlim)
					RTFAIL("%s: block %zu uses distance %" PRIu64 " > declared dictionary %u [%s]", label, i, b->max_distance_used, b->dict_size_declared, t.desc);
				// the single-call Block encoder falls back to an "uncompressed" Block
				// (one LZMA2 filter, 4 KiB dictionary) for incompressible input
				bool fallback = (ep == EP_BLOCK_BUF || ep == EP_EASY_BUF) && b->chunks_lzma == 0 && b->nfilters == 1 && b->dict_size_declared == 4096;
				if ((t.fmt == F_XZ || t.fmt == F_BLOCK) && !fallback) {
					if (b->nfilters != t.cfg.nfilters) RTFAIL("%s: block %zu has %u filters, configuration %u", label, i, b->nfilters, t.cfg.nfilters);
					for (unsigned k = 0; k < b->nfilters && ok; ++k)
						if (b->filters[k].id != t.cfg.filters[k].id) RTFAIL("%s: block %zu filter %u id mismatch", label, i, k);
					if (!b->first_chunk_resets_dict || !b->end_marker_seen || !b->chunk_order_ok) RTFAIL("%s: block %zu LZMA2 chunk flags wrong", label, i);
					if (b->check_id != (unsigned)t.check) RTFAIL("%s: block %zu check id %u != %d", label, i, b->check_id, (int)t.check);
					if (b->dict_size_declared < t.cfg.lzma.dict_size) RTFAIL("%s: declared dictionary %u < requested %u", label, b->dict_size_declared, t.cfg.lzma.dict_size);
					if (b->has_comp_size && b->hdr_comp_size != b->comp_size) RTFAIL("%s: comp size field", label);
					if (b->has_uncomp_size && b->hdr_uncomp_size != b->uncomp_size) RTFAIL("%s: uncomp size field", label);
				}
			}
			if (t.fmt == F_XZ && ok) {
				if (flags && q.nstreams != t.nstreams) RTFAIL("%s: %zu streams, expected %u", label, q.nstreams, t.nstreams);
				if (!flags && (q.nstreams != 1 || q.consumed != t.first_stream_size)) RTFAIL("%s: single-stream decode consumed %zu, first stream is %zu", label, q.consumed, t.first_stream_size);
				size_t pad = 0; for (size_t i = 0; i < q.nstreams; ++i) pad += q.streams[i].padding_after;
				if (flags && pad != t.total_padding) RTFAIL("%s: padding %zu != %zu", label, pad, t.total_padding);
				if (q.check_none != (t.check == LZMA_CHECK_NONE && q.nblocks > 0)) RTFAIL("%s: check_none flag", label);
			}
			if (t.fmt == F_ALONE && ok) {
				if (q.alone_size_known != t.alone_known || q.alone_has_eopm != t.alone_eopm)
					RTFAIL("%s: .lzma known=%d eopm=%d, expected %d %d", label, q.alone_size_known, q.alone_has_eopm, t.alone_known, t.alone_eopm);
				int det = rd_detect(t.enc.p, t.enc.n);
				if (det != 'l' && ep != EP_ALONE_KNOWN_NOEOPM) RTFAIL("%s: rd_detect gives %d on alone-encoder output [%s]", label, det, t.desc);
			}
			if (t.fmt == F_LZIP && ok && q.lzip_members != t.lz_members) RTFAIL("%s: %u members, expected %u", label, q.lzip_members, t.lz_members);
		}
		// liblzma's own decoder on the same bytes
		{
			int as = decode_case_ll(&t, t.enc.p, t.enc.n, flags, &d);
			if (!q.relaxation_zone && d.ret != LZMA_STREAM_END) RTFAIL("%s: liblzma rejects its own output: %s [%s]", label, lzma_ret_name(d.ret), t.desc);
			if (!compare(as, label, t.enc.p, t.enc.n, &q, &d, true)) ok = false;
		}
		if (ok && !(flags == 0 && (t.fmt == F_XZ || t.fmt == F_LZIP)) && t.enc.n > 0) {
			// a strict prefix must never be accepted (cut chosen at random, plus cut of one byte)
			for (int k = 0; k < 2; ++k) {
				size_t cut = k == 0 ? t.enc.n - t.lz_trailing - t.lz_swallowed - 1 : (size_t)vrng_below64(&r, t.enc.n - t.lz_trailing - t.lz_swallowed);
				rd_result p;
				decode_case_rd(&t, t.enc.p, cut, flags, &p);
				if (p.status == RD_OK || (p.status == RD_UNSUPPORTED && p.unsupported_what == RDU_CHECK)) {
					// acceptable only when it is a whole number of Streams/members plus legal padding
					ldec e = {0};
					decode_case_ll(&t, t.enc.p, cut, flags, &e);
					if (e.ret != LZMA_STREAM_END)
						RTFAIL("%s: prefix %zu/%zu accepted by refdec only [%s]", label, cut, t.enc.n, t.desc);
					else hx_count("rt_prefix_valid_shorter_file", 1);
					vbuf_free(&e.out);
				} else hx_count(p.status == RD_TRUNCATED ? "rt_prefix_truncated" : "rt_prefix_invalid", 1);
				rd_result_free(&p);
			}
		}
		if (ok && t.data.n > 0) {
			// output limit: must stop with RD_LIMIT, never exceed the limit
			size_t lim = (size_t)vrng_below64(&r, t.data.n);
			rd_result p;
			switch (t.fmt) {
			case F_XZ: rd_xz_decode(t.enc.p, t.enc.n, flags, lim, &p); break;
			case F_ALONE: rd_alone_decode(t.enc.p, t.enc.n, lim, &p); break;
			case F_LZIP: rd_lzip_decode(t.enc.p, t.enc.n, flags, lim, &p); break;
			case F_RAW: rd_raw_decode(t.rf, t.nrf, t.enc.p, t.enc.n, t.known, t.allow_eopm, t.cfg.lzma.preset_dict,
					t.cfg.lzma.preset_dict_size, lim, &p); break;
			default: rd_block_decode(t.enc.p, t.enc.n, (unsigned)t.check, lim, &p); break;
			}
			if (p.status != RD_LIMIT) RTFAIL("%s: out_limit %zu < %zu but status %s", label, lim, t.data.n, rd_status_name(p.status));
			if (p.out_len > lim) RTFAIL("%s: out_limit %zu exceeded: %zu", label, lim, p.out_len);
			if (t.have_cfg && t.cfg.nfilters == 1 && p.out_len && memcmp(p.out, t.data.p, p.out_len)) RTFAIL("%s: partial output under out_limit is not a prefix", label);
			hx_count("rt_limit_cases", 1);
			rd_result_free(&p);
		}
		if (!ok) {
			char path[512], name[128];
			snprintf(name, sizeof(name), "%s.%s", label, t.fmt == F_XZ ? "xz" : t.fmt == F_ALONE ? "lzma" : t.fmt == F_LZIP ? "lz" : "bin");
			save_witness(name, t.enc.p, t.enc.n, path, sizeof(path));
			fprintf(stderr, "  witness %s (replay: --mode rt --seed %" PRIu64 " --only %" PRIu64 ")\n", path, A.seed, idx);
		}
		char cn[64];
		snprintf(cn, sizeof(cn), "rt_%s", ep_names[ep]);
		hx_count(cn, 1);
		hx_count("rt_plain_bytes", t.data.n);
		hx_count("rt_blocks", q.nblocks);
		hx_count("rt_chunks", q.nchunks);
		hx_distinct(vhash(t.enc.p, t.enc.n, VHASH_INIT), t.data.n > 0);
		rd_result_free(&q);
		tcase_free(&t);
		hx_eval();
	}
	vbuf_free(&d.out);
}
#define HAVE_RT 1

///////////////////////////////////////////////////////////////////////////
// mode mut: mutation agreement with liblzma's decoders
///////////////////////////////////////////////////////////////////////////

enum { M_BITFLIP, M_BYTE, M_TRUNC, M_INSERT, M_DELETE, M_APPEND, M_FIELD, M_FIELD_CRCFIX, M_CHECKID, M_DICT, M_CHUNK, M_VLI, M_COUNT };
static const char *const m_names[M_COUNT] = { "bitflip", "byte", "trunc", "insert", "delete", "append", "field", "field_crcfix", "checkid", "dict", "chunk", "vli" };

static void wr_le32(uint8_t *p, uint32_t v) { p[0] = (uint8_t)v; p[1] = (uint8_t)(v >> 8); p[2] = (uint8_t)(v >> 16); p[3] = (uint8_t)(v >> 24); }

static uint8_t interesting_byte(vrng *r, uint8_t old)
{
	switch (vrng_below(r, 8)) {
	case 0: return 0x00;
	case 1: return 0xFF;
	case 2: return (uint8_t)(old + 1);
	case 3: return (uint8_t)(old - 1);
	case 4: return (uint8_t)(old ^ 0x80);
	case 5: return (uint8_t)(old ^ (1u << vrng_below(r, 8)));
	default: return (uint8_t)vrng_u64(r);
	}
}

// Re-fix the CRC32 that protects the .xz structure containing offset `off`
// (per the structure map of the UNMUTATED stream).
static void crcfix(vbuf *m, const rd_result *base, size_t off)
{
	for (size_t i = 0; i < base->nfields; ++i) {
		const rd_field *f = &base->fields[i];
		if (off < f->off || off >= f->off + f->len) continue;
		switch (f->kind) {
		case RDF_STREAM_FLAGS: {
			size_t s = base->streams[f->stream].offset;
			if (s + 12 <= m->n) wr_le32(m->p + s + 8, ref_crc32(m->p + s + 6, 2, 0));
			break;
		}
		case RDF_BLOCK_HEADER_SIZE: case RDF_BLOCK_FLAGS: case RDF_BLOCK_COMP_SIZE: case RDF_BLOCK_UNCOMP_SIZE:
		case RDF_FILTER_FLAGS: case RDF_BLOCK_HEADER_PADDING: {
			size_t s = base->blocks[f->block].offset;
			if (s >= m->n || m->p[s] == 0) break;
			size_t hs = ((size_t)m->p[s] + 1) * 4;
			if (s + hs <= m->n) wr_le32(m->p + s + hs - 4, ref_crc32(m->p + s, hs - 4, 0));
			break;
		}
		case RDF_INDEX_INDICATOR: case RDF_INDEX_COUNT: case RDF_INDEX_RECORD: case RDF_INDEX_PADDING: {
			const rd_stream *st = &base->streams[f->stream];
			size_t s = st->index_offset, e = s + st->index_size;
			if (e <= m->n && st->index_size >= 8) wr_le32(m->p + e - 4, ref_crc32(m->p + s, st->index_size - 4, 0));
			break;
		}
		case RDF_FOOTER_BACKWARD_SIZE: case RDF_FOOTER_FLAGS: {
			const rd_stream *st = &base->streams[f->stream];
			if (st->size < 24) break;
			size_t s = st->offset + st->size - 12;
			if (s + 12 <= m->n) wr_le32(m->p + s, ref_crc32(m->p + s + 4, 6, 0));
			break;
		}
		default: break;
		}
		return;
	}
}

// Apply one mutation of kind `mk` to a copy of the base stream. Returns false
// if the kind does not apply. *dict_override: new LZMA1 dictionary size for
// raw chains (M_DICT), else UINT64_MAX.
static bool mutate(vrng *r, int mk, const tcase *t, const rd_result *base, vbuf *m, uint64_t *dict_override)
{
	const size_t n = t->enc.n;
	vbuf_clear(m);
	vbuf_append(m, t->enc.p, n);
	*dict_override = UINT64_MAX;
	switch (mk) {
	case M_BITFLIP:
		if (n == 0) return false;
		for (unsigned k = 1 + vrng_below(r, 3); k; --k) m->p[vrng_below64(r, n)] ^= (uint8_t)(1u << vrng_below(r, 8));
		return true;
	case M_BYTE:
		if (n == 0) return false;
		for (unsigned k = 1 + vrng_below(r, 4); k; --k) { size_t o = (size_t)vrng_below64(r, n); m->p[o] = interesting_byte(r, m->p[o]); }
		return true;
	case M_TRUNC:
		if (n == 0) return false;
		m->n = vrng_chance(r, 1, 3) ? n - 1 - vrng_below(r, n < 16 ? (uint32_t)n : 16) : (size_t)vrng_below64(r, n);
		return true;
	case M_INSERT: {
		size_t o = (size_t)vrng_below64(r, n + 1), k = 1 + vrng_below(r, 8);
		uint8_t ins[8];
		if (vrng_chance(r, 1, 2)) memset(ins, 0, 8); else vrng_fill(r, ins, 8);
		vbuf_reserve(m, n + k);
		memmove(m->p + o + k, m->p + o, n - o);
		memcpy(m->p + o, ins, k);
		m->n = n + k;
		return true;
	}
	case M_DELETE: {
		if (n < 2) return false;
		size_t k = 1 + vrng_below(r, 8);
		if (k >= n) k = n - 1;
		size_t o = (size_t)vrng_below64(r, n - k + 1);
		memmove(m->p + o, m->p + o + k, n - o - k);
		m->n = n - k;
		return true;
	}
	case M_APPEND: {
		unsigned how = vrng_below(r, 5);
		if (how == 0) for (unsigned k = 1 + vrng_below(r, 9); k; --k) vbuf_putc(m, 0);
		else if (how == 1) for (unsigned k = 1 + vrng_below(r, 9); k; --k) vbuf_putc(m, (uint8_t)vrng_u64(r));
		else if (how == 2) vbuf_append(m, t->enc.p, n);
		else if (how == 3) { for (unsigned k = 4 * vrng_below(r, 3); k; --k) vbuf_putc(m, 0); vbuf_append(m, t->enc.p, (size_t)vrng_below64(r, n + 1)); }
		else vbuf_append(m, "LZIP", 1 + vrng_below(r, 4));
		return true;
	}
	case M_FIELD: case M_FIELD_CRCFIX: {
		if (base->nfields == 0) return false;
		if (mk == M_FIELD_CRCFIX && t->fmt != F_XZ && t->fmt != F_BLOCK) return false;
		// pick a field uniformly over fields (not bytes): small fields get hit
		const rd_field *f = &base->fields[vrng_below(r, (uint32_t)base->nfields)];
		if (f->kind == RDF_BLOCK_PAYLOAD && vrng_chance(r, 3, 4)) f = &base->fields[vrng_below(r, (uint32_t)base->nfields)];
		size_t o = f->off + (size_t)vrng_below64(r, f->len < 24 || vrng_chance(r, 1, 2) ? f->len : 24);
		if (o >= n) return false;
		m->p[o] = interesting_byte(r, m->p[o]);
		if (m->p[o] == t->enc.p[o]) m->p[o] ^= 1;
		if (mk == M_FIELD_CRCFIX) crcfix(m, base, o);
		return true;
	}
	case M_CHECKID: {
		if (t->fmt != F_XZ || base->nstreams == 0) return false;
		const rd_stream *st = &base->streams[vrng_below(r, (uint32_t)base->nstreams)];
		uint8_t id = (uint8_t)vrng_below(r, 16);
		uint8_t hi = vrng_chance(r, 1, 8) ? (uint8_t)(vrng_below(r, 16) << 4) : 0;
		if (st->size < 24) return false;
		size_t h = st->offset, ft = st->offset + st->size - 12;
		if (ft + 12 > n) return false;
		m->p[h + 7] = id | hi;
		if (vrng_chance(r, 1, 10)) m->p[h + 6] = (uint8_t)vrng_below(r, 3);
		if (vrng_chance(r, 7, 8)) { m->p[ft + 8] = m->p[h + 6]; m->p[ft + 9] = m->p[h + 7]; }
		wr_le32(m->p + h + 8, ref_crc32(m->p + h + 6, 2, 0));
		wr_le32(m->p + ft, ref_crc32(m->p + ft + 4, 6, 0));
		return true;
	}
	case M_CHUNK: {
		// LZMA2 chunk headers (control byte, sizes, properties)
		if (base->nchunks == 0) return false;
		const rd_chunk *k = &base->chunks[vrng_below(r, (uint32_t)base->nchunks)];
		if (k->off >= n) return false;
		static const uint8_t ctl[] = { 0x00, 0x01, 0x02, 0x03, 0x7F, 0x80, 0x9F, 0xA0, 0xC0, 0xE0, 0xFF, 0x40 };
		unsigned how = vrng_below(r, 4);
		if (how <= 1 || k->header_len < 3) {
			uint8_t nv = vrng_chance(r, 1, 2) ? ctl[vrng_below(r, sizeof(ctl))] : (uint8_t)((m->p[k->off] & 0x1F) | (vrng_below(r, 8) << 5));
			if (nv == m->p[k->off]) nv ^= 0x20;
			m->p[k->off] = nv;
		} else {
			size_t o = k->off + 1 + vrng_below(r, (uint32_t)k->header_len - 1);
			if (o >= n) return false;
			m->p[o] = vrng_chance(r, 1, 2) ? (uint8_t)(m->p[o] + (vrng_chance(r, 1, 2) ? 1 : -1)) : interesting_byte(r, m->p[o]);
			if (m->p[o] == t->enc.p[o]) m->p[o] ^= 1;
		}
		// (in .xz the Check normally rejects too; raw LZMA2 and Check None streams give the sharp cases)
		return true;
	}
	case M_VLI: {
		// non-minimal re-encoding of a Block Header VLI (one byte taken from
		// Header Padding, CRC32 re-fixed): must be rejected
		if (t->fmt != F_XZ && t->fmt != F_BLOCK) return false;
		if (base->nfields == 0) return false;
		for (int tries = 0; tries < 30; ++tries) {
			const rd_field *f = &base->fields[vrng_below(r, (uint32_t)base->nfields)];
			if (f->kind != RDF_BLOCK_COMP_SIZE && f->kind != RDF_BLOCK_UNCOMP_SIZE && f->kind != RDF_FILTER_FLAGS) continue;
			const rd_field *pad = NULL;
			for (size_t i = 0; i < base->nfields; ++i)
				if (base->fields[i].kind == RDF_BLOCK_HEADER_PADDING && base->fields[i].block == f->block) pad = &base->fields[i];
			if (pad == NULL || pad->len < 1 || pad->off + pad->len > n) continue;
			size_t last = f->off;
			while (last < f->off + f->len && (m->p[last] & 0x80)) ++last;   // last byte of the (first) VLI of the field
			if (last >= f->off + f->len) continue;
			memmove(m->p + last + 2, m->p + last + 1, pad->off + pad->len - 1 - (last + 1));
			m->p[last] |= 0x80;
			m->p[last + 1] = 0x00;
			crcfix(m, base, f->off);
			return true;
		}
		return false;
	}
	case M_DICT: {
		// declared dictionary near the largest distance used (boundary and
		// relaxation zone), or some arbitrary value
		if (base->nblocks == 0) return false;
		const rd_block *b = &base->blocks[0];
		uint64_t md = b->max_distance_used;
		uint32_t nd;
		unsigned how = vrng_below(r, 6);
		if (how == 0) nd = (uint32_t)md;
		else if (how == 1) nd = md ? (uint32_t)md - 1 : 0;
		else if (how == 2) nd = md > 20 ? (uint32_t)(md - 1 - vrng_below(r, 20)) : 0;
		else if (how == 3) nd = (uint32_t)md + 1;
		else if (how == 4) nd = (uint32_t)vrng_below64(r, md + 2);
		else nd = (uint32_t)vrng_u64(r) >> vrng_below(r, 32);
		if (t->fmt == F_RAW && nd > (1u << 26)) nd >>= 6;   // the raw decoder has no memory limit
		if (t->fmt == F_ALONE) {
			if (n < 13) return false;
			wr_le32(m->p + 1, nd);
			return true;
		}
		if (t->fmt == F_RAW && t->rf[t->nrf - 1].id == RD_FILTER_LZMA1) {
			*dict_override = nd;
			return true;
		}
		if (t->fmt == F_LZIP) {
			if (n < 6) return false;
			m->p[5] = (uint8_t)vrng_u64(r);
			return true;
		}
		if (t->fmt == F_XZ || t->fmt == F_BLOCK) {
			// LZMA2 dictionary byte is the last byte of the last Filter Flags field of a Block Header
			const rd_block *bb = &base->blocks[vrng_below(r, (uint32_t)base->nblocks)];
			for (size_t i = base->nfields; i-- > 0; ) {
				const rd_field *f = &base->fields[i];
				if (f->kind == RDF_FILTER_FLAGS && base->blocks[f->block].offset == bb->offset) {
					size_t o = f->off + f->len - 1;
					uint8_t old = m->p[o];
					m->p[o] = vrng_chance(r, 1, 2) ? (uint8_t)vrng_below(r, old + 1u) : (uint8_t)vrng_below(r, 48);
					crcfix(m, base, o);
					return true;
				}
			}
		}
		return false;
	}
	}
	return false;
}

static char **corpus_names; static size_t corpus_n;

static bool corpus_case(vrng *r, tcase *t)
{
	if (corpus_n == 0) return false;
	for (int tries = 0; tries < 20; ++tries) {
		const char *path = corpus_names[vrng_below(r, (uint32_t)corpus_n)];
		int fmt = has_suffix(path, ".xz") ? F_XZ : has_suffix(path, ".lzma") ? F_ALONE : has_suffix(path, ".lz") ? F_LZIP : -1;
		if (fmt < 0) continue;
		memset(t, 0, sizeof(*t));
		if (!load_file(path, &t->enc) || t->enc.n > 8192) { vbuf_free(&t->enc); continue; }
		t->fmt = fmt; t->ep = -1; t->known = UINT64_MAX;
		const char *base = strrchr(path, '/');
		snprintf(t->desc, sizeof(t->desc), "corpus %s", base ? base + 1 : path);
		return true;
	}
	return false;
}

static void mode_mut(void)
{
	uint64_t idx = UINT64_MAX;
	ldec d = {0};
	vbuf m = {0};
	const char *dir = A.corpus && *A.corpus ? A.corpus : "/verif/.build/src/tests/files";
	corpus_n = list_dir(dir, &corpus_names);
	const unsigned per_base = 32;
	while (hx_next_case(&A, &idx)) {
		hx_case_begin(idx);
		vrng r;
		vrng_init(&r, A.seed, 0x6d75, idx, 0);
		tcase t;
		bool from_corpus = vrng_chance(&r, 1, 8);
		if (from_corpus) {
			if (!corpus_case(&r, &t)) continue;
		} else {
			int ep = (int)vrng_below(&r, EP_COUNT);
			size_t max_size = vrng_chance(&r, 1, 6) ? 70000 : 2000;
			if (!make_case(&r, &t, ep, max_size, vrng_chance(&r, 1, 2) ? 8192 : 65536)) { tcase_free(&t); continue; }
		}
		unsigned bflags = (t.fmt == F_XZ || t.fmt == F_LZIP) ? RD_CONCATENATED : 0;
		rd_result base;
		decode_case_rd(&t, t.enc.p, t.enc.n, bflags, &base);
		if (verbose) fprintf(stderr, "base %" PRIu64 ": %s enc=%zu refdec %s\n", idx, t.desc, t.enc.n, rd_status_name(base.status));
		for (unsigned k = 0; k < per_base; ++k) {
			int mk = (int)vrng_below(&r, M_COUNT);
			uint64_t dict_override;
			unsigned flags = (t.fmt == F_XZ || t.fmt == F_LZIP) ? (vrng_chance(&r, 2, 3) ? RD_CONCATENATED : 0) : 0;
			if (!mutate(&r, mk, &t, &base, &m, &dict_override)) continue;
			if (A.only >= 0 && *A.extra >= '0' && *A.extra <= '9' && (unsigned)atoi(A.extra) != k) continue;
			tcase tt = t;   // shallow copy; raw dictionary override applies to both decoders
			lzma_options_lzma lo;
			if (dict_override != UINT64_MAX) {
				wr_le32(tt.rf[tt.nrf - 1].props + 1, (uint32_t)dict_override);
				lo = t.cfg.lzma; lo.dict_size = (uint32_t)dict_override;
				tt.cfg.filters[tt.cfg.nfilters - 1].options = &lo;
				tt.cfg.lzma.preset_dict = t.cfg.lzma.preset_dict;
			}
			rd_result q;
			decode_case_rd(&tt, m.p, m.n, flags, &q);
			int as = decode_case_ll(&tt, m.p, m.n, flags, &d);
			if (dict_override != UINT64_MAX) tt.cfg.filters[tt.cfg.nfilters - 1].options = (void *)&t.cfg.lzma;
			char label[96];
			snprintf(label, sizeof(label), "mut%" PRIu64 ".%u-seed%" PRIu64 "-%s", idx, k, A.seed, m_names[mk]);
			if (verbose)
				fprintf(stderr, "  %s: refdec %s (%s) out=%zu consumed=%zu relax=%d | liblzma %s out=%zu in=%zu\n", label,
					rd_status_name(q.status), q.why, q.out_len, q.consumed, q.relaxation_zone, lzma_ret_name(d.ret), d.out.n, d.total_in);
			// consumed is comparable whenever both accept
			if (!compare(as, label, m.p, m.n, &q, &d, true))
				fprintf(stderr, "  base: %s (replay: --mode mut --seed %" PRIu64 " --only %" PRIu64 " --extra %u)%s\n", t.desc, A.seed, idx, k,
					dict_override != UINT64_MAX ? " [raw LZMA1 dictionary overridden]" : "");
			check_map(label, &q, m.n);
			if (t.fmt == F_XZ || t.fmt == F_ALONE || t.fmt == F_LZIP) compare_detect(label, m.p, m.n);
			char cn[64];
			snprintf(cn, sizeof(cn), "mut_%s_%s", m_names[mk], q.relaxation_zone ? "RELAXZONE" : rd_status_name(q.status));
			hx_count(cn, 1);
			if (q.unsupported_what) { snprintf(cn, sizeof(cn), "mut_unsupported_what_0x%02x", q.unsupported_what); hx_count(cn, 1); }
			hx_distinct(vhash(m.p, m.n, VHASH_INIT), true);
			hx_eval();
			rd_result_free(&q);
		}
		rd_result_free(&base);
		tcase_free(&t);
	}
	for (size_t i = 0; i < corpus_n; ++i) free(corpus_names[i]);
	free(corpus_names);
	vbuf_free(&d.out); vbuf_free(&m);
}
#define HAVE_MUT 1

// Pure robustness: random and semi-structured garbage into every entry point
// (ASan/UBSan are the oracle; also: out_len never exceeds the limit).
static void mode_garbage(void)
{
	uint64_t idx = UINT64_MAX;
	vbuf g = {0};
	while (hx_next_case(&A, &idx)) {
		vrng r;
		vrng_init(&r, A.seed, 0x6762, idx, 0);
		size_t n = vrng_logsize(&r, 3000);
		vbuf_clear(&g); vbuf_reserve(&g, n + 32);
		g.n = n;
		unsigned how = vrng_below(&r, 4);
		if (how == 0) vrng_fill(&r, g.p, n);
		else if (how == 1) { for (size_t i = 0; i < n; ++i) g.p[i] = vrng_chance(&r, 3, 4) ? 0 : (uint8_t)vrng_u64(&r); }
		else { vrng_fill(&r, g.p, n); for (size_t i = 0; i < n; ++i) if (vrng_chance(&r, 1, 2)) g.p[i] &= (uint8_t)(0x01 << vrng_below(&r, 8)); }
		static const uint8_t xzhdr[12] = { 0xFD, '7', 'z', 'X', 'Z', 0, 0, 1, 0x69, 0x22, 0xDE, 0x36 };
		unsigned pre = vrng_below(&r, 6);
		if (pre == 0 && n >= 12) memcpy(g.p, xzhdr, 12);
		if (pre == 1 && n >= 6) { memcpy(g.p, "LZIP", 4); g.p[4] = (uint8_t)vrng_below(&r, 2); g.p[5] = 0x0C + (uint8_t)vrng_below(&r, 8); }
		if (pre == 4 && n >= 13) {
			g.p[0] = (uint8_t)vrng_below(&r, 230);
			uint32_t dd = vrng_chance(&r, 1, 2) ? (1u << vrng_below(&r, 32)) : (3u << vrng_below(&r, 31));
			if (vrng_chance(&r, 1, 6)) dd += vrng_below(&r, 3) - 1;
			if (vrng_chance(&r, 1, 10)) dd = vrng_below(&r, 4);
			if (vrng_chance(&r, 1, 10)) dd = UINT32_MAX - vrng_below(&r, 2);
			g.p[1] = (uint8_t)dd; g.p[2] = (uint8_t)(dd >> 8); g.p[3] = (uint8_t)(dd >> 16); g.p[4] = (uint8_t)(dd >> 24);
			uint64_t sz = vrng_chance(&r, 1, 3) ? UINT64_MAX : (vrng_chance(&r, 1, 2) ? (UINT64_C(1) << 38) - 2 + vrng_below(&r, 4) : vrng_u64(&r) >> vrng_below(&r, 64));
			for (int i = 0; i < 8; ++i) g.p[5 + i] = (uint8_t)(sz >> (8 * i));
		}
		if (pre == 2 && n >= 13) { g.p[0] = 0x5D; memset(g.p + 5, vrng_chance(&r, 1, 2) ? 0xFF : 0, 8); if (g.p[5] == 0) g.p[5] = 200; }
		if ((pre == 2 || pre == 3) && n >= 14) g.p[13] = 0;
		size_t lim = vrng_chance(&r, 1, 2) ? 100000 : vrng_below(&r, 300);
		rd_result q;
		rd_xz_decode(g.p, n, vrng_below(&r, 2), lim, &q); if (q.out_len > lim) failf("garbage %" PRIu64 ": limit", idx); check_map("garbage-xz", &q, n); hx_count(rd_status_name(q.status), 1); rd_result_free(&q);
		rd_alone_decode(g.p, n, lim, &q); if (q.out_len > lim) failf("garbage %" PRIu64 ": limit", idx); check_map("garbage-alone", &q, n); hx_count(rd_status_name(q.status), 1); rd_result_free(&q);
		rd_lzip_decode(g.p, n, vrng_below(&r, 2), lim, &q); if (q.out_len > lim) failf("garbage %" PRIu64 ": limit", idx); check_map("garbage-lzip", &q, n); hx_count(rd_status_name(q.status), 1); rd_result_free(&q);
		rd_block_decode(g.p, n, vrng_below(&r, 17), lim, &q); if (q.out_len > lim) failf("garbage %" PRIu64 ": limit", idx); hx_count(rd_status_name(q.status), 1); rd_result_free(&q);
		rd_filter f[4]; memset(f, 0, sizeof(f));
		unsigned nf = 1 + vrng_below(&r, 4);
		for (unsigned i = 0; i + 1 < nf; ++i) { f[i].id = 3 + vrng_below(&r, 10); f[i].props_len = vrng_chance(&r, 1, 2) ? (f[i].id == 3 ? 1 : 0) : vrng_below(&r, 6); vrng_fill(&r, f[i].props, 4); }
		if (vrng_chance(&r, 1, 2)) { f[nf - 1].id = RD_FILTER_LZMA2; f[nf - 1].props_len = 1; f[nf - 1].props[0] = (uint8_t)vrng_below(&r, 42); }
		else { f[nf - 1].id = RD_FILTER_LZMA1; f[nf - 1].props_len = 5; vrng_fill(&r, f[nf - 1].props, 5); if (vrng_chance(&r, 3, 4)) f[nf - 1].props[0] = (uint8_t)vrng_below(&r, 225); }
		uint8_t pd[64]; vrng_fill(&r, pd, sizeof(pd));
		rd_raw_decode(f, nf, g.p, n, vrng_chance(&r, 1, 2) ? UINT64_MAX : vrng_below(&r, 5000), vrng_below(&r, 2), vrng_chance(&r, 1, 3) ? pd : NULL, vrng_below(&r, 65), lim, &q);
		if (q.out_len > lim) failf("garbage %" PRIu64 ": limit", idx);
		hx_count(rd_status_name(q.status), 1); rd_result_free(&q);
		{ char gl[48]; snprintf(gl, sizeof(gl), "garbage%" PRIu64 "-seed%" PRIu64, idx, A.seed); compare_detect(gl, g.p, n); }
		hx_eval();
	}
	vbuf_free(&g);
}

int main(int argc, char **argv)
{
	hx_parse(argc, argv, &A);
	if (A.outdir && *A.outdir) outdir = A.outdir;
	verbose = A.only >= 0 || strstr(A.extra, "verbose") != NULL;
	const char *mode = *A.mode ? A.mode : "all";
	if (!strcmp(mode, "files") || !strcmp(mode, "all")) mode_files();
#ifdef HAVE_RT
	if (!strcmp(mode, "rt") || !strcmp(mode, "all")) mode_rt();
#endif
#ifdef HAVE_MUT
	if (!strcmp(mode, "mut") || !strcmp(mode, "all")) mode_mut();
#endif
	if (!strcmp(mode, "garbage") || !strcmp(mode, "all")) mode_garbage();
	print_agree_stats();
	hx_finish();
	fprintf(stderr, "refdec_test: %" PRIu64 " failure(s)\n", n_fail);
	return n_fail ? 1 : 0;
}
