// synth - independent synthesiser of valid .xz/.lzma/.lz/raw streams.
// See synth.h. Written from the LZMA specification (Igor Pavlov's LZMA SDK
// document), doc/xz-file-format.txt, doc/lzma-file-format.txt and the lzip
// format description; shares no code with liblzma.
#include "synth.h"
#include "check_ref.h"
#include "bcj_ref.h"
#include <assert.h>

typedef uint16_t prob;
#define PROB_INIT 1024
#define RC_TOP (UINT32_C(1) << 24)
#define LZMA2_UNC_MAX  (1u << 21)   // LZMA chunk: max uncompressed size
#define LZMA2_COMP_MAX (1u << 16)   // LZMA chunk: max compressed size; also max size of an uncompressed chunk
#define SYM_MAX_SHIFTS 64           // safe upper bound of range coder bytes one symbol can produce
#define LEN_MAX 273

typedef struct { prob choice, choice2, low[16][8], mid[16][8], high[256]; } lenc;

// Everything a rollback has to restore (range coder + model)
typedef struct {
	uint64_t low; uint32_t range; uint8_t cache; uint64_t cache_size; uint64_t nshifts;
	unsigned lc, lp, pb;
	unsigned state;
	uint32_t rep[4];
	bool rep_initial[4];
	struct {
		prob is_match[12][16], is_rep[12], is_rep0[12], is_rep1[12], is_rep2[12], is_rep0_long[12][16];
		prob dist_slot[4][64], dist_special[115], dist_align[16];
		lenc mlen, rlen;
		prob lit[0x300 << 4];
	} pr;
} core;

enum { K_LIT, K_MATCH, K_REP0, K_REP1, K_REP2, K_REP3, K_SHORT, K_COUNT };
enum { LM_RANDOM, LM_ALPHA, LM_MATCHBYTE, LM_PREV, LM_OPCODE, LM_MIX, LM_COUNT };
enum { DM_UNIFORM, DM_SMALL, DM_LOG, DM_MAX, DM_REPVAL, DM_MIX, DM_COUNT };
enum { NM_UNIFORM, NM_LOW, NM_MID, NM_HIGH, NM_MAX, NM_TWO, NM_LOG, NM_MIX, NM_COUNT };

typedef struct {
	unsigned w[K_COUNT];
	unsigned lit_mode, dist_mode, len_mode;
} policy;

typedef struct {
	vrng *r; const synth_opts *o; synth_info *info;
	core c;
	vbuf *sink;
	uint8_t *h; size_t hn, hcap, dict_start;   // history: [used tail of preset][LZMA-level data]
	uint32_t dict_size;
	size_t preset_used;
	bool parse; size_t data_end;               // parse mode: h[] is prefilled up to data_end
	uint32_t *head, *chain;
	policy pol; size_t pol_ttl; bool pol_locked;
	uint8_t lq[20]; unsigned lqn, lqi;          // queued literals (instruction-like bursts)
	bool bcj_bias;
} lz;

static inline void put(vbuf *b, uint8_t c)
{
	if (b->n == b->cap) vbuf_reserve(b, b->n + 1);
	b->p[b->n++] = c;
}

static void put_le32(vbuf *b, uint32_t v) { for (int i = 0; i < 4; ++i) put(b, (uint8_t)(v >> (8 * i))); }
static void put_le64(vbuf *b, uint64_t v) { for (int i = 0; i < 8; ++i) put(b, (uint8_t)(v >> (8 * i))); }

///////////////////
// Range encoder //
///////////////////

static void rc_init(core *c)
{
	c->low = 0; c->range = 0xFFFFFFFFu; c->cache = 0; c->cache_size = 1; c->nshifts = 0;
}

static inline void rc_shift_low(lz *z)
{
	core *c = &z->c;
	if ((uint32_t)c->low < 0xFF000000u || (c->low >> 32) != 0) {
		const uint8_t carry = (uint8_t)(c->low >> 32);
		uint8_t t = c->cache;
		do { put(z->sink, (uint8_t)(t + carry)); t = 0xFF; } while (--c->cache_size != 0);
		c->cache = (uint8_t)(c->low >> 24);
	}
	++c->cache_size;
	c->low = (c->low & 0x00FFFFFFu) << 8;
	++c->nshifts;
}

// After rc_flush() exactly c->nshifts bytes have been written for this range
// coder run (the first one is always 0x00); before it the final size would be
// c->nshifts + 5.
static void rc_flush(lz *z) { for (int i = 0; i < 5; ++i) rc_shift_low(z); }

static inline void rc_bit(lz *z, prob *p, unsigned bit)
{
	core *c = &z->c;
	const uint32_t bound = (c->range >> 11) * *p;
	if (!bit) { c->range = bound; *p = (prob)(*p + ((2048 - *p) >> 5)); }
	else { c->low += bound; c->range -= bound; *p = (prob)(*p - (*p >> 5)); }
	while (c->range < RC_TOP) { c->range <<= 8; rc_shift_low(z); }
}

static inline void rc_direct(lz *z, uint32_t v, unsigned nbits)
{
	core *c = &z->c;
	while (nbits-- > 0) {
		c->range >>= 1;
		if ((v >> nbits) & 1) c->low += c->range;
		while (c->range < RC_TOP) { c->range <<= 8; rc_shift_low(z); }
	}
}

static void rc_tree(lz *z, prob *p, unsigned nbits, unsigned sym)
{
	unsigned m = 1;
	for (unsigned i = nbits; i-- > 0; ) {
		const unsigned b = (sym >> i) & 1;
		rc_bit(z, &p[m], b);
		m = (m << 1) | b;
	}
}

static void rc_tree_rev(lz *z, prob *p, unsigned nbits, unsigned sym)
{
	unsigned m = 1;
	for (unsigned i = 0; i < nbits; ++i) {
		const unsigned b = (sym >> i) & 1;
		rc_bit(z, &p[m], b);
		m = (m << 1) | b;
	}
}

///////////
// Model //
///////////

static void core_reset(core *c)
{
	c->state = 0;
	for (int i = 0; i < 4; ++i) { c->rep[i] = 0; c->rep_initial[i] = true; }
	prob *p = (prob *)&c->pr;
	const size_t fixed = offsetof(__typeof__(c->pr), lit) / sizeof(prob);
	const size_t n = fixed + ((size_t)0x300 << (c->lc + c->lp));
	for (size_t i = 0; i < n; ++i) p[i] = PROB_INIT;
}

static inline unsigned st_lit(unsigned s) { return s < 4 ? 0 : (s < 10 ? s - 3 : s - 6); }
static inline unsigned st_match(unsigned s) { return s < 7 ? 7 : 10; }
static inline unsigned st_rep(unsigned s) { return s < 7 ? 8 : 11; }
static inline unsigned st_short(unsigned s) { return s < 7 ? 9 : 11; }

static inline size_t lz_pos(const lz *z) { return z->hn - z->dict_start; }
static inline unsigned lz_ps(const lz *z) { return (unsigned)(lz_pos(z) & ((1u << z->c.pb) - 1)); }

static inline uint32_t lz_avail(const lz *z)
{
	const size_t n = z->hn - z->dict_start;
	return n < z->dict_size ? (uint32_t)n : z->dict_size;
}

static void hash_insert(lz *z, size_t p)
{
	if (p + 1 >= z->data_end) return;
	const unsigned key = z->h[p] | ((unsigned)z->h[p + 1] << 8);
	z->chain[p] = z->head[key];
	z->head[key] = (uint32_t)(p + 1);
}

static inline void lz_advance(lz *z, size_t n)
{
	if (z->parse)
		for (size_t i = 0; i < n; ++i) hash_insert(z, z->hn + i);
	z->hn += n;
}

static void enc_len(lz *z, lenc *l, unsigned ps, unsigned len)
{
	unsigned v = len - 2;
	if (v < 8) { rc_bit(z, &l->choice, 0); rc_tree(z, l->low[ps], 3, v); }
	else if (v < 16) { rc_bit(z, &l->choice, 1); rc_bit(z, &l->choice2, 0); rc_tree(z, l->mid[ps], 3, v - 8); }
	else { rc_bit(z, &l->choice, 1); rc_bit(z, &l->choice2, 1); rc_tree(z, l->high, 8, v - 16); }
}

static unsigned dist_slot_of(uint32_t d)
{
	if (d < 4) return d;
	const unsigned n = 31 - (unsigned)__builtin_clz(d);
	return (n << 1) | ((d >> (n - 1)) & 1);
}

static void enc_dist(lz *z, uint32_t d, unsigned len)
{
	core *c = &z->c;
	const unsigned ls = len - 2 < 3 ? len - 2 : 3;
	const unsigned slot = dist_slot_of(d);
	rc_tree(z, c->pr.dist_slot[ls], 6, slot);
	if (slot < 4) return;
	const unsigned nb = (slot >> 1) - 1;
	const uint32_t base = (uint32_t)(2 | (slot & 1)) << nb;
	const uint32_t red = d - base;
	if (slot < 14) {
		rc_tree_rev(z, c->pr.dist_special + base - slot, nb, red);
	} else {
		rc_direct(z, red >> 4, nb - 4);
		rc_tree_rev(z, c->pr.dist_align, 4, red & 15);
	}
}

static void note_copy(lz *z, uint32_t d, unsigned len)
{
	synth_info *in = z->info;
	if (d + 1 > in->max_distance) in->max_distance = d + 1;
	if (len == LEN_MAX) in->n_len273++;
	if (len == 2) in->n_len2++;
	if (d + 1 == z->dict_size) in->n_dist_eq_dict++;
	if ((size_t)d + 1 == z->hn - z->dict_start) in->n_dist_full++;
	if (z->dict_start == 0 && z->hn - d - 1 < z->preset_used) in->n_preset_refs++;
}

static void copy_bytes(lz *z, uint32_t d, unsigned len)
{
	uint8_t *dst = z->h + z->hn;
	const uint8_t *src = dst - d - 1;
	if (z->parse) {
		for (unsigned i = 0; i < len; ++i) assert(dst[i] == src[i]);
	} else {
		for (unsigned i = 0; i < len; ++i) dst[i] = src[i];
	}
	lz_advance(z, len);
}

static void emit_literal(lz *z, uint8_t b)
{
	core *c = &z->c;
	const size_t pos = lz_pos(z);
	const unsigned ps = (unsigned)(pos & ((1u << c->pb) - 1));
	rc_bit(z, &c->pr.is_match[c->state][ps], 0);
	const unsigned prev = z->hn > 0 && (pos > 0) ? z->h[z->hn - 1] : 0;
	const unsigned ctx = (((unsigned)pos & ((1u << c->lp) - 1)) << c->lc) + (prev >> (8 - c->lc));
	prob *p = c->pr.lit + (size_t)0x300 * ctx;
	unsigned sym = 1;
	if (c->state >= 7) {
		unsigned mb = z->h[z->hn - c->rep[0] - 1];
		int i = 7;
		z->info->n_matched_literals++;
		for (; i >= 0; --i) {
			const unsigned mbit = (mb >> i) & 1, bit = (b >> i) & 1;
			rc_bit(z, &p[((1 + mbit) << 8) + sym], bit);
			sym = (sym << 1) | bit;
			if (mbit != bit) { --i; break; }
		}
		for (; i >= 0; --i) {
			const unsigned bit = (b >> i) & 1;
			rc_bit(z, &p[sym], bit);
			sym = (sym << 1) | bit;
		}
	} else {
		for (int i = 7; i >= 0; --i) {
			const unsigned bit = (b >> i) & 1;
			rc_bit(z, &p[sym], bit);
			sym = (sym << 1) | bit;
		}
	}
	c->state = st_lit(c->state);
	if (z->parse) assert(z->h[z->hn] == b); else z->h[z->hn] = b;
	lz_advance(z, 1);
	z->info->n_literals++;
}

static void emit_match(lz *z, uint32_t d, unsigned len)
{
	core *c = &z->c;
	const unsigned ps = lz_ps(z);
	rc_bit(z, &c->pr.is_match[c->state][ps], 1);
	rc_bit(z, &c->pr.is_rep[c->state], 0);
	enc_len(z, &c->pr.mlen, ps, len);
	enc_dist(z, d, len);
	for (int i = 0; i < 4; ++i)
		if (c->rep[i] == d && !c->rep_initial[i]) { z->info->n_match_is_rep++; break; }
	c->rep[3] = c->rep[2]; c->rep[2] = c->rep[1]; c->rep[1] = c->rep[0]; c->rep[0] = d;
	c->rep_initial[3] = c->rep_initial[2]; c->rep_initial[2] = c->rep_initial[1];
	c->rep_initial[1] = c->rep_initial[0]; c->rep_initial[0] = false;
	c->state = st_match(c->state);
	note_copy(z, d, len);
	copy_bytes(z, d, len);
	z->info->n_matches++;
}

static void emit_rep(lz *z, unsigned idx, unsigned len)
{
	core *c = &z->c;
	const unsigned ps = lz_ps(z);
	rc_bit(z, &c->pr.is_match[c->state][ps], 1);
	rc_bit(z, &c->pr.is_rep[c->state], 1);
	if (idx == 0) {
		rc_bit(z, &c->pr.is_rep0[c->state], 0);
		rc_bit(z, &c->pr.is_rep0_long[c->state][ps], 1);
	} else {
		rc_bit(z, &c->pr.is_rep0[c->state], 1);
		if (idx == 1) rc_bit(z, &c->pr.is_rep1[c->state], 0);
		else {
			rc_bit(z, &c->pr.is_rep1[c->state], 1);
			rc_bit(z, &c->pr.is_rep2[c->state], idx == 3);
		}
	}
	enc_len(z, &c->pr.rlen, ps, len);
	if (c->rep_initial[idx]) z->info->n_rep_initial++;
	const uint32_t d = c->rep[idx];
	const bool ini = c->rep_initial[idx];
	for (unsigned i = idx; i > 0; --i) { c->rep[i] = c->rep[i - 1]; c->rep_initial[i] = c->rep_initial[i - 1]; }
	c->rep[0] = d; c->rep_initial[0] = ini;
	c->state = st_rep(c->state);
	note_copy(z, d, len);
	copy_bytes(z, d, len);
	z->info->n_reps[idx]++;
}

static void emit_shortrep(lz *z)
{
	core *c = &z->c;
	const unsigned ps = lz_ps(z);
	rc_bit(z, &c->pr.is_match[c->state][ps], 1);
	rc_bit(z, &c->pr.is_rep[c->state], 1);
	rc_bit(z, &c->pr.is_rep0[c->state], 0);
	rc_bit(z, &c->pr.is_rep0_long[c->state][ps], 0);
	if (c->rep_initial[0]) z->info->n_rep_initial++;
	c->state = st_short(c->state);
	if (c->rep[0] + 1 > z->info->max_distance) z->info->max_distance = c->rep[0] + 1;
	if (c->rep[0] + 1 == z->dict_size) z->info->n_dist_eq_dict++;
	copy_bytes(z, c->rep[0], 1);
	z->info->n_shortreps++;
}

static void emit_eopm(lz *z, unsigned len)
{
	core *c = &z->c;
	const unsigned ps = lz_ps(z);
	rc_bit(z, &c->pr.is_match[c->state][ps], 1);
	rc_bit(z, &c->pr.is_rep[c->state], 0);
	enc_len(z, &c->pr.mlen, ps, len);
	enc_dist(z, 0xFFFFFFFFu, len);
	z->info->eopm = true;
	z->info->eopm_len = len;
}

//////////////////////
// Symbol selection //
//////////////////////

static void new_policy(lz *z)
{
	vrng *r = z->r; policy *p = &z->pol;
	for (int i = 0; i < K_COUNT; ++i)
		p->w[i] = vrng_chance(r, 1, 3) ? 0 : 1 + vrng_below(r, 16);
	if (vrng_chance(r, 1, 8)) {
		// one dominant kind
		const unsigned k = vrng_below(r, K_COUNT);
		for (int i = 0; i < K_COUNT; ++i) p->w[i] = (unsigned)i == k ? 40 : vrng_below(r, 2);
	}
	if (p->w[K_LIT] == 0 && vrng_chance(r, 1, 2)) p->w[K_LIT] = 1 + vrng_below(r, 8);
	p->lit_mode = vrng_below(r, LM_COUNT);
	p->dist_mode = vrng_below(r, DM_COUNT);
	p->len_mode = vrng_below(r, NM_COUNT);
	if (z->bcj_bias && vrng_chance(r, 1, 2)) p->lit_mode = LM_OPCODE;
	z->pol_ttl = 1 + vrng_logsize(r, 4000);
}

static void policy_expensive(lz *z)
{
	policy *p = &z->pol;
	memset(p->w, 0, sizeof(p->w));
	p->w[K_LIT] = 4; p->w[K_MATCH] = 4;
	p->lit_mode = LM_RANDOM; p->dist_mode = DM_UNIFORM; p->len_mode = NM_TWO;
	z->pol_locked = true;
}

static void policy_cheap(lz *z)
{
	policy *p = &z->pol;
	memset(p->w, 0, sizeof(p->w));
	p->w[K_LIT] = 1; p->w[K_REP0] = 60; p->w[K_MATCH] = 1; p->w[K_REP1] = 1;
	p->lit_mode = LM_ALPHA; p->dist_mode = DM_SMALL; p->len_mode = NM_MAX;
	z->pol_locked = true;
}

static void queue_burst(lz *z)
{
	vrng *r = z->r;
	z->lqn = z->lqi = 0;
	// align to 4 relative to the start of the stream data
	const unsigned mis = (unsigned)((z->hn - z->preset_used) & 3);
	if (mis && vrng_chance(r, 3, 4))
		for (unsigned i = mis; i < 4; ++i) z->lq[z->lqn++] = (uint8_t)vrng_u64(r);
	const unsigned k = vrng_below(r, 10);
	uint32_t rnd = (uint32_t)vrng_u64(r);
	if (vrng_chance(r, 1, 2)) rnd &= 0x000FFFFF;       // plausible small displacement
	if (k == 0) {
		// x86 call/jmp
		z->lq[z->lqn++] = vrng_chance(r, 1, 2) ? 0xE8 : 0xE9;
		uint32_t d = rnd;
		if (vrng_chance(r, 1, 3)) d |= 0xFF000000u;
		for (int i = 0; i < 4; ++i) z->lq[z->lqn++] = (uint8_t)(d >> (8 * i));
	} else if (k == 1) {
		// RISC-V AUIPC ra + JALR ra, imm(ra)
		const uint32_t a = 0x00000097u | (rnd << 12);
		const uint32_t b = 0x000080E7u | ((uint32_t)vrng_u64(r) << 20);
		for (int i = 0; i < 4; ++i) z->lq[z->lqn++] = (uint8_t)(a >> (8 * i));
		for (int i = 0; i < 4; ++i) z->lq[z->lqn++] = (uint8_t)(b >> (8 * i));
	} else if (k == 2) {
		// Thumb BL pair
		const uint16_t a = (uint16_t)(0xF000 | (rnd & 0x7FF)), b = (uint16_t)(0xF800 | ((rnd >> 11) & 0x7FF));
		z->lq[z->lqn++] = (uint8_t)a; z->lq[z->lqn++] = (uint8_t)(a >> 8);
		z->lq[z->lqn++] = (uint8_t)b; z->lq[z->lqn++] = (uint8_t)(b >> 8);
	} else {
		static const struct { uint32_t pat, mask; bool be; } pats[] = {
			{ 0x48000001u, 0x03FFFFFCu, true  },   // PowerPC bl
			{ 0xEB000000u, 0x00FFFFFFu, false },   // ARM BL
			{ 0x94000000u, 0x03FFFFFFu, false },   // ARM64 BL
			{ 0x90000000u, 0x60FFFFFFu, false },   // ARM64 ADRP
			{ 0x40000000u, 0x003FFFFFu, true  },   // SPARC call (positive)
			{ 0x7FC00000u, 0x003FFFFFu, true  },   // SPARC call (negative)
			{ 0x000000EFu, 0xFFFFF000u, false },   // RISC-V JAL ra
		};
		const unsigned i = vrng_below(r, sizeof(pats) / sizeof(pats[0]));
		uint32_t v = pats[i].pat | ((uint32_t)vrng_u64(r) & pats[i].mask);
		if (vrng_chance(r, 1, 2)) v = pats[i].pat | (rnd & pats[i].mask);
		for (int j = 0; j < 4; ++j)
			z->lq[z->lqn++] = (uint8_t)(v >> (pats[i].be ? 24 - 8 * j : 8 * j));
	}
}

static uint8_t gen_lit_byte(lz *z, uint32_t avail)
{
	vrng *r = z->r;
	unsigned m = z->pol.lit_mode;
	if (m == LM_MIX) m = vrng_below(r, LM_MIX);
	switch (m) {
	case LM_ALPHA: return (uint8_t)('a' + vrng_below(r, 4));
	case LM_MATCHBYTE:
		if (z->c.rep[0] < avail) {
			const uint8_t b = z->h[z->hn - z->c.rep[0] - 1];
			return vrng_chance(r, 1, 4) ? b : (uint8_t)(b ^ (1u << vrng_below(r, 8)));
		}
		break;
	case LM_PREV:
		if (avail > 0) return (uint8_t)(z->h[z->hn - 1] + vrng_below(r, 3) - 1);
		break;
	case LM_OPCODE: {
		static const uint8_t ops[] = { 0xE8, 0xE9, 0xEB, 0x94, 0x97, 0x48, 0x4B, 0x40, 0x7F,
			0xEF, 0x6F, 0x17, 0x97, 0xF0, 0xF8, 0x00, 0xFF, 0x0F, 0x80, 0x8F, 0x10, 0x11,
			0x90, 0xB0, 0x05, 0xE7, 0x67, 0x01, 0x16, 0x1D };
		if (vrng_chance(r, 1, 2)) return ops[vrng_below(r, sizeof(ops))];
		break;
	}
	default: break;
	}
	return (uint8_t)vrng_u64(r);
}

static unsigned gen_len(lz *z, unsigned maxlen)
{
	// maxlen >= 2
	vrng *r = z->r;
	unsigned m = z->pol.len_mode;
	if (m == NM_MIX) m = vrng_below(r, NM_MIX);
	unsigned len;
	switch (m) {
	case NM_LOW:  len = 2 + vrng_below(r, 8); break;
	case NM_MID:  len = 10 + vrng_below(r, 8); break;
	case NM_HIGH: len = 18 + vrng_below(r, 256); break;
	case NM_MAX:  len = LEN_MAX; break;
	case NM_TWO:  len = 2; break;
	case NM_LOG:  len = 2 + (unsigned)vrng_logsize(r, LEN_MAX - 2); break;
	default:      len = 2 + vrng_below(r, LEN_MAX - 1); break;
	}
	return len > maxlen ? maxlen : len;
}

static uint32_t gen_dist(lz *z, uint32_t avail)
{
	// avail >= 1; result in [0, avail)
	vrng *r = z->r;
	unsigned m = z->pol.dist_mode;
	if (m == DM_MIX) m = vrng_below(r, DM_MIX);
	uint32_t d;
	switch (m) {
	case DM_SMALL: d = vrng_below(r, 16); break;
	case DM_LOG:   d = (uint32_t)vrng_logsize(r, avail - 1); break;
	case DM_MAX:   d = avail - 1 - (vrng_chance(r, 1, 4) ? vrng_below(r, 3) : 0); break;
	case DM_REPVAL: d = z->c.rep[vrng_below(r, 4)]; break;
	default:       d = vrng_below(r, avail); break;
	}
	return d < avail ? d : avail - 1;
}

// Free mode: draw one symbol; at most `rem` (>= 1) bytes may be produced.
static void lz_step_free(lz *z, size_t rem)
{
	vrng *r = z->r; core *c = &z->c;
	const uint32_t avail = lz_avail(z);
	if (z->lqi < z->lqn) { emit_literal(z, z->lq[z->lqi++]); return; }
	if (!z->pol_locked && z->pol_ttl-- == 0) new_policy(z);
	unsigned w[K_COUNT]; unsigned tot = 0;
	for (int i = 0; i < K_COUNT; ++i) w[i] = z->pol.w[i];
	if (avail == 0 || rem < 2) w[K_MATCH] = 0;
	for (int i = 0; i < 4; ++i)
		if (c->rep[i] >= avail || rem < 2) w[K_REP0 + i] = 0;
	if (c->rep[0] >= avail) w[K_SHORT] = 0;
	for (int i = 0; i < K_COUNT; ++i) tot += w[i];
	unsigned k = K_LIT;
	if (tot > 0) {
		unsigned x = vrng_below(r, tot);
		for (k = 0; x >= w[k]; ++k) x -= w[k];
	}
	const unsigned maxlen = rem < LEN_MAX ? (unsigned)rem : LEN_MAX;
	switch (k) {
	case K_LIT:
		if (z->bcj_bias && vrng_chance(r, 1, 6)) {
			queue_burst(z);
			emit_literal(z, z->lq[z->lqi++]);
		} else {
			emit_literal(z, gen_lit_byte(z, avail));
		}
		break;
	case K_MATCH: emit_match(z, gen_dist(z, avail), gen_len(z, maxlen)); break;
	case K_SHORT: emit_shortrep(z); break;
	default: emit_rep(z, k - K_REP0, gen_len(z, maxlen)); break;
	}
}

static unsigned mlen_at(const lz *z, uint32_t d, unsigned maxlen)
{
	const uint8_t *a = z->h + z->hn, *b = a - d - 1;
	unsigned l = 0;
	while (l < maxlen && a[l] == b[l]) ++l;
	return l;
}

// Parse mode: the data is fixed (h[hn .. data_end)); draw a random legal way
// to code the next 1..rem bytes.
static void lz_step_parse(lz *z, size_t rem)
{
	vrng *r = z->r; core *c = &z->c;
	const uint32_t avail = lz_avail(z);
	if (!z->pol_locked && z->pol_ttl-- == 0) new_policy(z);
	const unsigned maxlen = rem < LEN_MAX ? (unsigned)rem : LEN_MAX;
	unsigned w[K_COUNT], rl[4] = {0, 0, 0, 0}, tot = 0;
	for (int i = 0; i < K_COUNT; ++i) w[i] = z->pol.w[i];
	// In parse mode a policy that forbids literals is pointless
	if (w[K_LIT] == 0) w[K_LIT] = 1;
	for (int i = 0; i < 4; ++i) {
		if (c->rep[i] < avail) rl[i] = mlen_at(z, c->rep[i], maxlen);
		if (rl[i] < 2) w[K_REP0 + i] = 0; else w[K_REP0 + i] += 2;
	}
	if (!(c->rep[0] < avail && mlen_at(z, c->rep[0], 1) == 1)) w[K_SHORT] = 0;
	// match candidate via the hash chain
	uint32_t md = 0; unsigned ml = 0;
	if (w[K_MATCH] == 0 && vrng_chance(r, 1, 2)) w[K_MATCH] = 4;
	if (w[K_MATCH] && maxlen >= 2 && avail > 0 && z->hn + 1 < z->data_end) {
		const unsigned key = z->h[z->hn] | ((unsigned)z->h[z->hn + 1] << 8);
		uint32_t cand = z->head[key];
		unsigned skip = vrng_chance(r, 1, 2) ? 0 : vrng_below(r, 12);
		const bool want_longest = vrng_chance(r, 1, 3);
		unsigned steps = 0;
		while (cand != 0 && steps < 24) {
			const size_t p = cand - 1;
			const size_t d = z->hn - p - 1;
			if (d >= avail) break;
			const unsigned l = mlen_at(z, (uint32_t)d, maxlen);
			if (l >= 2) {
				if (want_longest) { if (l > ml) { ml = l; md = (uint32_t)d; } }
				else { ml = l; md = (uint32_t)d; if (skip-- == 0) break; }
			}
			cand = z->chain[p];
			++steps;
		}
	}
	if (ml < 2) w[K_MATCH] = 0;
	for (int i = 0; i < K_COUNT; ++i) tot += w[i];
	unsigned x = vrng_below(r, tot), k;
	for (k = 0; x >= w[k]; ++k) x -= w[k];
	switch (k) {
	case K_LIT: emit_literal(z, z->h[z->hn]); break;
	case K_SHORT: emit_shortrep(z); break;
	case K_MATCH: {
		unsigned l = vrng_chance(r, 2, 3) ? ml : gen_len(z, ml);
		emit_match(z, md, l);
		break;
	}
	default: {
		const unsigned i = k - K_REP0;
		unsigned l = vrng_chance(r, 2, 3) ? rl[i] : gen_len(z, rl[i]);
		emit_rep(z, i, l);
		break;
	}
	}
}

static inline void lz_step(lz *z, size_t rem)
{
	if (z->parse) lz_step_parse(z, rem); else lz_step_free(z, rem);
}

static unsigned props_byte(unsigned lc, unsigned lp, unsigned pb) { return (pb * 5 + lp) * 9 + lc; }

static void set_props(lz *z, unsigned lc, unsigned lp, unsigned pb)
{
	z->c.lc = lc; z->c.lp = lp; z->c.pb = pb;
	synth_info *in = z->info;
	in->lc = lc; in->lp = lp; in->pb = pb;
	if (in->n_props_used < 8) in->props_used[in->n_props_used++] = (uint8_t)props_byte(lc, lp, pb);
}

static void random_props(vrng *r, unsigned *lc, unsigned *lp, unsigned *pb)
{
	if (vrng_chance(r, 1, 8)) { *lc = 3; *lp = 0; *pb = 2; return; }
	// uniform over the 15 (lc, lp) pairs with lc + lp <= 4
	unsigned k = vrng_below(r, 15), a = 0, b = 0;
	for (a = 0; a <= 4; ++a) {
		const unsigned cnt = 5 - a;
		if (k < cnt) { b = k; break; }
		k -= cnt;
	}
	*lc = a; *lp = b; *pb = vrng_below(r, 5);
}

// lz object life cycle. `data`/`data_len` non-NULL selects parse mode.
static lz *lz_new(vrng *r, const synth_opts *o, synth_info *info, uint32_t dict_size,
		const uint8_t *preset, size_t preset_len, size_t target, const uint8_t *data, bool bcj_bias)
{
	lz *z = malloc(sizeof(*z));
	if (!z) { fprintf(stderr, "synth: out of memory\n"); exit(2); }
	z->r = r; z->o = o; z->info = info; z->sink = NULL;
	z->dict_size = dict_size;
	size_t used = preset ? preset_len : 0;
	if (used > dict_size) used = dict_size;
	z->preset_used = used;
	z->hcap = used + target + 32;
	z->h = malloc(z->hcap);
	if (!z->h) { fprintf(stderr, "synth: out of memory\n"); exit(2); }
	if (used) memcpy(z->h, preset + preset_len - used, used);
	z->hn = used; z->dict_start = 0;
	z->parse = data != NULL;
	z->data_end = used + target;
	z->head = NULL; z->chain = NULL;
	if (z->parse) {
		memcpy(z->h + used, data, target);
		z->head = calloc(65536, sizeof(uint32_t));
		z->chain = malloc((z->data_end + 1) * sizeof(uint32_t));
		if (!z->head || !z->chain) { fprintf(stderr, "synth: out of memory\n"); exit(2); }
		for (size_t p = 0; p < used; ++p) hash_insert(z, p);
		info->parse_mode_streams++;
	} else {
		info->free_mode_streams++;
	}
	z->pol_locked = false; z->pol_ttl = 0;
	z->lqn = z->lqi = 0;
	z->bcj_bias = bcj_bias;
	z->c.lc = 3; z->c.lp = 0; z->c.pb = 2;
	info->dict_size = dict_size;
	info->lzma_uncomp_size = target;
	if (used) { info->preset_used = true; info->preset_len_used = used; }
	return z;
}

static void lz_free(lz *z) { free(z->h); free(z->head); free(z->chain); free(z); }

/////////////////
// LZMA1 stream //
/////////////////

static void gen_lzma1(lz *z, size_t target, bool eopm, vbuf *out)
{
	core_reset(&z->c);
	rc_init(&z->c);
	z->sink = out;
	const size_t start = z->hn;
	while (z->hn - start < target) lz_step(z, target - (z->hn - start));
	if (eopm) {
		unsigned len = 2;
		if (vrng_chance(z->r, 1, 10)) len = 2 + vrng_below(z->r, LEN_MAX - 1);
		emit_eopm(z, len);
	}
	rc_flush(z);
}

//////////////////
// LZMA2 stream //
//////////////////

static size_t chunk_size_choice(vrng *r, size_t rem, size_t hard_max, unsigned nchunks)
{
	unsigned k = vrng_below(r, 10);
	if (nchunks > 60 && k < 6) k = 6;
	size_t s;
	switch (k) {
	case 0: s = 1; break;
	case 1: s = 1 + vrng_below(r, 16); break;
	case 2: case 3: s = 1 + vrng_logsize(r, rem < 4096 ? rem - 1 : 4095); break;
	case 4: case 5: s = 1 + vrng_logsize(r, rem - 1); break;
	case 8: s = hard_max; break;
	case 9: s = 1 + (size_t)vrng_below64(r, rem); break;
	default: s = rem; break;
	}
	if (s > rem) s = rem;
	if (s > hard_max) s = hard_max;
	return s;
}

static void gen_lzma2(lz *z, size_t target, vbuf *out)
{
	vrng *r = z->r; synth_info *in = z->info; core *c = &z->c;
	bool need_dict_reset = z->hn == 0;    // no preset dictionary
	bool need_props = true;
	bool have_props = false;
	static const unsigned unc_probs[] = { 0, 0, 1, 2, 4, 10 };
	const unsigned p_unc = unc_probs[vrng_below(r, 6)];
	const size_t start = z->hn;
	unsigned nchunks = 0;
	vbuf cb = {0};
	core *snap = NULL;

	while (z->hn - start < target) {
		const size_t rem = target - (z->hn - start);
		if (vrng_below(r, 16) < p_unc) {
			// uncompressed chunk
			const size_t n = chunk_size_choice(r, rem, LZMA2_COMP_MAX, nchunks);
			const bool reset = need_dict_reset || vrng_chance(r, 1, 6);
			if (reset) {
				z->dict_start = z->hn; need_props = true; need_dict_reset = false;
				in->dict_resets++; in->ctrl[SYNTH_CTRL_UNC_RESET]++;
			} else in->ctrl[SYNTH_CTRL_UNC]++;
			put(out, reset ? 0x01 : 0x02);
			put(out, (uint8_t)((n - 1) >> 8)); put(out, (uint8_t)(n - 1));
			if (!z->parse) {
				uint8_t *d = z->h + z->hn;
				const unsigned k = vrng_below(r, 3);
				if (k == 0 || z->hn < 2) vrng_fill(r, d, n);
				else if (k == 1) for (size_t i = 0; i < n; ++i) d[i] = (uint8_t)('a' + vrng_below(r, 3));
				else {
					// copy of earlier data, so later matches have something to find
					const size_t src = (size_t)vrng_below64(r, z->hn);
					for (size_t i = 0; i < n; ++i) d[i] = z->h[src + i % (z->hn - src)];
				}
			}
			vbuf_append(out, z->h + z->hn, n);
			lz_advance(z, n);
			in->chunks++; in->chunks_uncompressed++;
			if (n == 1) in->chunks_one_byte++;
			if (n == LZMA2_COMP_MAX) in->chunks_max_unc++;
			++nchunks;
			continue;
		}

		// LZMA chunk
		unsigned mode;
		if (need_dict_reset) mode = 3;
		else if (need_props) mode = vrng_chance(r, 1, 4) ? 3 : 2;
		else {
			const unsigned k = vrng_below(r, 16);
			mode = k < 7 ? 0 : (k < 10 ? 1 : (k < 14 ? 2 : 3));
		}
		if (mode == 3) { z->dict_start = z->hn; in->dict_resets++; }
		if (mode >= 2) {
			unsigned lc = c->lc, lp = c->lp, pb = c->pb;
			if (!have_props || !vrng_chance(r, 1, 4)) random_props(r, &lc, &lp, &pb);
			if (have_props) in->prop_changes++;
			set_props(z, lc, lp, pb);
			have_props = true;
		}
		if (mode >= 1) { core_reset(c); in->state_resets++; }
		need_dict_reset = false; need_props = false;
		in->ctrl[SYNTH_CTRL_LZMA + mode]++;

		size_t ulimit = chunk_size_choice(r, rem, LZMA2_UNC_MAX, nchunks);
		enum { SP_NONE, SP_MAXC, SP_MAXU } special = SP_NONE;
		const bool saved_locked = z->pol_locked;
		const policy saved_pol = z->pol;
		if (!z->parse && rem >= 24000 && vrng_chance(r, 1, 6)) {
			special = SP_MAXC; ulimit = rem < LZMA2_UNC_MAX ? rem : LZMA2_UNC_MAX;
			policy_expensive(z);
		} else if (!z->parse && rem >= LZMA2_UNC_MAX && vrng_chance(r, 1, 2)) {
			special = SP_MAXU; ulimit = LZMA2_UNC_MAX;
			policy_cheap(z);
		}

		rc_init(c);
		cb.n = 0;
		z->sink = &cb;
		const size_t ustart = z->hn;
		unsigned tries = 0;
		while (z->hn - ustart < ulimit) {
			const uint64_t pend = c->nshifts + 5;
			const size_t left = ulimit - (z->hn - ustart);
			if (pend + SYM_MAX_SHIFTS <= LZMA2_COMP_MAX) { lz_step(z, left); continue; }
			if (special != SP_MAXC || pend >= LZMA2_COMP_MAX || tries > 200) break;
			// walk to exactly 64 KiB of compressed data, undoing overshoots
			if (!snap) { snap = malloc(sizeof(*snap)); if (!snap) exit(2); }
			memcpy(snap, c, sizeof(*c));
			const size_t s_cb = cb.n, s_hn = z->hn;
			const synth_info s_info = *in;
			const unsigned s_lqn = z->lqn, s_lqi = z->lqi;
			lz_step(z, left);
			if (c->nshifts + 5 > LZMA2_COMP_MAX) {
				memcpy(c, snap, sizeof(*c));
				cb.n = s_cb; z->hn = s_hn; *in = s_info; z->lqn = s_lqn; z->lqi = s_lqi;
				++tries;
			}
		}
		rc_flush(z);
		if (special != SP_NONE) { z->pol = saved_pol; z->pol_locked = saved_locked; }
		const size_t usize = z->hn - ustart, csize = cb.n;
		assert(usize >= 1 && usize <= LZMA2_UNC_MAX);
		assert(csize == c->nshifts && csize >= 5 && csize <= LZMA2_COMP_MAX);
		put(out, (uint8_t)(0x80 | (mode << 5) | ((usize - 1) >> 16)));
		put(out, (uint8_t)((usize - 1) >> 8)); put(out, (uint8_t)(usize - 1));
		put(out, (uint8_t)((csize - 1) >> 8)); put(out, (uint8_t)(csize - 1));
		if (mode >= 2) put(out, (uint8_t)props_byte(c->lc, c->lp, c->pb));
		vbuf_append(out, cb.p, csize);
		in->chunks++;
		if (usize == 1) in->chunks_one_byte++;
		if (usize == LZMA2_UNC_MAX) in->chunks_max_uncomp++;
		if (csize == LZMA2_COMP_MAX) in->chunks_max_comp++;
		if (csize > usize) in->chunks_expanding++;
		++nchunks;
	}
	put(out, 0x00);
	vbuf_free(&cb);
	free(snap);
}

/////////////
// Helpers //
/////////////

uint32_t synth_lzma2_dict_size(unsigned b)
{
	if (b > 40) return 0;
	if (b == 40) return UINT32_MAX;
	return (uint32_t)(2 | (b & 1)) << (b / 2 + 11);
}

uint32_t synth_lzip_dict_size(unsigned byte)
{
	const unsigned b = byte & 0x1F, f = byte >> 5;
	if (b < 12 || b > 29) return 0;
	if (b == 12 && f != 0) return 0;
	return (UINT32_C(1) << b) - f * (UINT32_C(1) << (b - 4));
}

unsigned synth_check_size(unsigned id)
{
	static const uint8_t s[16] = { 0, 4, 4, 4, 8, 8, 8, 16, 16, 16, 32, 32, 32, 64, 64, 64 };
	return s[id & 15];
}

size_t synth_vli(uint8_t *dst, uint64_t v)
{
	size_t n = 0;
	while (v >= 0x80) { dst[n++] = (uint8_t)(v | 0x80); v >>= 7; }
	dst[n++] = (uint8_t)v;
	return n;
}

static void put_vli(vbuf *b, uint64_t v) { uint8_t t[9]; vbuf_append(b, t, synth_vli(t, v)); }

static uint32_t opt_max_dict(const synth_opts *o) { return o->max_dict ? o->max_dict : (1u << 20); }

static size_t pick_size(vrng *r, size_t max)
{
	const unsigned k = vrng_below(r, 20);
	if (k == 0) return 0;
	if (k == 1) return max < 1 ? max : 1;
	if (k < 4) return max;
	if (k < 12) return vrng_logsize(r, max);
	return (size_t)vrng_below64(r, (uint64_t)max + 1);
}

static unsigned pick_lzma2_dict_code(vrng *r, const synth_opts *o, size_t min_bytes)
{
	const uint32_t md = opt_max_dict(o);
	unsigned maxc = 0;
	while (maxc < 40 && synth_lzma2_dict_size(maxc + 1) <= md) ++maxc;
	unsigned minc = 0;
	while (minc < maxc && synth_lzma2_dict_size(minc) < min_bytes) ++minc;
	const unsigned k = vrng_below(r, 10);
	unsigned cde;
	if (k < 4) cde = 0;
	else if (k < 7) cde = vrng_below(r, 5);
	else if (k < 9) cde = vrng_below(r, maxc + 1);
	else cde = maxc - vrng_below(r, maxc < 4 ? maxc + 1 : 4);
	if (cde < minc) cde = minc;
	if (cde > maxc) cde = maxc;
	return cde;
}

static uint32_t pick_lzma1_dict(vrng *r, const synth_opts *o, size_t n, size_t min_bytes)
{
	const uint32_t md = opt_max_dict(o);
	unsigned maxb = 12;
	while (maxb < 31 && (UINT32_C(1) << (maxb + 1)) <= md) ++maxb;
	const unsigned k = vrng_below(r, 40);
	uint64_t d;
	if (k == 0) d = 0;
	else if (k < 4) d = 1 + vrng_below(r, 32);
	else if (k < 12) d = 1 + vrng_below64(r, n ? n : 1);
	else if (k < 16) d = 4096;
	else if (k < 22) d = UINT64_C(1) << vrng_range(r, 12, maxb);
	else if (k < 26) { d = UINT64_C(3) << vrng_range(r, 11, maxb - 1); }
	else if (k < 30) d = 1 + vrng_below64(r, md);
	else if (k < 34) d = n ? n - vrng_below(r, 2) : 1;
	else if (k < 36) d = md;
	else d = 4096 + vrng_below(r, 4096);
	if (d > md) d = md;
	if (d < min_bytes) d = min_bytes > md ? md : min_bytes;
	return (uint32_t)d;
}

static bool want_parse(vrng *r, const synth_opts *o, unsigned num, unsigned den)
{
	if (o->flags & SYNTH_PARSE_ONLY) return true;
	if (o->flags & SYNTH_FREE_ONLY) return false;
	return vrng_chance(r, num, den);
}

static void desc_add(synth_info *in, const char *fmt, ...) __attribute__((format(printf, 2, 3)));
#include <stdarg.h>
static void desc_add(synth_info *in, const char *fmt, ...)
{
	const size_t l = strlen(in->desc);
	if (l + 1 >= sizeof(in->desc)) return;
	va_list ap; va_start(ap, fmt);
	vsnprintf(in->desc + l, sizeof(in->desc) - l, fmt, ap);
	va_end(ap);
}

static void desc_syms(synth_info *in)
{
	desc_add(in, " lit=%u m=%u r=%u/%u/%u/%u sr=%u maxd=%u", in->n_literals, in->n_matches,
		in->n_reps[0], in->n_reps[1], in->n_reps[2], in->n_reps[3], in->n_shortreps, in->max_distance);
}

///////////////////
// Filter chains //
///////////////////

typedef struct {
	unsigned n;
	synth_filter f[4];
	uint32_t start[4];      // BCJ start offset
	unsigned delta[4];      // delta distance
	// last filter
	bool lzma1; bool eopm;
	unsigned lc, lp, pb;    // LZMA1 only
	uint32_t dict_size;
	bool has_bcj;
} chainspec;

static void gen_chain(vrng *r, const synth_opts *o, synth_info *in, bool allow_lzma1, size_t target, chainspec *ch)
{
	memset(ch, 0, sizeof(*ch));
	uint64_t pool[9]; unsigned np = 0;
	if (!(o->flags & SYNTH_NO_DELTA)) pool[np++] = REF_ID_DELTA;
	if (!(o->flags & SYNTH_NO_BCJ))
		for (unsigned id = REF_ID_X86; id <= REF_ID_RISCV; ++id)
			if (!(id == REF_ID_RISCV && (o->flags & SYNTH_NO_RISCV))) pool[np++] = id;
	unsigned n = 1;
	const unsigned k = vrng_below(r, 10);
	if (np > 0 && k >= 4) n = k < 7 ? 2 : (k < 9 ? 3 : 4);
	ch->n = n;
	for (unsigned i = 0; i + 1 < n; ++i) {
		synth_filter *f = &ch->f[i];
		// delta gets a larger share than each single BCJ
		f->id = (pool[0] == REF_ID_DELTA && np > 1 && vrng_chance(r, 1, 4)) ? REF_ID_DELTA : pool[vrng_below(r, np)];
		if (f->id == REF_ID_DELTA) {
			const unsigned kk = vrng_below(r, 6);
			ch->delta[i] = kk == 0 ? 1 : (kk == 1 ? 256 : (kk == 2 ? 1 + vrng_below(r, 8) : 1 + vrng_below(r, 256)));
			f->props[0] = (uint8_t)(ch->delta[i] - 1);
			f->props_len = 1;
		} else {
			ch->has_bcj = true;
			const uint32_t al = ref_bcj_alignment((unsigned)f->id);
			const unsigned kk = vrng_below(r, 8);
			uint32_t so;
			if (kk < 3) { so = 0; f->props_len = 0; }
			else if (kk == 3) { so = 0; f->props_len = 4; in->bcj_props4_zero++; }
			else {
				if (kk == 4) so = vrng_below(r, 4096);
				else if (kk == 5) so = 0xFFFFFFFFu - vrng_below(r, 70000);   // position wraps around 2^32
				else so = (uint32_t)vrng_u64(r);
				so -= so % al;
				f->props_len = 4;
				if (so) in->bcj_nonzero_start++; else in->bcj_props4_zero++;
			}
			ch->start[i] = so;
			for (int j = 0; j < 4; ++j) f->props[j] = (uint8_t)(so >> (8 * j));
		}
		if (f->id < 32) in->filter_mask |= 1u << f->id;
	}
	synth_filter *l = &ch->f[n - 1];
	if (allow_lzma1 && vrng_chance(r, 1, 2)) {
		ch->lzma1 = true;
		ch->eopm = vrng_chance(r, 1, 2);
		random_props(r, &ch->lc, &ch->lp, &ch->pb);
		ch->dict_size = pick_lzma1_dict(r, o, target, 0);
		l->id = SYNTH_ID_LZMA1;
		l->props[0] = (uint8_t)props_byte(ch->lc, ch->lp, ch->pb);
		for (int j = 0; j < 4; ++j) l->props[1 + j] = (uint8_t)(ch->dict_size >> (8 * j));
		l->props_len = 5;
		in->filter_mask |= 1u << 31;
	} else {
		const unsigned cde = pick_lzma2_dict_code(r, o, 0);
		ch->dict_size = synth_lzma2_dict_size(cde);
		l->id = SYNTH_ID_LZMA2;
		l->props[0] = (uint8_t)cde;
		l->props_len = 1;
		in->filter_mask |= 1u << 30;
	}
	in->nfilters = n;
	for (unsigned i = 0; i < 4; ++i) in->filter_ids[i] = i < n ? ch->f[i].id : 0;
}

static void apply_filter(const chainspec *ch, unsigned i, bool encode, uint8_t *buf, size_t n)
{
	if (ch->f[i].id == REF_ID_DELTA) ref_delta(encode, ch->delta[i], buf, n);
	else ref_bcj((unsigned)ch->f[i].id, encode, ch->start[i], buf, n);
}

// Compressed data of one chain (no preset dictionary); appends the plaintext
// (the data before the first filter) to `plain`.
static void gen_body(vrng *r, const synth_opts *o, synth_info *in, const chainspec *ch,
		size_t target, vbuf *out, vbuf *plain)
{
	const bool parse = want_parse(r, o, ch->n > 1 ? 2 : 1, ch->n > 1 ? 5 : 4);
	vbuf data = {0};
	lz *z;
	if (parse) {
		gen_data(r, &data, target, -1, ch->dict_size);
		assert(data.n == target);
		vbuf_append(plain, data.p, data.n);
		for (unsigned i = 0; i + 1 < ch->n; ++i) apply_filter(ch, i, true, data.p, data.n);
		vbuf_reserve(&data, 1);
		z = lz_new(r, o, in, ch->dict_size, NULL, 0, target, data.p, false);
	} else {
		z = lz_new(r, o, in, ch->dict_size, NULL, 0, target, NULL, ch->has_bcj);
	}
	if (ch->lzma1) {
		set_props(z, ch->lc, ch->lp, ch->pb);
		gen_lzma1(z, target, ch->eopm, out);
	} else {
		gen_lzma2(z, target, out);
	}
	assert(z->hn == target);
	if (!parse) {
		const size_t at = plain->n;
		vbuf_append(plain, z->h, target);
		for (unsigned i = ch->n - 1; i-- > 0; ) apply_filter(ch, i, false, plain->p + at, target);
	}
	lz_free(z);
	vbuf_free(&data);
}

////////////////////
// Raw interfaces //
////////////////////

void synth_lzma1(vrng *r, const synth_opts *o, bool with_eopm, const uint8_t *preset, size_t preset_len,
		vbuf *out, vbuf *plain, synth_info *in)
{
	memset(in, 0, sizeof(*in));
	vbuf_clear(out); vbuf_clear(plain);
	if (!preset) preset_len = 0;
	const size_t target = pick_size(r, o->max_plain);
	size_t minb = 0;
	if (preset_len && ((o->flags & SYNTH_NO_PRESET_TRUNC) || !vrng_chance(r, 1, 5))) minb = preset_len;
	uint32_t dict = pick_lzma1_dict(r, o, target + preset_len, minb);
	// liblzma's decoder never uses less than 4096 bytes of dictionary, so with
	// dict_size == 0 it would still load a preset dictionary while the
	// documented rule ("only the last dict_size bytes are processed") loads
	// nothing: the previous-byte context of the first literal would differ.
	// Not a meaningful configuration; avoid it.
	if (preset_len && dict == 0) dict = 1;
	unsigned lc, lp, pb; random_props(r, &lc, &lp, &pb);
	vbuf data = {0};
	const bool parse = want_parse(r, o, 1, 4);
	if (parse) { gen_data(r, &data, target, -1, dict); vbuf_reserve(&data, 1); }
	lz *z = lz_new(r, o, in, dict, preset, preset_len, target, parse ? data.p : NULL, false);
	set_props(z, lc, lp, pb);
	gen_lzma1(z, target, with_eopm, out);
	vbuf_append(plain, z->h + z->preset_used, target);
	lz_free(z); vbuf_free(&data);
	in->nfilters = 1; in->filter_ids[0] = SYNTH_ID_LZMA1; in->filter_mask |= 1u << 31;
	in->alone_eopm = with_eopm;
	desc_add(in, "lzma1 lc%u lp%u pb%u dict=%u n=%zu eopm=%d preset=%zu %s", lc, lp, pb, dict, target,
		with_eopm, in->preset_len_used, parse ? "parse" : "free");
	desc_syms(in);
}

void synth_lzma2(vrng *r, const synth_opts *o, const uint8_t *preset, size_t preset_len,
		vbuf *out, vbuf *plain, synth_info *in)
{
	memset(in, 0, sizeof(*in));
	vbuf_clear(out); vbuf_clear(plain);
	if (!preset) preset_len = 0;
	const size_t target = pick_size(r, o->max_plain);
	size_t minb = 0;
	if (preset_len && ((o->flags & SYNTH_NO_PRESET_TRUNC) || !vrng_chance(r, 1, 5))) minb = preset_len;
	const uint32_t dict = synth_lzma2_dict_size(pick_lzma2_dict_code(r, o, minb));
	vbuf data = {0};
	const bool parse = want_parse(r, o, 1, 4);
	if (parse) { gen_data(r, &data, target, -1, dict); vbuf_reserve(&data, 1); }
	lz *z = lz_new(r, o, in, dict, preset, preset_len, target, parse ? data.p : NULL, false);
	gen_lzma2(z, target, out);
	vbuf_append(plain, z->h + z->preset_used, target);
	lz_free(z); vbuf_free(&data);
	in->nfilters = 1; in->filter_ids[0] = SYNTH_ID_LZMA2; in->filter_mask |= 1u << 30;
	desc_add(in, "lzma2 dict=%u n=%zu chunks=%u unc=%u dr=%u sr=%u pc=%u preset=%zu %s", dict, target,
		in->chunks, in->chunks_uncompressed, in->dict_resets, in->state_resets, in->prop_changes,
		in->preset_len_used, parse ? "parse" : "free");
	desc_syms(in);
}

void synth_raw_chain(vrng *r, const synth_opts *o, synth_filter filters[4], unsigned *nfilters,
		vbuf *out, vbuf *plain, synth_info *in)
{
	memset(in, 0, sizeof(*in));
	vbuf_clear(out); vbuf_clear(plain);
	const size_t target = pick_size(r, o->max_plain);
	chainspec ch;
	gen_chain(r, o, in, true, target, &ch);
	gen_body(r, o, in, &ch, target, out, plain);
	memcpy(filters, ch.f, sizeof(ch.f));
	*nfilters = ch.n;
	in->alone_eopm = ch.eopm;
	desc_add(in, "raw chain");
	for (unsigned i = 0; i < ch.n; ++i) desc_add(in, " %" PRIx64, ch.f[i].id & 0xFFFF);
	desc_add(in, " dict=%u n=%zu eopm=%d %s", ch.dict_size, target, ch.eopm, in->parse_mode_streams ? "parse" : "free");
	desc_syms(in);
}

/////////
// .xz //
/////////

typedef struct { uint64_t unpadded, uncomp; } blockrec;

static void emit_check(vrng *r, unsigned check_id, const uint8_t *p, size_t n, vbuf *out)
{
	switch (check_id) {
	case 0: break;
	case 1: put_le32(out, ref_crc32(p, n, 0)); break;
	case 4: put_le64(out, ref_crc64(p, n, 0)); break;
	case 10: { uint8_t d[32]; ref_sha256(p, n, d); vbuf_append(out, d, 32); break; }
	default: {
		// reserved ID: a decoder cannot verify it; any bytes of the right size
		uint8_t d[64]; vrng_fill(r, d, sizeof(d));
		vbuf_append(out, d, synth_check_size(check_id));
		break;
	}
	}
}

static void gen_block(vrng *r, const synth_opts *o, unsigned check_id, size_t target,
		vbuf *out, vbuf *plain, synth_info *in, blockrec *rec)
{
	chainspec ch;
	gen_chain(r, o, in, false, target, &ch);
	vbuf body = {0};
	const size_t plain_at = plain->n;
	gen_body(r, o, in, &ch, target, &body, plain);

	const bool has_comp = vrng_chance(r, 1, 2), has_uncomp = vrng_chance(r, 1, 2);
	vbuf hd = {0};
	put(&hd, 0);   // size byte, patched below
	put(&hd, (uint8_t)((ch.n - 1) | (has_comp ? 0x40 : 0) | (has_uncomp ? 0x80 : 0)));
	if (has_comp) put_vli(&hd, body.n);
	if (has_uncomp) put_vli(&hd, target);
	for (unsigned i = 0; i < ch.n; ++i) {
		put_vli(&hd, ch.f[i].id);
		put_vli(&hd, ch.f[i].props_len);
		vbuf_append(&hd, ch.f[i].props, ch.f[i].props_len);
	}
	const size_t minsize = (hd.n + 4 + 3) & ~(size_t)3;
	size_t hsize = minsize;
	const unsigned k = vrng_below(r, 12);
	if (k == 0) hsize = 1024;
	else if (k == 1) hsize = minsize + 4;
	else if (k == 2) hsize = minsize + 4 * vrng_below(r, (unsigned)((1024 - minsize) / 4) + 1);
	while (hd.n < hsize - 4) put(&hd, 0);
	hd.p[0] = (uint8_t)(hsize / 4 - 1);
	put_le32(&hd, ref_crc32(hd.p, hd.n, 0));
	assert(hd.n == hsize && hsize >= 8 && hsize <= 1024);

	vbuf_append(out, hd.p, hd.n);
	vbuf_append(out, body.p, body.n);
	for (size_t i = body.n; i & 3; ++i) put(out, 0);
	emit_check(r, check_id, plain->p + plain_at, target, out);

	rec->unpadded = hsize + body.n + synth_check_size(check_id);
	rec->uncomp = target;
	in->nblocks++;
	if (target == 0) in->empty_blocks++;
	in->has_comp_size = has_comp; in->has_uncomp_size = has_uncomp;
	in->header_padding = hsize > minsize;
	in->hdr_variants |= 1u << ((has_comp ? 1 : 0) + (has_uncomp ? 2 : 0));
	if (hsize > in->max_header_size) in->max_header_size = (unsigned)hsize;
	in->block_unpadded = rec->unpadded; in->block_uncomp = target; in->block_header_size = (unsigned)hsize;
	in->check_id = check_id;
	vbuf_free(&hd); vbuf_free(&body);
}

void synth_block(vrng *r, const synth_opts *o, unsigned check_id, vbuf *out, vbuf *plain, synth_info *in)
{
	memset(in, 0, sizeof(*in));
	vbuf_clear(out); vbuf_clear(plain);
	blockrec rec;
	const size_t target = pick_size(r, o->max_plain);
	gen_block(r, o, check_id & 15, target, out, plain, in, &rec);
	in->check_mask |= 1u << (check_id & 15);
	desc_add(in, "block check=%u nf=%u hdr=%u cs=%d us=%d n=%zu chunks=%u", check_id & 15, in->nfilters,
		in->block_header_size, in->has_comp_size, in->has_uncomp_size, target, in->chunks);
	desc_syms(in);
}

static unsigned pick_check(vrng *r, const synth_opts *o)
{
	static const uint8_t sup[4] = { 0, 1, 4, 10 };
	if ((o->flags & SYNTH_ONLY_SUPPORTED) || vrng_chance(r, 1, 2)) return sup[vrng_below(r, 4)];
	return vrng_below(r, 16);
}

void synth_xz(vrng *r, const synth_opts *o, vbuf *out, vbuf *plain, synth_info *in)
{
	memset(in, 0, sizeof(*in));
	vbuf_clear(out); vbuf_clear(plain);
	const bool single = (o->flags & SYNTH_SINGLE_STREAM) != 0;
	const unsigned max_streams = o->max_streams ? o->max_streams : 3;
	const unsigned max_blocks = o->max_blocks ? o->max_blocks : 5;
	unsigned nstreams = 1;
	if (!single && max_streams > 1 && vrng_chance(r, 1, 3)) nstreams = 1 + vrng_below(r, max_streams);
	size_t cap_left = o->max_plain;
	for (unsigned s = 0; s < nstreams; ++s) {
		const unsigned check_id = pick_check(r, o);
		in->check_mask |= 1u << check_id;
		unsigned nblocks;
		const unsigned k = vrng_below(r, 12);
		if (k == 0) nblocks = 0;
		else if (k < 7) nblocks = 1;
		else nblocks = 1 + vrng_below(r, max_blocks);
		if (nblocks > max_blocks) nblocks = max_blocks;
		// Stream Header
		const uint8_t flags[2] = { 0x00, (uint8_t)check_id };
		static const uint8_t magic[6] = { 0xFD, '7', 'z', 'X', 'Z', 0x00 };
		vbuf_append(out, magic, 6);
		vbuf_append(out, flags, 2);
		put_le32(out, ref_crc32(flags, 2, 0));
		// Blocks
		blockrec *recs = calloc(nblocks ? nblocks : 1, sizeof(*recs));
		if (!recs) exit(2);
		for (unsigned b = 0; b < nblocks; ++b) {
			size_t t = vrng_chance(r, 1, 10) ? 0 : pick_size(r, cap_left);
			if (nblocks - b > 1 && vrng_chance(r, 1, 2)) t = pick_size(r, cap_left / (nblocks - b));
			cap_left -= t;
			gen_block(r, o, check_id, t, out, plain, in, &recs[b]);
		}
		if (nblocks == 0) in->streams_without_blocks++;
		// Index
		vbuf ix = {0};
		put(&ix, 0x00);
		put_vli(&ix, nblocks);
		for (unsigned b = 0; b < nblocks; ++b) { put_vli(&ix, recs[b].unpadded); put_vli(&ix, recs[b].uncomp); }
		while (ix.n & 3) put(&ix, 0);
		put_le32(&ix, ref_crc32(ix.p, ix.n, 0));
		vbuf_append(out, ix.p, ix.n);
		// Stream Footer
		uint8_t ft[6];
		const uint32_t bs = (uint32_t)(ix.n / 4 - 1);
		for (int i = 0; i < 4; ++i) ft[i] = (uint8_t)(bs >> (8 * i));
		ft[4] = flags[0]; ft[5] = flags[1];
		put_le32(out, ref_crc32(ft, 6, 0));
		vbuf_append(out, ft, 6);
		put(out, 'Y'); put(out, 'Z');
		vbuf_free(&ix);
		free(recs);
		in->nstreams++;
		// Stream Padding
		if (!single) {
			const unsigned kk = vrng_below(r, 10);
			size_t pad = 0;
			if (kk >= 6 && kk < 9) pad = 4 * (1 + vrng_below(r, 3));
			else if (kk == 9) pad = 4 * (size_t)vrng_logsize(r, 300);
			for (size_t i = 0; i < pad; ++i) put(out, 0);
			in->stream_padding += pad;
		}
	}
	desc_add(in, "xz streams=%u blocks=%u empty=%u pad=%zu checks=%#x filters=%#x n=%zu chunks=%u",
		in->nstreams, in->nblocks, in->empty_blocks, in->stream_padding, in->check_mask,
		in->filter_mask, plain->n, in->chunks);
	desc_syms(in);
}

///////////
// .lzma //
///////////

void synth_alone(vrng *r, const synth_opts *o, vbuf *out, vbuf *plain, synth_info *in)
{
	memset(in, 0, sizeof(*in));
	vbuf_clear(out); vbuf_clear(plain);
	const size_t target = pick_size(r, o->max_plain);
	// the three valid variants (unknown size without end marker cannot terminate)
	const unsigned variant = vrng_below(r, 3);
	const bool known = variant != 2, eopm = variant != 0;
	unsigned lc, lp, pb; random_props(r, &lc, &lp, &pb);
	const uint32_t dict = pick_lzma1_dict(r, o, target, 0);
	put(out, (uint8_t)props_byte(lc, lp, pb));
	put_le32(out, dict);
	put_le64(out, known ? (uint64_t)target : UINT64_MAX);
	vbuf data = {0};
	const bool parse = want_parse(r, o, 1, 4);
	if (parse) { gen_data(r, &data, target, -1, dict); vbuf_reserve(&data, 1); }
	lz *z = lz_new(r, o, in, dict, NULL, 0, target, parse ? data.p : NULL, false);
	set_props(z, lc, lp, pb);
	gen_lzma1(z, target, eopm, out);
	vbuf_append(plain, z->h, target);
	lz_free(z); vbuf_free(&data);
	in->alone_size_known = known; in->alone_eopm = eopm;
	in->nfilters = 1; in->filter_ids[0] = SYNTH_ID_LZMA1; in->filter_mask |= 1u << 31;
	desc_add(in, "alone lc%u lp%u pb%u dict=%u n=%zu known=%d eopm=%d %s", lc, lp, pb, dict, target,
		known, eopm, parse ? "parse" : "free");
	desc_syms(in);
}

/////////
// .lz //
/////////

static unsigned pick_lzip_code(vrng *r, const synth_opts *o)
{
	const uint32_t md = opt_max_dict(o);
	for (;;) {
		unsigned b, f;
		const unsigned k = vrng_below(r, 10);
		if (md >= (512u << 20) && k >= 2) {
			// caller allows everything: uniform over the 137 codes
			const unsigned j = vrng_below(r, 137);
			if (j == 0) { b = 12; f = 0; } else { b = 13 + (j - 1) / 8; f = (j - 1) % 8; }
		}
		else if (k < 3) { b = 12; f = 0; }
		else if (k < 6) { b = vrng_range(r, 13, 16); f = vrng_below(r, 8); }
		else { b = vrng_range(r, 12, 29); f = vrng_below(r, 8); }
		if (b == 12) f = 0;
		const unsigned code = b | (f << 5);
		if (synth_lzip_dict_size(code) <= md || md < 4096) {
			if (md < 4096) return 12;
			return code;
		}
	}
}

void synth_lzip(vrng *r, const synth_opts *o, vbuf *out, vbuf *plain, synth_info *in)
{
	memset(in, 0, sizeof(*in));
	vbuf_clear(out); vbuf_clear(plain);
	const unsigned max_members = o->max_members ? o->max_members : 3;
	unsigned members = 1;
	if (max_members > 1 && vrng_chance(r, 1, 3)) members = 1 + vrng_below(r, max_members);
	size_t cap_left = o->max_plain;
	static const uint8_t magic[4] = { 'L', 'Z', 'I', 'P' };
	for (unsigned m = 0; m < members; ++m) {
		const unsigned version = vrng_below(r, 2);
		const unsigned code = pick_lzip_code(r, o);
		const uint32_t dict = synth_lzip_dict_size(code);
		size_t target = pick_size(r, cap_left);
		if (members - m > 1 && vrng_chance(r, 1, 2)) target = pick_size(r, cap_left / (members - m));
		cap_left -= target;
		const size_t mstart = out->n;
		vbuf_append(out, magic, 4);
		put(out, (uint8_t)version);
		put(out, (uint8_t)code);
		vbuf data = {0};
		const bool parse = want_parse(r, o, 1, 4);
		if (parse) { gen_data(r, &data, target, -1, dict); vbuf_reserve(&data, 1); }
		lz *z = lz_new(r, o, in, dict, NULL, 0, target, parse ? data.p : NULL, false);
		set_props(z, 3, 0, 2);
		gen_lzma1(z, target, true, out);
		vbuf_append(plain, z->h, target);
		put_le32(out, ref_crc32(z->h, target, 0));
		put_le64(out, target);
		if (version == 1) put_le64(out, out->n - mstart + 8);
		lz_free(z); vbuf_free(&data);
		in->lzip_version = version; in->lzip_dict_code = code; in->lzip_members++;
		if (version) in->lzip_v1++; else in->lzip_v0++;
	}
	if (!(o->flags & SYNTH_NO_TRAILING) && vrng_chance(r, 1, 4)) {
		// trailing non-.lz data: must not start with the complete magic
		uint8_t t[64];
		size_t n = 1 + vrng_below(r, sizeof(t));
		vrng_fill(r, t, sizeof(t));
		unsigned pre = vrng_chance(r, 1, 2) ? 0 : vrng_below(r, 4);   // 0..3 bytes of magic prefix
		if (pre > n) pre = (unsigned)n;
		memcpy(t, magic, pre);
		if (pre < n && t[pre] == magic[pre]) t[pre] ^= 0x55;
		vbuf_append(out, t, n);
		in->trailing = n;
		in->trailing_magic_prefix = pre;
	}
	in->nfilters = 1; in->filter_ids[0] = SYNTH_ID_LZMA1; in->filter_mask |= 1u << 31;
	in->alone_eopm = true;
	desc_add(in, "lzip members=%u v0=%u v1=%u lastcode=%#x n=%zu trailing=%zu/%u", in->lzip_members,
		in->lzip_v0, in->lzip_v1, in->lzip_dict_code, plain->n, in->trailing, in->trailing_magic_prefix);
	desc_syms(in);
}
