// synth - independent encoder / synthesiser of VALID .xz / LZMA2 / LZMA1 /
// .lzma / .lz streams (DESIGN.md 3.3, Appendix A).
//
// The symbol choices are random and the plaintext is a by-product, so the
// expected decoder output is known by construction. The LZMA symbol encoder
// (range encoder, bit models, literal/length/distance coders, state machine)
// is written from Igor Pavlov's LZMA specification and shares no code with
// liblzma. Integrity checks come from check_ref, BCJ/delta from bcj_ref.
//
// Two generation modes are mixed at random:
//   free mode   literal / match / rep0-3 / short-rep symbols are drawn at
//               random (any legal distance and length) and define the data;
//               with a filter chain the final plaintext is obtained by
//               running the *decode* direction of the non-last filters over
//               the LZMA-level data (last-but-one filter first).
//   parse mode  a plaintext from gen_data() is pushed through the *encode*
//               direction of the non-last filters in chain order and the
//               result is coded with a random legal parse (random choice among
//               literal, every applicable rep, short rep, and matches found
//               through a hash chain, with random - not maximal - lengths).
#ifndef REF_SYNTH_H
#define REF_SYNTH_H

#include "vh.h"

// synth_opts.flags
#define SYNTH_ONLY_SUPPORTED  0x01  // only what liblzma supports: Check IDs 0/1/4/10 (no reserved IDs)
#define SYNTH_SINGLE_STREAM   0x02  // synth_xz: exactly one Stream and no Stream Padding
#define SYNTH_NO_BCJ          0x04  // no BCJ filters in chains (delta still allowed)
#define SYNTH_NO_DELTA        0x08  // no delta filter in chains
#define SYNTH_NO_RISCV        0x10  // no RISC-V BCJ (released liblzma 5.4.x does not have it)
#define SYNTH_NO_TRAILING     0x20  // synth_lzip: no trailing non-.lz data
#define SYNTH_FREE_ONLY       0x40  // never use parse mode
#define SYNTH_PARSE_ONLY      0x80  // always use parse mode
#define SYNTH_NO_PRESET_TRUNC 0x100 // with a preset dictionary: always choose dict_size >= preset_len

#define SYNTH_ID_LZMA1  UINT64_C(0x4000000000000001)
#define SYNTH_ID_LZMA2  UINT64_C(0x21)

// Control-byte classes of LZMA2 chunks (index into synth_info.ctrl[])
enum {
	SYNTH_CTRL_UNC_RESET,   // 0x01
	SYNTH_CTRL_UNC,         // 0x02
	SYNTH_CTRL_LZMA,        // 0x80..0x9F  nothing reset
	SYNTH_CTRL_LZMA_STATE,  // 0xA0..0xBF  state reset
	SYNTH_CTRL_LZMA_PROPS,  // 0xC0..0xDF  state reset + new properties
	SYNTH_CTRL_LZMA_DICT,   // 0xE0..0xFF  state reset + new properties + dictionary reset
	SYNTH_CTRL_COUNT
};

// What one synthesised object contains; filled by synth, read by monitors for
// coverage accounting. Counters are sums over the whole object (all Blocks,
// Streams, members); lc/lp/pb/dict_size/filter_ids describe the LAST LZMA
// stream / Block generated.
typedef struct {
	unsigned lc, lp, pb; uint32_t dict_size;
	unsigned n_literals, n_matches, n_reps[4], n_shortreps; uint32_t max_distance;   // max distance+1 used
	unsigned chunks, chunks_uncompressed, dict_resets, state_resets, prop_changes;
	unsigned nfilters; uint64_t filter_ids[4]; unsigned check_id; unsigned nblocks, nstreams, empty_blocks;
	bool has_comp_size, has_uncomp_size, header_padding; size_t stream_padding;
	bool alone_size_known, alone_eopm; unsigned lzip_version, lzip_members; size_t trailing;
	char desc[256];

	// ---- extensions (coverage detail) ----
	unsigned ctrl[SYNTH_CTRL_COUNT];   // LZMA2 chunks per control class
	unsigned n_len273;                 // matches/reps of length 273
	unsigned n_len2;                   // matches/reps of length 2
	unsigned n_dist_eq_dict;           // matches/reps with distance+1 == dict_size
	unsigned n_dist_full;              // matches with distance+1 == all bytes available (oldest byte)
	unsigned n_match_is_rep;           // plain matches whose distance equals one of rep0-3
	unsigned n_rep_initial;            // reps / short reps using a rep still at its reset value
	unsigned n_matched_literals;       // literals coded in matched mode (state >= 7)
	unsigned n_preset_refs;            // matches/reps whose source starts inside the preset dictionary
	unsigned chunks_one_byte;          // chunks with uncompressed size 1
	unsigned chunks_max_uncomp;        // LZMA chunks with uncompressed size 2 MiB
	unsigned chunks_max_comp;          // LZMA chunks with compressed size 65536
	unsigned chunks_max_unc;           // uncompressed chunks of 65536 bytes
	unsigned chunks_expanding;         // LZMA chunks whose compressed size exceeds the uncompressed size
	uint8_t  props_used[8]; unsigned n_props_used;   // first 8 lc/lp/pb bytes ((pb*5+lp)*9+lc) used
	uint32_t filter_mask;              // bit i: filter ID i (3..0x0B) used in some chain; bit 31 LZMA1, bit 30 LZMA2
	unsigned hdr_variants;             // bit0 none, bit1 comp only, bit2 uncomp only, bit3 both (Block Header size fields)
	unsigned check_mask;               // bit i: Check ID i used by some Stream
	unsigned bcj_nonzero_start;        // BCJ filters with non-zero start offset
	unsigned bcj_props4_zero;          // BCJ filters with an explicit 4-byte zero start offset
	unsigned max_header_size;          // largest Block Header size
	unsigned streams_without_blocks;
	unsigned parse_mode_streams, free_mode_streams;
	bool     eopm; unsigned eopm_len;  // LZMA1: end marker written, and the length coded in it
	bool     preset_used; size_t preset_len_used;
	unsigned lzip_dict_code;           // last member's dictionary byte
	unsigned lzip_v0, lzip_v1;         // members per version
	unsigned trailing_magic_prefix;    // how many leading bytes of the trailing data equal the .lz magic (0..3)
	uint64_t block_unpadded, block_uncomp; unsigned block_header_size;  // last Block
	uint64_t lzma_uncomp_size;         // size of the data at LZMA level of the last LZMA stream (== plain size; filters preserve size)
} synth_info;

typedef struct {
	size_t max_plain;     // soft cap on plaintext bytes per object, e.g. 4096..65536
	unsigned flags;
	// ---- extensions; zero = default ----
	uint32_t max_dict;    // largest dictionary size declared (default 1 MiB). Decoders allocate this much.
	unsigned max_blocks;  // synth_xz: Blocks per Stream 0..max_blocks (default 5)
	unsigned max_streams; // synth_xz: Streams 1..max_streams (default 3)
	unsigned max_members; // synth_lzip: members 1..max_members (default 3)
} synth_opts;

// Raw LZMA1 stream; lc/lp/pb/dict_size chosen at random -> info. Without
// end marker the decoder needs info->lzma_uncomp_size (LZMA_FILTER_LZMA1EXT).
// With a preset dictionary only its last min(preset_len, dict_size) bytes are
// the initial history.
void synth_lzma1(vrng *r, const synth_opts *o, bool with_eopm, const uint8_t *preset, size_t preset_len, vbuf *out, vbuf *plain, synth_info *info);
// Raw LZMA2 stream (dict_size in info is always one of the 41 encodable sizes)
void synth_lzma2(vrng *r, const synth_opts *o, const uint8_t *preset, size_t preset_len, vbuf *out, vbuf *plain, synth_info *info);
// Complete .xz file (possibly several Streams and Stream Padding)
void synth_xz(vrng *r, const synth_opts *o, vbuf *out, vbuf *plain, synth_info *info);
// One Block: Block Header .. Block Padding .. Check
void synth_block(vrng *r, const synth_opts *o, unsigned check_id, vbuf *out, vbuf *plain, synth_info *info);
// .lzma (three valid variants: known size, known size + end marker, unknown size + end marker)
void synth_alone(vrng *r, const synth_opts *o, vbuf *out, vbuf *plain, synth_info *info);
// .lz (members + optional trailing data; plain = concatenation of members)
void synth_lzip(vrng *r, const synth_opts *o, vbuf *out, vbuf *plain, synth_info *info);

// Filter chain description for raw chains, to hand to liblzma: ids + props in
// .xz encoding (LZMA1: 5 bytes = properties byte + dictionary size LE32).
typedef struct { uint64_t id; uint8_t props[16]; size_t props_len; } synth_filter;
// 1-4 filters ending in LZMA2 or LZMA1, raw (no container). For LZMA1
// info->eopm tells whether an end marker terminates the stream.
void synth_raw_chain(vrng *r, const synth_opts *o, synth_filter filters[4], unsigned *nfilters, vbuf *out, vbuf *plain, synth_info *info);

// Helpers other monitors may want
uint32_t synth_lzma2_dict_size(unsigned props_byte);        // 0..40
uint32_t synth_lzip_dict_size(unsigned dict_byte);          // 0 if invalid
unsigned synth_check_size(unsigned check_id);               // 0..15 -> bytes
size_t   synth_vli(uint8_t *dst, uint64_t v);               // minimal VLI, returns length (<= 9)

#endif
