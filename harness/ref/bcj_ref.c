// Independent reference implementations of the .xz BCJ and delta transforms.
// See bcj_ref.h. Every transform is a plain loop over the complete stream;
// there is no streaming state, no hold-back buffer and no code shared with
// liblzma. Position arithmetic is modulo 2^32 as in the format.
//
// Sources of truth:
//   x86, PowerPC, IA-64, ARM, ARM-Thumb, SPARC: the behaviour of the branch
//   converters of the LZMA SDK (Bra86.c, Bra.c, BraIA64.c, versions 4.x-9.20,
//   i.e. the ones the .xz filter IDs 0x04-0x09 were defined by);
//   ARM64 (0x0A) and RISC-V (0x0B): the transform descriptions published with
//   XZ Utils 5.4 / 5.6; delta: xz-file-format.txt section 5.3.3.
#include "bcj_ref.h"

static uint32_t get_le32(const uint8_t *p)
{
	return (uint32_t)p[0] | ((uint32_t)p[1] << 8) | ((uint32_t)p[2] << 16) | ((uint32_t)p[3] << 24);
}

static void put_le32(uint8_t *p, uint32_t v)
{
	p[0] = (uint8_t)v; p[1] = (uint8_t)(v >> 8); p[2] = (uint8_t)(v >> 16); p[3] = (uint8_t)(v >> 24);
}

static uint32_t get_be32(const uint8_t *p)
{
	return ((uint32_t)p[0] << 24) | ((uint32_t)p[1] << 16) | ((uint32_t)p[2] << 8) | (uint32_t)p[3];
}

static void put_be32(uint8_t *p, uint32_t v)
{
	p[0] = (uint8_t)(v >> 24); p[1] = (uint8_t)(v >> 16); p[2] = (uint8_t)(v >> 8); p[3] = (uint8_t)v;
}

unsigned ref_bcj_alignment(unsigned id)
{
	switch (id) {
	case REF_ID_X86: return 1;
	case REF_ID_POWERPC: return 4;
	case REF_ID_IA64: return 16;
	case REF_ID_ARM: return 4;
	case REF_ID_ARMTHUMB: return 2;
	case REF_ID_SPARC: return 4;
	case REF_ID_ARM64: return 4;
	case REF_ID_RISCV: return 2;
	default: return 1;
	}
}

///////////
// Delta //
///////////

void ref_delta(bool encode, unsigned dist, uint8_t *buf, size_t n)
{
	if (dist < 1 || dist > 256)
		return;
	if (encode) {
		// out[i] = in[i] - in[i - dist]; walk backwards so the
		// originals are still there when they are needed.
		for (size_t i = n; i-- > 0; ) {
			uint8_t prev = i >= dist ? buf[i - dist] : 0;
			buf[i] = (uint8_t)(buf[i] - prev);
		}
	} else {
		// out[i] = in[i] + out[i - dist]
		for (size_t i = 0; i < n; ++i) {
			uint8_t prev = i >= dist ? buf[i - dist] : 0;
			buf[i] = (uint8_t)(buf[i] + prev);
		}
	}
}

/////////
// x86 //
/////////
//
// CALL (E8) and JMP (E9) rel32. A candidate is converted only when the top
// byte of the displacement is 00 or FF. `hist` remembers, for the three
// byte positions before the current one, whether an unconverted E8/E9
// candidate opcode was there (bit 0 = the byte just before, after the
// adjustment by the gap). Depending on the history some candidates are
// skipped (their "top" byte is really part of an earlier instruction) and
// converted values that would look like a 00/FF top byte at the overlapped
// position are iterated once more with the low bits flipped.

static bool x86_top(uint8_t b) { return b == 0x00 || b == 0xFF; }

static void ref_x86(bool encode, uint32_t ip0, uint8_t *buf, size_t n)
{
	static const uint8_t ok_hist[8] = { 1, 1, 1, 0, 1, 0, 0, 0 };
	static const uint8_t bitno[8] = { 0, 1, 2, 2, 3, 3, 3, 3 };
	if (n < 5)
		return;
	unsigned hist = 0;
	// position of the most recent candidate opcode; "far away" at start
	uint64_t last = UINT64_MAX; // treated as -1
	size_t i = 0;
	while (i + 5 <= n) {
		if ((buf[i] & 0xFE) != 0xE8) {
			++i;
			continue;
		}
		uint64_t gap = (uint64_t)i - last; // last == -1 -> i + 1
		if (gap > 3) {
			hist = 0;
		} else {
			hist = (hist << (gap - 1)) & 7;
			if (hist != 0) {
				uint8_t b = buf[i + 4 - bitno[hist]];
				if (!ok_hist[hist] || x86_top(b)) {
					last = i;
					hist = ((hist << 1) & 7) | 1;
					++i;
					continue;
				}
			}
		}
		last = i;
		if (!x86_top(buf[i + 4])) {
			hist = ((hist << 1) & 7) | 1;
			++i;
			continue;
		}
		uint32_t v = get_le32(buf + i + 1);
		uint32_t pc = ip0 + (uint32_t)i + 5;
		uint32_t r;
		for (;;) {
			r = encode ? v + pc : v - pc;
			if (hist == 0)
				break;
			unsigned sh = bitno[hist] * 8u;
			uint8_t b = (uint8_t)(r >> (24 - sh));
			if (!x86_top(b))
				break;
			v = r ^ ((UINT32_C(1) << (32 - sh)) - 1);
		}
		// keep 25 bits, sign-extend bit 24 into the top byte
		buf[i + 1] = (uint8_t)r;
		buf[i + 2] = (uint8_t)(r >> 8);
		buf[i + 3] = (uint8_t)(r >> 16);
		buf[i + 4] = ((r >> 24) & 1) ? 0xFF : 0x00;
		i += 5;
	}
}

/////////////
// PowerPC //
/////////////
// big endian, "bl": primary opcode 18, AA = 0, LK = 1

static void ref_powerpc(bool encode, uint32_t ip0, uint8_t *buf, size_t n)
{
	for (size_t i = 0; i + 4 <= n; i += 4) {
		uint32_t w = get_be32(buf + i);
		if ((w & 0xFC000003) != 0x48000001)
			continue;
		uint32_t pc = ip0 + (uint32_t)i;
		uint32_t disp = w & 0x03FFFFFC;
		uint32_t r = encode ? disp + pc : disp - pc;
		put_be32(buf + i, 0x48000001 | (r & 0x03FFFFFC));
	}
}

/////////
// ARM //
/////////
// little endian, BL with condition "always": top byte EB, 24-bit word offset,
// pipeline constant 8

static void ref_arm(bool encode, uint32_t ip0, uint8_t *buf, size_t n)
{
	for (size_t i = 0; i + 4 <= n; i += 4) {
		if (buf[i + 3] != 0xEB)
			continue;
		uint32_t w = get_le32(buf + i);
		uint32_t pc = ip0 + (uint32_t)i + 8;
		uint32_t disp = (w & 0x00FFFFFF) << 2;
		uint32_t r = encode ? disp + pc : disp - pc;
		put_le32(buf + i, 0xEB000000 | ((r >> 2) & 0x00FFFFFF));
	}
}

///////////////
// ARM-Thumb //
///////////////
// two little endian halfwords: 11110 hi11, 11111 lo11; halfword offset,
// pipeline constant 4

static void ref_armthumb(bool encode, uint32_t ip0, uint8_t *buf, size_t n)
{
	size_t i = 0;
	while (i + 4 <= n) {
		unsigned h0 = buf[i] | ((unsigned)buf[i + 1] << 8);
		unsigned h1 = buf[i + 2] | ((unsigned)buf[i + 3] << 8);
		if ((h0 & 0xF800) != 0xF000 || (h1 & 0xF800) != 0xF800) {
			i += 2;
			continue;
		}
		uint32_t pc = ip0 + (uint32_t)i + 4;
		uint32_t disp = (((uint32_t)(h0 & 0x7FF) << 11) | (h1 & 0x7FF)) << 1;
		uint32_t r = encode ? disp + pc : disp - pc;
		r >>= 1;
		h0 = 0xF000 | ((r >> 11) & 0x7FF);
		h1 = 0xF800 | (r & 0x7FF);
		buf[i] = (uint8_t)h0; buf[i + 1] = (uint8_t)(h0 >> 8);
		buf[i + 2] = (uint8_t)h1; buf[i + 3] = (uint8_t)(h1 >> 8);
		i += 4;
	}
}

///////////
// SPARC //
///////////
// big endian "call": 01 disp30, only when the displacement's top bits are
// all-zero or all-one (0x40 00xxxxxx.. / 0x7F 11xxxxxx..); 23 bits are kept

static void ref_sparc(bool encode, uint32_t ip0, uint8_t *buf, size_t n)
{
	for (size_t i = 0; i + 4 <= n; i += 4) {
		uint32_t w = get_be32(buf + i);
		uint32_t top10 = w >> 22;
		if (top10 != 0x100 && top10 != 0x1FF)
			continue;
		uint32_t pc = ip0 + (uint32_t)i;
		uint32_t disp = w << 2;
		uint32_t r = encode ? disp + pc : disp - pc;
		r >>= 2;
		uint32_t out = 0x40000000 | (r & 0x003FFFFF);
		if (r & 0x00400000)
			out |= 0x3FC00000;
		put_be32(buf + i, out);
	}
}

///////////
// IA-64 //
///////////
// 128-bit little endian bundles: 5-bit template, three 41-bit slots. The
// template decides which slots hold B-unit instructions; of those, the
// IP-relative form with opcode 5 (bits 40:37) and a zero field at bits 11:9
// carries imm20b at bits 32:13 and its sign at bit 36.
// The unit is 16 bytes.

static void ref_ia64(bool encode, uint32_t ip0, uint8_t *buf, size_t n)
{
	// bit s set = slot s is a branch slot
	static const uint8_t bslots[32] = {
		0, 0, 0, 0, 0, 0, 0, 0,  0, 0, 0, 0, 0, 0, 0, 0,
		4, 4, 6, 6, 0, 0, 7, 7,  4, 4, 0, 0, 4, 4, 0, 0,
	};
	for (size_t i = 0; i + 16 <= n; i += 16) {
		uint8_t *b = buf + i;
		unsigned slots = bslots[b[0] & 0x1F];
		uint32_t pc = ip0 + (uint32_t)i;
		for (unsigned s = 0; s < 3; ++s) {
			if (!((slots >> s) & 1))
				continue;
			unsigned bit = 5 + 41 * s;
			unsigned byte = bit / 8, sh = bit % 8;
			// 48 bits cover the 41-bit slot at any bit phase
			uint64_t raw = 0;
			for (unsigned j = 0; j < 6; ++j)
				raw |= (uint64_t)b[byte + j] << (8 * j);
			uint64_t ins = raw >> sh;
			if (((ins >> 37) & 0xF) != 0x5 || ((ins >> 9) & 0x7) != 0)
				continue;
			uint32_t imm = (uint32_t)((ins >> 13) & 0xFFFFF);
			imm |= (uint32_t)((ins >> 36) & 1) << 20;
			uint32_t disp = imm << 4;
			uint32_t r = encode ? disp + pc : disp - pc;
			r >>= 4;
			ins &= ~((UINT64_C(0xFFFFF) << 13) | (UINT64_C(1) << 36));
			ins |= (uint64_t)(r & 0xFFFFF) << 13;
			ins |= (uint64_t)((r >> 20) & 1) << 36;
			raw = (raw & ((UINT64_C(1) << sh) - 1)) | (ins << sh);
			for (unsigned j = 0; j < 6; ++j)
				b[byte + j] = (uint8_t)(raw >> (8 * j));
		}
	}
}

///////////
// ARM64 //
///////////
// BL: 100101 imm26 (word offset), all 26 bits converted.
// ADRP: 1 immlo2 10000 immhi19 Rd5 (4 KiB page offset); only values within
// +-512 MiB (+-2^17 pages) are converted, and the converted value is kept in
// 18 bits sign-extended to 21 so that it stays inside the same gate.

static void ref_arm64(bool encode, uint32_t ip0, uint8_t *buf, size_t n)
{
	for (size_t i = 0; i + 4 <= n; i += 4) {
		uint32_t w = get_le32(buf + i);
		uint32_t pc = ip0 + (uint32_t)i;
		if ((w >> 26) == 0x25) {
			uint32_t wpc = pc >> 2;
			uint32_t imm = w & 0x03FFFFFF;
			uint32_t r = encode ? imm + wpc : imm - wpc;
			put_le32(buf + i, 0x94000000 | (r & 0x03FFFFFF));
		} else if ((w & 0x9F000000) == 0x90000000) {
			uint32_t immlo = (w >> 29) & 3;
			uint32_t immhi = (w >> 5) & 0x7FFFF;
			uint32_t imm = (immhi << 2) | immlo; // 21 bits
			// range gate: sign-extended value in [-2^17, 2^17)
			uint32_t biased = (imm + 0x20000) & 0x1FFFFF;
			if (biased >= 0x40000)
				continue;
			uint32_t ppc = pc >> 12;
			uint32_t r = encode ? imm + ppc : imm - ppc;
			r &= 0x3FFFF; // 18 bits
			if (r & 0x20000)
				r |= 0x1C0000; // sign-extend to 21 bits
			uint32_t out = (w & 0x9000001F) | ((r & 3) << 29) | ((r >> 2) << 5);
			put_le32(buf + i, out);
		}
	}
}

////////////
// RISC-V //
////////////
// Instructions are looked for at every even offset that leaves 8 bytes.
// JAL with rd = x1 or x5: the 21-bit J-immediate becomes an absolute address
// stored as plain big-endian bits (20:17 in the high nibble of byte 1, 16:9
// in byte 2, 8:1 in byte 3).
// AUIPC rd (not x0/x2) followed by a 32-bit instruction whose rs1 field equals
// rd: absolute address = pc + (imm20 << 12) + sext(imm12 of the second
// instruction, always read as I-type); stored as "AUIPC x2" carrying the low
// 20 bits of the second instruction in its immediate field, followed by the
// address as a big-endian word.
// Input that already looks like the packed form (AUIPC x2 whose bits 13:12
// are 11 and whose bits 31:27 name a register other than x0/x2) is mapped by
// the encoder to an ordinary-looking pair without any address arithmetic
// (the escape), and that pair form is mapped back by the decoder.
// Skips: non-pair AUIPC 6 bytes, AUIPC x0/x2 that is not special 4 bytes,
// converted JAL 4 bytes, converted pairs 8 bytes, anything else 2 bytes.

static uint32_t rv_jimm_get(uint32_t w)
{
	// J-type: imm[20|10:1|11|19:12] at instruction bits 31|30:21|20|19:12
	return (((w >> 31) & 1) << 20) | (((w >> 21) & 0x3FF) << 1)
		| (((w >> 20) & 1) << 11) | (((w >> 12) & 0xFF) << 12);
}

static uint32_t rv_jimm_put(uint32_t w, uint32_t a)
{
	w &= 0x00000FFF;
	w |= ((a >> 20) & 1) << 31;
	w |= ((a >> 1) & 0x3FF) << 21;
	w |= ((a >> 11) & 1) << 20;
	w |= ((a >> 12) & 0xFF) << 12;
	return w;
}

static uint32_t rv_jpacked_get(uint32_t w)
{
	// byte1 high nibble = a[20:17], byte2 = a[16:9], byte3 = a[8:1]
	uint32_t b1 = (w >> 8) & 0xFF, b2 = (w >> 16) & 0xFF, b3 = w >> 24;
	return ((b1 >> 4) << 17) | (b2 << 9) | (b3 << 1);
}

static uint32_t rv_jpacked_put(uint32_t w, uint32_t a)
{
	w &= 0x00000FFF;
	w |= ((a >> 17) & 0xF) << 12;
	w |= ((a >> 9) & 0xFF) << 16;
	w |= ((a >> 1) & 0xFF) << 24;
	return w;
}

static void ref_riscv(bool encode, uint32_t ip0, uint8_t *buf, size_t n)
{
	size_t i = 0;
	while (i + 8 <= n) {
		uint32_t w = get_le32(buf + i);
		uint32_t pc = ip0 + (uint32_t)i;
		unsigned opcode = w & 0x7F;
		unsigned rd = (w >> 7) & 0x1F;
		if (opcode == 0x6F) {
			if (rd != 1 && rd != 5) {
				i += 2;
				continue;
			}
			if (encode) {
				uint32_t a = rv_jimm_get(w) + pc;
				w = rv_jpacked_put(w, a);
			} else {
				uint32_t a = rv_jpacked_get(w) - pc;
				w = rv_jimm_put(w, a);
			}
			put_le32(buf + i, w);
			i += 4;
			continue;
		}
		if (opcode != 0x17) {
			i += 2;
			continue;
		}
		if (rd != 0 && rd != 2) {
			uint32_t w2 = get_le32(buf + i + 4);
			unsigned rs1 = (w2 >> 15) & 0x1F;
			if ((w2 & 3) != 3 || rs1 != rd) {
				i += 6;
				continue;
			}
			uint32_t imm12 = w2 >> 20;
			uint32_t packed = 0x17 | (2u << 7) | (w2 << 12);
			if (encode) {
				uint32_t lo = imm12;
				if (lo & 0x800)
					lo |= 0xFFFFF000; // sign extension
				uint32_t a = (w & 0xFFFFF000) + lo + pc;
				put_le32(buf + i, packed);
				put_be32(buf + i + 4, a);
			} else {
				// reverse of the encoder's escape: no sign
				// extension, no pc, little endian
				uint32_t a = (w & 0xFFFFF000) + imm12;
				put_le32(buf + i, packed);
				put_le32(buf + i + 4, a);
			}
			i += 8;
			continue;
		}
		// rd is x0 or x2
		unsigned prs1 = w >> 27;
		bool special = rd == 2 && ((w >> 12) & 3) == 3 && prs1 != 0 && prs1 != 2;
		if (!special) {
			i += 4;
			continue;
		}
		uint32_t low20 = w >> 12; // low 20 bits of the second instruction
		if (encode) {
			// escape: treat as if it were packed, but plainly
			uint32_t a = get_le32(buf + i + 4);
			put_le32(buf + i, 0x17 | ((uint32_t)prs1 << 7) | (a & 0xFFFFF000));
			put_le32(buf + i + 4, low20 | (a << 20));
		} else {
			uint32_t a = get_be32(buf + i + 4) - pc;
			// imm20 such that imm20<<12 + sext(a[11:0]) == a
			uint32_t hi = (a + 0x800) & 0xFFFFF000;
			put_le32(buf + i, 0x17 | ((uint32_t)prs1 << 7) | hi);
			put_le32(buf + i + 4, low20 | (a << 20));
		}
		i += 8;
	}
}

void ref_bcj(unsigned id, bool encode, uint32_t start_offset, uint8_t *buf, size_t n)
{
	switch (id) {
	case REF_ID_X86: ref_x86(encode, start_offset, buf, n); break;
	case REF_ID_POWERPC: ref_powerpc(encode, start_offset, buf, n); break;
	case REF_ID_IA64: ref_ia64(encode, start_offset, buf, n); break;
	case REF_ID_ARM: ref_arm(encode, start_offset, buf, n); break;
	case REF_ID_ARMTHUMB: ref_armthumb(encode, start_offset, buf, n); break;
	case REF_ID_SPARC: ref_sparc(encode, start_offset, buf, n); break;
	case REF_ID_ARM64: ref_arm64(encode, start_offset, buf, n); break;
	case REF_ID_RISCV: ref_riscv(encode, start_offset, buf, n); break;
	default: break;
	}
}
