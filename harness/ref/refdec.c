// refdec: independent reference decoder / field checker. See refdec.h.
// No code shared with liblzma. Rules: DESIGN.md Appendix A.
#include "refdec.h"
#include "check_ref.h"
#include "bcj_ref.h"
#include <stdarg.h>
#include <stdio.h>
#include <stdlib.h>
#include <string.h>

///////////////////////////////////////////////////////////////////////////
// context, error reporting, growing arrays
///////////////////////////////////////////////////////////////////////////

#define OUT_SLACK 320u   // room for one maximal match beyond the logical limit

typedef struct {
	const uint8_t *in; size_t n;
	rd_result *r;
	size_t out_limit;            // cap on the number of produced bytes
	uint8_t *out; size_t out_len, out_cap;
	size_t out_base;             // preset-dictionary bytes at the start of out
	size_t fields_cap, blocks_cap, streams_cap, chunks_cap;
	int cur_stream, cur_block;
} ctx;

static const char *const field_names[RDF_KIND_COUNT] = {
	"stream_magic", "stream_flags", "stream_header_crc", "block_header_size",
	"block_flags", "block_comp_size", "block_uncomp_size", "filter_flags",
	"block_header_padding", "block_header_crc", "block_payload", "block_padding",
	"block_check", "index_indicator", "index_count", "index_record",
	"index_padding", "index_crc", "footer_crc", "footer_backward_size",
	"footer_flags", "footer_magic", "stream_padding", "alone_props", "alone_dict",
	"alone_size", "alone_payload", "lzip_magic", "lzip_version", "lzip_dict",
	"lzip_payload", "lzip_crc", "lzip_data_size", "lzip_member_size", "trailing",
	"raw_payload",
};

const char *rd_field_name(int kind)
{
	return kind >= 0 && kind < RDF_KIND_COUNT ? field_names[kind] : "?";
}

const char *rd_status_name(rd_status s)
{
	switch (s) {
	case RD_OK: return "OK";
	case RD_INVALID: return "INVALID";
	case RD_UNSUPPORTED: return "UNSUPPORTED";
	case RD_TRUNCATED: return "TRUNCATED";
	case RD_LIMIT: return "LIMIT";
	case RD_NOT_THIS_FORMAT: return "NOT_THIS_FORMAT";
	}
	return "?";
}

static rd_status fail(ctx *c, rd_status st, size_t off, const char *fmt, ...)
		__attribute__((format(printf, 4, 5)));
static rd_status fail(ctx *c, rd_status st, size_t off, const char *fmt, ...)
{
	if (c->r->status == RD_OK) {
		c->r->status = st;
		c->r->err_offset = off;
		va_list ap;
		va_start(ap, fmt);
		vsnprintf(c->r->why, sizeof(c->r->why), fmt, ap);
		va_end(ap);
	}
	return c->r->status;
}

static rd_status unsupported(ctx *c, unsigned what, size_t off, const char *msg)
{
	c->r->unsupported_what |= what;
	return fail(c, RD_UNSUPPORTED, off, "%s", msg);
}

static void *grow_array(void *p, size_t *cap, size_t need, size_t elem)
{
	if (need <= *cap)
		return p;
	size_t nc = *cap ? *cap * 2 : 8;
	while (nc < need)
		nc *= 2;
	void *q = realloc(p, nc * elem);
	if (q == NULL)
		return NULL;
	*cap = nc;
	return q;
}

static void add_field(ctx *c, size_t off, size_t len, int kind)
{
	if (len == 0)
		return;
	rd_result *r = c->r;
	void *p = grow_array(r->fields, &c->fields_cap, r->nfields + 1, sizeof(rd_field));
	if (p == NULL)
		return;
	r->fields = p;
	rd_field *f = &r->fields[r->nfields++];
	f->off = off; f->len = len; f->kind = kind;
	f->stream = c->cur_stream; f->block = c->cur_block;
}

static rd_block *add_block(ctx *c)
{
	rd_result *r = c->r;
	void *p = grow_array(r->blocks, &c->blocks_cap, r->nblocks + 1, sizeof(rd_block));
	if (p == NULL)
		return NULL;
	r->blocks = p;
	rd_block *b = &r->blocks[r->nblocks];
	memset(b, 0, sizeof(*b));
	c->cur_block = (int)r->nblocks++;
	return b;
}

static rd_stream *add_stream(ctx *c)
{
	rd_result *r = c->r;
	void *p = grow_array(r->streams, &c->streams_cap, r->nstreams + 1, sizeof(rd_stream));
	if (p == NULL)
		return NULL;
	r->streams = p;
	rd_stream *s = &r->streams[r->nstreams];
	memset(s, 0, sizeof(*s));
	c->cur_stream = (int)r->nstreams++;
	return s;
}

static void add_chunk(ctx *c, size_t off, size_t hl, size_t cl, size_t ul, uint8_t control)
{
	rd_result *r = c->r;
	void *p = grow_array(r->chunks, &c->chunks_cap, r->nchunks + 1, sizeof(rd_chunk));
	if (p == NULL)
		return;
	r->chunks = p;
	rd_chunk *k = &r->chunks[r->nchunks++];
	k->off = off; k->header_len = hl; k->comp_len = cl; k->uncomp_len = ul;
	k->control = control; k->block = c->cur_block;
}

static void ctx_init(ctx *c, const uint8_t *in, size_t n, size_t out_limit, rd_result *r)
{
	memset(c, 0, sizeof(*c));
	memset(r, 0, sizeof(*r));
	c->in = in; c->n = n; c->r = r; c->out_limit = out_limit;
	c->cur_stream = -1; c->cur_block = -1;
}

static void ctx_finish(ctx *c)
{
	rd_result *r = c->r;
	if (c->out_base != 0 && c->out != NULL) {
		memmove(c->out, c->out + c->out_base, c->out_len - c->out_base);
		c->out_len -= c->out_base;
		c->out_base = 0;
	}
	r->out = c->out;
	r->out_len = c->out_len;
	if (r->status != RD_UNSUPPORTED)
		r->unsupported_what &= RDU_CHECK | RDU_LCLP;
}

void rd_result_free(rd_result *r)
{
	free(r->out); free(r->fields); free(r->blocks); free(r->streams); free(r->chunks);
	r->out = NULL; r->fields = NULL; r->blocks = NULL; r->streams = NULL; r->chunks = NULL;
	r->out_len = r->nfields = r->nblocks = r->nstreams = r->nchunks = 0;
}

// Number of bytes that may still be produced under out_limit.
static size_t out_left(const ctx *c)
{
	size_t produced = c->out_len - c->out_base;
	return produced >= c->out_limit ? 0 : c->out_limit - produced;
}

// Make room for `need` more bytes in the buffer (physical capacity only; the
// logical limit is checked by the callers with out_left()). Capacity never
// exceeds out_base + out_limit + OUT_SLACK.
static bool out_room(ctx *c, size_t need)
{
	if (c->out_cap - c->out_len >= need)
		return true;
	size_t hard = c->out_base + OUT_SLACK;
	hard = c->out_limit > SIZE_MAX / 2 - hard ? SIZE_MAX / 2 : hard + c->out_limit;
	if (need > hard || c->out_len > hard - need)
		return false;
	size_t want = c->out_len + need;
	size_t nc = c->out_cap < 2048 ? 2048 : c->out_cap * 2;
	if (nc < want)
		nc = want;
	if (nc > hard)
		nc = hard;
	uint8_t *p = realloc(c->out, nc);
	if (p == NULL)
		return false;
	c->out = p;
	c->out_cap = nc;
	return true;
}

static inline uint32_t le32(const uint8_t *p)
{
	return (uint32_t)p[0] | ((uint32_t)p[1] << 8) | ((uint32_t)p[2] << 16) | ((uint32_t)p[3] << 24);
}

static inline uint64_t le64(const uint8_t *p)
{
	return (uint64_t)le32(p) | ((uint64_t)le32(p + 4) << 32);
}

///////////////////////////////////////////////////////////////////////////
// small public helpers
///////////////////////////////////////////////////////////////////////////

size_t rd_check_size(unsigned id)
{
	static const uint8_t sz[16] = { 0, 4, 4, 4, 8, 8, 8, 16, 16, 16, 32, 32, 32, 64, 64, 64 };
	return id < 16 ? sz[id] : 0;
}

int rd_vli_decode(const uint8_t *p, size_t avail, uint64_t *v)
{
	uint64_t x = 0;
	for (unsigned i = 0; i < 9; ++i) {
		if (i >= avail)
			return -1;
		uint8_t b = p[i];
		if (i > 0 && b == 0x00)
			return 0;               // non-minimal encoding
		x |= (uint64_t)(b & 0x7F) << (7 * i);
		if (!(b & 0x80)) {
			*v = x;
			return (int)i + 1;
		}
	}
	return 0;                       // tenth byte would be needed: > 63 bits
}

uint32_t rd_lzma2_dict_size(uint8_t b)
{
	if (b >= 40)
		return UINT32_MAX;
	return (uint32_t)(2 | (b & 1)) << (b / 2 + 11);
}

///////////////////////////////////////////////////////////////////////////
// range decoder (lazy normalisation: before each bit; rc_normalize() gives
// the state the specification's eager decoder has after a symbol)
///////////////////////////////////////////////////////////////////////////

typedef struct {
	const uint8_t *p, *end;
	uint32_t range, code;
	bool eof;         // a byte beyond `end` was needed
	bool corrupt;     // specification's "Corrupted" condition
} rcd;

#define RC_TOP (1u << 24)

static inline bool rc_normalize(rcd *rc)
{
	if (rc->range < RC_TOP) {
		if (rc->p == rc->end) {
			rc->eof = true;
			return false;
		}
		rc->range <<= 8;
		rc->code = (rc->code << 8) | *rc->p++;
	}
	return true;
}

// 0 ok, 1 not enough input, 2 invalid first byte
static int rc_init(rcd *rc, const uint8_t *p, const uint8_t *end)
{
	rc->p = p; rc->end = end; rc->range = 0xFFFFFFFFu; rc->code = 0;
	rc->eof = false; rc->corrupt = false;
	if ((size_t)(end - p) < 5) {
		if (end > p && p[0] != 0)
			return 2;
		rc->eof = true;
		return 1;
	}
	if (p[0] != 0)
		return 2;
	rc->code = ((uint32_t)p[1] << 24) | ((uint32_t)p[2] << 16) | ((uint32_t)p[3] << 8) | p[4];
	rc->p = p + 5;
	if (rc->code == rc->range)
		rc->corrupt = true;
	return 0;
}

static inline unsigned rc_bit(rcd *rc, uint16_t *prob)
{
	if (!rc_normalize(rc))
		return 0;
	uint32_t bound = (rc->range >> 11) * *prob;
	if (rc->code < bound) {
		rc->range = bound;
		*prob = (uint16_t)(*prob + ((2048u - *prob) >> 5));
		return 0;
	}
	rc->range -= bound;
	rc->code -= bound;
	*prob = (uint16_t)(*prob - (*prob >> 5));
	return 1;
}

static uint32_t rc_direct(rcd *rc, unsigned nbits)
{
	uint32_t v = 0;
	while (nbits--) {
		if (!rc_normalize(rc))
			return 0;
		rc->range >>= 1;
		unsigned b = rc->code >= rc->range;
		if (b)
			rc->code -= rc->range;
		if (rc->code >= rc->range)
			rc->corrupt = true;
		v = (v << 1) | b;
	}
	return v;
}

static unsigned rc_bittree(rcd *rc, uint16_t *probs, unsigned nbits)
{
	unsigned m = 1;
	for (unsigned i = 0; i < nbits; ++i)
		m = (m << 1) | rc_bit(rc, &probs[m]);
	return m - (1u << nbits);
}

static unsigned rc_bittree_rev(rcd *rc, uint16_t *probs, unsigned nbits)
{
	unsigned m = 1, sym = 0;
	for (unsigned i = 0; i < nbits; ++i) {
		unsigned b = rc_bit(rc, &probs[m]);
		m = (m << 1) | b;
		sym |= b << i;
	}
	return sym;
}

///////////////////////////////////////////////////////////////////////////
// LZMA symbol decoder (after the LZMA specification's reference decoder)
///////////////////////////////////////////////////////////////////////////

typedef struct {
	uint16_t choice, choice2, low[16][8], mid[16][8], high[256];
} lenprobs;

typedef struct {   // uint16_t members only: reset by filling with 1024
	uint16_t is_match[12][16], is_rep[12], is_rep0[12], is_rep1[12], is_rep2[12];
	uint16_t is_rep0_long[12][16];
	uint16_t dist_slot[4][64], pos_special[115], pos_align[16];
	lenprobs len, rep;
} fixedprobs;

typedef struct {
	fixedprobs p;
	uint16_t *lit; size_t lit_cap;
	unsigned lc, lp, pb;
	uint32_t rep0, rep1, rep2, rep3;
	unsigned state;
	bool have_props;
} lzma_dec;

static void lzma_dec_init(lzma_dec *d)
{
	d->lit = NULL; d->lit_cap = 0; d->lc = d->lp = d->pb = 0;
	d->rep0 = d->rep1 = d->rep2 = d->rep3 = 0; d->state = 0; d->have_props = false;
}

static void lzma_dec_free(lzma_dec *d)
{
	free(d->lit);
	d->lit = NULL; d->lit_cap = 0;
}

// props byte must already be validated <= 224
static bool lzma_dec_set_props(lzma_dec *d, unsigned props)
{
	unsigned pb = props / 45; props -= pb * 45;
	unsigned lp = props / 9;
	unsigned lc = props - lp * 9;
	size_t need = (size_t)0x300 << (lc + lp);
	if (need > d->lit_cap) {
		uint16_t *q = realloc(d->lit, need * sizeof(uint16_t));
		if (q == NULL)
			return false;
		d->lit = q; d->lit_cap = need;
	}
	d->lc = lc; d->lp = lp; d->pb = pb; d->have_props = true;
	return true;
}

static void lzma_dec_reset_state(lzma_dec *d)
{
	uint16_t *q = (uint16_t *)&d->p;
	for (size_t i = 0; i < sizeof(d->p) / sizeof(uint16_t); ++i)
		q[i] = 1024;
	size_t nl = (size_t)0x300 << (d->lc + d->lp);
	for (size_t i = 0; i < nl; ++i)
		d->lit[i] = 1024;
	d->rep0 = d->rep1 = d->rep2 = d->rep3 = 0;
	d->state = 0;
}

typedef struct {
	size_t dict_start;      // index in out of the oldest byte a match may reach
	size_t pos_base;        // index in out where position 0 is
	uint64_t dict_strict;   // distance (0-based) must be < this ...
	uint64_t dict_relaxed;  // ... or at least < this (relaxation zone)
	uint64_t max_dist;      // max distance+1 seen
} lzwin;

static void lzwin_set_dict(lzwin *w, uint64_t dict)
{
	w->dict_strict = dict;
	uint64_t r = dict < 4096 ? 4096 : dict;
	w->dict_relaxed = (r + 15) & ~(uint64_t)15;
}

static unsigned len_decode(rcd *rc, lenprobs *lp, unsigned ps)
{
	if (!rc_bit(rc, &lp->choice))
		return rc_bittree(rc, lp->low[ps], 3);
	if (!rc_bit(rc, &lp->choice2))
		return 8 + rc_bittree(rc, lp->mid[ps], 3);
	return 16 + rc_bittree(rc, lp->high, 8);
}

static uint32_t dist_decode(rcd *rc, lzma_dec *d, unsigned len /* minus 2 */)
{
	unsigned ls = len > 3 ? 3 : len;
	unsigned slot = rc_bittree(rc, d->p.dist_slot[ls], 6);
	if (slot < 4)
		return slot;
	unsigned nd = (slot >> 1) - 1;
	uint32_t dist = (uint32_t)(2 | (slot & 1)) << nd;
	if (slot < 14) {
		dist += rc_bittree_rev(rc, d->p.pos_special + dist - slot, nd);
	} else {
		dist += rc_direct(rc, nd - 4) << 4;
		dist += rc_bittree_rev(rc, d->p.pos_align, 4);
	}
	return dist;
}

enum {
	LM_EXACT,          // produce exactly `target` bytes; end marker invalid
	LM_EXACT_OR_EOPM,  // .lzma known size: stop at target if code == 0, else one end marker
	LM_EOPM            // unknown size: end marker mandatory
};

// Returns 0 ok, or the distance verdict as an rd_status via fail().
static inline int dist_check(ctx *c, lzwin *w, uint32_t rep0, size_t avail)
{
	if ((uint64_t)rep0 >= (uint64_t)avail)
		return 1;
	if ((uint64_t)rep0 >= w->dict_strict) {
		if ((uint64_t)rep0 >= w->dict_relaxed)
			return 2;
		c->r->relaxation_zone = true;
	}
	if ((uint64_t)rep0 + 1 > w->max_dist)
		w->max_dist = (uint64_t)rep0 + 1;
	return 0;
}

// Decodes symbols from rc into c->out. On input exhaustion returns
// fail(eof_status). On success with LM_EXACT the caller still has to check
// rc->code == 0 (rc is normalised); the other modes check it here.
static rd_status lzma_symbols(ctx *c, lzma_dec *d, rcd *rc, lzwin *w, int mode,
		uint64_t target, bool *eopm_seen, rd_status eof_status, const char *eof_msg)
{
	static const uint8_t lit_next[12] = { 0, 0, 0, 0, 1, 2, 3, 4, 5, 6, 4, 5 };
	uint64_t produced = 0;
	bool must_eopm = false;
	unsigned state = d->state;
	uint32_t rep0 = d->rep0, rep1 = d->rep1, rep2 = d->rep2, rep3 = d->rep3;
	const unsigned pbmask = (1u << d->pb) - 1, lpmask = (1u << d->lp) - 1, lc = d->lc;
#define INOFF ((size_t)(rc->p - c->in))

	if (rc->corrupt)
		// The LZMA specification lists Code == Range as a state that a decoder MAY treat as corruption
		// (its reference decoder only sets a flag and goes on); a decoder that does not check it is
		// conforming. No verdict.
		return fail(c, RD_LIMIT, INOFF, "no verdict: range decoder initial code equals range (optional corruption check)");
	for (;;) {
		if (mode != LM_EOPM && produced == target) {
			if (!rc_normalize(rc))
				goto eof;
			if (mode == LM_EXACT || rc->code == 0)
				break;
			must_eopm = true;
		}
		if (c->out_cap - c->out_len < 274 && !out_room(c, 274))
			return fail(c, RD_LIMIT, INOFF, "output limit reached");
		const size_t pos = c->out_len - w->pos_base;
		const size_t avail = c->out_len - w->dict_start;
		const unsigned ps = (unsigned)pos & pbmask;

		if (!rc_bit(rc, &d->p.is_match[state][ps])) {
			if (rc->eof)
				goto eof;
			if (must_eopm)
				return fail(c, RD_INVALID, INOFF, "literal after the declared uncompressed size");
			unsigned prev = avail ? c->out[c->out_len - 1] : 0;
			uint16_t *lp = d->lit + (size_t)0x300 * ((((unsigned)pos & lpmask) << lc) + (prev >> (8 - lc)));
			unsigned sym = 1;
			if (state >= 7) {
				if ((uint64_t)rep0 >= (uint64_t)avail)
					return fail(c, RD_INVALID, INOFF, "matched literal with rep0 outside the dictionary");
				unsigned mb = c->out[c->out_len - rep0 - 1];
				do {
					unsigned mbit = (mb >> 7) & 1;
					mb <<= 1;
					unsigned bit = rc_bit(rc, &lp[((1 + mbit) << 8) + sym]);
					sym = (sym << 1) | bit;
					if (mbit != bit)
						break;
				} while (sym < 0x100);
			}
			while (sym < 0x100)
				sym = (sym << 1) | rc_bit(rc, &lp[sym]);
			if (rc->eof)
				goto eof;
			if (out_left(c) == 0)
				return fail(c, RD_LIMIT, INOFF, "output limit reached");
			c->out[c->out_len++] = (uint8_t)sym;
			state = lit_next[state];
			++produced;
			continue;
		}

		unsigned len;
		if (rc_bit(rc, &d->p.is_rep[state])) {
			bool shortrep = false;
			if (!rc_bit(rc, &d->p.is_rep0[state])) {
				if (!rc_bit(rc, &d->p.is_rep0_long[state][ps]))
					shortrep = true;
			} else {
				uint32_t dist;
				if (!rc_bit(rc, &d->p.is_rep1[state])) {
					dist = rep1;
				} else {
					if (!rc_bit(rc, &d->p.is_rep2[state])) {
						dist = rep2;
					} else {
						dist = rep3;
						rep3 = rep2;
					}
					rep2 = rep1;
				}
				rep1 = rep0;
				rep0 = dist;
			}
			if (shortrep) {
				if (rc->eof)
					goto eof;
				if (must_eopm)
					return fail(c, RD_INVALID, INOFF, "short rep after the declared uncompressed size");
				int dc = dist_check(c, w, rep0, avail);
				if (dc)
					return fail(c, RD_INVALID, INOFF, dc == 1
						? "short rep: distance %u beyond the %zu bytes in the dictionary"
						: "short rep: distance %u beyond the dictionary size (%zu avail)", rep0, avail);
				if (out_left(c) == 0)
					return fail(c, RD_LIMIT, INOFF, "output limit reached");
				c->out[c->out_len] = c->out[c->out_len - rep0 - 1];
				++c->out_len;
				state = state < 7 ? 9 : 11;
				++produced;
				continue;
			}
			len = len_decode(rc, &d->p.rep, ps);
			state = state < 7 ? 8 : 11;
			if (rc->eof)
				goto eof;
			if (must_eopm)
				return fail(c, RD_INVALID, INOFF, "rep match after the declared uncompressed size");
		} else {
			rep3 = rep2; rep2 = rep1; rep1 = rep0;
			len = len_decode(rc, &d->p.len, ps);
			state = state < 7 ? 7 : 10;
			rep0 = dist_decode(rc, d, len);
			if (rc->eof)
				goto eof;
			if (rc->corrupt)
				return fail(c, RD_LIMIT, INOFF, "no verdict: Code == Range while decoding direct bits (optional corruption check)");
			if (rep0 == 0xFFFFFFFFu) {
				if (mode == LM_EXACT)
					return fail(c, RD_INVALID, INOFF, "end marker where none is allowed");
				if (mode == LM_EXACT_OR_EOPM && produced != target)
					return fail(c, RD_INVALID, INOFF, "end marker before the declared uncompressed size");
				if (!rc_normalize(rc))
					goto eof;
				if (rc->code != 0)
					return fail(c, RD_INVALID, INOFF, "range decoder not finished (code != 0) after the end marker");
				*eopm_seen = true;
				break;
			}
			if (must_eopm)
				return fail(c, RD_INVALID, INOFF, "match after the declared uncompressed size");
		}
		len += 2;
		{
			int dc = dist_check(c, w, rep0, avail);
			if (dc)
				return fail(c, RD_INVALID, INOFF, dc == 1
					? "match distance %u beyond the %zu bytes in the dictionary"
					: "match distance %u beyond the dictionary size (%zu avail)", rep0, avail);
		}
		bool past = false;
		if (mode != LM_EOPM && (uint64_t)len > target - produced) {
			len = (unsigned)(target - produced);
			past = true;
		}
		if ((size_t)len > out_left(c))
			return fail(c, RD_LIMIT, INOFF, "output limit reached");
		{
			uint8_t *o = c->out + c->out_len;
			const size_t back = (size_t)rep0 + 1;
			for (unsigned i = 0; i < len; ++i)
				o[i] = o[(ptrdiff_t)i - (ptrdiff_t)back];
			c->out_len += len;
		}
		produced += len;
		if (past)
			return fail(c, RD_INVALID, INOFF, "match runs past the declared uncompressed size");
	}
	d->state = state;
	d->rep0 = rep0; d->rep1 = rep1; d->rep2 = rep2; d->rep3 = rep3;
	return RD_OK;
eof:
	return fail(c, eof_status, INOFF, "%s", eof_msg);
#undef INOFF
}

///////////////////////////////////////////////////////////////////////////
// LZMA2
///////////////////////////////////////////////////////////////////////////

// Decodes one LZMA2 stream starting at *ppos. `lim` is the first input offset
// that may not be read: the real end of input (lim_status RD_TRUNCATED) or
// the end given by a Compressed Size field (RD_INVALID). The output may grow
// to at most `declared` bytes from `out_start` (UINT64_MAX = not declared).
static rd_status lzma2_decode(ctx *c, size_t *ppos, size_t lim, rd_status lim_status,
		uint32_t dict_size, lzwin *w, bool have_preset, size_t out_start,
		uint64_t declared, rd_block *b)
{
	const uint8_t *in = c->in;
	size_t pos = *ppos;
	lzma_dec d;
	lzma_dec_init(&d);
	bool need_dict_reset = !have_preset;
	bool need_props = true;
	bool first = true;
	rd_status st = RD_OK;
	const char *lim_msg = lim_status == RD_TRUNCATED
		? "input ends inside the LZMA2 stream"
		: "LZMA2 stream runs past the Compressed Size of the Block Header";
	lzwin_set_dict(w, dict_size);
	b->chunk_order_ok = true;

	for (;;) {
		if (pos >= lim) {
			st = fail(c, lim_status, pos, "%s", lim_msg);
			break;
		}
		const size_t cstart = pos;
		const uint8_t control = in[pos];
		if (control == 0x00) {
			b->end_marker_seen = true;
			if (first)
				b->first_chunk_resets_dict = true;   // no chunk at all: vacuously satisfied
			++pos;
			add_chunk(c, cstart, 1, 0, 0, control);
			break;
		}
		if (control > 0x02 && control < 0x80) {
			st = fail(c, RD_INVALID, pos, "LZMA2: invalid control byte 0x%02X", control);
			break;
		}
		const bool dict_reset = control == 0x01 || control >= 0xE0;
		if (first) {
			b->first_chunk_resets_dict = dict_reset;
			first = false;
		}
		if (dict_reset) {
			need_dict_reset = false;
			need_props = true;
			w->dict_start = w->pos_base = c->out_len;
			++b->dict_resets;
		} else if (need_dict_reset) {
			b->chunk_order_ok = false;
			st = fail(c, RD_INVALID, pos, "LZMA2: first chunk (control 0x%02X) does not reset the dictionary", control);
			break;
		}
		++b->chunks;
		const uint64_t sofar = c->out_len - out_start;

		if (control >= 0x80) {
			if (control >= 0xC0) {
				// new properties
			} else if (need_props) {
				b->chunk_order_ok = false;
				st = fail(c, RD_INVALID, pos, "LZMA2: LZMA chunk (control 0x%02X) without properties after a dictionary reset / at the start", control);
				break;
			}
			const size_t hl = control >= 0xC0 ? 6 : 5;
			if (lim - pos < hl) {
				st = fail(c, lim_status, lim, "%s", lim_msg);
				break;
			}
			const size_t usize = ((size_t)(control & 0x1F) << 16 | (size_t)in[pos + 1] << 8 | in[pos + 2]) + 1;
			const size_t csize = ((size_t)in[pos + 3] << 8 | in[pos + 4]) + 1;
			++b->chunks_lzma;
			if (control >= 0xC0) {
				const unsigned props = in[pos + 5];
				if (props > 224) {
					st = fail(c, RD_INVALID, pos + 5, "LZMA2: properties byte %u > 224", props);
					break;
				}
				unsigned t = props % 45;
				if (t / 9 + t % 9 > 4) {
					st = fail(c, RD_INVALID, pos + 5, "LZMA2: lc+lp > 4 (properties byte %u)", props);
					break;
				}
				if (!lzma_dec_set_props(&d, props)) {
					st = fail(c, RD_LIMIT, pos, "allocation failed");
					break;
				}
				b->lc = (uint8_t)d.lc; b->lp = (uint8_t)d.lp; b->pb = (uint8_t)d.pb;
				need_props = false;
				++b->prop_changes;
			}
			if (control >= 0xA0) {
				lzma_dec_reset_state(&d);
				++b->state_resets;
			}
			if ((uint64_t)usize > declared - sofar) {
				st = fail(c, RD_INVALID, pos, "LZMA2 output exceeds the Uncompressed Size of the Block Header");
				break;
			}
			if (usize > out_left(c) || !out_room(c, usize)) {
				st = fail(c, RD_LIMIT, pos, "output limit reached");
				break;
			}
			const size_t dstart = pos + hl;
			const size_t pend = dstart + csize;          // no overflow: pos < n, csize <= 65536 ... checked below
			const size_t aend = pend <= lim ? pend : lim;
			add_chunk(c, cstart, hl, csize, usize, control);
			rcd rc;
			int ri = rc_init(&rc, in + dstart, in + aend);
			const rd_status es = aend < pend ? lim_status : RD_INVALID;
			const char *em = aend < pend ? lim_msg : "LZMA2: LZMA chunk needs more input than its compressed size";
			if (ri == 2) {
				st = fail(c, RD_INVALID, dstart, "LZMA2: first byte of LZMA chunk data is not 0x00");
				break;
			}
			if (ri == 1) {
				st = fail(c, es, aend, "%s", em);
				break;
			}
			bool eopm = false;
			st = lzma_symbols(c, &d, &rc, w, LM_EXACT, usize, &eopm, es, em);
			if (st != RD_OK)
				break;
			if (rc.code != 0) {
				st = fail(c, RD_INVALID, (size_t)(rc.p - in), "LZMA2: range decoder not finished (code != 0) at the end of the chunk");
				break;
			}
			if (rc.p != in + pend) {
				if (aend < pend && rc.p == in + aend)
					st = fail(c, lim_status, aend, "%s", lim_msg);
				else
					st = fail(c, RD_INVALID, (size_t)(rc.p - in), "LZMA2: chunk decoded from %zu bytes but its compressed size is %zu",
						(size_t)(rc.p - (in + dstart)), csize);
				break;
			}
			pos = pend;
		} else {
			if (lim - pos < 3) {
				st = fail(c, lim_status, lim, "%s", lim_msg);
				break;
			}
			const size_t size = ((size_t)in[pos + 1] << 8 | in[pos + 2]) + 1;
			++b->chunks_uncompressed;
			if ((uint64_t)size > declared - sofar) {
				st = fail(c, RD_INVALID, pos, "LZMA2 output exceeds the Uncompressed Size of the Block Header");
				break;
			}
			size_t have = lim - (pos + 3);
			size_t take = have < size ? have : size;
			if (take > out_left(c) || !out_room(c, take)) {
				st = fail(c, RD_LIMIT, pos, "output limit reached");
				break;
			}
			add_chunk(c, cstart, 3, size, size, control);
			if (take)
				memcpy(c->out + c->out_len, in + pos + 3, take);
			c->out_len += take;
			if (take < size) {
				st = fail(c, lim_status, lim, "%s", lim_msg);
				break;
			}
			pos += 3 + size;
		}
	}
	lzma_dec_free(&d);
	b->max_distance_used = w->max_dist;
	*ppos = pos;
	return st;
}

///////////////////////////////////////////////////////////////////////////
// filter chains
///////////////////////////////////////////////////////////////////////////

static bool is_bcj_id(uint64_t id) { return id >= REF_ID_X86 && id <= REF_ID_RISCV; }

// Validate the non-last filters of a chain (delta / BCJ with proper props).
// Returns RD_OK or sets the failure.
static rd_status check_nonlast(ctx *c, const rd_filter *f, size_t off)
{
	if (f->id == REF_ID_DELTA) {
		if (f->props_len != 1)
			return unsupported(c, RDU_FILTER, off, "Delta filter with a properties size other than 1");
		return RD_OK;
	}
	if (is_bcj_id(f->id)) {
		if (f->props_len != 0 && f->props_len != 4)
			return unsupported(c, RDU_FILTER, off, "BCJ filter with a properties size other than 0 or 4");
		if (f->props_len == 4) {
			uint32_t so = le32(f->props);
			unsigned al = ref_bcj_alignment((unsigned)f->id);
			if (al > 1 && so % al != 0)
				return fail(c, RD_INVALID, off, "BCJ start offset %u is not a multiple of the alignment %u", so, al);
		}
		return RD_OK;
	}
	if (f->id == RD_FILTER_LZMA2)
		return unsupported(c, RDU_FILTER, off, "LZMA2 as a non-last filter");
	return unsupported(c, RDU_FILTER, off, "unknown Filter ID");
}

// Undo filters[nf-2] ... filters[0] over out[start, out_len).
static void apply_nonlast(ctx *c, const rd_filter *f, unsigned nf, size_t start)
{
	size_t len = c->out_len - start;
	if (len == 0 || nf < 2)
		return;
	for (int i = (int)nf - 2; i >= 0; --i) {
		if (f[i].id == REF_ID_DELTA) {
			ref_delta(false, (unsigned)f[i].props[0] + 1, c->out + start, len);
		} else {
			uint32_t so = f[i].props_len == 4 ? le32(f[i].props) : 0;
			ref_bcj((unsigned)f[i].id, false, so, c->out + start, len);
		}
	}
}

///////////////////////////////////////////////////////////////////////////
// .xz Block
///////////////////////////////////////////////////////////////////////////

static rd_status verify_check(ctx *c, unsigned check_id, size_t pos, const uint8_t *data, size_t len)
{
	const uint8_t *stored = c->in + pos;
	switch (check_id) {
	case 0:
		c->r->check_none = true;
		return RD_OK;
	case 1:
		if (le32(stored) != ref_crc32(data, len, 0))
			return fail(c, RD_INVALID, pos, "Check (CRC32) mismatch");
		return RD_OK;
	case 4:
		if (le64(stored) != ref_crc64(data, len, 0))
			return fail(c, RD_INVALID, pos, "Check (CRC64) mismatch");
		return RD_OK;
	case 10: {
		uint8_t h[32];
		ref_sha256(data, len, h);
		if (memcmp(h, stored, 32) != 0)
			return fail(c, RD_INVALID, pos, "Check (SHA-256) mismatch");
		return RD_OK;
	}
	default:
		c->r->unsupported_check = true;
		c->r->unsupported_what |= RDU_CHECK;
		return RD_OK;
	}
}

static rd_status xz_block(ctx *c, size_t *ppos, unsigned check_id)
{
	const uint8_t *in = c->in;
	const size_t start = *ppos;
	if (start >= c->n)
		return fail(c, RD_TRUNCATED, start, "input ends before the Block Header");
	if (in[start] == 0x00)
		return fail(c, RD_INVALID, start, "Block Header Size byte is 0x00");
	const size_t hsize = ((size_t)in[start] + 1) * 4;
	rd_block *b = add_block(c);
	if (b == NULL)
		return fail(c, RD_LIMIT, start, "allocation failed");
	const int bidx = c->cur_block;
	b->offset = start; b->header_size = hsize;
	b->check_id = check_id; b->check_size = rd_check_size(check_id);
	b->out_offset = c->out_len - c->out_base;
	add_field(c, start, 1, RDF_BLOCK_HEADER_SIZE);
	if (c->n - start < hsize)
		return fail(c, RD_TRUNCATED, c->n, "input ends inside the Block Header");
	const size_t hend = start + hsize - 4;
	if (le32(in + hend) != ref_crc32(in + start, hsize - 4, 0))
		return fail(c, RD_INVALID, hend, "Block Header CRC32 mismatch");

	const uint8_t flags = in[start + 1];
	add_field(c, start + 1, 1, RDF_BLOCK_FLAGS);
	size_t p = start + 2;
	bool reserved_bits = (flags & 0x3C) != 0;
	if (reserved_bits)
		return unsupported(c, RDU_BLOCK_HEADER, start + 1, "reserved Block Flags bits set");
	if (flags & 0x40) {
		uint64_t v;
		int k = rd_vli_decode(in + p, hend - p, &v);
		if (k <= 0)
			return fail(c, RD_INVALID, p, "Block Header: bad Compressed Size VLI");
		if (v == 0)
			return fail(c, RD_INVALID, p, "Block Header: Compressed Size is zero");
		if (v > ((UINT64_MAX / 2) & ~(uint64_t)3) - hsize - b->check_size)
			return fail(c, RD_INVALID, p, "Block Header: Compressed Size too large");
		b->has_comp_size = true; b->hdr_comp_size = v;
		add_field(c, p, (size_t)k, RDF_BLOCK_COMP_SIZE);
		p += (size_t)k;
	}
	if (flags & 0x80) {
		uint64_t v;
		int k = rd_vli_decode(in + p, hend - p, &v);
		if (k <= 0)
			return fail(c, RD_INVALID, p, "Block Header: bad Uncompressed Size VLI");
		b->has_uncomp_size = true; b->hdr_uncomp_size = v;
		add_field(c, p, (size_t)k, RDF_BLOCK_UNCOMP_SIZE);
		p += (size_t)k;
	}
	const unsigned nf = (flags & 3) + 1u;
	b->nfilters = nf;
	size_t foff[4] = { 0, 0, 0, 0 };
	bool long_props = false;
	for (unsigned i = 0; i < nf; ++i) {
		uint64_t id, ps;
		foff[i] = p;
		int k = rd_vli_decode(in + p, hend - p, &id);
		if (k <= 0)
			return fail(c, RD_INVALID, p, "Block Header: bad Filter ID VLI or header too short for its filters");
		size_t q = p + (size_t)k;
		if (id >= (UINT64_C(1) << 62))
			return fail(c, RD_INVALID, p, "Block Header: Filter ID >= 2^62");
		k = rd_vli_decode(in + q, hend - q, &ps);
		if (k <= 0)
			return fail(c, RD_INVALID, q, "Block Header: bad Size of Properties VLI or header too short");
		q += (size_t)k;
		if (ps > hend - q)
			return fail(c, RD_INVALID, q, "Block Header: Filter Properties run past the header");
		b->filters[i].id = id;
		b->filters[i].props_len = (size_t)ps;
		if (ps > sizeof(b->filters[i].props))
			long_props = true;
		memcpy(b->filters[i].props, in + q, ps > 16 ? 16 : (size_t)ps);
		q += (size_t)ps;
		add_field(c, p, q - p, RDF_FILTER_FLAGS);
		p = q;
	}
	for (size_t i = p; i < hend; ++i)
		if (in[i] != 0) {
			add_field(c, p, hend - p, RDF_BLOCK_HEADER_PADDING);
			return unsupported(c, RDU_BLOCK_HEADER, i, "non-zero byte in Block Header Padding");
		}
	add_field(c, p, hend - p, RDF_BLOCK_HEADER_PADDING);
	add_field(c, hend, 4, RDF_BLOCK_HEADER_CRC);

	// chain rules
	for (unsigned i = 0; i + 1 < nf; ++i)
		if (check_nonlast(c, &b->filters[i], foff[i]) != RD_OK)
			return c->r->status;
	{
		const rd_filter *lf = &b->filters[nf - 1];
		if (lf->id != RD_FILTER_LZMA2) {
			if (lf->id == REF_ID_DELTA || is_bcj_id(lf->id))
				return unsupported(c, RDU_FILTER, foff[nf - 1], "Delta/BCJ as the last filter");
			return unsupported(c, RDU_FILTER, foff[nf - 1], "unknown Filter ID");
		}
		if (lf->props_len != 1 || long_props)
			return unsupported(c, RDU_FILTER, foff[nf - 1], "LZMA2 with a properties size other than 1");
		if (lf->props[0] > 40)
			return unsupported(c, RDU_FILTER, foff[nf - 1], "LZMA2 dictionary size byte > 40 (reserved)");
	}
	const uint32_t dict = rd_lzma2_dict_size(b->filters[nf - 1].props[0]);
	b->dict_size_declared = dict;

	// Compressed Data
	const size_t dstart = start + hsize;
	size_t lim = c->n;
	rd_status lim_status = RD_TRUNCATED;
	if (b->has_comp_size && b->hdr_comp_size < (uint64_t)(c->n - dstart)) {
		lim = dstart + (size_t)b->hdr_comp_size;
		lim_status = RD_INVALID;
	}
	size_t pos = dstart;
	const size_t ostart = c->out_len;
	lzwin w = { .dict_start = ostart, .pos_base = ostart, .max_dist = 0 };
	rd_status st = lzma2_decode(c, &pos, lim, lim_status, dict, &w, false, ostart,
			b->has_uncomp_size ? b->hdr_uncomp_size : UINT64_MAX, b);
	b = &c->r->blocks[bidx];
	b->comp_size = pos - dstart;
	b->uncomp_size = c->out_len - ostart;
	add_field(c, dstart, pos - dstart, RDF_BLOCK_PAYLOAD);
	if (st != RD_OK) {
		// best effort: what was decoded is still passed through the filters
		apply_nonlast(c, b->filters, nf, ostart);
		return st;
	}
	if (b->has_comp_size && b->comp_size != b->hdr_comp_size) {
		apply_nonlast(c, b->filters, nf, ostart);
		if (b->hdr_comp_size > (uint64_t)(c->n - dstart))
			return fail(c, RD_TRUNCATED, c->n, "input ends before the Compressed Size of the Block Header is reached");
		return fail(c, RD_INVALID, pos, "Compressed Size field %llu != measured %llu",
			(unsigned long long)b->hdr_comp_size, (unsigned long long)b->comp_size);
	}
	apply_nonlast(c, b->filters, nf, ostart);
	if (b->has_uncomp_size && b->uncomp_size != b->hdr_uncomp_size)
		return fail(c, RD_INVALID, pos, "Uncompressed Size field %llu != measured %llu",
			(unsigned long long)b->hdr_uncomp_size, (unsigned long long)b->uncomp_size);

	// Block Padding
	const size_t pstart = pos;
	while ((pos - start) & 3) {
		if (pos >= c->n) {
			add_field(c, pstart, pos - pstart, RDF_BLOCK_PADDING);
			return fail(c, RD_TRUNCATED, pos, "input ends inside Block Padding");
		}
		if (in[pos] != 0) {
			add_field(c, pstart, pos + 1 - pstart, RDF_BLOCK_PADDING);
			return fail(c, RD_INVALID, pos, "non-zero byte in Block Padding");
		}
		++pos;
	}
	b->padding = pos - pstart;
	add_field(c, pstart, pos - pstart, RDF_BLOCK_PADDING);

	// Check
	if (c->n - pos < b->check_size) {
		add_field(c, pos, c->n - pos, RDF_BLOCK_CHECK);
		return fail(c, RD_TRUNCATED, c->n, "input ends inside the Check field");
	}
	add_field(c, pos, b->check_size, RDF_BLOCK_CHECK);
	static const uint8_t dummy = 0;
	st = verify_check(c, check_id, pos, c->out ? c->out + ostart : &dummy, c->out_len - ostart);
	if (st != RD_OK)
		return st;
	pos += b->check_size;
	*ppos = pos;
	return RD_OK;
}

///////////////////////////////////////////////////////////////////////////
// .xz Stream
///////////////////////////////////////////////////////////////////////////

static const uint8_t XZ_MAGIC[6] = { 0xFD, 0x37, 0x7A, 0x58, 0x5A, 0x00 };

static rd_status xz_index(ctx *c, size_t *ppos, const rd_stream *s)
{
	const uint8_t *in = c->in;
	const size_t istart = *ppos;      // at the 0x00 indicator
	size_t pos = istart + 1;
	c->cur_block = -1;
	add_field(c, istart, 1, RDF_INDEX_INDICATOR);
	uint64_t count;
	int k = rd_vli_decode(in + pos, c->n - pos, &count);
	if (k < 0)
		return fail(c, RD_TRUNCATED, c->n, "input ends inside the Index (Number of Records)");
	if (k == 0)
		return fail(c, RD_INVALID, pos, "Index: bad Number of Records VLI");
	add_field(c, pos, (size_t)k, RDF_INDEX_COUNT);
	if (count != s->nblocks)
		return fail(c, RD_INVALID, pos, "Index: Number of Records %llu != %u Blocks decoded",
			(unsigned long long)count, s->nblocks);
	pos += (size_t)k;
	for (unsigned i = 0; i < s->nblocks; ++i) {
		const rd_block *b = &c->r->blocks[s->first_block + i];
		uint64_t unpadded, uncomp;
		const size_t rstart = pos;
		c->cur_block = (int)(s->first_block + i);
		k = rd_vli_decode(in + pos, c->n - pos, &unpadded);
		if (k < 0)
			return fail(c, RD_TRUNCATED, c->n, "input ends inside an Index Record");
		if (k == 0)
			return fail(c, RD_INVALID, pos, "Index: bad Unpadded Size VLI");
		if (unpadded < 5 || unpadded > ((UINT64_MAX / 2) & ~(uint64_t)3))
			return fail(c, RD_INVALID, pos, "Index: Unpadded Size %llu out of range", (unsigned long long)unpadded);
		pos += (size_t)k;
		k = rd_vli_decode(in + pos, c->n - pos, &uncomp);
		if (k < 0)
			return fail(c, RD_TRUNCATED, c->n, "input ends inside an Index Record");
		if (k == 0)
			return fail(c, RD_INVALID, pos, "Index: bad Uncompressed Size VLI");
		pos += (size_t)k;
		add_field(c, rstart, pos - rstart, RDF_INDEX_RECORD);
		const uint64_t real_unpadded = (uint64_t)b->header_size + b->comp_size + b->check_size;
		if (unpadded != real_unpadded)
			return fail(c, RD_INVALID, rstart, "Index Record %u: Unpadded Size %llu != measured %llu", i,
				(unsigned long long)unpadded, (unsigned long long)real_unpadded);
		if (uncomp != b->uncomp_size)
			return fail(c, RD_INVALID, rstart, "Index Record %u: Uncompressed Size %llu != measured %llu", i,
				(unsigned long long)uncomp, (unsigned long long)b->uncomp_size);
	}
	c->cur_block = -1;
	const size_t pstart = pos;
	while ((pos - istart) & 3) {
		if (pos >= c->n)
			return fail(c, RD_TRUNCATED, pos, "input ends inside Index Padding");
		if (in[pos] != 0) {
			add_field(c, pstart, pos + 1 - pstart, RDF_INDEX_PADDING);
			return fail(c, RD_INVALID, pos, "non-zero byte in Index Padding");
		}
		++pos;
	}
	add_field(c, pstart, pos - pstart, RDF_INDEX_PADDING);
	if (c->n - pos < 4)
		return fail(c, RD_TRUNCATED, c->n, "input ends inside the Index CRC32");
	add_field(c, pos, 4, RDF_INDEX_CRC);
	if (le32(in + pos) != ref_crc32(in + istart, pos - istart, 0))
		return fail(c, RD_INVALID, pos, "Index CRC32 mismatch");
	pos += 4;
	*ppos = pos;
	return RD_OK;
}

static rd_status xz_stream(ctx *c, size_t *ppos, bool first)
{
	const uint8_t *in = c->in;
	const size_t start = *ppos;
	const size_t avail = c->n - start;
	c->cur_block = -1;
	// magic
	{
		size_t m = avail < 6 ? avail : 6;
		if (m > 0 && memcmp(in + start, XZ_MAGIC, m) != 0)
			return fail(c, first ? RD_NOT_THIS_FORMAT : RD_INVALID, start, "Stream Header magic bytes do not match");
		if (avail < 12)
			return fail(c, RD_TRUNCATED, c->n, "input ends inside the Stream Header");
	}
	rd_stream *s = add_stream(c);
	if (s == NULL)
		return fail(c, RD_LIMIT, start, "allocation failed");
	const int sidx = c->cur_stream;
	s->offset = start;
	s->first_block = c->r->nblocks;
	add_field(c, start, 6, RDF_STREAM_MAGIC);
	add_field(c, start + 6, 2, RDF_STREAM_FLAGS);
	add_field(c, start + 8, 4, RDF_STREAM_HEADER_CRC);
	if (le32(in + start + 8) != ref_crc32(in + start + 6, 2, 0))
		return fail(c, RD_INVALID, start + 8, "Stream Header CRC32 mismatch");
	if (in[start + 6] != 0 || (in[start + 7] & 0xF0))
		return unsupported(c, RDU_STREAM_FLAGS, start + 6, "reserved Stream Flags bits set");
	const unsigned check_id = in[start + 7] & 0x0F;
	s->check_id = check_id;
	size_t pos = start + 12;

	for (;;) {
		if (pos >= c->n)
			return fail(c, RD_TRUNCATED, pos, "input ends where a Block Header or the Index should start");
		if (in[pos] == 0x00)
			break;
		rd_status st = xz_block(c, &pos, check_id);
		s = &c->r->streams[sidx];
		if (st != RD_OK)
			return st;
		++s->nblocks;
	}
	s->index_offset = pos;
	rd_status st = xz_index(c, &pos, s);
	if (st != RD_OK)
		return st;
	s->index_size = pos - s->index_offset;

	// footer
	if (c->n - pos < 12)
		return fail(c, RD_TRUNCATED, c->n, "input ends inside the Stream Footer");
	add_field(c, pos, 4, RDF_FOOTER_CRC);
	add_field(c, pos + 4, 4, RDF_FOOTER_BACKWARD_SIZE);
	add_field(c, pos + 8, 2, RDF_FOOTER_FLAGS);
	add_field(c, pos + 10, 2, RDF_FOOTER_MAGIC);
	if (in[pos + 10] != 0x59 || in[pos + 11] != 0x5A)
		return fail(c, RD_INVALID, pos + 10, "Stream Footer magic bytes do not match");
	if (le32(in + pos) != ref_crc32(in + pos + 4, 6, 0))
		return fail(c, RD_INVALID, pos, "Stream Footer CRC32 mismatch");
	s->backward_size = ((uint64_t)le32(in + pos + 4) + 1) * 4;
	if (s->backward_size != s->index_size)
		return fail(c, RD_INVALID, pos + 4, "Backward Size %llu != real Index size %zu",
			(unsigned long long)s->backward_size, s->index_size);
	if (in[pos + 8] != in[start + 6] || in[pos + 9] != in[start + 7])
		return fail(c, RD_INVALID, pos + 8, "Stream Footer flags differ from Stream Header flags");
	pos += 12;
	s->size = pos - start;
	*ppos = pos;
	return RD_OK;
}

static void note_trailing(ctx *c, size_t pos)
{
	c->cur_stream = -1; c->cur_block = -1;
	c->r->trailing_bytes = c->n - pos;
	add_field(c, pos, c->n - pos, RDF_TRAILING);
}

void rd_xz_decode(const uint8_t *in, size_t n, unsigned flags, size_t out_limit, rd_result *r)
{
	ctx c;
	ctx_init(&c, in, n, out_limit, r);
	size_t pos = 0;
	bool first = true;
	for (;;) {
		if (xz_stream(&c, &pos, first) != RD_OK)
			break;
		first = false;
		r->consumed = pos;
		if (!(flags & RD_CONCATENATED)) {
			note_trailing(&c, pos);
			break;
		}
		// Stream Padding
		const size_t pstart = pos;
		while (pos < n && in[pos] == 0x00)
			++pos;
		c.cur_block = -1;
		add_field(&c, pstart, pos - pstart, RDF_STREAM_PADDING);
		r->streams[r->nstreams - 1].padding_after = pos - pstart;
		if ((pos - pstart) & 3) {
			fail(&c, RD_INVALID, pos, "Stream Padding of %zu bytes is not a multiple of four", pos - pstart);
			break;
		}
		r->consumed = pos;
		if (pos == n)
			break;
	}
	if (r->status == RD_OK && (r->unsupported_what & RDU_CHECK))
		r->status = RD_UNSUPPORTED, snprintf(r->why, sizeof(r->why), "reserved Check ID: Check fields not verified");
	ctx_finish(&c);
}

void rd_block_decode(const uint8_t *in, size_t n, unsigned check_id, size_t out_limit, rd_result *r)
{
	ctx c;
	ctx_init(&c, in, n, out_limit, r);
	size_t pos = 0;
	if (check_id > 15) {
		fail(&c, RD_INVALID, 0, "Check ID > 15");
	} else if (xz_block(&c, &pos, check_id) == RD_OK) {
		r->consumed = pos;
		note_trailing(&c, pos);
		if (r->unsupported_what & RDU_CHECK)
			r->status = RD_UNSUPPORTED, snprintf(r->why, sizeof(r->why), "reserved Check ID: Check field not verified");
	}
	ctx_finish(&c);
}

///////////////////////////////////////////////////////////////////////////
// LZMA1 streams: .lzma, .lz, raw
///////////////////////////////////////////////////////////////////////////

// Decodes one LZMA1 stream at in[pos..); fills *b; on success *ppos = end.
static rd_status lzma1_stream(ctx *c, size_t *ppos, unsigned props, uint32_t dict,
		uint64_t known_size, bool allow_eopm, lzwin *w, rd_block *b, bool *eopm)
{
	lzma_dec d;
	lzma_dec_init(&d);
	if (!lzma_dec_set_props(&d, props))
		return fail(c, RD_LIMIT, *ppos, "allocation failed");
	lzma_dec_reset_state(&d);
	b->lc = (uint8_t)d.lc; b->lp = (uint8_t)d.lp; b->pb = (uint8_t)d.pb;
	b->dict_size_declared = dict;
	lzwin_set_dict(w, dict < 4096 ? 4096 : dict);
	rcd rc;
	rd_status st;
	int ri = rc_init(&rc, c->in + *ppos, c->in + c->n);
	if (ri == 2) {
		st = fail(c, RD_INVALID, *ppos, "first byte of the LZMA stream is not 0x00");
	} else if (ri == 1) {
		st = fail(c, RD_TRUNCATED, c->n, "input ends inside the LZMA stream");
	} else {
		int mode = known_size == UINT64_MAX ? LM_EOPM : (allow_eopm ? LM_EXACT_OR_EOPM : LM_EXACT);
		st = lzma_symbols(c, &d, &rc, w, mode, known_size, eopm, RD_TRUNCATED, "input ends inside the LZMA stream");
		if (st == RD_OK && mode == LM_EXACT && rc.code != 0)
			st = fail(c, RD_INVALID, (size_t)(rc.p - c->in), "range decoder not finished (code != 0) at the declared size");
		*ppos = (size_t)(rc.p - c->in);
	}
	lzma_dec_free(&d);
	b->max_distance_used = w->max_dist;
	b->end_marker_seen = *eopm;
	return st;
}

void rd_alone_decode(const uint8_t *in, size_t n, size_t out_limit, rd_result *r)
{
	ctx c;
	ctx_init(&c, in, n, out_limit, r);
	do {
		if (n >= 1 && in[0] > 224) {
			fail(&c, RD_NOT_THIS_FORMAT, 0, ".lzma properties byte %u > 224", in[0]);
			break;
		}
		if (n < 13) {
			fail(&c, RD_TRUNCATED, n, "input ends inside the .lzma header");
			break;
		}
		rd_block *b = add_block(&c);
		if (b == NULL) {
			fail(&c, RD_LIMIT, 0, "allocation failed");
			break;
		}
		const unsigned props = in[0];
		const uint32_t dict = le32(in + 1);
		const uint64_t size = le64(in + 5);
		add_field(&c, 0, 1, RDF_ALONE_PROPS);
		add_field(&c, 1, 4, RDF_ALONE_DICT);
		add_field(&c, 5, 8, RDF_ALONE_SIZE);
		r->alone_size_known = size != UINT64_MAX;
		r->alone_declared_size = size;
		r->alone_declared_dict = dict;
		unsigned t = props % 45;
		if (t / 9 + t % 9 > 4) {
			r->lzma_lclp_gt4 = true;
			r->unsupported_what |= RDU_LCLP;
		}
		b->offset = 0; b->header_size = 13; b->nfilters = 1;
		b->filters[0].id = RD_FILTER_LZMA1; b->filters[0].props_len = 5;
		memcpy(b->filters[0].props, in, 5);
		b->has_uncomp_size = r->alone_size_known; b->hdr_uncomp_size = size;
		size_t pos = 13;
		lzwin w = { .dict_start = 0, .pos_base = 0, .max_dist = 0 };
		bool eopm = false;
		rd_status st = lzma1_stream(&c, &pos, props, dict, size, true, &w, b, &eopm);
		b->comp_size = pos - 13;
		b->uncomp_size = c.out_len;
		r->alone_has_eopm = eopm;
		add_field(&c, 13, pos - 13, RDF_ALONE_PAYLOAD);
		if (st != RD_OK)
			break;
		r->consumed = pos;
		note_trailing(&c, pos);
		if (r->lzma_lclp_gt4)
			r->status = RD_UNSUPPORTED, snprintf(r->why, sizeof(r->why), "lc+lp > 4 (valid LZMA, unsupported by XZ Utils)");
	} while (0);
	ctx_finish(&c);
}

static const uint8_t LZIP_MAGIC[4] = { 0x4C, 0x5A, 0x49, 0x50 };

void rd_lzip_decode(const uint8_t *in, size_t n, unsigned flags, size_t out_limit, rd_result *r)
{
	ctx c;
	ctx_init(&c, in, n, out_limit, r);
	size_t pos = 0;
	for (;;) {
		const size_t start = pos;
		const size_t avail = n - pos;
		const bool first = r->lzip_members == 0;
		c.cur_stream = (int)r->lzip_members; c.cur_block = -1;
		// magic
		size_t m = 0;
		while (m < 4 && m < avail && in[pos + m] == LZIP_MAGIC[m])
			++m;
		if (m < 4) {
			if (first) {
				if (m == avail)
					fail(&c, RD_TRUNCATED, n, "input ends inside the .lz magic bytes");
				else
					fail(&c, RD_NOT_THIS_FORMAT, pos + m, ".lz magic bytes do not match");
				break;
			}
			// trailing data after >= 1 member: the matching prefix (0-3
			// bytes) is swallowed, the rest stays unread
			add_field(&c, pos, m, RDF_LZIP_MAGIC);
			pos += m;
			r->consumed = pos;
			note_trailing(&c, pos);
			break;
		}
		add_field(&c, pos, 4, RDF_LZIP_MAGIC);
		if (avail < 6) {
			fail(&c, RD_TRUNCATED, n, "input ends inside the .lz member header");
			break;
		}
		const unsigned version = in[pos + 4];
		add_field(&c, pos + 4, 1, RDF_LZIP_VERSION);
		r->lzip_version = version;
		if (version > 1) {
			unsupported(&c, RDU_LZIP_VERSION, pos + 4, ".lz version >= 2");
			break;
		}
		const unsigned db = in[pos + 5];
		add_field(&c, pos + 5, 1, RDF_LZIP_DICT);
		const unsigned b2log = db & 0x1F, frac = db >> 5;
		if (b2log < 12 || b2log > 29 || (b2log == 12 && frac != 0)) {
			fail(&c, RD_INVALID, pos + 5, ".lz dictionary size byte 0x%02X out of range", db);
			break;
		}
		const uint32_t dict = ((uint32_t)1 << b2log) - (uint32_t)frac * ((uint32_t)1 << (b2log - 4));
		rd_block *b = add_block(&c);
		if (b == NULL) {
			fail(&c, RD_LIMIT, pos, "allocation failed");
			break;
		}
		b->offset = start; b->header_size = 6; b->nfilters = 1;
		b->filters[0].id = RD_FILTER_LZMA1; b->filters[0].props_len = 5;
		b->filters[0].props[0] = 93;
		b->filters[0].props[1] = (uint8_t)dict; b->filters[0].props[2] = (uint8_t)(dict >> 8);
		b->filters[0].props[3] = (uint8_t)(dict >> 16); b->filters[0].props[4] = (uint8_t)(dict >> 24);
		b->check_id = 1; b->check_size = 4;
		b->out_offset = c.out_len;
		pos += 6;
		const size_t ostart = c.out_len;
		lzwin w = { .dict_start = ostart, .pos_base = ostart, .max_dist = 0 };
		bool eopm = false;
		const size_t pstart = pos;
		rd_status st = lzma1_stream(&c, &pos, 93 /* lc3 lp0 pb2 */, dict, UINT64_MAX, true, &w, b, &eopm);
		b->comp_size = pos - pstart;
		b->uncomp_size = c.out_len - ostart;
		add_field(&c, pstart, pos - pstart, RDF_LZIP_PAYLOAD);
		if (st != RD_OK)
			break;
		const size_t flen = version == 0 ? 12 : 20;
		if (n - pos < flen) {
			fail(&c, RD_TRUNCATED, n, "input ends inside the .lz member footer");
			break;
		}
		add_field(&c, pos, 4, RDF_LZIP_CRC);
		add_field(&c, pos + 4, 8, RDF_LZIP_DATA_SIZE);
		if (version == 1)
			add_field(&c, pos + 12, 8, RDF_LZIP_MEMBER_SIZE);
		static const uint8_t dummy = 0;
		if (le32(in + pos) != ref_crc32(c.out ? c.out + ostart : &dummy, c.out_len - ostart, 0)) {
			fail(&c, RD_INVALID, pos, ".lz CRC32 mismatch");
			break;
		}
		if (le64(in + pos + 4) != (uint64_t)(c.out_len - ostart)) {
			fail(&c, RD_INVALID, pos + 4, ".lz data size field %llu != measured %zu",
				(unsigned long long)le64(in + pos + 4), c.out_len - ostart);
			break;
		}
		if (version == 1 && le64(in + pos + 12) != (uint64_t)(pos + flen - start)) {
			fail(&c, RD_INVALID, pos + 12, ".lz member size field %llu != measured %zu",
				(unsigned long long)le64(in + pos + 12), pos + flen - start);
			break;
		}
		pos += flen;
		++r->lzip_members;
		r->consumed = pos;
		if (!(flags & RD_CONCATENATED)) {
			note_trailing(&c, pos);
			break;
		}
		if (pos == n)
			break;
	}
	ctx_finish(&c);
}

void rd_raw_decode(const rd_filter *filters, unsigned nfilters, const uint8_t *in, size_t n,
		uint64_t known_size, bool allow_eopm, const uint8_t *preset_dict, size_t preset_dict_len,
		size_t out_limit, rd_result *r)
{
	ctx c;
	ctx_init(&c, in, n, out_limit, r);
	do {
		if (nfilters < 1 || nfilters > 4) {
			fail(&c, RD_INVALID, 0, "raw chain: 1-4 filters required");
			break;
		}
		rd_block *b = add_block(&c);
		if (b == NULL) {
			fail(&c, RD_LIMIT, 0, "allocation failed");
			break;
		}
		b->nfilters = nfilters;
		memcpy(b->filters, filters, nfilters * sizeof(rd_filter));
		bool bad = false;
		for (unsigned i = 0; i + 1 < nfilters && !bad; ++i)
			bad = check_nonlast(&c, &filters[i], 0) != RD_OK;
		if (bad)
			break;
		const rd_filter *lf = &filters[nfilters - 1];
		uint32_t dict;
		unsigned props = 0;
		if (lf->id == RD_FILTER_LZMA2) {
			if (lf->props_len != 1 || lf->props[0] > 40) {
				unsupported(&c, RDU_FILTER, 0, "LZMA2 properties unsupported");
				break;
			}
			dict = rd_lzma2_dict_size(lf->props[0]);
			b->dict_size_declared = dict;
		} else if (lf->id == RD_FILTER_LZMA1) {
			if (lf->props_len != 5) {
				unsupported(&c, RDU_FILTER, 0, "LZMA1 properties size other than 5");
				break;
			}
			props = lf->props[0];
			if (props > 224) {
				fail(&c, RD_INVALID, 0, "LZMA1 properties byte %u > 224", props);
				break;
			}
			unsigned t = props % 45;
			if (t / 9 + t % 9 > 4) {
				r->lzma_lclp_gt4 = true;
				r->unsupported_what |= RDU_LCLP;
			}
			dict = le32(lf->props + 1);
		} else {
			unsupported(&c, RDU_FILTER, 0, "last filter of a raw chain must be LZMA1 or LZMA2");
			break;
		}
		// preset dictionary: only its last dict_size bytes matter
		const uint64_t eff_dict = lf->id == RD_FILTER_LZMA1 && dict < 4096 ? 4096 : dict;
		if (preset_dict == NULL)
			preset_dict_len = 0;
		size_t use = preset_dict_len;
		if ((uint64_t)use > eff_dict)
			use = (size_t)eff_dict;
		if (use > 0) {
			c.out = malloc(use + 2048);
			if (c.out == NULL) {
				fail(&c, RD_LIMIT, 0, "allocation failed");
				break;
			}
			c.out_cap = use + 2048;
			memcpy(c.out, preset_dict + (preset_dict_len - use), use);
			c.out_len = c.out_base = use;
		}
		lzwin w = { .dict_start = 0, .pos_base = 0, .max_dist = 0 };
		size_t pos = 0;
		rd_status st;
		if (lf->id == RD_FILTER_LZMA2) {
			st = lzma2_decode(&c, &pos, n, RD_TRUNCATED, dict, &w, use > 0, c.out_base,
					known_size, b);
			b = &r->blocks[0];
			if (st == RD_OK && known_size != UINT64_MAX && (uint64_t)(c.out_len - c.out_base) != known_size)
				st = fail(&c, RD_INVALID, pos, "LZMA2 stream produced %zu bytes, %llu expected",
					c.out_len - c.out_base, (unsigned long long)known_size);
		} else {
			bool eopm = false;
			st = lzma1_stream(&c, &pos, props, dict, known_size, allow_eopm, &w, b, &eopm);
			r->alone_has_eopm = eopm;
		}
		b->comp_size = pos;
		b->uncomp_size = c.out_len - c.out_base;
		add_field(&c, 0, pos, RDF_RAW_PAYLOAD);
		apply_nonlast(&c, filters, nfilters, c.out_base);
		if (st != RD_OK)
			break;
		r->consumed = pos;
		note_trailing(&c, pos);
		if (r->lzma_lclp_gt4)
			r->status = RD_UNSUPPORTED, snprintf(r->why, sizeof(r->why), "lc+lp > 4 (valid LZMA, unsupported by XZ Utils)");
	} while (0);
	ctx_finish(&c);
}

///////////////////////////////////////////////////////////////////////////
// format detection by the documents' rules
///////////////////////////////////////////////////////////////////////////

int rd_detect(const uint8_t *in, size_t n)
{
	if (n >= 6 && memcmp(in, XZ_MAGIC, 6) == 0)
		return 'x';
	if (n >= 4 && memcmp(in, LZIP_MAGIC, 4) == 0)
		return 'z';
	if (n < 13)
		return 0;
	if (in[0] > 224)
		return 0;
	unsigned t = in[0] % 45;
	if (t / 9 + t % 9 > 4)
		return 0;
	const uint32_t dict = le32(in + 1);
	if (dict != UINT32_MAX) {
		// 2^n or 2^n + 2^(n-1)
		bool ok = false;
		for (unsigned k = 0; k < 32 && !ok; ++k) {
			uint64_t p2 = (uint64_t)1 << k;
			if (dict == p2 || (k >= 1 && dict == p2 + p2 / 2))
				ok = true;
		}
		if (!ok)
			return 0;
	}
	const uint64_t size = le64(in + 5);
	if (size != UINT64_MAX && size >= (UINT64_C(1) << 38))
		return 0;
	return 'l';
}
