// Independent reference implementations of the integrity checks
// (IEEE 802.3 CRC32, ECMA-182 CRC64 - both reflected - and FIPS 180-4
// SHA-256). They share no code with liblzma.
#ifndef REF_CHECK_REF_H
#define REF_CHECK_REF_H
#include <stddef.h>
#include <stdint.h>

// Same calling convention as lzma_crc32()/lzma_crc64(): `crc` is the value
// returned for the preceding bytes (0 for the first piece).
uint32_t ref_crc32(const uint8_t *p, size_t n, uint32_t crc);   // 256-entry table built at first use from the bitwise definition
uint64_t ref_crc64(const uint8_t *p, size_t n, uint64_t crc);
uint32_t ref_crc32_bitwise(const uint8_t *p, size_t n, uint32_t crc);  // pure bit-at-a-time
uint64_t ref_crc64_bitwise(const uint8_t *p, size_t n, uint64_t crc);

typedef struct {
	uint32_t h[8];
	uint64_t nbytes;
	uint8_t buf[64];
} ref_sha256_ctx;
void ref_sha256_init(ref_sha256_ctx *c);
void ref_sha256_update(ref_sha256_ctx *c, const uint8_t *p, size_t n);
void ref_sha256_final(ref_sha256_ctx *c, uint8_t out[32]);
void ref_sha256(const uint8_t *p, size_t n, uint8_t out[32]);
#endif
