// synth_test - referee for synth: every synthesised object must be accepted
// by liblzma with output identical to the plaintext synth claims, plus
// feature coverage statistics of the generator.
//
// usage: synth_test [--seed S] [--count N] [--kinds a,b,..] [--start I] [--only I]
//                   [--nobig] [--noriscv] [--dump DIR]
// kinds: lzma1 lzma2 xz block alone lzip chain   (default: all, 50000 objects each)
//   --only I     replay exactly object I (of each selected kind), verbosely
//   --nobig      skip the multi-MiB objects and > 64 MiB dictionaries
//   --dump DIR   also write every object (.bin/.plain/.preset) and DIR/manifest.txt,
//                for decoding with another liblzma (e.g. python3's lzma = 5.4.1)
// Failing objects are saved as /verif/.build/synth-scratch/fail-<kind>-<seed>-<idx>.{bin,plain}.
// Built with -DSYNTH_TEST_REFDEC and ref/refdec.c it additionally requires
// refdec to accept every object with the same output and consumption
// (three-way agreement synth / refdec / liblzma).
#define _GNU_SOURCE
#include "synth.h"
#include <time.h>
#include <sys/stat.h>
#ifdef SYNTH_TEST_REFDEC
#	include "refdec.h"
#endif

enum { KD_LZMA1, KD_LZMA2, KD_XZ, KD_BLOCK, KD_ALONE, KD_LZIP, KD_CHAIN, KD_COUNT };
static const char *const kd_names[KD_COUNT] = { "lzma1", "lzma2", "xz", "block", "alone", "lzip", "chain" };
static const char *scratch = "/verif/.build/synth-scratch";

static double now_s(void)
{
	struct timespec ts; clock_gettime(CLOCK_PROCESS_CPUTIME_ID, &ts);
	return (double)ts.tv_sec + 1e-9 * (double)ts.tv_nsec;
}

//////////////
// coverage //
//////////////

typedef struct {
	uint64_t objects, accepted, failed;
	uint64_t plain_bytes, comp_bytes;
	uint64_t small_objects; double small_gen_s; double gen_s, dec_s;
	// objects in which the feature occurs at least once
	uint64_t o_lit, o_match, o_rep[4], o_short, o_len273, o_len2, o_dist_eq_dict, o_dist_full,
		o_match_is_rep, o_rep_initial, o_matched_lit, o_preset_refs, o_preset, o_preset_trunc,
		o_parse, o_free, o_eopm, o_eopm_oddlen;
	uint64_t o_ctrl[SYNTH_CTRL_COUNT], o_one_byte_chunk, o_max_uncomp, o_max_comp, o_max_unc, o_expanding,
		o_multi_chunk, o_prop_change, o_dict_reset_mid, o_state_reset;
	// symbol totals
	uint64_t s_lit, s_match, s_rep[4], s_short, s_len273, s_dist_eq_dict, s_chunks, s_chunks_unc;
	uint64_t props[225];
	uint64_t dict_lzma2_code[41];
	uint64_t nfilters[5], filter_id[16], o_bcj_start, o_bcj_props4zero;
	uint64_t check[16], o_reserved_check, tell_unsupported_seen;
	uint64_t hdr_variant[4], o_header_padding, o_hdr1024, o_empty_block, o_multi_block, o_multi_stream,
		o_stream_padding, o_stream_no_blocks;
	uint64_t blocks, streams;
	uint64_t alone_variant[3], alone_dict_zero, alone_dict_non_pow2;
	uint64_t lzip_v[2], lzip_code[256], o_lzip_multi, o_lzip_trailing, lzip_trail_prefix[4];
	uint64_t chain_last_lzma1, chain_last_lzma2, chain_lzma1_noeopm;
	uint64_t max_plain_seen, max_dict_seen;
} cov_t;

static cov_t cov[KD_COUNT];

static void cov_add(int kd, const synth_info *in, size_t plain_n, size_t comp_n)
{
	cov_t *c = &cov[kd];
	c->plain_bytes += plain_n; c->comp_bytes += comp_n;
	if (plain_n > c->max_plain_seen) c->max_plain_seen = plain_n;
	if (in->dict_size > c->max_dict_seen) c->max_dict_seen = in->dict_size;
#define O(field, cond) do { if (cond) c->field++; } while (0)
	O(o_lit, in->n_literals); O(o_match, in->n_matches); O(o_short, in->n_shortreps);
	for (int i = 0; i < 4; ++i) { O(o_rep[i], in->n_reps[i]); c->s_rep[i] += in->n_reps[i]; }
	O(o_len273, in->n_len273); O(o_len2, in->n_len2); O(o_dist_eq_dict, in->n_dist_eq_dict);
	O(o_dist_full, in->n_dist_full); O(o_match_is_rep, in->n_match_is_rep); O(o_rep_initial, in->n_rep_initial);
	O(o_matched_lit, in->n_matched_literals); O(o_preset_refs, in->n_preset_refs); O(o_preset, in->preset_used);
	O(o_parse, in->parse_mode_streams); O(o_free, in->free_mode_streams);
	O(o_eopm, in->eopm); O(o_eopm_oddlen, in->eopm && in->eopm_len != 2);
	for (int i = 0; i < SYNTH_CTRL_COUNT; ++i) O(o_ctrl[i], in->ctrl[i]);
	O(o_one_byte_chunk, in->chunks_one_byte); O(o_max_uncomp, in->chunks_max_uncomp);
	O(o_max_comp, in->chunks_max_comp); O(o_max_unc, in->chunks_max_unc); O(o_expanding, in->chunks_expanding);
	O(o_multi_chunk, in->chunks > 1); O(o_prop_change, in->prop_changes);
	O(o_dict_reset_mid, in->dict_resets > in->nblocks + (kd == KD_LZMA2 || kd == KD_CHAIN ? 1u : 0u));
	O(o_state_reset, in->state_resets);
	c->s_lit += in->n_literals; c->s_match += in->n_matches; c->s_short += in->n_shortreps;
	c->s_len273 += in->n_len273; c->s_dist_eq_dict += in->n_dist_eq_dict;
	c->s_chunks += in->chunks; c->s_chunks_unc += in->chunks_uncompressed;
	for (unsigned i = 0; i < in->n_props_used; ++i) c->props[in->props_used[i]]++;
	c->nfilters[in->nfilters]++;
	for (unsigned id = 3; id <= 0x0B; ++id) O(filter_id[id], in->filter_mask & (1u << id));
	O(o_bcj_start, in->bcj_nonzero_start); O(o_bcj_props4zero, in->bcj_props4_zero);
	for (unsigned i = 0; i < 16; ++i) O(check[i], in->check_mask & (1u << i));
	O(o_reserved_check, in->check_mask & ~((1u << 0) | (1u << 1) | (1u << 4) | (1u << 10)));
	for (unsigned i = 0; i < 4; ++i) O(hdr_variant[i], in->hdr_variants & (1u << i));
	O(o_header_padding, in->max_header_size && in->header_padding); O(o_hdr1024, in->max_header_size == 1024);
	O(o_empty_block, in->empty_blocks); O(o_multi_block, in->nblocks > 1); O(o_multi_stream, in->nstreams > 1);
	O(o_stream_padding, in->stream_padding); O(o_stream_no_blocks, in->streams_without_blocks);
	c->blocks += in->nblocks; c->streams += in->nstreams;
	O(o_lzip_multi, in->lzip_members > 1); O(o_lzip_trailing, in->trailing);
	c->lzip_v[0] += in->lzip_v0; c->lzip_v[1] += in->lzip_v1;
#undef O
}

static void print_u64s(const char *name, const uint64_t *v, unsigned n, unsigned base)
{
	printf("    %-22s", name);
	for (unsigned i = 0; i < n; ++i) if (v[i]) printf(" %u:%" PRIu64, base + i, v[i]);
	printf("\n");
}

static void cov_print(int kd)
{
	const cov_t *c = &cov[kd];
	if (!c->objects) return;
	printf("== %s: objects=%" PRIu64 " accepted=%" PRIu64 " FAILED=%" PRIu64 " plain=%" PRIu64 "B comp=%" PRIu64
		"B max_plain=%" PRIu64 " max_dict=%" PRIu64 "\n", kd_names[kd], c->objects, c->accepted, c->failed,
		c->plain_bytes, c->comp_bytes, c->max_plain_seen, c->max_dict_seen);
	printf("    gen %.2fs dec %.2fs; small objects (max_plain<=8192): %" PRIu64 " in %.2fs = %.0f obj/s/core\n",
		c->gen_s, c->dec_s, c->small_objects, c->small_gen_s,
		c->small_gen_s > 0 ? (double)c->small_objects / c->small_gen_s : 0.0);
	printf("    objects with: literal=%" PRIu64 " match=%" PRIu64 " rep0=%" PRIu64 " rep1=%" PRIu64 " rep2=%" PRIu64
		" rep3=%" PRIu64 " shortrep=%" PRIu64 " len273=%" PRIu64 " len2=%" PRIu64 " dist==dict=%" PRIu64
		" dist==all=%" PRIu64 "\n", c->o_lit, c->o_match, c->o_rep[0], c->o_rep[1], c->o_rep[2], c->o_rep[3],
		c->o_short, c->o_len273, c->o_len2, c->o_dist_eq_dict, c->o_dist_full);
	printf("      match-equal-to-a-rep=%" PRIu64 " rep-at-reset-value=%" PRIu64 " matched-literal=%" PRIu64
		" parse-mode=%" PRIu64 " free-mode=%" PRIu64 " eopm=%" PRIu64 " eopm-len!=2=%" PRIu64 "\n",
		c->o_match_is_rep, c->o_rep_initial, c->o_matched_lit, c->o_parse, c->o_free, c->o_eopm, c->o_eopm_oddlen);
	printf("      preset=%" PRIu64 " preset-longer-than-dict=%" PRIu64 " matches-into-preset=%" PRIu64 "\n",
		c->o_preset, c->o_preset_trunc, c->o_preset_refs);
	printf("    symbol totals: lit=%" PRIu64 " match=%" PRIu64 " rep=%" PRIu64 "/%" PRIu64 "/%" PRIu64 "/%" PRIu64
		" shortrep=%" PRIu64 " len273=%" PRIu64 " dist==dict=%" PRIu64 "\n", c->s_lit, c->s_match, c->s_rep[0],
		c->s_rep[1], c->s_rep[2], c->s_rep[3], c->s_short, c->s_len273, c->s_dist_eq_dict);
	unsigned nprops = 0; uint64_t minp = UINT64_MAX;
	for (unsigned i = 0; i < 225; ++i) if (c->props[i]) { ++nprops; if (c->props[i] < minp) minp = c->props[i]; }
	printf("    lc/lp/pb combinations used: %u of 75 (least used: %" PRIu64 " times)\n", nprops, nprops ? minp : 0);
	if (c->s_chunks) {
		printf("    LZMA2: chunks=%" PRIu64 " uncompressed=%" PRIu64 "; objects with control 0x01=%" PRIu64 " 0x02=%" PRIu64
			" 0x80=%" PRIu64 " 0xA0=%" PRIu64 " 0xC0=%" PRIu64 " 0xE0=%" PRIu64 "\n", c->s_chunks, c->s_chunks_unc,
			c->o_ctrl[0], c->o_ctrl[1], c->o_ctrl[2], c->o_ctrl[3], c->o_ctrl[4], c->o_ctrl[5]);
		printf("      multi-chunk=%" PRIu64 " 1-byte-chunk=%" PRIu64 " 2MiB-chunk=%" PRIu64 " 64KiB-compressed=%" PRIu64
			" 64KiB-uncompressed-chunk=%" PRIu64 " expanding=%" PRIu64 " props-change=%" PRIu64 " mid-dict-reset=%" PRIu64
			" state-reset=%" PRIu64 "\n", c->o_multi_chunk, c->o_one_byte_chunk, c->o_max_uncomp, c->o_max_comp,
			c->o_max_unc, c->o_expanding, c->o_prop_change, c->o_dict_reset_mid, c->o_state_reset);
		print_u64s("LZMA2 dict code:", c->dict_lzma2_code, 41, 0);
	}
	if (kd == KD_XZ || kd == KD_BLOCK || kd == KD_CHAIN) {
		print_u64s("filters in chain:", c->nfilters, 5, 0);
		print_u64s("objects w/ filter id:", c->filter_id, 16, 0);
		printf("    bcj nonzero start=%" PRIu64 " explicit zero start=%" PRIu64 "\n", c->o_bcj_start, c->o_bcj_props4zero);
	}
	if (kd == KD_XZ || kd == KD_BLOCK) {
		print_u64s("objects w/ check id:", c->check, 16, 0);
		printf("    reserved-check objects=%" PRIu64 " (UNSUPPORTED_CHECK notifications seen: %" PRIu64 ")\n",
			c->o_reserved_check, c->tell_unsupported_seen);
		printf("    block header size fields (objects): none=%" PRIu64 " comp=%" PRIu64 " uncomp=%" PRIu64 " both=%" PRIu64
			"; header padding=%" PRIu64 " 1024-byte header=%" PRIu64 " empty block=%" PRIu64 "\n", c->hdr_variant[0],
			c->hdr_variant[1], c->hdr_variant[2], c->hdr_variant[3], c->o_header_padding, c->o_hdr1024, c->o_empty_block);
		printf("    blocks=%" PRIu64 " streams=%" PRIu64 " multi-block=%" PRIu64 " multi-stream=%" PRIu64 " stream-padding=%" PRIu64
			" stream-without-blocks=%" PRIu64 "\n", c->blocks, c->streams, c->o_multi_block, c->o_multi_stream,
			c->o_stream_padding, c->o_stream_no_blocks);
	}
	if (kd == KD_ALONE)
		printf("    .lzma variants: known=%" PRIu64 " known+eopm=%" PRIu64 " unknown+eopm=%" PRIu64 "; dict field 0: %" PRIu64
			", not 2^n/2^n+2^(n-1): %" PRIu64 "\n", c->alone_variant[0], c->alone_variant[1], c->alone_variant[2],
			c->alone_dict_zero, c->alone_dict_non_pow2);
	if (kd == KD_LZIP) {
		unsigned ncodes = 0; uint64_t minc = UINT64_MAX;
		for (unsigned i = 0; i < 256; ++i) if (c->lzip_code[i]) { ++ncodes; if (c->lzip_code[i] < minc) minc = c->lzip_code[i]; }
		printf("    .lz members v0=%" PRIu64 " v1=%" PRIu64 " multi-member=%" PRIu64 " trailing=%" PRIu64
			" (magic prefix 0/1/2/3: %" PRIu64 "/%" PRIu64 "/%" PRIu64 "/%" PRIu64 "); dictionary codes used: %u of 137 (least: %" PRIu64 ")\n",
			c->lzip_v[0], c->lzip_v[1], c->o_lzip_multi, c->o_lzip_trailing, c->lzip_trail_prefix[0], c->lzip_trail_prefix[1],
			c->lzip_trail_prefix[2], c->lzip_trail_prefix[3], ncodes, ncodes ? minc : 0);
	}
	if (kd == KD_CHAIN)
		printf("    chain last filter: LZMA1=%" PRIu64 " (without eopm %" PRIu64 ") LZMA2=%" PRIu64 "\n", c->chain_last_lzma1,
			c->chain_lzma1_noeopm, c->chain_last_lzma2);
}

//////////////
// decoding //
//////////////

typedef struct { lzma_ret ret; uint64_t total_in; unsigned unsupported_check; } dres;

// Runs lzma_code() to the end (whole input available, LZMA_FINISH).
static dres run_decoder(lzma_stream *s, const uint8_t *in, size_t n, vbuf *outb)
{
	dres d = { LZMA_OK, 0, 0 };
	vbuf_clear(outb);
	vbuf_reserve(outb, 4096);
	s->next_in = in; s->avail_in = n;
	for (;;) {
		if (outb->cap - outb->n < 1024) vbuf_reserve(outb, outb->cap * 2);
		s->next_out = outb->p + outb->n; s->avail_out = outb->cap - outb->n;
		const lzma_ret rr = lzma_code(s, LZMA_FINISH);
		outb->n = outb->cap - s->avail_out;
		if (rr == LZMA_UNSUPPORTED_CHECK) { d.unsupported_check++; continue; }
		if (rr != LZMA_OK) { d.ret = rr; break; }
	}
	d.total_in = s->total_in;
	return d;
}

static void dump(const char *tag, int kd, uint64_t seed, uint64_t idx, const vbuf *b)
{
	char path[512];
	mkdir(scratch, 0755);
	snprintf(path, sizeof(path), "%s/fail-%s-%" PRIu64 "-%" PRIu64 ".%s", scratch, kd_names[kd], seed, idx, tag);
	FILE *f = fopen(path, "wb");
	if (f) { if (b->n) fwrite(b->p, 1, b->n, f); fclose(f); }
}

static bool verdict(int kd, uint64_t seed, uint64_t idx, const synth_info *in, const vbuf *obj, const vbuf *plain,
		const vbuf *got, dres d, uint64_t expect_in, const char *how)
{
	const char *why = NULL;
	if (d.ret != LZMA_STREAM_END) why = "not LZMA_STREAM_END";
	else if (d.total_in != expect_in) why = "input consumption differs";
	else if (got->n != plain->n) why = "output size differs";
	else if (got->n && memcmp(got->p, plain->p, got->n) != 0) why = "output content differs";
	if (!why) return true;
	size_t at = 0;
	while (at < got->n && at < plain->n && got->p[at] == plain->p[at]) ++at;
	printf("FAIL kind=%s seed=%" PRIu64 " idx=%" PRIu64 " via=%s: %s (ret=%s total_in=%" PRIu64 "/%zu expect_in=%" PRIu64
		" out=%zu expect=%zu first_diff=%zu)\n     %s\n", kd_names[kd], seed, idx, how, why, lzma_ret_name(d.ret),
		d.total_in, obj->n, expect_in, got->n, plain->n, at, in->desc);
	dump("bin", kd, seed, idx, obj);
	dump("plain", kd, seed, idx, plain);
	return false;
}

static unsigned lzma2_code_of(uint32_t dict)
{
	for (unsigned c = 0; c <= 40; ++c) if (synth_lzma2_dict_size(c) == dict) return c;
	return 99;
}

static bool g_nobig, g_quiet, g_noriscv;

static void make_opts(vrng *r, int kd, uint64_t idx, synth_opts *o, bool *small)
{
	memset(o, 0, sizeof(*o));
	static const size_t caps[] = { 16, 300, 2048, 4096, 8192, 8192, 8192, 8192 };
	o->max_plain = caps[vrng_below(r, 8)];
	*small = true;
	if (idx % 16 == 5) { o->max_plain = 20000 + vrng_below(r, 120000); *small = false; }
	if (!g_nobig && idx % 800 == 13) { o->max_plain = (2u << 20) + vrng_below(r, 1u << 20); *small = false; }
	if (idx % 64 == 3) { o->max_dict = 64u << 20; }
	if (!g_nobig && idx % 2000 == 77) { o->max_dict = UINT32_C(3) << 29; }
	if (kd == KD_LZIP && idx % 16 == 9) { o->max_dict = 512u << 20; }
	if (kd == KD_LZIP && g_nobig && o->max_dict > (64u << 20)) o->max_dict = 64u << 20;
	if (idx % 7 == 0) o->flags |= SYNTH_ONLY_SUPPORTED;
	if (idx % 5 == 0) o->flags |= SYNTH_SINGLE_STREAM;
	if (idx % 33 == 1) o->flags |= SYNTH_NO_BCJ;
	if (idx % 97 == 2) { o->max_blocks = 40; }
	if (g_noriscv) o->flags |= SYNTH_NO_RISCV;
	if (!g_nobig && idx % 5000 == 4321 && (kd == KD_LZMA2 || kd == KD_XZ || kd == KD_ALONE)) o->max_dict = UINT32_MAX;
}

static const char *g_dumpdir;
static FILE *g_manifest;

static void hexstr(const uint8_t *p, size_t n, char *dst)
{
	for (size_t i = 0; i < n; ++i) sprintf(dst + 2 * i, "%02x", p[i]);
	dst[2 * n] = 0;
}

// --dump: write the object, the plaintext, and one manifest line a script can
// use to decode the object with another liblzma.
static void dump_case(int kd, uint64_t idx, const synth_info *in, const vbuf *obj, const vbuf *plain, const vbuf *preset,
		const synth_filter *sf, unsigned nsf, unsigned check_id)
{
	char path[600];
	snprintf(path, sizeof(path), "%s/%s-%" PRIu64 ".bin", g_dumpdir, kd_names[kd], idx);
	FILE *f = fopen(path, "wb"); if (!f) return; if (obj->n) fwrite(obj->p, 1, obj->n, f); fclose(f);
	snprintf(path, sizeof(path), "%s/%s-%" PRIu64 ".plain", g_dumpdir, kd_names[kd], idx);
	f = fopen(path, "wb"); if (!f) return; if (plain->n) fwrite(plain->p, 1, plain->n, f); fclose(f);
	if (preset->n) {
		snprintf(path, sizeof(path), "%s/%s-%" PRIu64 ".preset", g_dumpdir, kd_names[kd], idx);
		f = fopen(path, "wb"); if (!f) return; fwrite(preset->p, 1, preset->n, f); fclose(f);
	}
	fprintf(g_manifest, "%s %" PRIu64 " lc=%u lp=%u pb=%u dict=%u eopm=%d usize=%" PRIu64 " preset=%zu check=%u trailing=%zu filters=",
		kd_names[kd], idx, in->lc, in->lp, in->pb, in->dict_size, in->eopm, in->lzma_uncomp_size, preset->n, check_id, in->trailing);
	for (unsigned i = 0; i < nsf; ++i) {
		char hx[40]; hexstr(sf[i].props, sf[i].props_len, hx);
		fprintf(g_manifest, "%s%" PRIx64 ":%s", i ? "," : "", sf[i].id, hx);
	}
	fprintf(g_manifest, " fmask=%#x\n", in->filter_mask);
}

#ifdef SYNTH_TEST_REFDEC
static uint64_t g_refdec_checked, g_refdec_failed;
static bool refdec_check(int kd, uint64_t seed, uint64_t idx, const synth_info *in, const vbuf *obj, const vbuf *plain,
		const vbuf *preset, const synth_filter *sf, unsigned nsf, unsigned check_id, uint64_t expect_in)
{
	rd_result rr;
	rd_filter rf[4];
	switch (kd) {
	case KD_LZMA1: {
		rf[0].id = RD_FILTER_LZMA1; rf[0].props_len = 5;
		rf[0].props[0] = (uint8_t)((in->pb * 5 + in->lp) * 9 + in->lc);
		for (int i = 0; i < 4; ++i) rf[0].props[1 + i] = (uint8_t)(in->dict_size >> (8 * i));
		// alternate between "size known" and "size unknown" when an end marker exists
		const bool known = !in->eopm || idx % 4 < 2;
		rd_raw_decode(rf, 1, obj->p, obj->n, known ? in->lzma_uncomp_size : UINT64_MAX, in->eopm,
			preset->n ? preset->p : NULL, preset->n, SIZE_MAX, &rr);
		break;
	}
	case KD_LZMA2: {
		rf[0].id = RD_FILTER_LZMA2; rf[0].props_len = 1; rf[0].props[0] = (uint8_t)lzma2_code_of(in->dict_size);
		rd_raw_decode(rf, 1, obj->p, obj->n, idx % 2 ? UINT64_MAX : in->lzma_uncomp_size, false,
			preset->n ? preset->p : NULL, preset->n, SIZE_MAX, &rr);
		break;
	}
	case KD_CHAIN:
		for (unsigned i = 0; i < nsf; ++i) { rf[i].id = sf[i].id; rf[i].props_len = sf[i].props_len; memcpy(rf[i].props, sf[i].props, 16); }
		rd_raw_decode(rf, nsf, obj->p, obj->n, sf[nsf - 1].id == SYNTH_ID_LZMA1 && !in->eopm ? in->lzma_uncomp_size : UINT64_MAX,
			false, NULL, 0, SIZE_MAX, &rr);
		break;
	case KD_XZ: rd_xz_decode(obj->p, obj->n, RD_CONCATENATED, SIZE_MAX, &rr); break;
	case KD_BLOCK: rd_block_decode(obj->p, obj->n, check_id, SIZE_MAX, &rr); break;
	case KD_ALONE: rd_alone_decode(obj->p, obj->n, SIZE_MAX, &rr); break;
	case KD_LZIP: rd_lzip_decode(obj->p, obj->n, RD_CONCATENATED, SIZE_MAX, &rr); break;
	default: return true;
	}
	++g_refdec_checked;
	const char *why = NULL;
	const bool reserved = (in->check_mask & ~((1u << 0) | (1u << 1) | (1u << 4) | (1u << 10))) != 0;
	// (a Stream with a reserved Check ID but no Block has no Check field: refdec says OK)
	if (!(rr.status == RD_OK || (reserved && rr.status == RD_UNSUPPORTED && rr.unsupported_what == RDU_CHECK)))
		why = "refdec status not OK";
	else if (rr.relaxation_zone) why = "refdec: distance in relaxation zone";
	else if (rr.out_len != plain->n || (plain->n && memcmp(rr.out, plain->p, plain->n))) why = "refdec output differs";
	else if (rr.consumed != expect_in) why = "refdec consumption differs";
	if (why) {
		++g_refdec_failed;
		printf("REFDEC-DISAGREE kind=%s seed=%" PRIu64 " idx=%" PRIu64 ": %s (status=%s why='%s' off=%zu out=%zu/%zu consumed=%zu/%" PRIu64 " chunks=%zu/%u)\n     %s\n",
			kd_names[kd], seed, idx, why, rd_status_name(rr.status), rr.why, rr.err_offset, rr.out_len, plain->n,
			rr.consumed, expect_in, rr.nchunks, in->chunks, in->desc);
		dump("bin", kd, seed, idx, obj); dump("plain", kd, seed, idx, plain);
	}
	rd_result_free(&rr);
	return why == NULL;
}
#endif

static void set_lzma1_filter(lzma_filter *f, lzma_options_lzma *opt, const synth_info *in, bool use_ext, bool ext_allow_eopm)
{
	memset(opt, 0, sizeof(*opt));
	opt->dict_size = in->dict_size; opt->lc = in->lc; opt->lp = in->lp; opt->pb = in->pb;
	f->id = LZMA_FILTER_LZMA1; f->options = opt;
	if (use_ext) {
		f->id = LZMA_FILTER_LZMA1EXT;
		opt->ext_flags = ext_allow_eopm ? LZMA_LZMA1EXT_ALLOW_EOPM : 0;
		lzma_set_ext_size(*opt, in->lzma_uncomp_size);
	}
}

static bool one_case(int kd, uint64_t seed, uint64_t idx, bool verbose)
{
	vrng r; vrng_init(&r, seed, 0x53594E + (uint64_t)kd, idx, 0);
	synth_opts o; bool small;
	make_opts(&r, kd, idx, &o, &small);
	synth_info in;
	vbuf obj = {0}, plain = {0}, got = {0}, preset = {0};
	cov_t *c = &cov[kd];
	lzma_stream s = LZMA_STREAM_INIT;
	bool ok = true;
	synth_filter sf[4]; unsigned nsf = 0;
	unsigned check_id = 0;
	bool with_eopm = false;

	// preset dictionary for the raw kinds
	if ((kd == KD_LZMA1 || kd == KD_LZMA2) && idx % 2 == 1) {
		size_t pn = 1 + vrng_logsize(&r, idx % 6 == 1 ? 20000 : 6000);
		gen_data(&r, &preset, pn, vrng_chance(&r, 1, 2) ? GD_RANDOM : -1, 0);
	}
	if (kd == KD_LZMA1) with_eopm = (idx / 2) % 2 == 0;
	if (kd == KD_BLOCK) {
		static const uint8_t sup[4] = { 0, 1, 4, 10 };
		check_id = (o.flags & SYNTH_ONLY_SUPPORTED) || idx % 3 ? sup[vrng_below(&r, 4)] : vrng_below(&r, 16);
	}

	const double t0 = now_s();
	switch (kd) {
	case KD_LZMA1: synth_lzma1(&r, &o, with_eopm, preset.n ? preset.p : NULL, preset.n, &obj, &plain, &in); break;
	case KD_LZMA2: synth_lzma2(&r, &o, preset.n ? preset.p : NULL, preset.n, &obj, &plain, &in); break;
	case KD_XZ: synth_xz(&r, &o, &obj, &plain, &in); break;
	case KD_BLOCK: synth_block(&r, &o, check_id, &obj, &plain, &in); break;
	case KD_ALONE: synth_alone(&r, &o, &obj, &plain, &in); break;
	case KD_LZIP: synth_lzip(&r, &o, &obj, &plain, &in); break;
	case KD_CHAIN: synth_raw_chain(&r, &o, sf, &nsf, &obj, &plain, &in); break;
	}
	const double t1 = now_s();
	c->gen_s += t1 - t0;
	if (small) { c->small_objects++; c->small_gen_s += t1 - t0; }
	c->objects++;
	if (verbose) printf("case %s/%" PRIu64 ": %zu bytes -> plain %zu (preset given %zu): %s\n", kd_names[kd], idx, obj.n, plain.n, preset.n, in.desc);

	lzma_options_lzma ol;
	lzma_filter fl[LZMA_FILTERS_MAX + 1];
	for (unsigned i = 0; i <= LZMA_FILTERS_MAX; ++i) { fl[i].id = LZMA_VLI_UNKNOWN; fl[i].options = NULL; }
	dres d;

	switch (kd) {
	case KD_LZMA1: {
		// with end marker: LZMA1, or LZMA1EXT with known size + ALLOW_EOPM, or LZMA1EXT with unknown size;
		// without: LZMA1EXT with the size, with and without ALLOW_EOPM
		const unsigned v = (unsigned)(idx / 4) % 3;
		bool ext, allow;
		if (with_eopm) { ext = v != 0; allow = true; } else { ext = true; allow = v == 1; }
		set_lzma1_filter(&fl[0], &ol, &in, ext, allow);
		if (with_eopm && v == 2) lzma_set_ext_size(ol, UINT64_MAX);
		if (preset.n) { ol.preset_dict = preset.p; ol.preset_dict_size = (uint32_t)preset.n; }
		if (preset.n > in.dict_size) c->o_preset_trunc++;
		if (lzma_raw_decoder(&s, fl) != LZMA_OK) { printf("FAIL init raw lzma1 idx=%" PRIu64 " %s\n", idx, in.desc); ok = false; break; }
		d = run_decoder(&s, obj.p, obj.n, &got);
		ok = verdict(kd, seed, idx, &in, &obj, &plain, &got, d, obj.n, ext ? "raw LZMA1EXT" : "raw LZMA1");
		break;
	}
	case KD_LZMA2: {
		uint8_t pb = (uint8_t)lzma2_code_of(in.dict_size);
		c->dict_lzma2_code[pb <= 40 ? pb : 0]++;
		fl[0].id = LZMA_FILTER_LZMA2;
		if (pb > 40 || lzma_properties_decode(&fl[0], NULL, &pb, 1) != LZMA_OK) { printf("FAIL props lzma2 idx=%" PRIu64 "\n", idx); ok = false; break; }
		lzma_options_lzma *op = fl[0].options;
		if (preset.n) { op->preset_dict = preset.p; op->preset_dict_size = (uint32_t)preset.n; }
		if (preset.n > in.dict_size) c->o_preset_trunc++;
		if (lzma_raw_decoder(&s, fl) != LZMA_OK) { printf("FAIL init raw lzma2 idx=%" PRIu64 "\n", idx); ok = false; free(op); break; }
		d = run_decoder(&s, obj.p, obj.n, &got);
		ok = verdict(kd, seed, idx, &in, &obj, &plain, &got, d, obj.n, "raw LZMA2");
		free(op);
		break;
	}
	case KD_CHAIN: {
		bool bad = false;
		for (unsigned i = 0; i < nsf; ++i) {
			fl[i].id = sf[i].id;
			if (lzma_properties_decode(&fl[i], NULL, sf[i].props, sf[i].props_len) != LZMA_OK) bad = true;
		}
		if (bad) { printf("FAIL props chain idx=%" PRIu64 " %s\n", idx, in.desc); ok = false; }
		else {
			if (sf[nsf - 1].id == SYNTH_ID_LZMA1) {
				c->chain_last_lzma1++;
				if (!in.eopm) {
					c->chain_lzma1_noeopm++;
					fl[nsf - 1].id = LZMA_FILTER_LZMA1EXT;
					lzma_options_lzma *op = fl[nsf - 1].options;
					op->ext_flags = 0; lzma_set_ext_size(*op, in.lzma_uncomp_size);
				}
			} else { c->chain_last_lzma2++; c->dict_lzma2_code[sf[nsf - 1].props[0]]++; }
			if (lzma_raw_decoder(&s, fl) != LZMA_OK) { printf("FAIL init chain idx=%" PRIu64 " %s\n", idx, in.desc); ok = false; }
			else {
				d = run_decoder(&s, obj.p, obj.n, &got);
				ok = verdict(kd, seed, idx, &in, &obj, &plain, &got, d, obj.n, "raw chain");
			}
		}
		for (unsigned i = 0; i < nsf; ++i) free(fl[i].options);
		break;
	}
	case KD_XZ: {
		const bool tell = idx % 2 == 0;
		uint32_t flags = (tell ? LZMA_TELL_UNSUPPORTED_CHECK : 0);
		// Single-Stream objects must also decode without LZMA_CONCATENATED
		if (!((o.flags & SYNTH_SINGLE_STREAM) && idx % 4 < 2)) flags |= LZMA_CONCATENATED;
		if (lzma_stream_decoder(&s, UINT64_MAX, flags) != LZMA_OK) { ok = false; break; }
		d = run_decoder(&s, obj.p, obj.n, &got);
		ok = verdict(kd, seed, idx, &in, &obj, &plain, &got, d, obj.n, "stream_decoder");
		// reserved Check IDs: one notification per such Stream that has at least
		// ... liblzma tells at the Stream Header, so every Stream with a reserved ID counts
		const bool reserved = (in.check_mask & ~((1u << 0) | (1u << 1) | (1u << 4) | (1u << 10))) != 0;
		c->tell_unsupported_seen += d.unsupported_check;
		if (ok && tell && reserved != (d.unsupported_check > 0)) {
			printf("FAIL kind=xz idx=%" PRIu64 ": LZMA_UNSUPPORTED_CHECK notifications=%u but reserved=%d  %s\n", idx,
				d.unsupported_check, reserved, in.desc);
			dump("bin", kd, seed, idx, &obj);
			ok = false;
		}
		if (ok && !tell && d.unsupported_check) { printf("FAIL kind=xz idx=%" PRIu64 ": unexpected UNSUPPORTED_CHECK\n", idx); ok = false; }
		for (unsigned i = 0; i <= 40; ++i) if (synth_lzma2_dict_size(i) == in.dict_size) c->dict_lzma2_code[i]++;
		break;
	}
	case KD_BLOCK: {
		lzma_block b; memset(&b, 0, sizeof(b));
		b.version = 1; b.check = (lzma_check)check_id; b.filters = fl;
		b.header_size = lzma_block_header_size_decode(obj.p[0]);
		lzma_ret rr = lzma_block_header_decode(&b, NULL, obj.p);
		if (rr != LZMA_OK) {
			printf("FAIL kind=block idx=%" PRIu64 ": block_header_decode=%s  %s\n", idx, lzma_ret_name(rr), in.desc);
			dump("bin", kd, seed, idx, &obj); ok = false; break;
		}
		if (b.header_size != in.block_header_size
				|| (b.compressed_size != LZMA_VLI_UNKNOWN) != in.has_comp_size
				|| (b.uncompressed_size != LZMA_VLI_UNKNOWN) != in.has_uncomp_size) {
			printf("FAIL kind=block idx=%" PRIu64 ": header fields differ  %s\n", idx, in.desc);
			dump("bin", kd, seed, idx, &obj); ok = false;
		}
		rr = lzma_block_decoder(&s, &b);
		if (rr != LZMA_OK) { printf("FAIL kind=block idx=%" PRIu64 ": block_decoder init=%s\n", idx, lzma_ret_name(rr)); ok = false; }
		else {
			d = run_decoder(&s, obj.p + b.header_size, obj.n - b.header_size, &got);
			ok = verdict(kd, seed, idx, &in, &obj, &plain, &got, d, obj.n - b.header_size, "block_decoder") && ok;
			if (ok && (lzma_block_unpadded_size(&b) != in.block_unpadded || b.uncompressed_size != in.block_uncomp)) {
				printf("FAIL kind=block idx=%" PRIu64 ": sizes after decoding differ (unpadded %" PRIu64 " vs %" PRIu64 ")\n", idx,
					(uint64_t)lzma_block_unpadded_size(&b), in.block_unpadded);
				ok = false;
			}
		}
		for (unsigned i = 0; i < LZMA_FILTERS_MAX; ++i) free(fl[i].options);
		for (unsigned i = 0; i <= 40; ++i) if (synth_lzma2_dict_size(i) == in.dict_size) c->dict_lzma2_code[i]++;
		break;
	}
	case KD_ALONE: {
		c->alone_variant[in.alone_size_known ? (in.alone_eopm ? 1 : 0) : 2]++;
		if (in.dict_size == 0) c->alone_dict_zero++;
		else {
			uint32_t dsz = in.dict_size; bool nice = false;
			for (unsigned n = 0; n < 32; ++n) if (dsz == (1u << n) || (n > 0 && dsz == (1u << n) + (1u << (n - 1)))) nice = true;
			if (!nice) c->alone_dict_non_pow2++;
		}
		if (lzma_alone_decoder(&s, UINT64_MAX) != LZMA_OK) { ok = false; break; }
		d = run_decoder(&s, obj.p, obj.n, &got);
		ok = verdict(kd, seed, idx, &in, &obj, &plain, &got, d, obj.n, "alone_decoder");
		break;
	}
	case KD_LZIP: {
		// per-member codes are not all in info; count the last one and rely on volume
		c->lzip_code[in.lzip_dict_code]++;
		if (in.trailing) c->lzip_trail_prefix[in.trailing_magic_prefix]++;
		if (lzma_lzip_decoder(&s, UINT64_MAX, LZMA_CONCATENATED) != LZMA_OK) { ok = false; break; }
		d = run_decoder(&s, obj.p, obj.n, &got);
		ok = verdict(kd, seed, idx, &in, &obj, &plain, &got, d, obj.n - in.trailing + in.trailing_magic_prefix, "lzip_decoder");
		break;
	}
	}
	lzma_end(&s);
	c->dec_s += now_s() - t1;
	cov_add(kd, &in, plain.n, obj.n);
	// the option flags must be honoured
	if ((o.flags & SYNTH_ONLY_SUPPORTED) && kd == KD_XZ && (in.check_mask & ~((1u << 0) | (1u << 1) | (1u << 4) | (1u << 10)))) {
		printf("FAIL idx=%" PRIu64 ": SYNTH_ONLY_SUPPORTED but reserved check used\n", idx); ok = false; }
	if ((o.flags & SYNTH_SINGLE_STREAM) && kd == KD_XZ && (in.nstreams != 1 || in.stream_padding)) {
		printf("FAIL idx=%" PRIu64 ": SYNTH_SINGLE_STREAM not honoured\n", idx); ok = false; }
	if ((o.flags & SYNTH_NO_BCJ) && (in.filter_mask & 0xFF0)) {
		printf("FAIL idx=%" PRIu64 ": SYNTH_NO_BCJ not honoured\n", idx); ok = false; }
	if ((o.flags & SYNTH_NO_RISCV) && (in.filter_mask & (1u << 0x0B))) {
		printf("FAIL idx=%" PRIu64 ": SYNTH_NO_RISCV not honoured\n", idx); ok = false; }
	if (plain.n > o.max_plain) { printf("FAIL idx=%" PRIu64 ": max_plain exceeded\n", idx); ok = false; }
	if (g_dumpdir) dump_case(kd, idx, &in, &obj, &plain, &preset, sf, nsf, check_id);
#ifdef SYNTH_TEST_REFDEC
	{
		uint64_t expect_in = obj.n;
		if (kd == KD_LZIP) expect_in = obj.n - in.trailing + in.trailing_magic_prefix;
		if (!refdec_check(kd, seed, idx, &in, &obj, &plain, &preset, sf, nsf, check_id, expect_in)) ok = false;
	}
#endif
	if (ok) c->accepted++; else c->failed++;
	vbuf_free(&obj); vbuf_free(&plain); vbuf_free(&got); vbuf_free(&preset);
	return ok;
}

int main(int argc, char **argv)
{
	uint64_t seed = 1, count = 50000, start = 0; int64_t only = -1;
	const char *kinds = "lzma1,lzma2,xz,block,alone,lzip,chain";
	for (int i = 1; i < argc; ++i) {
		if (!strcmp(argv[i], "--seed") && i + 1 < argc) seed = strtoull(argv[++i], NULL, 0);
		else if (!strcmp(argv[i], "--count") && i + 1 < argc) count = strtoull(argv[++i], NULL, 0);
		else if (!strcmp(argv[i], "--start") && i + 1 < argc) start = strtoull(argv[++i], NULL, 0);
		else if (!strcmp(argv[i], "--only") && i + 1 < argc) only = (int64_t)strtoull(argv[++i], NULL, 0);
		else if (!strcmp(argv[i], "--kinds") && i + 1 < argc) kinds = argv[++i];
		else if (!strcmp(argv[i], "--nobig")) g_nobig = true;
		else if (!strcmp(argv[i], "--quiet")) g_quiet = true;
		else if (!strcmp(argv[i], "--noriscv")) g_noriscv = true;
		else if (!strcmp(argv[i], "--dump") && i + 1 < argc) {
			g_dumpdir = argv[++i]; mkdir(g_dumpdir, 0755);
			char mp[600]; snprintf(mp, sizeof(mp), "%s/manifest.txt", g_dumpdir);
			g_manifest = fopen(mp, "w"); if (!g_manifest) { perror(mp); return 2; }
		}
		else { fprintf(stderr, "usage: synth_test [--seed S] [--count N] [--start I] [--only I] [--kinds a,b] [--nobig]\n"); return 2; }
	}
	uint64_t failed = 0;
	for (int kd = 0; kd < KD_COUNT; ++kd) {
		const char *p = strstr(kinds, kd_names[kd]);
		if (!p) continue;
		if (only >= 0) { if (!one_case(kd, seed, (uint64_t)only, true)) ++failed; continue; }
		for (uint64_t i = start; i < start + count; ++i)
			if (!one_case(kd, seed, i, false)) { if (++failed > 200) break; }
		fflush(stdout);
	}
	printf("\n==== synth_test seed=%" PRIu64 " ====\n", seed);
	uint64_t tot = 0, acc = 0;
	for (int kd = 0; kd < KD_COUNT; ++kd) { cov_print(kd); tot += cov[kd].objects; acc += cov[kd].accepted; }
	printf("TOTAL objects=%" PRIu64 " accepted=%" PRIu64 " failed=%" PRIu64 "\n", tot, acc, tot - acc);
#ifdef SYNTH_TEST_REFDEC
	printf("REFDEC three-way: checked=%" PRIu64 " disagreements=%" PRIu64 "\n", g_refdec_checked, g_refdec_failed);
#endif
	if (g_manifest) fclose(g_manifest);
	return tot == acc ? 0 : 1;
}
