// hx_rt: round-trip monitor (C01) and, with refdec, format-validity monitor
// (C02) over random (configuration, input, entry point, slicing) cases.
//
// Oracles:
//   C01  decode(encode(x,cfg)) == x and the decoder ends with STREAM_END;
//        output-limited (MicroLZMA) encoder: total_out <= limit and the
//        decoded bytes == x[0:total_in];
//        hook H1: output with a match-finder offset bias == output without.
//   C02  (when built with -DWITH_REFDEC) independent decoder accepts the
//        stream, reproduces x and every stored field is truthful; bound
//        functions are sufficient.
#define _GNU_SOURCE
#include "vh.h"
#ifdef WITH_REFDEC
#include "ref/refdec.h"
#endif

enum {
	EP_EASY, EP_STREAM, EP_STREAM_MT, EP_ALONE, EP_RAW, EP_MICROLZMA, EP_BLOCK,
	EP_EASY_BUF, EP_STREAM_BUF, EP_BLOCK_BUF, EP_RAW_BUF, EP_COUNT
};
static const char *const ep_names[EP_COUNT] = {
	"easy", "stream", "stream_mt", "alone", "raw", "microlzma", "block",
	"easy_buffer", "stream_buffer", "block_buffer", "raw_buffer",
};

static hx_args A;
static const char *PROP = "C01";

typedef struct {
	int ep;
	vcfg cfg;
	vbuf in;
	int kind;
	slice_plan enc_plan, dec_plan;
	uint32_t bias;            // 0 = no bias
	uint32_t threads; uint64_t block_size; uint32_t timeout;
	size_t out_limit;         // microlzma
	lzma_block block;         // EP_BLOCK*
	bool lzma1ext; bool ext_known;
	// flush script (c06enc): the input is fed in nflush+1 segments; segment k ends with flush_act[k]
	unsigned nflush; size_t flush_at[4]; lzma_action flush_act[4];
	// lzma_filters_update() with other lc/lp/pb for a chain ending in LZMA2: before any input (raw and Block
	// encoders) and after every completed LZMA_SYNC_FLUSH of the script
	bool upd_lclppb; lzma_options_lzma upd_opt[5];
	// the configuration was pushed just outside the documented domain: the encoder may refuse it (fine), but if it
	// accepts it everything else must hold
	bool maybe_invalid; bool refused;
	char fdesc[160];
	bool second_life;   // c06enc: this run uses a handle that was such an encoder before (see do_encode)
} rt_case;

static uint64_t visit(int d, int v) { return lzma_verif_visit_counts[d][v]; }

static bool is_xz(int ep) { return ep == EP_EASY || ep == EP_STREAM || ep == EP_STREAM_MT || ep == EP_EASY_BUF || ep == EP_STREAM_BUF; }

// Encode according to the case. Returns true when encoding "succeeded";
// *consumed = number of input bytes represented by `out`.
static bool do_encode(rt_case *c, uint64_t idx, vbuf *out, size_t *consumed, char *err, size_t errsz)
{
	lzma_stream strm = LZMA_STREAM_INIT;
	lzma_ret ret = LZMA_OK;
	*consumed = c->in.n;
	vbuf_clear(out);
	if (c->second_life && (c->ep == EP_EASY || c->ep == EP_STREAM || c->ep == EP_STREAM_MT || c->ep == EP_ALONE || c->ep == EP_RAW)) {
		// first life of the handle: the same kind of encoder with the same settings compresses a few KiB of other
		// data and is abandoned (no lzma_end); whatever it learned must not show in the second life's output
		lzma_mt mt1 = { .flags = 0, .threads = c->threads, .block_size = c->block_size, .timeout = c->timeout, .preset = c->cfg.preset,
			.filters = c->cfg.from_preset ? NULL : c->cfg.filters, .check = c->cfg.check };
		lzma_ret fr = c->ep == EP_EASY ? lzma_easy_encoder(&strm, c->cfg.preset, c->cfg.check)
			: c->ep == EP_STREAM ? lzma_stream_encoder(&strm, c->cfg.filters, c->cfg.check)
			: c->ep == EP_STREAM_MT ? lzma_stream_encoder_mt(&strm, &mt1)
			: c->ep == EP_ALONE ? lzma_alone_encoder(&strm, &c->cfg.lzma) : lzma_raw_encoder(&strm, c->cfg.filters);
		if (fr == LZMA_OK) {
			uint8_t junk[6000], ob[4096]; uint32_t x = 0x9E3779B9u ^ (uint32_t)c->in.n;
			for (size_t i = 0; i < sizeof(junk); ++i) { x = x * 1664525u + 1013904223u; junk[i] = (i & 64) ? (uint8_t)(x >> 24) : (uint8_t)"first life "[i % 11]; }
			strm.next_in = junk; strm.avail_in = sizeof(junk);
			for (int it = 0; it < 40 && strm.avail_in; ++it) { strm.next_out = ob; strm.avail_out = sizeof(ob); if (lzma_code(&strm, LZMA_RUN) != LZMA_OK) break; }
			// ... and is abandoned in the middle of handing out what it has produced: a full flush (xz encoders) is
			// started and continued for a few calls with a tiny output buffer, so that a finished Block of the
			// threaded encoder is only partly copied out when the handle is re-initialised
			if (c->ep == EP_EASY || c->ep == EP_STREAM || c->ep == EP_STREAM_MT)
				for (int it = 0; it < 4; ++it) { strm.next_out = ob; strm.avail_out = 1 + (size_t)((x >> (it * 3)) & 7); if (lzma_code(&strm, LZMA_FULL_FLUSH) != LZMA_OK) break; }
			strm.next_in = NULL; strm.avail_in = 0; strm.next_out = NULL; strm.avail_out = 0;
		}
	}
	switch (c->ep) {
	case EP_EASY:
		ret = lzma_easy_encoder(&strm, c->cfg.preset, c->cfg.check); break;
	case EP_STREAM:
		ret = lzma_stream_encoder(&strm, c->cfg.filters, c->cfg.check); break;
	case EP_STREAM_MT: {
		lzma_mt mt = { .flags = 0, .threads = c->threads, .block_size = c->block_size,
			.timeout = c->timeout, .preset = c->cfg.preset,
			.filters = c->cfg.from_preset ? NULL : c->cfg.filters, .check = c->cfg.check };
		ret = lzma_stream_encoder_mt(&strm, &mt); break;
	}
	case EP_ALONE:
		ret = lzma_alone_encoder(&strm, &c->cfg.lzma); break;
	case EP_RAW:
		ret = lzma_raw_encoder(&strm, c->cfg.filters); break;
	case EP_MICROLZMA:
		ret = lzma_microlzma_encoder(&strm, &c->cfg.lzma); break;
	case EP_BLOCK: {
		memset(&c->block, 0, sizeof(c->block));
		c->block.version = 1; c->block.check = c->cfg.check; c->block.filters = c->cfg.filters;
		c->block.compressed_size = LZMA_VLI_UNKNOWN; c->block.uncompressed_size = LZMA_VLI_UNKNOWN;
		ret = lzma_block_header_size(&c->block);
		if (ret == LZMA_OK) {
			uint8_t hdr[LZMA_BLOCK_HEADER_SIZE_MAX];
			ret = lzma_block_header_encode(&c->block, hdr);
			if (ret == LZMA_OK) vbuf_append(out, hdr, c->block.header_size);
		}
		if (ret == LZMA_OK) ret = lzma_block_encoder(&strm, &c->block);
		break;
	}
	case EP_EASY_BUF: case EP_STREAM_BUF: case EP_RAW_BUF: case EP_BLOCK_BUF: {
		size_t bound = c->ep == EP_BLOCK_BUF ? lzma_block_buffer_bound(c->in.n)
				: lzma_stream_buffer_bound(c->in.n);
		if (c->ep == EP_RAW_BUF) bound = c->in.n + c->in.n / 8 + 65536;
		if (bound == 0) { snprintf(err, errsz, "bound(%zu) returned 0", c->in.n); return false; }
		vbuf_reserve(out, bound + 1);
		size_t pos = 0;
		if (c->ep == EP_EASY_BUF)
			ret = lzma_easy_buffer_encode(c->cfg.preset, c->cfg.check, NULL, c->in.p, c->in.n, out->p, &pos, bound);
		else if (c->ep == EP_STREAM_BUF)
			ret = lzma_stream_buffer_encode(c->cfg.filters, c->cfg.check, NULL, c->in.p, c->in.n, out->p, &pos, bound);
		else if (c->ep == EP_RAW_BUF)
			ret = lzma_raw_buffer_encode(c->cfg.filters, NULL, c->in.p, c->in.n, out->p, &pos, bound);
		else {
			memset(&c->block, 0, sizeof(c->block));
			c->block.version = 1; c->block.check = c->cfg.check; c->block.filters = c->cfg.filters;
			ret = lzma_block_buffer_encode(&c->block, NULL, c->in.p, c->in.n, out->p, &pos, bound);
		}
		out->n = pos;
		if (ret != LZMA_OK) { snprintf(err, errsz, "%s returned %s (in=%zu, bound=%zu)", ep_names[c->ep], lzma_ret_name(ret), c->in.n, bound); c->refused = c->maybe_invalid && (ret == LZMA_OPTIONS_ERROR || ret == LZMA_PROG_ERROR); return false; }
		return true;
	}
	}
	if (ret != LZMA_OK) { snprintf(err, errsz, "init of %s returned %s", ep_names[c->ep], lzma_ret_name(ret)); lzma_end(&strm); c->refused = c->maybe_invalid; return false; }
	unsigned nupd = 0;
	if (c->upd_lclppb && (c->ep == EP_RAW || c->ep == EP_BLOCK)) {
		lzma_filter uf[LZMA_FILTERS_MAX + 1]; memcpy(uf, c->cfg.filters, sizeof(uf));
		uf[c->cfg.nfilters - 1].options = &c->upd_opt[nupd++];
		ret = lzma_filters_update(&strm, uf);
		if (ret != LZMA_OK) { snprintf(err, errsz, "lzma_filters_update(lc/lp/pb) before the first input returned %s", lzma_ret_name(ret)); lzma_end(&strm); return false; }
	}

	slice_result sr;
	if (c->ep == EP_MICROLZMA) {
		// single call, LZMA_FINISH, output limited to out_limit
		uint8_t *ob = malloc(c->out_limit + 64);
		memset(ob, 0xEE, c->out_limit + 64);
		strm.next_in = c->in.p; strm.avail_in = c->in.n;
		strm.next_out = ob; strm.avail_out = c->out_limit;
		ret = lzma_code(&strm, LZMA_FINISH);
		bool ok = ret == LZMA_STREAM_END;
		if (!ok) snprintf(err, errsz, "microlzma lzma_code returned %s (limit %zu)", lzma_ret_name(ret), c->out_limit);
		else if (strm.total_out > c->out_limit) { ok = false; snprintf(err, errsz, "microlzma total_out %" PRIu64 " > limit %zu", strm.total_out, c->out_limit); }
		else {
			for (size_t i = c->out_limit; i < c->out_limit + 64; ++i) if (ob[i] != 0xEE) { ok = false; snprintf(err, errsz, "microlzma wrote past the limit"); }
			if (strm.total_in > c->in.n) { ok = false; snprintf(err, errsz, "microlzma total_in beyond input"); }
		}
		if (ok) { vbuf_append(out, ob, strm.total_out); *consumed = strm.total_in; }
		free(ob);
		lzma_end(&strm);
		return ok;
	}
	slice_plan p = c->enc_plan;
	p.final_action = LZMA_FINISH;
	p.timeout_coder = (c->ep == EP_STREAM_MT && c->timeout != 0);
	if (c->nflush) {
		size_t pos = 0;
		for (unsigned k = 0; k < c->nflush; ++k) {
			slice_plan q = p; q.final_action = c->flush_act[k]; q.seed = p.seed + k;
			slicer_run(&strm, c->in.p + pos, c->flush_at[k] - pos, out, &q, &sr);
			if (sr.protocol_violation) { snprintf(err, errsz, "encoder protocol (segment %u): %s", k, sr.why); lzma_end(&strm); return false; }
			if (sr.ret != LZMA_STREAM_END || sr.total_in != c->flush_at[k] - pos) {
				snprintf(err, errsz, "encoder %s: flush action %d after %zu input bytes ended with %s (segment consumed %" PRIu64 " of %zu)", ep_names[c->ep], (int)c->flush_act[k], c->flush_at[k], lzma_ret_name(sr.ret), sr.total_in, c->flush_at[k] - pos);
				lzma_end(&strm); return false;
			}
			pos = c->flush_at[k];
			if (c->upd_lclppb && c->flush_act[k] == LZMA_SYNC_FLUSH && nupd < 5) {
				lzma_filter uf[LZMA_FILTERS_MAX + 1]; memcpy(uf, c->cfg.filters, sizeof(uf));
				uf[c->cfg.nfilters - 1].options = &c->upd_opt[nupd++];
				lzma_ret ur = lzma_filters_update(&strm, uf);
				if (ur != LZMA_OK) { snprintf(err, errsz, "lzma_filters_update(lc/lp/pb) after SYNC_FLUSH at %zu returned %s", pos, lzma_ret_name(ur)); lzma_end(&strm); return false; }
			}
		}
		p.seed += 7;
		slicer_run(&strm, c->in.p + pos, c->in.n - pos, out, &p, &sr);
		sr.total_in += pos;
	} else
	slicer_run(&strm, c->in.p, c->in.n, out, &p, &sr);
	lzma_end(&strm);
	if (sr.protocol_violation) { snprintf(err, errsz, "encoder protocol: %s", sr.why); return false; }
	if (sr.ret != LZMA_STREAM_END) { snprintf(err, errsz, "encoder %s ended with %s after %" PRIu64 " calls (in %" PRIu64 "/%zu)", ep_names[c->ep], lzma_ret_name(sr.ret), sr.calls, sr.total_in, c->in.n); return false; }
	if (sr.total_in != c->in.n) { snprintf(err, errsz, "encoder consumed %" PRIu64 " of %zu", sr.total_in, c->in.n); return false; }
	(void)idx;
	return true;
}

static bool do_decode(rt_case *c, const vbuf *comp, size_t expect_n, vbuf *dec, char *err, size_t errsz)
{
	lzma_stream strm = LZMA_STREAM_INIT;
	lzma_ret ret;
	vbuf_clear(dec);
	const uint8_t *ip = comp->p; size_t in_n = comp->n;
	lzma_options_lzma lz;
	lzma_filter f[LZMA_FILTERS_MAX + 1];
	switch (c->ep) {
	case EP_ALONE:
		ret = lzma_alone_decoder(&strm, UINT64_MAX); break;
	case EP_RAW: case EP_RAW_BUF:
		memcpy(f, c->cfg.filters, sizeof(f));
		if (c->lzma1ext) {
			lz = c->cfg.lzma;
			bool eopm = (lz.ext_flags & LZMA_LZMA1EXT_ALLOW_EOPM) != 0;
			if (!eopm || c->ext_known) lzma_set_ext_size(lz, (uint64_t)expect_n);
			else lzma_set_ext_size(lz, UINT64_MAX);
			f[c->cfg.nfilters - 1].options = &lz;
		}
		ret = lzma_raw_decoder(&strm, f); break;
	case EP_MICROLZMA:
		ret = lzma_microlzma_decoder(&strm, comp->n, expect_n, true, c->cfg.lzma.dict_size); break;
	case EP_BLOCK: case EP_BLOCK_BUF: {
		// re-read the header like a real consumer would
		lzma_block b; memset(&b, 0, sizeof(b));
		lzma_filter bf[LZMA_FILTERS_MAX + 1];
		b.version = 1; b.check = c->cfg.check; b.filters = bf;
		if (comp->n < 1) { snprintf(err, errsz, "block output empty"); return false; }
		b.header_size = lzma_block_header_size_decode(comp->p[0]);
		if (b.header_size > comp->n) { snprintf(err, errsz, "block header size beyond output"); return false; }
		ret = lzma_block_header_decode(&b, NULL, comp->p);
		if (ret != LZMA_OK) { snprintf(err, errsz, "block_header_decode: %s", lzma_ret_name(ret)); return false; }
		ip += b.header_size; in_n -= b.header_size;
		ret = lzma_block_decoder(&strm, &b);
		if (ret != LZMA_OK) { lzma_filters_free(bf, NULL); snprintf(err, errsz, "block_decoder init: %s", lzma_ret_name(ret)); return false; }
		slice_result sr;
		slicer_run(&strm, ip, in_n, dec, &c->dec_plan, &sr);
		lzma_end(&strm);
		lzma_filters_free(bf, NULL);
		if (sr.protocol_violation) { snprintf(err, errsz, "decoder protocol: %s", sr.why); return false; }
		if (sr.ret != LZMA_STREAM_END) { snprintf(err, errsz, "block decoder ended with %s", lzma_ret_name(sr.ret)); return false; }
		if (sr.total_in != in_n) { snprintf(err, errsz, "block decoder consumed %" PRIu64 " of %zu", sr.total_in, in_n); return false; }
		return true;
	}
	default:
		ret = lzma_stream_decoder(&strm, UINT64_MAX, 0); break;
	}
	if (ret != LZMA_OK) { snprintf(err, errsz, "decoder init: %s", lzma_ret_name(ret)); return false; }
	slice_result sr;
	slicer_run(&strm, ip, in_n, dec, &c->dec_plan, &sr);
	lzma_end(&strm);
	if (sr.protocol_violation) { snprintf(err, errsz, "decoder protocol: %s", sr.why); return false; }
	if (sr.ret != LZMA_STREAM_END) { snprintf(err, errsz, "decoder ended with %s after %" PRIu64 "/%zu bytes, out %zu", lzma_ret_name(sr.ret), sr.total_in, in_n, dec->n); return false; }
	if (sr.total_in != in_n) { snprintf(err, errsz, "decoder consumed %" PRIu64 " of %zu", sr.total_in, in_n); return false; }
	return true;
}

#ifdef WITH_REFDEC
// C02: judge the encoder's output with the independent decoder + field checker.
static bool refdec_audit(rt_case *c, const vbuf *comp, size_t consumed, uint64_t idx)
{
	rd_result R; memset(&R, 0, sizeof(R));
	size_t limit = consumed + 4096;
	char key[200];
	const char *ep = ep_names[c->ep];
	bool ok = true;
	switch (c->ep) {
	case EP_ALONE: rd_alone_decode(comp->p, comp->n, limit, &R); break;
	case EP_BLOCK: case EP_BLOCK_BUF: rd_block_decode(comp->p, comp->n, (unsigned)c->cfg.check, limit, &R); break;
	case EP_RAW: case EP_RAW_BUF: case EP_MICROLZMA: {
		rd_filter f[4]; unsigned nf = 0; bool conv_ok = true;
		vbuf tmp = {0};
		const uint8_t *ip = comp->p; size_t in_n = comp->n;
		uint64_t known = UINT64_MAX; bool allow_eopm = true;
		if (c->ep == EP_MICROLZMA) {
			if (comp->n < 1) { rd_result_free(&R); return true; }
			uint8_t props = (uint8_t)~comp->p[0];
			f[0].id = RD_FILTER_LZMA1; f[0].props[0] = props;
			for (int i = 0; i < 4; ++i) f[0].props[1 + i] = (uint8_t)(c->cfg.lzma.dict_size >> (8 * i));
			f[0].props_len = 5; nf = 1;
			vbuf_append(&tmp, comp->p, comp->n); tmp.p[0] = 0x00; ip = tmp.p;
			known = consumed; allow_eopm = false;
			// the properties byte must be the one the options ask for
			uint8_t want = (uint8_t)((c->cfg.lzma.pb * 5 + c->cfg.lzma.lp) * 9 + c->cfg.lzma.lc);
			if (props != want) { hx_violation("C02", "microlzma-props-byte", idx, "first byte encodes props %u, options say %u", props, want); ok = false; }
		} else {
			for (unsigned i = 0; i < c->cfg.nfilters && conv_ok; ++i) {
				uint32_t sz = 0;
				lzma_filter lf = c->cfg.filters[i];
				if (lf.id == LZMA_FILTER_LZMA1EXT) lf.id = LZMA_FILTER_LZMA1;
				if (lzma_properties_size(&sz, &lf) != LZMA_OK || sz > 16) { conv_ok = false; break; }
				f[nf].id = lf.id == LZMA_FILTER_LZMA1 ? RD_FILTER_LZMA1 : (uint64_t)lf.id;
				f[nf].props_len = sz;
				if (sz && lzma_properties_encode(&lf, f[nf].props) != LZMA_OK) { conv_ok = false; break; }
				++nf;
			}
			if (c->lzma1ext) {
				bool eopm = (c->cfg.lzma.ext_flags & LZMA_LZMA1EXT_ALLOW_EOPM) != 0;
				if (!eopm) { known = consumed; allow_eopm = false; }
			}
		}
		if (!conv_ok) { vbuf_free(&tmp); rd_result_free(&R); return true; }
		rd_raw_decode(f, nf, ip, in_n, known, allow_eopm, c->cfg.lzma.preset_dict, c->cfg.lzma.preset_dict_size, limit, &R);
		vbuf_free(&tmp);
		break;
	}
	default: rd_xz_decode(comp->p, comp->n, 0, limit, &R); break;
	}
	hx_eval();
	if (R.status != RD_OK) {
		snprintf(key, sizeof(key), "refdec-rejects-encoder-output|%s", ep);
		hx_violation("C02", key, idx, "independent decoder: %s at offset %zu: %s; cfg=%s size=%zu comp=%zu", rd_status_name(R.status), R.err_offset, R.why, c->cfg.desc, c->in.n, comp->n);
		ok = false;
	} else {
		if (R.out_len != consumed || (consumed && memcmp(R.out, c->in.p, consumed))) {
			snprintf(key, sizeof(key), "refdec-output-differs|%s", ep);
			hx_violation("C02", key, idx, "independent decoder recovers %zu bytes, input was %zu; cfg=%s", R.out_len, consumed, c->cfg.desc);
			ok = false;
		}
		if (R.consumed != comp->n) {
			snprintf(key, sizeof(key), "trailing-or-unconsumed-bytes|%s", ep);
			hx_violation("C02", key, idx, "independent decoder consumed %zu of %zu output bytes; cfg=%s", R.consumed, comp->n, c->cfg.desc);
			ok = false;
		}
		if (R.relaxation_zone) {
			snprintf(key, sizeof(key), "match-beyond-declared-dictionary|%s", ep);
			hx_violation("C02", key, idx, "a match reaches farther back than the declared dictionary size; cfg=%s", c->cfg.desc);
			ok = false;
		}
		for (size_t b = 0; b < R.nblocks && ok; ++b) {
			const rd_block *B = &R.blocks[b];
			if (B->max_distance_used > B->dict_size_declared && B->dict_size_declared != 0) {
				snprintf(key, sizeof(key), "match-beyond-declared-dictionary|%s", ep);
				hx_violation("C02", key, idx, "block %zu: max distance %" PRIu64 " > declared dictionary %u; cfg=%s", b, B->max_distance_used, B->dict_size_declared, c->cfg.desc);
				ok = false;
			}
			bool lzma2 = B->nfilters && B->filters[B->nfilters - 1].id == RD_FILTER_LZMA2;
			if (lzma2 && (!B->chunk_order_ok || !B->end_marker_seen || (!B->first_chunk_resets_dict && c->cfg.lzma.preset_dict == NULL))) {
				snprintf(key, sizeof(key), "lzma2-chunk-order|%s", ep);
				hx_violation("C02", key, idx, "block %zu: chunk order ok=%d end marker=%d first chunk resets dict=%d; cfg=%s", b, B->chunk_order_ok, B->end_marker_seen, B->first_chunk_resets_dict, c->cfg.desc);
				ok = false;
			}
			if (B->chunks_uncompressed) hx_count("blocks_with_uncompressed_chunks", 1);
			if (B->chunks > 1) hx_count("blocks_multi_chunk", 1);
			if (B->has_comp_size) hx_count("blocks_with_size_fields", 1);
		}
		hx_count("refdec_blocks_audited", R.nblocks);
		hx_count("refdec_fields_audited", R.nfields);
		hx_count("refdec_streams_ok", 1);
		if (is_xz(c->ep) && R.nstreams == 1) { char nm[40]; snprintf(nm, sizeof(nm), "refdec_check_%u", R.streams[0].check_id); hx_count(nm, 1); if (c->ep == EP_STREAM_MT) hx_count("refdec_mt_streams", 1); else hx_count("refdec_st_streams", 1); }
	}
	rd_result_free(&R);
	return ok;
}

// bound guarantee: out_size = bound(n) must never be too small
// The *_buffer_bound() functions are pure arithmetic: over the whole size_t range a bound is either 0 ("too big to
// encode in one call") or large enough for the data stored uncompressed plus the container, never smaller than the
// input, and never decreasing when the input grows (checked on sizes that no run could ever encode for real).
static void c02bound_arith_case(uint64_t idx)
{
	vrng r; vrng_init(&r, A.seed, 0xC02A, idx, 0);
	hx_case_begin(idx);
	static const uint64_t marks[] = { UINT64_C(1) << 16, UINT64_C(1) << 21, UINT64_C(1) << 31, UINT64_C(1) << 32, (UINT64_C(1) << 32) - (192u << 10), UINT64_C(3) << 31, UINT64_C(1) << 33, UINT64_C(1) << 40, UINT64_C(1) << 62, (UINT64_C(1) << 63) - 1 };
	for (unsigned q = 0; q < 400; ++q) {
		uint64_t n = vrng_chance(&r, 1, 2) ? marks[vrng_below(&r, 10)] + vrng_below(&r, 300000) - 150000 : (vrng_u64(&r) >> vrng_below(&r, 50));
		if (sizeof(size_t) < 8 && n > SIZE_MAX) n = SIZE_MAX - vrng_below(&r, 1000);
		uint64_t step = 1 + vrng_below(&r, 70000);
		size_t bb = lzma_block_buffer_bound((size_t)n), sb = lzma_stream_buffer_bound((size_t)n);
		size_t bb2 = n + step > n && n + step <= SIZE_MAX ? lzma_block_buffer_bound((size_t)(n + step)) : 0;
		hx_eval();
		if ((bb != 0 && bb < n) || (sb != 0 && sb < n) || (sb != 0 && bb != 0 && sb < bb) || (bb != 0 && bb2 != 0 && bb2 < bb) || (bb == 0 && bb2 != 0) || (bb != 0 && sb == 0 && n < (UINT64_C(1) << 40))) {
			hx_violation("C02", "bound-arithmetic", idx, "n=%" PRIu64 ": lzma_block_buffer_bound=%zu lzma_stream_buffer_bound=%zu, block bound for n+%" PRIu64 " = %zu (a bound is 0 or at least the input size, the stream bound covers the block bound, bounds never decrease)", n, bb, sb, step, bb2);
			break;
		}
	}
	hx_count("bound_arithmetic_probes", 400);
}

static void c02bound_case(uint64_t idx)
{
	if (idx % 10 == 3) { c02bound_arith_case(idx); return; }
	vrng r; vrng_init(&r, A.seed, 0xC02B, idx, 0);
	hx_case_begin(idx);
	static const size_t base[] = { 0, 1, 2, 65535, 65536, 65537, 2u << 20, 4u << 20 };
	size_t n = base[vrng_below(&r, 8)];
	unsigned k = vrng_below(&r, 6);
	if (k == 0) n = 65536 * (1 + vrng_below(&r, 40));
	else if (k == 1) n = (2u << 20) * (1 + vrng_below(&r, 3));
	else if (k == 2) n = vrng_logsize(&r, 5u << 20);
	int d = (int)vrng_below(&r, 5) - 2; if ((long)n + d >= 0) n = (size_t)((long)n + d);
	if (!A.thorough && n > (3u << 20)) n = (3u << 20) + vrng_below(&r, 5);
	vbuf in = {0}; gen_data(&r, &in, n, vrng_chance(&r, 3, 4) ? GD_RANDOM : -1, 4096);
	unsigned which = vrng_below(&r, 3);
	lzma_check check = gen_check(&r);
	vcfg cfg; gen_cfg(&r, &cfg, VCFG_XZ, 1u << 20);
	// fast settings: the bound does not depend on them
	if (!cfg.from_preset) { cfg.lzma.mode = LZMA_MODE_FAST; cfg.lzma.mf = LZMA_MF_HC3; cfg.lzma.depth = 4; if (cfg.lzma.nice_len > 32) cfg.lzma.nice_len = 32; }
	size_t bound = which == 2 ? lzma_block_buffer_bound(n) : lzma_stream_buffer_bound(n);
	lzma_ret ret = LZMA_OK; size_t pos = 0;
	static const char *const wn[] = { "stream_buffer", "easy_buffer", "block_buffer" };
	if (bound == 0) hx_violation("C02", "bound-returned-zero", idx, "%s bound(%zu) = 0", wn[which], n);
	else {
		uint8_t *out = malloc(bound);
		lzma_block b; memset(&b, 0, sizeof(b));
		if (which == 0) ret = lzma_stream_buffer_encode(cfg.filters, check, NULL, in.p, n, out, &pos, bound);
		else if (which == 1) ret = lzma_easy_buffer_encode(vrng_below(&r, 3), check, NULL, in.p, n, out, &pos, bound);
		else { b.version = 1; b.check = check; b.filters = cfg.filters; ret = lzma_block_buffer_encode(&b, NULL, in.p, n, out, &pos, bound); }
		if (ret != LZMA_OK) {
			char key[100]; snprintf(key, sizeof(key), "bound-too-small|%s", wn[which]);
			hx_violation("C02", key, idx, "%s with out_size = bound(%zu) = %zu returned %s; cfg=%s", wn[which], n, bound, lzma_ret_name(ret), cfg.desc);
		} else if (pos > bound) hx_violation("C02", "bound-exceeded", idx, "wrote %zu > bound %zu", pos, bound);
		free(out);
	}
	hx_eval(); hx_count("bound_cases", 1);
	if (pos >= n && n) hx_count("bound_cases_incompressible", 1);
	hx_sample("c02bound %s n=%zu bound=%zu used=%zu", wn[which], n, bound, pos);
	hx_distinct(vhash(&n, sizeof(n), vhash(&which, sizeof(which), VHASH_INIT)), n > 0);
	vbuf_free(&in); vcfg_free(&cfg);
}
#endif

static void gen_case(rt_case *c, vrng *r, uint64_t idx)
{
	memset(c, 0, sizeof(*c));
	(void)idx;
	// entry point: weight the streaming encoders
	static const uint8_t epw[] = { EP_EASY, EP_STREAM, EP_STREAM, EP_STREAM, EP_STREAM_MT, EP_STREAM_MT,
		EP_ALONE, EP_ALONE, EP_RAW, EP_RAW, EP_RAW, EP_MICROLZMA, EP_MICROLZMA, EP_BLOCK,
		EP_EASY_BUF, EP_STREAM_BUF, EP_BLOCK_BUF, EP_RAW_BUF };
	c->ep = epw[vrng_below(r, sizeof(epw))];
	if (A.extra[0]) for (int e = 0; e < EP_COUNT; ++e) if (!strcmp(A.extra, ep_names[e])) c->ep = e;
	uint32_t max_dict = vrng_chance(r, 1, 40) ? (A.thorough ? (256u << 20) : (64u << 20)) : (vrng_chance(r, 1, 5) ? (16u << 20) : (1u << 20));
	unsigned flags = 0;
	switch (c->ep) {
	case EP_EASY: case EP_EASY_BUF: flags = 0; break;
	case EP_STREAM: case EP_STREAM_BUF: case EP_STREAM_MT: case EP_BLOCK: case EP_BLOCK_BUF: flags = VCFG_XZ; break;
	case EP_ALONE: case EP_MICROLZMA: flags = VCFG_ONLY_LZMA1; break;
	case EP_RAW: case EP_RAW_BUF: flags = VCFG_XZ | VCFG_ALLOW_LZMA1 | VCFG_ALLOW_PRESETD | VCFG_LZMA1EXT; break;
	}
	gen_cfg(r, &c->cfg, flags, max_dict);
	if (c->ep == EP_EASY || c->ep == EP_EASY_BUF) {
		c->cfg.preset = vrng_below(r, 10) | (vrng_chance(r, 1, 3) ? LZMA_PRESET_EXTREME : 0);
		if (!A.thorough && (c->cfg.preset & 0x1F) > 6 && vrng_chance(r, 3, 4)) c->cfg.preset = (c->cfg.preset & ~0x1Fu) | vrng_below(r, 7);
		c->cfg.from_preset = true;
		lzma_lzma_preset(&c->cfg.lzma, c->cfg.preset);
		snprintf(c->cfg.desc, sizeof(c->cfg.desc), "preset=%u%s,check=%d", c->cfg.preset & 0x1F, (c->cfg.preset & LZMA_PRESET_EXTREME) ? "e" : "", (int)c->cfg.check);
	}
	if (c->ep == EP_STREAM_MT && c->cfg.from_preset && c->cfg.nfilters != 1) c->cfg.from_preset = false;
	c->lzma1ext = c->cfg.filters[c->cfg.nfilters - 1].id == LZMA_FILTER_LZMA1EXT;
	c->ext_known = vrng_chance(r, 1, 2);
	// input
	size_t maxsize = A.thorough ? (8u << 20) : (512u << 10);
	if (vrng_chance(r, 3, 4)) maxsize = 70000;
	size_t size = gen_size(r, maxsize);
	// make dictionary wrap / window slide likely: sometimes size >> dict
	if (!c->cfg.from_preset && c->cfg.lzma.dict_size <= 65536 && vrng_chance(r, 1, 2) && size < 3 * (size_t)c->cfg.lzma.dict_size)
		size = c->cfg.lzma.dict_size * 2 + vrng_below(r, c->cfg.lzma.dict_size * 2);
	// window slide needs input > dict + ~512 KiB reserve: a few big cases
	if (vrng_chance(r, 1, 25) && c->ep != EP_MICROLZMA) {
		size = (600u << 10) + vrng_below(r, 1u << 20);
		if (!c->cfg.from_preset && c->cfg.lzma.dict_size > 65536) c->cfg.lzma.dict_size = 4096u << vrng_below(r, 5);
	}
	// LZMA2 chunk-size limits: a few inputs of several MiB that compress extremely well (one chunk holds at most
	// 2 MiB uncompressed; the last match before the limit must not cross it whatever nice_len is)
	bool huge_compressible = vrng_chance(r, 1, 60) && c->ep != EP_MICROLZMA && !(c->cfg.from_preset && (c->cfg.preset & 0x1F) > 6);
	if (huge_compressible) size = (2u << 20) + vrng_below(r, 3u << 20) + vrng_below(r, 64);
	c->kind = gen_data(r, &c->in, size, vrng_chance(r, 1, 30) ? GD_EMPTY : -1, c->cfg.lzma.dict_size);
	if (huge_compressible) {
		// overwrite with zeros / a short period (ratio far above 32:1)
		unsigned period = vrng_chance(r, 1, 2) ? 1 : 2 + vrng_below(r, 40);
		uint8_t pat[64]; vrng_fill(r, pat, sizeof(pat)); if (period == 1) pat[0] = 0;
		for (size_t i = 0; i < c->in.n; ++i) c->in.p[i] = pat[i % period];
		c->kind = GD_RUNS;
	}
	// chains with a BCJ filter: half of the inputs are code-like and end exactly at an instruction that the
	// (first) BCJ filter converts, so that the filters' end-of-stream handling is exercised
	for (unsigned fi = 0; fi + 1 < c->cfg.nfilters; ++fi) {
		lzma_vli id = c->cfg.filters[fi].id;
		if (id >= LZMA_FILTER_X86 && id <= LZMA_FILTER_RISCV && c->in.n >= 16 && !huge_compressible && vrng_chance(r, 1, 2)) {
			vbuf code = {0};
			gen_data(r, &code, c->in.n, id == LZMA_FILTER_X86 ? GD_CODE_X86 : GD_CODE_FIXED32, 0);
			memcpy(c->in.p, code.p, c->in.n); vbuf_free(&code);
			gen_tail_insn(r, id, c->in.p, c->in.n);
			c->kind = id == LZMA_FILTER_X86 ? GD_CODE_X86 : GD_CODE_FIXED32;
			break;
		}
	}
	slice_plan_random(r, &c->enc_plan);
	slice_plan_random(r, &c->dec_plan);
	if (c->in.n > 200000) { // keep 1-byte slicing for small inputs
		if (c->enc_plan.mode == SL_ONEBYTE || c->enc_plan.mode == SL_ONEOUT || c->enc_plan.mode == SL_ONEIN) c->enc_plan.mode = SL_RANDOM;
		if (c->dec_plan.mode == SL_ONEBYTE || c->dec_plan.mode == SL_ONEOUT || c->dec_plan.mode == SL_ONEIN) c->dec_plan.mode = SL_RANDOM;
		if (c->enc_plan.max_in < 100) c->enc_plan.max_in = 8192;
		if (c->enc_plan.max_out < 100) c->enc_plan.max_out = 8192;
		if (c->dec_plan.max_in < 100) c->dec_plan.max_in = 8192;
		if (c->dec_plan.max_out < 100) c->dec_plan.max_out = 8192;
	}
	c->threads = 1 + vrng_below(r, 8);
	static const uint64_t bs[] = { 0, 4096, 4097, 8192, 30000, 65536, 100000, 1u << 20 };
	c->block_size = bs[vrng_below(r, 8)];
	if (c->block_size == 0 && c->cfg.lzma.dict_size > (4u << 20)) c->block_size = 1u << 20;
	c->timeout = vrng_chance(r, 1, 2) ? 0 : (vrng_chance(r, 1, 2) ? 1 : 20);
	static const size_t lims[] = { 6, 7, 8, 16, 64, 300, 4096, 65536 };
	c->out_limit = lims[vrng_below(r, 8)] + (vrng_chance(r, 1, 2) ? vrng_below(r, 50) : 0);
	// bias: a third of the cases (single-threaded builds of the coder state)
	if (vrng_chance(r, 1, 3) && c->in.n > 16) {
		// normalisation after k bytes: offset = cyclic_size + bias, fires at
		// read_pos + offset == UINT32_MAX. cyclic_size = dict_size + 1.
		uint32_t cyc = c->cfg.lzma.dict_size + 1;
		uint32_t k = 1 + (uint32_t)vrng_below64(r, c->in.n);
		if (vrng_chance(r, 1, 3)) k = 1 + vrng_below(r, 600);
		c->bias = UINT32_MAX - cyc - k;
	}
}

static void gen_flush_script(rt_case *c, vrng *r, bool want_update);

// Push one option just outside the documented domain (see rt_case.maybe_invalid).
static void tweak_invalid(rt_case *c, vrng *r)
{
	if (c->cfg.from_preset || c->ep == EP_EASY || c->ep == EP_EASY_BUF) return;
	lzma_options_lzma *o = &c->cfg.lzma;
	char what[60];
	switch (vrng_below(r, 8)) {
	case 0: { static const uint32_t ds[] = { 0, 1, 255, 256, 1024, 3000, 4095 }; o->dict_size = ds[vrng_below(r, 7)]; snprintf(what, sizeof(what), "dict_size=%u", o->dict_size); break; }
	case 1: o->lc = 4; o->lp = 1 + vrng_below(r, 4); snprintf(what, sizeof(what), "lc=4,lp=%u", o->lp); break;
	case 2: o->pb = 5 + vrng_below(r, 3); snprintf(what, sizeof(what), "pb=%u", o->pb); break;
	case 3: { static const uint32_t nl[] = { 0, 1, 274, 1000 }; o->nice_len = nl[vrng_below(r, 4)]; snprintf(what, sizeof(what), "nice_len=%u", o->nice_len); break; }
	case 4: o->mode = vrng_chance(r, 1, 2) ? 0 : 3; snprintf(what, sizeof(what), "mode=%d", (int)o->mode); break;
	case 5: { static const int mfs[] = { 0x00, 0x02, 0x05, 0x10, 0x11, 0x15 }; o->mf = mfs[vrng_below(r, 6)]; snprintf(what, sizeof(what), "mf=0x%x", (unsigned)o->mf); break; }
	case 6: o->lp = 5; o->lc = 0; snprintf(what, sizeof(what), "lp=5"); break;
	default: {
		bool done = false;
		for (unsigned i = 0; i < c->cfg.nfilters && !done; ++i) if (c->cfg.filters[i].id == LZMA_FILTER_DELTA) {
			lzma_options_delta *d = c->cfg.filters[i].options; d->dist = vrng_chance(r, 1, 2) ? 0 : 257; snprintf(what, sizeof(what), "delta.dist=%u", d->dist); done = true;
		}
		if (!done) { o->dict_size = 4095; snprintf(what, sizeof(what), "dict_size=4095"); }
		break;
	}
	}
	c->maybe_invalid = true;
	size_t l = strlen(c->cfg.desc);
	snprintf(c->cfg.desc + l, sizeof(c->cfg.desc) - l, ",~outside-domain:%s", what);
}

static void run_case(uint64_t idx)
{
	vrng r; vrng_init(&r, A.seed, 0xC01, idx, 0);
	rt_case c; gen_case(&c, &r, idx);
	// a quarter of the streaming cases carry a flush script (several Blocks, sync-flushed chunks), half of those with
	// lc/lp/pb updates; one case in 25 uses a configuration just outside the documented domain
	if ((c.ep == EP_EASY || c.ep == EP_STREAM || c.ep == EP_STREAM_MT || c.ep == EP_RAW || c.ep == EP_BLOCK) && vrng_chance(&r, 1, 4))
		gen_flush_script(&c, &r, vrng_chance(&r, 1, 2));
	if (vrng_chance(&r, 1, 25)) { tweak_invalid(&c, &r); if (c.maybe_invalid) c.bias = 0; }
	// an eighth of the streaming cases encode on a handle that was such an encoder before and was abandoned in the
	// middle of a full flush (re-initialised without lzma_end)
	if (vrng_chance(&r, 1, 8) && !c.maybe_invalid) { c.second_life = true; }
	hx_case_begin(idx);
	if (c.second_life && (c.ep == EP_EASY || c.ep == EP_STREAM || c.ep == EP_STREAM_MT || c.ep == EP_ALONE || c.ep == EP_RAW)) hx_count("second_life_cases", 1);
	char err[400] = "";
	vbuf comp = {0}, comp2 = {0}, dec = {0};
	size_t consumed = 0;
	uint64_t norm0 = visit(VERIF_D_LZ_ENC, VERIF_LZE_NORMALIZE);
	uint64_t mw0 = visit(VERIF_D_LZ_ENC, VERIF_LZE_MOVE_WINDOW);
	uint64_t inc0 = visit(VERIF_D_MT_ENC, VERIF_MTE_INCOMPRESSIBLE);
	hx_sample("ep=%s cfg=%s kind=%s size=%zu enc=%s/%zu/%zu dec=%s/%zu/%zu bias=%u threads=%u bs=%" PRIu64 " limit=%zu",
			ep_names[c.ep], c.cfg.desc, gd_names[c.kind], c.in.n, slice_mode_name(c.enc_plan.mode), c.enc_plan.max_in, c.enc_plan.max_out,
			slice_mode_name(c.dec_plan.mode), c.dec_plan.max_in, c.dec_plan.max_out, c.bias, c.threads, c.block_size, c.out_limit);
	lzma_verif_mf_offset_bias = 0;
	bool ok = do_encode(&c, idx, &comp, &consumed, err, sizeof(err));
	hx_eval();
	char key[200];
	if (!ok && c.refused) { hx_count("outside_domain_refused", 1); goto done; }
	if (c.maybe_invalid && ok) hx_count("outside_domain_accepted", 1);
	if (!ok) {
		snprintf(key, sizeof(key), "encode-failed|%s", ep_names[c.ep]);
		hx_violation(PROP, key, idx, "%s; cfg=%s kind=%s size=%zu script:%s", err, c.cfg.desc, gd_names[c.kind], c.in.n, c.fdesc[0] ? c.fdesc : " none");
		goto done;
	}
	if (c.bias) {
		size_t consumed2 = 0;
		lzma_verif_mf_offset_bias = c.bias;
		bool ok2 = do_encode(&c, idx, &comp2, &consumed2, err, sizeof(err));
		lzma_verif_mf_offset_bias = 0;
		hx_eval();
		uint64_t nn = visit(VERIF_D_LZ_ENC, VERIF_LZE_NORMALIZE) - norm0;
		hx_count("normalizations", nn);
		if (nn) hx_count("cases_with_normalization", 1);
		if (!ok2) {
			snprintf(key, sizeof(key), "encode-failed-biased|%s", ep_names[c.ep]);
			hx_violation(PROP, key, idx, "%s; bias=%u cfg=%s size=%zu", err, c.bias, c.cfg.desc, c.in.n);
			goto done;
		}
		// MT output is deterministic too (C06), so compare for all
		if (comp.n != comp2.n || consumed != consumed2 || (comp.n && memcmp(comp.p, comp2.p, comp.n) != 0)) {
			snprintf(key, sizeof(key), "bias-changes-output|%s", ep_names[c.ep]);
			hx_violation(PROP, key, idx, "output with mf offset bias %u differs from unbiased output (%zu vs %zu bytes, %" PRIu64 " normalizations); cfg=%s size=%zu",
					c.bias, comp2.n, comp.n, nn, c.cfg.desc, c.in.n);
			goto done;
		}
		// decode the biased one (identical anyway)
	}
#ifdef WITH_REFDEC
	if (!strcmp(PROP, "C02")) (void)refdec_audit(&c, &comp, consumed, idx);
#endif
	ok = do_decode(&c, &comp, consumed, &dec, err, sizeof(err));
	hx_eval();
	if (!ok) {
		snprintf(key, sizeof(key), "decode-failed|%s", ep_names[c.ep]);
		hx_violation(PROP, key, idx, "%s; cfg=%s kind=%s size=%zu comp=%zu script:%s", err, c.cfg.desc, gd_names[c.kind], c.in.n, comp.n, c.fdesc[0] ? c.fdesc : " none");
		goto done;
	}
	if (dec.n != consumed || (consumed && memcmp(dec.p, c.in.p, consumed) != 0)) {
		size_t at = 0; while (at < dec.n && at < consumed && dec.p[at] == c.in.p[at]) ++at;
		snprintf(key, sizeof(key), "roundtrip-mismatch|%s", ep_names[c.ep]);
		hx_violation(PROP, key, idx, "decoded %zu bytes, expected %zu, first difference at %zu; cfg=%s kind=%s", dec.n, consumed, at, c.cfg.desc, gd_names[c.kind]);
		goto done;
	}
	{
		char nm[64];
		snprintf(nm, sizeof(nm), "ep_%s", ep_names[c.ep]); hx_count(nm, 1);
		if (!c.cfg.from_preset) { snprintf(nm, sizeof(nm), "mf_0x%x", (unsigned)c.cfg.lzma.mf); hx_count(nm, 1); }
		snprintf(nm, sizeof(nm), "check_%d", (int)c.cfg.check); if (is_xz(c.ep)) hx_count(nm, 1);
		hx_count("bytes_in", c.in.n);
		hx_count("bytes_comp", comp.n);
		uint64_t mw = visit(VERIF_D_LZ_ENC, VERIF_LZE_MOVE_WINDOW) - mw0;
		if (mw) hx_count("cases_window_moved", 1);
		if (c.in.n > c.cfg.lzma.dict_size) hx_count("cases_dict_wrapped", 1);
		if (c.in.n > (2u << 20)) hx_count("cases_over_chunk_limit", 1);
		if (visit(VERIF_D_MT_ENC, VERIF_MTE_INCOMPRESSIBLE) > inc0) hx_count("cases_mt_incompressible", 1);
		if (c.ep == EP_MICROLZMA && consumed < c.in.n) hx_count("microlzma_truncated", 1);
		bool nontrivial = c.in.n >= 2 && comp.n > 0;
		uint64_t h = vhash(c.in.p, c.in.n, VHASH_INIT);
		h = vhash(c.cfg.desc, strlen(c.cfg.desc), h); h = vhash(&c.ep, sizeof(c.ep), h);
		hx_distinct(h, nontrivial);
	}
done:
	vbuf_free(&comp); vbuf_free(&comp2); vbuf_free(&dec); vbuf_free(&c.in); vcfg_free(&c.cfg);
}

// C06 (encoder half): same data + same options => identical bytes, whatever
// the slicing, thread count, timeout, or textual-vs-struct filter chain.
// Flush script: the same flush actions at the same input offsets in every run of the case. want_update adds an
// lc/lp/pb change after every completed sync flush (and before the first input for raw/Block encoders).
static void gen_flush_script(rt_case *c, vrng *r, bool want_update)
{
	c->nflush = 0; c->fdesc[0] = 0; c->upd_lclppb = false;
	bool sync_ok = true, last_lzma2 = c->ep == EP_EASY || c->cfg.filters[c->cfg.nfilters - 1].id == LZMA_FILTER_LZMA2;
	// LZMA_SYNC_FLUSH is honoured by LZMA2 and delta only (LZMA1 and the BCJ filters refuse it: C12's subject)
	if (c->ep != EP_EASY)
		for (unsigned i = 0; i < c->cfg.nfilters; ++i) {
			lzma_vli id = c->cfg.filters[i].id;
			if (id != LZMA_FILTER_LZMA2 && id != LZMA_FILTER_DELTA) sync_ok = false;
		}
	lzma_action acts[3]; unsigned na = 0;
	if ((c->ep == EP_EASY || c->ep == EP_STREAM || c->ep == EP_RAW || c->ep == EP_BLOCK) && sync_ok) acts[na++] = LZMA_SYNC_FLUSH;
	if (c->ep == EP_EASY || c->ep == EP_STREAM || c->ep == EP_STREAM_MT) { acts[na++] = LZMA_FULL_FLUSH; acts[na++] = LZMA_FULL_BARRIER; }
	size_t w = 0;
	if (na && c->in.n > 0) {
		c->nflush = 1 + vrng_below(r, 3);
		size_t early = c->in.n < 6000 ? c->in.n : 6000;
		for (unsigned k = 0; k < c->nflush; ++k) c->flush_at[k] = vrng_chance(r, 3, 5) ? (size_t)vrng_below64(r, early + 1) : (size_t)vrng_below64(r, c->in.n + 1);
		for (unsigned i = 0; i < c->nflush; ++i) for (unsigned j = i + 1; j < c->nflush; ++j) if (c->flush_at[j] < c->flush_at[i]) { size_t t = c->flush_at[i]; c->flush_at[i] = c->flush_at[j]; c->flush_at[j] = t; }
		for (unsigned k = 0; k < c->nflush; ++k) {
			c->flush_act[k] = acts[vrng_below(r, na)];
			if (acts[0] == LZMA_SYNC_FLUSH && vrng_chance(r, 1, 2)) c->flush_act[k] = LZMA_SYNC_FLUSH;
			if (w < sizeof(c->fdesc) - 40) w += (size_t)snprintf(c->fdesc + w, sizeof(c->fdesc) - w, " %s@%zu", c->flush_act[k] == LZMA_SYNC_FLUSH ? "sync" : c->flush_act[k] == LZMA_FULL_FLUSH ? "full" : "barrier", c->flush_at[k]);
		}
		hx_count("flush_script_cases", 1);
		if (c->flush_at[0] < 4400) hx_count("flush_script_early", 1);
	}
	// the struct-form chain must be in use (EP_EASY and preset-form MT take a preset number) and carry no preset
	// dictionary (it cannot be changed by an update)
	if (want_update && last_lzma2 && sync_ok && c->ep != EP_EASY && c->ep != EP_STREAM_MT && c->cfg.lzma.preset_dict == NULL
			&& (c->ep == EP_RAW || c->ep == EP_BLOCK || c->ep == EP_STREAM)) {
		bool any_sync = false; for (unsigned k = 0; k < c->nflush; ++k) if (c->flush_act[k] == LZMA_SYNC_FLUSH) any_sync = true;
		if (any_sync || c->ep == EP_RAW || c->ep == EP_BLOCK) {
			c->upd_lclppb = true;
			for (unsigned u = 0; u < 5; ++u) {
				c->upd_opt[u] = c->cfg.lzma;
				c->upd_opt[u].lc = vrng_below(r, 5); c->upd_opt[u].lp = vrng_below(r, 5 - c->upd_opt[u].lc); c->upd_opt[u].pb = vrng_below(r, 5);
			}
			if (w < sizeof(c->fdesc) - 60) w += (size_t)snprintf(c->fdesc + w, sizeof(c->fdesc) - w, " +lc/lp/pb updates (first lc%u lp%u pb%u)", c->upd_opt[0].lc, c->upd_opt[0].lp, c->upd_opt[0].pb);
			hx_count("lclppb_update_cases", 1);
		}
	}
}

static void c06enc_case(uint64_t idx)
{
	vrng r; vrng_init(&r, A.seed, 0xC06E, idx, 0);
	rt_case c; gen_case(&c, &r, idx);
	c.bias = 0;
	hx_case_begin(idx);
	if (vrng_chance(&r, 1, 2) && !c.cfg.from_preset && c.in.n > 0) {
		// the shape that makes an optimal parser's look-ahead matter: normal mode, moderate nice_len,
		// word-chain text with long verbatim copies
		c.cfg.lzma.mode = LZMA_MODE_NORMAL; c.cfg.lzma.nice_len = 8 + vrng_below(&r, 120);
		if (c.cfg.lzma.nice_len < (c.cfg.lzma.mf & 0x0F)) c.cfg.lzma.nice_len = c.cfg.lzma.mf & 0x0F;
		size_t n = 30000 + vrng_below(&r, 200000);
		gen_data(&r, &c.in, n, GD_MARKOV, 0); c.kind = GD_MARKOV;
		snprintf(c.cfg.desc + strlen(c.cfg.desc), sizeof(c.cfg.desc) - strlen(c.cfg.desc), ",->normal,nice=%u", c.cfg.lzma.nice_len);
	}
	switch (c.ep) {
	case EP_MICROLZMA: c.ep = EP_ALONE; break;
	case EP_EASY_BUF: c.ep = EP_EASY; break;
	case EP_STREAM_BUF: c.ep = vrng_chance(&r, 1, 2) ? EP_STREAM : EP_STREAM_MT; break;
	case EP_BLOCK_BUF: c.ep = EP_BLOCK; break;
	case EP_RAW_BUF: c.ep = EP_RAW; break;
	default: break;
	}
	if (c.ep == EP_STREAM_MT && c.cfg.from_preset && c.cfg.nfilters != 1) c.cfg.from_preset = false;
	if (c.ep == EP_STREAM_MT && c.block_size == 0) c.block_size = 4096u << vrng_below(&r, 6);
	char err[400] = ""; char key[200];
	vbuf canon = {0}, other = {0}; size_t consumed = 0, consumed2 = 0;
	slice_plan whole = { .mode = SL_WHOLE, .final_action = LZMA_FINISH };
	c.enc_plan = whole;
	uint32_t thr0 = c.threads, to0 = c.timeout;
	// a third of the cases carry a flush script: the same flush actions at the same input offsets in every run,
	// only the slicing between them differs
	if (vrng_chance(&r, 1, 3)) gen_flush_script(&c, &r, vrng_chance(&r, 1, 3));
	const char *fdesc = c.fdesc;
	hx_sample("c06enc ep=%s cfg=%s kind=%s size=%zu threads=%u bs=%" PRIu64 "%s%s", ep_names[c.ep], c.cfg.desc, gd_names[c.kind], c.in.n, c.threads, c.block_size, fdesc[0] ? " flush:" : "", fdesc);
	bool ok = do_encode(&c, idx, &canon, &consumed, err, sizeof(err));
	hx_eval();
	if (!ok) { snprintf(key, sizeof(key), "encode-failed|%s", ep_names[c.ep]); hx_violation("C06", key, idx, "%s; cfg=%s size=%zu", err, c.cfg.desc, c.in.n); goto done; }
	unsigned variants = 0;
	for (unsigned v = 0; v < 6; ++v) {
		slice_plan_random(&r, &c.enc_plan);
		if (v == 0) c.enc_plan.mode = c.in.n <= 100000 ? SL_ONEBYTE : SL_RANDOM;
		if (c.in.n > 200000 && c.enc_plan.mode != SL_WHOLE) { c.enc_plan.mode = SL_RANDOM; if (c.enc_plan.max_in < 100) c.enc_plan.max_in = 5000; if (c.enc_plan.max_out < 100) c.enc_plan.max_out = 5000; }
		if (c.ep == EP_STREAM_MT) {
			c.threads = 1 + vrng_below(&r, 8);
			static const uint32_t tos[] = { 0, 1, 50 };
			c.timeout = tos[vrng_below(&r, 3)];
		}
		const bool second_life = (v == 1 || v == 4);
		c.second_life = second_life;
		if (second_life) hx_count("second_life_variants", 1);
		ok = do_encode(&c, idx, &other, &consumed2, err, sizeof(err));
		c.second_life = false;
		hx_eval(); ++variants;
		if (!ok) { snprintf(key, sizeof(key), "encode-failed|%s", ep_names[c.ep]); hx_violation("C06", key, idx, "%s under slicing %s threads=%u timeout=%u; cfg=%s size=%zu", err, slice_mode_name(c.enc_plan.mode), c.threads, c.timeout, c.cfg.desc, c.in.n); goto done; }
		if (other.n != canon.n || (canon.n && memcmp(other.p, canon.p, canon.n))) {
			size_t at = 0; while (at < other.n && at < canon.n && other.p[at] == canon.p[at]) ++at;
			snprintf(key, sizeof(key), "encoder-nondeterministic|%s|%s", ep_names[c.ep], second_life ? "reused-handle" : (c.ep == EP_STREAM_MT && (c.threads != thr0 || c.timeout != to0)) ? "threads-or-timeout" : "slicing");
			hx_violation("C06", key, idx, "output differs from canonical at byte %zu (%zu vs %zu bytes): slicing %s/%zu/%zu threads=%u (canonical %u) timeout=%u (canonical %u); cfg=%s size=%zu bs=%" PRIu64 " flush script:%s",
					at, other.n, canon.n, slice_mode_name(c.enc_plan.mode), c.enc_plan.max_in, c.enc_plan.max_out, c.threads, thr0, c.timeout, to0, c.cfg.desc, c.in.n, c.block_size, fdesc[0] ? fdesc : " none");
			goto done;
		}
	}
	// textual form of the chain (only where a filter array is used and no preset dictionary)
	if ((c.ep == EP_STREAM || c.ep == EP_RAW || c.ep == EP_BLOCK || c.ep == EP_STREAM_MT) && c.cfg.lzma.preset_dict == NULL && !c.lzma1ext
			&& !(c.ep == EP_STREAM_MT && c.cfg.from_preset)) {
		char *str = NULL;
		lzma_ret sr = lzma_str_from_filters(&str, c.cfg.filters, LZMA_STR_ENCODER, NULL);
		if (sr == LZMA_OK && str) {
			lzma_filter f2[LZMA_FILTERS_MAX + 1];
			int epos = 0;
			const char *e = lzma_str_to_filters(str, &epos, f2, LZMA_STR_ALL_FILTERS, NULL);
			if (e != NULL) {
				hx_violation("C06", "str-form-rejected", idx, "lzma_str_from_filters gave '%s' which lzma_str_to_filters rejects at %d: %s; cfg=%s", str, epos, e, c.cfg.desc);
			} else {
				lzma_filter saved[LZMA_FILTERS_MAX + 1];
				memcpy(saved, c.cfg.filters, sizeof(saved));
				memcpy(c.cfg.filters, f2, sizeof(saved));
				c.enc_plan = whole; c.threads = thr0; c.timeout = to0;
				ok = do_encode(&c, idx, &other, &consumed2, err, sizeof(err));
				memcpy(c.cfg.filters, saved, sizeof(saved));
				hx_eval(); hx_count("string_form_variants", 1);
				if (!ok) hx_violation("C06", "encode-failed|string-form", idx, "%s; str='%s'", err, str);
				else if (other.n != canon.n || (canon.n && memcmp(other.p, canon.p, canon.n)))
					hx_violation("C06", "encoder-nondeterministic|string-form", idx, "chain given as text '%s' produces different bytes than the struct form (%zu vs %zu); cfg=%s", str, other.n, canon.n, c.cfg.desc);
				lzma_filters_free(f2, NULL);
			}
			free(str);
		} else if (sr != LZMA_OK) {
			hx_violation("C06", "str-from-filters-failed", idx, "lzma_str_from_filters returned %s for an accepted chain; cfg=%s", lzma_ret_name(sr), c.cfg.desc);
		}
	}
	{
		char nm[64]; snprintf(nm, sizeof(nm), "enc_%s", ep_names[c.ep]); hx_count(nm, 1);
		hx_count("enc_variants", variants);
		uint64_t h = vhash(c.in.p, c.in.n, VHASH_INIT); h = vhash(c.cfg.desc, strlen(c.cfg.desc), h); h = vhash(&c.ep, sizeof(c.ep), h);
		hx_distinct(h, c.in.n >= 2);
	}
done:
	vbuf_free(&canon); vbuf_free(&other); vbuf_free(&c.in); vcfg_free(&c.cfg);
}

//////////////
// longhaul //
//////////////

// More than 4 GiB through one encoder so that every 32-bit position counter wraps FOR REAL (hook H1 only moves the
// match finder's normalisation point): the input is generated block by block, the encoder's output goes straight
// into the matching decoder, and the decoder's output is compared with a second instance of the generator. Nothing
// of the 4 GiB is stored.
typedef struct { uint64_t s; uint8_t hist[1u << 16]; size_t hn; } lh_gen;

static void lh_fill(lh_gen *g, uint8_t *buf, size_t n)
{
	size_t i = 0;
	while (i < n) {
		g->s = g->s * 6364136223846793005ull + 1442695040888963407ull;
		uint32_t x = (uint32_t)(g->s >> 33);
		if ((x & 7) < 5 && g->hn >= 64) {
			// copy from the recent history: distance 1..hn, length 3..66
			size_t dist = 1 + (x >> 3) % g->hn, len = 3 + ((x >> 20) & 63);
			for (size_t k = 0; k < len && i < n; ++k, ++i) {
				uint8_t b = g->hist[(g->hn - dist + k) % sizeof(g->hist)];
				buf[i] = b;
			}
		} else {
			size_t len = 1 + ((x >> 8) & 7);
			for (size_t k = 0; k < len && i < n; ++k, ++i) buf[i] = (uint8_t)(x >> (k * 3));
		}
		// history = the last 64 KiB written (approximation: refresh from the tail of buf)
		size_t take = i < sizeof(g->hist) ? i : sizeof(g->hist);
		if ((g->s & 0xFF) == 0 || i == n) { memcpy(g->hist, buf + i - take, take); g->hn = take; }
	}
}

static void longhaul_case(uint64_t idx)
{
	vrng r; vrng_init(&r, A.seed, 0x10A6, idx, 0);
	hx_case_begin(idx);
	static const lzma_match_finder mfs[] = { LZMA_MF_HC3, LZMA_MF_HC4, LZMA_MF_BT2, LZMA_MF_BT3, LZMA_MF_BT4 };
	lzma_options_lzma o; lzma_lzma_preset(&o, 0);
	o.mf = mfs[idx % 5]; o.mode = (idx / 5) % 2 ? LZMA_MODE_NORMAL : LZMA_MODE_FAST;
	o.dict_size = 4096u << vrng_below(&r, 9);          // 4 KiB .. 1 MiB
	o.nice_len = 8 + vrng_below(&r, 40); o.depth = 2 + vrng_below(&r, 10);
	if (o.nice_len < (o.mf & 0x0F)) o.nice_len = o.mf & 0x0F;
	o.lc = vrng_below(&r, 5); o.lp = vrng_below(&r, 5 - o.lc); o.pb = vrng_below(&r, 5);
	int container = (int)((idx / 10) % 3);   // 0 .xz (LZMA2), 1 .lzma (LZMA1), 2 raw delta+LZMA2
	lzma_options_delta od = { .type = LZMA_DELTA_TYPE_BYTE, .dist = 1 + vrng_below(&r, 256) };
	lzma_filter f[3]; unsigned nf = 0;
	if (container == 2) { f[nf].id = LZMA_FILTER_DELTA; f[nf++].options = &od; }
	f[nf].id = LZMA_FILTER_LZMA2; f[nf++].options = &o; f[nf].id = LZMA_VLI_UNKNOWN; f[nf].options = NULL;
	uint64_t total = (UINT64_C(1) << 32) + (UINT64_C(1) << 20) * (1 + vrng_below(&r, 96)) + vrng_below(&r, 4096);
	if (getenv("VERIF_LONGHAUL_MB")) total = (UINT64_C(1) << 20) * strtoull(getenv("VERIF_LONGHAUL_MB"), NULL, 10) + vrng_below(&r, 4096);   // self-test of the engine only
	char desc[300];
	snprintf(desc, sizeof(desc), "longhaul %s mf=0x%x mode=%d dict=%u nice=%u depth=%u lc%u lp%u pb%u total=%" PRIu64,
			container == 0 ? "xz" : (container == 1 ? "lzma" : "raw-delta-lzma2"), (unsigned)o.mf, (int)o.mode, o.dict_size, o.nice_len, o.depth, o.lc, o.lp, o.pb, total);
	hx_sample("%s", desc);
	alarm(14400);   // this case alone may run for many minutes (inconclusive, not a verdict, if it fires)
	lzma_stream e = LZMA_STREAM_INIT, d = LZMA_STREAM_INIT;
	lzma_ret er = container == 0 ? lzma_stream_encoder(&e, f, LZMA_CHECK_CRC32) : (container == 1 ? lzma_alone_encoder(&e, &o) : lzma_raw_encoder(&e, f));
	lzma_ret dr = container == 0 ? lzma_stream_decoder(&d, UINT64_MAX, 0) : (container == 1 ? lzma_alone_decoder(&d, UINT64_MAX) : lzma_raw_decoder(&d, f));
	if (er != LZMA_OK || dr != LZMA_OK) { hx_violation("C01", "encode-failed|longhaul", idx, "init %s/%s; %s", lzma_ret_name(er), lzma_ret_name(dr), desc); lzma_end(&e); lzma_end(&d); return; }
	enum { IB = 1u << 20, CB = 1u << 16, OB = 1u << 18 };
	uint8_t *ib = malloc(IB), *cb = malloc(CB), *ob = malloc(OB), *xb = malloc(OB);
	lh_gen gi, go; memset(&gi, 0, sizeof(gi)); memset(&go, 0, sizeof(go)); gi.s = go.s = A.seed * 1000003u + idx;
	// the verifier regenerates the same stream in the same block sizes, so it keeps a block of its own
	uint8_t *vb = malloc(IB); size_t vpos = 0, vlen = 0;
	uint64_t fed = 0, outn = 0, compn = 0; bool bad = false; bool dec_end = false;
	uint64_t norm0 = visit(VERIF_D_LZ_ENC, VERIF_LZE_NORMALIZE);
	lzma_verif_mf_offset_bias = 0;
	while (!bad) {
		size_t n = (size_t)(total - fed < IB ? total - fed : IB);
		if (n) lh_fill(&gi, ib, n);
		e.next_in = ib; e.avail_in = n; fed += n;
		lzma_action act = fed == total ? LZMA_FINISH : LZMA_RUN;
		lzma_ret ret;
		do {
			e.next_out = cb; e.avail_out = CB;
			ret = lzma_code(&e, act);
			size_t cn = CB - e.avail_out; compn += cn;
			if (ret != LZMA_OK && ret != LZMA_STREAM_END) { hx_violation("C01", "encode-failed|longhaul", idx, "encoder returned %s after %" PRIu64 " input bytes; %s", lzma_ret_name(ret), fed, desc); bad = true; break; }
			// decode what was produced
			d.next_in = cb; d.avail_in = cn;
			while (!bad && (d.avail_in || (ret == LZMA_STREAM_END && !dec_end))) {
				d.next_out = ob; d.avail_out = OB;
				lzma_ret r2 = lzma_code(&d, ret == LZMA_STREAM_END ? LZMA_FINISH : LZMA_RUN);
				size_t on = OB - d.avail_out;
				// compare with the regenerated input
				size_t done = 0;
				while (done < on) {
					if (vpos == vlen) { vlen = (size_t)(total - outn - done < IB ? total - outn - done : IB); if (!vlen) break; lh_fill(&go, vb, vlen); vpos = 0; }
					size_t m = on - done < vlen - vpos ? on - done : vlen - vpos;
					if (memcmp(ob + done, vb + vpos, m)) { size_t at = 0; while (ob[done + at] == vb[vpos + at]) ++at; hx_violation("C01", "roundtrip-mismatch|longhaul", idx, "decoded data differs from the input at offset %" PRIu64 "; %s", outn + done + at, desc); bad = true; break; }
					done += m; vpos += m;
				}
				if (!bad && done < on) { hx_violation("C01", "roundtrip-mismatch|longhaul", idx, "decoder produced more than the %" PRIu64 " input bytes; %s", total, desc); bad = true; }
				outn += on;
				if (r2 == LZMA_STREAM_END) { dec_end = true; break; }
				if (r2 != LZMA_OK) { hx_violation("C01", "decode-failed|longhaul", idx, "decoder returned %s at output offset %" PRIu64 "; %s", lzma_ret_name(r2), outn, desc); bad = true; break; }
				if (on == 0 && d.avail_in == 0) break;
			}
		} while (!bad && (ret == LZMA_OK && (e.avail_in || act == LZMA_FINISH)));
		if (act == LZMA_FINISH) break;
	}
	(void)xb;
	if (!bad && (!dec_end || outn != total)) hx_violation("C01", "roundtrip-mismatch|longhaul", idx, "decoder delivered %" PRIu64 " of %" PRIu64 " bytes (end of stream %s); %s", outn, total, dec_end ? "seen" : "not seen", desc);
	hx_eval();
	hx_count("longhaul_input_bytes", fed); hx_count("longhaul_compressed_bytes", compn);
	hx_count("longhaul_real_normalizations", visit(VERIF_D_LZ_ENC, VERIF_LZE_NORMALIZE) - norm0);
	{ char nm[40]; snprintf(nm, sizeof(nm), "longhaul_mf_0x%x", (unsigned)o.mf); hx_count(nm, 1); }
	hx_distinct(vhash(desc, strlen(desc), VHASH_INIT), true);
	lzma_end(&e); lzma_end(&d); free(ib); free(cb); free(ob); free(xb); free(vb);
}

int main(int argc, char **argv)
{
	hx_parse(argc, argv, &A);
	if (A.prop[0]) PROP = A.prop;
	uint64_t idx = UINT64_MAX;
	while (hx_next_case(&A, &idx)) {
		if (!strcmp(A.mode, "c06enc")) c06enc_case(idx);
		else if (!strcmp(A.mode, "longhaul")) longhaul_case(idx);
#ifdef WITH_REFDEC
		else if (!strcmp(A.mode, "c02bound")) c02bound_case(idx);
#endif
		else run_case(idx);
	}
	hx_finish();
	return 0;
}
