// Encoded-input generators (using liblzma's own encoders) and mutators,
// shared by the decoder-side monitors.
#ifndef VERIF_GEN_STREAM_H
#define VERIF_GEN_STREAM_H
#include "vh.h"

enum {
	SK_XZ,        // .xz file (1..n Streams, padding)
	SK_ALONE,     // .lzma
	SK_LZIP,      // .lz (made by wrapping raw LZMA1 lc3/lp0/pb2 + EOPM)
	SK_RAW,       // raw chain; cfg tells the filters
	SK_BLOCK,     // one .xz Block (header..check); check id in meta
	SK_MICROLZMA, // MicroLZMA stream; sizes in meta
	SK_INDEX,     // encoded Index field
	SK_GARBAGE,   // random bytes
	SK_CORPUS,    // file from tests/files (kind guessed from suffix -> sub)
	SK_COUNT
};
extern const char *const sk_names[SK_COUNT];

typedef struct {
	int kind;             // SK_* (for SK_CORPUS: `sub` holds the guessed SK_*)
	int sub;
	vbuf data;            // the encoded bytes
	vbuf plain;           // expected plaintext (valid for generated, unmutated inputs)
	bool plain_known;
	vcfg cfg;             // SK_RAW / SK_BLOCK / SK_MICROLZMA: configuration used
	bool cfg_valid;
	lzma_check check;
	uint64_t comp_size, uncomp_size;   // SK_MICROLZMA
	unsigned nstreams, nblocks_hint;
	bool has_bcj;
	bool mutated;
	char desc[400];
	char path[300];       // SK_CORPUS
} gstream;

void gstream_free(gstream *g);

/// Generate one encoded input of kind `kind` (or random kind if < 0) with
/// plaintext size up to max_plain.
void gen_stream(vrng *r, gstream *g, int kind, size_t max_plain);

/// .xz file with explicit structure: nstreams Streams, each with nblocks
/// Blocks (via full flush or the MT encoder), padding (multiple of 4)
/// between Streams.
void gen_xz_multi(vrng *r, gstream *g, unsigned nstreams, unsigned nblocks, size_t max_plain, bool mt, bool allow_bcj);

/// Wrap an LZMA1 (lc3 lp0 pb2, EOPM) raw stream of `plain` into a lzip member.
void lzip_member(vrng *r, const uint8_t *plain, size_t n, unsigned version, uint32_t dict_size, vbuf *out);

/// Load a corpus file.
bool gen_corpus(vrng *r, gstream *g, char **names, size_t nnames);

/// Mutate in place: bit flips, byte overwrites, truncation, insertion,
/// deletion, duplication, splicing. Returns a short description.
void mutate(vrng *r, vbuf *b, char *desc, size_t descsz);

/// Recompute the CRC32s of a .xz file's fixed-position fields (Stream
/// Header, Footer) so that mutations reach beyond the first integrity test.
void xz_fix_header_crcs(vbuf *b);
/// Make the start offset of one BCJ filter in a Block Header of the first Stream misaligned (header CRC fixed): the Block
/// is well-formed but its decoder refuses to initialise. Returns the Block index or -1 if there is no candidate.
int xz_misalign_bcj_offset(vbuf *d, vrng *r);

#endif
