// Common building blocks of the /verif harness executables.
#define _GNU_SOURCE
#include "vh.h"
#include <stdarg.h>
#include <errno.h>
#include <time.h>
#include <unistd.h>
#include <fcntl.h>
#include <dirent.h>
#include <signal.h>
#include <sys/mman.h>
#include <sys/stat.h>

///////////
// vrng  //
///////////

static uint64_t splitmix(uint64_t *x)
{
	uint64_t z = (*x += UINT64_C(0x9e3779b97f4a7c15));
	z = (z ^ (z >> 30)) * UINT64_C(0xbf58476d1ce4e5b9);
	z = (z ^ (z >> 27)) * UINT64_C(0x94d049bb133111eb);
	return z ^ (z >> 31);
}

void vrng_init(vrng *r, uint64_t seed, uint64_t a, uint64_t b, uint64_t c)
{
	uint64_t x = seed;
	x ^= splitmix(&x) + a * UINT64_C(0x9E3779B97F4A7C15);
	x ^= splitmix(&x) + b * UINT64_C(0xC2B2AE3D27D4EB4F);
	x ^= splitmix(&x) + c * UINT64_C(0x165667B19E3779F9);
	for (int i = 0; i < 4; ++i)
		r->s[i] = splitmix(&x);
}

static inline uint64_t rotl(uint64_t x, int k) { return (x << k) | (x >> (64 - k)); }

uint64_t vrng_u64(vrng *r)
{
	uint64_t *s = r->s;
	const uint64_t result = rotl(s[1] * 5, 7) * 9;
	const uint64_t t = s[1] << 17;
	s[2] ^= s[0]; s[3] ^= s[1]; s[1] ^= s[2]; s[0] ^= s[3];
	s[2] ^= t; s[3] = rotl(s[3], 45);
	return result;
}

uint32_t vrng_below(vrng *r, uint32_t n)
{
	if (n <= 1) return 0;
	return (uint32_t)(((vrng_u64(r) >> 32) * (uint64_t)n) >> 32);
}

uint64_t vrng_below64(vrng *r, uint64_t n)
{
	if (n <= 1) return 0;
	return vrng_u64(r) % n;
}

uint32_t vrng_range(vrng *r, uint32_t lo, uint32_t hi)
{
	return lo + vrng_below(r, hi - lo + 1);
}

bool vrng_chance(vrng *r, uint32_t num, uint32_t den)
{
	return vrng_below(r, den) < num;
}

size_t vrng_logsize(vrng *r, size_t max)
{
	if (max == 0) return 0;
	unsigned bits = 0;
	while (((size_t)1 << bits) <= max && bits < 63) ++bits;
	unsigned b = vrng_below(r, bits + 1);
	if (b == 0) return 0;
	size_t lo = (size_t)1 << (b - 1);
	size_t hi = b >= 63 ? max : (((size_t)1 << b) - 1);
	if (hi > max) hi = max;
	if (lo > hi) lo = hi;
	return lo + (size_t)vrng_below64(r, hi - lo + 1);
}

void vrng_fill(vrng *r, uint8_t *p, size_t n)
{
	while (n >= 8) { uint64_t v = vrng_u64(r); memcpy(p, &v, 8); p += 8; n -= 8; }
	if (n) { uint64_t v = vrng_u64(r); memcpy(p, &v, n); }
}

///////////
// vbuf  //
///////////

void vbuf_reserve(vbuf *b, size_t cap)
{
	if (cap <= b->cap) return;
	size_t nc = b->cap ? b->cap : 256;
	while (nc < cap) nc *= 2;
	b->p = realloc(b->p, nc);
	if (!b->p) { fprintf(stderr, "harness: out of memory\n"); exit(2); }
	b->cap = nc;
}

void vbuf_append(vbuf *b, const void *p, size_t n)
{
	if (n == 0) return;
	vbuf_reserve(b, b->n + n);
	memcpy(b->p + b->n, p, n);
	b->n += n;
}

void vbuf_putc(vbuf *b, uint8_t c) { vbuf_append(b, &c, 1); }
void vbuf_clear(vbuf *b) { b->n = 0; }
void vbuf_free(vbuf *b) { free(b->p); b->p = NULL; b->n = b->cap = 0; }

uint64_t vhash(const void *p, size_t n, uint64_t h)
{
	const uint8_t *s = p;
	for (size_t i = 0; i < n; ++i) { h ^= s[i]; h *= UINT64_C(0x100000001b3); }
	return h;
}

//////////////
// gen_data //
//////////////

const char *const gd_names[GD_COUNT] = {
	"empty", "one", "random", "runs", "text", "longdist", "periodic",
	"zeroruns", "mixed", "code_x86", "code_fixed32", "lowent", "markov",
};

static const char *const words[] = {
	"the", "quick", "brown", "fox", "jumps", "over", "lazy", "dog", "lorem",
	"ipsum", "dolor", "sit", "amet", "consectetur", "adipiscing", "elit",
	"compression", "dictionary", "stream", "block", "filter", "index",
	"\n", ", ", ". ", "0123456789", "int main(void)", "return 0;", "#include",
};

size_t gen_size(vrng *r, size_t max)
{
	static const size_t marks[] = {
		0, 1, 2, 3, 4, 5, 15, 16, 17, 255, 256, 273, 274, 4095, 4096, 4097,
		8191, 8192, 8193, 65535, 65536, 65537, (1u << 20), (2u << 20) - 1,
		(2u << 20), (2u << 20) + 1, (2u << 20) + 2,
	};
	unsigned k = vrng_below(r, 10);
	size_t s;
	if (k < 3) {
		s = marks[vrng_below(r, sizeof(marks) / sizeof(marks[0]))];
		if (vrng_chance(r, 1, 3))
			s += vrng_below(r, 5);
	} else if (k < 8) {
		s = vrng_logsize(r, max);
	} else {
		s = (size_t)vrng_below64(r, (uint64_t)max + 1);
	}
	return s > max ? max : s;
}

int gen_data(vrng *r, vbuf *out, size_t size, int kind, size_t hint)
{
	if (kind < 0) {
		// weights: avoid the trivial kinds most of the time
		static const uint8_t w[] = {
			GD_RANDOM, GD_RUNS, GD_RUNS, GD_TEXT, GD_TEXT, GD_LONGDIST,
			GD_LONGDIST, GD_PERIODIC, GD_ZERORUNS, GD_MIXED, GD_MIXED,
			GD_MIXED, GD_CODE_X86, GD_CODE_FIXED32, GD_LOWENT, GD_LOWENT, GD_MARKOV, GD_MARKOV,
		};
		kind = w[vrng_below(r, sizeof(w))];
	}
	vbuf_clear(out);
	if (kind == GD_EMPTY) return kind;
	if (kind == GD_ONE) size = 1;
	vbuf_reserve(out, size + 16);
	uint8_t *p = out->p;
	size_t n = 0;
	switch (kind) {
	case GD_ONE:
	case GD_RANDOM:
		vrng_fill(r, p, size); n = size; break;
	case GD_RUNS:
		while (n < size) {
			size_t run = 1 + vrng_logsize(r, 2000);
			uint8_t c = (uint8_t)vrng_u64(r);
			if (run > size - n) run = size - n;
			memset(p + n, c, run); n += run;
		}
		break;
	case GD_TEXT:
		while (n < size) {
			const char *wd = words[vrng_below(r, sizeof(words) / sizeof(words[0]))];
			size_t l = strlen(wd);
			if (l > size - n) l = size - n;
			memcpy(p + n, wd, l); n += l;
			if (n < size) p[n++] = ' ';
		}
		break;
	case GD_LONGDIST: {
		// random block repeated at a distance near `hint` (dictionary size)
		size_t dist = hint ? hint : 4096;
		int adj = (int)vrng_below(r, 5) - 2;
		if ((long)dist + adj > 1) dist = (size_t)((long)dist + adj);
		if (vrng_chance(r, 1, 4)) dist = 1 + vrng_logsize(r, dist * 2);
		while (n < size) {
			if (n >= dist && vrng_chance(r, 3, 4)) {
				size_t l = 2 + vrng_logsize(r, 600);
				if (l > size - n) l = size - n;
				for (size_t i = 0; i < l; ++i) p[n + i] = p[n + i - dist];
				n += l;
			} else {
				size_t l = 1 + vrng_logsize(r, dist);
				if (l > size - n) l = size - n;
				vrng_fill(r, p + n, l); n += l;
			}
		}
		break;
	}
	case GD_PERIODIC: {
		size_t period = 1 + vrng_below(r, 300);
		uint8_t base[300]; vrng_fill(r, base, period);
		uint8_t step = (uint8_t)vrng_below(r, 4);
		for (n = 0; n < size; ++n)
			p[n] = (uint8_t)(base[n % period] + step * (n / period));
		break;
	}
	case GD_ZERORUNS:
		while (n < size) {
			size_t l = vrng_chance(r, 1, 2) ? 8192 * vrng_below(r, 4) + vrng_below(r, 3) - 1
					: 1 + vrng_logsize(r, 20000);
			if (l > size - n) l = size - n;
			if (vrng_chance(r, 1, 2)) memset(p + n, 0, l);
			else vrng_fill(r, p + n, l);
			n += l;
		}
		break;
	case GD_MIXED:
		while (n < size) {
			size_t l = 1 + vrng_logsize(r, 70000);
			if (l > size - n) l = size - n;
			vbuf tmp = {0};
			static const int kinds[] = { GD_RANDOM, GD_RUNS, GD_TEXT, GD_LONGDIST,
				GD_PERIODIC, GD_LOWENT, GD_CODE_X86 };
			gen_data(r, &tmp, l, kinds[vrng_below(r, 7)], hint);
			memcpy(p + n, tmp.p, l);
			vbuf_free(&tmp);
			n += l;
			// sometimes copy an earlier piece
			if (n < size && n > 8 && vrng_chance(r, 1, 3)) {
				size_t src = (size_t)vrng_below64(r, n - 1);
				size_t cl = 1 + vrng_logsize(r, n - src);
				if (cl > size - n) cl = size - n;
				memmove(p + n, p + src, cl); n += cl;
			}
		}
		break;
	case GD_CODE_X86:
		while (n < size) {
			unsigned k = vrng_below(r, 8);
			if (k < 3 && size - n >= 5) {
				p[n++] = vrng_chance(r, 1, 2) ? 0xE8 : 0xE9;
				uint32_t d = (uint32_t)vrng_u64(r);
				if (vrng_chance(r, 2, 3)) d = (uint32_t)(int32_t)((int)vrng_below(r, 1 << 20) - (1 << 19));
				if (vrng_chance(r, 1, 8)) d |= 0xFF000000u;
				memcpy(p + n, &d, 4); n += 4;
			} else if (k == 3) {
				p[n++] = 0x0F; if (n < size) p[n++] = (uint8_t)(0x80 + vrng_below(r, 16));
			} else {
				p[n++] = (uint8_t)vrng_u64(r);
			}
		}
		break;
	case GD_CODE_FIXED32:
		while (n + 4 <= size) {
			static const uint32_t pats[] = {
				0x48000001u, 0xEB000000u, 0x94000000u, 0x90000000u,
				0x40000000u, 0x7FC00000u, 0x000000EFu, 0x00000097u,
				0xF000F800u, 0x00000017u,
			};
			uint32_t v = (uint32_t)vrng_u64(r);
			if (vrng_chance(r, 1, 2)) {
				uint32_t pat = pats[vrng_below(r, 10)];
				v = (v & 0x03FFFFFCu) | pat;
				if (vrng_chance(r, 1, 2)) v = __builtin_bswap32(v);
			}
			memcpy(p + n, &v, 4); n += 4;
		}
		while (n < size) p[n++] = (uint8_t)vrng_u64(r);
		break;
	case GD_MARKOV: {
		// "log-like" text: short words, each with only a few possible successors (every position has an
		// overlapping short match, which keeps an optimal parser's look-ahead extending), interrupted by
		// long verbatim copies of older data (matches longer than most nice_len values)
		unsigned nw = 8 + vrng_below(r, 56), wl = 3 + vrng_below(r, 6), ns = 2 + vrng_below(r, 3);
		uint8_t wd[64][8]; uint8_t succ[64][4];
		for (unsigned i = 0; i < nw; ++i) { vrng_fill(r, wd[i], wl); for (unsigned k = 0; k < ns; ++k) succ[i][k] = (uint8_t)vrng_below(r, nw); }
		unsigned cur = 0; size_t next_copy = 2000 + vrng_below(r, 4000);
		while (n < size) {
			if (n >= next_copy && n > 1500) {
				size_t l = 280 + vrng_below(r, 400); if (l > size - n) l = size - n;
				size_t src = (size_t)vrng_below64(r, n - 1000);
				memmove(p + n, p + src, l); n += l;
				next_copy = n + 3800 + vrng_below(r, 400);
				continue;
			}
			for (unsigned k = 0; k < wl && n < size; ++k) p[n++] = wd[cur][k];
			cur = succ[cur][vrng_below(r, ns)];
		}
		break;
	}
	case GD_LOWENT: {
		unsigned alpha = 2 + vrng_below(r, 14);
		for (n = 0; n < size; ++n) p[n] = (uint8_t)('a' + vrng_below(r, alpha));
		break;
	}
	}
	out->n = size;
	return kind;
}

void gen_tail_insn(vrng *r, lzma_vli id, uint8_t *buf, size_t n)
{
	uint32_t v = (uint32_t)vrng_u64(r);
	uint8_t *t;
	switch (id) {
	case LZMA_FILTER_X86: if (n < 5) return; t = buf + n - 5; t[0] = vrng_chance(r, 1, 2) ? 0xE8 : 0xE9; t[1] = (uint8_t)v; t[2] = (uint8_t)(v >> 8); t[3] = (uint8_t)(v >> 16); t[4] = vrng_chance(r, 1, 2) ? 0x00 : 0xFF; break;
	case LZMA_FILTER_POWERPC: if (n < 4) return; t = buf + n - 4; t[0] = (uint8_t)(0x48 | ((v >> 8) & 3)); t[1] = (uint8_t)v; t[2] = (uint8_t)(v >> 16); t[3] = (uint8_t)((v >> 24 & 0xFC) | 1); break;
	case LZMA_FILTER_ARM: if (n < 4) return; t = buf + n - 4; t[0] = (uint8_t)v; t[1] = (uint8_t)(v >> 8); t[2] = (uint8_t)(v >> 16); t[3] = 0xEB; break;
	case LZMA_FILTER_ARMTHUMB: if (n < 4) return; t = buf + n - 4; t[0] = (uint8_t)v; t[1] = (uint8_t)(0xF0 | ((v >> 8) & 7)); t[2] = (uint8_t)(v >> 16); t[3] = (uint8_t)(0xF8 | ((v >> 24) & 7)); break;
	case LZMA_FILTER_SPARC: if (n < 4) return; t = buf + n - 4; if (vrng_chance(r, 1, 2)) { t[0] = 0x40; t[1] = (uint8_t)((v >> 8) & 0x3F); } else { t[0] = 0x7F; t[1] = (uint8_t)(0xC0 | (v >> 8)); } t[2] = (uint8_t)(v >> 16); t[3] = (uint8_t)(v >> 24); break;
	case LZMA_FILTER_ARM64: if (n < 4) return; t = buf + n - 4; t[0] = (uint8_t)v; t[1] = (uint8_t)(v >> 8); t[2] = (uint8_t)(v >> 16); t[3] = (uint8_t)(0x94 | ((v >> 24) & 3)); break;
	case LZMA_FILTER_RISCV: if (n < 4) return; t = buf + n - 4; t[0] = (uint8_t)(0xEF | 0); t[1] = (uint8_t)(v >> 8); t[2] = (uint8_t)(v >> 16); t[3] = (uint8_t)(v >> 24); if (vrng_chance(r, 1, 2)) t[0] = 0xEF; else { t[0] = 0x6F; t[1] = (uint8_t)((t[1] & 0xF0) | 0x02); } break; // JAL rd=x1 (0xEF) / rd=x5
	case LZMA_FILTER_IA64: default: break;
	}
}

/////////////
// gen_cfg //
/////////////

lzma_check gen_check(vrng *r)
{
	static const lzma_check c[] = { LZMA_CHECK_NONE, LZMA_CHECK_CRC32,
		LZMA_CHECK_CRC64, LZMA_CHECK_SHA256 };
	return c[vrng_below(r, 4)];
}

static const lzma_vli bcj_ids[] = {
	LZMA_FILTER_X86, LZMA_FILTER_POWERPC, LZMA_FILTER_IA64, LZMA_FILTER_ARM,
	LZMA_FILTER_ARMTHUMB, LZMA_FILTER_SPARC, LZMA_FILTER_ARM64, LZMA_FILTER_RISCV,
};
static const uint32_t bcj_align[] = { 1, 4, 16, 4, 2, 4, 4, 2 };

static uint32_t gen_dict(vrng *r, uint32_t max_dict)
{
	if (max_dict < 4096) max_dict = 4096;
	unsigned k = vrng_below(r, 10);
	uint32_t d;
	if (k < 5) {
		// small dictionaries: wrap often
		d = 4096u << vrng_below(r, 5);
		if (vrng_chance(r, 1, 3)) d += vrng_below(r, 4096);
	} else if (k < 8) {
		unsigned maxb = 12; while ((1u << (maxb + 1)) <= max_dict && maxb < 30) ++maxb;
		d = 1u << vrng_range(r, 12, maxb);
		if (vrng_chance(r, 1, 3) && d / 2 * 3 <= max_dict) d = d / 2 * 3;
	} else {
		d = 4096 + (uint32_t)vrng_below64(r, (uint64_t)max_dict - 4096 + 1);
	}
	if (d > max_dict) d = max_dict;
	if (d < 4096) d = 4096;
	return d;
}

static void gen_lzma_opts(vrng *r, lzma_options_lzma *o, uint32_t max_dict, bool *from_preset, uint32_t *preset)
{
	*from_preset = false;
	if (vrng_chance(r, 1, 4)) {
		*preset = vrng_below(r, 10);
		if (vrng_chance(r, 1, 3)) *preset |= LZMA_PRESET_EXTREME;
		lzma_lzma_preset(o, *preset);
		if (o->dict_size > max_dict) o->dict_size = max_dict;
		else *from_preset = true;
		return;
	}
	lzma_lzma_preset(o, vrng_below(r, 10));
	o->dict_size = gen_dict(r, max_dict);
	// lc + lp <= 4
	o->lc = vrng_below(r, 5);
	o->lp = vrng_below(r, 5 - o->lc);
	if (vrng_chance(r, 1, 3)) { o->lc = 3; o->lp = 0; }
	o->pb = vrng_below(r, 5);
	o->mode = vrng_chance(r, 1, 2) ? LZMA_MODE_FAST : LZMA_MODE_NORMAL;
	static const lzma_match_finder mfs[] = { LZMA_MF_HC3, LZMA_MF_HC4, LZMA_MF_BT2, LZMA_MF_BT3, LZMA_MF_BT4 };
	o->mf = mfs[vrng_below(r, 5)];
	unsigned k = vrng_below(r, 6);
	if (k == 0) o->nice_len = 273;
	else if (k == 1) o->nice_len = 2 + vrng_below(r, 8);
	else o->nice_len = vrng_range(r, 2, 273);
	// nice_len must be >= what the match finder needs
	uint32_t need = (o->mf & 0x0F);
	if (o->nice_len < need) o->nice_len = need;
	k = vrng_below(r, 5);
	o->depth = k == 0 ? 0 : (k == 1 ? 1 + vrng_below(r, 4) : vrng_below(r, 200));
	o->preset_dict = NULL; o->preset_dict_size = 0;
	o->ext_flags = 0; o->ext_size_low = 0; o->ext_size_high = 0;
}

void gen_cfg(vrng *r, vcfg *c, unsigned flags, uint32_t max_dict)
{
	memset(c, 0, sizeof(*c));
	c->check = gen_check(r);
	gen_lzma_opts(r, &c->lzma, max_dict, &c->from_preset, &c->preset);
	unsigned n = 0;
	char *d = c->desc; size_t dl = sizeof(c->desc);
	int w = 0;
	if (!(flags & VCFG_ONLY_LZMA1)) {
		unsigned pre = 0;
		if (flags & (VCFG_ALLOW_BCJ | VCFG_ALLOW_DELTA)) {
			unsigned k = vrng_below(r, 10);
			pre = k < 5 ? 0 : (k < 8 ? 1 : (k < 9 ? 2 : 3));
		}
		for (unsigned i = 0; i < pre; ++i) {
			bool delta = (flags & VCFG_ALLOW_DELTA) && (!(flags & VCFG_ALLOW_BCJ) || vrng_chance(r, 1, 2));
			if (delta) {
				c->delta[i].type = LZMA_DELTA_TYPE_BYTE;
				unsigned k = vrng_below(r, 4);
				c->delta[i].dist = k == 0 ? 1 : (k == 1 ? 256 : vrng_range(r, 1, 256));
				c->filters[n].id = LZMA_FILTER_DELTA;
				c->filters[n].options = &c->delta[i];
				w += snprintf(d + w, dl - w, "delta(%u)+", c->delta[i].dist);
			} else {
				unsigned b = vrng_below(r, 8);
				c->filters[n].id = bcj_ids[b];
				if (vrng_chance(r, 1, 2)) {
					c->filters[n].options = NULL;
					w += snprintf(d + w, dl - w, "bcj%u+", b);
				} else {
					uint32_t so = (uint32_t)vrng_u64(r);
					if (vrng_chance(r, 1, 3)) so = 0xFFFFFFF0u + vrng_below(r, 16);
					if (vrng_chance(r, 1, 3)) so = vrng_below(r, 65536);
					so -= so % bcj_align[b];
					c->bcj[i].start_offset = so;
					c->filters[n].options = &c->bcj[i];
					w += snprintf(d + w, dl - w, "bcj%u(%u)+", b, so);
				}
			}
			++n;
		}
	}
	bool lzma1 = (flags & VCFG_ONLY_LZMA1) || ((flags & VCFG_ALLOW_LZMA1) && vrng_chance(r, 1, 3));
	if (lzma1) {
		c->filters[n].id = LZMA_FILTER_LZMA1;
		if ((flags & VCFG_LZMA1EXT) && vrng_chance(r, 1, 2)) {
			c->filters[n].id = LZMA_FILTER_LZMA1EXT;
			// ext_size set by caller (needs the input size); default unknown
			c->lzma.ext_flags = vrng_chance(r, 1, 2) ? LZMA_LZMA1EXT_ALLOW_EOPM : 0;
			c->lzma.ext_size_low = UINT32_MAX; c->lzma.ext_size_high = UINT32_MAX;
		}
	} else {
		c->filters[n].id = LZMA_FILTER_LZMA2;
	}
	if ((flags & VCFG_ALLOW_PRESETD) && !c->from_preset && vrng_chance(r, 1, 4)) {
		size_t ps = 1 + vrng_logsize(r, 8192);
		c->preset_dict = malloc(ps);
		vbuf tmp = {0};
		gen_data(r, &tmp, ps, vrng_chance(r, 1, 2) ? GD_TEXT : GD_LOWENT, 0);
		memcpy(c->preset_dict, tmp.p, ps); vbuf_free(&tmp);
		c->lzma.preset_dict = c->preset_dict;
		c->lzma.preset_dict_size = (uint32_t)ps;
		w += snprintf(d + w, dl - w, "pd%zu,", ps);
	}
	c->filters[n].options = &c->lzma;
	++n;
	c->filters[n].id = LZMA_VLI_UNKNOWN;
	c->filters[n].options = NULL;
	c->nfilters = n;
	if (c->from_preset)
		w += snprintf(d + w, dl - w, "%s(preset=%u%s)", lzma1 ? "lzma1" : "lzma2",
				c->preset & 0x1F, (c->preset & LZMA_PRESET_EXTREME) ? "e" : "");
	else
		w += snprintf(d + w, dl - w, "%s(dict=%u,lc=%u,lp=%u,pb=%u,mode=%d,mf=0x%x,nice=%u,depth=%u)",
				lzma1 ? "lzma1" : "lzma2", c->lzma.dict_size, c->lzma.lc, c->lzma.lp,
				c->lzma.pb, (int)c->lzma.mode, (unsigned)c->lzma.mf, c->lzma.nice_len, c->lzma.depth);
	snprintf(d + w, dl - w, ",check=%d", (int)c->check);
}

void vcfg_free(vcfg *c) { free(c->preset_dict); c->preset_dict = NULL; }

void vcfg_move(vcfg *dst, vcfg *src)
{
	*dst = *src;
	for (unsigned i = 0; i <= LZMA_FILTERS_MAX; ++i) {
		void *o = src->filters[i].options;
		if (o == NULL) continue;
		if (o == (void *)&src->lzma) dst->filters[i].options = &dst->lzma;
		for (unsigned k = 0; k < 3; ++k) {
			if (o == (void *)&src->delta[k]) dst->filters[i].options = &dst->delta[k];
			if (o == (void *)&src->bcj[k]) dst->filters[i].options = &dst->bcj[k];
		}
	}
	src->preset_dict = NULL;
	memset(src->filters, 0, sizeof(src->filters));
	src->filters[0].id = LZMA_VLI_UNKNOWN;
}

///////////////
// alloc_mon //
///////////////

struct am_ent { void *p; size_t size; };

static void am_lock(alloc_mon *m) { while (__atomic_exchange_n(&m->lock, 1, __ATOMIC_ACQUIRE)) ; }
static void am_unlock(alloc_mon *m) { __atomic_store_n(&m->lock, 0, __ATOMIC_RELEASE); }

static size_t am_slot(alloc_mon *m, void *p)
{
	uint64_t h = (uint64_t)(uintptr_t)p;
	h ^= h >> 33; h *= UINT64_C(0xff51afd7ed558ccd); h ^= h >> 33;
	return (size_t)(h & (m->tabcap - 1));
}

static void am_insert_nolock(alloc_mon *m, void *p, size_t size);

static void am_grow(alloc_mon *m)
{
	struct am_ent *old = m->tab; size_t oc = m->tabcap;
	m->tabcap = oc ? oc * 2 : 1024;
	m->tab = calloc(m->tabcap, sizeof(*m->tab));
	m->tabn = 0;
	for (size_t i = 0; i < oc; ++i)
		if (old[i].p != NULL && old[i].p != (void *)1)
			am_insert_nolock(m, old[i].p, old[i].size);
	free(old);
}

static void am_insert_nolock(alloc_mon *m, void *p, size_t size)
{
	if ((m->tabn + 1) * 2 > m->tabcap) am_grow(m);
	size_t i = am_slot(m, p);
	while (m->tab[i].p != NULL && m->tab[i].p != (void *)1) i = (i + 1) & (m->tabcap - 1);
	m->tab[i].p = p; m->tab[i].size = size; ++m->tabn;
}

static void *am_alloc(void *opaque, size_t nmemb, size_t size)
{
	alloc_mon *m = opaque;
	size_t total = nmemb * size;
	if (nmemb != 0 && total / nmemb != size) return NULL;
	am_lock(m);
	uint64_t k = ++m->n_alloc;
	bool fail = false;
	if (m->fail_at && (int64_t)k == m->fail_at) fail = true;
	if (m->fail_from && (int64_t)k >= m->fail_from) fail = true;
	if (m->fail_prob_num && (int64_t)k > m->fail_rand_after
			&& vrng_below(&m->fail_rng, 65536) < m->fail_prob_num) fail = true;
	if (fail) { ++m->n_failed_injected; am_unlock(m); return NULL; }
	if (m->huge_limit && total > m->huge_limit) { ++m->n_failed_huge; am_unlock(m); return NULL; }
	am_unlock(m);
	void *p = malloc(total ? total : 1);
	if (p == NULL) { am_lock(m); ++m->n_failed_huge; am_unlock(m); return NULL; }
	if (m->poison && total <= (1u << 20)) memset(p, 0xA5, total);
	am_lock(m);
	am_insert_nolock(m, p, total);
	m->live_bytes += total; ++m->live_blocks;
	if (m->live_bytes > m->peak_bytes) m->peak_bytes = m->live_bytes;
	am_unlock(m);
	return p;
}

static void am_free(void *opaque, void *p)
{
	alloc_mon *m = opaque;
	if (p == NULL) return;  // liblzma never passes NULL, but be liberal
	am_lock(m);
	bool found = false;
	if (m->tabcap) {
		size_t i = am_slot(m, p);
		while (m->tab[i].p != NULL) {
			if (m->tab[i].p == p) {
				m->live_bytes -= m->tab[i].size; --m->live_blocks;
				m->tab[i].p = (void *)1; // tombstone
				found = true; break;
			}
			i = (i + 1) & (m->tabcap - 1);
		}
	}
	++m->n_free;
	if (!found) {
		++m->errors;
		snprintf(m->errmsg, sizeof(m->errmsg), "free of unknown or already freed pointer %p (free #%" PRIu64 ")", p, m->n_free);
		am_unlock(m);
		return; // do not pass to free(): keep going so the monitor reports it
	}
	am_unlock(m);
	free(p);
}

void alloc_mon_init(alloc_mon *m)
{
	memset(m, 0, sizeof(*m));
	m->a.alloc = am_alloc; m->a.free = am_free; m->a.opaque = m;
	m->poison = true;
}

// (worker threads of the coder under test may be allocating at this very moment: plan changes take the monitor's lock)
void alloc_mon_reset_plan(alloc_mon *m)
{
	am_lock(m);
	m->fail_at = m->fail_from = 0; m->fail_prob_num = 0; m->fail_rand_after = 0;
	am_unlock(m);
}

void alloc_mon_fail_nth_from_now(alloc_mon *m, unsigned k)
{
	am_lock(m);
	m->fail_at = (int64_t)m->n_alloc + (int64_t)k;
	am_unlock(m);
}

void alloc_mon_reset_peak(alloc_mon *m) { am_lock(m); m->peak_bytes = m->live_bytes; am_unlock(m); }

void alloc_mon_destroy(alloc_mon *m)
{
	for (size_t i = 0; i < m->tabcap; ++i)
		if (m->tab[i].p != NULL && m->tab[i].p != (void *)1) free(m->tab[i].p);
	free(m->tab);
	memset(m, 0, sizeof(*m));
}

////////////
// slicer //
////////////

#define ARENA_MAX (4u << 20)
static uint8_t *in_arena, *out_arena;  // usable region = [arena, arena + ARENA_MAX), guard page follows
static size_t pagesz;
#define CANARY_LEN 64

static void arenas_init(void)
{
	if (in_arena) return;
	pagesz = (size_t)sysconf(_SC_PAGESIZE);
	for (int i = 0; i < 2; ++i) {
		size_t len = pagesz + ARENA_MAX + pagesz;
		uint8_t *m = mmap(NULL, len, PROT_READ | PROT_WRITE, MAP_PRIVATE | MAP_ANONYMOUS, -1, 0);
		if (m == MAP_FAILED) { perror("mmap"); exit(2); }
		mprotect(m + pagesz + ARENA_MAX, pagesz, PROT_NONE);
		mprotect(m, pagesz, PROT_NONE);
		if (i == 0) in_arena = m + pagesz; else out_arena = m + pagesz;
	}
}

static uint8_t win_canary[CANARY_LEN];
static uint8_t *win_out_ptr;
static unsigned win_ctr;

uint8_t *vh_in_window(const uint8_t *src, size_t n)
{
	arenas_init();
	if (n > ARENA_MAX) n = ARENA_MAX;
	uint8_t *ip = in_arena + ARENA_MAX - n;
	if (n) memcpy(ip, src, n);
	return ip;
}

uint8_t *vh_out_window(size_t n)
{
	arenas_init();
	if (n > ARENA_MAX - CANARY_LEN) n = ARENA_MAX - CANARY_LEN;
	uint8_t *op = out_arena + ARENA_MAX - n;
	++win_ctr;
	for (size_t i = 0; i < CANARY_LEN; ++i) win_canary[i] = (uint8_t)(0x3C ^ i ^ win_ctr);
	memcpy(op - CANARY_LEN, win_canary, CANARY_LEN);
	win_out_ptr = op;
	return op;
}

bool vh_out_canary_ok(void)
{
	return win_out_ptr == NULL || memcmp(win_out_ptr - CANARY_LEN, win_canary, CANARY_LEN) == 0;
}

size_t vh_window_max(void) { return ARENA_MAX - CANARY_LEN; }

double cpu_now(void)
{
	struct timespec ts;
	clock_gettime(CLOCK_THREAD_CPUTIME_ID, &ts);
	return (double)ts.tv_sec + ts.tv_nsec * 1e-9;
}

const char *slice_mode_name(int mode)
{
	static const char *const n[] = { "whole", "onebyte", "random", "onein", "oneout", "twopiece" };
	return mode >= 0 && mode < 6 ? n[mode] : "?";
}

void slice_plan_random(vrng *r, slice_plan *p)
{
	memset(p, 0, sizeof(*p));
	unsigned k = vrng_below(r, 10);
	p->mode = k < 2 ? SL_WHOLE : (k < 3 ? SL_ONEBYTE : (k < 4 ? SL_ONEIN : (k < 5 ? SL_ONEOUT : SL_RANDOM)));
	p->seed = vrng_u64(r);
	static const size_t caps[] = { 1, 2, 3, 7, 16, 100, 1000, 8192, 70000, 1u << 20 };
	p->max_in = caps[vrng_below(r, 10)];
	p->max_out = caps[vrng_below(r, 10)];
	p->empty_pct = vrng_chance(r, 1, 2) ? 0 : vrng_below(r, 30);
	p->final_action = LZMA_FINISH;
}

static bool ret_is_documented(lzma_ret r)
{
	return (unsigned)r <= LZMA_SEEK_NEEDED;
}

void slicer_run(lzma_stream *strm, const uint8_t *in, size_t in_size,
		vbuf *out, const slice_plan *plan, slice_result *res)
{
	arenas_init();
	memset(res, 0, sizeof(*res));
	vrng r; vrng_init(&r, plan->seed, 0x51, 0, 0);
	size_t in_pos = 0;
	const uint64_t tin0 = strm->total_in, tout0 = strm->total_out;
	uint64_t max_calls = plan->max_calls;
	if (!max_calls) max_calls = 8 * (uint64_t)in_size + UINT64_C(400000000);
	bool prev_noprog = false;
	bool finishing = false;
	unsigned consecutive_buf_errors = 0;
	lzma_ret ret = LZMA_OK;
	uint8_t canary[CANARY_LEN];
	for (;;) {
		size_t in_left = in_size - in_pos;
		size_t want_in, want_out;
		switch (plan->mode) {
		default:
		case SL_WHOLE: want_in = in_left; want_out = ARENA_MAX - CANARY_LEN; break;
		case SL_ONEBYTE: want_in = 1; want_out = 1; break;
		case SL_ONEIN: want_in = 1; want_out = ARENA_MAX - CANARY_LEN; break;
		case SL_ONEOUT: want_in = in_left; want_out = 1; break;
		case SL_TWOPIECE:
			want_in = in_pos < plan->split ? plan->split - in_pos : in_left;
			want_out = ARENA_MAX - CANARY_LEN;
			break;
		case SL_RANDOM: {
			size_t mi = plan->max_in ? plan->max_in : 4096, mo = plan->max_out ? plan->max_out : 4096;
			want_in = vrng_chance(&r, 1, 8) ? 0 : 1 + vrng_logsize(&r, mi - 1);
			want_out = vrng_chance(&r, 1, 8) ? 0 : 1 + vrng_logsize(&r, mo - 1);
			if (plan->empty_pct && vrng_below(&r, 100) < plan->empty_pct) { want_in = 0; want_out = 0; }
			break;
		}
		}
		// Once a finishing action has been started the protocol requires
		// the same action and the whole remaining input on every call.
		if (finishing) want_in = in_left;
		if (want_in > in_left) want_in = in_left;
		if (want_in > ARENA_MAX) want_in = ARENA_MAX;
		if (want_out > ARENA_MAX - CANARY_LEN) want_out = ARENA_MAX - CANARY_LEN;
		if (plan->out_limit && out->n + want_out > plan->out_limit) {
			want_out = plan->out_limit > out->n ? plan->out_limit - out->n : 0;
		}
		bool last_piece = (in_pos + want_in == in_size);
		lzma_action action = (last_piece && plan->final_action != LZMA_RUN)
				? plan->final_action : LZMA_RUN;
		if (action != LZMA_RUN) finishing = true;
		// place input so that it ends at the guard page
		uint8_t *ip = in_arena + ARENA_MAX - want_in;
		if (want_in) memcpy(ip, in + in_pos, want_in);
		uint8_t *op = out_arena + ARENA_MAX - want_out;
		for (size_t i = 0; i < CANARY_LEN; ++i) canary[i] = (uint8_t)(0xC0 ^ i ^ res->calls);
		memcpy(op - CANARY_LEN, canary, CANARY_LEN);
		strm->next_in = want_in ? ip : (vrng_chance(&r, 1, 2) ? NULL : ip);
		strm->avail_in = want_in;
		strm->next_out = want_out ? op : (vrng_chance(&r, 1, 2) ? NULL : op);
		strm->avail_out = want_out;
		const uint8_t *ni0 = strm->next_in; uint8_t *no0 = strm->next_out;
		uint64_t ti0 = strm->total_in, to0 = strm->total_out;
		double t0 = cpu_now();
		ret = lzma_code(strm, action);
		double dt = cpu_now() - t0;
		if (dt > res->max_call_cpu_s) res->max_call_cpu_s = dt;
		++res->calls;
		size_t din = want_in - strm->avail_in, dout = want_out - strm->avail_out;
		// accounting checks (C11 core)
		if (strm->avail_in > want_in || strm->avail_out > want_out) {
			res->protocol_violation = true;
			snprintf(res->why, sizeof(res->why), "avail grew: in %zu->%zu out %zu->%zu", want_in, strm->avail_in, want_out, strm->avail_out);
			break;
		}
		if ((ni0 != NULL || din) && strm->next_in != ni0 + din) {
			res->protocol_violation = true; snprintf(res->why, sizeof(res->why), "next_in moved by %td, avail_in by %zu", strm->next_in - ni0, din); break;
		}
		if ((no0 != NULL || dout) && strm->next_out != no0 + dout) {
			res->protocol_violation = true; snprintf(res->why, sizeof(res->why), "next_out moved by %td, avail_out by %zu", strm->next_out - no0, dout); break;
		}
		if (strm->total_in != ti0 + din || strm->total_out != to0 + dout) {
			res->protocol_violation = true; snprintf(res->why, sizeof(res->why), "totals moved by %" PRIu64 "/%" PRIu64 " but buffers by %zu/%zu", strm->total_in - ti0, strm->total_out - to0, din, dout); break;
		}
		if (memcmp(op - CANARY_LEN, canary, CANARY_LEN) != 0) {
			res->protocol_violation = true; snprintf(res->why, sizeof(res->why), "bytes before next_out were overwritten"); break;
		}
		if (!ret_is_documented(ret)) {
			res->protocol_violation = true; snprintf(res->why, sizeof(res->why), "undocumented return value %d", (int)ret); break;
		}
		if (dout) vbuf_append(out, op, dout);
		in_pos += din;
		bool noprog = (din == 0 && dout == 0);
		if (ret == LZMA_OK) {
			if (noprog) {
				++res->noprogress_ok;
				if (prev_noprog && !plan->timeout_coder) {
					// two consecutive no-progress OKs: only legal for
					// coders with a timeout
					res->protocol_violation = true;
					snprintf(res->why, sizeof(res->why), "LZMA_OK twice in a row without progress (call %" PRIu64 ")", res->calls);
					break;
				}
			}
			prev_noprog = noprog;
			consecutive_buf_errors = 0;
		} else if (ret == LZMA_BUF_ERROR) {
			if (!noprog) { res->protocol_violation = true; snprintf(res->why, sizeof(res->why), "LZMA_BUF_ERROR with progress"); break; }
			if (!prev_noprog) { res->protocol_violation = true; snprintf(res->why, sizeof(res->why), "LZMA_BUF_ERROR on first stuck call (call %" PRIu64 ", avail_in=%zu avail_out=%zu)", res->calls, want_in, want_out); break; }
			++res->buf_errors;
			// stuck for real? (all input given, or no output space by plan)
			bool can_continue = false;
			if (plan->mode == SL_RANDOM && (want_in < in_left || want_out == 0))
				can_continue = true;
			if (plan->out_limit && out->n >= plan->out_limit) { res->out_limit_hit = true; can_continue = false; }
			// Both input and output space were offered and still nothing
			// moved: the coder is stuck for good (e.g. MicroLZMA after
			// comp_size bytes). Also bound consecutive BUF_ERRORs.
			if (want_in > 0 && want_out > 0) can_continue = false;
			if (++consecutive_buf_errors > 64) can_continue = false;
			if (!can_continue) break;
			prev_noprog = true; // still "consecutive" until progress is made
			if (res->calls >= max_calls) { res->hit_call_limit = true; break; }
			continue;
		} else if (plan->continue_informational && (ret == LZMA_NO_CHECK || ret == LZMA_UNSUPPORTED_CHECK || ret == LZMA_GET_CHECK)) {
			++res->informational;
			prev_noprog = false;
		} else {
			break; // STREAM_END or an error / informational code
		}
		if (res->calls >= max_calls) { res->hit_call_limit = true; break; }
	}
	res->ret = ret;
	res->total_in = strm->total_in - tin0;
	res->total_out = strm->total_out - tout0;
}

/////////////////////////
// harness main helper //
/////////////////////////

void hx_set_case_watchdog(unsigned seconds);
static hx_args g_args;
static int progress_fd = -1;
static uint64_t n_eval, n_viol, n_samples;
static struct { char name[48]; uint64_t v; bool ismax; } counters[256];
static size_t ncounters;
static uint64_t *dset; static size_t dcap, dn, dnt;
static FILE *hashfile;

void hx_parse(int argc, char **argv, hx_args *a)
{
	memset(a, 0, sizeof(*a));
	a->seed = 12648430; a->nshards = 1; a->cases = 100; a->only = -1; a->mode = ""; a->prop = "";
	a->extra = "";
	for (int i = 1; i < argc; ++i) {
		const char *k = argv[i];
		const char *v = i + 1 < argc ? argv[i + 1] : "";
		if (!strcmp(k, "--seed")) { a->seed = strtoull(v, NULL, 0); ++i; }
		else if (!strcmp(k, "--shard")) { unsigned s = 0, n = 1; sscanf(v, "%u/%u", &s, &n); a->shard = s; a->nshards = n ? n : 1; ++i; }
		else if (!strcmp(k, "--cases")) { a->cases = strtoull(v, NULL, 0); ++i; }
		else if (!strcmp(k, "--start")) { a->start = strtoull(v, NULL, 0); ++i; }
		else if (!strcmp(k, "--only")) { a->only = strtoll(v, NULL, 0); ++i; }
		else if (!strcmp(k, "--skip")) { if (a->nskip < 64) a->skip[a->nskip++] = strtoull(v, NULL, 0); ++i; }
		else if (!strcmp(k, "--thorough")) { a->thorough = 1; }
		else if (!strcmp(k, "--mode")) { a->mode = v; ++i; }
		else if (!strcmp(k, "--prop")) { a->prop = v; ++i; }
		else if (!strcmp(k, "--corpus")) { a->corpus = v; ++i; }
		else if (!strcmp(k, "--outdir")) { a->outdir = v; ++i; }
		else if (!strcmp(k, "--extra")) { a->extra = v; ++i; }
		else { fprintf(stderr, "harness: unknown argument %s\n", k); exit(2); }
	}
	g_args = *a;
	const char *pf = getenv("VERIF_PROGRESS");
	if (pf && *pf) progress_fd = open(pf, O_WRONLY | O_CREAT, 0644);
	const char *hf = getenv("VERIF_HASHFILE");
	if (hf && *hf) hashfile = fopen(hf, "ab");
	setvbuf(stdout, NULL, _IOLBF, 0);
	// every engine gets a per-case wall-clock watchdog (exit code 87): a coder that loops forever inside
	// lzma_code() must not hang the check. VERIF_CASE_WATCHDOG=<seconds> overrides, 0 disables.
	const char *wd = getenv("VERIF_CASE_WATCHDOG");
	hx_set_case_watchdog(wd && *wd ? (unsigned)strtoul(wd, NULL, 10) : (a->only >= 0 ? 150 : 60));
}

bool hx_next_case(const hx_args *a, uint64_t *idx)
{
	// *idx must be initialised to UINT64_MAX before the first call
	if (a->only >= 0) {
		if (*idx == UINT64_MAX) { *idx = (uint64_t)a->only; return true; }
		return false;
	}
	uint64_t next;
	if (*idx == UINT64_MAX) {
		next = a->shard;
		while (next < a->start) next += a->nshards;
	} else next = *idx + a->nshards;
	for (bool again = true; again; ) {
		again = false;
		for (unsigned k = 0; k < a->nskip; ++k) if (a->skip[k] == next) { next += a->nshards; again = true; }
	}
	if (next >= a->cases) return false;
	*idx = next;
	return true;
}

static double case_t0; static uint64_t case_prev = UINT64_MAX; static double slow_s; static uint64_t slow_idx;
static double wall_now(void) { struct timespec ts; clock_gettime(CLOCK_MONOTONIC, &ts); return (double)ts.tv_sec + ts.tv_nsec * 1e-9; }
static void case_time_close(void)
{
	if (case_prev == UINT64_MAX) return;
	double d = wall_now() - case_t0;
	if (d > slow_s) { slow_s = d; slow_idx = case_prev; }
}

static unsigned case_watchdog_s;
static void on_alarm(int sig)
{
	(void)sig;
	static const char msg[] = "HX-WATCHDOG: the current case exceeded its wall-clock budget\n";
	if (write(2, msg, sizeof(msg) - 1) < 0) {}
	_exit(87);
}

void hx_set_case_watchdog(unsigned seconds)
{
	case_watchdog_s = seconds;
	if (seconds) signal(SIGALRM, on_alarm);
}

static double last_stats_emit;
static uint64_t stats_upto;
static void emit_stats(bool final);

void hx_case_begin(uint64_t idx)
{
	case_time_close();
	{
		double now = wall_now();
		if (last_stats_emit == 0) last_stats_emit = now;
		else if (now - last_stats_emit > 4.0) { last_stats_emit = now; if (hashfile) fflush(hashfile); stats_upto = idx; emit_stats(false); }
	}
	if (case_watchdog_s) alarm(case_watchdog_s);
	case_prev = idx; case_t0 = wall_now();
	if (progress_fd >= 0) {
		char b[32]; int n = snprintf(b, sizeof(b), "%20" PRIu64 "\n", idx);
		if (pwrite(progress_fd, b, (size_t)n, 0) < 0) {}
	}
}

static size_t counter_find(const char *name)
{
	for (size_t i = 0; i < ncounters; ++i) if (!strcmp(counters[i].name, name)) return i;
	if (ncounters == 256) return 255;
	snprintf(counters[ncounters].name, sizeof(counters[0].name), "%s", name);
	counters[ncounters].v = 0;
	return ncounters++;
}

void hx_count(const char *name, uint64_t add) { counters[counter_find(name)].v += add; }
void hx_max(const char *name, uint64_t v) { size_t i = counter_find(name); counters[i].ismax = true; if (v > counters[i].v) counters[i].v = v; }
void hx_eval(void) { ++n_eval; }

void hx_distinct(uint64_t hash, bool nontrivial)
{
	if (!nontrivial) return;
	if (hash == 0) hash = 1;
	if ((dn + 1) * 2 > dcap) {
		size_t oc = dcap; uint64_t *old = dset;
		dcap = oc ? oc * 2 : 4096; dset = calloc(dcap, sizeof(uint64_t)); dn = 0;
		for (size_t i = 0; i < oc; ++i) if (old[i]) {
			size_t j = (size_t)(old[i] * UINT64_C(0x9E3779B97F4A7C15) >> 20) & (dcap - 1);
			while (dset[j]) j = (j + 1) & (dcap - 1);
			dset[j] = old[i]; ++dn;
		}
		free(old);
	}
	size_t j = (size_t)(hash * UINT64_C(0x9E3779B97F4A7C15) >> 20) & (dcap - 1);
	while (dset[j]) { if (dset[j] == hash) return; j = (j + 1) & (dcap - 1); }
	dset[j] = hash; ++dn; ++dnt;
	if (hashfile) fwrite(&hash, 8, 1, hashfile);
}

static void json_str(FILE *f, const char *s)
{
	fputc('"', f);
	for (; *s; ++s) {
		unsigned char c = (unsigned char)*s;
		if (c == '"' || c == '\\') { fputc('\\', f); fputc(c, f); }
		else if (c < 0x20 || c >= 0x7f) fprintf(f, "\\u%04x", c);
		else fputc(c, f);
	}
	fputc('"', f);
}

void hx_violation(const char *prop, const char *key, uint64_t idx, const char *fmt, ...)
{
	char buf[4000]; va_list ap; va_start(ap, fmt); vsnprintf(buf, sizeof(buf), fmt, ap); va_end(ap);
	++n_viol;
	fputs("{\"t\":\"viol\",\"prop\":", stdout); json_str(stdout, prop);
	fputs(",\"key\":", stdout); json_str(stdout, key);
	fprintf(stdout, ",\"case\":%" PRIu64 ",\"detail\":", idx); json_str(stdout, buf);
	fputs("}\n", stdout); fflush(stdout);
}

void hx_sample(const char *fmt, ...)
{
	if (n_samples >= 4 && g_args.only < 0) return;
	++n_samples;
	char buf[2000]; va_list ap; va_start(ap, fmt); vsnprintf(buf, sizeof(buf), fmt, ap); va_end(ap);
	fputs("{\"t\":\"sample\",\"s\":", stdout); json_str(stdout, buf); fputs("}\n", stdout);
}

void hx_note(const char *fmt, ...)
{
	char buf[2000]; va_list ap; va_start(ap, fmt); vsnprintf(buf, sizeof(buf), fmt, ap); va_end(ap);
	fputs("{\"t\":\"note\",\"s\":", stdout); json_str(stdout, buf); fputs("}\n", stdout);
}

void visits_reset(void)
{
	memset(lzma_verif_visit_counts, 0, sizeof(lzma_verif_visit_counts));
}

// The stats line is cumulative. Besides the final one (hx_finish) a provisional one ("final":0) is written between
// cases every few seconds, so that a process that is killed later (sanitizer abort, case watchdog on a loaded
// machine) does not take the counters of the cases it had completed with it; the driver uses the last line only.
// stats_upto in provisional lines: the case about to begin (every earlier case of this process is counted)
static void emit_stats(bool final)
{
	fprintf(stdout, "{\"t\":\"stats\",\"final\":%d,\"upto\":%" PRIu64 ",\"evaluations\":%" PRIu64 ",\"distinct_nontrivial\":%zu,\"violations\":%" PRIu64 ",\"counters\":{", final ? 1 : 0, stats_upto, n_eval, dnt, n_viol);
	for (size_t i = 0; i < ncounters; ++i) {
		if (i) fputc(',', stdout);
		json_str(stdout, counters[i].name);
		fprintf(stdout, ":%s%" PRIu64, "", counters[i].v);
	}
	fputs("},\"maxnames\":[", stdout);
	bool first = true;
	for (size_t i = 0; i < ncounters; ++i) if (counters[i].ismax) {
		if (!first) fputc(',', stdout);
		first = false; json_str(stdout, counters[i].name);
	}
	fputs("],\"visits\":[", stdout);
	for (int d = 0; d < VERIF_D_COUNT; ++d) {
		if (d) fputc(',', stdout);
		fputc('[', stdout);
		int last = -1;
		for (int v = 0; v < VERIF_VALUES; ++v) if (lzma_verif_visit_counts[d][v]) last = v;
		for (int v = 0; v <= last; ++v) fprintf(stdout, "%s%" PRIu64, v ? "," : "", lzma_verif_visit_counts[d][v]);
		fputc(']', stdout);
	}
	fputs("]}\n", stdout);
	fflush(stdout);
}

void hx_finish(void)
{
	case_time_close();
	hx_max("slowest_case_ms", (uint64_t)(slow_s * 1000));
	if (slow_s > 5.0) hx_note("slowest case %" PRIu64 " took %.1f s", slow_idx, slow_s);
	emit_stats(true);
	if (hashfile) fclose(hashfile);
}

const char *lzma_ret_name(lzma_ret r)
{
	static const char *const n[] = { "OK", "STREAM_END", "NO_CHECK", "UNSUPPORTED_CHECK",
		"GET_CHECK", "MEM_ERROR", "MEMLIMIT_ERROR", "FORMAT_ERROR", "OPTIONS_ERROR",
		"DATA_ERROR", "BUF_ERROR", "PROG_ERROR", "SEEK_NEEDED" };
	static char tmp[32];
	if ((unsigned)r < sizeof(n) / sizeof(n[0])) return n[r];
	snprintf(tmp, sizeof(tmp), "RET_%d", (int)r);
	return tmp;
}

void hexdump_short(const uint8_t *p, size_t n, char *dst, size_t dstsize)
{
	size_t w = 0;
	for (size_t i = 0; i < n && w + 3 < dstsize; ++i) w += (size_t)snprintf(dst + w, dstsize - w, "%02x", p[i]);
	if (dstsize) dst[w < dstsize ? w : dstsize - 1] = 0;
}

bool load_file(const char *path, vbuf *b)
{
	FILE *f = fopen(path, "rb");
	if (!f) return false;
	vbuf_clear(b);
	uint8_t tmp[65536]; size_t n;
	while ((n = fread(tmp, 1, sizeof(tmp), f)) > 0) vbuf_append(b, tmp, n);
	fclose(f);
	return true;
}

static int cmpstr(const void *a, const void *b) { return strcmp(*(char *const *)a, *(char *const *)b); }

size_t list_dir(const char *dir, char ***names)
{
	DIR *d = opendir(dir);
	*names = NULL;
	if (!d) return 0;
	size_t n = 0, cap = 0; struct dirent *e;
	while ((e = readdir(d)) != NULL) {
		if (e->d_name[0] == '.') continue;
		char path[4096]; snprintf(path, sizeof(path), "%s/%s", dir, e->d_name);
		struct stat st; if (stat(path, &st) != 0 || !S_ISREG(st.st_mode)) continue;
		if (n == cap) { cap = cap ? cap * 2 : 64; *names = realloc(*names, cap * sizeof(char *)); }
		(*names)[n++] = strdup(path);
	}
	closedir(d);
	if (n) qsort(*names, n, sizeof(char *), cmpstr);
	return n;
}
