#define _GNU_SOURCE
#include "gen_stream.h"

const char *const sk_names[SK_COUNT] = {
	"xz", "alone", "lzip", "raw", "block", "microlzma", "index", "garbage", "corpus",
};

void gstream_free(gstream *g)
{
	vbuf_free(&g->data); vbuf_free(&g->plain);
	if (g->cfg_valid) vcfg_free(&g->cfg);
	g->cfg_valid = false;
}

// Run an initialised encoder over in[0..n) with the given actions at the
// given offsets (sorted); appends to out. Returns final lzma_ret.
static lzma_ret encode_all(lzma_stream *strm, const uint8_t *in, size_t n,
		const size_t *flush_at, unsigned nflush, lzma_action flush_action, vbuf *out)
{
	uint8_t buf[65536];
	size_t pos = 0; unsigned fi = 0;
	for (;;) {
		size_t upto = fi < nflush ? flush_at[fi] : n;
		if (upto > n) upto = n;
		lzma_action a = fi < nflush ? flush_action : LZMA_FINISH;
		strm->next_in = in + pos; strm->avail_in = upto - pos;
		for (;;) {
			strm->next_out = buf; strm->avail_out = sizeof(buf);
			lzma_ret ret = lzma_code(strm, a);
			vbuf_append(out, buf, sizeof(buf) - strm->avail_out);
			if (ret == LZMA_STREAM_END) break;
			if (ret != LZMA_OK) return ret;
		}
		pos = upto;
		if (fi >= nflush) return LZMA_STREAM_END;
		++fi;
	}
}

static bool cfg_has_bcj(const vcfg *c)
{
	for (unsigned i = 0; i < c->nfilters; ++i)
		if (c->filters[i].id >= LZMA_FILTER_X86 && c->filters[i].id <= LZMA_FILTER_RISCV) return true;
	return false;
}

void gen_xz_multi(vrng *r, gstream *g, unsigned nstreams, unsigned nblocks, size_t max_plain, bool mt, bool allow_bcj)
{
	memset(g, 0, sizeof(*g));
	g->kind = SK_XZ; g->plain_known = true; g->nstreams = nstreams; g->nblocks_hint = nblocks;
	int w = 0;
	for (unsigned s = 0; s < nstreams; ++s) {
		vcfg c; gen_cfg(r, &c, allow_bcj ? VCFG_XZ : VCFG_ALLOW_DELTA, 1u << 20);
		if (cfg_has_bcj(&c)) g->has_bcj = true;
		vbuf plain = {0};
		size_t size = gen_size(r, max_plain);
		gen_data(r, &plain, size, -1, c.lzma.dict_size);
		lzma_stream strm = LZMA_STREAM_INIT;
		lzma_ret ret;
		size_t fl[64]; unsigned nfl = 0;
		if (mt) {
			uint64_t bs = nblocks > 1 ? (size / nblocks + 1) : 0;
			if (bs && bs < 4096) bs = 4096;
			lzma_mt m = { .threads = 1 + vrng_below(r, 4), .block_size = bs, .filters = c.filters, .check = c.check };
			ret = lzma_stream_encoder_mt(&strm, &m);
		} else {
			ret = lzma_stream_encoder(&strm, c.filters, c.check);
			for (unsigned b = 1; b < nblocks && nfl < 64; ++b)
				fl[nfl++] = (size_t)((uint64_t)size * b / nblocks);
		}
		if (ret == LZMA_OK) ret = encode_all(&strm, plain.p, plain.n, fl, nfl, LZMA_FULL_FLUSH, &g->data);
		lzma_end(&strm);
		if (ret != LZMA_STREAM_END) { g->plain_known = false; }
		vbuf_append(&g->plain, plain.p, plain.n);
		w += snprintf(g->desc + w, sizeof(g->desc) - (size_t)w, "%s[%s,%zuB,%ublk%s]", s ? "+" : "xz", c.desc, plain.n, nblocks, mt ? ",mt" : "");
		if ((size_t)w >= sizeof(g->desc)) w = sizeof(g->desc) - 1;
		vbuf_free(&plain); vcfg_free(&c);
		if (s + 1 < nstreams || vrng_chance(r, 1, 4)) {
			unsigned pad = 4 * vrng_below(r, 4);
			for (unsigned i = 0; i < pad; ++i) vbuf_putc(&g->data, 0);
		}
	}
}

void lzip_member(vrng *r, const uint8_t *plain, size_t n, unsigned version, uint32_t dict_size, vbuf *out)
{
	(void)r;
	size_t start = out->n;
	// dictionary size coding: bits 0-4 = log2, bits 5-7 = fraction
	unsigned b = 12; while (b < 29 && (1u << b) < dict_size) ++b;
	uint8_t ds = (uint8_t)b;
	uint32_t real_dict = 1u << b;
	uint8_t hdr[6] = { 'L', 'Z', 'I', 'P', (uint8_t)version, ds };
	vbuf_append(out, hdr, 6);
	lzma_options_lzma o; lzma_lzma_preset(&o, 1);
	o.dict_size = real_dict; o.lc = 3; o.lp = 0; o.pb = 2;
	lzma_filter f[2] = { { LZMA_FILTER_LZMA1, &o }, { LZMA_VLI_UNKNOWN, NULL } };
	lzma_stream strm = LZMA_STREAM_INIT;
	if (lzma_raw_encoder(&strm, f) == LZMA_OK)
		encode_all(&strm, plain, n, NULL, 0, LZMA_FINISH, out);
	lzma_end(&strm);
	uint32_t crc = lzma_crc32(plain, n, 0);
	uint8_t ft[20];
	for (int i = 0; i < 4; ++i) ft[i] = (uint8_t)(crc >> (8 * i));
	for (int i = 0; i < 8; ++i) ft[4 + i] = (uint8_t)((uint64_t)n >> (8 * i));
	uint64_t msize = (out->n - start) + (version == 0 ? 12 : 20);
	for (int i = 0; i < 8; ++i) ft[12 + i] = (uint8_t)(msize >> (8 * i));
	vbuf_append(out, ft, version == 0 ? 12 : 20);
}

void gen_stream(vrng *r, gstream *g, int kind, size_t max_plain)
{
	if (kind < 0) {
		static const uint8_t w[] = { SK_XZ, SK_XZ, SK_XZ, SK_XZ, SK_ALONE, SK_ALONE, SK_LZIP, SK_LZIP,
			SK_RAW, SK_RAW, SK_BLOCK, SK_MICROLZMA, SK_INDEX, SK_GARBAGE };
		kind = w[vrng_below(r, sizeof(w))];
	}
	if (kind == SK_XZ && vrng_chance(r, 1, 25)) {
		// a Stream with 128..400 tiny Blocks: the Number of Records in the Index (and in the decoder's running
		// hash of it) then needs two bytes, and the Index itself spans several hundred bytes
		memset(g, 0, sizeof(*g));
		g->kind = SK_XZ; g->plain_known = true; g->nstreams = 1;
		unsigned nb = 128 + vrng_below(r, 273);
		g->nblocks_hint = nb;
		vcfg c; gen_cfg(r, &c, VCFG_ALLOW_DELTA, 1u << 16);
		size_t fl[400]; size_t total = 0;
		for (unsigned b = 0; b + 1 < nb; ++b) { total += 1 + vrng_below(r, 6); fl[b] = total; }
		total += 1 + vrng_below(r, 6);
		gen_data(r, &g->plain, total, -1, 4096);
		lzma_stream strm = LZMA_STREAM_INIT;
		lzma_ret ret = lzma_stream_encoder(&strm, c.filters, c.check);
		if (ret == LZMA_OK) ret = encode_all(&strm, g->plain.p, g->plain.n, fl, nb - 1, LZMA_FULL_FLUSH, &g->data);
		lzma_end(&strm);
		if (ret != LZMA_STREAM_END) g->plain_known = false;
		g->check = c.check;
		snprintf(g->desc, sizeof(g->desc), "xz[%s,%zuB,%u tiny blocks]", c.desc, g->plain.n, nb);
		vcfg_free(&c);
		return;
	}
	if (kind == SK_XZ) {
		unsigned k = vrng_below(r, 10);
		unsigned ns = k < 7 ? 1 : (k < 9 ? 2 : 3);
		k = vrng_below(r, 10);
		unsigned nb = k < 5 ? 1 : (k < 8 ? 2 + vrng_below(r, 3) : 5 + vrng_below(r, 12));
		gen_xz_multi(r, g, ns, nb, max_plain, vrng_chance(r, 1, 3), true);
		return;
	}
	memset(g, 0, sizeof(*g));
	g->kind = kind; g->plain_known = true;
	size_t size = gen_size(r, max_plain);
	lzma_stream strm = LZMA_STREAM_INIT;
	lzma_ret ret = LZMA_PROG_ERROR;
	switch (kind) {
	case SK_ALONE: {
		gen_cfg(r, &g->cfg, VCFG_ONLY_LZMA1, 1u << 20); g->cfg_valid = true;
		gen_data(r, &g->plain, size, -1, g->cfg.lzma.dict_size);
		ret = lzma_alone_encoder(&strm, &g->cfg.lzma);
		if (ret == LZMA_OK) ret = encode_all(&strm, g->plain.p, g->plain.n, NULL, 0, LZMA_FINISH, &g->data);
		lzma_end(&strm);
		// alone encoder writes unknown size + EOPM; sometimes patch in the
		// known size (valid: known size with EOPM)
		if (ret == LZMA_STREAM_END && g->data.n >= 13 && vrng_chance(r, 1, 3)) {
			uint64_t n = g->plain.n;
			for (int i = 0; i < 8; ++i) g->data.p[5 + i] = (uint8_t)(n >> (8 * i));
			snprintf(g->desc, sizeof(g->desc), "alone[%s,%zuB,known-size+eopm]", g->cfg.desc, g->plain.n);
		} else
			snprintf(g->desc, sizeof(g->desc), "alone[%s,%zuB]", g->cfg.desc, g->plain.n);
		break;
	}
	case SK_LZIP: {
		unsigned members = vrng_chance(r, 2, 3) ? 1 : 2 + vrng_below(r, 2);
		g->nstreams = members;
		int w = snprintf(g->desc, sizeof(g->desc), "lzip[");
		for (unsigned m = 0; m < members; ++m) {
			vbuf p = {0};
			size_t sz = m == 0 ? size : gen_size(r, max_plain / 2);
			uint32_t dict = 4096u << vrng_below(r, 8);
			gen_data(r, &p, sz, -1, dict);
			unsigned ver = vrng_below(r, 2);
			lzip_member(r, p.p, p.n, ver, dict, &g->data);
			vbuf_append(&g->plain, p.p, p.n);
			w += snprintf(g->desc + w, sizeof(g->desc) - (size_t)w, "v%u:%zuB ", ver, p.n);
			vbuf_free(&p);
		}
		if (vrng_chance(r, 1, 4)) {
			// trailing data (not starting with the magic)
			size_t tl = 1 + vrng_below(r, 20);
			for (size_t i = 0; i < tl; ++i) vbuf_putc(&g->data, (uint8_t)('a' + vrng_below(r, 20)));
			w += snprintf(g->desc + w, sizeof(g->desc) - (size_t)w, "trailing=%zu", tl);
		}
		snprintf(g->desc + w, sizeof(g->desc) - (size_t)w, "]");
		ret = LZMA_STREAM_END;
		break;
	}
	case SK_RAW: {
		gen_cfg(r, &g->cfg, VCFG_XZ | VCFG_ALLOW_LZMA1 | VCFG_ALLOW_PRESETD, 1u << 20); g->cfg_valid = true;
		g->has_bcj = cfg_has_bcj(&g->cfg);
		gen_data(r, &g->plain, size, -1, g->cfg.lzma.dict_size);
		ret = lzma_raw_encoder(&strm, g->cfg.filters);
		if (ret == LZMA_OK) ret = encode_all(&strm, g->plain.p, g->plain.n, NULL, 0, LZMA_FINISH, &g->data);
		lzma_end(&strm);
		snprintf(g->desc, sizeof(g->desc), "raw[%s,%zuB]", g->cfg.desc, g->plain.n);
		break;
	}
	case SK_BLOCK: {
		gen_cfg(r, &g->cfg, VCFG_XZ, 1u << 20); g->cfg_valid = true;
		g->has_bcj = cfg_has_bcj(&g->cfg);
		g->check = g->cfg.check;
		gen_data(r, &g->plain, size, -1, g->cfg.lzma.dict_size);
		lzma_block b; memset(&b, 0, sizeof(b));
		b.version = 1; b.check = g->cfg.check; b.filters = g->cfg.filters;
		size_t bound = lzma_block_buffer_bound(g->plain.n);
		vbuf_reserve(&g->data, bound + 8);
		size_t pos = 0;
		ret = lzma_block_buffer_encode(&b, NULL, g->plain.p, g->plain.n, g->data.p, &pos, bound);
		g->data.n = pos;
		if (ret == LZMA_OK) ret = LZMA_STREAM_END;
		snprintf(g->desc, sizeof(g->desc), "block[%s,%zuB]", g->cfg.desc, g->plain.n);
		break;
	}
	case SK_MICROLZMA: {
		gen_cfg(r, &g->cfg, VCFG_ONLY_LZMA1, 1u << 16); g->cfg_valid = true;
		if (size > 60000) size = 60000;
		gen_data(r, &g->plain, size, -1, g->cfg.lzma.dict_size);
		size_t lim = 6 + vrng_logsize(r, 70000);
		vbuf_reserve(&g->data, lim + 8);
		ret = lzma_microlzma_encoder(&strm, &g->cfg.lzma);
		if (ret == LZMA_OK) {
			strm.next_in = g->plain.p; strm.avail_in = g->plain.n;
			strm.next_out = g->data.p; strm.avail_out = lim;
			ret = lzma_code(&strm, LZMA_FINISH);
			g->data.n = (size_t)strm.total_out;
			g->plain.n = (size_t)strm.total_in;
		}
		lzma_end(&strm);
		g->comp_size = g->data.n; g->uncomp_size = g->plain.n;
		snprintf(g->desc, sizeof(g->desc), "microlzma[%s,%zuB->%zuB]", g->cfg.desc, g->plain.n, g->data.n);
		break;
	}
	case SK_INDEX: {
		lzma_index *idx = lzma_index_init(NULL);
		unsigned n = vrng_below(r, 40);
		if (vrng_chance(r, 1, 10)) n = 500 + vrng_below(r, 600);
		for (unsigned i = 0; i < n && idx; ++i) {
			lzma_vli un = 5 + vrng_logsize(r, 1u << 24), uc = vrng_logsize(r, 1u << 26);
			if (lzma_index_append(idx, NULL, un, uc) != LZMA_OK) break;
		}
		if (idx) {
			size_t sz = (size_t)lzma_index_size(idx);
			vbuf_reserve(&g->data, sz + 8);
			size_t pos = 0;
			if (lzma_index_buffer_encode(idx, g->data.p, &pos, sz) == LZMA_OK) { g->data.n = pos; ret = LZMA_STREAM_END; }
			lzma_index_end(idx, NULL);
		}
		g->plain_known = false;
		snprintf(g->desc, sizeof(g->desc), "index[%u records]", n);
		break;
	}
	default:
	case SK_GARBAGE: {
		g->kind = SK_GARBAGE; g->plain_known = false;
		size_t n = gen_size(r, 4096);
		vbuf_reserve(&g->data, n + 1); vrng_fill(r, g->data.p, n); g->data.n = n;
		if (n >= 6 && vrng_chance(r, 1, 2)) {
			static const uint8_t xzm[6] = { 0xFD, '7', 'z', 'X', 'Z', 0 };
			static const uint8_t lzm[4] = { 'L', 'Z', 'I', 'P' };
			if (vrng_chance(r, 1, 2)) memcpy(g->data.p, xzm, 6); else memcpy(g->data.p, lzm, 4);
		}
		snprintf(g->desc, sizeof(g->desc), "garbage[%zuB]", n);
		ret = LZMA_STREAM_END;
		break;
	}
	}
	if (ret != LZMA_STREAM_END) {
		g->plain_known = false;
		size_t l = strlen(g->desc);
		snprintf(g->desc + l, sizeof(g->desc) - l, " ENCODE-FAILED(%s)", lzma_ret_name(ret));
	}
}

static bool ends_with(const char *s, const char *suf)
{
	size_t a = strlen(s), b = strlen(suf);
	return a >= b && !strcmp(s + a - b, suf);
}

bool gen_corpus(vrng *r, gstream *g, char **names, size_t nnames)
{
	memset(g, 0, sizeof(*g));
	g->kind = SK_CORPUS;
	for (int tries = 0; tries < 20 && nnames; ++tries) {
		const char *p = names[vrng_below(r, (uint32_t)nnames)];
		int sub = -1;
		if (ends_with(p, ".xz")) sub = SK_XZ;
		else if (ends_with(p, ".lzma")) sub = SK_ALONE;
		else if (ends_with(p, ".lz")) sub = SK_LZIP;
		else if (ends_with(p, ".idx")) sub = SK_INDEX;
		if (sub < 0) continue;
		if (!load_file(p, &g->data)) continue;
		if (g->data.n > (1u << 20)) continue;
		g->sub = sub;
		snprintf(g->path, sizeof(g->path), "%s", p);
		const char *base = strrchr(p, '/'); base = base ? base + 1 : p;
		snprintf(g->desc, sizeof(g->desc), "corpus[%s]", base);
		return true;
	}
	return false;
}

void mutate(vrng *r, vbuf *b, char *desc, size_t descsz)
{
	unsigned nmut = 1 + (vrng_chance(r, 1, 3) ? vrng_below(r, 4) : 0);
	size_t w = 0;
	if (descsz) desc[0] = 0;
	for (unsigned m = 0; m < nmut; ++m) {
		unsigned k = vrng_below(r, 100);
		if (b->n == 0) k = 99;
		if (k < 35) {
			size_t pos = (size_t)vrng_below64(r, b->n); unsigned bit = vrng_below(r, 8);
			b->p[pos] ^= (uint8_t)(1u << bit);
			w += (size_t)snprintf(desc + w, w < descsz ? descsz - w : 0, "flip@%zu.%u ", pos, bit);
		} else if (k < 50) {
			size_t pos = (size_t)vrng_below64(r, b->n); size_t l = 1 + vrng_below(r, 8);
			if (l > b->n - pos) l = b->n - pos;
			unsigned kk = vrng_below(r, 4);
			for (size_t i = 0; i < l; ++i) b->p[pos + i] = kk == 0 ? 0 : (kk == 1 ? 0xFF : (uint8_t)vrng_u64(r));
			w += (size_t)snprintf(desc + w, w < descsz ? descsz - w : 0, "overwrite@%zu+%zu ", pos, l);
		} else if (k < 70) {
			// truncation: anywhere, biased to the last bytes
			size_t nl = vrng_chance(r, 1, 2) ? (size_t)vrng_below64(r, b->n) : b->n - 1 - vrng_below(r, b->n < 40 ? (uint32_t)b->n : 40);
			b->n = nl;
			w += (size_t)snprintf(desc + w, w < descsz ? descsz - w : 0, "trunc=%zu ", nl);
		} else if (k < 80) {
			size_t pos = (size_t)vrng_below64(r, b->n + 1); size_t l = 1 + vrng_below(r, 8);
			vbuf_reserve(b, b->n + l);
			memmove(b->p + pos + l, b->p + pos, b->n - pos);
			for (size_t i = 0; i < l; ++i) b->p[pos + i] = vrng_chance(r, 1, 2) ? 0 : (uint8_t)vrng_u64(r);
			b->n += l;
			w += (size_t)snprintf(desc + w, w < descsz ? descsz - w : 0, "insert@%zu+%zu ", pos, l);
		} else if (k < 88) {
			size_t pos = (size_t)vrng_below64(r, b->n); size_t l = 1 + vrng_below(r, 8);
			if (l > b->n - pos) l = b->n - pos;
			memmove(b->p + pos, b->p + pos + l, b->n - pos - l);
			b->n -= l;
			w += (size_t)snprintf(desc + w, w < descsz ? descsz - w : 0, "delete@%zu+%zu ", pos, l);
		} else if (k < 94) {
			// arithmetic on a byte (size fields off by one)
			size_t pos = (size_t)vrng_below64(r, b->n);
			b->p[pos] = (uint8_t)(b->p[pos] + (vrng_chance(r, 1, 2) ? 1 : 0xFF));
			w += (size_t)snprintf(desc + w, w < descsz ? descsz - w : 0, "inc@%zu ", pos);
		} else {
			// append bytes
			size_t l = 1 + vrng_below(r, 16);
			unsigned kk = vrng_below(r, 3);
			for (size_t i = 0; i < l; ++i) vbuf_putc(b, kk == 0 ? 0 : (uint8_t)vrng_u64(r));
			w += (size_t)snprintf(desc + w, w < descsz ? descsz - w : 0, "append+%zu ", l);
		}
		if (w >= descsz && descsz) w = descsz - 1;
	}
}

void xz_fix_header_crcs(vbuf *b)
{
	if (b->n >= 12) {
		uint32_t c = lzma_crc32(b->p + 6, 2, 0);
		for (int i = 0; i < 4; ++i) b->p[8 + i] = (uint8_t)(c >> (8 * i));
	}
	if (b->n >= 24) {
		uint8_t *f = b->p + b->n - 12;
		if (f[10] == 'Y' && f[11] == 'Z') {
			uint32_t c = lzma_crc32(f + 4, 6, 0);
			for (int i = 0; i < 4; ++i) f[i] = (uint8_t)(c >> (8 * i));
		}
	}
}


// Walk the Blocks of the first Stream (as far as the Block Headers carry a Compressed Size) and, in the k-th Block
// Header that has a BCJ filter with a 4-byte start offset and an alignment above 1, make that offset misaligned
// (an unsupported option: the header is well-formed, its CRC32 is fixed, the filter's memory usage is known, and
// only the decoder's initialisation refuses it). Returns the index of the Block changed, or -1.
static size_t rd_vli(const uint8_t *p, size_t n, size_t *pos, uint64_t *v)
{
	*v = 0; unsigned sh = 0;
	while (*pos < n && sh < 63) { uint8_t b = p[(*pos)++]; *v |= (uint64_t)(b & 0x7F) << sh; if (!(b & 0x80)) return 1; sh += 7; }
	return 0;
}

int xz_misalign_bcj_offset(vbuf *d, vrng *r)
{
	if (d->n < 24 || memcmp(d->p, "\xfd" "7zXZ", 6) != 0) return -1;
	static const unsigned chk_size[16] = { 0, 4, 4, 4, 8, 8, 8, 16, 16, 16, 32, 32, 32, 64, 64, 64 };
	const size_t csz = chk_size[d->p[7] & 0x0F];
	size_t off = 12; int cand[64]; size_t cand_off[64], cand_prop[64]; unsigned nc = 0; int bi = 0;
	while (off + 8 < d->n && d->p[off] != 0 && nc < 64) {
		size_t hs = ((size_t)d->p[off] + 1) * 4;
		if (off + hs > d->n) break;
		uint8_t flags = d->p[off + 1];
		size_t pos = off + 2; uint64_t comp = 0, tmp; bool has_comp = flags & 0x40;
		if (has_comp && !rd_vli(d->p, off + hs, &pos, &comp)) break;
		if ((flags & 0x80) && !rd_vli(d->p, off + hs, &pos, &tmp)) break;
		unsigned nf = (flags & 3) + 1;
		for (unsigned f = 0; f < nf; ++f) {
			uint64_t id, ps;
			if (!rd_vli(d->p, off + hs, &pos, &id) || !rd_vli(d->p, off + hs, &pos, &ps)) { nf = 0; break; }
			if (id >= 0x05 && id <= 0x0B && ps == 4 && pos + 4 <= off + hs - 4) { cand[nc] = bi; cand_off[nc] = off; cand_prop[nc] = pos; ++nc; }
			pos += (size_t)ps;
		}
		if (!has_comp) break;
		off += hs + (size_t)((comp + 3) & ~UINT64_C(3)) + csz;
		++bi;
	}
	if (!nc) return -1;
	unsigned k = vrng_below(r, nc);
	size_t ho = cand_off[k], hs = ((size_t)d->p[ho] + 1) * 4;
	d->p[cand_prop[k]] |= 1;   // every BCJ filter but x86 needs an even start offset
	uint32_t c = lzma_crc32(d->p + ho, hs - 4, 0);
	for (int i = 0; i < 4; ++i) d->p[ho + hs - 4 + (size_t)i] = (uint8_t)(c >> (8 * i));
	return cand[k];
}
