// hx_dec: decoder-side monitors.
//   --mode c04      robustness: any input x any decoder x flags x slicing x memlimit
//   --mode c04p     robustness of the one-shot parsers
//   --mode c06      slicing independence of decoders (vs canonical whole-buffer run)
#define _GNU_SOURCE
#include "vh.h"
#include "gen_stream.h"
#include "dec_common.h"

static hx_args A;
static char **corpus; static size_t ncorpus;
static bool no_encode;

static uint64_t simple_visits(void)
{
	uint64_t s = 0;
	for (int v = 0; v < VERIF_VALUES; ++v) s += lzma_verif_visit_counts[VERIF_D_SIMPLE][v];
	return s;
}

static uint32_t gen_flags(vrng *r, int kind)
{
	uint32_t f = 0;
	if (kind == D_STREAM || kind == D_STREAM_MT || kind == D_AUTO || kind == D_LZIP) {
		if (vrng_chance(r, 1, 2)) f |= LZMA_CONCATENATED;
		if (vrng_chance(r, 1, 5)) f |= LZMA_TELL_NO_CHECK;
		if (vrng_chance(r, 1, 5)) f |= LZMA_TELL_UNSUPPORTED_CHECK;
		if (vrng_chance(r, 1, 6)) f |= LZMA_TELL_ANY_CHECK;
		if (vrng_chance(r, 1, 6)) f |= LZMA_IGNORE_CHECK;
		if (kind == D_STREAM_MT && vrng_chance(r, 1, 4)) f |= LZMA_FAIL_FAST;
	}
	return f;
}

static vbuf g_orig;   // the input before mutation (for handle-reuse warm-up)

static void pick_input(vrng *r, gstream *g, size_t max_plain, unsigned mutate_pct, char *mdesc, size_t mdescsz)
{
	mdesc[0] = 0;
	vbuf_clear(&g_orig);
	unsigned k = vrng_below(r, 100);
	if (no_encode) {
		// (MSan builds: the encoders read uninitialised match-finder memory by
		// design, so inputs come only from files written by another build.)
		if (!gen_corpus(r, g, corpus, ncorpus)) { memset(g, 0, sizeof(*g)); g->kind = SK_GARBAGE; vbuf_reserve(&g->data, 64); vrng_fill(r, g->data.p, 64); g->data.n = 64; snprintf(g->desc, sizeof(g->desc), "garbage[64B]"); }
	} else if (k < 35 && ncorpus) {
		if (!gen_corpus(r, g, corpus, ncorpus)) gen_stream(r, g, -1, max_plain);
	} else gen_stream(r, g, -1, max_plain);
	vbuf_append(&g_orig, g->data.p, g->data.n);
	if (vrng_below(r, 100) < mutate_pct) {
		mutate(r, &g->data, mdesc, mdescsz);
		g->mutated = true; g->plain_known = false;
		int sk = g->kind == SK_CORPUS ? g->sub : g->kind;
		if (sk == SK_XZ && vrng_chance(r, 1, 2)) xz_fix_header_crcs(&g->data);
	}
}

/////////
// C06 //
/////////

static bool same_result(const dec_result *a, const dec_result *b, bool ignore_out, bool ignore_tin, char *why, size_t whysz)
{
	if (a->init_failed || b->init_failed) {
		if (a->init_failed != b->init_failed || a->init_ret != b->init_ret) { snprintf(why, whysz, "init results differ"); return false; }
		return true;
	}
	if (a->ret != b->ret) { snprintf(why, whysz, "status %s vs canonical %s", lzma_ret_name(a->ret), lzma_ret_name(b->ret)); return false; }
	if (!ignore_tin && a->total_in != b->total_in) { snprintf(why, whysz, "total_in %" PRIu64 " vs canonical %" PRIu64 " (status %s)", a->total_in, b->total_in, lzma_ret_name(b->ret)); return false; }
	if (!ignore_out) {
		if (a->out.n != b->out.n) { snprintf(why, whysz, "output length %zu vs canonical %zu (status %s)", a->out.n, b->out.n, lzma_ret_name(b->ret)); return false; }
		if (a->out.n && memcmp(a->out.p, b->out.p, a->out.n)) { snprintf(why, whysz, "output bytes differ (status %s)", lzma_ret_name(b->ret)); return false; }
	}
	return true;
}

static void c06_case(uint64_t idx)
{
	vrng r; vrng_init(&r, A.seed, 0xC06, idx, 0);
	hx_case_begin(idx);
	gstream g; char mdesc[160];
	size_t max_plain = A.thorough ? 20000 : 3000;
	if (vrng_chance(&r, 1, 12)) max_plain = A.thorough ? (1u << 20) : 200000;
	pick_input(&r, &g, max_plain, 45, mdesc, sizeof(mdesc));
	int kind = dec_for_stream(&r, &g);
	if (kind == D_FILE_INFO) kind = D_STREAM;   // read-size independence of file_info is C13's
	if (A.only >= 0 && A.outdir) {
		char pth[600]; snprintf(pth, sizeof(pth), "%s/case-%" PRIu64 ".bin", A.outdir, idx);
		FILE *f = fopen(pth, "wb"); if (f) { fwrite(g.data.p, 1, g.data.n, f); fclose(f); }
	}
	dec_spec spec; dec_spec_for(&spec, kind, &g);
	spec.flags = gen_flags(&r, kind) & ~(uint32_t)LZMA_FAIL_FAST;
	if (kind == D_STREAM_MT) { spec.threads = 1 + vrng_below(&r, 4); spec.timeout = vrng_chance(&r, 1, 3) ? 1 + vrng_below(&r, 3) : 0; }
	lzma_action fin = vrng_chance(&r, 4, 5) ? LZMA_FINISH : LZMA_RUN;
	if (vrng_chance(&r, 1, 6) && kind != D_BLOCK && kind != D_INDEX && g_orig.n > 0 && g_orig.n < 100000) { spec.warm_in = g_orig.p; spec.warm_n = g_orig.n; hx_count("reused_handle_cases", 1); }
	slice_plan canon = { .mode = SL_WHOLE, .final_action = fin };
	dec_result c; uint64_t sv0 = simple_visits();
	dec_run(&spec, NULL, g.data.p, g.data.n, &canon, &c);
	hx_eval();
	bool via_bcj = simple_visits() > sv0 || g.has_bcj;
	bool is_error = !c.init_failed && c.ret != LZMA_STREAM_END && c.ret != LZMA_OK && c.ret != LZMA_BUF_ERROR
			&& c.ret != LZMA_NO_CHECK && c.ret != LZMA_UNSUPPORTED_CHECK && c.ret != LZMA_GET_CHECK;
	// informational returns (NO_CHECK etc.) stop the slicer; that is fine: the
	// comparison is still like for like.
	bool ignore_out = is_error && via_bcj;
	bool ignore_tin = (kind == D_STREAM_MT && c.ret != LZMA_STREAM_END);
	hx_sample("c06 %s%s%s dec=%s flags=0x%x fin=%d canon=%s in=%zu out=%zu", g.desc, mdesc[0] ? " MUT:" : "", mdesc, d_names[kind], spec.flags, (int)fin, c.init_failed ? "INIT-FAIL" : lzma_ret_name(c.ret), g.data.n, c.out.n);
	char key[160], why[300];
	if (c.sr.protocol_violation) {
		snprintf(key, sizeof(key), "protocol|%s", d_names[kind]);
		hx_violation("C06", key, idx, "canonical run: %s; input %s %s", c.sr.why, g.desc, mdesc);
		goto done;
	}
	size_t n = g.data.n - spec.skip;
	unsigned nsl = 0;
	// all two-piece splits for short inputs, else a sample of them
	size_t two_max = A.thorough ? 6000 : 1500;
	size_t step = n <= two_max ? 1 : 0;
	unsigned extra_random = 6;
	uint64_t suspensions_mid = 0;
	for (unsigned phase = 0; phase < 3; ++phase) {
		size_t count = 0;
		if (phase == 0) count = step ? n + 1 : 40;     // two-piece
		else if (phase == 1) count = 3;                // onebyte, onein, oneout
		else count = extra_random;
		if (phase == 1 && n > 300000) count = 0;
		for (size_t i = 0; i < count; ++i) {
			slice_plan p; memset(&p, 0, sizeof(p));
			p.final_action = fin;
			if (phase == 0) { p.mode = SL_TWOPIECE; p.split = step ? i : (size_t)vrng_below64(&r, n + 1); }
			else if (phase == 1) p.mode = i == 0 ? SL_ONEBYTE : (i == 1 ? SL_ONEIN : SL_ONEOUT);
			else { slice_plan_random(&r, &p); p.mode = SL_RANDOM; p.final_action = fin; }
			dec_result d;
			dec_run(&spec, NULL, g.data.p, g.data.n, &p, &d);
			hx_eval(); ++nsl;
			if (d.sr.protocol_violation) {
				snprintf(key, sizeof(key), "protocol|%s", d_names[kind]);
				hx_violation("C06", key, idx, "%s under slicing %s split=%zu; input %s %s", d.sr.why, slice_mode_name(p.mode), p.split, g.desc, mdesc);
				dec_result_free(&d); goto done;
			}
			if (!same_result(&d, &c, ignore_out, ignore_tin, why, sizeof(why))) {
				snprintf(key, sizeof(key), "slicing-changes-result|%s|%s", d_names[kind], g.mutated || g.kind == SK_GARBAGE ? "invalid-or-mutated" : "valid");
				// One class has a name of its own (known_findings.jsonl): a rejected Block whose header declares a
				// Compressed/Uncompressed Size - block_decoder.c compares the sizes reached with the declared ones
				// after every call and looks at whether the caller offered more input (*in_pos < in_size), so the
				// number of bytes consumed when LZMA_DATA_ERROR comes back depends on the slicing. Same status, same
				// output, only total_in differs.
				if (is_error && !d.init_failed && d.ret == c.ret && c.ret == LZMA_DATA_ERROR && d.total_in != c.total_in
						&& (ignore_out || (d.out.n == c.out.n && (c.out.n == 0 || memcmp(d.out.p, c.out.p, c.out.n) == 0)))) {
					size_t ho = kind == D_BLOCK ? 0 : 12;
					bool declared = false;
					// (walk the Block Headers of the first Stream as far as they can be walked)
					for (unsigned hops = 0; hops < 64 && ho + 2 < g.data.n && g.data.p[ho] != 0; ++hops) {
						uint8_t fl = g.data.p[ho + 1];
						if (fl & 0xC0) { declared = true; break; }
						break;   // without a Compressed Size the next header cannot be located
					}
					if (declared) snprintf(key, sizeof(key), "slicing-changes-result|%s|invalid-or-mutated|input-consumed-at-data-error|block-declares-sizes", d_names[kind]);
				}
				hx_violation("C06", key, idx, "%s; slicing %s split=%zu seed=%" PRIu64 " max_in=%zu max_out=%zu; input %s %s; flags=0x%x fin=%d",
						why, slice_mode_name(p.mode), p.split, p.seed, p.max_in, p.max_out, g.desc, mdesc, spec.flags, (int)fin);
				dec_result_free(&d); goto done;
			}
			if (phase == 0 && p.split > 0 && p.split < n) ++suspensions_mid;
			dec_result_free(&d);
		}
	}
	{
		char nm[64]; snprintf(nm, sizeof(nm), "dec_%s", d_names[kind]); hx_count(nm, 1);
		hx_count("slicings", nsl);
		if (is_error) hx_count("cases_rejected_input", 1);
		if (c.ret == LZMA_STREAM_END) hx_count("cases_accepted_input", 1);
		if (step) hx_count("cases_all_two_piece_splits", 1);
		if (via_bcj) hx_count("cases_via_bcj", 1);
		uint64_t h = vhash(g.data.p, g.data.n, VHASH_INIT); h = vhash(&kind, sizeof(kind), h); h = vhash(&spec.flags, 4, h);
		hx_distinct(h, suspensions_mid > 0 && !c.init_failed);
	}
done:
	dec_result_free(&c);
	gstream_free(&g);
}

/////////
// C04 //
/////////

static void put_vli(vbuf *d, uint64_t v) { while (v >= 0x80) { vbuf_putc(d, (uint8_t)(v | 0x80)); v >>= 7; } vbuf_putc(d, (uint8_t)v); }

// An Index field whose Number of Records is at the edge of what size arithmetic can hold (counts near 2^60, 2^61,
// 2^63-1 and SIZE_MAX / sizeof(record)), followed by a few well-formed Records, padding and a matching CRC32.
static void craft_extreme_index(vrng *r, vbuf *d, char *desc, size_t descsz)
{
	static const uint64_t bases[] = { UINT64_C(1) << 60, UINT64_C(1) << 61, UINT64_C(1) << 62, (UINT64_C(1) << 63) - 1, UINT64_MAX / 16, UINT64_MAX / 24, UINT64_C(1) << 32, UINT64_C(1) << 34, (UINT64_C(1) << 59) + 5 };
	uint64_t count = bases[vrng_below(r, 9)];
	int64_t delta = (int64_t)vrng_below(r, 9) - 4;
	if (delta < 0 && count >= (uint64_t)-delta) count -= (uint64_t)-delta; else if (delta > 0 && count <= ((UINT64_C(1) << 63) - 1) - (uint64_t)delta) count += (uint64_t)delta;
	if (count > (UINT64_C(1) << 63) - 1) count = (UINT64_C(1) << 63) - 1;
	vbuf_clear(d);
	vbuf_putc(d, 0);
	put_vli(d, count);
	unsigned recs = vrng_below(r, 4);
	for (unsigned i = 0; i < recs; ++i) { put_vli(d, 5 + vrng_logsize(r, 1u << 20)); put_vli(d, vrng_logsize(r, 1u << 22)); }
	while (d->n & 3) vbuf_putc(d, 0);
	uint32_t crc = lzma_crc32(d->p, d->n, 0);
	for (int i = 0; i < 4; ++i) vbuf_putc(d, (uint8_t)(crc >> (8 * i)));
	snprintf(desc, descsz, "crafted-index[count=%" PRIu64 ",%u records]", count, recs);
}

static void c04_case(uint64_t idx)
{
	vrng r; vrng_init(&r, A.seed, 0xC04, idx, 0);
	hx_case_begin(idx);
	gstream g; char mdesc[160];
	size_t max_plain = vrng_chance(&r, 1, 10) ? (A.thorough ? (1u << 20) : 300000) : 20000;
	pick_input(&r, &g, max_plain, 70, mdesc, sizeof(mdesc));
	int kind = vrng_chance(&r, 4, 5) ? dec_for_stream(&r, &g) : (int)vrng_below(&r, D_COUNT);
	if (vrng_chance(&r, 1, 40)) {
		craft_extreme_index(&r, &g.data, g.desc, sizeof(g.desc)); mdesc[0] = 0; kind = D_INDEX;
		g.plain_known = false;
		hx_count("extreme_index_cases", 1);
	}
	dec_spec spec; dec_spec_for(&spec, kind, &g);
	if (kind == D_RAW && !spec.filters) kind = spec.kind = D_STREAM;
	if (kind == D_MICROLZMA && !g.cfg_valid) {
		spec.comp_size = g.data.n; spec.uncomp_size = vrng_logsize(&r, 100000); spec.dict_size = 4096u << vrng_below(&r, 10);
	}
	if (kind == D_MICROLZMA) { spec.uncomp_exact = vrng_chance(&r, 1, 2); if (vrng_chance(&r, 1, 4)) spec.uncomp_size = vrng_logsize(&r, 100000); }
	spec.flags = gen_flags(&r, kind);
	if (kind == D_STREAM_MT) {
		spec.threads = 1 + vrng_below(&r, 4); spec.timeout = vrng_chance(&r, 1, 3) ? 1 : 0;
		unsigned k = vrng_below(&r, 4);
		spec.memlimit_threading = k == 0 ? 1 : (k == 1 ? (1u << 16) + vrng_below(&r, 1u << 22) : UINT64_MAX);
	}
	unsigned k = vrng_below(&r, 10);
	if (k == 0) spec.memlimit = 1;
	else if (k == 1) spec.memlimit = 1 + vrng_logsize(&r, 1u << 24);
	else if (k == 2) spec.memlimit = (1u << 20) + vrng_below(&r, 1u << 20);
	slice_plan p; slice_plan_random(&r, &p);
	if (g.data.n > 300000 && (p.mode == SL_ONEBYTE || p.mode == SL_ONEIN || p.mode == SL_ONEOUT)) p.mode = SL_RANDOM;
	p.final_action = vrng_chance(&r, 3, 4) ? LZMA_FINISH : LZMA_RUN;
	if (vrng_chance(&r, 1, 10)) p.out_limit = 1 + vrng_logsize(&r, 5000);
	// a fifth of the cases run on a handle that has already decoded the unmutated input with the same
	// decoder and was re-initialised without lzma_end()
	bool reused = vrng_chance(&r, 1, 5) && kind != D_FILE_INFO && kind != D_INDEX && kind != D_BLOCK && g_orig.n > 0 && g_orig.n < 200000;
	if (reused) { spec.warm_in = g_orig.p; spec.warm_n = g_orig.n; hx_count("reused_handle_cases", 1); }
	// a reused threaded decoder mostly works under a finite threading limit (memory accounting carried over from the
	// first life would show there)
	if (reused && kind == D_STREAM_MT && vrng_chance(&r, 2, 3)) spec.memlimit_threading = (1u << 16) + vrng_below(&r, 3u << 20);
	alloc_mon mon; alloc_mon_init(&mon);
	mon.huge_limit = 300u << 20;
	// in a third of the reused-handle cases one allocation of the first life fails (the second life must not notice)
	if (reused && vrng_chance(&r, 1, 2)) { spec.warm_mon = &mon; spec.warm_fail_at = 1 + (int)vrng_below(&r, 14); hx_count("reused_handle_first_life_alloc_failure", 1); }
	hx_sample("c04 %s%s%s dec=%s flags=0x%x memlimit=%" PRIu64 " slicing=%s/%zu/%zu fin=%d outlimit=%zu", g.desc, mdesc[0] ? " MUT:" : "", mdesc,
			d_names[kind], spec.flags, spec.memlimit, slice_mode_name(p.mode), p.max_in, p.max_out, (int)p.final_action, p.out_limit);
	dec_result d;
	dec_run(&spec, &mon.a, g.data.p, g.data.n, &p, &d);
	hx_eval();
	char key[160];
	if (d.sr.protocol_violation) {
		snprintf(key, sizeof(key), "protocol|%s", d_names[kind]);
		hx_violation("C04", key, idx, "%s; input %s %s flags=0x%x", d.sr.why, g.desc, mdesc, spec.flags);
	}
	if (d.seek_violation) {
		hx_violation("C04", "seek-beyond-file|file_info", idx, "%s; input %s %s", d.why, g.desc, mdesc);
	}
	if (d.sr.hit_call_limit) {
		snprintf(key, sizeof(key), "no-termination|%s", d_names[kind]);
		hx_violation("C04", key, idx, "decoder still returning LZMA_OK after %" PRIu64 " calls on %zu input bytes; input %s %s", d.sr.calls, g.data.n, g.desc, mdesc);
	}
	if (d.sr.max_call_cpu_s > 20.0) {
		snprintf(key, sizeof(key), "cpu-budget|%s", d_names[kind]);
		hx_violation("C04", key, idx, "one lzma_code call took %.1f CPU seconds on %zu input bytes; input %s", d.sr.max_call_cpu_s, g.data.n, g.desc);
	}
	lzma_ret fr = d.init_failed ? d.init_ret : d.ret;
	if (fr == LZMA_PROG_ERROR) {
		bool expected = false;
		// documented sources of PROG_ERROR from legal use: invalid flag
		// combinations are not generated here; TELL_ANY_CHECK|... all legal.
		if (d.init_failed && kind == D_MICROLZMA) expected = false;
		if (!expected) {
			snprintf(key, sizeof(key), "prog-error|%s|%s", d_names[kind], d.init_failed ? "init" : "code");
			hx_violation("C04", key, idx, "LZMA_PROG_ERROR from correct API use; input %s %s flags=0x%x memlimit=%" PRIu64, g.desc, mdesc, spec.flags, spec.memlimit);
		}
	}
	if (mon.errors) {
		snprintf(key, sizeof(key), "allocator-misuse|%s", d_names[kind]);
		hx_violation("C04", key, idx, "%s; input %s %s", mon.errmsg, g.desc, mdesc);
	}
	if (mon.live_blocks) {
		snprintf(key, sizeof(key), "leak|%s", d_names[kind]);
		hx_violation("C04", key, idx, "%" PRIu64 " blocks (%" PRIu64 " bytes) still allocated after lzma_end; input %s %s flags=0x%x ret=%s", mon.live_blocks, mon.live_bytes, g.desc, mdesc, spec.flags, lzma_ret_name(fr));
	}
	{
		char nm[64]; snprintf(nm, sizeof(nm), "dec_%s", d_names[kind]); hx_count(nm, 1);
		snprintf(nm, sizeof(nm), "ret_%s", lzma_ret_name(fr)); hx_count(nm, 1);
		if (d.sr.buf_errors) hx_count("stuck_endings_buf_error", 1);
		if (d.sr.out_limit_hit) hx_count("out_limit_endings", 1);
		if (d.seeks) hx_count("file_info_seeks", d.seeks);
		if (mon.n_failed_huge) hx_count("huge_allocs_refused", 1);
		uint64_t h = vhash(g.data.p, g.data.n, VHASH_INIT); h = vhash(&kind, sizeof(kind), h); h = vhash(&spec.flags, 4, h); h = vhash(&p.seed, 8, h);
		hx_distinct(h, d.total_in > 13 || d.total_out > 0);
	}
	dec_result_free(&d);
	alloc_mon_destroy(&mon);
	gstream_free(&g);
}

// one-shot parsers
static void c04p_case(uint64_t idx)
{
	vrng r; vrng_init(&r, A.seed, 0xC04B, idx, 0);
	hx_case_begin(idx);
	alloc_mon mon; alloc_mon_init(&mon); mon.huge_limit = 300u << 20;
	unsigned which = vrng_below(&r, 10);
	uint8_t buf[2048]; size_t n = 0;
	char desc[300] = "";
	gstream g; memset(&g, 0, sizeof(g));
	bool have_g = false;
	if (which <= 3 || which == 8 || which == 9) {
		char md[100];
		pick_input(&r, &g, 3000, 60, md, sizeof(md)); have_g = true;
	}
	switch (which) {
	case 0: { // block header
		size_t off = g.data.n > 12 && vrng_chance(&r, 2, 3) ? 12 : (size_t)vrng_below64(&r, g.data.n + 1);
		if (off < g.data.n && g.data.p[off] != 0) {
			lzma_block b; memset(&b, 0, sizeof(b)); lzma_filter f[LZMA_FILTERS_MAX + 1];
			b.version = vrng_below(&r, 2); b.check = (lzma_check)vrng_below(&r, 16); b.filters = f; f[0].id = LZMA_VLI_UNKNOWN;
			b.header_size = lzma_block_header_size_decode(g.data.p[off]);
			if (off + b.header_size <= g.data.n) {
				// copy so that the header ends at the end of a malloc'd block (ASan red zone)
				uint8_t *h = malloc(b.header_size); memcpy(h, g.data.p + off, b.header_size);
				lzma_ret ret = lzma_block_header_decode(&b, &mon.a, h);
				if (ret == LZMA_OK) {
					hx_count("block_header_ok", 1);
					// re-encode must reproduce the same size or smaller-equal and decode again
					lzma_filters_free(f, &mon.a);
				} else if (ret != LZMA_OPTIONS_ERROR && ret != LZMA_DATA_ERROR && ret != LZMA_MEM_ERROR && ret != LZMA_PROG_ERROR)
					hx_violation("C04", "undocumented-ret|block_header_decode", idx, "returned %d", (int)ret);
				free(h);
			}
		}
		snprintf(desc, sizeof(desc), "block_header_decode on %s", g.desc);
		break;
	}
	case 1: { // stream header / footer
		if (g.data.n >= 12) {
			lzma_stream_flags sf; uint8_t *h = malloc(12);
			memcpy(h, g.data.p, 12);
			lzma_ret r1 = lzma_stream_header_decode(&sf, h);
			memcpy(h, g.data.p + g.data.n - 12, 12);
			lzma_ret r2 = lzma_stream_footer_decode(&sf, h);
			free(h);
			if (r1 == LZMA_OK) hx_count("stream_header_ok", 1);
			if (r2 == LZMA_OK) hx_count("stream_footer_ok", 1);
			lzma_ret rr[2] = { r1, r2 };
			for (int i = 0; i < 2; ++i) if (rr[i] != LZMA_OK && rr[i] != LZMA_FORMAT_ERROR && rr[i] != LZMA_DATA_ERROR && rr[i] != LZMA_OPTIONS_ERROR)
				hx_violation("C04", "undocumented-ret|stream_flags_decode", idx, "returned %d", (int)rr[i]);
		}
		snprintf(desc, sizeof(desc), "stream_header/footer_decode on %s", g.desc);
		break;
	}
	case 2: { // stream_buffer_decode
		size_t outsz = vrng_chance(&r, 1, 3) ? vrng_logsize(&r, 5000) : 1u << 20;
		uint8_t *out = malloc(outsz ? outsz : 1);
		size_t ip = 0, op = 0; uint64_t ml = vrng_chance(&r, 1, 4) ? 1 + vrng_logsize(&r, 1u << 22) : UINT64_MAX;
		uint32_t fl = gen_flags(&r, D_STREAM) & ~(uint32_t)LZMA_TELL_ANY_CHECK;
		uint8_t *in = malloc(g.data.n ? g.data.n : 1); memcpy(in, g.data.p, g.data.n);
		lzma_ret ret = lzma_stream_buffer_decode(&ml, fl, &mon.a, in, &ip, g.data.n, out, &op, outsz);
		if (ret == LZMA_OK) hx_count("stream_buffer_decode_ok", 1);
		if ((unsigned)ret > LZMA_PROG_ERROR) hx_violation("C04", "undocumented-ret|stream_buffer_decode", idx, "returned %d", (int)ret);
		if (ret == LZMA_PROG_ERROR) hx_violation("C04", "prog-error|stream_buffer_decode", idx, "LZMA_PROG_ERROR flags=0x%x input %s", fl, g.desc);
		if (ret != LZMA_OK && (ip != 0 || op != 0)) hx_violation("C04", "positions-moved-on-failure|stream_buffer_decode", idx, "in_pos=%zu out_pos=%zu ret=%s", ip, op, lzma_ret_name(ret));
		free(in); free(out);
		snprintf(desc, sizeof(desc), "stream_buffer_decode outsz=%zu on %s", outsz, g.desc);
		break;
	}
	case 3: { // index_buffer_decode on arbitrary bytes / on the index area
		uint64_t ml = vrng_chance(&r, 1, 3) ? 1 + vrng_logsize(&r, 1u << 20) : UINT64_MAX;
		lzma_index *i = NULL; size_t ip = 0;
		size_t off = vrng_chance(&r, 1, 2) ? 0 : (size_t)vrng_below64(&r, g.data.n + 1);
		size_t len = g.data.n - off;
		uint8_t *in = malloc(len ? len : 1); memcpy(in, g.data.p + off, len);
		lzma_ret ret = lzma_index_buffer_decode(&i, &ml, &mon.a, in, &ip, len);
		if (ret == LZMA_OK) { hx_count("index_buffer_decode_ok", 1); lzma_index_end(i, &mon.a); }
		else if (i != NULL) hx_violation("C04", "index-set-on-failure|index_buffer_decode", idx, "ret=%s but *i != NULL", lzma_ret_name(ret));
		if ((unsigned)ret > LZMA_PROG_ERROR) hx_violation("C04", "undocumented-ret|index_buffer_decode", idx, "returned %d", (int)ret);
		free(in);
		snprintf(desc, sizeof(desc), "index_buffer_decode off=%zu on %s", off, g.desc);
		break;
	}
	case 4: { // vli
		n = 1 + vrng_below(&r, 12); vrng_fill(&r, buf, n);
		if (vrng_chance(&r, 1, 2)) for (size_t i = 0; i + 1 < n; ++i) buf[i] |= 0x80;
		lzma_vli v = 0; size_t vpos = 0, ip = 0;
		uint8_t *in = malloc(n); memcpy(in, buf, n);
		bool multi = vrng_chance(&r, 1, 2);
		lzma_ret ret;
		if (multi) {
			// feed byte by byte
			ret = LZMA_OK;
			for (size_t i = 0; i < n && ret == LZMA_OK; ++i) { size_t p = i; ret = lzma_vli_decode(&v, &vpos, in, &p, i + 1); }
		} else ret = lzma_vli_decode(&v, NULL, in, &ip, n);
		if (ret == LZMA_OK || ret == LZMA_STREAM_END) {
			if (v > LZMA_VLI_MAX) hx_violation("C04", "vli-out-of-range", idx, "decoded %" PRIu64, (uint64_t)v);
			hx_count("vli_ok", 1);
		} else if (ret != LZMA_DATA_ERROR && ret != LZMA_BUF_ERROR && ret != LZMA_PROG_ERROR)
			hx_violation("C04", "undocumented-ret|vli_decode", idx, "returned %d", (int)ret);
		free(in);
		snprintf(desc, sizeof(desc), "vli_decode n=%zu multi=%d", n, multi);
		break;
	}
	case 5: { // filter flags
		n = 1 + vrng_below(&r, 30); vrng_fill(&r, buf, n);
		if (vrng_chance(&r, 2, 3)) {
			static const uint8_t ids[] = { 0x03, 0x04, 0x05, 0x06, 0x07, 0x08, 0x09, 0x0A, 0x0B, 0x21 };
			buf[0] = ids[vrng_below(&r, 10)]; buf[1] = (uint8_t)vrng_below(&r, 6);
		}
		uint8_t *in = malloc(n); memcpy(in, buf, n);
		lzma_filter f = { 0, NULL }; size_t ip = 0;
		lzma_ret ret = lzma_filter_flags_decode(&f, &mon.a, in, &ip, n);
		if (ret == LZMA_OK) {
			hx_count("filter_flags_ok", 1);
			// encode back: must give identical bytes
			uint32_t sz = 0;
			if (lzma_filter_flags_size(&sz, &f) == LZMA_OK && sz <= sizeof(buf)) {
				uint8_t o[64]; size_t op = 0;
				if (sz <= sizeof(o) && lzma_filter_flags_encode(&f, o, &op, sz) == LZMA_OK) {
					if (op != ip || memcmp(o, in, ip)) {
						// non-canonical encodings may decode; only sizes of props are fixed
						hx_count("filter_flags_reencode_differs", 1);
					}
				}
			}
			lzma_free(f.options, &mon.a);
		} else if (ret != LZMA_OPTIONS_ERROR && ret != LZMA_DATA_ERROR && ret != LZMA_MEM_ERROR && ret != LZMA_PROG_ERROR)
			hx_violation("C04", "undocumented-ret|filter_flags_decode", idx, "returned %d", (int)ret);
		free(in);
		snprintf(desc, sizeof(desc), "filter_flags_decode n=%zu", n);
		break;
	}
	case 6: { // properties_decode
		static const lzma_vli ids[] = { LZMA_FILTER_LZMA1, LZMA_FILTER_LZMA2, LZMA_FILTER_X86, LZMA_FILTER_ARM64, LZMA_FILTER_RISCV, LZMA_FILTER_DELTA, LZMA_FILTER_IA64, 0x1234 };
		lzma_filter f = { ids[vrng_below(&r, 8)], NULL };
		n = vrng_below(&r, 8); vrng_fill(&r, buf, n);
		uint8_t *in = malloc(n ? n : 1); memcpy(in, buf, n);
		lzma_ret ret = lzma_properties_decode(&f, &mon.a, n ? in : NULL, n);
		if (ret == LZMA_OK) { hx_count("properties_ok", 1); lzma_free(f.options, &mon.a); }
		else if (ret != LZMA_OPTIONS_ERROR && ret != LZMA_MEM_ERROR) hx_violation("C04", "undocumented-ret|properties_decode", idx, "returned %d", (int)ret);
		free(in);
		snprintf(desc, sizeof(desc), "properties_decode id=0x%" PRIx64 " n=%zu", (uint64_t)f.id, n);
		break;
	}
	case 7: { // str_to_filters / from / list
		static const char *const frag[] = { "lzma2", "lzma1", "x86", "arm64", "riscv", "delta", "powerpc", "ia64", "arm", "armthumb", "sparc",
			":", "=", ",", " ", "--", "-", "dict", "lc", "lp", "pb", "mode", "nice", "mf", "depth", "dist", "start", "preset",
			"fast", "normal", "hc3", "hc4", "bt2", "bt3", "bt4", "0", "1", "4", "9", "9e", "6e", "273", "4096", "1MiB", "64KiB", "1GiB", "max", "4294967295", "KiB", "e" };
		char s[400]; size_t w = 0;
		unsigned parts = vrng_below(&r, 14);
		for (unsigned i = 0; i < parts && w < sizeof(s) - 40; ++i) {
			if (vrng_chance(&r, 1, 12)) s[w++] = (char)(1 + vrng_below(&r, 255));
			else { const char *f = frag[vrng_below(&r, sizeof(frag) / sizeof(frag[0]))]; size_t l = strlen(f); memcpy(s + w, f, l); w += l; }
		}
		s[w] = 0;
		char *hs = strdup(s);  // heap copy: over-reads hit the red zone
		lzma_filter f[LZMA_FILTERS_MAX + 1]; int errpos = -1;
		uint32_t fl = vrng_below(&r, 2) ? LZMA_STR_ALL_FILTERS : 0; if (vrng_chance(&r, 1, 3)) fl |= LZMA_STR_NO_VALIDATION;
		const char *err = lzma_str_to_filters(hs, &errpos, f, fl, &mon.a);
		if (err == NULL) {
			hx_count("str_to_filters_ok", 1);
			char *back = NULL;
			lzma_ret ret = lzma_str_from_filters(&back, f, LZMA_STR_ENCODER | LZMA_STR_DECODER, &mon.a);
			if (ret == LZMA_OK && back) {
				// parse the text back: must give the same chain (C06's textual-vs-struct clause is checked elsewhere)
				lzma_filter f2[LZMA_FILTERS_MAX + 1];
				const char *e2 = lzma_str_to_filters(back, NULL, f2, fl | LZMA_STR_ALL_FILTERS, &mon.a);
				if (e2 == NULL) lzma_filters_free(f2, &mon.a);
				else if (!(fl & LZMA_STR_NO_VALIDATION)) hx_violation("C04", "str-roundtrip|str_from_filters", idx, "'%s' -> '%s' does not parse: %s", hs, back, e2);
				lzma_free(back, &mon.a);
			}
			lzma_filters_free(f, &mon.a);
		} else {
			hx_count("str_to_filters_rejected", 1);
			if (errpos < 0 || (size_t)errpos > strlen(hs)) hx_violation("C04", "errpos-out-of-range|str_to_filters", idx, "errpos=%d len=%zu", errpos, strlen(hs));
		}
		if (vrng_chance(&r, 1, 8)) {
			char *lst = NULL;
			lzma_ret ret = lzma_str_list_filters(&lst, vrng_chance(&r, 1, 2) ? LZMA_VLI_UNKNOWN : LZMA_FILTER_LZMA2, LZMA_STR_ENCODER | LZMA_STR_ALL_FILTERS, &mon.a);
			if (ret == LZMA_OK) lzma_free(lst, &mon.a);
		}
		snprintf(desc, sizeof(desc), "str_to_filters '%.200s' flags=0x%x -> %s", s, fl, err ? err : "OK");
		free(hs);
		break;
	}
	case 8: case 9: { // index_hash / lzma_index_decoder fed with the tail of an xz file
		size_t off = g.data.n > 24 ? g.data.n - 12 - (size_t)vrng_below64(&r, g.data.n - 23) : 0;
		lzma_index_hash *h = lzma_index_hash_init(NULL, &mon.a);
		if (h) {
			unsigned na = vrng_below(&r, 5);
			for (unsigned i = 0; i < na; ++i) (void)lzma_index_hash_append(h, 5 + vrng_logsize(&r, 100000), vrng_logsize(&r, 100000));
			size_t ip = off; lzma_ret ret = LZMA_OK;
			while (ret == LZMA_OK && ip < g.data.n) { size_t lim = ip + 1 + vrng_below(&r, 8); if (lim > g.data.n) lim = g.data.n; ret = lzma_index_hash_decode(h, g.data.p, &ip, lim); }
			if (ret != LZMA_OK && ret != LZMA_STREAM_END && ret != LZMA_DATA_ERROR && ret != LZMA_BUF_ERROR && ret != LZMA_PROG_ERROR)
				hx_violation("C04", "undocumented-ret|index_hash_decode", idx, "returned %d", (int)ret);
			if (ret == LZMA_STREAM_END) hx_count("index_hash_ok", 1);
			lzma_index_hash_end(h, &mon.a);
		}
		snprintf(desc, sizeof(desc), "index_hash_decode off=%zu on %s", off, g.desc);
		break;
	}
	}
	hx_eval();
	hx_sample("c04p %s", desc);
	if (mon.errors) hx_violation("C04", "allocator-misuse|parser", idx, "%s; %s", mon.errmsg, desc);
	if (mon.live_blocks) {
		char key[100]; snprintf(key, sizeof(key), "leak|parser%u", which);
		hx_violation("C04", key, idx, "%" PRIu64 " blocks still allocated; %s", mon.live_blocks, desc);
	}
	{ char nm[32]; snprintf(nm, sizeof(nm), "parser_%u", which); hx_count(nm, 1); }
	hx_distinct(vhash(desc, strlen(desc), vhash(&idx, 8, VHASH_INIT)), true);
	alloc_mon_destroy(&mon);
	if (have_g) gstream_free(&g);
}

// Write generated container files (for builds that must not run encoders).
static void dump_case(uint64_t idx)
{
	vrng r; vrng_init(&r, A.seed, 0xD0C, idx, 0);
	static const int kinds[] = { SK_XZ, SK_XZ, SK_XZ, SK_ALONE, SK_LZIP, SK_INDEX };
	static const char *const ext[] = { "xz", "xz", "xz", "lzma", "lz", "idx" };
	unsigned k = vrng_below(&r, 6);
	gstream g; gen_stream(&r, &g, kinds[k], vrng_chance(&r, 1, 10) ? 300000 : 20000);
	char pth[600]; snprintf(pth, sizeof(pth), "%s/gen-%" PRIu64 ".%s", A.outdir ? A.outdir : ".", idx, ext[k]);
	FILE *f = fopen(pth, "wb"); if (f) { fwrite(g.data.p, 1, g.data.n, f); fclose(f); }
	hx_eval();
	gstream_free(&g);
}

int main(int argc, char **argv)
{
	hx_parse(argc, argv, &A);
	no_encode = strstr(A.extra, "noencode") != NULL;
	if (A.corpus) ncorpus = list_dir(A.corpus, &corpus);
	uint64_t idx = UINT64_MAX;
	while (hx_next_case(&A, &idx)) {
		if (!strcmp(A.mode, "dump")) dump_case(idx);
		else if (!strcmp(A.mode, "c06")) c06_case(idx);
		else if (!strcmp(A.mode, "c04p")) c04p_case(idx);
		else c04_case(idx);
	}
	for (size_t i = 0; i < ncorpus; ++i) free(corpus[i]);
	free(corpus);
	hx_finish();
	return 0;
}
