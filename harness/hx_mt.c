// hx_mt: threaded-coder monitors under a perturbed or serialised schedule.
//   --mode c07   threaded decoder == single-threaded decoder (any input/options/slicing/schedule)
//   --mode c08   threaded encoder: valid ordered Stream, flush/barrier semantics, progress, lifecycle
// --extra chaos|serial|off selects the sched shim mode (default chaos).
#define _GNU_SOURCE
#include "vh.h"
#include "gen_stream.h"
#include "dec_common.h"
#include "sched/sched.h"
#ifdef WITH_SYNTH
#include "ref/synth.h"
#endif

static hx_args A;
static int SMODE = SCHED_CHAOS;
static char **corpus; static size_t ncorpus;

static uint64_t mtd(int ev) { return lzma_verif_visit_counts[VERIF_D_MT_DEC][ev]; }
static uint64_t mte(int ev) { return lzma_verif_visit_counts[VERIF_D_MT_ENC][ev]; }

static bool sched_run_active;   // between sched_case_begin() and sched_case_end(): only then the step limit means anything

static void sched_case_begin(uint64_t seed)
{
	int pol = (int)(seed % 3);
	sched_configure(SMODE, seed, pol);
	if (SMODE == SCHED_SERIAL) sched_set_step_limit(A.thorough ? 4000000 : 1500000);
	sched_run_active = true;
}

static void sched_case_end(void) { sched_configure(SCHED_OFF, 0, 0); sched_run_active = false; }

static bool sched_aborted(void)
{
	if (SMODE != SCHED_SERIAL || !sched_run_active) return false;
	sched_stats st; sched_get_stats(&st);
	return st.step_limit;
}

/////////
// C07 //
/////////

typedef struct {
	lzma_ret ret; vbuf out; uint64_t total_in; bool protocol_violation; char why[200];
	unsigned memlimit_errors; bool aborted; uint64_t calls; unsigned informational; bool reinitialised;
} mres;

// Decode with optional memlimit raising, early end, re-init. `spec` tells the decoder.
// out_budget >= 0: the caller's output space is that many bytes in total and is never enlarged (calls go on with
// avail_out == 0 once it is used up). reinit != NULL: when end_after_call is reached the handle is not ended but
// initialised again with *reinit (no lzma_end) and the whole input is decoded from the start.
static void run_dec2(dec_spec *spec, const uint8_t *in, size_t n, const slice_plan *plan, vrng *r,
		int64_t end_after_call, int64_t out_budget, dec_spec *reinit, mres *R)
{
	memset(R, 0, sizeof(*R));
	lzma_stream s = LZMA_STREAM_INIT;
	lzma_ret ret = dec_init(&s, spec, NULL, in, n);
	if (ret != LZMA_OK) { R->ret = ret; lzma_end(&s); return; }
	size_t pos = 0; bool finishing = false; bool prev_noprog = false;
	vrng pr; vrng_init(&pr, plan->seed, 0x7, 0, 0);
	(void)r;
	uint64_t max_calls = 50 * (uint64_t)n + 2000000;
	for (;;) {
		size_t left = n - pos;
		size_t ai, ao;
		switch (plan->mode) {
		case SL_WHOLE: ai = left; ao = vh_window_max(); break;
		case SL_ONEOUT: ai = left; ao = 1; break;
		case SL_ONEIN: ai = 1; ao = vh_window_max(); break;
		case SL_ONEBYTE: ai = 1; ao = 1; break;
		default: ai = vrng_chance(&pr, 1, 8) ? 0 : 1 + vrng_logsize(&pr, plan->max_in ? plan->max_in - 1 : 4095); ao = vrng_chance(&pr, 1, 8) ? 0 : 1 + vrng_logsize(&pr, plan->max_out ? plan->max_out - 1 : 4095); break;
		}
		// once the output space is used up only the final status is of interest: no more input slicing (every
		// call may cost a full time-out of the decoder)
		if (out_budget >= 0 && R->out.n >= (uint64_t)out_budget) ai = left;
		if (ai > left) ai = left;
		if (finishing) ai = left;
		if (ai > vh_window_max()) ai = vh_window_max();
		const uint64_t room = out_budget < 0 ? UINT64_MAX : (R->out.n >= (uint64_t)out_budget ? 0 : (uint64_t)out_budget - R->out.n);
		const bool budget_used_up = room == 0;
		if (ao > room) ao = (size_t)room;
		lzma_action act = (pos + ai == n && plan->final_action == LZMA_FINISH) ? LZMA_FINISH : LZMA_RUN;
		if (act == LZMA_FINISH) finishing = true;
		uint8_t *ip = vh_in_window(in + pos, ai); uint8_t *op = vh_out_window(ao);
		s.next_in = ip; s.avail_in = ai; s.next_out = op; s.avail_out = ao;
		ret = lzma_code(&s, act);
		++R->calls;
		size_t din = ai - s.avail_in, dout = ao - s.avail_out;
		if (s.avail_in > ai || s.avail_out > ao || !vh_out_canary_ok()) { R->protocol_violation = true; snprintf(R->why, sizeof(R->why), "buffer accounting / canary"); break; }
		if ((unsigned)ret > LZMA_SEEK_NEEDED) { R->protocol_violation = true; snprintf(R->why, sizeof(R->why), "undocumented return value %d", (int)ret); break; }
		vbuf_append(&R->out, op, dout); pos += din;
		if (sched_aborted()) { R->aborted = true; break; }
		if (end_after_call >= 0 && (int64_t)R->calls >= end_after_call) {
			if (reinit == NULL) { R->aborted = true; break; }
			// second life of the same handle
			ret = dec_init(&s, reinit, NULL, in, n);
			if (ret != LZMA_OK) { R->protocol_violation = true; snprintf(R->why, sizeof(R->why), "re-initialising the handle after %" PRIu64 " calls returned %s", R->calls, lzma_ret_name(ret)); break; }
			spec = reinit; reinit = NULL; end_after_call = -1;
			pos = 0; finishing = false; prev_noprog = false; vbuf_clear(&R->out); R->calls = 0; R->memlimit_errors = 0; R->informational = 0;
			R->reinitialised = true;
			continue;
		}
		bool noprog = din == 0 && dout == 0;
		if (ret == LZMA_OK) {
			if (noprog && prev_noprog && spec->timeout == 0) { R->protocol_violation = true; snprintf(R->why, sizeof(R->why), "LZMA_OK twice without progress"); break; }
			prev_noprog = noprog;
		} else if (ret == LZMA_BUF_ERROR) {
			bool withheld = (ai < left && !finishing) || (ao == 0 && !budget_used_up);
			if (!withheld || R->calls > max_calls) break;
			prev_noprog = true;
		} else if (ret == LZMA_MEMLIMIT_ERROR) {
			++R->memlimit_errors;
			uint64_t need = lzma_memusage(&s);
			if (R->memlimit_errors > 100 || need == 0 || lzma_memlimit_set(&s, need) != LZMA_OK) break;
			prev_noprog = false;
		} else if (ret == LZMA_NO_CHECK || ret == LZMA_UNSUPPORTED_CHECK || ret == LZMA_GET_CHECK) {
			++R->informational; prev_noprog = false;
		} else break;
		if (R->calls > max_calls) { R->protocol_violation = true; snprintf(R->why, sizeof(R->why), "no termination after %" PRIu64 " calls", R->calls); break; }
	}
	R->ret = ret; R->total_in = s.total_in;
	lzma_end(&s);
}

static void run_dec(dec_spec *spec, const uint8_t *in, size_t n, const slice_plan *plan, vrng *r, int64_t end_after_call, mres *R)
{
	run_dec2(spec, in, n, plan, r, end_after_call, -1, NULL, R);
}

static uint64_t simple_visits(void) { uint64_t t = 0; for (int v = 0; v < VERIF_VALUES; ++v) t += lzma_verif_visit_counts[VERIF_D_SIMPLE][v]; return t; }

// Threshold case: the smallest memlimit_threading at which the first Block is decoded by a worker thread is found by
// bisection (observed through the hook counters), and the decoder is then run with that value, one below and one
// above: at the very limit where threaded mode becomes possible it must still be possible.
static void c07_threshold_case(uint64_t idx)
{
	vrng r; vrng_init(&r, A.seed, 0xC07A, idx, 0);
	hx_case_begin(idx);
	gstream g; gen_xz_multi(&r, &g, 1, 2 + vrng_below(&r, 3), 40000, true, false);
	dec_spec st; dec_spec_for(&st, D_STREAM, NULL);
	slice_plan whole = { .mode = SL_WHOLE, .final_action = LZMA_FINISH };
	mres S; run_dec(&st, g.data.p, g.data.n, &whole, &r, -1, &S);
	if (S.ret != LZMA_STREAM_END) { vbuf_free(&S.out); gstream_free(&g); return; }
	dec_spec mt; dec_spec_for(&mt, D_STREAM_MT, NULL); mt.threads = 2 + vrng_below(&r, 3); mt.timeout = vrng_chance(&r, 1, 2) ? 0 : 20;
	uint64_t lo = 1, hi = UINT64_C(1) << 28;   // invariant: lo -> direct mode, hi -> threaded
	bool ok = true;
	for (int step = 0; step < 40 && hi - lo > 1; ++step) {
		uint64_t mid = lo + (hi - lo) / 2;
		mt.memlimit_threading = mid;
		uint64_t t0 = mtd(VERIF_MTD_THREAD_START) + mtd(VERIF_MTD_WORKER_REUSE);
		mres M; run_dec(&mt, g.data.p, g.data.n, &whole, &r, -1, &M);
		bool threaded = mtd(VERIF_MTD_THREAD_START) + mtd(VERIF_MTD_WORKER_REUSE) > t0;
		if (M.ret != S.ret || M.out.n != S.out.n) {
			hx_violation("C07", "mt-status-differs|threading-limit-sweep", idx, "memlimit_threading=%" PRIu64 ": threaded decoder ends with %s (%zu bytes), single-threaded with %s (%zu bytes); %s threads=%u timeout=%u",
					mid, lzma_ret_name(M.ret), M.out.n, lzma_ret_name(S.ret), S.out.n, g.desc, mt.threads, mt.timeout);
			ok = false;
		}
		vbuf_free(&M.out);
		hx_eval();
		if (!ok) break;
		if (threaded) hi = mid; else lo = mid;
	}
	if (ok) {
		for (int d = -1; d <= 2 && ok; ++d) {
			mt.memlimit_threading = hi + (uint64_t)(int64_t)d;
			sched_case_begin(A.seed * 1000003u + idx + (uint64_t)(d + 1));
			slice_plan plan; slice_plan_random(&r, &plan); if (plan.mode == SL_ONEBYTE || plan.mode == SL_ONEOUT || plan.mode == SL_ONEIN) plan.mode = SL_RANDOM;
			if (plan.max_in < 64) plan.max_in = 700; if (plan.max_out < 64) plan.max_out = 700;
			plan.final_action = LZMA_FINISH;
			mres M; run_dec(&mt, g.data.p, g.data.n, &plan, &r, -1, &M);
			sched_case_end();
			hx_eval();
			if (!M.aborted && (M.ret != S.ret || M.out.n != S.out.n || (S.out.n && memcmp(M.out.p, S.out.p, S.out.n)))) {
				hx_violation("C07", "mt-status-differs|at-threading-threshold", idx, "memlimit_threading=%" PRIu64 " (threaded mode becomes possible at %" PRIu64 "): threaded decoder ends with %s (%zu bytes), single-threaded with %s (%zu bytes); %s threads=%u timeout=%u",
						mt.memlimit_threading, hi, lzma_ret_name(M.ret), M.out.n, lzma_ret_name(S.ret), S.out.n, g.desc, mt.threads, mt.timeout);
				ok = false;
			}
			vbuf_free(&M.out);
		}
		hx_count("threading_threshold_cases", 1);
	}
	hx_sample("c07 threshold %s threads=%u: threaded mode from memlimit_threading=%" PRIu64, g.desc, mt.threads, hi);
	hx_distinct(vhash(g.data.p, g.data.n, vhash(&idx, 8, VHASH_INIT)), true);
	vbuf_free(&S.out); gstream_free(&g);
}

static void c07_case(uint64_t idx)
{
	if (idx % 50 == 7) { c07_threshold_case(idx); return; }
	vrng r; vrng_init(&r, A.seed, 0xC07, idx, 0);
	hx_case_begin(idx);
	// ---- input file ----
	vbuf data = {0}; char desc[500]; char md[160] = "";
	size_t plain_n = (size_t)-1;   // expected output size if known
	unsigned src = vrng_below(&r, 10);
	gstream g; bool g_valid = false;
#ifdef WITH_SYNTH
	if (src < 3) {
		synth_info info; vbuf pl = {0};
		synth_opts so = { .max_plain = 30000, .flags = vrng_chance(&r, 1, 2) ? SYNTH_ONLY_SUPPORTED : 0, .max_dict = 1u << 18, .max_blocks = 12, .max_streams = 3 };
		synth_xz(&r, &so, &data, &pl, &info); plain_n = pl.n; vbuf_free(&pl);
		snprintf(desc, sizeof(desc), "synth:%s", info.desc);
	} else
#endif
	if (src < 9 || !ncorpus) {
		unsigned k = vrng_below(&r, 10);
		unsigned ns = k < 7 ? 1 : 2 + vrng_below(&r, 2);
		k = vrng_below(&r, 10);
		unsigned nb = k < 1 ? 1 : (k < 6 ? 2 + vrng_below(&r, 8) : 10 + vrng_below(&r, 30));
		bool mt = vrng_chance(&r, 7, 10);     // MT encoder writes size fields -> threaded decoding possible
		gen_xz_multi(&r, &g, ns, nb, vrng_chance(&r, 1, 6) ? 600000 : 60000, mt, true); g_valid = true;
		vbuf_append(&data, g.data.p, g.data.n); plain_n = g.plain.n;
		snprintf(desc, sizeof(desc), "%s", g.desc);
	} else {
		if (gen_corpus(&r, &g, corpus, ncorpus) && g.sub == SK_XZ) { g_valid = true; vbuf_append(&data, g.data.p, g.data.n); snprintf(desc, sizeof(desc), "%s", g.desc); }
		else { if (g.data.p) gstream_free(&g); gen_xz_multi(&r, &g, 1, 5, 30000, true, false); g_valid = true; vbuf_append(&data, g.data.p, g.data.n); snprintf(desc, sizeof(desc), "%s", g.desc); }
	}
	if (vrng_chance(&r, 1, 8)) {
		// a Block that is well-formed but refused when its decoder is initialised (misaligned BCJ start offset),
		// possibly while earlier Blocks are still being decoded
		int bi = xz_misalign_bcj_offset(&data, &r);
		if (bi >= 0) { snprintf(md, sizeof(md), "misaligned-bcj-offset@block%d", bi); hx_count("refused_at_block_init_cases", 1); }
	} else
	if (vrng_chance(&r, 1, 2)) {
		mutate(&r, &data, md, sizeof(md));
		if (vrng_chance(&r, 1, 3)) xz_fix_header_crcs(&data);
	}
	// ---- options ----
	uint32_t flags = 0;
	if (vrng_chance(&r, 1, 2)) flags |= LZMA_CONCATENATED;
	if (vrng_chance(&r, 1, 8)) flags |= LZMA_TELL_NO_CHECK;
	if (vrng_chance(&r, 1, 8)) flags |= LZMA_TELL_UNSUPPORTED_CHECK;
	if (vrng_chance(&r, 1, 8)) flags |= LZMA_TELL_ANY_CHECK;
	if (vrng_chance(&r, 1, 8)) flags |= LZMA_IGNORE_CHECK;
	bool fail_fast = vrng_chance(&r, 1, 6);
	dec_spec mt; dec_spec_for(&mt, D_STREAM_MT, NULL);
	mt.flags = flags | (fail_fast ? LZMA_FAIL_FAST : 0);
	mt.threads = 1 + vrng_below(&r, 8);
	static const uint32_t tos[] = { 0, 0, 1, 20 };
	mt.timeout = tos[vrng_below(&r, 4)];
	unsigned k = vrng_below(&r, 8);
	mt.memlimit_threading = k == 0 ? 1 : (k == 1 ? 70000 + vrng_below(&r, 200000) : (k == 2 ? (1u << 20) + vrng_below(&r, 4u << 20) : UINT64_MAX));
	k = vrng_below(&r, 6);
	mt.memlimit = k == 0 ? 1 + vrng_below(&r, 200000) : UINT64_MAX;
	dec_spec st; dec_spec_for(&st, D_STREAM, NULL); st.flags = flags; st.memlimit = mt.memlimit;
	slice_plan plan; slice_plan_random(&r, &plan);
	// one call per byte is only affordable (every call passes several perturbed pthread operations) for small outputs
	if ((plain_n > 40000 || data.n > 40000) && (plan.mode == SL_ONEBYTE || plan.mode == SL_ONEOUT || plan.mode == SL_ONEIN)) plan.mode = SL_RANDOM;
	if (plan.mode == SL_RANDOM && (plain_n > 40000) && plan.max_out < 64) plan.max_out = 1000;
	if (plan.mode == SL_RANDOM && (data.n > 40000) && plan.max_in < 64) plan.max_in = 1000;
	plan.final_action = vrng_chance(&r, 4, 5) ? LZMA_FINISH : LZMA_RUN;
	int64_t early_end = vrng_chance(&r, 1, 5) ? (int64_t)(1 + vrng_below(&r, 40)) : -1;
	// half of the early ends are followed by a second life of the handle (threaded decoder initialised again without
	// lzma_end, other thread count and threading limit) that decodes the whole file
	dec_spec mt2; bool reinit = early_end >= 0 && vrng_chance(&r, 1, 2);
	if (reinit) {
		mt2 = mt; mt2.threads = 1 + vrng_below(&r, 8);
		unsigned k2 = vrng_below(&r, 6);
		mt2.memlimit_threading = k2 == 0 ? mt.memlimit_threading : (k2 <= 2 ? 70000 + vrng_below(&r, 600000) : (k2 <= 4 ? (1u << 20) + vrng_below(&r, 4u << 20) : UINT64_MAX));
		if (vrng_chance(&r, 1, 2)) { plan.mode = SL_RANDOM; if (plan.max_in < 512) plan.max_in = 4096; if (plan.max_out < 512) plan.max_out = 4096; }
	}
	// exact-fit output: a sixth of the complete runs get exactly as much output space as the data needs (sometimes
	// one byte more or less), never enlarged
	int budget_kind = (early_end < 0 && vrng_chance(&r, 1, 5)) ? 1 + (int)vrng_below(&r, 4) : 0;   // 1,2 exact; 3 +1; 4 -1
	hx_sample("c07 %s %s threads=%u timeout=%u mlt=%" PRIu64 " mls=%" PRIu64 " flags=0x%x slicing=%s/%zu/%zu fin=%d early_end=%" PRId64 "%s budget=%d (%zu bytes)",
			desc, md, mt.threads, mt.timeout, mt.memlimit_threading, mt.memlimit, mt.flags, slice_mode_name(plan.mode), plan.max_in, plan.max_out, (int)plan.final_action, early_end, reinit ? "+reinit" : "", budget_kind, data.n);
	// ---- single-threaded reference (no scheduling involved) ----
	uint64_t sv0 = simple_visits();
	slice_plan whole = { .mode = SL_WHOLE, .final_action = plan.final_action };
	mres S; run_dec(&st, data.p, data.n, &whole, &r, -1, &S);
	bool via_bcj = simple_visits() > sv0;
	const lzma_ret S0ret = S.ret;   // status with unlimited output space
	int64_t budget = -1;
	// (for rejected input behind a BCJ filter the number of bytes delivered before the error is the subject of a
	// known finding; a space limit there would only turn that length difference into a status difference)
	if (budget_kind && via_bcj && S.ret != LZMA_STREAM_END && S.ret != LZMA_OK && S.ret != LZMA_BUF_ERROR) budget_kind = 0;
	if (budget_kind) {
		budget = (int64_t)S.out.n + (budget_kind == 3 ? 1 : (budget_kind == 4 && S.out.n > 0 ? -1 : 0));
		if (budget != (int64_t)S.out.n) {   // the reference for a different amount of space is the single-threaded decoder with that space
			vbuf_free(&S.out);
			run_dec2(&st, data.p, data.n, &whole, &r, -1, budget, NULL, &S);
		} else {
			// exact fit must not change what the single-threaded decoder reports
			mres S2; run_dec2(&st, data.p, data.n, &whole, &r, -1, budget, NULL, &S2);
			if (S2.ret != S.ret || S2.out.n != S.out.n) hx_count("single_threaded_exact_fit_differs", 1);
			vbuf_free(&S.out); S = S2;
		}
		hx_count(budget_kind <= 2 ? "exact_fit_output_cases" : "near_fit_output_cases", 1);
	}
	// ---- threaded run under the shim ----
	uint64_t ev0[16]; for (int e = 0; e < 15; ++e) ev0[e] = mtd(e);
	sched_case_begin(A.seed * 1000003u + idx);
	mres M; run_dec2(&mt, data.p, data.n, &plan, &r, early_end, budget, reinit ? &mt2 : NULL, &M);
	hx_eval();
	if (M.reinitialised) hx_count("reinitialised_handle_cases", 1);
	sched_stats ss; sched_get_stats(&ss);
	sched_case_end();
	char key[200];
	bool is_err = S.ret != LZMA_STREAM_END && S.ret != LZMA_OK && S.ret != LZMA_BUF_ERROR;
	if (M.protocol_violation) { hx_violation("C07", "protocol|stream_mt", idx, "%s; %s %s", M.why, desc, md); }
	else if (M.aborted) {
		hx_count(early_end >= 0 ? "early_end_cases" : "step_limit_cases", 1);
		// output so far must be a prefix of the reference output
		size_t nn = M.out.n < S.out.n ? M.out.n : S.out.n;
		if (M.out.n > S.out.n || (nn && memcmp(M.out.p, S.out.p, nn))) {
			if (!(via_bcj && is_err)) hx_violation("C07", "early-end-output-not-prefix", idx, "output before early lzma_end is not a prefix of the single-threaded output; %s %s", desc, md);
		}
	} else if (S.protocol_violation) { hx_violation("C07", "protocol|stream", idx, "%s; %s %s", S.why, desc, md); }
	else if (!fail_fast) {
		bool same_status = M.ret == S.ret;
		// Out of output space the single-threaded decoder can only say "no progress" (LZMA_BUF_ERROR); the threaded
		// one has read ahead and may already know how the file ends. The converse - the threaded decoder stuck
		// where the single-threaded one finishes - is a violation.
		if (budget >= 0 && S.ret == LZMA_BUF_ERROR && M.ret == S0ret) { same_status = true; hx_count("budget_mt_knows_more", M.ret != S.ret); }
		bool same_out = M.out.n == S.out.n && (S.out.n == 0 || memcmp(M.out.p, S.out.p, S.out.n) == 0);
		bool bcj_len_only = via_bcj && is_err;
		if (bcj_len_only) same_out = true;
		if (bcj_len_only && same_status && M.out.n != S.out.n)
			hx_violation("C07", "mt-output-length-differs|rejected-input-behind-bcj", idx, "rejected input behind a BCJ filter: threaded decoder delivered %zu bytes, single-threaded %zu bytes (status %s); %s %s threads=%u slicing=%s", M.out.n, S.out.n, lzma_ret_name(S.ret), desc, md, mt.threads, slice_mode_name(plan.mode));
		if (!same_status) {
			snprintf(key, sizeof(key), "mt-status-differs|st=%s|mt=%s", lzma_ret_name(S.ret), lzma_ret_name(M.ret));
			hx_violation("C07", key, idx, "threaded decoder ends with %s (%zu bytes out), single-threaded with %s (%zu bytes); %s %s threads=%u timeout=%u mlt=%" PRIu64 " mls=%" PRIu64 " flags=0x%x slicing=%s fin=%d",
					lzma_ret_name(M.ret), M.out.n, lzma_ret_name(S.ret), S.out.n, desc, md, mt.threads, mt.timeout, mt.memlimit_threading, mt.memlimit, mt.flags, slice_mode_name(plan.mode), (int)plan.final_action);
		} else if (!same_out) {
			size_t at = 0; while (at < M.out.n && at < S.out.n && M.out.p[at] == S.out.p[at]) ++at;
			snprintf(key, sizeof(key), "mt-output-differs|%s", lzma_ret_name(S.ret));
			hx_violation("C07", key, idx, "threaded output %zu bytes, single-threaded %zu bytes, first difference at %zu (status %s); %s %s threads=%u timeout=%u mlt=%" PRIu64 " flags=0x%x slicing=%s",
					M.out.n, S.out.n, at, lzma_ret_name(S.ret), desc, md, mt.threads, mt.timeout, mt.memlimit_threading, mt.flags, slice_mode_name(plan.mode));
		}
	} else {
		// fail-fast: the status may come earlier but the output is a prefix of the correct data
		size_t nn = M.out.n < S.out.n ? M.out.n : S.out.n;
		bool prefix = M.out.n <= S.out.n && (nn == 0 || memcmp(M.out.p, S.out.p, nn) == 0);
		if (via_bcj && is_err) prefix = M.out.n <= S.out.n;
		if (!prefix) hx_violation("C07", "fail-fast-output-not-prefix", idx, "threaded (FAIL_FAST) output of %zu bytes is not a prefix of the single-threaded %zu bytes; %s %s", M.out.n, S.out.n, desc, md);
		if (S.ret == LZMA_STREAM_END && M.ret != LZMA_STREAM_END) { snprintf(key, sizeof(key), "fail-fast-rejects-valid|mt=%s", lzma_ret_name(M.ret)); hx_violation("C07", key, idx, "valid input rejected with FAIL_FAST: %s; %s %s", lzma_ret_name(M.ret), desc, md); }
		if (S.ret != LZMA_STREAM_END && M.ret == LZMA_STREAM_END) hx_violation("C07", "fail-fast-accepts-invalid", idx, "single-threaded %s but FAIL_FAST run ends with STREAM_END; %s %s", lzma_ret_name(S.ret), desc, md);
		hx_count("fail_fast_cases", 1);
	}
	{
		bool overlapped = mtd(VERIF_MTD_THREAD_START) + mtd(VERIF_MTD_WORKER_REUSE) - ev0[VERIF_MTD_THREAD_START] - ev0[VERIF_MTD_WORKER_REUSE] >= 2;
		if (is_err) hx_count("cases_rejected_input", 1); else hx_count("cases_accepted_input", 1);
		if (M.memlimit_errors) hx_count("memlimit_raise_episodes", 1);
		if (SMODE == SCHED_SERIAL) { hx_count("serial_steps", ss.steps); hx_count("serial_switches", ss.switches); hx_count("serial_timeouts_fired", ss.timeouts_fired); hx_max("serial_max_runnable", ss.max_runnable); hx_distinct(ss.schedule_hash, overlapped); }
		else { uint64_t h = vhash(data.p, data.n, VHASH_INIT); h = vhash(&mt.threads, 4, h); h = vhash(&plan.seed, 8, h); h = vhash(&idx, 8, h); hx_distinct(h, overlapped); }
		if (overlapped) hx_count("cases_with_two_or_more_blocks_threaded", 1);
	}
	vbuf_free(&M.out); vbuf_free(&S.out); vbuf_free(&data);
	if (g_valid) gstream_free(&g);
}

/////////
// C08 //
/////////

typedef struct { lzma_stream s; vbuf out; size_t fed; vrng pr; bool tiny; uint32_t timeout; uint64_t calls; int64_t end_after; bool ended_early; bool progress_bad; char pwhy[200]; uint64_t total_given; } enc_run;

static lzma_ret enc_feed(enc_run *e, const uint8_t *in, size_t n, lzma_action action)
{
	size_t end = e->fed + n; bool prev_noprog = false;
	if (n == 0 && action == LZMA_RUN) return LZMA_OK;
	for (;;) {
		size_t left = end - e->fed;
		size_t ai = left;
		if (action == LZMA_RUN && left > 1 && vrng_chance(&e->pr, 1, 2)) ai = 1 + (size_t)vrng_below64(&e->pr, left);
		if (ai > vh_window_max()) ai = vh_window_max();   // the guard-page window holds at most this much
		lzma_action a = (action != LZMA_RUN && ai == left) ? action : LZMA_RUN;
		for (;;) {
			size_t ao = e->tiny ? 1 + vrng_below(&e->pr, 3) : 1 + vrng_logsize(&e->pr, 200000);
			uint8_t *ip = vh_in_window(in + e->fed, ai); uint8_t *op = vh_out_window(ao);
			e->s.next_in = ip; e->s.avail_in = ai; e->s.next_out = op; e->s.avail_out = ao;
			e->total_given = e->fed + ai;
			lzma_ret ret = lzma_code(&e->s, a);
			++e->calls;
			size_t din = ai - e->s.avail_in, dout = ao - e->s.avail_out;
			if (!vh_out_canary_ok()) return LZMA_PROG_ERROR;
			vbuf_append(&e->out, op, dout); e->fed += din; ai -= din;
			// progress sample between calls (by the calling thread)
			uint64_t pin = 0, pout = 0; lzma_get_progress(&e->s, &pin, &pout);
			if (pin > e->total_given && !e->progress_bad) { e->progress_bad = true; snprintf(e->pwhy, sizeof(e->pwhy), "progress_in %" PRIu64 " > %" PRIu64 " bytes given so far", pin, e->total_given); }
			if (sched_aborted()) { e->ended_early = true; return LZMA_OK; }
			if (e->end_after >= 0 && (int64_t)e->calls >= e->end_after) { e->ended_early = true; return LZMA_OK; }
			if (ret != LZMA_OK) return ret;
			if (din == 0 && dout == 0) { if (prev_noprog && e->timeout == 0) return LZMA_BUF_ERROR; prev_noprog = true; } else prev_noprog = false;
			if (a == LZMA_RUN) break;
			if (e->calls > 100000000) return LZMA_BUF_ERROR;
		}
		if (a == LZMA_RUN && e->fed == end && action == LZMA_RUN) return LZMA_OK;
	}
}

static void c08_case(uint64_t idx)
{
	vrng r; vrng_init(&r, A.seed, 0xC08, idx, 0);
	hx_case_begin(idx);
	vcfg cfg; gen_cfg(&r, &cfg, vrng_chance(&r, 1, 4) ? VCFG_XZ : VCFG_ALLOW_DELTA, 1u << 18);
	if (!cfg.from_preset) { if (cfg.lzma.depth > 40) cfg.lzma.depth = 8; }
	uint32_t threads = 1 + vrng_below(&r, 8);
	static const uint64_t bss[] = { 4096, 8192, 16384, 65536, 262144, 1u << 20 };
	uint64_t bs = bss[vrng_below(&r, 6)];
	// a sixth of the cases: block sizes just below the points where the size fields of the Block Header grow by a
	// byte (2^7, 2^14; thorough also 2^21) - an incompressible Block then needs the wider field although block_size
	// itself does not
	if (vrng_chance(&r, 1, 6)) { unsigned w = vrng_below(&r, A.thorough ? 3 : 2); bs = (w == 0 ? 128u : (w == 1 ? 16384u : 2097152u)) - 1 - vrng_below(&r, w == 2 ? 12 : 4); hx_count("block_size_below_field_width_boundary", 1); }
	static const uint32_t tos[] = { 0, 0, 1, 20 };
	uint32_t timeout = tos[vrng_below(&r, 4)];
	// input: sizes around block_size x threads, compressible or not
	size_t total;
	unsigned k = vrng_below(&r, 10);
	if (k == 0) total = 0;
	else if (k < 4) total = (size_t)(bs * threads) + vrng_below(&r, 9) - 4;
	else if (k < 7) total = (size_t)vrng_below64(&r, bs * (threads + 2) + 1);
	else total = vrng_logsize(&r, 400000);
	if (total > (A.thorough ? 6000000u : 1500000u)) total = (A.thorough ? 6000000u : 1500000u) - vrng_below(&r, 1000);
	if (SMODE == SCHED_SERIAL && total > 300000) total = 300000 - vrng_below(&r, 1000);
	// two cases per chaos run without TSan: one 24 MiB incompressible Block behind a three-filter chain with SHA-256.
	// Random data makes LZMA2 chunks slightly shorter than 64 KiB, so over some 20 MiB the chunk headers outgrow
	// lzma_block_buffer_bound()'s slack and the worker falls back to lzma_block_uncomp_encode(), which rewrites the
	// Block Header for an LZMA2-only chain (smaller than the one reserved): the Index record must follow the rewrite
#ifdef __SANITIZE_THREAD__
	const bool big = false;
#else
	const bool big = SMODE != SCHED_SERIAL && idx % 350 == 7;
#endif
	if (big) {
		vcfg_free(&cfg); memset(&cfg, 0, sizeof(cfg));
		lzma_lzma_preset(&cfg.lzma, 0);
		cfg.delta[0] = (lzma_options_delta){ .type = LZMA_DELTA_TYPE_BYTE, .dist = 1 };
		cfg.delta[1] = (lzma_options_delta){ .type = LZMA_DELTA_TYPE_BYTE, .dist = 2 };
		cfg.filters[0] = (lzma_filter){ .id = LZMA_FILTER_DELTA, .options = &cfg.delta[0] };
		cfg.filters[1] = (lzma_filter){ .id = LZMA_FILTER_DELTA, .options = &cfg.delta[1] };
		cfg.filters[2] = (lzma_filter){ .id = LZMA_FILTER_LZMA2, .options = &cfg.lzma };
		cfg.filters[3] = (lzma_filter){ .id = LZMA_VLI_UNKNOWN, .options = NULL };
		cfg.nfilters = 3; cfg.check = LZMA_CHECK_SHA256;
		snprintf(cfg.desc, sizeof(cfg.desc), "delta:1,delta:2,lzma2:preset=0/sha256(big incompressible Block)");
		threads = 2; bs = 24u << 20; timeout = 0; total = (size_t)bs + 4096;
		hx_count("big_incompressible_block_cases", 1);
	}
	vbuf in = {0};
	int want_kind = vrng_chance(&r, 1, 3) ? GD_RANDOM : -1;
	if (big) want_kind = GD_RANDOM;
	int kind = gen_data(&r, &in, total, want_kind, cfg.lzma.dict_size);
	// script
	unsigned nseg = 1 + vrng_below(&r, 8);
	size_t cut[10]; int act[10]; int upd[10];
	for (unsigned i = 0; i < nseg; ++i) { cut[i] = total ? (size_t)vrng_below64(&r, total + 1) : 0; }
	for (unsigned i = 0; i < nseg; ++i) for (unsigned j = i + 1; j < nseg; ++j) if (cut[j] < cut[i]) { size_t t = cut[i]; cut[i] = cut[j]; cut[j] = t; }
	for (unsigned i = 0; i < nseg; ++i) { unsigned a = vrng_below(&r, 10); act[i] = a < 3 ? LZMA_RUN : (a < 7 ? LZMA_FULL_FLUSH : LZMA_FULL_BARRIER); upd[i] = vrng_chance(&r, 1, 5); }
	int lifecycle = vrng_chance(&r, 1, 5) ? 1 + (int)vrng_below(&r, 3) : 0;   // 1 early end, 2 re-init same threads, 3 re-init other threads
	// 4: one allocation (or every one from some point on) fails, usually inside a worker thread: the call that notices
	// must return LZMA_MEM_ERROR - never block - and lzma_end() must give everything back
	if (!lifecycle && vrng_chance(&r, 1, 8)) lifecycle = 4;
	if (big) { nseg = 1; cut[0] = total; act[0] = LZMA_RUN; upd[0] = 0; lifecycle = 0; }
	alloc_mon mon; alloc_mon_init(&mon);
	if (lifecycle == 4) {
		static const uint32_t span[] = { 12, 40, 40, 150 };
		uint32_t kk = 1 + vrng_below(&r, span[vrng_below(&r, 4)]);
		if (vrng_chance(&r, 2, 3)) mon.fail_at = kk; else mon.fail_from = kk;
	}
	bool faulted = false;
	enc_run e; memset(&e, 0, sizeof(e)); vrng_init(&e.pr, vrng_u64(&r), 1, 2, 3);
	// a third of the re-init lifecycles: one of the first allocations of the RE-initialisation fails
	bool reinit_fault = (lifecycle == 2 || lifecycle == 3) && vrng_chance(&r, 1, 3);
	if (lifecycle == 4 || reinit_fault) e.s.allocator = &mon.a;
	e.tiny = vrng_chance(&r, 1, 8) && total < 20000; e.timeout = timeout;
	e.end_after = (lifecycle >= 1 && lifecycle <= 3) ? (int64_t)(1 + vrng_below(&r, 30)) : -1;
	hx_sample("c08 cfg=%s kind=%s total=%zu threads=%u bs=%" PRIu64 " timeout=%u segs=%u lifecycle=%d", cfg.desc, gd_names[kind], total, threads, bs, timeout, nseg, lifecycle);
	char key[200]; char hist[700]; size_t hw = 0; hist[0] = 0;
	uint64_t ev0[12]; for (int v = 0; v < 11; ++v) ev0[v] = mte(v);
	sched_case_begin(A.seed * 1000003u + idx);
	lzma_mt mt = { .threads = threads, .block_size = bs, .timeout = timeout, .filters = cfg.filters, .check = cfg.check };
	lzma_ret ret = lzma_stream_encoder_mt(&e.s, &mt);
	bool failed = false;
	size_t want_bound[12]; unsigned nbound = 0; size_t last_full = 0;
	vbuf dec = {0};
	vcfg newcfg; bool newcfg_valid = false;
	if (lifecycle == 4 && ret == LZMA_MEM_ERROR) { faulted = true; failed = true; }
	else if (ret != LZMA_OK) { snprintf(key, sizeof(key), "init-failed|mt_enc"); hx_violation("C08", key, idx, "init returned %s; cfg=%s", lzma_ret_name(ret), cfg.desc); failed = true; }
	for (unsigned i = 0; i < nseg && !failed && !e.ended_early; ++i) {
		size_t n = cut[i] - e.fed;
		hw += (size_t)snprintf(hist + hw, hw < sizeof(hist) ? sizeof(hist) - hw : 0, "[%zu,a=%d]", n, act[i]); if (hw >= sizeof(hist)) hw = sizeof(hist) - 1;
		ret = enc_feed(&e, in.p, n, (lzma_action)act[i]);
		hx_eval();
		if (e.ended_early) break;
		if (lifecycle == 4 && ret == LZMA_MEM_ERROR) { faulted = true; failed = true; break; }
		if (act[i] == LZMA_RUN) { if (ret != LZMA_OK) { hx_violation("C08", "run-failed|mt_enc", idx, "LZMA_RUN returned %s; cfg=%s script %s", lzma_ret_name(ret), cfg.desc, hist); failed = true; } continue; }
		if (ret != LZMA_STREAM_END) { snprintf(key, sizeof(key), "flush-failed|mt_enc|a=%d", act[i]); hx_violation("C08", key, idx, "action %d returned %s; cfg=%s threads=%u bs=%" PRIu64 " script %s", act[i], lzma_ret_name(ret), cfg.desc, threads, bs, hist); failed = true; break; }
		if (act[i] == LZMA_FULL_FLUSH) {
			// all input so far must be decodable from the output so far, now
			lzma_stream d = LZMA_STREAM_INIT; vbuf_clear(&dec);
			if (lzma_stream_decoder(&d, UINT64_MAX, 0) == LZMA_OK) {
				slice_plan p = { .mode = SL_WHOLE, .final_action = LZMA_RUN }; slice_result sr;
				slicer_run(&d, e.out.p, e.out.n, &dec, &p, &sr);
				if (dec.n != e.fed || (dec.n && memcmp(dec.p, in.p, dec.n))) {
					hx_violation("C08", "full-flush-not-decodable", idx, "FULL_FLUSH returned STREAM_END but a decoder over the %zu output bytes gives %zu of the %zu input bytes (status %s); cfg=%s threads=%u bs=%" PRIu64 " script %s", e.out.n, dec.n, e.fed, lzma_ret_name(sr.ret), cfg.desc, threads, bs, hist);
					failed = true;
				}
			}
			lzma_end(&d);
			hx_count("full_flush_checked", 1);
		} else hx_count("barriers", 1);
		if (e.fed > last_full && nbound < 12) want_bound[nbound++] = e.fed;
		last_full = e.fed;
		if (upd[i] && !failed) {
			if (newcfg_valid) vcfg_free(&newcfg);
			gen_cfg(&r, &newcfg, VCFG_ALLOW_DELTA, 1u << 18); newcfg_valid = true;
			lzma_ret ur = lzma_filters_update(&e.s, newcfg.filters);
			if (lifecycle == 4 && ur == LZMA_MEM_ERROR) { faulted = true; failed = true; break; }
			if (ur != LZMA_OK) { hx_violation("C08", "filters-update-refused-between-blocks", idx, "lzma_filters_update after a completed flush returned %s; script %s", lzma_ret_name(ur), hist); failed = true; }
			else hx_count("filter_updates", 1);
		}
	}
	if (!failed && !e.ended_early) {
		ret = enc_feed(&e, in.p, total - e.fed, LZMA_FINISH);
		hx_eval();
		if (lifecycle == 4 && ret == LZMA_MEM_ERROR) { faulted = true; failed = true; }
		else if (!e.ended_early && ret != LZMA_STREAM_END) { hx_violation("C08", "finish-failed|mt_enc", idx, "LZMA_FINISH returned %s; cfg=%s threads=%u bs=%" PRIu64 " script %s", lzma_ret_name(ret), cfg.desc, threads, bs, hist); failed = true; }
	}
	if (e.progress_bad && !failed) { hx_violation("C08", "progress-exceeds-input", idx, "%s; cfg=%s threads=%u bs=%" PRIu64, e.pwhy, cfg.desc, threads, bs); failed = true; }
	if (!failed && !e.ended_early) {
		uint64_t pin = 0, pout = 0; lzma_get_progress(&e.s, &pin, &pout);
		if (pin != e.s.total_in || pout != e.s.total_out) {
			hx_violation("C08", "final-progress-differs", idx, "final progress (%" PRIu64 ", %" PRIu64 ") but totals (%" PRIu64 ", %" PRIu64 "); cfg=%s threads=%u bs=%" PRIu64 " kind=%s", pin, pout, e.s.total_in, e.s.total_out, cfg.desc, threads, bs, gd_names[kind]);
			failed = true;
		}
	}
	if (e.ended_early && lifecycle >= 2 && !failed) {
		// re-initialise the same handle while workers may still be running
		lzma_mt mt2 = mt;
		if (lifecycle == 3) mt2.threads = 1 + (threads % 8);
		static const uint64_t bs2[] = { 4096, 32768, 65536, 131072 };
		mt2.block_size = vrng_chance(&r, 1, 2) ? bs : bs2[vrng_below(&r, 4)];
		if (reinit_fault) alloc_mon_fail_nth_from_now(&mon, 1 + vrng_below(&r, 6));
		ret = lzma_stream_encoder_mt(&e.s, &mt2);
		if (reinit_fault) alloc_mon_reset_plan(&mon);
		hx_count(lifecycle == 2 ? "reinit_same_threads" : "reinit_other_threads", 1);
		if (reinit_fault && ret == LZMA_MEM_ERROR) {
			// the failed re-initialisation must leave a handle that can be ended (it is, below) with nothing left
			hx_count("reinit_alloc_failure_reported", 1);
			faulted = true; failed = true;
		} else
		if (ret != LZMA_OK) { hx_violation("C08", "reinit-failed|mt_enc", idx, "re-initialising returned %s", lzma_ret_name(ret)); failed = true; }
		else {
			// encode everything again with the re-initialised handle
			vbuf_clear(&e.out); e.fed = 0; e.end_after = -1; e.ended_early = false; e.calls = 0; e.progress_bad = false; e.total_given = 0;
			ret = enc_feed(&e, in.p, total, LZMA_FINISH);
			hx_eval();
			if (!e.ended_early && ret != LZMA_STREAM_END) { hx_violation("C08", "finish-failed-after-reinit|mt_enc", idx, "returned %s; threads %u->%u bs %" PRIu64 "->%" PRIu64, lzma_ret_name(ret), threads, mt2.threads, bs, (uint64_t)mt2.block_size); failed = true; }
			if (!failed && !e.ended_early) {
				// the second life's progress figures start from zero and end at its own totals
				uint64_t pin = 0, pout = 0; lzma_get_progress(&e.s, &pin, &pout);
				if (e.progress_bad) { hx_violation("C08", "progress-exceeds-input|after-reinit", idx, "%s; threads %u->%u", e.pwhy, threads, mt2.threads); failed = true; }
				else if (pin != e.s.total_in || pout != e.s.total_out) {
					hx_violation("C08", "final-progress-differs|after-reinit", idx, "after re-initialising and encoding again: final progress (%" PRIu64 ", %" PRIu64 ") but totals (%" PRIu64 ", %" PRIu64 "); threads %u->%u bs %" PRIu64 "->%" PRIu64, pin, pout, e.s.total_in, e.s.total_out, threads, mt2.threads, bs, (uint64_t)mt2.block_size);
					failed = true;
				}
			}
			nbound = 0; bs = mt2.block_size;
		}
	} else if (e.ended_early) hx_count("early_end_cases", 1);
	bool complete = !failed && !e.ended_early;
	lzma_end(&e.s);
	sched_stats ss; sched_get_stats(&ss);
	sched_case_end();
	if (reinit_fault) {
		if (mon.live_blocks) hx_violation("C08", "leak-after-allocation-failure|mt_enc|reinit", idx, "%" PRIu64 " blocks still allocated after lzma_end following a re-initialisation with a failed allocation; cfg=%s threads=%u", mon.live_blocks, cfg.desc, threads);
		if (mon.errors) hx_violation("C08", "allocator-misuse|mt_enc|reinit", idx, "%s; cfg=%s threads=%u", mon.errmsg, cfg.desc, threads);
	}
	if (lifecycle == 4) {
		hx_count(faulted ? "alloc_failure_reported" : "alloc_failure_not_reached", 1);
		if (mon.live_blocks) hx_violation("C08", "leak-after-allocation-failure|mt_enc", idx, "%" PRIu64 " blocks still allocated after lzma_end (allocation failure plan at=%" PRId64 " from=%" PRId64 "); cfg=%s threads=%u", mon.live_blocks, mon.fail_at, mon.fail_from, cfg.desc, threads);
		if (mon.errors) hx_violation("C08", "allocator-misuse|mt_enc", idx, "%s; cfg=%s threads=%u", mon.errmsg, cfg.desc, threads);
	}
	alloc_mon_destroy(&mon);
	if (complete) {
		// single valid Stream decoding to exactly the input
		lzma_stream d = LZMA_STREAM_INIT; vbuf_clear(&dec);
		if (lzma_stream_decoder(&d, UINT64_MAX, 0) == LZMA_OK) {
			slice_plan p = { .mode = SL_WHOLE, .final_action = LZMA_FINISH }; slice_result sr;
			slicer_run(&d, e.out.p, e.out.n, &dec, &p, &sr);
			if (sr.ret != LZMA_STREAM_END || sr.total_in != e.out.n || dec.n != in.n || (in.n && memcmp(dec.p, in.p, in.n))) {
				size_t at = 0; while (at < dec.n && at < in.n && dec.p[at] == in.p[at]) ++at;
				hx_violation("C08", "stream-wrong", idx, "output decodes to %zu bytes with %s (consumed %" PRIu64 "/%zu), input %zu bytes, first difference at %zu; cfg=%s threads=%u bs=%" PRIu64 " timeout=%u script %s", dec.n, lzma_ret_name(sr.ret), sr.total_in, e.out.n, in.n, at, cfg.desc, threads, bs, timeout, hist);
				failed = true;
			}
		}
		lzma_end(&d);
	}
	if (complete && !failed) {
		lzma_stream fi = LZMA_STREAM_INIT; lzma_index *ix = NULL;
		if (lzma_file_info_decoder(&fi, &ix, UINT64_MAX, e.out.n) == LZMA_OK) {
			fi.next_in = e.out.p; fi.avail_in = e.out.n;
			if (lzma_code(&fi, LZMA_FINISH) == LZMA_STREAM_END && ix) {
				if (lzma_index_stream_count(ix) != 1) hx_violation("C08", "not-a-single-stream", idx, "%" PRIu64 " Streams in the output", (uint64_t)lzma_index_stream_count(ix));
				lzma_index_iter it; lzma_index_iter_init(&it, ix);
				size_t bounds[4096]; unsigned nb = 0; uint64_t maxblk = 0; bool empty = false;
				while (!lzma_index_iter_next(&it, LZMA_INDEX_ITER_BLOCK)) { if (it.block.uncompressed_size == 0) empty = true; if (it.block.uncompressed_size > maxblk) maxblk = it.block.uncompressed_size; if (nb < 4096) bounds[nb++] = (size_t)(it.block.uncompressed_file_offset + it.block.uncompressed_size); }
				if (empty) hx_violation("C08", "empty-block-created", idx, "cfg=%s script %s", cfg.desc, hist);
				if (maxblk > bs) hx_violation("C08", "block-larger-than-block-size", idx, "Block of %" PRIu64 " bytes, block_size %" PRIu64, maxblk, bs);
				for (unsigned w = 0; w < nbound; ++w) { bool f = false; for (unsigned b = 0; b < nb; ++b) if (bounds[b] == want_bound[w]) f = true; if (!f) { hx_violation("C08", "barrier-not-at-requested-offset", idx, "flush/barrier at uncompressed offset %zu did not end a Block there; cfg=%s threads=%u bs=%" PRIu64 " script %s", want_bound[w], cfg.desc, threads, bs, hist); break; } }
				if (nb >= 2) hx_count("multi_block_outputs", 1);
			}
			lzma_index_end(ix, NULL);
		}
		lzma_end(&fi);
	}
	{
		bool two = (mte(VERIF_MTE_THREAD_START) + mte(VERIF_MTE_WORKER_REUSE) - ev0[VERIF_MTE_THREAD_START] - ev0[VERIF_MTE_WORKER_REUSE]) >= 2;
		if (mte(VERIF_MTE_INCOMPRESSIBLE) > ev0[VERIF_MTE_INCOMPRESSIBLE]) hx_count("cases_incompressible_fallback", 1);
		if (SMODE == SCHED_SERIAL) { hx_count("serial_steps", ss.steps); hx_count("serial_switches", ss.switches); hx_count("serial_timeouts_fired", ss.timeouts_fired); hx_max("serial_max_runnable", ss.max_runnable); hx_distinct(ss.schedule_hash, two); }
		else { uint64_t h = vhash(in.p, in.n, VHASH_INIT); h = vhash(hist, strlen(hist), h); h = vhash(&idx, 8, h); hx_distinct(h, two); }
		if (two) hx_count("cases_two_or_more_blocks_in_flight", 1);
	}
	vbuf_free(&dec); vbuf_free(&e.out); vbuf_free(&in); vcfg_free(&cfg); if (newcfg_valid) vcfg_free(&newcfg);
}

int main(int argc, char **argv)
{
	hx_parse(argc, argv, &A);
	if (strstr(A.extra, "serial")) SMODE = SCHED_SERIAL; else if (strstr(A.extra, "off")) SMODE = SCHED_OFF;
	if (A.corpus) ncorpus = list_dir(A.corpus, &corpus);
	// a threaded coder that stops making progress in chaos mode can only be seen as a hang
	hx_set_case_watchdog(A.only >= 0 ? 300 : 120);
	uint64_t idx = UINT64_MAX;
	while (hx_next_case(&A, &idx)) { if (!strcmp(A.mode, "c08")) c08_case(idx); else c07_case(idx); }
	for (size_t i = 0; i < ncorpus; ++i) free(corpus[i]);
	free(corpus);
	hx_finish();
	return 0;
}
