// hx_flush: C12 - flush actions make all prior input decodable; mid-stream
// option changes are safe. Random action scripts over the single-threaded,
// threaded, raw, Block and .lzma encoders with a prefix-decodability monitor
// that runs at the instant a flush call returns LZMA_STREAM_END.
#define _GNU_SOURCE
#include "vh.h"
#include <stdarg.h>
#include <sys/types.h>

static hx_args A;
enum { E_STREAM, E_EASY, E_MT, E_RAW, E_BLOCK, E_ALONE, E_COUNT };
static const char *const e_names[E_COUNT] = { "stream", "easy", "mt", "raw", "block", "alone" };

typedef struct {
	int e; vcfg cfg; lzma_block block; uint32_t threads; uint64_t block_size; uint32_t timeout;
	vbuf in; vbuf out;
	lzma_stream strm;
	size_t fed;               // input bytes given so far
	char hist[1500]; size_t hw;
	uint64_t idx;
	bool failed;
	// one lzma_filters_update() attempted between two lzma_code(LZMA_RUN) calls, at call number intr_at of the case
	// (output is kept tiny until then, so the call boundary can fall inside a header that is being copied out)
	int intr_kind;            // 0 none, 1 whole new chain, 2 same chain with other lc/lp/pb
	uint64_t intr_at, ncalls; const lzma_filter *intr_filters;
	bool intr_done; lzma_ret intr_ret; size_t intr_fed, intr_out;
} fcase;

static bool chain_has_bcj(const lzma_filter *f)
{
	for (; f->id != LZMA_VLI_UNKNOWN; ++f) if (f->id >= LZMA_FILTER_X86 && f->id <= LZMA_FILTER_RISCV) return true;
	return false;
}
static bool chain_last_is_lzma2(const lzma_filter *f)
{
	const lzma_filter *l = f; for (; f->id != LZMA_VLI_UNKNOWN; ++f) l = f;
	return l->id == LZMA_FILTER_LZMA2;
}

static void hist_add(fcase *c, const char *fmt, ...)
{
	va_list ap; va_start(ap, fmt);
	if (c->hw < sizeof(c->hist) - 80) c->hw += (size_t)vsnprintf(c->hist + c->hw, sizeof(c->hist) - c->hw, fmt, ap);
	va_end(ap);
}

// Feed in[fed..fed+n) with `action`; returns the final lzma_ret of the step:
// LZMA_OK when RUN consumed everything, LZMA_STREAM_END when the flush
// completed, else the error.
static lzma_ret feed(fcase *c, vrng *r, size_t n, lzma_action action, bool tiny_out)
{
	size_t end = c->fed + n;
	uint64_t calls = 0;
	if (n == 0 && action == LZMA_RUN) return LZMA_OK;
	bool prev_noprog = false;
	for (;;) {
		if (c->intr_kind > 0 && !c->intr_done && c->ncalls >= c->intr_at) {
			c->intr_ret = lzma_filters_update(&c->strm, c->intr_filters);
			c->intr_done = true; c->intr_fed = c->fed; c->intr_out = c->out.n;
		}
		if (c->intr_kind > 0 && !c->intr_done) tiny_out = true;
		size_t left = end - c->fed;
		size_t ai = left;
		if (action == LZMA_RUN && left > 1 && vrng_chance(r, 1, 2)) ai = 1 + (size_t)vrng_below64(r, left);
		if (c->intr_kind > 0 && !c->intr_done && ai > 1 && vrng_chance(r, 2, 3)) { size_t few = 1 + vrng_below(r, 4); if (few < ai) ai = few; }
		size_t ao = tiny_out ? 1 + vrng_below(r, 3) : 1 + vrng_logsize(r, 100000);
		if (ai > vh_window_max()) ai = vh_window_max();
		lzma_action a = action;
		if (action != LZMA_RUN && ai < left) a = LZMA_RUN;   // the flush action goes with the last piece
		uint8_t *ip = vh_in_window(c->in.p + c->fed, ai);
		uint8_t *op = vh_out_window(ao);
		c->strm.next_in = ip; c->strm.avail_in = ai; c->strm.next_out = op; c->strm.avail_out = ao;
		if (a != LZMA_RUN) {
			// protocol: same avail_in until STREAM_END -> loop here
			for (;;) {
				lzma_ret ret = lzma_code(&c->strm, a);
				++c->ncalls;
				size_t dout = ao - c->strm.avail_out; size_t din = ai - c->strm.avail_in;
				if (!vh_out_canary_ok()) return LZMA_PROG_ERROR;
				vbuf_append(&c->out, op, dout);
				c->fed += din; ai -= din;
				if (ret != LZMA_OK) return ret;
				if (din == 0 && dout == 0) { if (prev_noprog && c->timeout == 0) return LZMA_BUF_ERROR; prev_noprog = true; } else prev_noprog = false;
				if (++calls > 50000000) return LZMA_BUF_ERROR;
				ao = tiny_out ? 1 + vrng_below(r, 3) : 1 + vrng_logsize(r, 100000);
				ip = vh_in_window(c->in.p + c->fed, ai);
				op = vh_out_window(ao);
				c->strm.next_in = ip; c->strm.avail_in = ai; c->strm.next_out = op; c->strm.avail_out = ao;
			}
		}
		lzma_ret ret = lzma_code(&c->strm, LZMA_RUN);
		++c->ncalls;
		size_t dout = ao - c->strm.avail_out; size_t din = ai - c->strm.avail_in;
		vbuf_append(&c->out, op, dout);
		c->fed += din;
		if (ret != LZMA_OK) return ret;
		if (c->fed == end && action == LZMA_RUN) return LZMA_OK;
		if (++calls > 50000000) return LZMA_BUF_ERROR;
	}
}

static lzma_ret init_decoder(fcase *c, lzma_stream *d, lzma_block *tmpb, lzma_filter *tmpf)
{
	switch (c->e) {
	case E_RAW: return lzma_raw_decoder(d, c->cfg.filters);
	case E_ALONE: return lzma_alone_decoder(d, UINT64_MAX);
	case E_BLOCK:
		*tmpb = c->block; memcpy(tmpf, c->cfg.filters, sizeof(lzma_filter) * (LZMA_FILTERS_MAX + 1)); tmpb->filters = tmpf;
		tmpb->compressed_size = LZMA_VLI_UNKNOWN; tmpb->uncompressed_size = LZMA_VLI_UNKNOWN;
		return lzma_block_decoder(d, tmpb);
	default: return lzma_stream_decoder(d, UINT64_MAX, 0);
	}
}

// Decode the output produced so far with a fresh decoder, without
// LZMA_FINISH; returns number of bytes obtained, or (size_t)-1 on error.
static size_t prefix_decode(fcase *c, vbuf *dec, lzma_ret *last)
{
	lzma_stream d = LZMA_STREAM_INIT; lzma_block tb; lzma_filter tf[LZMA_FILTERS_MAX + 1];
	vbuf_clear(dec);
	if (init_decoder(c, &d, &tb, tf) != LZMA_OK) { lzma_end(&d); *last = LZMA_PROG_ERROR; return (size_t)-1; }
	slice_plan p = { .mode = SL_WHOLE, .final_action = LZMA_RUN };
	slice_result sr;
	slicer_run(&d, c->out.p, c->out.n, dec, &p, &sr);
	lzma_end(&d);
	*last = sr.ret;
	if (sr.ret != LZMA_OK && sr.ret != LZMA_BUF_ERROR && sr.ret != LZMA_STREAM_END) return (size_t)-1;
	return dec->n;
}

static void run_case(uint64_t idx)
{
	vrng r; vrng_init(&r, A.seed, 0xC12, idx, 0);
	hx_case_begin(idx);
	fcase c; memset(&c, 0, sizeof(c));
	c.idx = idx;
	static const uint8_t ew[] = { E_STREAM, E_STREAM, E_STREAM, E_EASY, E_MT, E_MT, E_RAW, E_RAW, E_BLOCK, E_ALONE };
	c.e = ew[vrng_below(&r, sizeof(ew))];
	unsigned fl = c.e == E_ALONE ? VCFG_ONLY_LZMA1 : (c.e == E_RAW ? (VCFG_XZ | VCFG_ALLOW_LZMA1) : (c.e == E_EASY ? 0 : VCFG_XZ));
	// prefer chains that can sync-flush: two thirds without BCJ
	gen_cfg(&r, &c.cfg, vrng_chance(&r, 2, 3) ? (fl & ~(unsigned)VCFG_ALLOW_BCJ) : fl, 1u << 18);
	if (c.e == E_EASY) { c.cfg.preset = vrng_below(&r, 7); lzma_lzma_preset(&c.cfg.lzma, c.cfg.preset); c.cfg.filters[0].id = LZMA_FILTER_LZMA2; c.cfg.filters[0].options = &c.cfg.lzma; c.cfg.filters[1].id = LZMA_VLI_UNKNOWN; c.cfg.nfilters = 1; snprintf(c.cfg.desc, sizeof(c.cfg.desc), "preset=%u,check=%d", c.cfg.preset, (int)c.cfg.check); }
	c.threads = 1 + vrng_below(&r, 4);
	static const uint64_t bss[] = { 4096, 8192, 20000, 65536 };
	c.block_size = bss[vrng_below(&r, 4)];
	c.timeout = vrng_chance(&r, 1, 3) ? 1 : 0;
	bool can_sync = chain_last_is_lzma2(c.cfg.filters) && !chain_has_bcj(c.cfg.filters);
	bool sync_supported_action = c.e != E_MT && c.e != E_ALONE;
	bool is_xz = c.e == E_STREAM || c.e == E_EASY || c.e == E_MT;
	// script
	unsigned nseg = 1 + vrng_below(&r, 12);
	size_t seg_n[16]; int seg_act[16]; int seg_upd[16];
	size_t total = 0;
	uint32_t nice = c.cfg.lzma.nice_len;
	for (unsigned i = 0; i < nseg; ++i) {
		unsigned k = vrng_below(&r, 10);
		size_t n = k == 0 ? 0 : (k < 4 ? 1 + vrng_below(&r, nice + 2) : (k < 8 ? 1 + vrng_logsize(&r, 30000) : 1 + vrng_below(&r, 3 * 65536)));
		if (!A.thorough && total + n > 400000) n = 1 + vrng_below(&r, 100);
		seg_n[i] = n; total += n;
		k = vrng_below(&r, 10);
		int a = k < 2 ? LZMA_RUN : (k < 6 ? LZMA_SYNC_FLUSH : (k < 8 ? LZMA_FULL_FLUSH : LZMA_FULL_BARRIER));
		if (!is_xz && (a == LZMA_FULL_FLUSH || a == LZMA_FULL_BARRIER)) a = LZMA_SYNC_FLUSH;
		if (a == LZMA_SYNC_FLUSH && !sync_supported_action) a = is_xz ? LZMA_FULL_FLUSH : LZMA_RUN;
		seg_act[i] = a;
		seg_upd[i] = vrng_chance(&r, 1, 4) ? 1 + (int)vrng_below(&r, 4) : 0;  // 1 legal update, 2 illegal ids, 3 invalid lc/lp, 4 chain refused only when the encoder initialises it
	}
	gen_data(&r, &c.in, total, -1, c.cfg.lzma.dict_size);
	hx_sample("c12 enc=%s cfg=%s total=%zu segs=%u threads=%u bs=%" PRIu64 " can_sync=%d", e_names[c.e], c.cfg.desc, total, nseg, c.threads, c.block_size, can_sync);
	bool tiny = vrng_chance(&r, 1, 6) && total < 30000;
	vcfg intrcfg; bool intrcfg_valid = false; lzma_options_lzma intropt; lzma_filter intrf[LZMA_FILTERS_MAX + 1];
	if (vrng_chance(&r, 1, 4)) {
		if ((c.e == E_STREAM || c.e == E_MT) && vrng_chance(&r, 2, 3)) {
			gen_cfg(&r, &intrcfg, (unsigned)VCFG_XZ & ~(unsigned)VCFG_ALLOW_BCJ, 1u << 18); intrcfg_valid = true;
			c.intr_kind = 1; c.intr_filters = intrcfg.filters;
		} else if (c.e == E_STREAM && vrng_chance(&r, 1, 3)) {
			// a chain that passes every pre-check (IDs, order, memory usage) and is refused only by the filter's own
			// initialisation: ARM BCJ with a start offset that is not a multiple of four
			static lzma_options_bcj bad_bcj = { .start_offset = 2 };
			intropt = c.cfg.lzma; if (intropt.preset_dict) { intropt.preset_dict = NULL; intropt.preset_dict_size = 0; }
			intrf[0].id = LZMA_FILTER_ARM; intrf[0].options = &bad_bcj;
			intrf[1].id = LZMA_FILTER_LZMA2; intrf[1].options = &intropt; intrf[2].id = LZMA_VLI_UNKNOWN; intrf[2].options = NULL;
			c.intr_kind = 3; c.intr_filters = intrf;
		} else if (c.e != E_ALONE && c.e != E_MT && chain_last_is_lzma2(c.cfg.filters)) {
			memcpy(intrf, c.cfg.filters, sizeof(intrf)); intropt = c.cfg.lzma;
			intropt.lc = vrng_below(&r, 5); intropt.lp = vrng_below(&r, 5 - intropt.lc); intropt.pb = vrng_below(&r, 5);
			intrf[c.cfg.nfilters - 1].options = &intropt;
			c.intr_kind = 2; c.intr_filters = intrf;
		}
		// mostly within the first calls (Stream Header / first Block Header being copied out), sometimes anywhere
		c.intr_at = vrng_chance(&r, 3, 4) ? vrng_below(&r, 40) : vrng_below(&r, 3000);
		if (c.intr_kind == 3 && vrng_chance(&r, 1, 2)) c.intr_at = 0;   // before the first lzma_code() call
	}
	lzma_ret ret;
	switch (c.e) {
	case E_STREAM: ret = lzma_stream_encoder(&c.strm, c.cfg.filters, c.cfg.check); break;
	case E_EASY: ret = lzma_easy_encoder(&c.strm, c.cfg.preset, c.cfg.check); break;
	case E_MT: { lzma_mt mt = { .threads = c.threads, .block_size = c.block_size, .timeout = c.timeout, .filters = c.cfg.filters, .check = c.cfg.check }; ret = lzma_stream_encoder_mt(&c.strm, &mt); break; }
	case E_RAW: ret = lzma_raw_encoder(&c.strm, c.cfg.filters); break;
	case E_ALONE: ret = lzma_alone_encoder(&c.strm, &c.cfg.lzma); break;
	default:
		c.block.version = 1; c.block.check = c.cfg.check; c.block.filters = c.cfg.filters;
		c.block.compressed_size = LZMA_VLI_UNKNOWN; c.block.uncompressed_size = LZMA_VLI_UNKNOWN;
		ret = lzma_block_header_size(&c.block);
		if (ret == LZMA_OK) ret = lzma_block_encoder(&c.strm, &c.block);
		break;
	}
	char key[200];
	if (ret != LZMA_OK) { snprintf(key, sizeof(key), "init-failed|%s", e_names[c.e]); hx_violation("C12", key, idx, "init returned %s; cfg=%s", lzma_ret_name(ret), c.cfg.desc); goto done; }
	if (c.e != E_MT) c.timeout = 0;
	vbuf dec = {0};
	// boundaries requested by full flush / barrier (uncompressed offsets)
	size_t want_bound[20]; unsigned nbound = 0;
	size_t last_bound = 0;
	size_t last_full = 0;     // input offset of the last completed full flush / barrier
	lzma_options_lzma newopt; lzma_filter newf[LZMA_FILTERS_MAX + 1]; vcfg newcfg; bool newcfg_valid = false;
	const vcfg *cur = &c.cfg;   // the chain the encoder is using now
	vcfg oldcfgs[16]; unsigned nold = 0;
	unsigned flushes_with_pending = 0, sync_done = 0, full_done = 0, upd_ok = 0, upd_refused = 0;
	bool unsupported_sync_seen = false;
	for (unsigned i = 0; i < nseg && !c.failed; ++i) {
		lzma_action a = (lzma_action)seg_act[i];
		hist_add(&c, "[%zu,a=%d]", seg_n[i], (int)a);
		ret = feed(&c, &r, seg_n[i], a, tiny);
		hx_eval();
		if (c.intr_done && c.intr_kind > 0) {
			// (applied once; a refused change must leave the encoder usable: the rest of the script is the test)
			hist_add(&c, "{call %" PRIu64 ": %s at in=%zu out=%zu -> %s}", c.intr_at, c.intr_kind == 1 ? "new chain" : (c.intr_kind == 3 ? "chain refused at init" : "lc/lp/pb"), c.intr_fed, c.intr_out, lzma_ret_name(c.intr_ret));
			if (c.intr_kind == 3) {
				hx_count("midrun_init_refused_chain", 1);
				if (c.intr_ret == LZMA_OK) { hx_violation("C12", "init-refused-chain-accepted|stream", idx, "lzma_filters_update accepted [ARM start_offset=2, LZMA2] at call %" PRIu64 "; cfg=%s; script %s", c.intr_at, c.cfg.desc, c.hist); c.failed = true; }
			} else
			if (c.intr_ret == LZMA_OK) {
				hx_count(c.intr_kind == 1 ? "midrun_chain_update_accepted" : "midrun_lclppb_update_accepted", 1);
				if (c.intr_kind == 1) { cur = &intrcfg; can_sync = true; }
			} else hx_count(c.intr_kind == 1 ? "midrun_chain_update_refused" : "midrun_lclppb_update_refused", 1);
			c.intr_kind = -c.intr_kind;
		}
		if (a == LZMA_RUN) {
			if (ret != LZMA_OK) { snprintf(key, sizeof(key), "run-failed|%s", e_names[c.e]); hx_violation("C12", key, idx, "LZMA_RUN step returned %s; cfg=%s; script %s", lzma_ret_name(ret), c.cfg.desc, c.hist); c.failed = true; }
			continue;
		}
		if (a == LZMA_SYNC_FLUSH && !can_sync) {
			unsupported_sync_seen = true;
			if (ret == LZMA_OPTIONS_ERROR) {
				hx_count("unsupported_sync_refused", 1);
				c.failed = true;  // encoder is in error state now: stop the script
				break;
			}
			// The only other acceptable outcome is a flush that really made
			// everything decodable (possible when nothing was pending in
			// the chain, e.g. right after a full flush): checked below like
			// any completed flush. Anything else is "emitted undecodable
			// data instead of LZMA_OPTIONS_ERROR".
			if (ret != LZMA_STREAM_END) {
				snprintf(key, sizeof(key), "unsupported-sync-flush-not-refused|%s", e_names[c.e]);
				hx_violation("C12", key, idx, "SYNC_FLUSH on a chain that cannot sync-flush returned %s instead of LZMA_OPTIONS_ERROR; cfg=%s; script %s", lzma_ret_name(ret), c.cfg.desc, c.hist);
				c.failed = true; break;
			}
			hx_count("unsupported_sync_trivially_complete", 1);
		}
		if (ret != LZMA_STREAM_END) {
			snprintf(key, sizeof(key), "flush-failed|%s|a=%d", e_names[c.e], (int)a);
			hx_violation("C12", key, idx, "flush action %d returned %s; cfg=%s; script %s", (int)a, lzma_ret_name(ret), c.cfg.desc, c.hist);
			c.failed = true; break;
		}
		if (seg_n[i] > 0) ++flushes_with_pending;
		if (a == LZMA_SYNC_FLUSH || a == LZMA_FULL_FLUSH) {
			lzma_ret last;
			size_t got = prefix_decode(&c, &dec, &last);
			hx_eval();
			if (got == (size_t)-1 || got != c.fed || (got && memcmp(dec.p, c.in.p, got))) {
				snprintf(key, sizeof(key), "prefix-not-decodable|%s|a=%d", e_names[c.e], (int)a);
				hx_violation("C12", key, idx, "after flush action %d completed, a fresh decoder over the %zu output bytes so far gives %zd bytes (status %s), input so far is %zu bytes; cfg=%s; script %s",
						(int)a, c.out.n, (ssize_t)got, lzma_ret_name(last), c.fed, c.cfg.desc, c.hist);
				c.failed = true; break;
			}
			if (a == LZMA_SYNC_FLUSH) ++sync_done; else ++full_done;
		}
		if (a == LZMA_FULL_FLUSH || a == LZMA_FULL_BARRIER) {
			if (c.fed > last_bound && nbound < 20) { want_bound[nbound++] = c.fed; last_bound = c.fed; }
			if (a == LZMA_FULL_BARRIER) hx_count("barriers", 1);
			last_full = c.fed;
		}
		// option changes
		if (seg_upd[i] && !c.failed) {
			int u = seg_upd[i];
			memcpy(newf, cur->filters, sizeof(newf));
			newopt = cur->lzma;
			lzma_ret ur; const char *what;
			if ((a == LZMA_FULL_FLUSH || a == LZMA_FULL_BARRIER) && u == 1 && c.e != E_EASY) {
				// whole new chain for the next Block(s)
				if (newcfg_valid && nold < 16) oldcfgs[nold++] = newcfg;   // keep alive; freed at the end
				gen_cfg(&r, &newcfg, (unsigned)VCFG_XZ & ~(unsigned)VCFG_ALLOW_BCJ, 1u << 18); newcfg_valid = true;
				ur = lzma_filters_update(&c.strm, newcfg.filters); what = "new-chain-between-blocks";
				if (ur == LZMA_OK) {
					can_sync = true; cur = &newcfg; hist_add(&c, "{upd chain %s}", newcfg.desc);
					// the pending lc/lp/pb interrupt was built from the original chain: it would now be a chain change
					if (c.intr_kind == 2 && !c.intr_done) c.intr_kind = 0;
				}
			} else if (a == LZMA_SYNC_FLUSH && u == 1 && can_sync) {
				newopt.lc = vrng_below(&r, 5); newopt.lp = vrng_below(&r, 5 - newopt.lc); newopt.pb = vrng_below(&r, 5);
				newf[cur->nfilters - 1].options = &newopt;
				ur = lzma_filters_update(&c.strm, newf); what = "lclppb-after-sync";
				if (ur == LZMA_OK) hist_add(&c, "{upd lc%u lp%u pb%u}", newopt.lc, newopt.lp, newopt.pb);
			} else if (u == 4 && c.e == E_STREAM && (a == LZMA_FULL_FLUSH || a == LZMA_FULL_BARRIER)) {
				// between Blocks: (sometimes an accepted change first, then) a chain that only the filter's own
				// initialisation refuses; the encoder must stay usable with the chain it had
				static lzma_options_bcj bad_bcj = { .start_offset = 2 };
				if (vrng_chance(&r, 1, 2)) {
					if (newcfg_valid && nold < 16) oldcfgs[nold++] = newcfg;
					gen_cfg(&r, &newcfg, (unsigned)VCFG_XZ & ~(unsigned)VCFG_ALLOW_BCJ, 1u << 18); newcfg_valid = true;
					if (lzma_filters_update(&c.strm, newcfg.filters) == LZMA_OK) { can_sync = true; cur = &newcfg; hist_add(&c, "{upd chain %s}", newcfg.desc); if (c.intr_kind == 2 && !c.intr_done) c.intr_kind = 0; }
				}
				newopt = cur->lzma; if (newopt.preset_dict) { newopt.preset_dict = NULL; newopt.preset_dict_size = 0; }
				newf[0].id = LZMA_FILTER_ARM; newf[0].options = &bad_bcj;
				newf[1].id = LZMA_FILTER_LZMA2; newf[1].options = &newopt; newf[2].id = LZMA_VLI_UNKNOWN; newf[2].options = NULL;
				ur = lzma_filters_update(&c.strm, newf); what = "refused-at-init";
				hx_count("init_refused_chain_between_blocks", 1);
				if (ur == LZMA_OK) { hx_violation("C12", "init-refused-chain-accepted|stream", idx, "lzma_filters_update accepted [ARM start_offset=2, LZMA2] between Blocks; script %s", c.hist); c.failed = true; break; }
			} else if (u == 2 || u == 4) {
				// different filter IDs where only option changes are allowed, or an invalid chain
				static lzma_options_delta od = { .type = LZMA_DELTA_TYPE_BYTE, .dist = 3 };
				if (a == LZMA_SYNC_FLUSH) {
					if (cur->nfilters >= 2) {
						if (newf[0].id == LZMA_FILTER_DELTA) { newf[0].id = LZMA_FILTER_X86; newf[0].options = NULL; }
						else { newf[0].id = LZMA_FILTER_DELTA; newf[0].options = &od; }
					} else {
						newf[0].id = LZMA_FILTER_DELTA; newf[0].options = &od;
						newf[1].id = LZMA_FILTER_LZMA2; newf[1].options = &newopt; newf[2].id = LZMA_VLI_UNKNOWN;
					}
				} else {
					newf[0].id = LZMA_FILTER_DELTA; newf[0].options = &od;
					newf[1].id = LZMA_FILTER_DELTA; newf[1].options = &od; newf[2].id = LZMA_VLI_UNKNOWN;
				}
				ur = lzma_filters_update(&c.strm, newf); what = "illegal-ids";
				// (a Stream encoder that has no Block in progress accepts a
				// whole new chain: that is the documented between-Blocks case)
				bool between_blocks = is_xz && c.fed == last_full;
				if (ur == LZMA_OK && between_blocks) { hx_count("chain_change_at_block_boundary_via_sync", 1); c.failed = true; break; }
				if (ur == LZMA_OK && a == LZMA_SYNC_FLUSH) {
					snprintf(key, sizeof(key), "illegal-update-accepted|%s", e_names[c.e]);
					hx_violation("C12", key, idx, "lzma_filters_update with different filter IDs after SYNC_FLUSH returned LZMA_OK; cfg=%s; script %s", c.cfg.desc, c.hist);
					c.failed = true; break;
				}
				if (ur == LZMA_OK) { hx_violation("C12", "invalid-chain-accepted", idx, "lzma_filters_update accepted a chain ending in delta; script %s", c.hist); c.failed = true; break; }
			} else {
				newopt.lc = 4; newopt.lp = 1 + vrng_below(&r, 4);
				newf[cur->nfilters - 1].options = &newopt;
				ur = lzma_filters_update(&c.strm, newf); what = "invalid-lclp";
				if (ur == LZMA_OK) {
					snprintf(key, sizeof(key), "invalid-lclp-accepted|%s", e_names[c.e]);
					hx_violation("C12", key, idx, "lzma_filters_update accepted lc=%u lp=%u; cfg=%s; script %s", newopt.lc, newopt.lp, c.cfg.desc, c.hist);
					c.failed = true; break;
				}
			}
			hx_eval();
			if (ur == LZMA_OK) ++upd_ok; else { ++upd_refused; hist_add(&c, "{upd %s refused %s}", what, lzma_ret_name(ur)); }
		}
	}
	if (!c.failed) {
		ret = feed(&c, &r, 0, LZMA_FINISH, tiny);
		hx_eval();
		if (ret != LZMA_STREAM_END) {
			snprintf(key, sizeof(key), "finish-failed|%s", e_names[c.e]);
			hx_violation("C12", key, idx, "LZMA_FINISH returned %s; cfg=%s; script %s", lzma_ret_name(ret), c.cfg.desc, c.hist);
			c.failed = true;
		}
	}
	if (!c.failed) {
		// whole stream decodes to the whole input
		lzma_stream d = LZMA_STREAM_INIT; lzma_block tb; lzma_filter tf[LZMA_FILTERS_MAX + 1];
		if (init_decoder(&c, &d, &tb, tf) == LZMA_OK) {
			slice_plan p = { .mode = SL_WHOLE, .final_action = LZMA_FINISH }; slice_result sr;
			vbuf_clear(&dec);
			slicer_run(&d, c.out.p, c.out.n, &dec, &p, &sr);
			if (sr.ret != LZMA_STREAM_END || dec.n != c.in.n || (dec.n && memcmp(dec.p, c.in.p, dec.n))) {
				snprintf(key, sizeof(key), "final-stream-wrong|%s", e_names[c.e]);
				hx_violation("C12", key, idx, "final stream decodes to %zu bytes with %s, input was %zu bytes; cfg=%s; script %s", dec.n, lzma_ret_name(sr.ret), c.in.n, c.cfg.desc, c.hist);
				c.failed = true;
			}
		}
		lzma_end(&d);
	}
	if (!c.failed && is_xz) {
		// Block boundaries from the Index
		lzma_stream fi = LZMA_STREAM_INIT; lzma_index *ix = NULL;
		if (lzma_file_info_decoder(&fi, &ix, UINT64_MAX, c.out.n) == LZMA_OK) {
			fi.next_in = c.out.p; fi.avail_in = c.out.n;
			lzma_ret fr = lzma_code(&fi, LZMA_FINISH);
			if (fr == LZMA_STREAM_END && ix) {
				lzma_index_iter it; lzma_index_iter_init(&it, ix);
				size_t bounds[4096]; unsigned nb = 0; bool empty_block = false; uint64_t maxblk = 0;
				while (!lzma_index_iter_next(&it, LZMA_INDEX_ITER_BLOCK)) {
					if (it.block.uncompressed_size == 0) empty_block = true;
					if (it.block.uncompressed_size > maxblk) maxblk = it.block.uncompressed_size;
					if (nb < 4096) bounds[nb++] = (size_t)(it.block.uncompressed_file_offset + it.block.uncompressed_size);
				}
				if (empty_block) {
					snprintf(key, sizeof(key), "empty-block-created|%s", e_names[c.e]);
					hx_violation("C12", key, idx, "the stream contains a Block with no data; cfg=%s; script %s", c.cfg.desc, c.hist);
				}
				// every requested boundary must be a Block boundary
				for (unsigned w = 0; w < nbound; ++w) {
					bool found = false;
					for (unsigned b = 0; b < nb; ++b) if (bounds[b] == want_bound[w]) found = true;
					if (!found) {
						snprintf(key, sizeof(key), "flush-did-not-end-block|%s", e_names[c.e]);
						hx_violation("C12", key, idx, "FULL_FLUSH/FULL_BARRIER at uncompressed offset %zu did not end a Block there; cfg=%s; script %s", want_bound[w], c.cfg.desc, c.hist);
						break;
					}
				}
				if (c.e != E_MT) {
					// single-threaded: Blocks end only where requested (and at the end)
					unsigned expect = nbound + ((c.in.n > last_bound) ? 1 : 0);
					if (nb != expect) {
						snprintf(key, sizeof(key), "unexpected-block-count|%s", e_names[c.e]);
						hx_violation("C12", key, idx, "%u Blocks in the stream, expected %u (requested boundaries %u); cfg=%s; script %s", nb, expect, nbound, c.cfg.desc, c.hist);
					}
				} else if (maxblk > c.block_size) {
					hx_violation("C12", "mt-block-larger-than-block-size", idx, "Block of %" PRIu64 " bytes with block_size %" PRIu64 "; script %s", maxblk, c.block_size, c.hist);
				}
				hx_count("index_checked", 1);
			}
			lzma_index_end(ix, NULL);
		}
		lzma_end(&fi);
	}
	{
		char nm[64]; snprintf(nm, sizeof(nm), "enc_%s", e_names[c.e]); hx_count(nm, 1);
		hx_count("sync_flush_prefix_checked", sync_done); hx_count("full_flush_prefix_checked", full_done);
		hx_count("updates_accepted", upd_ok); hx_count("updates_refused", upd_refused);
		if (unsupported_sync_seen) hx_count("cases_unsupported_sync", 1);
		if (!c.cfg.from_preset) { snprintf(nm, sizeof(nm), "sync_mf_0x%x", (unsigned)c.cfg.lzma.mf); if (sync_done) hx_count(nm, 1); }
		uint64_t h = vhash(c.hist, strlen(c.hist), vhash(c.cfg.desc, strlen(c.cfg.desc), VHASH_INIT));
		hx_distinct(h, flushes_with_pending > 0);
	}
	vbuf_free(&dec);
	if (newcfg_valid) vcfg_free(&newcfg);
	for (unsigned i = 0; i < nold; ++i) vcfg_free(&oldcfgs[i]);
done:
	if (intrcfg_valid) vcfg_free(&intrcfg);
	lzma_end(&c.strm);
	vbuf_free(&c.in); vbuf_free(&c.out); vcfg_free(&c.cfg);
}

int main(int argc, char **argv)
{
	hx_parse(argc, argv, &A);
	uint64_t idx = UINT64_MAX;
	while (hx_next_case(&A, &idx)) run_case(idx);
	hx_finish();
	return 0;
}
