// hx_check: monitor for C14 - CRC32, CRC64 and SHA-256 equal their standard
// definitions for every content, length, alignment, split and initial value,
// on every implementation the build contains.
//
// Implementations compared (all must give the same value):
//   public    lzma_crc32() / lzma_crc64()          (whatever the dispatcher picked)
//   generic   lzma_verif_crc32_generic() / ..64..   (hook H2: table-driven code)
//   arch      lzma_verif_crc32_arch() / ..64..      (hook H2: CLMUL code; only when
//             lzma_verif_crc*_arch_supported() says the CPU can run it)
//   check     lzma_check_init/update/finish()       (internal integrity-check interface,
//             CRC32, CRC64 and SHA-256), and the Check field that
//             lzma_block_buffer_encode() stores
//   bitwise   ref_crc32_bitwise() / ref_crc64_bitwise() / ref_sha256()   (harness/ref/check_ref.c)
//   table     ref_crc32() / ref_crc64()
//
// Case index space (S_A, S_B, N_D depend on the tier):
//   [0, 701*S_A)          CRC sweep: length = idx % 701, 5 content kinds x 64 start
//                         alignments, buffer placed against a PROT_NONE page (and, with
//                         ASan, in an exact-size heap block); every split point for
//                         lengths <= 160, random multi-splits above; initial CRC 0 in
//                         the first sweep, random afterwards
//   next 321*S_B          SHA-256 / check-interface sweep: length = idx % 321, 5 kinds,
//                         8 alignments, every two-piece split, byte-at-a-time and random
//                         multi-piece updates, Check field of an encoded Block
//   next N_D              SHA-256 over > 512 MiB (bit length above 2^32; thorough also
//                         > 4 GiB) fed in pieces
//   rest                  long buffers: log-uniform length to 1 MiB (thorough 16 MiB),
//                         random alignment/kind/initial value, random multi-splits
//
// --mode <label>: build flavour label appended to violation keys (other than "asan").
// --mode xref --extra FILE: print reference and library values for the records
//   of FILE (u32 length + bytes each) so that the driver can compare them with
//   Python's zlib/hashlib and with released liblzma binaries.
// --mode xrefcheck --extra FILE: the same, and exit 1 when the library differs
//   from the references (replay of a cross-check violation).
#define _GNU_SOURCE
#include "vh.h"
#include "ref/check_ref.h"
#include <sys/mman.h>
#include <unistd.h>

#if defined(__SANITIZE_ADDRESS__)
#	include <sanitizer/asan_interface.h>
#	define HAVE_ASAN 1
#else
#	define HAVE_ASAN 0
#endif

// Hook H2 (crc32_fast.c / crc64_fast.c). Weak: the size-optimised build
// (crc32_small.c, crc64_small.c) has a single implementation and no hooks.
extern uint32_t lzma_verif_crc32_generic(const uint8_t *, size_t, uint32_t) __attribute__((weak));
extern uint32_t lzma_verif_crc32_arch(const uint8_t *, size_t, uint32_t) __attribute__((weak));
extern int lzma_verif_crc32_arch_supported(void) __attribute__((weak));
extern uint64_t lzma_verif_crc64_generic(const uint8_t *, size_t, uint64_t) __attribute__((weak));
extern uint64_t lzma_verif_crc64_arch(const uint8_t *, size_t, uint64_t) __attribute__((weak));
extern int lzma_verif_crc64_arch_supported(void) __attribute__((weak));

// Mirror of liblzma's internal lzma_check_state (check/check.h): the result
// is read from the first bytes, the rest is opaque. Generously over-sized and
// followed by a canary; the layout assumption is verified by known-answer
// tests before anything else runs.
typedef struct {
	union { uint8_t u8[64]; uint32_t u32[16]; uint64_t u64[8]; } buffer;
	union {
		uint32_t crc32; uint64_t crc64;
		struct { uint32_t state[8]; uint64_t size; } sha256;
	} state;
	uint8_t slack[512];
	uint8_t canary[32];
} chk_state;
extern void lzma_check_init(chk_state *check, lzma_check type);
extern void lzma_check_update(chk_state *check, lzma_check type, const uint8_t *buf, size_t size);
extern void lzma_check_finish(chk_state *check, lzma_check type);

static hx_args A;
// count this engine's violations: `--only` (replay) exits 1 when the case still fails
static unsigned long n_my_viol;
#define hx_violation(...) (++n_my_viol, hx_violation(__VA_ARGS__))
static const char *PROP = "C14";
static const char *FLAV = "";      // "" for asan, "@small", "@noclmul"
static bool have_gen32, have_gen64, have_arch32, have_arch64;

enum { IMPL_PUBLIC, IMPL_GENERIC, IMPL_ARCH, IMPL_COUNT };
static const char *const impl_names[IMPL_COUNT] = { "public", "generic", "arch" };

static bool impl_ok32(int i) { return i == IMPL_PUBLIC || (i == IMPL_GENERIC ? have_gen32 : have_arch32); }
static bool impl_ok64(int i) { return i == IMPL_PUBLIC || (i == IMPL_GENERIC ? have_gen64 : have_arch64); }

static uint32_t crc32_by(int impl, const uint8_t *p, size_t n, uint32_t c)
{
	switch (impl) {
	case IMPL_GENERIC: return lzma_verif_crc32_generic(p, n, c);
	case IMPL_ARCH: return lzma_verif_crc32_arch(p, n, c);
	default: return lzma_crc32(p, n, c);
	}
}

static uint64_t crc64_by(int impl, const uint8_t *p, size_t n, uint64_t c)
{
	switch (impl) {
	case IMPL_GENERIC: return lzma_verif_crc64_generic(p, n, c);
	case IMPL_ARCH: return lzma_verif_crc64_arch(p, n, c);
	default: return lzma_crc64(p, n, c);
	}
}

////////////////
// placements //
////////////////

static uint8_t *arena;      // usable [arena, arena + arena_size), PROT_NONE pages on both sides
static size_t arena_size;

static void arena_init(size_t size)
{
	size_t pg = (size_t)sysconf(_SC_PAGESIZE);
	size = (size + pg - 1) / pg * pg;
	uint8_t *m = mmap(NULL, size + 2 * pg, PROT_READ | PROT_WRITE, MAP_PRIVATE | MAP_ANONYMOUS, -1, 0);
	if (m == MAP_FAILED) { perror("mmap"); exit(2); }
	mprotect(m, pg, PROT_NONE);
	mprotect(m + pg + size, pg, PROT_NONE);
	arena = m + pg; arena_size = size;
}

// Copy of data[0..n) whose start address is == align (mod 64) and whose end
// is as close to the trailing guard page as that allows (exactly at it when
// align == (-n) mod 64).
static uint8_t *place_end(const uint8_t *data, size_t n, unsigned align)
{
	uint8_t *end = arena + arena_size;
	uintptr_t s0 = (uintptr_t)(end - n);
	uintptr_t delta = (s0 - align) & 63;
	uint8_t *p = (uint8_t *)(s0 - delta);
	if (n) memcpy(p, data, n);
	return p;
}

// Start address == align (mod 64), as close to the leading guard page as possible.
static uint8_t *place_start(const uint8_t *data, size_t n, unsigned align)
{
	uint8_t *p = arena + align;
	if (n) memcpy(p, data, n);
	return p;
}

// ASan: exact-size heap block, buffer at offset `align` of a 64-aligned
// block and ending at the block's end; the bytes before it are poisoned.
typedef struct { uint8_t *base, *p; size_t align; } heap_place;

static bool place_heap(heap_place *h, const uint8_t *data, size_t n, unsigned align)
{
#if HAVE_ASAN
	size_t total = (size_t)align + n;
	if (total == 0) total = 1;
	if (posix_memalign((void **)&h->base, 64, total) != 0) return false;
	h->p = h->base + align; h->align = align;
	if (n) memcpy(h->p, data, n);
	if (align) __asan_poison_memory_region(h->base, align);
	return true;
#else
	(void)h; (void)data; (void)n; (void)align;
	return false;
#endif
}

static void unplace_heap(heap_place *h)
{
#if HAVE_ASAN
	if (h->align) __asan_unpoison_memory_region(h->base, h->align);
	free(h->base);
#else
	(void)h;
#endif
}

//////////////
// contents //
//////////////

enum { C_RANDOM, C_ZERO, C_ONES, C_SINGLEBIT, C_COUNTER, C_COUNT };
static const char *const content_names[C_COUNT] = { "random", "all-0", "all-1", "single-bit", "counter" };

static void fill_content(vrng *r, uint8_t *p, size_t n, int kind)
{
	switch (kind) {
	case C_RANDOM: vrng_fill(r, p, n); break;
	case C_ZERO: memset(p, 0, n); break;
	case C_ONES: memset(p, 0xFF, n); break;
	case C_SINGLEBIT: {
		bool inv = vrng_chance(r, 1, 4);
		memset(p, inv ? 0xFF : 0, n);
		if (n) { size_t bit = (size_t)vrng_below64(r, (uint64_t)n * 8); p[bit / 8] ^= (uint8_t)(1u << (bit % 8)); }
		break;
	}
	default: {
		unsigned c = vrng_below(r, 256);
		for (size_t i = 0; i < n; ++i) p[i] = (uint8_t)(c + i);
		break;
	}
	}
}

/////////////////
// comparisons //
/////////////////

static uint64_t n_crc_eval, n_sha_eval, n_arch_eval, n_generic_eval;

static void report_crc(int bits, const char *what, int impl, uint64_t idx, uint64_t got, uint64_t want,
		size_t n, unsigned align, int kind, uint64_t init, const char *extra)
{
	char key[96];
	snprintf(key, sizeof(key), "crc%d-mismatch|%s%s", bits, impl >= 0 ? impl_names[impl] : what, FLAV);
	hx_violation(PROP, key, idx, "CRC%d %s%s%s: got %0*" PRIx64 ", standard value %0*" PRIx64 "; length %zu, start address = %u (mod 64), content %s, initial value %0*" PRIx64 "%s%s",
			bits, what, impl >= 0 ? " via " : "", impl >= 0 ? impl_names[impl] : "", bits / 4, got, bits / 4, want,
			n, align, content_names[kind], bits / 4, init, extra[0] ? "; " : "", extra);
}

// All implementations on one placed buffer. Every failing implementation is
// reported (so the key names the broken one); returns false after a violation.
static bool crc_all(uint64_t idx, const uint8_t *p, size_t n, unsigned align, int kind,
		uint32_t init32, uint64_t init64, uint32_t want32, uint64_t want64, const char *where)
{
	bool ok = true;
	for (int i = IMPL_COUNT - 1; i >= 0; --i) {
		if (impl_ok32(i)) {
			uint32_t g = crc32_by(i, p, n, init32);
			++n_crc_eval; hx_eval();
			if (i == IMPL_ARCH) ++n_arch_eval; else if (i == IMPL_GENERIC) ++n_generic_eval;
			if (g != want32) { report_crc(32, "whole buffer", i, idx, g, want32, n, align, kind, init32, where); ok = false; }
		}
		if (impl_ok64(i)) {
			uint64_t g = crc64_by(i, p, n, init64);
			++n_crc_eval; hx_eval();
			if (i == IMPL_ARCH) ++n_arch_eval; else if (i == IMPL_GENERIC) ++n_generic_eval;
			if (g != want64) { report_crc(64, "whole buffer", i, idx, g, want64, n, align, kind, init64, where); ok = false; }
		}
	}
	return ok;
}

// Pieces given by cut points cuts[0..ncuts) (ascending, within [0,n]); each
// piece by implementation pick[k] (or all by `impl` when pick == NULL).
static bool crc_split(uint64_t idx, const uint8_t *p, size_t n, unsigned align, int kind,
		uint32_t init32, uint64_t init64, uint32_t want32, uint64_t want64,
		const size_t *cuts, size_t ncuts, int impl, const uint8_t *pick)
{
	uint32_t c32 = init32; uint64_t c64 = init64;
	size_t pos = 0;
	bool do32 = true, do64 = true;
	for (size_t k = 0; k <= ncuts; ++k) {
		size_t end = k < ncuts ? cuts[k] : n;
		int im = pick ? pick[k] : impl;
		if (!impl_ok32(im)) do32 = false;
		if (!impl_ok64(im)) do64 = false;
		if (do32) c32 = crc32_by(im, p + pos, end - pos, c32);
		if (do64) c64 = crc64_by(im, p + pos, end - pos, c64);
		pos = end;
	}
	char extra[200]; size_t w = 0;
	w += (size_t)snprintf(extra + w, sizeof(extra) - w, "split at");
	for (size_t k = 0; k < ncuts && w + 24 < sizeof(extra); ++k) w += (size_t)snprintf(extra + w, sizeof(extra) - w, " %zu", cuts[k]);
	if (pick) snprintf(extra + w, sizeof(extra) - w, " (implementation varies per piece)");
	if (do32) { ++n_crc_eval; hx_eval(); if (c32 != want32) { report_crc(32, pick ? "mixed-pieces" : "in pieces", pick ? -1 : impl, idx, c32, want32, n, align, kind, init32, extra); return false; } }
	if (do64) { ++n_crc_eval; hx_eval(); if (c64 != want64) { report_crc(64, pick ? "mixed-pieces" : "in pieces", pick ? -1 : impl, idx, c64, want64, n, align, kind, init64, extra); return false; } }
	return true;
}

static size_t random_cuts(vrng *r, size_t n, size_t *cuts, size_t max)
{
	size_t k = 1 + vrng_below(r, (uint32_t)max);
	for (size_t i = 0; i < k; ++i) cuts[i] = (size_t)vrng_below64(r, (uint64_t)n + 1);
	// clustered cuts exercise 0- and 1-byte pieces
	if (k >= 3 && vrng_chance(r, 1, 3)) { cuts[1] = cuts[0]; cuts[2] = cuts[0] < n ? cuts[0] + 1 : cuts[0]; }
	for (size_t i = 1; i < k; ++i) for (size_t j = i; j > 0 && cuts[j - 1] > cuts[j]; --j) { size_t t = cuts[j]; cuts[j] = cuts[j - 1]; cuts[j - 1] = t; }
	return k;
}

// Both references, which must agree with each other.
static bool refs(uint64_t idx, const uint8_t *d, size_t n, uint32_t init32, uint64_t init64, uint32_t *w32, uint64_t *w64)
{
	*w32 = ref_crc32_bitwise(d, n, init32);
	*w64 = ref_crc64_bitwise(d, n, init64);
	uint32_t t32 = ref_crc32(d, n, init32);
	uint64_t t64 = ref_crc64(d, n, init64);
	if (t32 != *w32 || t64 != *w64) {
		hx_violation(PROP, "harness|reference-self-disagreement", idx, "bitwise and table references differ (length %zu): crc32 %08x vs %08x, crc64 %016" PRIx64 " vs %016" PRIx64,
				n, *w32, t32, *w64, t64);
		return false;
	}
	return true;
}

//////////////////////
// block A: CRC sweep //
//////////////////////

static void case_crc_sweep(uint64_t idx, size_t len, unsigned sweep)
{
	vrng r; vrng_init(&r, A.seed, 0xC14A, idx, 0);
	uint8_t data[768];
	if (idx % 97 == 0) hx_sample("crc sweep: length %zu, sweep %u, 5 contents x 64 alignments x {guard-page%s placements}", len, sweep, HAVE_ASAN ? ", exact heap" : "");
	for (int kind = 0; kind < C_COUNT; ++kind) {
		fill_content(&r, data, len, kind);
		uint32_t init32 = 0; uint64_t init64 = 0;
		if (sweep > 0 || kind == C_RANDOM) {
			if (sweep > 0) { init32 = (uint32_t)vrng_u64(&r); init64 = vrng_u64(&r); }
			if (vrng_chance(&r, 1, 8)) { init32 = 0xFFFFFFFF; init64 = UINT64_MAX; }
		}
		uint32_t w32; uint64_t w64;
		if (!refs(idx, data, len, init32, init64, &w32, &w64)) return;
		for (unsigned a = 0; a < 64; ++a) {
			const uint8_t *p = place_end(data, len, a);
			if (!crc_all(idx, p, len, a, kind, init32, init64, w32, w64, "buffer ends near a guard page")) return;
			if (a == 0 || sweep % 2 == 1) {
				p = place_start(data, len, a);
				if (!crc_all(idx, p, len, a, kind, init32, init64, w32, w64, "buffer starts near a guard page")) return;
			}
			heap_place h;
			if (place_heap(&h, data, len, a)) {
				bool ok = crc_all(idx, h.p, len, a, kind, init32, init64, w32, w64, "exact-size heap block");
				unplace_heap(&h);
				if (!ok) return;
			}
		}
		// splits, at a random alignment, with the buffer ending exactly at the guard page when possible
		unsigned a = vrng_chance(&r, 1, 2) ? (unsigned)((0 - len) & 63) : vrng_below(&r, 64);
		const uint8_t *p = place_end(data, len, a);
		if (len <= 160) {
			for (size_t s = 0; s <= len; ++s)
				for (int im = 0; im < IMPL_COUNT; ++im)
					if (!crc_split(idx, p, len, a, kind, init32, init64, w32, w64, &s, 1, im, NULL)) return;
		}
		for (int rep = 0; rep < 6; ++rep) {
			size_t cuts[12]; uint8_t pick[13];
			size_t k = random_cuts(&r, len, cuts, 12);
			for (size_t j = 0; j <= k; ++j) { int im; do im = (int)vrng_below(&r, IMPL_COUNT); while (!impl_ok32(im)); pick[j] = (uint8_t)im; }
			if (!crc_split(idx, p, len, a, kind, init32, init64, w32, w64, cuts, k, rep % IMPL_COUNT, rep < 3 ? NULL : pick)) return;
		}
		uint64_t h = vhash(data, len, VHASH_INIT); h = vhash(&init64, 8, h); h = vhash(&len, sizeof(len), h);
		hx_distinct(h, len >= 1);
	}
	hx_count("crc_sweep_cases", 1);
	if (len > 16 + 48 + 3 * 64) hx_count("crc_sweep_over_3_fold_rounds", 1);
}

/////////////////////////////////////
// check interface and SHA-256 sweep //
/////////////////////////////////////

static bool chk_canary_ok(const chk_state *c)
{
	for (size_t i = 0; i < sizeof(c->canary); ++i) if (c->canary[i] != (uint8_t)(0xA5 ^ i)) return false;
	return true;
}

// Run the check interface over pieces; result bytes to out (<= 32).
static void chk_run(lzma_check type, const uint8_t *p, size_t n, const size_t *cuts, size_t ncuts, uint8_t *out)
{
	chk_state c;
	memset(&c, 0x5A, sizeof(c));
	for (size_t i = 0; i < sizeof(c.canary); ++i) c.canary[i] = (uint8_t)(0xA5 ^ i);
	lzma_check_init(&c, type);
	size_t pos = 0;
	for (size_t k = 0; k <= ncuts; ++k) {
		size_t end = k < ncuts ? cuts[k] : n;
		lzma_check_update(&c, type, p + pos, end - pos);
		pos = end;
	}
	lzma_check_finish(&c, type);
	if (!chk_canary_ok(&c)) {
		fprintf(stderr, "hx_check: lzma_check_state is larger than the harness mirror (canary overwritten)\n");
		exit(2);
	}
	memcpy(out, c.buffer.u8, 32);
}

static const char *hex32(const uint8_t *d, char *dst)
{
	for (int i = 0; i < 32; ++i) snprintf(dst + 2 * i, 3, "%02x", d[i]);
	return dst;
}

static bool chk_compare(uint64_t idx, lzma_check type, const uint8_t *p, size_t n, const size_t *cuts, size_t ncuts,
		const uint8_t want[32], unsigned align, int kind, const char *how)
{
	uint8_t got[32];
	chk_run(type, p, n, cuts, ncuts, got);
	hx_eval();
	size_t sz = type == LZMA_CHECK_CRC32 ? 4 : (type == LZMA_CHECK_CRC64 ? 8 : 32);
	if (type == LZMA_CHECK_SHA256) ++n_sha_eval; else ++n_crc_eval;
	if (memcmp(got, want, sz) == 0) return true;
	char key[96], hg[65], hw[65], cutsz[160] = ""; size_t w = 0;
	for (size_t k = 0; k < ncuts && w + 24 < sizeof(cutsz); ++k) w += (size_t)snprintf(cutsz + w, sizeof(cutsz) - w, " %zu", cuts[k]);
	hex32(got, hg); hex32(want, hw); hg[2 * sz] = 0; hw[2 * sz] = 0;
	if (type == LZMA_CHECK_SHA256) snprintf(key, sizeof(key), "sha256-mismatch%s%s", ncuts ? "|pieces" : "", FLAV);
	else snprintf(key, sizeof(key), "check-crc%d-mismatch%s", type == LZMA_CHECK_CRC32 ? 32 : 64, FLAV);
	hx_violation(PROP, key, idx, "lzma_check_* (%s, %s): got %s, standard value %s; length %zu, start address = %u (mod 64), content %s%s%s",
			type == LZMA_CHECK_SHA256 ? "SHA-256" : (type == LZMA_CHECK_CRC32 ? "CRC32" : "CRC64"), how, hg, hw, n, align, content_names[kind],
			ncuts ? ", updates split at" : "", cutsz);
	return false;
}

// Check field stored by lzma_block_buffer_encode()
static bool blockfield_compare(uint64_t idx, lzma_check type, const uint8_t *p, size_t n, const uint8_t want[32], int kind)
{
	static lzma_options_lzma lz; static bool init;
	if (!init) { lzma_lzma_preset(&lz, 0); lz.dict_size = 4096; init = true; }
	lzma_filter f[2] = { { LZMA_FILTER_LZMA2, &lz }, { LZMA_VLI_UNKNOWN, NULL } };
	lzma_block b; memset(&b, 0, sizeof(b));
	b.version = 0; b.check = type; b.filters = f;
	size_t bound = lzma_block_buffer_bound(n);
	uint8_t *out = malloc(bound ? bound : 1);
	size_t pos = 0;
	lzma_ret ret = lzma_block_buffer_encode(&b, NULL, p, n, out, &pos, bound);
	hx_eval();
	size_t sz = lzma_check_size(type);
	bool ok = true;
	if (ret != LZMA_OK || pos < sz) {
		// not this property's business (C01/C02); do not judge
		hx_count("blockfield_encode_failed", 1);
	} else if (memcmp(out + pos - sz, want, sz) != 0) {
		char key[96], hg[65], hw[65];
		hex32(out + pos - sz, hg); hex32(want, hw); hg[2 * sz] = 0; hw[2 * sz] = 0;
		snprintf(key, sizeof(key), "%s-mismatch|block-check-field%s", type == LZMA_CHECK_SHA256 ? "sha256" : (type == LZMA_CHECK_CRC32 ? "crc32" : "crc64"), FLAV);
		hx_violation(PROP, key, idx, "Check field written by lzma_block_buffer_encode (check id %d): %s, standard value %s; length %zu, content %s",
				(int)type, hg, hw, n, content_names[kind]);
		ok = false;
	} else hx_count("blockfield_checked", 1);
	if (type == LZMA_CHECK_SHA256) ++n_sha_eval; else ++n_crc_eval;
	free(out);
	return ok;
}

static void want_bytes(const uint8_t *d, size_t n, uint8_t w32[32], uint8_t w64[32], uint8_t wsha[32])
{
	uint32_t c32 = ref_crc32_bitwise(d, n, 0);
	uint64_t c64 = ref_crc64_bitwise(d, n, 0);
	memset(w32, 0, 32); memset(w64, 0, 32);
	for (int i = 0; i < 4; ++i) w32[i] = (uint8_t)(c32 >> (8 * i));  // stored little endian in .xz
	for (int i = 0; i < 8; ++i) w64[i] = (uint8_t)(c64 >> (8 * i));
	ref_sha256(d, n, wsha);
}

static void case_sha_sweep(uint64_t idx, size_t len, unsigned sweep)
{
	vrng r; vrng_init(&r, A.seed, 0xC14B, idx, 0);
	uint8_t data[512];
	if (idx % 53 == 0) hx_sample("sha-256/check-interface sweep: length %zu, sweep %u, 5 contents, 8 alignments, all two-piece splits, byte-wise and random multi-piece updates, Block check field", len, sweep);
	static const lzma_check types[3] = { LZMA_CHECK_CRC32, LZMA_CHECK_CRC64, LZMA_CHECK_SHA256 };
	for (int kind = 0; kind < C_COUNT; ++kind) {
		fill_content(&r, data, len, kind);
		uint8_t want[3][32];
		want_bytes(data, len, want[0], want[1], want[2]);
		for (int t = 0; t < 3; ++t) {
			// whole, 8 alignments (the one ending exactly at the guard page first)
			for (int j = 0; j < 8; ++j) {
				unsigned a = j == 0 ? (unsigned)((0 - len) & 63) : vrng_below(&r, 64);
				const uint8_t *p = place_end(data, len, a);
				if (!chk_compare(idx, types[t], p, len, NULL, 0, want[t], a, kind, "one update")) return;
				heap_place h;
				if (j < 3 && place_heap(&h, data, len, a)) {
					bool ok = chk_compare(idx, types[t], h.p, len, NULL, 0, want[t], a, kind, "one update, exact-size heap block");
					unplace_heap(&h);
					if (!ok) return;
				}
			}
			unsigned a = vrng_below(&r, 64);
			const uint8_t *p = place_end(data, len, a);
			// every two-piece split (SHA-256 always; the CRCs on the first sweep: block A covers them)
			if (types[t] == LZMA_CHECK_SHA256 || sweep == 0)
				for (size_t s = 0; s <= len; ++s)
					if (!chk_compare(idx, types[t], p, len, &s, 1, want[t], a, kind, "two updates")) return;
			// byte at a time
			if (len > 0 && len <= 320) {
				size_t cuts[320];
				for (size_t i = 0; i + 1 < len; ++i) cuts[i] = i + 1;
				if (!chk_compare(idx, types[t], p, len, cuts, len - 1, want[t], a, kind, "one byte per update")) return;
			}
			for (int rep = 0; rep < 4; ++rep) {
				size_t cuts[12];
				size_t k = random_cuts(&r, len, cuts, 12);
				if (!chk_compare(idx, types[t], p, len, cuts, k, want[t], a, kind, "several updates")) return;
			}
			if (!blockfield_compare(idx, types[t], p, len, want[t], kind)) return;
		}
		// LZMA_CHECK_NONE must be a no-op that needs no state
		{ uint8_t dummy[32]; chk_run(LZMA_CHECK_NONE, data, len, NULL, 0, dummy); }
		uint64_t h = vhash(data, len, VHASH_INIT ^ 0x5AA5); h = vhash(&len, sizeof(len), h);
		hx_distinct(h, len >= 1);
	}
	hx_count("sha_sweep_cases", 1);
}

/////////////////////////
// long buffers (block C) //
/////////////////////////

static void case_long(uint64_t idx)
{
	vrng r; vrng_init(&r, A.seed, 0xC14C, idx, 0);
	size_t maxlen = A.thorough && vrng_chance(&r, 1, 20) ? (16u << 20) : (1u << 20);
	size_t len = 701 + vrng_logsize(&r, maxlen - 701);
	if (vrng_chance(&r, 1, 6)) len = (len & ~(size_t)63) + vrng_below(&r, 3) - 1; // around multiples of 64
	if (len > maxlen) len = maxlen;
	int kind = vrng_chance(&r, 2, 3) ? C_RANDOM : (int)vrng_below(&r, C_COUNT);
	unsigned a = vrng_below(&r, 64);
	uint8_t *data = malloc(len);
	fill_content(&r, data, len, kind);
	uint32_t init32 = vrng_chance(&r, 1, 3) ? 0 : (uint32_t)vrng_u64(&r);
	uint64_t init64 = vrng_chance(&r, 1, 3) ? 0 : vrng_u64(&r);
	if (idx % 31 == 0) hx_sample("long buffer: length %zu, content %s, start address = %u (mod 64), initial %08x/%016" PRIx64, len, content_names[kind], a, init32, init64);
	uint32_t w32; uint64_t w64;
	if (!refs(idx, data, len, init32, init64, &w32, &w64)) goto out;
	const uint8_t *p = place_end(data, len, a);
	if (!crc_all(idx, p, len, a, kind, init32, init64, w32, w64, "buffer ends near a guard page")) goto out;
	p = place_end(data, len, (unsigned)((0 - len) & 63));
	if (!crc_all(idx, p, len, (unsigned)((0 - len) & 63), kind, init32, init64, w32, w64, "buffer ends at a guard page")) goto out;
	p = place_end(data, len, a);
	for (int rep = 0; rep < 6; ++rep) {
		size_t cuts[12]; uint8_t pick[13];
		size_t k = random_cuts(&r, len, cuts, 12);
		for (size_t j = 0; j <= k; ++j) { int im; do im = (int)vrng_below(&r, IMPL_COUNT); while (!impl_ok32(im)); pick[j] = (uint8_t)im; }
		if (!crc_split(idx, p, len, a, kind, init32, init64, w32, w64, cuts, k, rep % IMPL_COUNT, rep < 3 ? NULL : pick)) goto out;
	}
	{
		uint8_t want[3][32];
		uint32_t c32 = ref_crc32(data, len, 0); uint64_t c64 = ref_crc64(data, len, 0);
		memset(want, 0, sizeof(want));
		for (int i = 0; i < 4; ++i) want[0][i] = (uint8_t)(c32 >> (8 * i));
		for (int i = 0; i < 8; ++i) want[1][i] = (uint8_t)(c64 >> (8 * i));
		ref_sha256(data, len, want[2]);
		static const lzma_check types[3] = { LZMA_CHECK_CRC32, LZMA_CHECK_CRC64, LZMA_CHECK_SHA256 };
		for (int t = 0; t < 3; ++t) {
			if (!chk_compare(idx, types[t], p, len, NULL, 0, want[t], a, kind, "one update")) goto out;
			size_t cuts[12];
			size_t k = random_cuts(&r, len, cuts, 12);
			if (!chk_compare(idx, types[t], p, len, cuts, k, want[t], a, kind, "several updates")) goto out;
		}
	}
	{
		uint64_t h = vhash(data, len, VHASH_INIT); h = vhash(&init64, 8, h);
		hx_distinct(h, true);
		hx_count("long_cases", 1);
		hx_max("longest_buffer", len);
	}
out:
	free(data);
}

////////////////////////////////
// SHA-256 over > 2^32 bits (D) //
////////////////////////////////

static void case_huge_sha(uint64_t idx, unsigned which)
{
	vrng r; vrng_init(&r, A.seed, 0xC14D, idx, 0);
	// which 0: just above 512 MiB (bit count needs 33 bits); 1: above 4 GiB (byte count needs 33 bits)
	uint64_t total = which == 0 ? (UINT64_C(512) << 20) + 1 + vrng_below(&r, 1u << 20)
			: (UINT64_C(4) << 30) + 1 + vrng_below(&r, 1u << 20);
	size_t blk = (1u << 20) + 64;
	uint8_t *data = malloc(blk);
	vrng_fill(&r, data, blk);
	hx_sample("sha-256 of %" PRIu64 " bytes fed in random pieces of a 1 MiB pattern", total);
	chk_state c; memset(&c, 0, sizeof(c));
	for (size_t i = 0; i < sizeof(c.canary); ++i) c.canary[i] = (uint8_t)(0xA5 ^ i);
	ref_sha256_ctx rc;
	lzma_check_init(&c, LZMA_CHECK_SHA256);
	ref_sha256_init(&rc);
	uint64_t done = 0;
	while (done < total) {
		size_t off = vrng_below(&r, 64);
		size_t n = vrng_chance(&r, 1, 4) ? 1 + vrng_below(&r, 200) : (1u << 20) - vrng_below(&r, 4096);
		if (n > total - done) n = (size_t)(total - done);
		lzma_check_update(&c, LZMA_CHECK_SHA256, data + off, n);
		ref_sha256_update(&rc, data + off, n);
		done += n;
	}
	uint8_t want[32];
	lzma_check_finish(&c, LZMA_CHECK_SHA256);
	ref_sha256_final(&rc, want);
	hx_eval(); ++n_sha_eval;
	if (memcmp(c.buffer.u8, want, 32) != 0) {
		char key[64], hg[65], hw[65];
		snprintf(key, sizeof(key), "sha256-mismatch|long-message%s", FLAV);
		hx_violation(PROP, key, idx, "SHA-256 of a %" PRIu64 "-byte message: got %s, standard value %s", total, hex32(c.buffer.u8, hg), hex32(want, hw));
	} else {
		hx_count(which == 0 ? "sha_over_2e32_bits" : "sha_over_2e32_bytes", 1);
		hx_distinct(vhash(want, 32, VHASH_INIT), true);
	}
	free(data);
}

//////////////////////////
// known answers / xref //
//////////////////////////

static bool known_answers(void)
{
	static const uint8_t abc_sha[32] = {
		0xba, 0x78, 0x16, 0xbf, 0x8f, 0x01, 0xcf, 0xea, 0x41, 0x41, 0x40, 0xde, 0x5d, 0xae, 0x22, 0x23,
		0xb0, 0x03, 0x61, 0xa3, 0x96, 0x17, 0x7a, 0x9c, 0xb4, 0x10, 0xff, 0x61, 0xf2, 0x00, 0x15, 0xad };
	const uint8_t *s = (const uint8_t *)"123456789";
	bool ok = true;
	uint8_t d[32];
	// references against the published check values
	if (ref_crc32_bitwise(s, 9, 0) != 0xCBF43926 || ref_crc32(s, 9, 0) != 0xCBF43926
			|| ref_crc64_bitwise(s, 9, 0) != UINT64_C(0x995DC9BBDF1939FA) || ref_crc64(s, 9, 0) != UINT64_C(0x995DC9BBDF1939FA)) {
		fprintf(stderr, "hx_check: CRC reference fails its known-answer test\n"); exit(2);
	}
	ref_sha256((const uint8_t *)"abc", 3, d);
	if (memcmp(d, abc_sha, 32) != 0) { fprintf(stderr, "hx_check: SHA-256 reference fails its known-answer test\n"); exit(2); }
	// library, including the layout assumption about lzma_check_state
	uint8_t w[32] = { 0x26, 0x39, 0xF4, 0xCB };
	ok &= chk_compare(0, LZMA_CHECK_CRC32, s, 9, NULL, 0, w, 0, C_COUNTER, "known answer \"123456789\"");
	uint8_t w2[32] = { 0xFA, 0x39, 0x19, 0xDF, 0xBB, 0xC9, 0x5D, 0x99 };
	ok &= chk_compare(0, LZMA_CHECK_CRC64, s, 9, NULL, 0, w2, 0, C_COUNTER, "known answer \"123456789\"");
	ok &= chk_compare(0, LZMA_CHECK_SHA256, (const uint8_t *)"abc", 3, NULL, 0, abc_sha, 0, C_COUNTER, "known answer \"abc\"");
	return ok;
}

// check == true ("xrefcheck", used by replays): exit 1 when the library
// disagrees with the references on a record.
static int xref_mode(const char *path, bool check)
{
	int rc = 0;
	vbuf f = {0};
	if (!load_file(path, &f)) { fprintf(stderr, "hx_check: cannot read %s\n", path); return 2; }
	size_t pos = 0; unsigned i = 0;
	while (pos + 4 <= f.n) {
		uint32_t n; memcpy(&n, f.p + pos, 4); pos += 4;
		if (n > f.n - pos) break;
		uint8_t *d = malloc(n ? n : 1);
		memcpy(d, f.p + pos, n); pos += n;
		uint8_t sha[32], lsha[32]; char h1[65], h2[65];
		ref_sha256(d, n, sha);
		chk_run(LZMA_CHECK_SHA256, d, n, NULL, 0, lsha);
		printf("{\"t\":\"xref\",\"i\":%u,\"len\":%u,\"ref_crc32\":\"%08x\",\"ref_crc32_bitwise\":\"%08x\",\"ref_crc64\":\"%016" PRIx64 "\",\"ref_crc64_bitwise\":\"%016" PRIx64
				"\",\"ref_sha256\":\"%s\",\"lib_crc32\":\"%08x\",\"lib_crc64\":\"%016" PRIx64 "\",\"lib_sha256\":\"%s\"}\n",
				i, n, ref_crc32(d, n, 0), ref_crc32_bitwise(d, n, 0), ref_crc64(d, n, 0), ref_crc64_bitwise(d, n, 0),
				hex32(sha, h1), lzma_crc32(d, n, 0), lzma_crc64(d, n, 0), hex32(lsha, h2));
		if (check && (lzma_crc32(d, n, 0) != ref_crc32_bitwise(d, n, 0) || lzma_crc64(d, n, 0) != ref_crc64_bitwise(d, n, 0)
				|| memcmp(sha, lsha, 32) != 0)) {
			printf("{\"t\":\"note\",\"s\":\"record %u (%u bytes): library and reference disagree\"}\n", i, n);
			rc = 1;
		}
		free(d);
		++i;
	}
	vbuf_free(&f);
	return rc;
}

int main(int argc, char **argv)
{
	hx_parse(argc, argv, &A);
	if (A.prop[0]) PROP = A.prop;
	if (!strcmp(A.mode, "xref")) return xref_mode(A.extra, false);
	if (!strcmp(A.mode, "xrefcheck")) return xref_mode(A.extra, true);
	static char flav[48];
	if (A.mode[0] && strcmp(A.mode, "asan") != 0) { snprintf(flav, sizeof(flav), "@%s", A.mode); FLAV = flav; }
	have_gen32 = lzma_verif_crc32_generic != NULL;
	have_gen64 = lzma_verif_crc64_generic != NULL;
	have_arch32 = lzma_verif_crc32_arch != NULL && lzma_verif_crc32_arch_supported != NULL && lzma_verif_crc32_arch_supported();
	have_arch64 = lzma_verif_crc64_arch != NULL && lzma_verif_crc64_arch_supported != NULL && lzma_verif_crc64_arch_supported();
	arena_init((A.thorough ? (16u << 20) : (1u << 20)) + 4096);
	const unsigned SA = A.thorough ? 64 : 8, SB = A.thorough ? 32 : 4, ND = A.thorough ? 3 : 1;
	const uint64_t endA = 701ull * SA, endB = endA + 321ull * SB, endD = endB + ND;
	bool kat_ok = known_answers();
	if (A.shard == 0 || A.only >= 0)
		hx_note("implementations%s: public%s%s%s%s; %s", FLAV, have_gen32 ? ", crc32 generic" : "", have_arch32 ? ", crc32 arch" : "",
				have_gen64 ? ", crc64 generic" : "", have_arch64 ? ", crc64 arch" : "", HAVE_ASAN ? "ASan build" : "no ASan");
	uint64_t idx = UINT64_MAX;
	while (kat_ok && hx_next_case(&A, &idx)) {
		hx_case_begin(idx);
		if (idx < endA) case_crc_sweep(idx, (size_t)(idx % 701), (unsigned)(idx / 701));
		else if (idx < endB) case_sha_sweep(idx, (size_t)((idx - endA) % 321), (unsigned)((idx - endA) / 321));
		else if (idx < endD) case_huge_sha(idx, (idx - endB) == 2 ? 1 : 0);
		else case_long(idx);
	}
	hx_count("crc_evaluations", n_crc_eval);
	hx_count("sha256_evaluations", n_sha_eval);
	hx_count("crc_arch_evaluations", n_arch_eval);
	hx_count("crc_generic_evaluations", n_generic_eval);
	hx_finish();
	return (A.only >= 0 && n_my_viol) ? 1 : 0;
}
