// Decoder instances shared by the decoder-side monitors.
#ifndef VERIF_DEC_COMMON_H
#define VERIF_DEC_COMMON_H
#include "vh.h"
#include "gen_stream.h"

enum { D_STREAM, D_STREAM_MT, D_AUTO, D_ALONE, D_LZIP, D_MICROLZMA, D_RAW, D_BLOCK, D_INDEX, D_FILE_INFO, D_COUNT };
extern const char *const d_names[D_COUNT];

typedef struct {
	int kind;                // D_*
	uint32_t flags;          // decoder flags
	uint64_t memlimit;       // memlimit (memlimit_stop for MT)
	uint64_t memlimit_threading;
	uint32_t threads, timeout;
	// D_RAW
	const lzma_filter *filters;
	// D_MICROLZMA
	uint64_t comp_size, uncomp_size; bool uncomp_exact; uint32_t dict_size;
	// D_BLOCK
	lzma_check check;
	// D_FILE_INFO
	uint64_t file_size;
	// state owned by the instance
	lzma_block block; lzma_filter bf[LZMA_FILTERS_MAX + 1]; bool block_inited;
	lzma_index *idx_out;     // D_INDEX / D_FILE_INFO result
	size_t skip;             // bytes of input consumed by init (Block Header)
	// Handle reuse: when warm_in != NULL the same lzma_stream is first initialised with this decoder and fed
	// warm_in completely (result ignored), then initialised AGAIN without lzma_end() and used for the real input.
	// What the first life does is derived from the real input (so every run of a case sees the same): warm_in whole,
	// a prefix of it (abandoned mid-stream, LZMA_RUN only), or a built-in "contrast" file of the same format whose
	// header fields, check type and filter chain differ from what generators usually produce - whole or abandoned.
	// With warm_mon set, one allocation of the first life fails (warm_fail_at-th; 0 = none).
	const uint8_t *warm_in; size_t warm_n;
	alloc_mon *warm_mon; int warm_fail_at;
	bool warm_exact;         // the first life decodes exactly warm_in, whole, with LZMA_FINISH (no contrast file, no cut)
} dec_spec;

/// Which decoders make sense for a generated/corpus stream kind.
int dec_for_stream(vrng *r, const gstream *g);

/// Fill spec defaults for decoding `g` with decoder `kind` (flags 0,
/// unlimited memory).
void dec_spec_for(dec_spec *s, int kind, const gstream *g);

/// Initialise `strm` per spec; for D_BLOCK the header is parsed from in[]
/// (spec->skip tells how many bytes the payload starts after).
lzma_ret dec_init(lzma_stream *strm, dec_spec *s, const lzma_allocator *a, const uint8_t *in, size_t in_size);
void dec_cleanup(dec_spec *s, const lzma_allocator *a);

typedef struct {
	lzma_ret ret; uint64_t total_in, total_out; vbuf out; slice_result sr;
	bool init_failed; lzma_ret init_ret;
	bool seek_violation; char why[200];
	uint64_t seeks;
} dec_result;

/// Init + run under a slicing plan + end. For D_FILE_INFO the seek
/// protocol is honoured (plan slices the reads).
void dec_run(dec_spec *s, const lzma_allocator *a, const uint8_t *in, size_t in_size,
		const slice_plan *plan, dec_result *res);
void dec_result_free(dec_result *r);
#endif
