// hx_mem: memory monitors.
//   --mode c10    allocation-failure enumeration over a catalogue of API scenarios
//   --mode c10h   handle-reuse histories with injected failures
//   --mode c09    memory limits honoured (decoders) / estimates are upper bounds
#define _GNU_SOURCE
#include "vh.h"
#include "gen_stream.h"
#include "dec_common.h"

static hx_args A;

enum { S_OK, S_MEM, S_BAD };

typedef struct {
	alloc_mon *m; vrng *r;
	char why[400];
	bool fresh_init_leak;     // a failed initialisation of a fresh handle left blocks allocated
	bool caller_object_changed;
} sc;

#define BAD(c, ...) do { snprintf((c)->why, sizeof((c)->why), __VA_ARGS__); return S_BAD; } while (0)

// shared small data (generated once per case with the case rng, deterministic)
static vbuf plain, xz1, xzmulti, alone1, lzip1, raw1, block1;
static vcfg rawcfg, blockcfg; static lzma_check block_check;

static void prepare_data(vrng *r)
{
	vbuf_clear(&plain); vbuf_clear(&xz1); vbuf_clear(&xzmulti); vbuf_clear(&alone1); vbuf_clear(&lzip1); vbuf_clear(&raw1); vbuf_clear(&block1);
	gstream g;
	gen_data(r, &plain, 3000 + vrng_below(r, 3000), GD_TEXT, 4096);
	gen_xz_multi(r, &g, 1, 2, 3000, false, true); vbuf_append(&xz1, g.data.p, g.data.n); gstream_free(&g);
	gen_xz_multi(r, &g, 2, 3, 3000, false, false); vbuf_append(&xzmulti, g.data.p, g.data.n); gstream_free(&g);
	gen_stream(r, &g, SK_ALONE, 3000); vbuf_append(&alone1, g.data.p, g.data.n); gstream_free(&g);
	gen_stream(r, &g, SK_LZIP, 3000); vbuf_append(&lzip1, g.data.p, g.data.n); gstream_free(&g);
	vcfg_free(&rawcfg); vcfg_free(&blockcfg);
	gen_stream(r, &g, SK_RAW, 3000); vbuf_append(&raw1, g.data.p, g.data.n); vcfg_move(&rawcfg, &g.cfg); g.cfg_valid = false; gstream_free(&g);
	gen_stream(r, &g, SK_BLOCK, 3000); vbuf_append(&block1, g.data.p, g.data.n); vcfg_move(&blockcfg, &g.cfg); block_check = g.check; g.cfg_valid = false; gstream_free(&g);
}

// run a coder to the end; returns S_*; *outn receives the output size
static int pump(sc *c, lzma_stream *s, const uint8_t *in, size_t n, vbuf *out, bool timeout_coder)
{
	slice_plan p; slice_plan_random(c->r, &p); p.timeout_coder = timeout_coder; p.final_action = LZMA_FINISH;
	if (p.mode == SL_ONEBYTE || p.mode == SL_ONEIN || p.mode == SL_ONEOUT) p.mode = SL_RANDOM;
	slice_result sr;
	slicer_run(s, in, n, out, &p, &sr);
	if (sr.protocol_violation) BAD(c, "protocol: %s", sr.why);
	if (sr.ret == LZMA_MEM_ERROR) return S_MEM;
	if (sr.ret != LZMA_STREAM_END) BAD(c, "coder ended with %s", lzma_ret_name(sr.ret));
	return S_OK;
}

// After a failed init of a FRESH handle nothing may stay allocated.
static int init_result(sc *c, lzma_stream *s, lzma_ret ret, uint64_t live_before)
{
	if (ret == LZMA_OK) return S_OK;
	if (ret != LZMA_MEM_ERROR) BAD(c, "init returned %s", lzma_ret_name(ret));
	if (c->m->live_blocks != live_before) c->fresh_init_leak = true;
	(void)s;
	return S_MEM;
}

typedef lzma_ret (*init_fn)(lzma_stream *s, sc *c);

static lzma_ret i_easy_enc(lzma_stream *s, sc *c) { (void)c; return lzma_easy_encoder(s, 1, LZMA_CHECK_CRC64); }
static lzma_ret i_stream_enc(lzma_stream *s, sc *c) { (void)c; return lzma_stream_encoder(s, blockcfg.filters, LZMA_CHECK_SHA256); }
static lzma_ret i_mt_enc(lzma_stream *s, sc *c) { (void)c; lzma_mt mt = { .threads = 2, .block_size = 4096, .preset = 0, .check = LZMA_CHECK_CRC32 }; return lzma_stream_encoder_mt(s, &mt); }
static lzma_ret i_alone_enc(lzma_stream *s, sc *c) { (void)c; static lzma_options_lzma o; lzma_lzma_preset(&o, 0); return lzma_alone_encoder(s, &o); }
static lzma_ret i_raw_enc(lzma_stream *s, sc *c) { (void)c; return lzma_raw_encoder(s, rawcfg.filters); }
static lzma_block g_block;
static lzma_ret i_block_enc(lzma_stream *s, sc *c) { (void)c; memset(&g_block, 0, sizeof(g_block)); g_block.version = 1; g_block.check = LZMA_CHECK_CRC32; g_block.filters = blockcfg.filters; g_block.compressed_size = LZMA_VLI_UNKNOWN; g_block.uncompressed_size = LZMA_VLI_UNKNOWN; lzma_ret r = lzma_block_header_size(&g_block); return r != LZMA_OK ? r : lzma_block_encoder(s, &g_block); }
static lzma_ret i_micro_enc(lzma_stream *s, sc *c) { (void)c; static lzma_options_lzma o; lzma_lzma_preset(&o, 0); o.dict_size = 65536; return lzma_microlzma_encoder(s, &o); }

static lzma_ret i_stream_dec(lzma_stream *s, sc *c) { (void)c; return lzma_stream_decoder(s, UINT64_MAX, LZMA_CONCATENATED); }
static lzma_ret i_mt_dec(lzma_stream *s, sc *c) { (void)c; lzma_mt mt = { .flags = LZMA_CONCATENATED, .threads = 2, .memlimit_threading = UINT64_MAX, .memlimit_stop = UINT64_MAX }; return lzma_stream_decoder_mt(s, &mt); }
static lzma_ret i_auto_dec(lzma_stream *s, sc *c) { (void)c; return lzma_auto_decoder(s, UINT64_MAX, LZMA_CONCATENATED); }
static lzma_ret i_alone_dec(lzma_stream *s, sc *c) { (void)c; return lzma_alone_decoder(s, UINT64_MAX); }
static lzma_ret i_lzip_dec(lzma_stream *s, sc *c) { (void)c; return lzma_lzip_decoder(s, UINT64_MAX, LZMA_CONCATENATED); }
static lzma_ret i_raw_dec(lzma_stream *s, sc *c) { (void)c; return lzma_raw_decoder(s, rawcfg.filters); }

typedef struct { const char *name; init_fn init; int in_kind; bool enc; bool timeout; } coder_desc;
enum { IN_PLAIN, IN_XZ1, IN_XZMULTI, IN_ALONE, IN_LZIP, IN_RAW };
static const coder_desc coders[] = {
	{ "easy_enc", i_easy_enc, IN_PLAIN, true, false }, { "stream_enc", i_stream_enc, IN_PLAIN, true, false },
	{ "mt_enc", i_mt_enc, IN_PLAIN, true, false }, { "alone_enc", i_alone_enc, IN_PLAIN, true, false },
	{ "raw_enc", i_raw_enc, IN_PLAIN, true, false }, { "block_enc", i_block_enc, IN_PLAIN, true, false },
	{ "stream_dec", i_stream_dec, IN_XZMULTI, false, false }, { "mt_dec", i_mt_dec, IN_XZMULTI, false, false },
	{ "auto_dec_xz", i_auto_dec, IN_XZ1, false, false }, { "auto_dec_lzma", i_auto_dec, IN_ALONE, false, false },
	{ "auto_dec_lz", i_auto_dec, IN_LZIP, false, false }, { "alone_dec", i_alone_dec, IN_ALONE, false, false },
	{ "lzip_dec", i_lzip_dec, IN_LZIP, false, false }, { "raw_dec", i_raw_dec, IN_RAW, false, false },
};
#define NCODERS (sizeof(coders) / sizeof(coders[0]))

static const vbuf *input_of(int k) { switch (k) { case IN_XZ1: return &xz1; case IN_XZMULTI: return &xzmulti; case IN_ALONE: return &alone1; case IN_LZIP: return &lzip1; case IN_RAW: return &raw1; default: return &plain; } }

// scenario: init + code loop of coder i on a fresh handle
static int sc_coder(sc *c, unsigned i)
{
	lzma_stream s = LZMA_STREAM_INIT; s.allocator = &c->m->a;
	uint64_t live0 = c->m->live_blocks;
	int st = init_result(c, &s, coders[i].init(&s, c), live0);
	if (st != S_OK) { lzma_end(&s); return st; }
	vbuf out = {0};
	const vbuf *in = input_of(coders[i].in_kind);
	st = pump(c, &s, in->p, in->n, &out, coders[i].timeout);
	lzma_end(&s);
	vbuf_free(&out);
	return st;
}

// scenario: after a failure (or success) re-initialise the SAME handle with another coder and use it
static int sc_reinit_after(sc *c, unsigned i, unsigned j)
{
	lzma_stream s = LZMA_STREAM_INIT; s.allocator = &c->m->a;
	lzma_ret ret = coders[i].init(&s, c);
	if (ret != LZMA_OK && ret != LZMA_MEM_ERROR) { lzma_end(&s); BAD(c, "init %s returned %s", coders[i].name, lzma_ret_name(ret)); }
	bool had_mem = ret == LZMA_MEM_ERROR;
	if (ret == LZMA_OK) {
		vbuf out = {0}; const vbuf *in = input_of(coders[i].in_kind);
		int st = pump(c, &s, in->p, in->n / 2, &out, coders[i].timeout);   // stop half-way on purpose
		vbuf_free(&out);
		if (st == S_BAD && !strstr(c->why, "ended with")) { lzma_end(&s); return S_BAD; }
		if (st == S_MEM) had_mem = true;
	}
	// re-initialise without lzma_end, with the failure plan switched off
	int64_t fa = c->m->fail_at, ff = c->m->fail_from; uint32_t fp = c->m->fail_prob_num;
	alloc_mon_reset_plan(c->m);
	ret = coders[j].init(&s, c);
	if (ret != LZMA_OK) { lzma_end(&s); BAD(c, "re-initialising the handle as %s after %s returned %s", coders[j].name, coders[i].name, lzma_ret_name(ret)); }
	vbuf out = {0}; const vbuf *in = input_of(coders[j].in_kind);
	int st = pump(c, &s, in->p, in->n, &out, coders[j].timeout);
	vbuf_free(&out);
	lzma_end(&s);
	c->m->fail_at = fa; c->m->fail_from = ff; c->m->fail_prob_num = fp;
	if (st != S_OK) { if (st == S_MEM) BAD(c, "MEM_ERROR without an injected failure after re-init"); return st; }
	return had_mem ? S_MEM : S_OK;
}

// ---- index scenarios ----
static uint64_t index_digest(const lzma_index *i)
{
	uint64_t h = VHASH_INIT; uint64_t v;
	v = lzma_index_stream_count(i); h = vhash(&v, 8, h); v = lzma_index_block_count(i); h = vhash(&v, 8, h);
	v = lzma_index_file_size(i); h = vhash(&v, 8, h); v = lzma_index_uncompressed_size(i); h = vhash(&v, 8, h);
	v = lzma_index_checks(i); h = vhash(&v, 8, h); v = lzma_index_size(i); h = vhash(&v, 8, h);
	lzma_index_iter it; lzma_index_iter_init(&it, i);
	while (!lzma_index_iter_next(&it, LZMA_INDEX_ITER_ANY)) {
		v = it.stream.number; h = vhash(&v, 8, h); v = it.stream.padding; h = vhash(&v, 8, h);
		if (it.stream.block_count) { v = it.block.unpadded_size; h = vhash(&v, 8, h); v = it.block.uncompressed_size; h = vhash(&v, 8, h); v = it.block.compressed_file_offset; h = vhash(&v, 8, h); }
	}
	return h;
}

// "Unchanged" also means: behaves like an untouched object from here on. The same continuation (other Stream Flags
// for the last Stream, three more Records) is applied with the failure plan switched off; the digest afterwards is
// compared with that of a twin that never saw the failed call.
static uint64_t continue_and_digest(alloc_mon *m, lzma_index *i)
{
	int64_t fa = m->fail_at, ff = m->fail_from; uint32_t fp = m->fail_prob_num; alloc_mon_reset_plan(m);
	lzma_stream_flags sf = { .version = 0, .backward_size = 12, .check = LZMA_CHECK_CRC64 }; (void)lzma_index_stream_flags(i, &sf);
	(void)lzma_index_stream_padding(i, 8);
	for (unsigned k = 0; k < 3; ++k) (void)lzma_index_append(i, &m->a, 100 + k, 1000 + k);
	uint64_t d = index_digest(i);
	m->fail_at = fa; m->fail_from = ff; m->fail_prob_num = fp;
	return d;
}

static int sc_index_append(sc *c)
{
	lzma_index *i = lzma_index_init(&c->m->a);
	if (!i) { if (c->m->live_blocks) c->fresh_init_leak = true; return S_MEM; }
	int st = S_OK;
	for (unsigned k = 0; k < 1100; ++k) {
		uint64_t before = (k % 97 == 0 || c->m->fail_at || c->m->fail_from) && k > 500 ? index_digest(i) : 0;
		lzma_ret r = lzma_index_append(i, &c->m->a, 5 + k, k * 3);
		if (r == LZMA_MEM_ERROR) {
			st = S_MEM;
			if (before && index_digest(i) != before) c->caller_object_changed = true;
			if (lzma_index_block_count(i) != k) c->caller_object_changed = true;
			{
				// twin with the same k Records that never saw a failed call
				int64_t fa = c->m->fail_at, ff = c->m->fail_from; uint32_t fp = c->m->fail_prob_num; alloc_mon_reset_plan(c->m);
				lzma_index *t = lzma_index_init(&c->m->a);
				for (unsigned q = 0; q < k; ++q) (void)lzma_index_append(t, &c->m->a, 5 + q, q * 3);
				c->m->fail_at = fa; c->m->fail_from = ff; c->m->fail_prob_num = fp;
				if (continue_and_digest(c->m, i) != continue_and_digest(c->m, t)) c->caller_object_changed = true;
				lzma_index_end(t, &c->m->a);
			}
			break;
		}
		if (r != LZMA_OK) { lzma_index_end(i, &c->m->a); BAD(c, "append returned %s", lzma_ret_name(r)); }
	}
	lzma_index_end(i, &c->m->a);
	return st;
}

static lzma_index *make_index(alloc_mon *m, unsigned n, lzma_check chk)
{
	int64_t fa = m->fail_at, ff = m->fail_from; uint32_t fp = m->fail_prob_num; alloc_mon_reset_plan(m);
	lzma_index *i = lzma_index_init(&m->a);
	for (unsigned k = 0; k < n; ++k) (void)lzma_index_append(i, &m->a, 7 + k, 10 + k);
	lzma_stream_flags sf = { .version = 0, .backward_size = 8, .check = chk }; (void)lzma_index_stream_flags(i, &sf);
	m->fail_at = fa; m->fail_from = ff; m->fail_prob_num = fp;
	return i;
}

static int sc_index_cat(sc *c)
{
	uint64_t base = c->m->n_alloc;
	lzma_index *a = make_index(c->m, 700, LZMA_CHECK_CRC32), *b = make_index(c->m, 30, LZMA_CHECK_SHA256);
	// failure plan counts from here
	if (c->m->fail_at) c->m->fail_at += (int64_t)(c->m->n_alloc - base);
	if (c->m->fail_from) c->m->fail_from += (int64_t)(c->m->n_alloc - base);
	uint64_t da = index_digest(a), db = index_digest(b);
	lzma_ret r = lzma_index_cat(a, b, &c->m->a);
	int st = S_OK;
	if (r == LZMA_MEM_ERROR) {
		st = S_MEM;
		if (index_digest(a) != da || index_digest(b) != db) c->caller_object_changed = true;
		else {
			lzma_index *ta = make_index(c->m, 700, LZMA_CHECK_CRC32), *tb = make_index(c->m, 30, LZMA_CHECK_SHA256);
			if (continue_and_digest(c->m, a) != continue_and_digest(c->m, ta) || continue_and_digest(c->m, b) != continue_and_digest(c->m, tb)) c->caller_object_changed = true;
			lzma_index_end(ta, &c->m->a); lzma_index_end(tb, &c->m->a);
		}
		lzma_index_end(b, &c->m->a);
	} else if (r != LZMA_OK) { lzma_index_end(a, &c->m->a); lzma_index_end(b, &c->m->a); BAD(c, "cat returned %s", lzma_ret_name(r)); }
	else if (lzma_index_block_count(a) != 730 || lzma_index_checks(a) != ((1u << LZMA_CHECK_CRC32) | (1u << LZMA_CHECK_SHA256))) { lzma_index_end(a, &c->m->a); BAD(c, "cat result wrong"); }
	lzma_index_end(a, &c->m->a);
	return st;
}

static int sc_index_dup(sc *c)
{
	uint64_t base = c->m->n_alloc;
	lzma_index *a = make_index(c->m, 600, LZMA_CHECK_CRC64);
	lzma_index *b2 = make_index(c->m, 600, LZMA_CHECK_CRC32);
	int64_t fa = c->m->fail_at, ff = c->m->fail_from; uint32_t fp = c->m->fail_prob_num; alloc_mon_reset_plan(c->m);
	(void)lzma_index_cat(a, b2, &c->m->a);
	c->m->fail_at = fa; c->m->fail_from = ff; c->m->fail_prob_num = fp;
	if (c->m->fail_at) c->m->fail_at += (int64_t)(c->m->n_alloc - base);
	if (c->m->fail_from) c->m->fail_from += (int64_t)(c->m->n_alloc - base);
	uint64_t da = index_digest(a);
	lzma_index *d = lzma_index_dup(a, &c->m->a);
	int st = S_OK;
	if (!d) st = S_MEM;
	else { if (index_digest(d) != da) { lzma_index_end(d, &c->m->a); lzma_index_end(a, &c->m->a); BAD(c, "duplicate differs"); } lzma_index_end(d, &c->m->a); }
	if (index_digest(a) != da) c->caller_object_changed = true;
	lzma_index_end(a, &c->m->a);
	return st;
}

static int sc_index_codec(sc *c)
{
	uint64_t base = c->m->n_alloc;
	lzma_index *a = make_index(c->m, 900, LZMA_CHECK_CRC64);
	if (c->m->fail_at) c->m->fail_at += (int64_t)(c->m->n_alloc - base);
	if (c->m->fail_from) c->m->fail_from += (int64_t)(c->m->n_alloc - base);
	size_t sz = (size_t)lzma_index_size(a); uint8_t *buf = malloc(sz); size_t pos = 0;
	int st = S_OK;
	lzma_ret r = lzma_index_buffer_encode(a, buf, &pos, sz);
	if (r != LZMA_OK) { free(buf); lzma_index_end(a, &c->m->a); BAD(c, "index_buffer_encode returned %s", lzma_ret_name(r)); }
	// streaming encoder
	lzma_stream s = LZMA_STREAM_INIT; s.allocator = &c->m->a;
	uint64_t live0 = c->m->live_blocks;
	st = init_result(c, &s, lzma_index_encoder(&s, a), live0);
	if (st == S_OK) { vbuf o = {0}; st = pump(c, &s, NULL, 0, &o, false); if (st == S_OK && (o.n != sz || memcmp(o.p, buf, sz))) { st = S_BAD; snprintf(c->why, sizeof(c->why), "streaming index encoder output differs"); } vbuf_free(&o); }
	lzma_end(&s);
	if (st == S_OK) {
		lzma_index *d = NULL; uint64_t ml = UINT64_MAX; size_t ip = 0;
		r = lzma_index_buffer_decode(&d, &ml, &c->m->a, buf, &ip, sz);
		if (r == LZMA_MEM_ERROR) { st = S_MEM; if (d != NULL) { st = S_BAD; snprintf(c->why, sizeof(c->why), "index_buffer_decode failed but set *i"); } }
		else if (r != LZMA_OK) { st = S_BAD; snprintf(c->why, sizeof(c->why), "index_buffer_decode returned %s", lzma_ret_name(r)); }
		else lzma_index_end(d, &c->m->a);
	}
	if (st == S_OK) {
		lzma_stream ds = LZMA_STREAM_INIT; ds.allocator = &c->m->a; lzma_index *d = NULL;
		live0 = c->m->live_blocks;
		st = init_result(c, &ds, lzma_index_decoder(&ds, &d, UINT64_MAX), live0);
		if (st == S_OK) { vbuf o = {0}; st = pump(c, &ds, buf, sz, &o, false); vbuf_free(&o); }
		lzma_end(&ds);
		if (st == S_OK && d) lzma_index_end(d, &c->m->a);
		else if (d) { st = S_BAD; snprintf(c->why, sizeof(c->why), "index decoder failed but left *i set"); }
	}
	free(buf);
	lzma_index_end(a, &c->m->a);
	return st;
}

static int sc_file_info(sc *c)
{
	lzma_stream s = LZMA_STREAM_INIT; s.allocator = &c->m->a; lzma_index *ix = NULL;
	uint64_t live0 = c->m->live_blocks;
	int st = init_result(c, &s, lzma_file_info_decoder(&s, &ix, UINT64_MAX, xzmulti.n), live0);
	if (st != S_OK) { lzma_end(&s); return st; }
	size_t pos = 0; lzma_ret r;
	for (unsigned guard = 0; guard < 100000; ++guard) {
		size_t take = xzmulti.n - pos < 64 ? xzmulti.n - pos : 64;
		s.next_in = xzmulti.p + pos; s.avail_in = take;
		r = lzma_code(&s, LZMA_RUN);
		pos += take - s.avail_in;
		if (r == LZMA_SEEK_NEEDED) { pos = (size_t)s.seek_pos; continue; }
		if (r != LZMA_OK) break;
	}
	lzma_end(&s);
	if (r == LZMA_MEM_ERROR) { if (ix) { BAD(c, "file_info failed with MEM_ERROR but set the index"); } return S_MEM; }
	if (r != LZMA_STREAM_END || !ix) { if (ix) lzma_index_end(ix, &c->m->a); BAD(c, "file_info ended with %s", lzma_ret_name(r)); }
	if (lzma_index_stream_count(ix) != 2) { lzma_index_end(ix, &c->m->a); BAD(c, "file_info index wrong"); }
	lzma_index_end(ix, &c->m->a);
	return S_OK;
}

// ---- filter-chain scenarios ----
static int sc_filters_copy(sc *c)
{
	lzma_filter dst[LZMA_FILTERS_MAX + 1];
	memset(dst, 0x5A, sizeof(dst));
	lzma_filter snap[LZMA_FILTERS_MAX + 1]; memcpy(snap, dst, sizeof(dst));
	lzma_ret r = lzma_filters_copy(blockcfg.filters, dst, &c->m->a);
	if (r == LZMA_MEM_ERROR) { if (memcmp(snap, dst, sizeof(dst))) c->caller_object_changed = true; return S_MEM; }
	if (r != LZMA_OK) BAD(c, "filters_copy returned %s", lzma_ret_name(r));
	lzma_filters_free(dst, &c->m->a);
	return S_OK;
}

static int sc_filters_update(sc *c)
{
	lzma_stream s = LZMA_STREAM_INIT; s.allocator = &c->m->a;
	uint64_t live0 = c->m->live_blocks;
	int st = init_result(c, &s, lzma_stream_encoder(&s, blockcfg.filters, LZMA_CHECK_CRC32), live0);
	if (st != S_OK) { lzma_end(&s); return st; }
	vbuf out = {0}; uint8_t ob[8192];
	bool mem = false;
	size_t half = plain.n / 2;
	s.next_in = plain.p; s.avail_in = half;
	lzma_ret r;
	do { s.next_out = ob; s.avail_out = sizeof(ob); r = lzma_code(&s, LZMA_FULL_FLUSH); vbuf_append(&out, ob, sizeof(ob) - s.avail_out); } while (r == LZMA_OK);
	if (r == LZMA_MEM_ERROR) { lzma_end(&s); vbuf_free(&out); return S_MEM; }
	if (r != LZMA_STREAM_END) { lzma_end(&s); vbuf_free(&out); BAD(c, "FULL_FLUSH returned %s", lzma_ret_name(r)); }
	r = lzma_filters_update(&s, (rawcfg.filters[rawcfg.nfilters - 1].id == LZMA_FILTER_LZMA2 && rawcfg.lzma.preset_dict == NULL) ? rawcfg.filters : blockcfg.filters);
	if (r == LZMA_MEM_ERROR) mem = true;    // refused: the encoder must stay usable with the old chain
	else if (r != LZMA_OK) { lzma_end(&s); vbuf_free(&out); BAD(c, "filters_update returned %s", lzma_ret_name(r)); }
	s.next_in = plain.p + half; s.avail_in = plain.n - half;
	do { s.next_out = ob; s.avail_out = sizeof(ob); r = lzma_code(&s, LZMA_FINISH); vbuf_append(&out, ob, sizeof(ob) - s.avail_out); } while (r == LZMA_OK);
	lzma_end(&s);
	if (r == LZMA_MEM_ERROR) { vbuf_free(&out); return S_MEM; }
	if (r != LZMA_STREAM_END) { vbuf_free(&out); BAD(c, "finish after filters_update returned %s", lzma_ret_name(r)); }
	// whole stream must decode (default allocator)
	lzma_stream d = LZMA_STREAM_INIT; vbuf dec = {0};
	if (lzma_stream_decoder(&d, UINT64_MAX, 0) == LZMA_OK) {
		slice_plan p = { .mode = SL_WHOLE, .final_action = LZMA_FINISH }; slice_result sr;
		slicer_run(&d, out.p, out.n, &dec, &p, &sr);
		if (sr.ret != LZMA_STREAM_END || dec.n != plain.n || memcmp(dec.p, plain.p, plain.n)) { lzma_end(&d); vbuf_free(&dec); vbuf_free(&out); BAD(c, "stream after %s filters_update does not decode", mem ? "refused" : "accepted"); }
	}
	lzma_end(&d); vbuf_free(&dec); vbuf_free(&out);
	return mem ? S_MEM : S_OK;
}

static int sc_strings(sc *c)
{
	lzma_filter f[LZMA_FILTERS_MAX + 1]; int ep = 0;
	const char *e = lzma_str_to_filters("delta:dist=4 arm64:start=4096 lzma2:preset=3,lc=2,lp=1,dict=1MiB", &ep, f, 0, &c->m->a);
	if (e != NULL) { if (c->m->n_failed_injected == 0) BAD(c, "str_to_filters: %s", e); return S_MEM; }
	char *str = NULL;
	lzma_ret r = lzma_str_from_filters(&str, f, LZMA_STR_ENCODER | LZMA_STR_GETOPT_LONG, &c->m->a);
	int st = S_OK;
	if (r == LZMA_MEM_ERROR) { st = S_MEM; if (str) { st = S_BAD; snprintf(c->why, sizeof(c->why), "str_from_filters failed but set *str"); } }
	else if (r != LZMA_OK) { st = S_BAD; snprintf(c->why, sizeof(c->why), "str_from_filters returned %s", lzma_ret_name(r)); }
	else lzma_free(str, &c->m->a);
	if (st == S_OK) {
		char *l = NULL; r = lzma_str_list_filters(&l, LZMA_VLI_UNKNOWN, LZMA_STR_ALL_FILTERS | LZMA_STR_ENCODER, &c->m->a);
		if (r == LZMA_MEM_ERROR) st = S_MEM; else if (r != LZMA_OK) { st = S_BAD; snprintf(c->why, sizeof(c->why), "str_list_filters returned %s", lzma_ret_name(r)); } else lzma_free(l, &c->m->a);
	}
	lzma_filters_free(f, &c->m->a);
	return st;
}

static int sc_header_parsers(sc *c)
{
	// block header of block1, filter flags, properties
	lzma_block b; memset(&b, 0, sizeof(b)); lzma_filter bf[LZMA_FILTERS_MAX + 1];
	b.version = 1; b.check = block_check; b.filters = bf; bf[0].id = LZMA_VLI_UNKNOWN;
	b.header_size = lzma_block_header_size_decode(block1.p[0]);
	lzma_ret r = lzma_block_header_decode(&b, &c->m->a, block1.p);
	if (r == LZMA_MEM_ERROR) { for (unsigned i = 0; i <= LZMA_FILTERS_MAX; ++i) if (bf[i].id != LZMA_VLI_UNKNOWN) { BAD(c, "block_header_decode failed but left filters[%u] set", i); } return S_MEM; }
	if (r != LZMA_OK) BAD(c, "block_header_decode returned %s", lzma_ret_name(r));
	int st = S_OK;
	// encode filter flags of each and decode back
	for (unsigned i = 0; bf[i].id != LZMA_VLI_UNKNOWN && st == S_OK; ++i) {
		uint32_t sz = 0; uint8_t tmp[64]; size_t pos = 0;
		if (lzma_filter_flags_size(&sz, &bf[i]) != LZMA_OK || sz > sizeof(tmp) || lzma_filter_flags_encode(&bf[i], tmp, &pos, sz) != LZMA_OK) { st = S_BAD; snprintf(c->why, sizeof(c->why), "filter_flags_encode failed"); break; }
		lzma_filter f2 = { 0, NULL }; size_t ip = 0;
		r = lzma_filter_flags_decode(&f2, &c->m->a, tmp, &ip, sz);
		if (r == LZMA_MEM_ERROR) { st = S_MEM; if (f2.options) { st = S_BAD; snprintf(c->why, sizeof(c->why), "filter_flags_decode failed but set options"); } }
		else if (r != LZMA_OK) { st = S_BAD; snprintf(c->why, sizeof(c->why), "filter_flags_decode returned %s", lzma_ret_name(r)); }
		else lzma_free(f2.options, &c->m->a);
	}
	lzma_filters_free(bf, &c->m->a);
	return st;
}

static int sc_buffer_apis(sc *c)
{
	size_t bound = lzma_stream_buffer_bound(plain.n); uint8_t *o = malloc(bound); size_t pos = 0;
	lzma_ret r = lzma_easy_buffer_encode(1, LZMA_CHECK_CRC32, &c->m->a, plain.p, plain.n, o, &pos, bound);
	int st = S_OK;
	if (r == LZMA_MEM_ERROR) { st = S_MEM; if (pos != 0) { st = S_BAD; snprintf(c->why, sizeof(c->why), "easy_buffer_encode failed but moved out_pos"); } }
	else if (r != LZMA_OK) { st = S_BAD; snprintf(c->why, sizeof(c->why), "easy_buffer_encode returned %s", lzma_ret_name(r)); }
	if (st == S_OK) {
		uint8_t *d = malloc(plain.n + 1); size_t ip = 0, op = 0; uint64_t ml = UINT64_MAX;
		r = lzma_stream_buffer_decode(&ml, 0, &c->m->a, o, &ip, pos, d, &op, plain.n + 1);
		if (r == LZMA_MEM_ERROR) { st = S_MEM; if (ip || op) { st = S_BAD; snprintf(c->why, sizeof(c->why), "stream_buffer_decode failed but moved positions"); } }
		else if (r != LZMA_OK || op != plain.n || memcmp(d, plain.p, op)) { st = S_BAD; snprintf(c->why, sizeof(c->why), "stream_buffer_decode returned %s / wrong data", lzma_ret_name(r)); }
		free(d);
	}
	if (st == S_OK) {
		lzma_block b; memset(&b, 0, sizeof(b)); b.version = 1; b.check = LZMA_CHECK_CRC64; b.filters = blockcfg.filters;
		size_t bb = lzma_block_buffer_bound(plain.n); uint8_t *bo = malloc(bb); size_t bp = 0;
		r = lzma_block_buffer_encode(&b, &c->m->a, plain.p, plain.n, bo, &bp, bb);
		if (r == LZMA_MEM_ERROR) st = S_MEM;
		else if (r != LZMA_OK) { st = S_BAD; snprintf(c->why, sizeof(c->why), "block_buffer_encode returned %s", lzma_ret_name(r)); }
		else {
			uint8_t *d = malloc(plain.n + 1); size_t ip = b.header_size, op = 0;
			r = lzma_block_buffer_decode(&b, &c->m->a, bo, &ip, bp, d, &op, plain.n + 1);
			if (r == LZMA_MEM_ERROR) st = S_MEM;
			else if (r != LZMA_OK || op != plain.n || memcmp(d, plain.p, op)) { st = S_BAD; snprintf(c->why, sizeof(c->why), "block_buffer_decode returned %s / wrong data", lzma_ret_name(r)); }
			free(d);
		}
		free(bo);
	}
	if (st == S_OK) {
		size_t rb = plain.n + plain.n / 4 + 4096; uint8_t *ro = malloc(rb); size_t rp = 0;
		r = lzma_raw_buffer_encode(rawcfg.filters, &c->m->a, plain.p, plain.n, ro, &rp, rb);
		if (r == LZMA_MEM_ERROR) st = S_MEM;
		else if (r != LZMA_OK) { st = S_BAD; snprintf(c->why, sizeof(c->why), "raw_buffer_encode returned %s", lzma_ret_name(r)); }
		else {
			uint8_t *d = malloc(plain.n + 1); size_t ip = 0, op = 0;
			r = lzma_raw_buffer_decode(rawcfg.filters, &c->m->a, ro, &ip, rp, d, &op, plain.n + 1);
			if (r == LZMA_MEM_ERROR) st = S_MEM;
			else if (r != LZMA_OK || op != plain.n || memcmp(d, plain.p, op)) { st = S_BAD; snprintf(c->why, sizeof(c->why), "raw_buffer_decode returned %s / wrong data", lzma_ret_name(r)); }
			free(d);
		}
		free(ro);
	}
	free(o);
	return st;
}

static int sc_index_hash(sc *c)
{
	lzma_index_hash *h = lzma_index_hash_init(NULL, &c->m->a);
	if (!h) return S_MEM;
	for (unsigned k = 0; k < 50; ++k) (void)lzma_index_hash_append(h, 7 + k, 10 + k);
	lzma_index_hash *h2 = lzma_index_hash_init(h, &c->m->a);   // re-init reuses
	if (!h2) { lzma_index_hash_end(h, &c->m->a); return S_MEM; }
	lzma_index_hash_end(h2, &c->m->a);
	return S_OK;
}

// An Index whose Number of Records is absurd (around 2^60, where "records x sizeof(record)" no longer fits a size_t):
// the impossible allocation has to be REQUESTED and refused (LZMA_MEM_ERROR through the allocator's natural failure)
// or never made; what must not happen is a small wrapped-around allocation that the Records are then written past
// (the sanitizer's job) or an lzma_index handed back.
static int sc_index_absurd(sc *c)
{
	static const uint64_t counts[] = { (UINT64_C(1) << 60) - 4, (UINT64_C(1) << 60) - 3, UINT64_C(1) << 60, (UINT64_C(1) << 60) + 1, UINT64_C(1) << 61, (UINT64_C(1) << 63) - 1, UINT64_MAX / 16 + 1, UINT64_MAX / 24 };
	int st = S_OK;
	for (unsigned q = 0; q < 8 && st == S_OK; ++q) {
		uint8_t buf[64]; size_t n = 0; buf[n++] = 0;
		uint64_t v = counts[q]; while (v >= 0x80) { buf[n++] = (uint8_t)(v | 0x80); v >>= 7; } buf[n++] = (uint8_t)v;
		for (unsigned k = 0; k < 3; ++k) { buf[n++] = (uint8_t)(20 + k); buf[n++] = (uint8_t)(30 + k); }
		while (n & 3) buf[n++] = 0;
		uint32_t crc = lzma_crc32(buf, n, 0); for (int i = 0; i < 4; ++i) buf[n++] = (uint8_t)(crc >> (8 * i));
		uint64_t hl = c->m->huge_limit; c->m->huge_limit = UINT64_C(1) << 30;
		uint64_t fi0 = c->m->n_failed_injected;
		lzma_index *i = NULL; uint64_t ml = UINT64_MAX; size_t ip = 0;
		lzma_ret r = lzma_index_buffer_decode(&i, &ml, &c->m->a, buf, &ip, n);
		c->m->huge_limit = hl;
		if (i != NULL) { lzma_index_end(i, &c->m->a); BAD(c, "lzma_index_buffer_decode returned an index for a field declaring %" PRIu64 " Records (status %s)", counts[q], lzma_ret_name(r)); }
		if (r == LZMA_MEM_ERROR) { if (c->m->n_failed_injected > fi0) st = S_MEM; continue; }
		if (r != LZMA_DATA_ERROR) BAD(c, "Index declaring %" PRIu64 " Records: status %s", counts[q], lzma_ret_name(r));
	}
	return st;
}

#define N_EXTRA 13
static const char *const extra_names[N_EXTRA] = { "index_append", "index_cat", "index_dup", "index_codec", "file_info", "filters_copy", "filters_update", "strings", "header_parsers", "buffer_apis", "index_hash", "micro_enc", "index_absurd_count" };

static int sc_micro(sc *c)
{
	lzma_stream s = LZMA_STREAM_INIT; s.allocator = &c->m->a;
	uint64_t live0 = c->m->live_blocks;
	int st = init_result(c, &s, i_micro_enc(&s, c), live0);
	if (st != S_OK) { lzma_end(&s); return st; }
	uint8_t ob[600]; s.next_in = plain.p; s.avail_in = plain.n; s.next_out = ob; s.avail_out = sizeof(ob);
	lzma_ret r = lzma_code(&s, LZMA_FINISH);
	uint64_t ti = s.total_in, to = s.total_out;
	if (r == LZMA_MEM_ERROR) { lzma_end(&s); return S_MEM; }
	if (r != LZMA_STREAM_END) { lzma_end(&s); BAD(c, "microlzma encode returned %s", lzma_ret_name(r)); }
	// re-init the same handle as the decoder
	r = lzma_microlzma_decoder(&s, to, ti, true, 65536);
	if (r == LZMA_MEM_ERROR) { lzma_end(&s); return S_MEM; }
	if (r != LZMA_OK) { lzma_end(&s); BAD(c, "microlzma decoder init returned %s", lzma_ret_name(r)); }
	vbuf o = {0}; st = pump(c, &s, ob, (size_t)to, &o, false);
	if (st == S_OK && (o.n != ti || memcmp(o.p, plain.p, o.n))) { st = S_BAD; snprintf(c->why, sizeof(c->why), "microlzma round trip wrong"); }
	vbuf_free(&o); lzma_end(&s);
	return st;
}

static int run_scenario(sc *c, unsigned id)
{
	if (id < NCODERS) return sc_coder(c, id);
	id -= NCODERS;
	switch (id) {
	case 0: return sc_index_append(c); case 1: return sc_index_cat(c); case 2: return sc_index_dup(c); case 3: return sc_index_codec(c);
	case 4: return sc_file_info(c); case 5: return sc_filters_copy(c); case 6: return sc_filters_update(c); case 7: return sc_strings(c);
	case 8: return sc_header_parsers(c); case 9: return sc_buffer_apis(c); case 10: return sc_index_hash(c); case 11: return sc_micro(c);
	case 12: return sc_index_absurd(c);
	}
	return S_OK;
}
static const char *scenario_name(unsigned id) { return id < NCODERS ? coders[id].name : extra_names[id - NCODERS]; }
#define NSCEN (NCODERS + N_EXTRA)

static bool is_threaded(unsigned id) { return id < NCODERS && (!strcmp(coders[id].name, "mt_enc") || !strcmp(coders[id].name, "mt_dec")); }

// One case = one scenario: clean run, then every k (single failure and
// fail-from-k), then random subsets.
static void c10_case(uint64_t idx)
{
	unsigned id = (unsigned)(idx % NSCEN);
	vrng r; vrng_init(&r, A.seed, 0xC10, idx / NSCEN, 0);
	hx_case_begin(idx);
	vrng dr = r; prepare_data(&dr);
	alloc_mon mon; alloc_mon_init(&mon);
	sc c; memset(&c, 0, sizeof(c)); c.m = &mon;
	const char *name = scenario_name(id);
	char key[200];
	// clean run
	vrng rr = r; c.r = &rr;
	int st = run_scenario(&c, id);
	hx_eval();
	uint64_t N = mon.n_alloc;
	if (st != S_OK) { snprintf(key, sizeof(key), "scenario-fails-without-fault|%s", name); hx_violation("C10", key, idx, "clean run: %s (status %d)", c.why, st); goto out; }
	if (mon.live_blocks || mon.errors) { snprintf(key, sizeof(key), "leak-without-fault|%s", name); hx_violation("C10", key, idx, "clean run leaves %" PRIu64 " blocks; %s", mon.live_blocks, mon.errmsg); goto out; }
	hx_sample("c10 scenario %s: %" PRIu64 " allocations in the clean run", name, N);
	bool threaded = is_threaded(id);
	unsigned fired = 0, planned = 0;
	uint64_t kmax = N + 2;
	for (int mode = 0; mode < 3; ++mode) {
		uint64_t count = mode == 2 ? (A.thorough ? 300 : 40) : kmax;
		for (uint64_t k = 1; k <= count; ++k) {
			alloc_mon_destroy(&mon); alloc_mon_init(&mon);
			memset(&c, 0, sizeof(c)); c.m = &mon; rr = r; c.r = &rr;
			if (mode == 0) mon.fail_at = (int64_t)k;
			else if (mode == 1) mon.fail_from = (int64_t)k;
			else { mon.fail_prob_num = 2000 + vrng_below(&r, 30000); mon.fail_rand_after = (int64_t)vrng_below64(&r, N + 1); vrng_init(&mon.fail_rng, A.seed, idx, k, 3); }
			st = run_scenario(&c, id);
			hx_eval(); ++planned;
			bool injected = mon.n_failed_injected > 0;
			if (injected) ++fired;
			const char *pm = mode == 0 ? "single" : (mode == 1 ? "from-k" : "random-subset");
			if (st == S_BAD) { snprintf(key, sizeof(key), "wrong-result-under-alloc-failure|%s", name); hx_violation("C10", key, idx, "%s failure plan k=%" PRIu64 ": %s", pm, k, c.why); goto out; }
			if (st == S_MEM && !injected) { snprintf(key, sizeof(key), "mem-error-without-failure|%s", name); hx_violation("C10", key, idx, "%s plan k=%" PRIu64 ": memory error reported although no allocation failed", pm, k); goto out; }
			if (mon.errors) { snprintf(key, sizeof(key), "allocator-misuse|%s", name); hx_violation("C10", key, idx, "%s plan k=%" PRIu64 ": %s", pm, k, mon.errmsg); goto out; }
			if (mon.live_blocks) { snprintf(key, sizeof(key), "leak-after-alloc-failure|%s", name); hx_violation("C10", key, idx, "%s plan k=%" PRIu64 ": %" PRIu64 " blocks (%" PRIu64 " bytes) still allocated after lzma_end / *_end", pm, k, mon.live_blocks, mon.live_bytes); goto out; }
			if (c.fresh_init_leak) { snprintf(key, sizeof(key), "failed-init-left-allocations|%s", name); hx_violation("C10", key, idx, "%s plan k=%" PRIu64 ": a failed initialisation of a fresh handle left memory allocated", pm, k); goto out; }
			if (c.caller_object_changed) { snprintf(key, sizeof(key), "caller-object-changed|%s", name); hx_violation("C10", key, idx, "%s plan k=%" PRIu64 ": an object owned by the caller was modified by the failed call", pm, k); goto out; }
			if (st == S_OK && injected && !threaded) hx_count("survived_failures", 1);
		}
	}
	hx_count("plans_run", planned); hx_count("plans_fired", fired);
	{ char nm[64]; snprintf(nm, sizeof(nm), "scen_%s", name); hx_count(nm, 1); }
	hx_max("max_allocations_in_scenario", N);
	hx_distinct(vhash(name, strlen(name), vhash(&idx, 8, VHASH_INIT)), fired > 0);
out:
	alloc_mon_destroy(&mon);
}

// handle-reuse histories
static void c10h_case(uint64_t idx)
{
	vrng r; vrng_init(&r, A.seed, 0xC10B, idx, 0);
	hx_case_begin(idx);
	vrng dr = r; prepare_data(&dr);
	alloc_mon mon; alloc_mon_init(&mon);
	sc c; memset(&c, 0, sizeof(c)); c.m = &mon; c.r = &r;
	lzma_stream s = LZMA_STREAM_INIT; s.allocator = &mon.a;
	char hist[600]; size_t hw = 0; hist[0] = 0;
	unsigned steps = 3 + vrng_below(&r, 10); char key[200];
	bool viol = false;
	// an encoded Index for the index-decoder steps (built once with malloc, outside the monitored allocator)
	static uint8_t ixbuf[4096]; static size_t ixlen = 0;
	if (ixlen == 0) {
		lzma_index *t = lzma_index_init(NULL);
		for (unsigned q = 0; t != NULL && q < 300; ++q) (void)lzma_index_append(t, NULL, 40 + q * 4, 1 + q);
		if (t != NULL) { (void)lzma_index_buffer_encode(t, ixbuf, &ixlen, sizeof(ixbuf)); lzma_index_end(t, NULL); }
	}
	for (unsigned k = 0; k < steps && !viol; ++k) {
		// a fifth of the steps: lzma_index_decoder() (not in the coder table: its product is an lzma_index the caller
		// owns), one to three times in a row on the handle, each life fed whole or cut short, each init under a
		// failure plan half of the time - a decode left unfinished keeps its partial Index inside the coder, and the
		// next init of the same coder type must dispose of it exactly once even when its own allocations fail
		if (ixlen != 0 && vrng_chance(&r, 1, 5)) {
			unsigned lives = 1 + vrng_below(&r, 3);
			for (unsigned l = 0; l < lives && !viol; ++l) {
				static lzma_index *got; got = NULL;
				alloc_mon_reset_plan(&mon);
				if (vrng_chance(&r, 1, 2)) { if (vrng_chance(&r, 1, 2)) mon.fail_at = (int64_t)(mon.n_alloc + 1 + vrng_below(&r, 4)); else mon.fail_from = (int64_t)(mon.n_alloc + 1 + vrng_below(&r, 4)); }
				lzma_ret ret = lzma_index_decoder(&s, &got, UINT64_MAX);
				hw += (size_t)snprintf(hist + hw, hw < sizeof(hist) ? sizeof(hist) - hw : 0, "index_dec=%s ", lzma_ret_name(ret)); if (hw >= sizeof(hist)) hw = sizeof(hist) - 1;
				hx_eval(); hx_count("reuse_index_decoder_lives", 1);
				if (ret == LZMA_OK) {
					size_t n = vrng_chance(&r, 1, 2) ? ixlen : (size_t)vrng_below64(&r, ixlen);
					s.next_in = ixbuf; s.avail_in = n; uint8_t dummy[1]; s.next_out = dummy; s.avail_out = 0;
					lzma_ret cr = lzma_code(&s, LZMA_RUN);
					if (n == ixlen && mon.n_failed_injected == 0 && cr != LZMA_STREAM_END) { hx_violation("C10", "reuse-history-broken|index_dec", idx, "whole Index gave %s; history %s", lzma_ret_name(cr), hist); viol = true; }
					if (cr == LZMA_STREAM_END && got == NULL) { hx_violation("C10", "reuse-history-broken|index_dec", idx, "STREAM_END without an Index; history %s", hist); viol = true; }
					if (cr != LZMA_STREAM_END && got != NULL) { hx_violation("C10", "caller-object-changed|index_dec", idx, "%s but *i was set; history %s", lzma_ret_name(cr), hist); viol = true; got = NULL; }
					if (n < ixlen && cr == LZMA_OK) hx_count("reuse_index_decoder_left_unfinished", 1);
					if (got != NULL) { lzma_index_end(got, &mon.a); got = NULL; }
				} else if (ret != LZMA_MEM_ERROR) { hx_violation("C10", "reinit-failed|index_dec", idx, "returned %s; history %s", lzma_ret_name(ret), hist); viol = true; }
				else if (got != NULL) { hx_violation("C10", "caller-object-changed|index_dec", idx, "failed init set *i; history %s", hist); viol = true; }
				if (mon.errors) { hx_violation("C10", "allocator-misuse|reuse-history", idx, "%s; history %s", mon.errmsg, hist); viol = true; }
			}
			continue;
		}
		unsigned i = vrng_below(&r, (uint32_t)NCODERS);
		alloc_mon_reset_plan(&mon);
		if (vrng_chance(&r, 1, 2)) { if (vrng_chance(&r, 1, 2)) mon.fail_at = (int64_t)(mon.n_alloc + 1 + vrng_below(&r, 12)); else mon.fail_from = (int64_t)(mon.n_alloc + 1 + vrng_below(&r, 12)); }
		lzma_ret ret = coders[i].init(&s, &c);
		hw += (size_t)snprintf(hist + hw, hw < sizeof(hist) ? sizeof(hist) - hw : 0, "%s=%s ", coders[i].name, lzma_ret_name(ret)); if (hw >= sizeof(hist)) hw = sizeof(hist) - 1;
		hx_eval();
		if (ret == LZMA_OK) {
			vbuf out = {0}; const vbuf *in = input_of(coders[i].in_kind);
			size_t n = vrng_chance(&r, 1, 2) ? in->n : (size_t)vrng_below64(&r, in->n + 1);
			int st = pump(&c, &s, in->p, n, &out, false);
			if (st == S_BAD && n == in->n && mon.n_failed_injected == 0 && !strstr(c.why, "ended with")) { snprintf(key, sizeof(key), "reuse-history-broken|%s", coders[i].name); hx_violation("C10", key, idx, "%s; history %s", c.why, hist); viol = true; }
			vbuf_free(&out);
		} else if (ret != LZMA_MEM_ERROR) { snprintf(key, sizeof(key), "reinit-failed|%s", coders[i].name); hx_violation("C10", key, idx, "returned %s; history %s", lzma_ret_name(ret), hist); viol = true; }
		if (mon.errors) { hx_violation("C10", "allocator-misuse|reuse-history", idx, "%s; history %s", mon.errmsg, hist); viol = true; }
	}
	lzma_end(&s);
	if (!viol && mon.live_blocks) hx_violation("C10", "leak-after-reuse-history", idx, "%" PRIu64 " blocks (%" PRIu64 " bytes) allocated after lzma_end; history %s", mon.live_blocks, mon.live_bytes, hist);
	if (!viol && mon.errors) hx_violation("C10", "allocator-misuse|reuse-history", idx, "%s; history %s", mon.errmsg, hist);
	hx_sample("c10h history %s", hist);
	hx_count("reuse_histories", 1); hx_count("reuse_failures_injected", mon.n_failed_injected);
	// also the pairwise re-init scenario
	alloc_mon_destroy(&mon); alloc_mon_init(&mon); memset(&c, 0, sizeof(c)); c.m = &mon; c.r = &r;
	unsigned i = vrng_below(&r, (uint32_t)NCODERS), j = vrng_below(&r, (uint32_t)NCODERS);
	if (vrng_chance(&r, 2, 3)) mon.fail_at = 1 + vrng_below(&r, 14);
	int st = sc_reinit_after(&c, i, j);
	hx_eval();
	if (st == S_BAD) { snprintf(key, sizeof(key), "handle-unusable-after-failure|%s->%s", coders[i].name, coders[j].name); hx_violation("C10", key, idx, "%s", c.why); }
	if (mon.live_blocks) { snprintf(key, sizeof(key), "leak-after-reinit|%s->%s", coders[i].name, coders[j].name); hx_violation("C10", key, idx, "%" PRIu64 " blocks allocated", mon.live_blocks); }
	hx_distinct(vhash(hist, strlen(hist), vhash(&idx, 8, VHASH_INIT)), mon.n_failed_injected > 0 || steps > 3);
	alloc_mon_destroy(&mon);
}

/////////
// C09 //
/////////

#define ALLOWANCE(threads) ((uint64_t)(1u << 15) + 1024u * (threads))

// build a .xz/.lzma/.lz file whose header declares dictionary `dict`
static void make_file(vrng *r, int kind, uint32_t dict, unsigned nblocks, vbuf *file, vbuf *pl)
{
	vbuf_clear(file); vbuf_clear(pl);
	// dictionaries above 64 MiB are only DECLARED: the stream is encoded with 1 MiB and the header field is
	// rewritten afterwards (the decoder allocates what the header says)
	uint32_t declared = dict;
	if (dict > (64u << 20)) dict = 1u << 20;
	lzma_options_lzma o; lzma_lzma_preset(&o, 0); o.dict_size = dict; o.mf = LZMA_MF_HC3; o.depth = 4; o.nice_len = 16;
	gen_data(r, pl, 2000 + vrng_below(r, 30000), -1, 4096);
	lzma_stream s = LZMA_STREAM_INIT;
	uint8_t ob[65536];
	if (kind == 3) {
		// many tiny Blocks in 2-5 Streams with Stream Padding: the Index memory dominates (file-info decoder)
		unsigned ns = 2 + vrng_below(r, 4);
		vbuf_clear(pl);
		for (unsigned st = 0; st < ns; ++st) {
			lzma_stream e = LZMA_STREAM_INIT;
			lzma_filter f1[2] = { { LZMA_FILTER_LZMA2, &o }, { LZMA_VLI_UNKNOWN, NULL } };
			if (lzma_stream_encoder(&e, f1, LZMA_CHECK_NONE) != LZMA_OK) return;
			unsigned nb = 1500 + vrng_below(r, 3000);
			uint8_t one[4];
			for (unsigned b = 0; b < nb; ++b) {
				vrng_fill(r, one, sizeof(one)); vbuf_append(pl, one, sizeof(one));
				e.next_in = one; e.avail_in = sizeof(one); lzma_ret ret;
				do { e.next_out = ob; e.avail_out = sizeof(ob); ret = lzma_code(&e, b + 1 == nb ? LZMA_FINISH : LZMA_FULL_FLUSH); vbuf_append(file, ob, sizeof(ob) - e.avail_out); } while (ret == LZMA_OK);
			}
			lzma_end(&e);
			unsigned pad = 4 * vrng_below(r, 4); for (unsigned i = 0; i < pad; ++i) vbuf_putc(file, 0);
		}
		return;
	}
	if (kind == 4) {
		// 1-3 Streams, each from the threaded encoder (size fields: threaded decoding) or the single-threaded
		// one (no size fields: direct mode), so that the threaded decoder switches modes inside one file
		unsigned ns = 1 + vrng_below(r, 3);
		vbuf_clear(pl);
		for (unsigned st = 0; st < ns; ++st) {
			vbuf part = {0}; gen_data(r, &part, 20000 + vrng_below(r, 200000), -1, 4096);
			lzma_stream e = LZMA_STREAM_INIT; lzma_ret ret;
			// the Streams declare different dictionary sizes (mostly shrinking from Stream to Stream): a cached worker
			// of an earlier Stream is then bigger or smaller than what the next Block needs
			lzma_options_lzma o2 = o;
			if (dict <= (64u << 20) && vrng_chance(r, 2, 3)) {
				static const uint32_t ds[] = { 8u << 20, 4u << 20, 1u << 20, 256u << 10, 64u << 10 };
				unsigned k0 = vrng_below(r, 3) + st; if (k0 > 4) k0 = 4;
				o2.dict_size = vrng_chance(r, 3, 4) ? ds[k0] : ds[vrng_below(r, 5)];
			}
			lzma_filter f1[2] = { { LZMA_FILTER_LZMA2, &o2 }, { LZMA_VLI_UNKNOWN, NULL } };
			bool mtenc = (st == 0) ? vrng_chance(r, 3, 4) : vrng_chance(r, 1, 2);
			if (mtenc) { lzma_mt m = { .threads = 2, .block_size = 16384u << vrng_below(r, 3), .filters = f1, .check = LZMA_CHECK_CRC32 }; ret = lzma_stream_encoder_mt(&e, &m); }
			else ret = lzma_stream_encoder(&e, f1, LZMA_CHECK_CRC32);
			if (ret != LZMA_OK) { vbuf_free(&part); return; }
			e.next_in = part.p; e.avail_in = part.n;
			do { e.next_out = ob; e.avail_out = sizeof(ob); ret = lzma_code(&e, LZMA_FINISH); vbuf_append(file, ob, sizeof(ob) - e.avail_out); } while (ret == LZMA_OK);
			lzma_end(&e);
			vbuf_append(pl, part.p, part.n); vbuf_free(&part);
		}
		return;
	}
	if (kind == 0) {
		lzma_filter f[5]; unsigned n = 0;
		static lzma_options_delta od = { .type = LZMA_DELTA_TYPE_BYTE, .dist = 2 };
		if (vrng_chance(r, 1, 3)) { f[n].id = LZMA_FILTER_DELTA; f[n].options = &od; ++n; }
		if (vrng_chance(r, 1, 4)) { f[n].id = LZMA_FILTER_X86; f[n].options = NULL; ++n; }
		f[n].id = LZMA_FILTER_LZMA2; f[n].options = &o; ++n; f[n].id = LZMA_VLI_UNKNOWN;
		if (lzma_stream_encoder(&s, f, LZMA_CHECK_CRC32) != LZMA_OK) return;
		for (unsigned b = 0; b < nblocks; ++b) {
			size_t from = pl->n * b / nblocks, to = pl->n * (b + 1) / nblocks;
			s.next_in = pl->p + from; s.avail_in = to - from;
			lzma_action a = b + 1 == nblocks ? LZMA_FINISH : LZMA_FULL_FLUSH; lzma_ret ret;
			do { s.next_out = ob; s.avail_out = sizeof(ob); ret = lzma_code(&s, a); vbuf_append(file, ob, sizeof(ob) - s.avail_out); } while (ret == LZMA_OK);
		}
		if (declared != dict && file->n > 12 + 8) {
			// Block Header at offset 12: find the LZMA2 filter flags (ID 0x21, size 1) and rewrite the dictionary byte
			size_t hs = ((size_t)file->p[12] + 1) * 4;
			unsigned bits = 0; while (bits < 31 && (UINT64_C(1) << (bits + 1)) <= declared) ++bits;      // floor(log2)
			uint8_t code = (uint8_t)((bits - 11) * 2 - 2 + ((declared >> (bits - 1)) & 1 ? 1 : 0) + 0);
			code = (uint8_t)((bits - 12) * 2 + (((declared >> (bits - 1)) & 1) ? 1 : 0));
			if (declared == UINT32_MAX) code = 40;
			for (size_t i = 14; i + 2 < 12 + hs - 4; ++i) if (file->p[i] == 0x21 && file->p[i + 1] == 0x01) { file->p[i + 2] = code; break; }
			uint32_t crc = lzma_crc32(file->p + 12, hs - 4, 0);
			for (int i = 0; i < 4; ++i) file->p[12 + hs - 4 + (size_t)i] = (uint8_t)(crc >> (8 * i));
		}
	} else if (kind == 1) {
		if (lzma_alone_encoder(&s, &o) != LZMA_OK) return;
		s.next_in = pl->p; s.avail_in = pl->n; lzma_ret ret;
		do { s.next_out = ob; s.avail_out = sizeof(ob); ret = lzma_code(&s, LZMA_FINISH); vbuf_append(file, ob, sizeof(ob) - s.avail_out); } while (ret == LZMA_OK);
		if (declared != dict && file->n > 13) for (int i = 0; i < 4; ++i) file->p[1 + i] = (uint8_t)(declared >> (8 * i));
	} else {
		dict = declared;
		uint32_t d = dict < 4096 ? 4096 : dict; if (d > (1u << 29)) d = 1u << 29;
		// half of the .lz files: two members, the first with a much smaller dictionary than the second - the memory
		// need has to be worked out again for every member, not only for the first one
		if (pl->n >= 2 && vrng_chance(r, 1, 2)) {
			size_t h = 1 + (size_t)vrng_below64(r, pl->n - 1);
			uint32_t d1 = 4096u << vrng_below(r, 3); if (d1 > d) d1 = d;
			lzip_member(r, pl->p, h, 1, d1, file);
			lzip_member(r, pl->p + h, pl->n - h, 1, d, file);
			hx_count("lzip_two_members_growing_dict", 1);
		} else
			lzip_member(r, pl->p, pl->n, 1, d, file);
	}
	lzma_end(&s);
}

typedef struct { lzma_ret ret; vbuf out; uint64_t peak; unsigned memlimit_errors; bool resumed_ok; uint64_t reported; } limited;

static void run_limited(dec_spec *spec, const vbuf *file, alloc_mon *m, limited *L, bool raise)
{
	memset(L, 0, sizeof(*L));
	lzma_stream s = LZMA_STREAM_INIT;
	lzma_ret ret = dec_init(&s, spec, &m->a, file->p, file->n);
	if (ret != LZMA_OK) { L->ret = ret; lzma_end(&s); dec_cleanup(spec, &m->a); L->peak = m->peak_bytes; return; }
	size_t pos = spec->skip; uint8_t ob[65536];
	uint64_t calls = 0;
	for (;;) {
		size_t take = file->n - pos < 4096 ? file->n - pos : 4096;
		s.next_in = file->p + pos; s.avail_in = take; s.next_out = ob; s.avail_out = sizeof(ob);
		ret = lzma_code(&s, pos + take == file->n ? LZMA_FINISH : LZMA_RUN);
		pos += take - s.avail_in;
		vbuf_append(&L->out, ob, sizeof(ob) - s.avail_out);
		if (ret == LZMA_MEMLIMIT_ERROR) {
			++L->memlimit_errors;
			uint64_t need = lzma_memusage(&s);
			L->reported = need;
			if (!raise || L->memlimit_errors > 64) break;
			if (need == 0 || lzma_memlimit_set(&s, need) != LZMA_OK) { ret = LZMA_PROG_ERROR; break; }
			continue;
		}
		if (ret == LZMA_SEEK_NEEDED) { pos = (size_t)s.seek_pos; continue; }
		if (ret != LZMA_OK) break;
		if (++calls > 10000000) break;
	}
	L->ret = ret;
	lzma_end(&s);
	dec_cleanup(spec, &m->a);
	L->peak = m->peak_bytes;
}

// One Stream whose Blocks (built one by one with lzma_block_buffer_encode: sizes in every Block Header) declare
// different dictionary sizes, decoded by the threaded decoder under a threading limit that is just what the most
// demanding Block needs in threaded mode. The Blocks are handed over one at a time and each is drained before the
// next, so a finished worker with ITS decoder sits in the cache when the next Block starts: the cache has to be
// evicted correctly or the peak exceeds the limit although every Block fits.
static void c09_eviction_case(uint64_t idx)
{
	vrng r; vrng_init(&r, A.seed, 0xC09E, idx, 0);
	hx_case_begin(idx);
	static const uint32_t ds[] = { 16u << 20, 8u << 20, 4u << 20, 1u << 20, 256u << 10, 64u << 10 };
	unsigned nb = 2 + vrng_below(&r, 3);
	uint32_t dict[4]; unsigned k0 = vrng_below(&r, 3);
	for (unsigned i = 0; i < nb; ++i) { unsigned k = vrng_chance(&r, 3, 4) ? k0 + i + vrng_below(&r, 2) : vrng_below(&r, 6); if (k > 5) k = 5; dict[i] = ds[k]; }
	if (vrng_chance(&r, 1, 4)) { uint32_t t = dict[0]; dict[0] = dict[1]; dict[1] = t; }   // small, big, small...
	vbuf file = {0}, plainv = {0};
	lzma_stream_flags sf = { .version = 0, .check = LZMA_CHECK_CRC32 };
	uint8_t hdr[LZMA_STREAM_HEADER_SIZE];
	if (lzma_stream_header_encode(&sf, hdr) != LZMA_OK) return;
	vbuf_append(&file, hdr, sizeof(hdr));
	lzma_index *ix = lzma_index_init(NULL);
	size_t end_off[4], uncomp[4]; uint64_t limit = 0, single_max = 0;
	bool ok = ix != NULL;
	for (unsigned i = 0; i < nb && ok; ++i) {
		lzma_options_lzma o; lzma_lzma_preset(&o, 0); o.dict_size = dict[i];
		lzma_filter f[2] = { { LZMA_FILTER_LZMA2, &o }, { LZMA_VLI_UNKNOWN, NULL } };
		// Blocks with a small dictionary tend to be long (their output buffer is what competes with a cached big
		// decoder), Blocks with a big dictionary short
		size_t psz = 20000 + vrng_below(&r, 60000);
		if (vrng_chance(&r, 2, 3)) psz = dict[i] <= (1u << 20) ? (512u << 10) + vrng_below(&r, A.thorough ? (5u << 20) : (2u << 20)) : (64u << 10) + vrng_below(&r, 256u << 10);
		vbuf part = {0}; gen_data(&r, &part, psz, -1, 4096);
		lzma_block b; memset(&b, 0, sizeof(b)); b.version = 1; b.check = LZMA_CHECK_CRC32; b.filters = f;
		size_t bound = lzma_block_buffer_bound(part.n); uint8_t *ob = malloc(bound); size_t op = 0;
		if (lzma_block_buffer_encode(&b, NULL, part.p, part.n, ob, &op, bound) != LZMA_OK) ok = false;
		else {
			vbuf_append(&file, ob, op); vbuf_append(&plainv, part.p, part.n);
			ok = lzma_index_append(ix, NULL, lzma_block_unpadded_size(&b), b.uncompressed_size) == LZMA_OK;
			end_off[i] = file.n; uncomp[i] = part.n;
			uint64_t fm = lzma_raw_decoder_memusage(f);
			uint64_t m = fm + op + part.n + 4096;
			if (m > limit) limit = m;
			if (fm > single_max) single_max = fm;
		}
		free(ob); vbuf_free(&part);
	}
	if (ok) {
		size_t isz = (size_t)lzma_index_size(ix); uint8_t *ib = malloc(isz); size_t ip = 0;
		ok = lzma_index_buffer_encode(ix, ib, &ip, isz) == LZMA_OK;
		if (ok) vbuf_append(&file, ib, ip);
		free(ib);
		sf.backward_size = lzma_index_size(ix);
		uint8_t ft[LZMA_STREAM_HEADER_SIZE];
		ok = ok && lzma_stream_footer_encode(&sf, ft) == LZMA_OK;
		if (ok) vbuf_append(&file, ft, sizeof(ft));
	}
	lzma_index_end(ix, NULL);
	if (!ok) { vbuf_free(&file); vbuf_free(&plainv); hx_count("eviction_cases_skipped", 1); return; }
	limit += vrng_below(&r, 3) * 20000u;
	unsigned threads = 2 + vrng_below(&r, 3);
	alloc_mon m; alloc_mon_init(&m);
	lzma_stream s = LZMA_STREAM_INIT; s.allocator = &m.a;
	lzma_mt mt = { .flags = 0, .threads = threads, .timeout = 0, .memlimit_threading = limit, .memlimit_stop = UINT64_MAX };
	char key[160];
	if (lzma_stream_decoder_mt(&s, &mt) == LZMA_OK) {
		uint8_t *out = malloc(plainv.n + 1);
		s.next_out = out; s.avail_out = plainv.n + 1;
		lzma_ret ret = LZMA_OK; size_t in_pos = 0; uint64_t expect_out = 0;
		for (unsigned i = 0; i < nb && ret == LZMA_OK; ++i) {
			s.next_in = file.p + in_pos; s.avail_in = end_off[i] - in_pos; in_pos = end_off[i]; expect_out += uncomp[i];
			unsigned spins = 0;
			while (ret == LZMA_OK && (s.avail_in > 0 || s.total_out < expect_out)) { ret = lzma_code(&s, LZMA_RUN); if (++spins > 2000000) ret = LZMA_PROG_ERROR; }
		}
		if (ret == LZMA_OK) { s.next_in = file.p + in_pos; s.avail_in = file.n - in_pos; do ret = lzma_code(&s, LZMA_FINISH); while (ret == LZMA_OK); }
		uint64_t peak = m.peak_bytes;
		lzma_end(&s);
		hx_eval();
		if (ret != LZMA_STREAM_END || s.total_out != plainv.n || memcmp(out, plainv.p, plainv.n) != 0) {
			snprintf(key, sizeof(key), "limited-run-differs|stream_mt|block-by-block");
			hx_violation("C09", key, idx, "threaded decoder fed Block by Block ends with %s (%" PRIu64 " of %zu bytes); dictionaries %u,%u,.. threading limit %" PRIu64, lzma_ret_name(ret), (uint64_t)s.total_out, plainv.n, dict[0], dict[1], limit);
		} else if (peak > limit + ALLOWANCE(threads)) {
			snprintf(key, sizeof(key), "memlimit-threading-exceeded|stream_mt|cached-decoders");
			hx_violation("C09", key, idx, "threaded decoder peak %" PRIu64 " > memlimit_threading %" PRIu64 " (by %" PRIu64 ") although the most demanding Block needs %" PRIu64 " in one thread; %u Blocks with dictionaries %u,%u,%u,%u handed over one at a time, threads %u",
					peak, limit, peak - limit, single_max, nb, dict[0], dict[1], nb > 2 ? dict[2] : 0, nb > 3 ? dict[3] : 0, threads);
		}
		if (m.live_blocks) hx_violation("C09", "leak|stream_mt", idx, "%" PRIu64 " blocks allocated after lzma_end", m.live_blocks);
		hx_max("max_excess_over_threading_limit_eviction", peak > limit ? peak - limit : 0);
		free(out);
	} else lzma_end(&s);
	hx_count("eviction_cases", 1);
	hx_distinct(vhash(file.p, file.n, VHASH_INIT), true);
	alloc_mon_destroy(&m); vbuf_free(&file); vbuf_free(&plainv);
}

static void c09_case(uint64_t idx)
{
	if (idx % 20 == 13) { c09_eviction_case(idx); return; }
	vrng r; vrng_init(&r, A.seed, 0xC09, idx, 0);
	hx_case_begin(idx);
	char key[200];
	unsigned which = vrng_below(&r, 10);
	if (which < 6 && vrng_chance(&r, 1, 12)) {
		// ---- headers declaring 2 GiB .. 4 GiB - 1 (the format's maximum): never allocated here; every limit below
		// the dictionary size must give LZMA_MEMLIMIT_ERROR, report at least the dictionary size, and no single
		// allocation request may exceed the limit ----
		static const uint32_t huge[] = { 0x80000000u, 0xC0000000u, 0xFFFFFFFFu, 0xFFFFFFFFu };
		uint32_t dict = huge[vrng_below(&r, 4)];
		int kind = vrng_chance(&r, 2, 3) ? 0 : 1;
		vbuf file = {0}, pl = {0};
		make_file(&r, kind, dict, 1, &file, &pl);
		static const int dk_xz[] = { D_STREAM, D_STREAM_MT, D_AUTO };
		int dk = kind == 0 ? dk_xz[vrng_below(&r, 3)] : (vrng_chance(&r, 1, 2) ? D_ALONE : D_AUTO);
		static const uint64_t lims[] = { 1, 1u << 20, 64u << 20, 1u << 30, 0x7FFFFFFFu };
		for (unsigned li = 0; li < 5; ++li) {
			dec_spec sp; dec_spec_for(&sp, dk, NULL); sp.file_size = file.n; sp.threads = 1 + vrng_below(&r, 4);
			sp.memlimit = lims[li];
			if (dk == D_STREAM_MT) sp.memlimit_threading = vrng_chance(&r, 1, 2) ? lims[li] : UINT64_MAX;
			alloc_mon m; alloc_mon_init(&m);
			uint64_t allow = ALLOWANCE(dk == D_STREAM_MT ? sp.threads : 1);
			m.huge_limit = lims[li] + allow;    // a request above this is refused by the allocator and counted
			limited L; run_limited(&sp, &file, &m, &L, false);
			hx_eval();
			if (m.n_failed_huge) { snprintf(key, sizeof(key), "memlimit-exceeded|%s|declared-huge", d_names[dk]); hx_violation("C09", key, idx, "decoder asked the allocator for more than the limit %" PRIu64 " (+%" PRIu64 ") in one request; header declares a %u byte dictionary; status %s, lzma_memusage %" PRIu64, lims[li], allow, dict, lzma_ret_name(L.ret), L.reported); }
			else if (L.peak > lims[li] + allow) { snprintf(key, sizeof(key), "memlimit-exceeded|%s|declared-huge", d_names[dk]); hx_violation("C09", key, idx, "peak %" PRIu64 " with limit %" PRIu64 "; declared dictionary %u", L.peak, lims[li], dict); }
			else if (L.ret != LZMA_MEMLIMIT_ERROR) { snprintf(key, sizeof(key), "no-memlimit-error|%s|declared-huge", d_names[dk]); hx_violation("C09", key, idx, "limit %" PRIu64 " with a declared dictionary of %u bytes: decoder returned %s", lims[li], dict, lzma_ret_name(L.ret)); }
			else if (L.reported < dict) { snprintf(key, sizeof(key), "memusage-below-need|%s|declared-huge", d_names[dk]); hx_violation("C09", key, idx, "after LZMA_MEMLIMIT_ERROR lzma_memusage() = %" PRIu64 " < declared dictionary %u", L.reported, dict); }
			if (m.live_blocks) { snprintf(key, sizeof(key), "leak|%s", d_names[dk]); hx_violation("C09", key, idx, "%" PRIu64 " blocks allocated after lzma_end", m.live_blocks); }
			vbuf_free(&L.out); alloc_mon_destroy(&m);
		}
		hx_count("declared_huge_dictionary_cases", 1);
		hx_distinct(vhash(file.p, file.n, vhash(&dk, sizeof(dk), VHASH_INIT)), true);
		vbuf_free(&file); vbuf_free(&pl);
	} else if (which < 6) {
		// ---- decoders under a memory limit ----
		static const uint32_t dicts[] = { 4096, 8192, 65536, 1u << 20, 3u << 20, 8u << 20, 24u << 20, 64u << 20 };
		uint32_t dict = dicts[vrng_below(&r, A.thorough ? 8 : 7)];
		if (A.thorough && vrng_chance(&r, 1, 30)) dict = vrng_chance(&r, 1, 2) ? (256u << 20) : (1536u << 20);
		int kind = vrng_below(&r, 10) < 6 ? 0 : (vrng_chance(&r, 1, 2) ? 1 : 2);
		unsigned nblocks = kind == 0 ? 1 + vrng_below(&r, vrng_chance(&r, 1, 4) ? 30 : 3) : 1;
		vbuf file = {0}, pl = {0}; bool mixed = false;
		make_file(&r, kind, dict, nblocks, &file, &pl);
		static const int dk_xz[] = { D_STREAM, D_STREAM_MT, D_AUTO, D_FILE_INFO };
		int dk = kind == 0 ? dk_xz[vrng_below(&r, 4)] : (kind == 1 ? (vrng_chance(&r, 1, 2) ? D_ALONE : D_AUTO) : (vrng_chance(&r, 1, 2) ? D_LZIP : D_AUTO));
		// special file shapes for the two decoders whose accounting spans several Streams / modes
		if (kind == 0 && dk == D_FILE_INFO && vrng_chance(&r, 2, 3)) { make_file(&r, 3, 4096, 0, &file, &pl); hx_count("file_info_many_block_files", 1); }
		if (kind == 0 && dk == D_STREAM_MT && vrng_chance(&r, 2, 3)) { make_file(&r, 4, dict, 0, &file, &pl); mixed = true; hx_count("mt_mixed_mode_files", 1); }
dec_spec spec; dec_spec_for(&spec, dk, NULL); spec.file_size = file.n;
		if (mixed || kind != 0 || dk == D_FILE_INFO) spec.flags |= (dk == D_STREAM || dk == D_STREAM_MT || dk == D_AUTO || dk == D_LZIP) ? LZMA_CONCATENATED : 0;
		spec.threads = 1 + vrng_below(&r, 4);
		// unlimited reference run
		alloc_mon m0; alloc_mon_init(&m0);
		limited U; run_limited(&spec, &file, &m0, &U, false);
		uint64_t need = U.peak;   // what the decoder really allocated when unlimited
		hx_eval();
		if (U.ret != LZMA_STREAM_END) { snprintf(key, sizeof(key), "unlimited-decode-failed|%s", d_names[dk]); hx_violation("C09", key, idx, "returned %s (dict %u)", lzma_ret_name(U.ret), dict); vbuf_free(&U.out); alloc_mon_destroy(&m0); vbuf_free(&file); vbuf_free(&pl); return; }
		alloc_mon_destroy(&m0);
		// limits around the need
		uint64_t lims[14]; unsigned nl = 0;
		uint64_t st_need = 0; unsigned first_threading_only = 99;
		if (dk == D_STREAM_MT) {
			// threading limits just above what ONE thread needs for the whole file: every Block fits, cached decoders
			// and buffers of earlier Blocks have to go
			dec_spec st0; dec_spec_for(&st0, D_STREAM, NULL); st0.flags = spec.flags;
			alloc_mon ms0; alloc_mon_init(&ms0); limited S0; run_limited(&st0, &file, &ms0, &S0, false);
			st_need = S0.peak; vbuf_free(&S0.out); alloc_mon_destroy(&ms0);
			first_threading_only = nl;
			static const uint32_t above[] = { 0, 70000, 300000, 700000, 1200000 };
			for (unsigned k = 0; k < 5; ++k) lims[nl++] = st_need + above[k] + vrng_below(&r, 30000);
		}
		const unsigned last_threading_only = nl;
		lims[nl++] = 1; lims[nl++] = need / 2 + 1; lims[nl++] = need > 70000 ? need - 40000 : 1; lims[nl++] = need; lims[nl++] = need + 1; lims[nl++] = need + (1u << 16); lims[nl++] = UINT64_MAX / 2;
		lims[nl++] = 1 + vrng_below64(&r, need + 100000);
		for (unsigned li = 0; li < nl; ++li) {
			uint64_t lim = lims[li];
			dec_spec sp = spec;
			sp.memlimit = lim;
			if (dk == D_STREAM_MT) { sp.memlimit_threading = vrng_chance(&r, 1, 2) ? lim : UINT64_MAX; if (vrng_chance(&r, 1, 3)) { sp.memlimit_threading = lim; sp.memlimit = UINT64_MAX; } }
			if (li >= first_threading_only && li < last_threading_only) { sp.memlimit_threading = lim; sp.memlimit = UINT64_MAX; hx_count("mt_limit_just_above_st_need", 1); }
			alloc_mon m; alloc_mon_init(&m);
			limited L; run_limited(&sp, &file, &m, &L, true);
			hx_eval();
			uint64_t allow = ALLOWANCE(dk == D_STREAM_MT ? sp.threads : 1);
			uint64_t hard = sp.memlimit;
			// peak must stay under the hard limit in force at the time; after raising, the raised value counts
			uint64_t eff = hard;
			if (L.memlimit_errors && L.reported > eff) eff = L.reported;
			if (eff != UINT64_MAX && eff < UINT64_MAX / 4 && L.peak > eff + allow) {
				snprintf(key, sizeof(key), "memlimit-exceeded|%s", d_names[dk]);
				hx_violation("C09", key, idx, "peak allocation %" PRIu64 " bytes with limit %" PRIu64 " (raised to %" PRIu64 "), allowance %" PRIu64 "; dict %u, %u blocks", L.peak, hard, L.reported, allow, dict, nblocks);
			}
			if (dk == D_STREAM_MT && sp.memlimit_threading != UINT64_MAX && sp.memlimit == UINT64_MAX) {
				// single-thread need = what lzma_stream_decoder used (approximated by `need` of an ST run below)
				dec_spec st; dec_spec_for(&st, D_STREAM, NULL); st.flags = sp.flags;   // (all Streams, like the threaded run)
				alloc_mon ms; alloc_mon_init(&ms); limited S; run_limited(&st, &file, &ms, &S, false);
				if (S.peak <= sp.memlimit_threading && L.peak > sp.memlimit_threading + allow) {
					snprintf(key, sizeof(key), "memlimit-threading-exceeded|stream_mt");
					hx_violation("C09", key, idx, "threaded decoder peak %" PRIu64 " > memlimit_threading %" PRIu64 " although one thread needs only %" PRIu64 "; threads %u dict %u blocks %u", L.peak, sp.memlimit_threading, S.peak, sp.threads, dict, nblocks);
				}
				hx_max("max_excess_over_threading_limit", L.peak > sp.memlimit_threading ? L.peak - sp.memlimit_threading : 0);
				vbuf_free(&S.out); alloc_mon_destroy(&ms);
			}
			if (eff != UINT64_MAX && eff < UINT64_MAX / 4 && L.peak > eff) hx_max("max_excess_over_limit", L.peak - eff);
			if (L.memlimit_errors) {
				hx_count("memlimit_errors_seen", 1);
				{ char nm[64]; snprintf(nm, sizeof(nm), "memlimit_resume_%s", d_names[dk]); hx_count(nm, 1); }
				if (L.reported == 0) { snprintf(key, sizeof(key), "memusage-not-reported|%s", d_names[dk]); hx_violation("C09", key, idx, "lzma_memusage() returned 0 after LZMA_MEMLIMIT_ERROR"); }
			}
			if (L.ret != LZMA_STREAM_END) {
				snprintf(key, sizeof(key), "raise-and-resume-failed|%s", d_names[dk]);
				hx_violation("C09", key, idx, "limit %" PRIu64 ": after raising the limit to the reported %" PRIu64 " the decode ends with %s (%u MEMLIMIT_ERRORs); dict %u blocks %u", lim, L.reported, lzma_ret_name(L.ret), L.memlimit_errors, dict, nblocks);
			} else if (L.out.n != U.out.n || (U.out.n && memcmp(L.out.p, U.out.p, U.out.n))) {
				snprintf(key, sizeof(key), "limited-run-differs|%s", d_names[dk]);
				hx_violation("C09", key, idx, "limit %" PRIu64 ": output differs from the unlimited run (%zu vs %zu bytes)", lim, L.out.n, U.out.n);
			}
			if (m.live_blocks) { snprintf(key, sizeof(key), "leak|%s", d_names[dk]); hx_violation("C09", key, idx, "%" PRIu64 " blocks allocated after lzma_end", m.live_blocks); }
			vbuf_free(&L.out); alloc_mon_destroy(&m);
		}
		{ char nm[64]; snprintf(nm, sizeof(nm), "limited_%s", d_names[dk]); hx_count(nm, 1); }
		hx_sample("c09 limit sweep: decoder %s, file kind %d, dict %u, %u blocks, unlimited peak %" PRIu64, d_names[dk], kind, dict, nblocks, need);
		hx_distinct(vhash(file.p, file.n, vhash(&dk, sizeof(dk), VHASH_INIT)), true);
		vbuf_free(&U.out); vbuf_free(&file); vbuf_free(&pl);
	} else {
		// ---- estimates are upper bounds ----
		vcfg cfg; unsigned t = vrng_below(&r, 5);
		uint32_t maxd = A.thorough ? (64u << 20) : (8u << 20);
		gen_cfg(&r, &cfg, t == 1 ? 0 : (VCFG_XZ | (t == 0 ? VCFG_ALLOW_LZMA1 : 0)), maxd);
		vbuf pl = {0}; gen_data(&r, &pl, 20000 + vrng_below(&r, 100000), -1, cfg.lzma.dict_size);
		alloc_mon m; alloc_mon_init(&m);
		lzma_stream s = LZMA_STREAM_INIT; s.allocator = &m.a;
		uint64_t est = 0; lzma_ret ret; const char *what;
		uint32_t preset = vrng_below(&r, A.thorough ? 10 : 7) | (vrng_chance(&r, 1, 3) ? LZMA_PRESET_EXTREME : 0);
		uint32_t threads = 1 + vrng_below(&r, 4);
		lzma_mt mt = { .threads = threads, .block_size = 4096u << vrng_below(&r, 8), .preset = preset & 7, .check = LZMA_CHECK_CRC64, .filters = vrng_chance(&r, 1, 2) ? cfg.filters : NULL };
		if (mt.filters && cfg.filters[cfg.nfilters - 1].id != LZMA_FILTER_LZMA2) mt.filters = NULL;
		vbuf comp = {0};
		// a third of the encoder cases: the handle had a first life as a much bigger encoder of the same kind (8 MiB
		// dictionary, bt4) and is initialised again without lzma_end(); what it holds afterwards is still bounded by
		// the estimate for the new settings
		bool second_life = t <= 2 && vrng_chance(&r, 1, 3);
		if (second_life) {
			lzma_options_lzma big; lzma_lzma_preset(&big, 6);
			lzma_filter bf[2] = { { LZMA_FILTER_LZMA2, &big }, { LZMA_VLI_UNKNOWN, NULL } };
			lzma_mt mtbig = { .threads = 2, .block_size = 1u << 20, .preset = 6, .check = LZMA_CHECK_CRC32 };
			lzma_ret fr = t == 0 ? lzma_raw_encoder(&s, bf) : (t == 1 ? lzma_easy_encoder(&s, 6, LZMA_CHECK_CRC64) : lzma_stream_encoder_mt(&s, &mtbig));
			if (fr == LZMA_OK) {
				uint8_t ob[8192]; size_t n1 = pl.n < 12000 ? pl.n : 12000;
				s.next_in = pl.p; s.avail_in = n1;
				for (int it = 0; it < 64 && s.avail_in; ++it) { s.next_out = ob; s.avail_out = sizeof(ob); if (lzma_code(&s, LZMA_RUN) != LZMA_OK) break; }
				s.next_in = NULL; s.avail_in = 0; s.next_out = NULL; s.avail_out = 0;
			}
			hx_count("estimate_second_life_cases", 1);
		}
		switch (t) {
		case 0: what = "raw_encoder"; est = lzma_raw_encoder_memusage(cfg.filters); ret = lzma_raw_encoder(&s, cfg.filters); break;
		case 1: what = "easy_encoder"; est = lzma_easy_encoder_memusage(preset); ret = lzma_easy_encoder(&s, preset, LZMA_CHECK_CRC32); break;
		case 2: what = "stream_encoder_mt"; est = lzma_stream_encoder_mt_memusage(&mt); ret = lzma_stream_encoder_mt(&s, &mt); break;
		default: what = t == 3 ? "raw_decoder" : "easy_decoder"; ret = LZMA_OK; break;
		}
		if (t <= 2) {
			if (ret != LZMA_OK || est == UINT64_MAX) { lzma_end(&s); hx_count("estimate_cases_skipped", 1); goto est_done; }
			if (second_life) alloc_mon_reset_peak(&m);   // from here on: what the re-initialised encoder holds and allocates
			sc c; memset(&c, 0, sizeof(c)); c.m = &m; c.r = &r;
			int st = pump(&c, &s, pl.p, pl.n, &comp, false);
			lzma_end(&s);
			if (st != S_OK) { snprintf(key, sizeof(key), "estimate-run-failed|%s", what); hx_violation("C09", key, idx, "%s", c.why); goto est_done; }
			if (m.peak_bytes > est) {
				snprintf(key, sizeof(key), "estimate-below-allocation|%s", what);
				hx_violation("C09", key, idx, "%s_memusage = %" PRIu64 " but peak allocation was %" PRIu64 " bytes%s; cfg=%s preset=%u threads=%u block_size=%" PRIu64, what, est, m.peak_bytes, second_life ? " (handle re-initialised after a first life as a preset-6 encoder)" : "", cfg.desc, preset, threads, (uint64_t)mt.block_size);
			}
			hx_max("max_peak_to_estimate_permille", est ? m.peak_bytes * 1000 / est : 0);
		} else {
			// encode with the default allocator, then decode monitored
			lzma_stream e = LZMA_STREAM_INIT; uint8_t ob[65536];
			ret = t == 3 ? lzma_raw_encoder(&e, cfg.filters) : lzma_easy_encoder(&e, preset, LZMA_CHECK_CRC32);
			if (ret == LZMA_OK) { e.next_in = pl.p; e.avail_in = pl.n; do { e.next_out = ob; e.avail_out = sizeof(ob); ret = lzma_code(&e, LZMA_FINISH); vbuf_append(&comp, ob, sizeof(ob) - e.avail_out); } while (ret == LZMA_OK); }
			lzma_end(&e);
			if (ret != LZMA_STREAM_END) { hx_count("estimate_cases_skipped", 1); goto est_done; }
			est = t == 3 ? lzma_raw_decoder_memusage(cfg.filters) : lzma_easy_decoder_memusage(preset);
			ret = t == 3 ? lzma_raw_decoder(&s, cfg.filters) : lzma_stream_decoder(&s, UINT64_MAX, 0);
			if (ret != LZMA_OK || est == UINT64_MAX) { lzma_end(&s); hx_count("estimate_cases_skipped", 1); goto est_done; }
			sc c; memset(&c, 0, sizeof(c)); c.m = &m; c.r = &r; vbuf dec = {0};
			int st = pump(&c, &s, comp.p, comp.n, &dec, false);
			lzma_end(&s); vbuf_free(&dec);
			if (st != S_OK) { snprintf(key, sizeof(key), "estimate-run-failed|%s", what); hx_violation("C09", key, idx, "%s", c.why); goto est_done; }
			if (m.peak_bytes > est) {
				snprintf(key, sizeof(key), "estimate-below-allocation|%s", what);
				hx_violation("C09", key, idx, "%s_memusage = %" PRIu64 " but peak allocation was %" PRIu64 " bytes; cfg=%s preset=%u", what, est, m.peak_bytes, cfg.desc, preset);
			}
			hx_max("max_peak_to_estimate_permille", est ? m.peak_bytes * 1000 / est : 0);
		}
		{ char nm[64]; snprintf(nm, sizeof(nm), "estimate_%s", what); hx_count(nm, 1); }
		hx_sample("c09 estimate: %s estimate %" PRIu64 " measured peak %" PRIu64 " cfg=%s", what, est, m.peak_bytes, cfg.desc);
		hx_eval();
		hx_distinct(vhash(cfg.desc, strlen(cfg.desc), vhash(&t, sizeof(t), vhash(&preset, 4, VHASH_INIT))), true);
est_done:
		vbuf_free(&comp); vbuf_free(&pl); alloc_mon_destroy(&m); vcfg_free(&cfg);
	}
}

int main(int argc, char **argv)
{
	hx_parse(argc, argv, &A);
	uint64_t idx = UINT64_MAX;
	while (hx_next_case(&A, &idx)) {
		if (!strcmp(A.mode, "c09")) c09_case(idx);
		else if (!strcmp(A.mode, "c10h")) c10h_case(idx);
		else c10_case(idx);
	}
	vcfg_free(&rawcfg); vcfg_free(&blockcfg);
	vbuf_free(&plain); vbuf_free(&xz1); vbuf_free(&xzmulti); vbuf_free(&alone1); vbuf_free(&lzip1); vbuf_free(&raw1); vbuf_free(&block1);
	hx_finish();
	return 0;
}
