#define _GNU_SOURCE
#include "sched.h"
#include <pthread.h>
#include <semaphore.h>
#include <sched.h>
#include <time.h>
#include <errno.h>
#include <stdio.h>
#include <stdlib.h>
#include <string.h>
#include <unistd.h>

// real functions (the linker's --wrap provides these names)
int __real_pthread_mutex_lock(pthread_mutex_t *);
int __real_pthread_mutex_unlock(pthread_mutex_t *);
int __real_pthread_mutex_init(pthread_mutex_t *, const pthread_mutexattr_t *);
int __real_pthread_mutex_destroy(pthread_mutex_t *);
int __real_pthread_cond_init(pthread_cond_t *, const pthread_condattr_t *);
int __real_pthread_cond_destroy(pthread_cond_t *);
int __real_pthread_cond_wait(pthread_cond_t *, pthread_mutex_t *);
int __real_pthread_cond_timedwait(pthread_cond_t *, pthread_mutex_t *, const struct timespec *);
int __real_pthread_cond_signal(pthread_cond_t *);
int __real_pthread_cond_broadcast(pthread_cond_t *);
int __real_pthread_create(pthread_t *, const pthread_attr_t *, void *(*)(void *), void *);
int __real_pthread_join(pthread_t, void **);

static int g_mode = SCHED_OFF;
static int g_policy = SP_UNIFORM;
static uint64_t g_seed;

static uint64_t mix(uint64_t x) { x += 0x9e3779b97f4a7c15ull; x = (x ^ (x >> 30)) * 0xbf58476d1ce4e5b9ull; x = (x ^ (x >> 27)) * 0x94d049bb133111ebull; return x ^ (x >> 31); }

///////////
// chaos //
///////////
// Perturbation only: no shared bookkeeping, so that no happens-before edge
// is added that could hide a race from ThreadSanitizer.

static unsigned chaos_thread_ctr;            // relaxed atomic
static __thread uint64_t tl_rng;
static __thread int tl_rng_init;
static unsigned c_p_yield, c_p_sleep, c_max_sleep_us;   // per-run policy (per 1024)
static unsigned c_bias_kind;                             // 0 none, 1 after-unlock, 2 before-signal, 3 before-wait, 4 starve-main, 5 starve-workers
static pthread_t c_main_thread;

static uint64_t chaos_rand(void)
{
	if (!tl_rng_init) { unsigned id = __atomic_fetch_add(&chaos_thread_ctr, 1, __ATOMIC_RELAXED); tl_rng = mix(g_seed ^ ((uint64_t)id << 32) ^ 0xC4A05); tl_rng_init = 1; }
	tl_rng = mix(tl_rng);
	return tl_rng;
}

enum { K_LOCK, K_UNLOCK_AFTER, K_SIGNAL, K_WAIT, K_CREATE, K_OTHER };

static void chaos_point(int kind)
{
	uint64_t x = chaos_rand();
	unsigned py = c_p_yield, ps = c_p_sleep;
	bool is_main = pthread_equal(pthread_self(), c_main_thread);
	if ((c_bias_kind == 1 && kind == K_UNLOCK_AFTER) || (c_bias_kind == 2 && kind == K_SIGNAL) || (c_bias_kind == 3 && kind == K_WAIT)) { py *= 4; ps *= 8; }
	if ((c_bias_kind == 4 && is_main) || (c_bias_kind == 5 && !is_main)) { ps *= 6; py *= 2; }
	unsigned v = (unsigned)(x & 1023);
	if (v < ps) {
		struct timespec ts = { 0, (long)(1000 * (1 + (x >> 20) % (c_max_sleep_us ? c_max_sleep_us : 1))) };
		nanosleep(&ts, NULL);
	} else if (v < ps + py) sched_yield();
}

////////////
// serial //
////////////

#define MAXT 64
#define MAXOBJ 512
enum { T_FREE, T_RUN, T_WAIT_MUTEX, T_WAIT_COND, T_WAIT_COND_TIMED, T_WAIT_JOIN, T_DONE };

typedef struct {
	int state;
	sem_t sem;
	pthread_t real;
	void *(*fn)(void *); void *arg; void *ret;
	const void *obj;          // mutex / cond waited for
	const void *cond_mutex;   // mutex to re-acquire after a cond wait
	int join_target;
	bool timed_out;           // result of the last timed wait
	bool joined;
	int prio;                 // PCT
	const char *opname;
} sthread;

static sthread T[MAXT];
static int nthreads;             // slots used (slot 0 = main)
static int cur;                  // running thread
static struct { const void *addr; int owner; unsigned ord; } M[MAXOBJ];
static struct { const void *addr; unsigned ord; } C[MAXOBJ];
static unsigned nM, nC, ordM, ordC;
static uint64_t s_rng;
static sched_stats S;
static uint64_t step_limit = 2000000;
static uint64_t pct_change[4]; static int pct_d; static int starve_victim = -1;
static pthread_mutex_t G = PTHREAD_MUTEX_INITIALIZER;   // protects the model during hand-over only
static __thread int tl_tid = -1;

static uint64_t srand64(void) { s_rng = mix(s_rng); return s_rng; }

static int mfind(const void *a) { for (unsigned i = 0; i < nM; ++i) if (M[i].addr == a) return (int)i; if (nM < MAXOBJ) { M[nM].addr = a; M[nM].owner = -1; M[nM].ord = ordM++; return (int)nM++; } return 0; }
static unsigned cord(const void *a) { for (unsigned i = 0; i < nC; ++i) if (C[i].addr == a) return C[i].ord; if (nC < MAXOBJ) { C[nC].addr = a; C[nC].ord = ordC++; return C[nC++].ord; } return 0; }

static int self(void) { return tl_tid < 0 ? 0 : tl_tid; }

static bool enabled(int t)
{
	switch (T[t].state) {
	case T_RUN: return true;
	case T_WAIT_MUTEX: return M[mfind(T[t].obj)].owner < 0;
	case T_WAIT_COND_TIMED: return true;      // waking = time-out (scheduler's choice)
	case T_WAIT_JOIN: return T[T[t].join_target].state == T_DONE;
	default: return false;
	}
}

static void report_deadlock(void)
{
	S.deadlock = true;
	size_t w = 0;
	w += (size_t)snprintf(S.deadlock_report + w, sizeof(S.deadlock_report) - w, "no enabled thread after %llu steps:", (unsigned long long)S.steps);
	for (int t = 0; t < nthreads && w < sizeof(S.deadlock_report) - 120; ++t) {
		static const char *const sn[] = { "free", "run", "wait-mutex", "wait-cond", "wait-cond-timed", "wait-join", "done" };
		w += (size_t)snprintf(S.deadlock_report + w, sizeof(S.deadlock_report) - w, " [T%d %s", t, sn[T[t].state]);
		if (T[t].state == T_WAIT_MUTEX) { int m = mfind(T[t].obj); w += (size_t)snprintf(S.deadlock_report + w, sizeof(S.deadlock_report) - w, " mutex#%u owned by T%d", M[m].ord, M[m].owner); }
		if (T[t].state == T_WAIT_COND) w += (size_t)snprintf(S.deadlock_report + w, sizeof(S.deadlock_report) - w, " cond#%u", cord(T[t].obj));
		if (T[t].state == T_WAIT_JOIN) w += (size_t)snprintf(S.deadlock_report + w, sizeof(S.deadlock_report) - w, " T%d", T[t].join_target);
		w += (size_t)snprintf(S.deadlock_report + w, sizeof(S.deadlock_report) - w, " in %s]", T[t].opname ? T[t].opname : "?");
	}
}

// Choose the next thread. Returns -1 on deadlock.
static int pick(void)
{
	int en[MAXT]; int n = 0; int timed_only = 0;
	for (int t = 0; t < nthreads; ++t) if (T[t].state != T_FREE && T[t].state != T_DONE && enabled(t)) en[n++] = t;
	if ((unsigned)n > S.max_runnable) S.max_runnable = (unsigned)n;
	if (n == 0) return -1;
	// time-outs: rare while others can run, certain otherwise
	int nn = 0; int cand[MAXT];
	for (int i = 0; i < n; ++i) if (T[en[i]].state != T_WAIT_COND_TIMED) cand[nn++] = en[i];
	if (nn == 0) { timed_only = 1; memcpy(cand, en, sizeof(int) * (size_t)n); nn = n; }
	else if ((srand64() & 63) == 0) { memcpy(cand, en, sizeof(int) * (size_t)n); nn = n; }
	(void)timed_only;
	int choice;
	if (g_policy == SP_PCT) {
		for (int k = 0; k < pct_d; ++k) if (S.steps == pct_change[k]) T[cur].prio = -(int)(k + 1);
		choice = cand[0];
		for (int i = 1; i < nn; ++i) if (T[cand[i]].prio > T[choice].prio) choice = cand[i];
	} else if (g_policy == SP_STARVE && starve_victim >= 0) {
		int others[MAXT], no = 0;
		for (int i = 0; i < nn; ++i) if (cand[i] != starve_victim) others[no++] = cand[i];
		if (no > 0 && (srand64() & 127) != 0) choice = others[srand64() % (uint64_t)no]; else choice = cand[srand64() % (uint64_t)nn];
	} else choice = cand[srand64() % (uint64_t)nn];
	return choice;
}

// Give the processor to thread `next` (already chosen) and wait until we are
// scheduled again. Caller holds the baton.
static void hand_over(int me, int next)
{
	if (next == me) return;
	++S.switches;
	cur = next;
	sem_post(&T[next].sem);
	while (sem_wait(&T[me].sem) != 0 && errno == EINTR) {}
}

// A thread that was picked while waiting completes its wait here.
static void complete_wait(int t)
{
	if (T[t].state == T_WAIT_MUTEX) { int m = mfind(T[t].obj); M[m].owner = t; T[t].state = T_RUN; }
	else if (T[t].state == T_WAIT_COND_TIMED) {
		// woken by time-out: must still re-acquire the mutex
		++S.timeouts_fired; T[t].timed_out = true;
		T[t].obj = T[t].cond_mutex;
		int m = mfind(T[t].obj);
		if (M[m].owner < 0) { M[m].owner = t; T[t].state = T_RUN; } else T[t].state = T_WAIT_MUTEX;
	}
	else if (T[t].state == T_WAIT_JOIN) T[t].state = T_RUN;
}

// Scheduling point: the calling thread has set its own state; choose who
// runs next and switch. Returns false on deadlock/step limit (the caller
// then just proceeds - the harness will abort the run).
static bool yield_point(const char *opname, const void *obj, unsigned ord)
{
	int me = self();
	T[me].opname = opname;
	++S.steps;
	S.schedule_hash = mix(S.schedule_hash ^ ((uint64_t)me << 48) ^ ((uint64_t)(uintptr_t)opname << 8) ^ ord);
	(void)obj;
	if (S.steps > step_limit) { S.step_limit = true; }
	for (;;) {
		int next = pick();
		if (next < 0) {
			if (!S.deadlock) report_deadlock();
			fprintf(stderr, "SCHED-DEADLOCK %s\n", S.deadlock_report);
			fflush(stderr);
			_exit(86);
		}
		if (next != me) {
			// the chosen thread may need several picks (timed-out waiter that
			// cannot get its mutex yet): complete its wait; if it is still
			// blocked choose again
			complete_wait(next);
			if (T[next].state != T_RUN) continue;
			hand_over(me, next);
			// we are running again: our own wait was completed by whoever picked us
			return true;
		} else {
			complete_wait(me);
			if (T[me].state != T_RUN) continue;
			return true;
		}
	}
}

static void *trampoline(void *arg)
{
	int t = (int)(intptr_t)arg;
	tl_tid = t;
	while (sem_wait(&T[t].sem) != 0 && errno == EINTR) {}
	T[t].ret = T[t].fn(T[t].arg);
	// thread exit: pass the baton on
	T[t].state = T_DONE;
	T[t].opname = "exit";
	++S.steps;
	for (;;) {
		int next = pick();
		if (next < 0) {
			bool all_done = true;
			for (int i = 0; i < nthreads; ++i) if (T[i].state != T_DONE && T[i].state != T_FREE) all_done = false;
			if (all_done) break;   // cannot happen: main is never done
			report_deadlock(); fprintf(stderr, "SCHED-DEADLOCK %s\n", S.deadlock_report); fflush(stderr); _exit(86);
		}
		complete_wait(next);
		if (T[next].state != T_RUN) continue;
		cur = next; ++S.switches;
		sem_post(&T[next].sem);
		break;
	}
	return NULL;
}

void sched_configure(int mode, uint64_t seed, int policy)
{
	g_mode = mode; g_seed = seed; g_policy = policy;
	c_main_thread = pthread_self();
	uint64_t x = mix(seed ^ 0x5C4ED);
	static const unsigned py[] = { 0, 8, 40, 150, 400 }, ps[] = { 0, 2, 10, 40, 120 }, ms[] = { 5, 50, 200, 500 };
	c_p_yield = py[x % 5]; c_p_sleep = ps[(x >> 8) % 5]; c_max_sleep_us = ms[(x >> 16) % 4]; c_bias_kind = (unsigned)((x >> 24) % 6);
	__atomic_store_n(&chaos_thread_ctr, 0, __ATOMIC_RELAXED);
	tl_rng_init = 0;
	if (mode == SCHED_SERIAL) sched_run_begin();
}

void sched_set_step_limit(uint64_t steps) { step_limit = steps; }

void sched_run_begin(void)
{
	// all worker threads of the previous run are joined: reset the model
	for (int t = 1; t < nthreads; ++t) if (T[t].state != T_FREE) { sem_destroy(&T[t].sem); T[t].state = T_FREE; }
	if (T[0].state == T_FREE) sem_init(&T[0].sem, 0, 0);
	T[0].state = T_RUN; T[0].prio = 0;
	nthreads = 1; cur = 0; tl_tid = 0;
	nM = nC = 0; ordM = ordC = 0;
	memset(&S, 0, sizeof(S));
	s_rng = mix(g_seed ^ 0x5E21A1);
	pct_d = 1 + (int)(srand64() % 4);
	for (int k = 0; k < pct_d; ++k) pct_change[k] = 1 + srand64() % 4000;
	T[0].prio = (int)(srand64() % 1000);
	starve_victim = (int)(srand64() % 5);
}

void sched_get_stats(sched_stats *st) { *st = S; st->threads_created = (unsigned)(nthreads - 1); }

//////////////
// wrappers //
//////////////

int __wrap_pthread_mutex_init(pthread_mutex_t *m, const pthread_mutexattr_t *a)
{
	if (g_mode == SCHED_SERIAL) { __real_pthread_mutex_init(m, a); int i = mfind(m); M[i].owner = -1; return 0; }
	return __real_pthread_mutex_init(m, a);
}

int __wrap_pthread_mutex_destroy(pthread_mutex_t *m)
{
	if (g_mode == SCHED_SERIAL) { for (unsigned i = 0; i < nM; ++i) if (M[i].addr == m) { M[i] = M[nM - 1]; --nM; break; } return __real_pthread_mutex_destroy(m); }
	return __real_pthread_mutex_destroy(m);
}

int __wrap_pthread_mutex_lock(pthread_mutex_t *m)
{
	if (g_mode == SCHED_SERIAL) {
		int me = self(); int i = mfind(m);
		T[me].obj = m; T[me].state = T_WAIT_MUTEX;   // "about to lock": completed when picked with the mutex free
		yield_point("mutex_lock", m, M[i].ord);
		return 0;
	}
	if (g_mode == SCHED_CHAOS) chaos_point(K_LOCK);
	return __real_pthread_mutex_lock(m);
}

int __wrap_pthread_mutex_unlock(pthread_mutex_t *m)
{
	if (g_mode == SCHED_SERIAL) {
		int i = mfind(m);
		M[i].owner = -1;
		yield_point("mutex_unlock", m, M[i].ord);
		return 0;
	}
	int r = __real_pthread_mutex_unlock(m);
	if (g_mode == SCHED_CHAOS) chaos_point(K_UNLOCK_AFTER);
	return r;
}

int __wrap_pthread_cond_init(pthread_cond_t *c, const pthread_condattr_t *a)
{
	if (g_mode == SCHED_SERIAL) (void)cord(c);
	return __real_pthread_cond_init(c, a);
}

int __wrap_pthread_cond_destroy(pthread_cond_t *c)
{
	if (g_mode == SCHED_SERIAL) { for (unsigned i = 0; i < nC; ++i) if (C[i].addr == c) { C[i] = C[nC - 1]; --nC; break; } }
	return __real_pthread_cond_destroy(c);
}

static int serial_wait(pthread_cond_t *c, pthread_mutex_t *m, bool timed)
{
	int me = self(); int i = mfind(m);
	M[i].owner = -1;                         // release the mutex
	T[me].obj = c; T[me].cond_mutex = m; T[me].timed_out = false;
	T[me].state = timed ? T_WAIT_COND_TIMED : T_WAIT_COND;
	// spurious wake-up of an untimed wait (allowed by POSIX), rarely
	if (!timed && (srand64() & 255) == 0) { ++S.spurious_wakeups; T[me].obj = m; T[me].state = T_WAIT_MUTEX; }
	yield_point(timed ? "cond_timedwait" : "cond_wait", c, cord(c));
	return T[me].timed_out ? ETIMEDOUT : 0;
}

int __wrap_pthread_cond_wait(pthread_cond_t *c, pthread_mutex_t *m)
{
	if (g_mode == SCHED_SERIAL) return serial_wait(c, m, false);
	if (g_mode == SCHED_CHAOS) chaos_point(K_WAIT);
	return __real_pthread_cond_wait(c, m);
}

int __wrap_pthread_cond_timedwait(pthread_cond_t *c, pthread_mutex_t *m, const struct timespec *ts)
{
	if (g_mode == SCHED_SERIAL) return serial_wait(c, m, true);
	if (g_mode == SCHED_CHAOS) {
		chaos_point(K_WAIT);
		// sometimes shorten the wait so that real time-outs happen often
		if ((chaos_rand() & 15) == 0) { struct timespec now; clock_gettime(CLOCK_MONOTONIC, &now); struct timespec s = now; s.tv_nsec += 20000; if (s.tv_nsec >= 1000000000L) { s.tv_nsec -= 1000000000L; ++s.tv_sec; }
			if (s.tv_sec < ts->tv_sec || (s.tv_sec == ts->tv_sec && s.tv_nsec < ts->tv_nsec)) return __real_pthread_cond_timedwait(c, m, &s); }
	}
	return __real_pthread_cond_timedwait(c, m, ts);
}

static void serial_wake(pthread_cond_t *c, bool all)
{
	int w[MAXT]; int n = 0;
	for (int t = 0; t < nthreads; ++t) if ((T[t].state == T_WAIT_COND || T[t].state == T_WAIT_COND_TIMED) && T[t].obj == c) w[n++] = t;
	if (n == 0) return;
	if (!all) { int k = (int)(srand64() % (uint64_t)n); w[0] = w[k]; n = 1; }
	for (int i = 0; i < n; ++i) { int t = w[i]; T[t].obj = T[t].cond_mutex; T[t].state = T_WAIT_MUTEX; }
}

int __wrap_pthread_cond_signal(pthread_cond_t *c)
{
	if (g_mode == SCHED_SERIAL) { serial_wake(c, false); yield_point("cond_signal", c, cord(c)); return 0; }
	if (g_mode == SCHED_CHAOS) chaos_point(K_SIGNAL);
	return __real_pthread_cond_signal(c);
}

int __wrap_pthread_cond_broadcast(pthread_cond_t *c)
{
	if (g_mode == SCHED_SERIAL) { serial_wake(c, true); yield_point("cond_broadcast", c, cord(c)); return 0; }
	if (g_mode == SCHED_CHAOS) chaos_point(K_SIGNAL);
	return __real_pthread_cond_broadcast(c);
}

int __wrap_pthread_create(pthread_t *th, const pthread_attr_t *a, void *(*fn)(void *), void *arg)
{
	if (g_mode == SCHED_SERIAL) {
		if (nthreads >= MAXT) return EAGAIN;
		int t = nthreads++;
		T[t].state = T_RUN; T[t].fn = fn; T[t].arg = arg; T[t].joined = false; T[t].obj = NULL; T[t].opname = "start";
		T[t].prio = (int)(srand64() % 1000);
		sem_init(&T[t].sem, 0, 0);
		int r = __real_pthread_create(&T[t].real, a, trampoline, (void *)(intptr_t)t);
		if (r != 0) { T[t].state = T_FREE; --nthreads; return r; }
		*th = T[t].real;
		yield_point("create", NULL, (unsigned)t);
		return 0;
	}
	int r = __real_pthread_create(th, a, fn, arg);
	if (g_mode == SCHED_CHAOS) chaos_point(K_CREATE);
	return r;
}

int __wrap_pthread_join(pthread_t th, void **ret)
{
	if (g_mode == SCHED_SERIAL) {
		int me = self(); int t = -1;
		for (int i = 1; i < nthreads; ++i) if (T[i].state != T_FREE && !T[i].joined && pthread_equal(T[i].real, th)) { t = i; break; }
		if (t < 0) return __real_pthread_join(th, ret);
		T[me].join_target = t; T[me].state = T_WAIT_JOIN;
		yield_point("join", NULL, (unsigned)t);
		T[t].joined = true;
		// the real thread is past its last model action; reap it
		return __real_pthread_join(th, ret);
	}
	if (g_mode == SCHED_CHAOS) chaos_point(K_OTHER);
	return __real_pthread_join(th, ret);
}
