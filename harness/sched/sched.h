// pthread --wrap shim: schedule perturbation (chaos) and a serialising
// randomised scheduler with deadlock detection (serial). DESIGN.md 3.5 / App. E.
#ifndef VERIF_SCHED_H
#define VERIF_SCHED_H
#include <stdint.h>
#include <stdbool.h>

enum { SCHED_OFF, SCHED_CHAOS, SCHED_SERIAL };
enum { SP_UNIFORM, SP_PCT, SP_STARVE };

/// Configure before any coder is created. Must be called from the harness
/// ("main") thread while no other application thread exists.
void sched_configure(int mode, uint64_t seed, int policy);

/// Serial mode: start/finish a run (resets the model; all application
/// threads of the previous run must have been joined).
void sched_run_begin(void);

typedef struct {
	uint64_t steps;            // scheduling points passed
	uint64_t switches;         // context switches
	uint64_t schedule_hash;    // hash of (thread, op, object ordinal) sequence
	uint64_t timeouts_fired;   // timed waits ended by the scheduler's time-out choice
	uint64_t spurious_wakeups;
	unsigned max_runnable;     // maximum number of simultaneously enabled threads
	unsigned threads_created;
	bool deadlock;             // no enabled thread while some thread not done
	bool step_limit;           // step cap reached
	char deadlock_report[1500];
} sched_stats;
void sched_get_stats(sched_stats *st);
void sched_set_step_limit(uint64_t steps);
#endif
