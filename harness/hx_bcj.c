// hx_bcj: monitor for C15 - BCJ and delta filters are exact inverses,
// size-preserving, slicing-independent and *fixed* (equal to the format's
// reference transforms).
//
// One case = (filter, start_offset / delta distance, input buffer, slicing
// plans), all drawn from PRNG(seed, case index). For the case's input x:
//
//   E  = bytes produced by the filter's encoder: raw-encode x with the chain
//        [filter, LZMA2] under a slicing plan, then raw-decode the result
//        with [LZMA2] only. Done with the whole buffer in one call, with the
//        case's random plan and (small inputs) one byte at a time.
//   D  = bytes produced by the filter's decoder: x wrapped in a hand-made
//        LZMA2 stream of uncompressed chunks (or encoded with [LZMA2]), then
//        raw-decoded with [filter, LZMA2], under the same three slicings.
//
// Oracles
//   bcj-length|F            |E| == |D| == |x|
//   bcj-ref-mismatch|F|enc  E(whole) == ref_bcj(encode, x)      (delta-ref-mismatch|enc for delta)
//   bcj-ref-mismatch|F|dec  D(whole) == ref_bcj(decode, x)
//   bcj-released-mismatch|F|enc|<ver>, ...|dec|<ver>
//                           E, D == what a released liblzma makes of x (refhelper)
//   bcj-slicing|F|enc/dec   E, D do not depend on the slicing
//   bcj-roundtrip|F         raw-decode([filter, LZMA2]) of the encoder output == x
//   bcj-oneshot-mismatch|F|enc/dec, bcj-oneshot-return|F
//                           lzma_bcj_{x86,arm64,riscv}_{encode,decode} == E / D and the
//                           return value is within the documented bounds
//   bcj-misaligned-accepted|F|enc/dec
//                           a start_offset that is not a multiple of the filter's
//                           alignment is refused with LZMA_OPTIONS_ERROR
//   bcj-coder-failed|F|...  a coder returned something else than STREAM_END /
//                           broke the lzma_code() accounting
#define _GNU_SOURCE
#include "vh.h"
#include "ref/bcj_ref.h"
#include <signal.h>
#include <unistd.h>
#include <errno.h>
#include <fcntl.h>
#include <sys/wait.h>
#include <sys/time.h>

static hx_args A;
// count this engine's violations: `--only` (replay) exits 1 when the case still fails
static unsigned long n_my_viol;
#define hx_violation(...) (++n_my_viol, hx_violation(__VA_ARGS__))
static const char *PROP = "C15";

typedef struct { unsigned id; const char *name; unsigned align; } filt;
enum { F_DELTA, F_X86, F_PPC, F_IA64, F_ARM, F_THUMB, F_SPARC, F_ARM64, F_RISCV, F_COUNT };
static const filt FILT[F_COUNT] = {
	{ 0x03, "delta", 1 }, { 0x04, "x86", 1 }, { 0x05, "powerpc", 4 }, { 0x06, "ia64", 16 },
	{ 0x07, "arm", 4 }, { 0x08, "armthumb", 2 }, { 0x09, "sparc", 4 }, { 0x0A, "arm64", 4 },
	{ 0x0B, "riscv", 2 },
};

////////////////////////
// released-lib helper //
////////////////////////

typedef struct {
	pid_t pid; int wfd, rfd; bool alive; char ver[32]; char tag[40];
} helper;
static helper HELP[4];
static int nhelp;

static bool wr_full(int fd, const void *p, size_t n)
{
	const uint8_t *b = p;
	while (n) {
		ssize_t k = write(fd, b, n);
		if (k < 0) { if (errno == EINTR) continue; return false; }
		b += k; n -= (size_t)k;
	}
	return true;
}

static bool rd_full(int fd, void *p, size_t n)
{
	uint8_t *b = p;
	while (n) {
		ssize_t k = read(fd, b, n);
		if (k < 0) { if (errno == EINTR) continue; return false; }
		if (k == 0) return false;
		b += k; n -= (size_t)k;
	}
	return true;
}

// Returns 0 ok, 1 unsupported, 2 helper-side error, -1 helper gone.
static int helper_request(helper *h, unsigned op, unsigned id, unsigned dir, uint32_t param,
		const uint8_t *data, size_t n, vbuf *resp)
{
	if (!h->alive) return -1;
	uint8_t rq[24]; memset(rq, 0, sizeof(rq));
	rq[0] = (uint8_t)op; rq[1] = (uint8_t)id; rq[2] = (uint8_t)dir;
	uint32_t len = (uint32_t)n;
	memcpy(rq + 4, &param, 4); memcpy(rq + 16, &len, 4);
	uint32_t hd[2];
	if (!wr_full(h->wfd, rq, sizeof(rq)) || (n && !wr_full(h->wfd, data, n)) || !rd_full(h->rfd, hd, sizeof(hd))) {
		h->alive = false;
		hx_note("refhelper for %s stopped answering; continuing without it", h->ver);
		return -1;
	}
	vbuf_clear(resp);
	vbuf_reserve(resp, hd[1] + 1);
	if (hd[1] && !rd_full(h->rfd, resp->p, hd[1])) { h->alive = false; return -1; }
	resp->n = hd[1];
	return (int)hd[0];
}

static void helpers_start(const char *spec)
{
	// spec = "helper_exe:lib1:lib2..."
	if (!spec || !*spec) return;
	char *s = strdup(spec);
	char *save = NULL;
	char *exe = strtok_r(s, ":", &save);
	if (!exe) return;
	signal(SIGPIPE, SIG_IGN);
	for (char *lib; (lib = strtok_r(NULL, ":", &save)) != NULL && nhelp < 4; ) {
		if (access(lib, R_OK) != 0 || access(exe, X_OK) != 0) continue;
		int to[2], from[2];
		if (pipe2(to, O_CLOEXEC) || pipe2(from, O_CLOEXEC)) continue;
		pid_t pid = fork();
		if (pid < 0) continue;
		if (pid == 0) {
			dup2(to[0], 0); dup2(from[1], 1);
			int dn = open("/dev/null", O_WRONLY); if (dn >= 0) dup2(dn, 2);
			char *av[] = { exe, lib, NULL };
			// the helper must run un-sanitized and with a clean environment
			char *ev[] = { NULL };
			execve(exe, av, ev);
			_exit(127);
		}
		close(to[0]); close(from[1]);
		helper *h = &HELP[nhelp];
		h->pid = pid; h->wfd = to[1]; h->rfd = from[0]; h->alive = true;
		vbuf v = {0};
		snprintf(h->ver, sizeof(h->ver), "?");
		if (helper_request(h, 4, 0, 0, 0, NULL, 0, &v) == 0 && v.n < sizeof(h->ver)) {
			memcpy(h->ver, v.p, v.n); h->ver[v.n] = 0;
			snprintf(h->tag, sizeof(h->tag), "released_%s", h->ver);
			++nhelp;
		} else {
			h->alive = false; close(h->wfd); close(h->rfd);
			waitpid(pid, NULL, 0);
		}
		vbuf_free(&v);
	}
	free(s);
}

static void helpers_stop(void)
{
	for (int i = 0; i < nhelp; ++i) {
		close(HELP[i].wfd); close(HELP[i].rfd);
		waitpid(HELP[i].pid, NULL, 0);
	}
}

/////////////////////
// data generators //
/////////////////////

static void put32(vbuf *b, uint32_t w, bool be)
{
	uint8_t t[4];
	if (be) { t[0] = (uint8_t)(w >> 24); t[1] = (uint8_t)(w >> 16); t[2] = (uint8_t)(w >> 8); t[3] = (uint8_t)w; }
	else { t[3] = (uint8_t)(w >> 24); t[2] = (uint8_t)(w >> 16); t[1] = (uint8_t)(w >> 8); t[0] = (uint8_t)w; }
	vbuf_append(b, t, 4);
}

static void put16le(vbuf *b, unsigned h) { vbuf_putc(b, (uint8_t)h); vbuf_putc(b, (uint8_t)(h >> 8)); }

static uint32_t r32(vrng *r) { return (uint32_t)vrng_u64(r); }

// a displacement-like value: small, extreme or random
static uint32_t gen_disp(vrng *r)
{
	switch (vrng_below(r, 8)) {
	case 0: return vrng_below(r, 4096);
	case 1: return (uint32_t)0 - vrng_below(r, 4096);
	case 2: return vrng_below(r, 1u << 20);
	case 3: return (uint32_t)0 - vrng_below(r, 1u << 20);
	case 4: { static const uint32_t e[] = { 0, 0xFFFFFFFF, 0x7FFFFFFF, 0x80000000, 0x00FFFFFF, 0x01000000, 0xFF000000, 0xFEFFFFFF, 0x03FFFFFF, 0x02000000 };
		return e[vrng_below(r, 10)]; }
	default: return r32(r);
	}
}

static uint8_t x86_alpha(vrng *r)
{
	switch (vrng_below(r, 10)) {
	case 0: case 1: return 0x00;
	case 2: case 3: return 0xFF;
	case 4: return 0xE8;
	case 5: return 0xE9;
	case 6: return 0x0F;
	case 7: return (uint8_t)(0x80 + vrng_below(r, 16));
	default: return (uint8_t)vrng_u64(r);
	}
}

static uint8_t x86_top(vrng *r)
{
	static const uint8_t t[] = { 0x00, 0xFF, 0x00, 0xFF, 0x00, 0xFF, 0x00, 0xFF, 0x01, 0xFE, 0x7F, 0x80, 0xE8, 0xE9 };
	return vrng_chance(r, 1, 12) ? (uint8_t)vrng_u64(r) : t[vrng_below(r, sizeof(t))];
}

static void gen_x86(vrng *r, vbuf *b, size_t n)
{
	while (b->n < n) {
		switch (vrng_below(r, 8)) {
		case 0: case 1: case 2: { // opcode + displacement
			vbuf_putc(b, vrng_chance(r, 1, 2) ? 0xE8 : 0xE9);
			for (int i = 0; i < 3; ++i) vbuf_putc(b, vrng_chance(r, 1, 2) ? x86_alpha(r) : (uint8_t)vrng_u64(r));
			vbuf_putc(b, x86_top(r));
			break;
		}
		case 3: { // run of opcodes: every prev_mask history
			unsigned k = 1 + vrng_below(r, 6);
			for (unsigned i = 0; i < k; ++i) vbuf_putc(b, vrng_chance(r, 1, 2) ? 0xE8 : 0xE9);
			unsigned m = vrng_below(r, 5);
			for (unsigned i = 0; i < m; ++i) vbuf_putc(b, x86_alpha(r));
			break;
		}
		case 4: { // Jcc near
			vbuf_putc(b, 0x0F); vbuf_putc(b, (uint8_t)(0x80 + vrng_below(r, 16)));
			for (int i = 0; i < 3; ++i) vbuf_putc(b, (uint8_t)vrng_u64(r));
			vbuf_putc(b, x86_top(r));
			break;
		}
		case 5: { // filler
			unsigned m = vrng_below(r, 8); uint8_t v = vrng_chance(r, 1, 2) ? 0x00 : 0xFF;
			bool rnd = vrng_chance(r, 1, 2);
			for (unsigned i = 0; i < m; ++i) vbuf_putc(b, rnd ? (uint8_t)vrng_u64(r) : v);
			break;
		}
		default: { // alphabet soup
			unsigned m = 1 + vrng_below(r, 12);
			for (unsigned i = 0; i < m; ++i) vbuf_putc(b, x86_alpha(r));
			break;
		}
		}
	}
	b->n = n;
}

static uint32_t adrp_word(vrng *r)
{
	int32_t v;
	switch (vrng_below(r, 8)) {
	case 0: v = -(1 << 17); break;
	case 1: v = (1 << 17) - 1; break;
	case 2: v = 1 << 17; break;               // just outside the gate
	case 3: v = -(1 << 17) - 1; break;        // just outside the gate
	case 4: v = (int32_t)vrng_below(r, 64) - 32; break;
	case 5: v = (int32_t)vrng_below(r, 1u << 18) - (1 << 17); break; // inside
	case 6: v = (1 << 17) - 16 + (int32_t)vrng_below(r, 32); break;  // around +gate
	default: v = (int32_t)vrng_below(r, 1u << 21) - (1 << 20); break;
	}
	if (vrng_chance(r, 1, 10)) v = -(1 << 17) - 16 + (int32_t)vrng_below(r, 32); // around -gate
	uint32_t imm = (uint32_t)v & 0x1FFFFF;
	return 0x90000000 | ((imm & 3) << 29) | ((imm >> 2) << 5) | vrng_below(r, 32);
}

// one 32-bit word for a fixed-width architecture: matching, near miss, random
static uint32_t gen_word(vrng *r, int f)
{
	unsigned k = vrng_below(r, 100);
	uint32_t d = gen_disp(r);
	if (k < 62) {
		switch (f) {
		case F_PPC: return 0x48000001 | (d & 0x03FFFFFC);
		case F_ARM: return 0xEB000000 | (d & 0x00FFFFFF);
		case F_SPARC: return (d & 0x00400000) ? (0x7FC00000 | (d & 0x003FFFFF)) : (0x40000000 | (d & 0x003FFFFF));
		case F_ARM64: return vrng_chance(r, 1, 2) ? (0x94000000 | (d & 0x03FFFFFF)) : adrp_word(r);
		}
	}
	if (k < 80) {
		switch (f) {
		case F_PPC: { static const uint32_t nm[] = { 0x48000000, 0x48000003, 0x48000002, 0x4C000001, 0x44000001, 0x4A000001, 0x08000001, 0xC8000001 };
			uint32_t base = nm[vrng_below(r, 8)]; return base | (d & 0x03FFFFFC); }
		case F_ARM: { static const uint8_t nm[] = { 0xEA, 0xFB, 0x0B, 0xE9, 0xEF, 0x6B, 0xCB, 0xFA };
			return ((uint32_t)nm[vrng_below(r, 8)] << 24) | (d & 0x00FFFFFF); }
		case F_SPARC: { static const uint32_t nm[] = { 0x40400000, 0x40800000, 0x40C00000, 0x7F800000, 0x7F400000, 0x7F000000, 0x41000000, 0x7EC00000 };
			return nm[vrng_below(r, 8)] | (d & 0x003FFFFF); }
		case F_ARM64: { static const uint32_t nm[] = { 0x14000000, 0x10000000, 0x30000000, 0x91000000, 0x98000000, 0x17FFFFFF, 0x80000000, 0x1F000000 };
			uint32_t base = nm[vrng_below(r, 8)]; return base | (d & 0x00FFFFFF); }
		}
	}
	if (k < 90) return r32(r);
	if (k < 95) return 0;
	return 0xFFFFFFFF;
}

static void gen_fixed(vrng *r, vbuf *b, size_t n, int f)
{
	bool be = (f == F_PPC || f == F_SPARC);
	unsigned realign = 0, window = 0;
	while (b->n < n) {
		unsigned k = vrng_below(r, 40);
		if (realign && window-- == 0) { // end of a misaligned window
			for (unsigned i = 0; i < realign; ++i) vbuf_putc(b, (uint8_t)vrng_u64(r));
			realign = 0;
			continue;
		}
		if (k == 0 && !realign && vrng_chance(r, 1, 3)) {
			// stray bytes: the same patterns at every alignment for a while
			unsigned m = 1 + vrng_below(r, 3);
			for (unsigned i = 0; i < m; ++i) vbuf_putc(b, (uint8_t)vrng_u64(r));
			realign = vrng_chance(r, 1, 8) ? 0 : 4 - m;
			window = 1 + vrng_below(r, 12);
			continue;
		}
		bool e = be;
		if (k < 4) e = !e; // other endianness
		put32(b, gen_word(r, f), e);
	}
	b->n = n;
}

static void gen_thumb(vrng *r, vbuf *b, size_t n)
{
	while (b->n < n) {
		unsigned k = vrng_below(r, 20);
		uint32_t d = gen_disp(r);
		if (k < 8) { put16le(b, 0xF000 | ((d >> 11) & 0x7FF)); put16le(b, 0xF800 | (d & 0x7FF)); }
		else if (k < 11) put16le(b, 0xF000 | (d & 0x7FF));
		else if (k < 14) put16le(b, 0xF800 | (d & 0x7FF));
		else if (k < 15) { put16le(b, 0xF000 | ((d >> 11) & 0x7FF)); put16le(b, 0xE800 | (d & 0x7FF)); } // BLX: no match
		else if (k < 16) { put16le(b, 0xF000 | ((d >> 11) & 0x7FF)); put16le(b, 0xF000 | (d & 0x7FF)); }
		else if (k < 17) { // parity change for a few halfwords
			if (vrng_chance(r, 1, 6)) {
				vbuf_putc(b, (uint8_t)vrng_u64(r));
				unsigned m = vrng_below(r, 6);
				for (unsigned i = 0; i < m; ++i) { uint32_t e = gen_disp(r); put16le(b, (vrng_chance(r, 1, 2) ? 0xF000 : 0xF800) | (e & 0x7FF)); }
				if (!vrng_chance(r, 1, 8)) vbuf_putc(b, (uint8_t)vrng_u64(r));
			}
		}
		else if (k < 18) { put16le(b, 0xE800 | (d & 0x7FF)); }
		else put16le(b, (unsigned)vrng_below(r, 65536));
	}
	b->n = n;
}

static void gen_ia64(vrng *r, vbuf *b, size_t n)
{
	unsigned realign = 0, window = 0;
	while (b->n < n) {
		if (realign && window-- == 0) {
			for (unsigned i = 0; i < realign; ++i) vbuf_putc(b, (uint8_t)vrng_u64(r));
			realign = 0;
			continue;
		}
		if (!realign && vrng_chance(r, 1, 100)) { // break the 16-byte phase for a few bundles
			unsigned m = 1 + vrng_below(r, 15);
			for (unsigned i = 0; i < m; ++i) vbuf_putc(b, (uint8_t)vrng_u64(r));
			realign = vrng_chance(r, 1, 8) ? 0 : 16 - m;
			window = 1 + vrng_below(r, 4);
			continue;
		}
		unsigned __int128 bundle = vrng_below(r, 32); // every template
		if (vrng_chance(r, 1, 2)) bundle = 0x10 + vrng_below(r, 16); // the branch-carrying half
		for (int s = 0; s < 3; ++s) {
			uint64_t ins = vrng_u64(r) & ((UINT64_C(1) << 41) - 1);
			unsigned k = vrng_below(r, 10);
			if (k < 7) {
				ins = (ins & ~(UINT64_C(0xF) << 37)) | (UINT64_C(5) << 37);
				if (k < 5) ins &= ~(UINT64_C(7) << 9);
				if (k < 2) { // small displacement, either sign
					uint32_t d = gen_disp(r);
					ins &= ~((UINT64_C(0xFFFFF) << 13) | (UINT64_C(1) << 36));
					ins |= (uint64_t)(d & 0xFFFFF) << 13;
					ins |= (uint64_t)((d >> 20) & 1) << 36;
				}
			}
			bundle |= (unsigned __int128)ins << (5 + 41 * s);
		}
		uint8_t t[16];
		for (int i = 0; i < 16; ++i) t[i] = (uint8_t)(bundle >> (8 * i));
		vbuf_append(b, t, 16);
	}
	b->n = n;
}

static unsigned rv_reg(vrng *r)
{
	static const uint8_t common[] = { 1, 5, 1, 5, 6, 10, 11, 7, 28, 3, 9, 13, 17, 21, 0, 2, 4, 31 };
	return vrng_chance(r, 1, 4) ? vrng_below(r, 32) : common[vrng_below(r, sizeof(common))];
}

static uint32_t rv_imm20(vrng *r)
{
	static const uint32_t e[] = { 0, 0xFFFFF, 0x7FFFF, 0x80000, 1, 0xFFFFE };
	unsigned k = vrng_below(r, 6);
	if (k == 0) return e[vrng_below(r, 6)];
	if (k == 1) return vrng_below(r, 64);
	if (k == 2) return 0xFFFFF - vrng_below(r, 64);
	return vrng_below(r, 1u << 20);
}

static uint32_t rv_itype(vrng *r, unsigned rs1)
{
	static const uint8_t ops[] = { 0x67, 0x13, 0x03, 0x23, 0x07, 0x27, 0x1B, 0x33 };
	uint32_t op = vrng_chance(r, 1, 6) ? ((vrng_below(r, 128) & 0x7C) | 3) : ops[vrng_below(r, 8)];
	uint32_t imm12 = vrng_chance(r, 1, 4) ? (vrng_chance(r, 1, 2) ? 0x7FF : 0x800) : vrng_below(r, 4096);
	return op | (vrng_below(r, 32) << 7) | (vrng_below(r, 8) << 12) | ((uint32_t)rs1 << 15) | (imm12 << 20);
}

static void gen_riscv(vrng *r, vbuf *b, size_t n)
{
	while (b->n < n) {
		unsigned k = vrng_below(r, 32);
		if (k < 7) { // JAL
			unsigned rd = vrng_chance(r, 2, 3) ? (vrng_chance(r, 1, 2) ? 1 : 5) : rv_reg(r);
			put32(b, 0x6F | ((uint32_t)rd << 7) | (rv_imm20(r) << 12), false);
		} else if (k < 17) { // AUIPC + second instruction
			unsigned rd = rv_reg(r);
			if (vrng_chance(r, 3, 4) && (rd == 0 || rd == 2)) rd = 10;
			put32(b, 0x17 | ((uint32_t)rd << 7) | (rv_imm20(r) << 12), false);
			unsigned j = vrng_below(r, 16);
			if (j < 10) put32(b, rv_itype(r, rd), false);
			else if (j < 12) put32(b, rv_itype(r, rv_reg(r)), false);            // rs1 != rd (mostly)
			else if (j < 13) put16le(b, (unsigned)(vrng_below(r, 65536) & ~3u) | vrng_below(r, 3)); // compressed
			else if (j < 15) { // AUIPC + AUIPC: bits 19:15 of the second equal rd of the first
				uint32_t w2 = 0x17 | ((uint32_t)rv_reg(r) << 7) | (rv_imm20(r) << 12);
				if (vrng_chance(r, 3, 4)) w2 = (w2 & ~(UINT32_C(0x1F) << 15)) | ((uint32_t)rd << 15);
				put32(b, w2, false);
			}
			// else: nothing; whatever comes next is the second instruction
		} else if (k < 22) { // AUIPC x2 special form and its near misses
			unsigned rs1 = rv_reg(r);
			if (vrng_chance(r, 3, 4) && (rs1 == 0 || rs1 == 2)) rs1 = 11;
			uint32_t w = 0x17 | (2u << 7) | (3u << 12) | (vrng_below(r, 1u << 13) << 14) | ((uint32_t)rs1 << 27);
			unsigned j = vrng_below(r, 10);
			if (j == 0) w &= ~(UINT32_C(1) << 12);
			if (j == 1) w &= ~(UINT32_C(1) << 13);
			if (j == 2) w &= ~(UINT32_C(0x1F) << 7); // x0
			put32(b, w, false);
			if (vrng_chance(r, 3, 4)) put32(b, vrng_chance(r, 1, 2) ? r32(r) : gen_disp(r), false);
		} else if (k < 24) { // AUIPC x0 (landing pad)
			put32(b, 0x17 | (rv_imm20(r) << 12), false);
		} else if (k < 28) { // 16-bit instruction
			put16le(b, (unsigned)(vrng_below(r, 65536) & ~3u) | vrng_below(r, 3));
		} else if (k < 30) put32(b, r32(r) | 3, false);
		else if (k < 31) put16le(b, vrng_below(r, 65536));
		else if (vrng_chance(r, 1, 8)) { // odd parity for a few instructions
			vbuf_putc(b, (uint8_t)vrng_u64(r));
			unsigned m = vrng_below(r, 5);
			for (unsigned i = 0; i < m; ++i) {
				unsigned rd = vrng_chance(r, 1, 2) ? 1 : 10;
				if (vrng_chance(r, 1, 2)) put32(b, 0x6F | ((uint32_t)rd << 7) | (rv_imm20(r) << 12), false);
				else { put32(b, 0x17 | ((uint32_t)rd << 7) | (rv_imm20(r) << 12), false); put32(b, rv_itype(r, rd), false); }
			}
			if (!vrng_chance(r, 1, 8)) vbuf_putc(b, (uint8_t)vrng_u64(r));
		}
	}
	b->n = n;
}

enum { K_RANDOM, K_DENSE, K_MIXED, K_FOREIGN, K_GENERIC, K_COUNT };
static const char *const kind_names[K_COUNT] = { "random", "dense", "mixed", "foreign", "generic" };

static void gen_dense(vrng *r, vbuf *b, size_t n, int f)
{
	switch (f) {
	case F_X86: gen_x86(r, b, n); break;
	case F_PPC: case F_ARM: case F_SPARC: case F_ARM64: gen_fixed(r, b, n, f); break;
	case F_THUMB: gen_thumb(r, b, n); break;
	case F_IA64: gen_ia64(r, b, n); break;
	case F_RISCV: gen_riscv(r, b, n); break;
	default: gen_data(r, b, n, -1, 0); b->n = n; break;
	}
}

static int gen_input(vrng *r, vbuf *b, size_t n, int f)
{
	vbuf_clear(b);
	vbuf_reserve(b, n + 64);
	if (f == F_DELTA) {
		unsigned k = vrng_below(r, 4);
		if (k == 0) { vrng_fill(r, b->p, n); b->n = n; return K_RANDOM; }
		gen_data(r, b, n, -1, 0);
		return K_GENERIC;
	}
	unsigned k = vrng_below(r, 20);
	if (k < 2) { vrng_fill(r, b->p, n); b->n = n; return K_RANDOM; }
	if (k < 13) { gen_dense(r, b, n, f); return K_DENSE; }
	if (k < 17) { // dense islands in other data, so instructions sit at arbitrary offsets
		while (b->n < n) {
			size_t seg = 1 + vrng_logsize(r, 600);
			if (seg > n - b->n) seg = n - b->n;
			vbuf t = {0};
			if (vrng_chance(r, 2, 3)) gen_dense(r, &t, seg, f);
			else { vbuf_reserve(&t, seg + 1); if (vrng_chance(r, 1, 2)) vrng_fill(r, t.p, seg); else memset(t.p, vrng_chance(r, 1, 2) ? 0 : 0xFF, seg); t.n = seg; }
			vbuf_append(b, t.p, seg);
			vbuf_free(&t);
		}
		return K_MIXED;
	}
	if (k < 19) { int g = 1 + (int)vrng_below(r, F_COUNT - 1); gen_dense(r, b, n, g); return K_FOREIGN; }
	gen_data(r, b, n, vrng_chance(r, 1, 2) ? GD_CODE_X86 : GD_CODE_FIXED32, 0);
	return K_GENERIC;
}

static size_t pick_size(vrng *r)
{
	unsigned k = vrng_below(r, 100);
	if (A.thorough && vrng_chance(r, 1, 400)) return (64u << 10) + vrng_logsize(r, (4u << 20) - (64u << 10));
	if (k < 14) return vrng_below(r, 41);
	if (k < 55) return 41 + vrng_logsize(r, 2000);
	if (k < 90) return 500 + vrng_below(r, 12000);
	return 12000 + vrng_logsize(r, 65536 - 12000);
}

static uint32_t pick_offset(vrng *r, unsigned align, bool *null_options)
{
	*null_options = false;
	uint32_t v;
	switch (vrng_below(r, 8)) {
	case 0: *null_options = vrng_chance(r, 1, 2); return 0;
	case 1: v = vrng_below(r, 256); break;
	case 2: v = UINT32_MAX - vrng_below(r, 4096); break;        // wraps inside the buffer
	case 3: v = UINT32_MAX - vrng_below(r, 70000); break;
	case 4: v = 0x80000000u - vrng_below(r, 5000); break;
	case 5: v = vrng_below(r, 1u << 20); break;
	default: v = r32(r); break;
	}
	return v & ~(uint32_t)(align - 1);
}

////////////////////
// coder plumbing //
////////////////////

typedef struct {
	int f; uint32_t param; bool null_options;
	lzma_options_lzma lz; lzma_options_bcj bcj; lzma_options_delta delta;
	lzma_filter with[3], without[2];
} chain;

static void chain_init(chain *c, int f, uint32_t param, bool null_options)
{
	memset(c, 0, sizeof(*c));
	c->f = f; c->param = param; c->null_options = null_options;
	lzma_lzma_preset(&c->lz, 0);
	c->lz.dict_size = 1u << 16; c->lz.mf = LZMA_MF_HC3; c->lz.mode = LZMA_MODE_FAST;
	c->lz.nice_len = 8; c->lz.depth = 1;
	c->bcj.start_offset = param;
	c->delta.type = LZMA_DELTA_TYPE_BYTE; c->delta.dist = param;
	c->with[0].id = FILT[f].id;
	c->with[0].options = f == F_DELTA ? (void *)&c->delta : (null_options ? NULL : (void *)&c->bcj);
	c->with[1].id = LZMA_FILTER_LZMA2; c->with[1].options = &c->lz;
	c->with[2].id = LZMA_VLI_UNKNOWN;
	c->without[0] = c->with[1];
	c->without[1] = c->with[2];
}

// Streams are kept between cases (re-initialising an lzma_stream without
// lzma_end() is the documented way to reuse it, and re-use of the BCJ coder's
// allocation is a path of its own); the case decides whether a role's stream
// is ended first (fresh allocation) and whether a small warm-up coding
// precedes the real one, so that `--only` reproduces a case by itself.
enum { ROLE_ENC_WITH, ROLE_DEC_WITH, ROLE_ENC_LZ, ROLE_DEC_LZ, ROLE_COUNT };
static lzma_stream STREAMS[ROLE_COUNT][F_COUNT];
static bool case_fresh[ROLE_COUNT];

static lzma_stream *role_stream(int role, int f)
{
	lzma_stream *s = &STREAMS[role][role >= ROLE_ENC_LZ ? 0 : f];
	if (case_fresh[role]) { lzma_end(s); case_fresh[role] = false; }
	return s;
}

static void streams_end(void)
{
	for (int r = 0; r < ROLE_COUNT; ++r) for (int f = 0; f < F_COUNT; ++f) lzma_end(&STREAMS[r][f]);
}

// Run one coder over `in`; returns NULL on success or a static description.
static const char *run_coder(int role, int f, const lzma_filter *filters, const uint8_t *in, size_t n,
		const slice_plan *plan, vbuf *out, char *why, size_t whysz)
{
	bool encoder = role == ROLE_ENC_WITH || role == ROLE_ENC_LZ;
	lzma_stream *strm = role_stream(role, f);
	lzma_ret ret = encoder ? lzma_raw_encoder(strm, filters) : lzma_raw_decoder(strm, filters);
	if (ret != LZMA_OK) { snprintf(why, whysz, "init returned %s", lzma_ret_name(ret)); lzma_end(strm); return "init"; }
	slice_plan p = *plan; p.final_action = LZMA_FINISH;
	slice_result sr;
	vbuf_clear(out);
	slicer_run(strm, in, n, out, &p, &sr);
	if (sr.protocol_violation) { snprintf(why, whysz, "lzma_code accounting: %s", sr.why); lzma_end(strm); return "protocol"; }
	if (sr.ret != LZMA_STREAM_END) { snprintf(why, whysz, "ended with %s after %" PRIu64 " calls, in %" PRIu64 "/%zu out %" PRIu64,
			lzma_ret_name(sr.ret), sr.calls, sr.total_in, n, sr.total_out); lzma_end(strm); return "status"; }
	if (sr.total_in != n) { snprintf(why, whysz, "consumed %" PRIu64 " of %zu", sr.total_in, n); lzma_end(strm); return "consumed"; }
	return NULL;
}

static const slice_plan PLAN_WHOLE = { .mode = SL_WHOLE, .final_action = LZMA_FINISH };
static const slice_plan PLAN_ONEBYTE = { .mode = SL_ONEBYTE, .final_action = LZMA_FINISH };

// x as an LZMA2 stream of uncompressed chunks of random sizes
static void lzma2_wrap(vrng *r, const uint8_t *x, size_t n, vbuf *out)
{
	vbuf_clear(out);
	size_t pos = 0; bool first = true;
	unsigned style = vrng_below(r, 4);
	while (pos < n) {
		size_t c;
		switch (style) {
		case 0: c = 65536; break;
		case 1: c = 1 + vrng_below(r, 64); break;
		case 2: c = 1 + vrng_logsize(r, 65535); break;
		default: c = 1 + vrng_below(r, 5000); break;
		}
		if (c > n - pos) c = n - pos;
		vbuf_putc(out, first ? 0x01 : 0x02);
		vbuf_putc(out, (uint8_t)((c - 1) >> 8)); vbuf_putc(out, (uint8_t)(c - 1));
		vbuf_append(out, x + pos, c);
		pos += c; first = false;
	}
	vbuf_putc(out, 0x00);
}

static size_t first_diff(const uint8_t *a, const uint8_t *b, size_t n)
{
	size_t i = 0;
	while (i < n && a[i] == b[i]) ++i;
	return i;
}

static void describe_diff(char *dst, size_t dstsz, const uint8_t *x, const uint8_t *got, const uint8_t *want, size_t n, size_t at)
{
	size_t lo = at >= 8 ? at - 8 : 0, hi = at + 16 <= n ? at + 16 : n;
	char hx[80], hg[80], hw[80];
	hexdump_short(x + lo, hi - lo, hx, sizeof(hx));
	hexdump_short(got + lo, hi - lo, hg, sizeof(hg));
	hexdump_short(want + lo, hi - lo, hw, sizeof(hw));
	snprintf(dst, dstsz, "first difference at byte %zu of %zu; bytes [%zu,%zu): input %s | liblzma %s | expected %s", at, n, lo, hi, hx, hg, hw);
}

// number of converted "units" between x and y
static uint64_t count_converted(int f, const uint8_t *x, const uint8_t *y, size_t n)
{
	uint64_t c = 0;
	if (f == F_DELTA) { for (size_t i = 0; i < n; ++i) c += x[i] != y[i]; return c; }
	if (f == F_X86) { // runs of differing bytes
		bool in = false;
		for (size_t i = 0; i < n; ++i) { bool d = x[i] != y[i]; if (d && !in) ++c; in = d; }
		return c;
	}
	size_t unit = f == F_IA64 ? 16 : (f == F_THUMB ? 4 : (f == F_RISCV ? 4 : 4));
	size_t step = f == F_IA64 ? 16 : (f == F_THUMB || f == F_RISCV ? 2 : 4);
	for (size_t i = 0; i + unit <= n; ) {
		if (memcmp(x + i, y + i, unit) != 0) { ++c; i += unit; } else i += step;
	}
	return c;
}

///////////////
// one case  //
///////////////

// Safety net: a coder that stops returning would otherwise hold the shard
// until the driver's wall-clock limit. 300 s of CPU for one case is far
// beyond anything legitimate (the largest thorough case needs a few seconds).
// No verdict is taken from it: exit code 2 = harness failure = inconclusive;
// the driver resumes the shard after the case.
#define CASE_CPU_LIMIT_S 300
static volatile uint64_t current_case;

static void on_cpu_limit(int sig)
{
	(void)sig;
	char msg[128];
	int n = snprintf(msg, sizeof(msg), "hx_bcj: case %" PRIu64 " used more than %d s of CPU (a coder does not return?)\n", current_case, CASE_CPU_LIMIT_S);
	if (write(2, msg, (size_t)n) < 0) {}
	_exit(2);
}

static void arm_cpu_limit(uint64_t idx)
{
	current_case = idx;
	struct itimerval it = { { 0, 0 }, { CASE_CPU_LIMIT_S, 0 } };
	setitimer(ITIMER_VIRTUAL, &it, NULL);
}

#define VIOL(keyfmt, ...) do { snprintf(key, sizeof(key), keyfmt, __VA_ARGS__); } while (0)

static void run_case(uint64_t idx)
{
	vrng r; vrng_init(&r, A.seed, 0xC15, idx, 0);
	hx_case_begin(idx);
	arm_cpu_limit(idx);
	int f = (int)(idx % F_COUNT);
	const filt *F = &FILT[f];
	bool null_options = false;
	uint32_t param;
	if (f == F_DELTA) {
		param = vrng_chance(&r, 1, 2) ? 1 + (uint32_t)((idx / F_COUNT) % 256) : 1 + vrng_below(&r, 256);
		unsigned edge = vrng_below(&r, 16);     // the two ends of the distance range more often
		if (edge == 0) param = 256; else if (edge == 1) param = 1; else if (edge == 2) param = 255;
	}
	else param = pick_offset(&r, F->align, &null_options);
	size_t n = pick_size(&r);
	vbuf x = {0};
	int kind = gen_input(&r, &x, n, f);
	n = x.n;
	slice_plan pe, pd, pr;
	slice_plan_random(&r, &pe); slice_plan_random(&r, &pd); slice_plan_random(&r, &pr);
	if (vrng_chance(&r, 1, 5) && n > 1) { pe.mode = SL_TWOPIECE; pe.split = 1 + vrng_below(&r, (uint32_t)n - 1 > 0 ? (uint32_t)n - 1 : 1); }
	if (pe.mode == SL_WHOLE) pe.mode = SL_RANDOM;
	if (pd.mode == SL_WHOLE) pd.mode = SL_RANDOM;
	if (n > 4000) { // tiny pieces only on the smaller inputs (every lzma_code call costs two syscalls in the slicer)
		slice_plan *pp[3] = { &pe, &pd, &pr };
		for (int i = 0; i < 3; ++i) {
			if (pp[i]->max_in < 16) pp[i]->max_in = 16 + 8 * pp[i]->max_in;
			if (pp[i]->max_out < 16) pp[i]->max_out = 16 + 8 * pp[i]->max_out;
		}
	}
	if (n > 20000) { // keep byte-at-a-time plans for the smaller inputs
		if (pe.mode == SL_ONEBYTE || pe.mode == SL_ONEIN || pe.mode == SL_ONEOUT) pe.mode = SL_RANDOM;
		if (pd.mode == SL_ONEBYTE || pd.mode == SL_ONEIN || pd.mode == SL_ONEOUT) pd.mode = SL_RANDOM;
		if (pr.mode == SL_ONEBYTE || pr.mode == SL_ONEIN || pr.mode == SL_ONEOUT) pr.mode = SL_RANDOM;
	}
	chain c; chain_init(&c, f, param, null_options);
	char key[160], why[400], diff[600];
	const char *fail;
	for (int role = 0; role < ROLE_COUNT; ++role) case_fresh[role] = vrng_chance(&r, 1, 4);
	bool warmup = vrng_chance(&r, 1, 3);
	bool bad = false;
	vbuf comp = {0}, comp2 = {0}, E = {0}, E2 = {0}, D = {0}, D2 = {0}, wrapped = {0}, rt = {0}, refE = {0}, refD = {0}, one = {0}, hr = {0};
	hx_sample("filter=%s %s=%u%s size=%zu kind=%s enc=%s/%zu/%zu dec=%s/%zu/%zu", F->name, f == F_DELTA ? "dist" : "start_offset", param,
			null_options ? "(NULL options)" : "", n, kind_names[kind], slice_mode_name(pe.mode), pe.max_in, pe.max_out,
			slice_mode_name(pd.mode), pd.max_in, pd.max_out);

	// references
	vbuf_append(&refE, x.p, n); vbuf_append(&refD, x.p, n);
	if (n == 0) { vbuf_reserve(&refE, 1); vbuf_reserve(&refD, 1); }
	if (f == F_DELTA) { ref_delta(true, param, refE.p, n); ref_delta(false, param, refD.p, n); }
	else { ref_bcj(F->id, true, param, refE.p, n); ref_bcj(F->id, false, param, refD.p, n); }

	if (warmup) {
		// leave the re-used coders in a state made by *this* case: a short
		// stream with another start_offset that ends in the middle of
		// an instruction
		chain wc; chain_init(&wc, f, f == F_DELTA ? 1 + (param * 7) % 256 : ((param + 0x1000) & ~(uint32_t)(F->align - 1)), false);
		vbuf wx = {0}, wo = {0}, ww = {0};
		vbuf_reserve(&wx, 256);
		gen_dense(&r, &wx, 23 + vrng_below(&r, 100), f);
		if (!run_coder(ROLE_ENC_WITH, f, wc.with, wx.p, wx.n, &PLAN_WHOLE, &wo, why, sizeof(why))) {
			lzma2_wrap(&r, wx.p, wx.n, &ww);
			run_coder(ROLE_DEC_WITH, f, wc.with, ww.p, ww.n, &PLAN_WHOLE, &wo, why, sizeof(why));
		}
		vbuf_free(&wx); vbuf_free(&wo); vbuf_free(&ww);
		hx_count("warmup_cases", 1);
	}

	//////// encoder direction
	for (int pass = 0; pass < 3; ++pass) {
		const slice_plan *pl = pass == 0 ? &PLAN_WHOLE : (pass == 1 ? &pe : &PLAN_ONEBYTE);
		if (pass == 2 && (n > 1500 || pe.mode == SL_ONEBYTE)) break;
		vbuf *cp = pass == 1 ? &comp2 : &comp, *ep = pass == 0 ? &E : &E2;
		fail = run_coder(ROLE_ENC_WITH, f, c.with, x.p, n, pl, cp, why, sizeof(why));
		hx_eval();
		if (fail) { VIOL("bcj-coder-failed|%s|enc|%s", F->name, fail);
			hx_violation(PROP, key, idx, "raw encoder [%s, LZMA2] (%s slicing): %s", F->name, slice_mode_name(pl->mode), why); goto done; }
		fail = run_coder(ROLE_DEC_LZ, f, c.without, cp->p, cp->n, &PLAN_WHOLE, ep, why, sizeof(why));
		if (fail) { VIOL("bcj-coder-failed|%s|lzma2-unwrap|%s", F->name, fail);
			hx_violation(PROP, key, idx, "decoding the encoder's output with [LZMA2] only: %s", why); goto done; }
		if (ep->n != n) { VIOL("bcj-length|%s", F->name);
			hx_violation(PROP, key, idx, "encoder changed the length: %zu -> %zu (%s slicing)", n, ep->n, slice_mode_name(pl->mode)); goto done; }
		if (pass > 0 && n && memcmp(E.p, E2.p, n) != 0) {
			size_t at = first_diff(E.p, E2.p, n);
			describe_diff(diff, sizeof(diff), x.p, E2.p, E.p, n, at);
			VIOL("bcj-slicing|%s|enc", F->name);
			hx_violation(PROP, key, idx, "encoder output under %s slicing (max_in %zu max_out %zu split %zu) differs from one-call output: %s",
					slice_mode_name(pl->mode), pl->max_in, pl->max_out, pl->split, diff);
			goto done;
		}
	}
	if (n && memcmp(E.p, refE.p, n) != 0) {
		size_t at = first_diff(E.p, refE.p, n);
		describe_diff(diff, sizeof(diff), x.p, E.p, refE.p, n, at);
		if (f == F_DELTA) VIOL("delta-ref-mismatch|%s", "enc"); else VIOL("bcj-ref-mismatch|%s|enc", F->name);
		hx_violation(PROP, key, idx, "%s encoder (%s=%u) output differs from the reference transform: %s", F->name,
				f == F_DELTA ? "dist" : "start_offset", param, diff);
		bad = true; // keep going: the other direction and the other referees name the class more precisely
	}
	// round trip of the randomly sliced encoder output, decoder under its own plan
	fail = run_coder(ROLE_DEC_WITH, f, c.with, comp2.p, comp2.n, &pr, &rt, why, sizeof(why));
	hx_eval();
	if (fail) { VIOL("bcj-coder-failed|%s|dec|%s", F->name, fail);
		hx_violation(PROP, key, idx, "raw decoder [%s, LZMA2] (%s slicing) on the encoder's output: %s", F->name, slice_mode_name(pr.mode), why); goto done; }
	if (rt.n != n || (n && memcmp(rt.p, x.p, n) != 0)) {
		size_t at = rt.n == n ? first_diff(rt.p, x.p, n) : 0;
		VIOL("bcj-roundtrip|%s", F->name);
		if (rt.n == n) { describe_diff(diff, sizeof(diff), E.p, rt.p, x.p, n, at);
			hx_violation(PROP, key, idx, "decode(encode(x)) != x (%s=%u): %s [input column = encoded bytes]", f == F_DELTA ? "dist" : "start_offset", param, diff); }
		else hx_violation(PROP, key, idx, "decode(encode(x)) has %zu bytes, x has %zu", rt.n, n);
		goto done;
	}

	//////// decoder direction
	bool hand = vrng_chance(&r, 3, 4);
	if (hand) lzma2_wrap(&r, x.p, n, &wrapped);
	else {
		fail = run_coder(ROLE_ENC_LZ, f, c.without, x.p, n, &PLAN_WHOLE, &wrapped, why, sizeof(why));
		if (fail) { VIOL("bcj-coder-failed|%s|lzma2-wrap|%s", F->name, fail); hx_violation(PROP, key, idx, "[LZMA2] encoder: %s", why); goto done; }
	}
	for (int pass = 0; pass < 3; ++pass) {
		const slice_plan *pl = pass == 0 ? &PLAN_WHOLE : (pass == 1 ? &pd : &PLAN_ONEBYTE);
		if (pass == 2 && (n > 1500 || pd.mode == SL_ONEBYTE)) break;
		vbuf *dp = pass == 0 ? &D : &D2;
		fail = run_coder(ROLE_DEC_WITH, f, c.with, wrapped.p, wrapped.n, pl, dp, why, sizeof(why));
		hx_eval();
		if (fail) { VIOL("bcj-coder-failed|%s|dec|%s", F->name, fail);
			hx_violation(PROP, key, idx, "raw decoder [%s, LZMA2] (%s slicing) on wrapped input: %s", F->name, slice_mode_name(pl->mode), why); goto done; }
		if (dp->n != n) { VIOL("bcj-length|%s", F->name);
			hx_violation(PROP, key, idx, "decoder changed the length: %zu -> %zu (%s slicing)", n, dp->n, slice_mode_name(pl->mode)); goto done; }
		if (pass > 0 && n && memcmp(D.p, D2.p, n) != 0) {
			size_t at = first_diff(D.p, D2.p, n);
			describe_diff(diff, sizeof(diff), x.p, D2.p, D.p, n, at);
			VIOL("bcj-slicing|%s|dec", F->name);
			hx_violation(PROP, key, idx, "decoder output under %s slicing (max_in %zu max_out %zu) differs from one-call output: %s",
					slice_mode_name(pl->mode), pl->max_in, pl->max_out, diff);
			goto done;
		}
	}
	if (n && memcmp(D.p, refD.p, n) != 0) {
		size_t at = first_diff(D.p, refD.p, n);
		describe_diff(diff, sizeof(diff), x.p, D.p, refD.p, n, at);
		if (f == F_DELTA) VIOL("delta-ref-mismatch|%s", "dec"); else VIOL("bcj-ref-mismatch|%s|dec", F->name);
		hx_violation(PROP, key, idx, "%s decoder (%s=%u) output differs from the reference transform: %s", F->name,
				f == F_DELTA ? "dist" : "start_offset", param, diff);
		bad = true;
	}

	//////// one-shot functions
	if (f == F_X86 || f == F_ARM64 || f == F_RISCV) {
		for (int dir = 0; dir < 2; ++dir) {
			size_t (*fn)(uint32_t, uint8_t *, size_t) =
				f == F_X86 ? (dir ? lzma_bcj_x86_decode : lzma_bcj_x86_encode)
				: f == F_ARM64 ? (dir ? lzma_bcj_arm64_decode : lzma_bcj_arm64_encode)
				: (dir ? lzma_bcj_riscv_decode : lzma_bcj_riscv_encode);
			// exact-size heap copy: ASan sees any access past the buffer
			uint8_t *t = malloc(n ? n : 1);
			if (n) memcpy(t, x.p, n);
			size_t ret = fn(param, t, n);
			hx_eval();
			const uint8_t *want = dir ? D.p : E.p;
			size_t slack = f == F_X86 ? 4 : (f == F_ARM64 ? 3 : 7);
			if (ret > n || n - ret > slack || ret % F->align != 0) {
				VIOL("bcj-oneshot-return|%s", F->name);
				hx_violation(PROP, key, idx, "lzma_bcj_%s_%s(%u, buf, %zu) returned %zu", F->name, dir ? "decode" : "encode", param, n, ret);
				free(t); goto done;
			}
			if (n && memcmp(t, want, n) != 0) {
				size_t at = first_diff(t, want, n);
				describe_diff(diff, sizeof(diff), x.p, t, want, n, at);
				VIOL("bcj-oneshot-mismatch|%s|%s", F->name, dir ? "dec" : "enc");
				hx_violation(PROP, key, idx, "lzma_bcj_%s_%s differs from the streaming coder [expected column = streaming]: %s", F->name, dir ? "decode" : "encode", diff);
				free(t); goto done;
			}
			free(t);
		}
		hx_count("oneshot_cases", 1);
	}

	//////// released libraries
	for (int h = 0; h < nhelp; ++h) {
		for (int dir = 0; dir < 2; ++dir) {
			int st = helper_request(&HELP[h], 1, F->id, (unsigned)dir, param, x.p, n, &hr);
			if (st == 1) { char nm[80]; snprintf(nm, sizeof(nm), "%s_unsupported_%s", HELP[h].tag, F->name); hx_count(nm, 1); break; }
			if (st != 0) {
				if (st == 2) { char nm[80]; snprintf(nm, sizeof(nm), "%s_errors", HELP[h].tag); hx_count(nm, 1);
					hx_note("refhelper %s error on case %" PRIu64 ": %.*s", HELP[h].ver, (int)hr.n, (const char *)hr.p); }
				break;
			}
			hx_eval();
			const uint8_t *mine = dir ? D.p : E.p;
			if (hr.n != n || (n && memcmp(hr.p, mine, n) != 0)) {
				if (hr.n == n) { size_t at = first_diff(mine, hr.p, n); describe_diff(diff, sizeof(diff), x.p, mine, hr.p, n, at); }
				else snprintf(diff, sizeof(diff), "released library returned %zu bytes for %zu", hr.n, n);
				VIOL("bcj-released-mismatch|%s|%s|%s", F->name, dir ? "dec" : "enc", HELP[h].ver);
				hx_violation(PROP, key, idx, "%s %s (%s=%u) differs from released liblzma %s [expected column = released]: %s", F->name,
						dir ? "decoder" : "encoder", f == F_DELTA ? "dist" : "start_offset", param, HELP[h].ver, diff);
				bad = true;
			}
			if (dir == 1) { char nm[80]; snprintf(nm, sizeof(nm), "%s_%s", HELP[h].tag, F->name); hx_count(nm, 1); }
		}
	}

	//////// misaligned start_offset must be refused
	if (F->align > 1) {
		chain m; chain_init(&m, f, (param & ~(uint32_t)(F->align - 1)) + 1 + vrng_below(&r, F->align - 1), false);
		for (int dir = 0; dir < 2; ++dir) {
			lzma_stream strm = LZMA_STREAM_INIT;
			lzma_ret ret = dir ? lzma_raw_decoder(&strm, m.with) : lzma_raw_encoder(&strm, m.with);
			lzma_end(&strm);
			hx_eval();
			if (ret != LZMA_OPTIONS_ERROR) {
				VIOL("bcj-misaligned-accepted|%s|%s", F->name, dir ? "dec" : "enc");
				hx_violation(PROP, key, idx, "lzma_raw_%s with %s start_offset=%u (alignment %u) returned %s, expected LZMA_OPTIONS_ERROR",
						dir ? "decoder" : "encoder", F->name, m.param, F->align, lzma_ret_name(ret));
				goto done;
			}
		}
		hx_count("misaligned_refused", 2);
	}

	// ---- position in the chain: the filter under test behind or in front of another filter (the coders take
	// different paths when they are not the outermost one: in-place transformation of the neighbour's output) ----
	if (!bad && vrng_chance(&r, 1, 3)) {
		lzma_options_delta pd2 = { .type = LZMA_DELTA_TYPE_BYTE, .dist = 1 + vrng_below(&r, 256) };
		lzma_options_bcj pb2 = { .start_offset = 0 };
		bool partner_is_x86 = f == F_DELTA && vrng_chance(&r, 1, 2);
		lzma_filter partner = { partner_is_x86 ? LZMA_FILTER_X86 : LZMA_FILTER_DELTA, partner_is_x86 ? (void *)&pb2 : (void *)&pd2 };
		bool under_test_second = vrng_chance(&r, 2, 3);
		lzma_filter ch[4];
		ch[0] = under_test_second ? partner : c.with[0];
		ch[1] = under_test_second ? c.with[0] : partner;
		ch[2] = c.with[1]; ch[3].id = LZMA_VLI_UNKNOWN; ch[3].options = NULL;
		// expected filtered bytes: the references applied in chain order
		vbuf ex = {0}; vbuf_append(&ex, x.p, n); if (n == 0) vbuf_reserve(&ex, 1);
		for (int k = 0; k < 2; ++k) {
			bool is_partner = (k == 0) == under_test_second;
			if (is_partner) { if (partner_is_x86) ref_bcj(0x04, true, 0, ex.p, n); else ref_delta(true, pd2.dist, ex.p, n); }
			else { if (f == F_DELTA) ref_delta(true, param, ex.p, n); else ref_bcj(F->id, true, param, ex.p, n); }
		}
		lzma_stream e3 = LZMA_STREAM_INIT, u3 = LZMA_STREAM_INIT, d3 = LZMA_STREAM_INIT;
		vbuf c3 = {0}, f3 = {0}, r3 = {0}; slice_result sr;
		const char *posn = under_test_second ? "second" : "first-of-three";
		if (lzma_raw_encoder(&e3, ch) != LZMA_OK) { VIOL("bcj-coder-failed|%s|enc|chain3-init", F->name); hx_violation(PROP, key, idx, "raw encoder init with a three-filter chain (%s %s, partner %s)", F->name, posn, partner_is_x86 ? "x86" : "delta"); }
		else {
			slice_plan p3 = pe; p3.final_action = LZMA_FINISH;
			slicer_run(&e3, x.p, n, &c3, &p3, &sr);
			if (sr.ret != LZMA_STREAM_END || sr.protocol_violation) { VIOL("bcj-coder-failed|%s|enc|chain3", F->name); hx_violation(PROP, key, idx, "three-filter chain encoder ended with %s %s", lzma_ret_name(sr.ret), sr.why); }
			else if (lzma_raw_decoder(&u3, c.without) == LZMA_OK && lzma_raw_decoder(&d3, ch) == LZMA_OK) {
				slice_plan pw = PLAN_WHOLE;
				slicer_run(&u3, c3.p, c3.n, &f3, &pw, &sr);
				hx_eval();
				if (f3.n != n || (n && memcmp(f3.p, ex.p, n))) {
					size_t at = f3.n == n ? first_diff(f3.p, ex.p, n) : 0;
					if (f == F_DELTA) VIOL("delta-ref-mismatch|%s", "enc|chain-position"); else VIOL("bcj-ref-mismatch|%s|enc|chain-position", F->name);
					if (f3.n == n) describe_diff(diff, sizeof(diff), x.p, f3.p, ex.p, n, at); else snprintf(diff, sizeof(diff), "%zu bytes instead of %zu", f3.n, n);
					hx_violation(PROP, key, idx, "%s (%s=%u) as the %s filter of a chain with %s(%u): filtered bytes differ from the composed reference transforms: %s",
							F->name, f == F_DELTA ? "dist" : "start_offset", param, posn, partner_is_x86 ? "x86" : "delta", partner_is_x86 ? 0 : pd2.dist, diff);
				}
				slice_plan pr3 = pr; pr3.final_action = LZMA_FINISH;
				slicer_run(&d3, c3.p, c3.n, &r3, &pr3, &sr);
				hx_eval();
				if (sr.ret != LZMA_STREAM_END || r3.n != n || (n && memcmp(r3.p, x.p, n))) {
					VIOL("bcj-roundtrip|%s|chain-position", F->name);
					hx_violation(PROP, key, idx, "decode(encode(x)) != x with %s (%s=%u) as the %s filter of a chain with %s(%u): status %s, %zu of %zu bytes",
							F->name, f == F_DELTA ? "dist" : "start_offset", param, posn, partner_is_x86 ? "x86" : "delta", partner_is_x86 ? 0 : pd2.dist, lzma_ret_name(sr.ret), r3.n, n);
				}
				hx_count(under_test_second ? "chain_position_second" : "chain_position_first_of_three", 1);
				if (f == F_DELTA && param == 256 && under_test_second) hx_count("delta_dist_256_not_first", 1);
			}
		}
		lzma_end(&e3); lzma_end(&u3); lzma_end(&d3);
		vbuf_free(&c3); vbuf_free(&f3); vbuf_free(&r3); vbuf_free(&ex);
	}

	if (!bad) {
		char nm[64];
		snprintf(nm, sizeof(nm), "cases_%s", F->name); hx_count(nm, 1);
		snprintf(nm, sizeof(nm), "converted_enc_%s", F->name); hx_count(nm, count_converted(f, x.p, E.p, n));
		snprintf(nm, sizeof(nm), "converted_dec_%s", F->name); hx_count(nm, count_converted(f, x.p, D.p, n));
		snprintf(nm, sizeof(nm), "kind_%s", kind_names[kind]); hx_count(nm, 1);
		hx_count("bytes", n);
		if (f != F_DELTA && param > UINT32_MAX - n) hx_count("offset_wraps_inside_buffer", 1);
		if (null_options) hx_count("null_options", 1);
		if (f == F_DELTA) {
			if (param == 1) hx_count("delta_dist_1", 1);
			if (param == 256) hx_count("delta_dist_256", 1);
			if (param > n) hx_count("delta_dist_over_size", 1);
			// distances are also enumerated: case k of the delta cases uses 1 + k % 256 half of the time
			snprintf(nm, sizeof(nm), "delta_dist_bucket_%u", (param - 1) / 32); hx_count(nm, 1);
		}
		if (n > (64u << 10)) hx_count("big_buffers", 1);
		uint64_t hsh = vhash(x.p, n, VHASH_INIT);
		hsh = vhash(&f, sizeof(f), hsh); hsh = vhash(&param, sizeof(param), hsh);
		hx_distinct(hsh, n >= 16);
	}
done:
	vbuf_free(&comp); vbuf_free(&comp2); vbuf_free(&E); vbuf_free(&E2); vbuf_free(&D); vbuf_free(&D2);
	vbuf_free(&wrapped); vbuf_free(&rt); vbuf_free(&refE); vbuf_free(&refD); vbuf_free(&one); vbuf_free(&hr); vbuf_free(&x);
}

int main(int argc, char **argv)
{
	hx_parse(argc, argv, &A);
	if (A.prop[0]) PROP = A.prop;
	helpers_start(A.extra);
	signal(SIGVTALRM, on_cpu_limit);
	for (int h = 0; h < nhelp; ++h) hx_note("referee: released liblzma %s", HELP[h].ver);
	uint64_t idx = UINT64_MAX;
	while (hx_next_case(&A, &idx)) run_case(idx);
	helpers_stop();
	streams_end();
	hx_finish();
	return (A.only >= 0 && n_my_viol) ? 1 : 0;
}
