// hx_fmt: format-conformance monitors built on the independent decoder
// (refdec) and the independent synthesiser (synth).
//   --mode c03   decoders accept exactly the valid streams (differential)
//   --mode c05   corruption/truncation never reported as success (fault enumeration)
//   --mode c16   .lzma / .lz / auto-detection rules (differential + cross-decoder)
#define _GNU_SOURCE
#include "vh.h"
#include "gen_stream.h"
#include "dec_common.h"
#include "ref/refdec.h"
#include "ref/synth.h"

static hx_args A;
static char **corpus; static size_t ncorpus;

typedef struct { lzma_ret ret; vbuf out; uint64_t total_in; bool init_failed; bool protocol_violation; char why[200]; } lres;

static void lres_free(lres *l) { vbuf_free(&l->out); }

static slice_plan g_plan_override; static bool g_plan_override_on;

static void run_lib(dec_spec *s, const uint8_t *in, size_t n, lzma_action fin, lres *l)
{
	memset(l, 0, sizeof(*l));
	slice_plan p = { .mode = SL_WHOLE, .final_action = fin, .continue_informational = true };
	if (g_plan_override_on) { p = g_plan_override; p.final_action = fin; p.continue_informational = true; }
	dec_result d;
	dec_run(s, NULL, in, n, &p, &d);
	l->ret = d.init_failed ? d.init_ret : d.ret;
	l->init_failed = d.init_failed;
	l->out = d.out; l->total_in = d.total_in + (d.init_failed ? 0 : s->skip);
	l->protocol_violation = d.sr.protocol_violation;
	snprintf(l->why, sizeof(l->why), "%s", d.sr.why);
}

static bool lib_accepts(const lres *l) { return !l->init_failed && l->ret == LZMA_STREAM_END; }
static bool lib_noverdict(const lres *l) { return l->ret == LZMA_MEM_ERROR || l->ret == LZMA_MEMLIMIT_ERROR; }

// verdict classes of refdec
enum { V_VALID, V_VALID_UNVERIFIED_CHECK, V_INVALID, V_UNSUPPORTED, V_NOVERDICT };
static int rd_class(const rd_result *R)
{
	if (R->status == RD_LIMIT || R->relaxation_zone) return V_NOVERDICT;
	if (R->status == RD_OK) return V_VALID;
	if (R->status == RD_UNSUPPORTED) return (R->unsupported_what == RDU_CHECK) ? V_VALID_UNVERIFIED_CHECK : V_UNSUPPORTED;
	return V_INVALID;
}

// lzma1_ext: 0 = LZMA_FILTER_LZMA1; 1 = LZMA_FILTER_LZMA1EXT with ext_size = lzma_size (UINT64_MAX: unknown) and ext_flags
static bool conv_chain_ext(const synth_filter *sf, unsigned nf, lzma_filter *lf, rd_filter *rf, int lzma1_ext, uint64_t lzma_size, uint32_t ext_flags, void **to_free)
{
	for (unsigned i = 0; i < nf; ++i) {
		rf[i].id = sf[i].id == SYNTH_ID_LZMA1 ? RD_FILTER_LZMA1 : sf[i].id;
		rf[i].props_len = sf[i].props_len; memcpy(rf[i].props, sf[i].props, sf[i].props_len);
		lf[i].id = sf[i].id == SYNTH_ID_LZMA1 ? LZMA_FILTER_LZMA1 : (lzma_vli)sf[i].id;
		lf[i].options = NULL;
		if (lzma_properties_decode(&lf[i], NULL, sf[i].props_len ? sf[i].props : NULL, sf[i].props_len) != LZMA_OK) { for (unsigned j = 0; j < i; ++j) free(lf[j].options); return false; }
		to_free[i] = lf[i].options;
		if (lf[i].id == LZMA_FILTER_LZMA1 && lzma1_ext) {
			lf[i].id = LZMA_FILTER_LZMA1EXT;
			lzma_options_lzma *o = lf[i].options; o->ext_flags = ext_flags; lzma_set_ext_size(*o, lzma_size);
		}
	}
	lf[nf].id = LZMA_VLI_UNKNOWN; lf[nf].options = NULL;
	return true;
}

static bool conv_chain(const synth_filter *sf, unsigned nf, lzma_filter *lf, rd_filter *rf, bool lzma1_no_eopm, uint64_t lzma_size, void **to_free)
{
	return conv_chain_ext(sf, nf, lf, rf, lzma1_no_eopm ? 1 : 0, lzma_size, 0, to_free);
}

/////////
// C03 //
/////////

static void c03_case(uint64_t idx)
{
	vrng r; vrng_init(&r, A.seed, 0xC03, idx, 0);
	hx_case_begin(idx);
	vbuf data = {0}, plain = {0};
	synth_info info; memset(&info, 0, sizeof(info));
	synth_opts so = { .max_plain = vrng_chance(&r, 1, 10) ? 65536 : 4096, .flags = 0, .max_dict = 1u << 20 };
	if (vrng_chance(&r, 1, 2)) so.flags |= SYNTH_ONLY_SUPPORTED;
	unsigned source = vrng_below(&r, 10);   // 0-5 synth, 6-7 encoder output, 8-9 corpus
	int kind;           // SK_XZ, SK_BLOCK, SK_RAW
	synth_filter sf[4]; unsigned nsf = 0;
	gstream g; bool g_valid = false;
	uint8_t preset[256]; size_t preset_len = 0;
	char desc[500];
	bool from_synth = false;
	unsigned check_id = 0;
	if (source < 6) {
		from_synth = true;
		unsigned k = vrng_below(&r, 10);
		if (k < 5) { kind = SK_XZ; synth_xz(&r, &so, &data, &plain, &info); }
		else if (k < 7) { kind = SK_BLOCK; static const unsigned cks[] = { 0, 1, 4, 10 }; check_id = cks[vrng_below(&r, 4)]; synth_block(&r, &so, check_id, &data, &plain, &info); }
		else { kind = SK_RAW; synth_raw_chain(&r, &so, sf, &nsf, &data, &plain, &info); }
		snprintf(desc, sizeof(desc), "synth:%s", info.desc);
	} else if (source < 8 || !ncorpus) {
		static const int ks[] = { SK_XZ, SK_XZ, SK_BLOCK, SK_RAW };
		gen_stream(&r, &g, ks[vrng_below(&r, 4)], 6000); g_valid = true; kind = g.kind;
		vbuf_append(&data, g.data.p, g.data.n); vbuf_append(&plain, g.plain.p, g.plain.n);
		check_id = (unsigned)g.check;
		snprintf(desc, sizeof(desc), "enc:%s", g.desc);
	} else {
		if (!gen_corpus(&r, &g, corpus, ncorpus) || g.sub != SK_XZ) { if (g.data.p) gstream_free(&g); gen_stream(&r, &g, SK_XZ, 3000); }
		g_valid = true; kind = SK_XZ;
		vbuf_append(&data, g.data.p, g.data.n);
		snprintf(desc, sizeof(desc), "%s", g.desc);
	}
	(void)preset; (void)preset_len;
	bool mutated = false; char md[160] = "";
	vbuf orig = {0}; vbuf_append(&orig, data.p, data.n);
	if (vrng_chance(&r, 3, 5)) {
		mutate(&r, &data, md, sizeof(md)); mutated = true;
		if (kind == SK_XZ && vrng_chance(&r, 1, 2)) xz_fix_header_crcs(&data);
	}
	bool reuse = vrng_chance(&r, 1, 5) && kind != SK_BLOCK;
	hx_sample("c03 %s%s%s (%zu bytes)", desc, mutated ? " MUT:" : "", md, data.n);
	// --- refdec ---
	rd_result R; memset(&R, 0, sizeof(R));
	size_t limit = (1u << 20) + 4 * plain.n;
	rd_filter rf[4]; lzma_filter lf[LZMA_FILTERS_MAX + 1]; void *tofree[4] = { NULL, NULL, NULL, NULL };
	dec_spec spec; memset(&spec, 0, sizeof(spec)); spec.memlimit = UINT64_MAX;
	bool concatenated = kind == SK_XZ;   // synth_xz may emit several Streams
	bool have_lib = true;
	if (kind == SK_XZ) {
		rd_xz_decode(data.p, data.n, RD_CONCATENATED, limit, &R);
		spec.kind = D_STREAM; spec.flags = LZMA_CONCATENATED;
	} else if (kind == SK_BLOCK) {
		rd_block_decode(data.p, data.n, check_id, limit, &R);
		spec.kind = D_BLOCK; spec.check = (lzma_check)check_id;
	} else {
		bool ok;
		uint64_t known = UINT64_MAX; bool allow_eopm = true;
		if (from_synth) {
			bool last_lzma1 = nsf && sf[nsf - 1].id == SYNTH_ID_LZMA1;
			bool no_eopm = last_lzma1 && !info.eopm;
			// every way of telling the LZMA1 decoder where the stream ends that is valid for this stream:
			//   with end marker:    LZMA1 | LZMA1EXT size unknown (flags 0 or ALLOW_EOPM) | LZMA1EXT size known + ALLOW_EOPM
			//   without end marker: LZMA1EXT size known (flags 0 or ALLOW_EOPM)
			unsigned how = vrng_below(&r, 4);
			int ext = 0; uint64_t esize = UINT64_MAX; uint32_t eflags = 0;
			if (no_eopm) { ext = 1; esize = info.lzma_uncomp_size; eflags = (how & 1) ? LZMA_LZMA1EXT_ALLOW_EOPM : 0; known = esize; allow_eopm = (how & 1) != 0; }
			else if (last_lzma1 && how == 1) { ext = 1; eflags = 0; }
			else if (last_lzma1 && how == 2) { ext = 1; eflags = LZMA_LZMA1EXT_ALLOW_EOPM; }
			else if (last_lzma1 && how == 3) { ext = 1; esize = info.lzma_uncomp_size; eflags = LZMA_LZMA1EXT_ALLOW_EOPM; known = esize; allow_eopm = true; }
			if (ext) { char nm[48]; snprintf(nm, sizeof(nm), "lzma1ext_%s_%s", esize == UINT64_MAX ? "unknown" : "known", eflags ? "alloweopm" : "noflags"); hx_count(nm, 1); }
			ok = conv_chain_ext(sf, nsf, lf, rf, ext, esize, eflags, tofree);
		} else {
			// encoder chain -> props
			nsf = g.cfg.nfilters; ok = true;
			for (unsigned i = 0; i < nsf && ok; ++i) {
				uint32_t sz = 0; lzma_filter f = g.cfg.filters[i];
				if (lzma_properties_size(&sz, &f) != LZMA_OK || sz > 16) { ok = false; break; }
				sf[i].id = f.id == LZMA_FILTER_LZMA1 ? SYNTH_ID_LZMA1 : (uint64_t)f.id; sf[i].props_len = sz;
				if (sz && lzma_properties_encode(&f, sf[i].props) != LZMA_OK) ok = false;
			}
			if (ok && g.cfg.lzma.preset_dict) ok = false;  // preset dictionaries are exercised through synth
			if (ok) ok = conv_chain(sf, nsf, lf, rf, false, 0, tofree);
		}
		if (!ok) have_lib = false;
		else {
			rd_raw_decode(rf, nsf, data.p, data.n, known, allow_eopm, NULL, 0, limit, &R);
			spec.kind = D_RAW; spec.filters = lf;
		}
	}
	char key[200];
	if (have_lib) {
		if (reuse) { spec.warm_in = orig.p; spec.warm_n = orig.n; hx_count("reused_handle_cases", 1); }
		lres L; run_lib(&spec, data.p, data.n, LZMA_FINISH, &L);
		hx_eval();
		int vc = rd_class(&R);
		if (lib_noverdict(&L)) vc = V_NOVERDICT;
		const char *kn = sk_names[kind];
		bool acc = lib_accepts(&L);
		if (L.protocol_violation) { snprintf(key, sizeof(key), "protocol|%s", kn); hx_violation("C03", key, idx, "%s; %s %s", L.why, desc, md); }
		else if (vc == V_VALID || vc == V_VALID_UNVERIFIED_CHECK) {
			if (!acc) {
				snprintf(key, sizeof(key), "valid-stream-rejected|%s", kn);
				hx_violation("C03", key, idx, "the independent decoder accepts (%s) but liblzma returns %s after %" PRIu64 " of %zu bytes; %s %s", rd_status_name(R.status), lzma_ret_name(L.ret), L.total_in, data.n, desc, md);
			} else if (L.out.n != R.out_len || (R.out_len && memcmp(L.out.p, R.out, R.out_len))) {
				snprintf(key, sizeof(key), "decoded-output-differs|%s", kn);
				hx_violation("C03", key, idx, "liblzma delivers %zu bytes, the specified decoding has %zu bytes; %s %s", L.out.n, R.out_len, desc, md);
			} else if (L.total_in != R.consumed && !(kind == SK_XZ && concatenated)) {
				snprintf(key, sizeof(key), "consumed-differs|%s", kn);
				hx_violation("C03", key, idx, "liblzma consumed %" PRIu64 ", specification says the structure is %zu bytes; %s %s", L.total_in, R.consumed, desc, md);
			}
			if (!mutated && from_synth && acc && (L.out.n != plain.n || (plain.n && memcmp(L.out.p, plain.p, plain.n)))) {
				snprintf(key, sizeof(key), "synth-plaintext-differs|%s", kn);
				hx_violation("C03", key, idx, "liblzma output differs from the plaintext the stream was synthesised from; %s", desc);
			}
			hx_count(mutated ? "mutants_still_valid" : "valid_accepted", 1);
		} else if (vc == V_INVALID || vc == V_UNSUPPORTED) {
			if (acc) {
				snprintf(key, sizeof(key), "invalid-stream-accepted|%s|%s", kn, vc == V_INVALID ? "invalid" : "unsupported");
				hx_violation("C03", key, idx, "liblzma returns STREAM_END but the specification rejects: %s at offset %zu: %s; %s %s", rd_status_name(R.status), R.err_offset, R.why, desc, md);
			}
			hx_count(vc == V_INVALID ? "invalid_rejected" : "unsupported_rejected", 1);
			if (R.err_offset > 24) hx_count("rejected_after_first_header", 1);
		} else hx_count("no_verdict", 1);
		if (!mutated && from_synth && vc != V_VALID && vc != V_VALID_UNVERIFIED_CHECK && vc != V_NOVERDICT) {
			snprintf(key, sizeof(key), "referees-disagree|synth-vs-refdec|%s", kn);
			hx_violation("C03", key, idx, "synthesised stream rejected by the independent decoder: %s: %s; %s", rd_status_name(R.status), R.why, desc);
		}
		// coverage accounting from the reference parse
		if (vc == V_VALID || vc == V_VALID_UNVERIFIED_CHECK) {
			for (size_t c = 0; c < R.nchunks; ++c) {
				uint8_t ct = R.chunks[c].control;
				const char *cn = ct == 1 ? "ctrl_01" : ct == 2 ? "ctrl_02" : ct < 0xA0 ? "ctrl_80" : ct < 0xC0 ? "ctrl_A0" : ct < 0xE0 ? "ctrl_C0" : "ctrl_E0";
				hx_count(cn, 1);
			}
			for (size_t b = 0; b < R.nblocks; ++b) {
				char nm[40]; snprintf(nm, sizeof(nm), "chain_len_%u", R.blocks[b].nfilters); hx_count(nm, 1);
				if (R.blocks[b].uncomp_size == 0) hx_count("empty_blocks", 1);
				if (!R.blocks[b].has_comp_size && !R.blocks[b].has_uncomp_size) hx_count("blocks_without_size_fields", 1); else hx_count("blocks_with_size_fields", 1);
				if (R.blocks[b].lc != 3 || R.blocks[b].lp != 0 || R.blocks[b].pb != 2) hx_count("nondefault_lclppb", 1);
			}
			if (R.nstreams > 1) hx_count("multi_stream", 1);
			if (R.unsupported_check) hx_count("reserved_check_ids", 1);
		}
		lres_free(&L);
		uint64_t h = vhash(data.p, data.n, VHASH_INIT); h = vhash(&kind, sizeof(kind), h);
		hx_distinct(h, R.nblocks > 0 || R.err_offset > 12);
	}
	for (unsigned i = 0; i < 4; ++i) free(tofree[i]);
	rd_result_free(&R);
	vbuf_free(&data); vbuf_free(&plain); vbuf_free(&orig);
	if (g_valid) gstream_free(&g);
}

/////////
// C05 //
/////////

enum { F_XZ, F_LZMA, F_LZ };

static bool field_is_payload(const rd_result *R, size_t off, int *kind_out)
{
	for (size_t i = 0; i < R->nfields; ++i)
		if (off >= R->fields[i].off && off < R->fields[i].off + R->fields[i].len) { *kind_out = R->fields[i].kind; return R->fields[i].kind == RDF_BLOCK_PAYLOAD || R->fields[i].kind == RDF_ALONE_PAYLOAD || R->fields[i].kind == RDF_LZIP_PAYLOAD; }
	*kind_out = -1;
	return false;
}

typedef struct { int fmt; bool has_check; bool multi; const uint8_t *plain; size_t plain_n; const rd_result *R0; const char *desc; uint64_t idx; size_t orig_n; const uint8_t *orig; } c05_ctx;

// Decode damaged file `d` with all applicable decoders and apply the oracle.
// dmg_off = offset of the (first) damaged byte or (size_t)-1 for truncation.
static void c05_probe(const c05_ctx *c, const uint8_t *d, size_t n, const char *what, size_t dmg_off, bool exhaustive_part)
{
	(void)exhaustive_part;
	static const int xz_decs[] = { D_STREAM, D_STREAM_MT, D_AUTO };
	static const int lzma_decs[] = { D_ALONE, D_AUTO };
	static const int lz_decs[] = { D_LZIP, D_AUTO };
	const int *decs = c->fmt == F_XZ ? xz_decs : (c->fmt == F_LZMA ? lzma_decs : lz_decs);
	unsigned ndecs = c->fmt == F_XZ ? 3 : 2;
	int fkind = -1; bool payload = true;
	if (dmg_off != (size_t)-1) payload = field_is_payload(c->R0, dmg_off, &fkind);
	// is the damaged file itself a valid file? (e.g. cut at a Stream/member boundary)
	rd_result R; memset(&R, 0, sizeof(R)); bool r_done = false;
	char key[200];
	for (unsigned k = 0; k < ndecs; ++k) {
		// MT decoder only on a sample (threads are slow to start)
		if (decs[k] == D_STREAM_MT && (vhash(d, n, 7) & 15) != 0) continue;
		dec_spec s; dec_spec_for(&s, decs[k], NULL);
		if (c->multi || c->fmt == F_LZ) s.flags |= LZMA_CONCATENATED;
		if (decs[k] == D_ALONE) s.flags = 0;
		// variants (sampled by a hash of the damaged bytes so that every base file sees all of them):
		//  - a reused handle: the same lzma_stream decoded the undamaged file first, no lzma_end() in between
		//  - the input arrives in small random pieces / everything with LZMA_RUN and then LZMA_FINISH without input
		uint64_t hv = vhash(d, n, 0x5eed + (uint64_t)k);
		if ((hv & 3) == 0 && decs[k] != D_STREAM_MT) { s.warm_in = c->orig; s.warm_n = c->orig_n; hx_count("reused_handle_probes", 1); }
		g_plan_override_on = false;
		if (((hv >> 2) & 3) == 0) {
			memset(&g_plan_override, 0, sizeof(g_plan_override));
			g_plan_override.mode = SL_RANDOM; g_plan_override.seed = hv; g_plan_override.max_in = 1 + (hv >> 8) % 7; g_plan_override.max_out = 4096;
			g_plan_override_on = true; hx_count("sliced_probes", 1);
		}
		lres L; run_lib(&s, d, n, LZMA_FINISH, &L);
		g_plan_override_on = false;
		hx_eval();
		bool success = lib_accepts(&L) && (L.total_in == n || (c->fmt == F_LZ));
		if (success) {
			bool same = L.out.n == c->plain_n && (c->plain_n == 0 || memcmp(L.out.p, c->plain, c->plain_n) == 0);
			if (!r_done) {
				size_t lim = c->plain_n * 4 + 65536;
				if (c->fmt == F_XZ) rd_xz_decode(d, n, c->multi ? RD_CONCATENATED : 0, lim, &R);
				else if (c->fmt == F_LZMA) rd_alone_decode(d, n, lim, &R);
				else rd_lzip_decode(d, n, RD_CONCATENATED, lim, &R);
				r_done = true;
			}
			bool valid_file = (R.status == RD_OK || (R.status == RD_UNSUPPORTED && R.unsupported_what == RDU_CHECK)) && !R.relaxation_zone;
			bool valid_same_output = valid_file && R.out_len == L.out.n && (L.out.n == 0 || memcmp(R.out, L.out.p, L.out.n) == 0);
			if (!same && c->has_check && !valid_same_output) {
				snprintf(key, sizeof(key), "damage-reported-as-success|%s|%s", d_names[decs[k]], what);
				hx_violation("C05", key, c->idx, "%s of %s: decoder %s reports success with %zu output bytes that differ from the original %zu bytes (damaged field: %s)", what, c->desc, d_names[decs[k]], L.out.n, c->plain_n, fkind >= 0 ? rd_field_name(fkind) : "-");
			}
			if (c->fmt == F_XZ && dmg_off != (size_t)-1 && !payload && !valid_same_output) {
				snprintf(key, sizeof(key), "non-payload-damage-accepted|%s|%s", d_names[decs[k]], fkind >= 0 ? rd_field_name(fkind) : "?");
				hx_violation("C05", key, c->idx, "%s at offset %zu (%s) of %s: decoder %s reports success", what, dmg_off, fkind >= 0 ? rd_field_name(fkind) : "?", c->desc, d_names[decs[k]]);
			}
			if (dmg_off == (size_t)-1 && n < c->orig_n && !valid_file) {
				snprintf(key, sizeof(key), "truncated-file-reported-complete|%s", d_names[decs[k]]);
				hx_violation("C05", key, c->idx, "%s of %s cut to %zu of %zu bytes: decoder %s reports a complete file", what, c->desc, n, c->orig_n, d_names[decs[k]]);
			}
			hx_count(valid_file ? "damaged_but_valid_files" : "success_with_same_output", 1);
		} else hx_count("damage_detected", 1);
		lres_free(&L);
	}
	if (r_done) rd_result_free(&R);
}

static void c05_case(uint64_t idx)
{
	vrng r; vrng_init(&r, A.seed, 0xC05, idx, 0);
	hx_case_begin(idx);
	// base file: 100..2000 bytes, all container kinds
	vbuf data = {0}, plain = {0};
	char desc[400];
	int fmt; bool has_check = true, multi = false;
	unsigned k = vrng_below(&r, 14);
	synth_info info; memset(&info, 0, sizeof(info));
	synth_opts so = { .max_plain = 600, .flags = SYNTH_ONLY_SUPPORTED | SYNTH_NO_TRAILING, .max_dict = 1u << 16, .max_blocks = 3, .max_streams = 3, .max_members = 3 };
	gstream g; bool g_valid = false;
	for (int attempt = 0; attempt < 20; ++attempt) {
		vbuf_clear(&data); vbuf_clear(&plain);
		if (g_valid) { gstream_free(&g); g_valid = false; }
		if (k >= 10) {
			// incompressible plaintext (the encoder stores it: a flip of payload bit i is a flip of plaintext bit i), every
			// check type, lengths at every residue that matters to a block-oriented check (SHA-256: 64-byte blocks,
			// length padding from 56): the integrity check must cover every byte up to the last
			static const unsigned res[] = { 0, 1, 31, 32, 54, 55, 56, 57, 60, 62, 63 };
			static const lzma_check cks[] = { LZMA_CHECK_CRC32, LZMA_CHECK_CRC64, LZMA_CHECK_SHA256, LZMA_CHECK_SHA256 };
			size_t n = 64 * (size_t)vrng_below(&r, A.thorough ? 48 : 24) + res[vrng_below(&r, 11)];   // (every probe of a base costs O(n), a quarter of them O(n) calls)
			lzma_check ck = cks[vrng_below(&r, 4)];
			fmt = F_XZ; multi = false; has_check = true;
			vbuf_reserve(&plain, n + 1); vrng_fill(&r, plain.p, n); plain.n = n;
			lzma_options_lzma o; lzma_lzma_preset(&o, 0);
			lzma_filter f[2] = { { LZMA_FILTER_LZMA2, &o }, { LZMA_VLI_UNKNOWN, NULL } };
			size_t bound = lzma_stream_buffer_bound(n), pos = 0;
			vbuf_reserve(&data, bound + 1);
			if (lzma_stream_buffer_encode(f, ck, NULL, plain.p, n, data.p, &pos, bound) != LZMA_OK) pos = 0;
			data.n = pos;
			snprintf(desc, sizeof(desc), "stored:xz[%zu random bytes (%zu mod 64), check=%d]", n, n % 64, (int)ck);
			hx_count("base_stored_payload", 1);
		}
		else if (k < 3) { fmt = F_XZ; synth_xz(&r, &so, &data, &plain, &info); multi = info.nstreams > 1 || info.stream_padding > 0; has_check = !(info.check_mask & 1); snprintf(desc, sizeof(desc), "synth:%s", info.desc); }
		else if (k < 6) {
			fmt = F_XZ; unsigned ns = 1 + vrng_below(&r, 3), nb = 1 + vrng_below(&r, 3);
			gen_xz_multi(&r, &g, ns, nb, 700, vrng_chance(&r, 1, 3), true); g_valid = true;
			vbuf_append(&data, g.data.p, g.data.n); vbuf_append(&plain, g.plain.p, g.plain.n);
			multi = true; snprintf(desc, sizeof(desc), "enc:%s", g.desc);
			has_check = strstr(g.desc, "check=0") == NULL;
		}
		else if (k < 7) { fmt = F_LZMA; synth_alone(&r, &so, &data, &plain, &info); has_check = false; snprintf(desc, sizeof(desc), "synth:%s", info.desc); }
		else if (k < 8) { fmt = F_LZMA; gen_stream(&r, &g, SK_ALONE, 700); g_valid = true; vbuf_append(&data, g.data.p, g.data.n); vbuf_append(&plain, g.plain.p, g.plain.n); has_check = false; snprintf(desc, sizeof(desc), "enc:%s", g.desc); }
		else { fmt = F_LZ; synth_lzip(&r, &so, &data, &plain, &info); has_check = true; multi = true; snprintf(desc, sizeof(desc), "synth:%s", info.desc); }
		if (data.n >= 60 && data.n <= (A.thorough ? 16384u : 2200u)) break;
	}
	rd_result R0; memset(&R0, 0, sizeof(R0));
	size_t lim = plain.n * 4 + 65536;
	if (fmt == F_XZ) rd_xz_decode(data.p, data.n, RD_CONCATENATED, lim, &R0);
	else if (fmt == F_LZMA) rd_alone_decode(data.p, data.n, lim, &R0);
	else rd_lzip_decode(data.p, data.n, RD_CONCATENATED, lim, &R0);
	hx_sample("c05 base %s (%zu bytes, fmt %d, check %d)", desc, data.n, fmt, has_check);
	if (R0.status != RD_OK || R0.out_len != plain.n || R0.relaxation_zone) {
		// base file must be valid for both referees; otherwise skip (counted)
		hx_count("base_files_skipped", 1);
		if (k >= 10 && data.n) {
			// liblzma's own output that the reference decoder does not accept (C02's subject). The statement of C05
			// does not depend on a referee: if liblzma decodes it to the plaintext, no bit flip may give success with
			// other data.
			dec_spec sp; memset(&sp, 0, sizeof(sp)); sp.kind = D_STREAM; sp.memlimit = UINT64_MAX;
			lres L0; run_lib(&sp, data.p, data.n, LZMA_FINISH, &L0);
			bool base_ok = lib_accepts(&L0) && L0.out.n == plain.n && (plain.n == 0 || memcmp(L0.out.p, plain.p, plain.n) == 0);
			lres_free(&L0);
			if (base_ok) {
				hx_count("base_files_without_referee", 1);
				uint8_t *dd = malloc(data.n);
				for (size_t off = 0; off < data.n; ++off) for (unsigned bit = 0; bit < 8; ++bit) {
					memcpy(dd, data.p, data.n); dd[off] ^= (uint8_t)(1u << bit);
					lres L; run_lib(&sp, dd, data.n, LZMA_FINISH, &L); hx_eval();
					if (lib_accepts(&L) && (L.out.n != plain.n || (plain.n && memcmp(L.out.p, plain.p, plain.n)))) {
						hx_violation("C05", "damage-reported-as-success|stream|bit-flip", idx, "bit %u of byte %zu flipped: LZMA_STREAM_END with output that differs from the original; base %s", bit, off, desc);
						lres_free(&L); break;
					}
					lres_free(&L);
				}
				free(dd);
			}
		}
		goto out;
	}
	c05_ctx c = { .fmt = fmt, .has_check = has_check, .multi = multi, .plain = plain.p, .plain_n = plain.n, .R0 = &R0, .desc = desc, .idx = idx, .orig_n = data.n, .orig = data.p };
	// the undamaged file must decode (sanity of the harness itself)
	c05_probe(&c, data.p, data.n, "undamaged", (size_t)-1, false);
	uint8_t *d = malloc(data.n + 64);
	// every single-bit flip
	for (size_t off = 0; off < data.n; ++off) for (unsigned bit = 0; bit < 8; ++bit) {
		memcpy(d, data.p, data.n); d[off] ^= (uint8_t)(1u << bit);
		c05_probe(&c, d, data.n, "bit-flip", off, true);
	}
	hx_count("bit_flips", data.n * 8);
	// every single-bit flip of a CRC32-protected .xz field WITH the protecting CRC32 recomputed (damage that a
	// checksum alone cannot see: the field has to be consistent with the rest of the file)
	if (fmt == F_XZ) {
		for (size_t fi = 0; fi < R0.nfields; ++fi) {
			const rd_field *f = &R0.fields[fi];
			int crc_kind; int first_kind;
			if (f->kind == RDF_STREAM_FLAGS) { crc_kind = RDF_STREAM_HEADER_CRC; first_kind = RDF_STREAM_FLAGS; }
			else if (f->kind == RDF_FOOTER_BACKWARD_SIZE || f->kind == RDF_FOOTER_FLAGS) { crc_kind = RDF_FOOTER_CRC; first_kind = RDF_FOOTER_BACKWARD_SIZE; }
			else if (f->kind >= RDF_BLOCK_HEADER_SIZE && f->kind <= RDF_BLOCK_HEADER_PADDING) { crc_kind = RDF_BLOCK_HEADER_CRC; first_kind = RDF_BLOCK_HEADER_SIZE; }
			else if (f->kind >= RDF_INDEX_INDICATOR && f->kind <= RDF_INDEX_PADDING) { crc_kind = RDF_INDEX_CRC; first_kind = RDF_INDEX_INDICATOR; }
			else continue;
			const rd_field *cf = NULL, *ff = NULL;
			for (size_t k = 0; k < R0.nfields; ++k) {
				const rd_field *q = &R0.fields[k];
				if (q->stream != f->stream) continue;
				bool blk = crc_kind == RDF_BLOCK_HEADER_CRC;
				if (q->kind == crc_kind && (!blk || q->block == f->block)) cf = q;
				if (q->kind == first_kind && (!blk || q->block == f->block) && ff == NULL) ff = q;
			}
			if (!cf || !ff || cf->len != 4 || f->len > 64) continue;
			size_t from = ff->off, to = crc_kind == RDF_FOOTER_CRC ? ff->off + 6 : (crc_kind == RDF_STREAM_HEADER_CRC ? ff->off + 2 : cf->off);
			if (to > data.n || from >= to) continue;
			for (size_t off = f->off; off < f->off + f->len; ++off) for (unsigned bit = 0; bit < 8; ++bit) {
				memcpy(d, data.p, data.n); d[off] ^= (uint8_t)(1u << bit);
				uint32_t crc = lzma_crc32(d + from, to - from, 0);
				for (int q = 0; q < 4; ++q) d[cf->off + (size_t)q] = (uint8_t)(crc >> (8 * q));
				c05_probe(&c, d, data.n, "crc-consistent-flip", off, true);
				hx_count("crc_consistent_flips", 1);
			}
		}
	}
	// the undamaged file on a handle whose first life ended inside a damaged (cut) copy of it
	for (unsigned q = 0; q < 6 && data.n > 8; ++q) {
		static const int dk[] = { D_STREAM_MT, D_STREAM, D_STREAM_MT, D_AUTO, D_STREAM_MT, D_LZIP };
		int kind = dk[q];
		if ((fmt == F_XZ) != (kind == D_STREAM_MT || kind == D_STREAM || kind == D_AUTO)) { if (!(fmt == F_LZ && (kind == D_LZIP || kind == D_AUTO))) continue; }
		if (fmt == F_LZMA) continue;
		dec_spec sp; memset(&sp, 0, sizeof(sp)); sp.kind = kind; sp.memlimit = UINT64_MAX; sp.memlimit_threading = UINT64_MAX; sp.threads = 2 + (q & 1);
		sp.flags = LZMA_CONCATENATED;
		size_t cut = 1 + (size_t)vrng_below64(&r, data.n - 1);
		sp.warm_in = data.p; sp.warm_n = cut; sp.warm_exact = true;
		lres L; run_lib(&sp, data.p, data.n, LZMA_FINISH, &L); hx_eval();
		if (!lib_noverdict(&L) && (!lib_accepts(&L) || L.out.n != plain.n || (plain.n && memcmp(L.out.p, plain.p, plain.n)))) {
			char key[160]; snprintf(key, sizeof(key), "intact-file-wrong-after-damaged-one|%s", d_names[kind]);
			hx_violation("C05", key, idx, "a handle that first decoded the file cut at %zu (no lzma_end) then decodes the intact file to %zu bytes with %s (expected %zu bytes, LZMA_STREAM_END); base %s", cut, L.out.n, lzma_ret_name(L.ret), plain.n, desc);
		}
		lres_free(&L);
		hx_count("intact_after_damaged_probes", 1);
	}
	// every truncation length
	for (size_t len = 0; len < data.n; ++len) c05_probe(&c, data.p, len, "truncation", (size_t)-1, true);
	hx_count("truncations", data.n);
	// random multi-byte overwrites, insertions, deletions
	for (unsigned m = 0; m < 300; ++m) {
		vbuf t = {0}; vbuf_append(&t, data.p, data.n);
		unsigned kk = vrng_below(&r, 3);
		size_t off = (size_t)vrng_below64(&r, t.n); size_t l = 1 + vrng_below(&r, 8);
		const char *what;
		if (kk == 0) { if (l > t.n - off) l = t.n - off; for (size_t i = 0; i < l; ++i) t.p[off + i] = (uint8_t)vrng_u64(&r); what = "overwrite"; if (memcmp(t.p, data.p, data.n) == 0) { vbuf_free(&t); continue; } }
		else if (kk == 1) { vbuf_reserve(&t, t.n + l); memmove(t.p + off + l, t.p + off, t.n - off); for (size_t i = 0; i < l; ++i) t.p[off + i] = vrng_chance(&r, 1, 2) ? 0 : (uint8_t)vrng_u64(&r); t.n += l; what = "insertion"; }
		else { if (l > t.n - off) l = t.n - off; memmove(t.p + off, t.p + off + l, t.n - off - l); t.n -= l; what = "deletion"; }
		// classify by the first damaged offset in the original's field map
		c05_probe(&c, t.p, t.n, what, kk == 2 && off >= data.n ? data.n - 1 : off, false);
		vbuf_free(&t);
	}
	free(d);
	hx_count("base_files", 1);
	{ char nm[40]; snprintf(nm, sizeof(nm), "base_fmt_%d", fmt); hx_count(nm, 1); }
	if (multi) hx_count("base_multi", 1);
	hx_distinct(vhash(data.p, data.n, VHASH_INIT), true);
out:
	rd_result_free(&R0);
	vbuf_free(&data); vbuf_free(&plain);
	if (g_valid) gstream_free(&g);
}

/////////
// C16 //
/////////

static void c16_case(uint64_t idx)
{
	vrng r; vrng_init(&r, A.seed, 0xC16, idx, 0);
	hx_case_begin(idx);
	vbuf data = {0}, plain = {0};
	synth_info info; memset(&info, 0, sizeof(info));
	synth_opts so = { .max_plain = vrng_chance(&r, 1, 10) ? 40000 : 2000, .flags = SYNTH_ONLY_SUPPORTED, .max_dict = 1u << 20, .max_members = 3, .max_streams = 3 };
	unsigned k = vrng_below(&r, 10);
	int fmt; char desc[400];
	gstream g; bool g_valid = false;
	if (k < 3) { fmt = F_LZMA; synth_alone(&r, &so, &data, &plain, &info); snprintf(desc, sizeof(desc), "synth:%s", info.desc); }
	else if (k < 4) { fmt = F_LZMA; gen_stream(&r, &g, SK_ALONE, 3000); g_valid = true; vbuf_append(&data, g.data.p, g.data.n); vbuf_append(&plain, g.plain.p, g.plain.n); snprintf(desc, sizeof(desc), "enc:%s", g.desc); }
	else if (k < 7) { fmt = F_LZ; synth_lzip(&r, &so, &data, &plain, &info); snprintf(desc, sizeof(desc), "synth:%s", info.desc); }
	else if (k < 9) { fmt = F_XZ; synth_xz(&r, &so, &data, &plain, &info); snprintf(desc, sizeof(desc), "synth:%s", info.desc); }
	else {
		if (ncorpus && gen_corpus(&r, &g, corpus, ncorpus)) { g_valid = true; fmt = g.sub == SK_XZ ? F_XZ : (g.sub == SK_ALONE ? F_LZMA : F_LZ); vbuf_append(&data, g.data.p, g.data.n); snprintf(desc, sizeof(desc), "%s", g.desc); }
		else { fmt = F_LZ; synth_lzip(&r, &so, &data, &plain, &info); snprintf(desc, sizeof(desc), "synth:%s", info.desc); }
	}
	vbuf orig = {0}; vbuf_append(&orig, data.p, data.n);
	bool reuse = vrng_chance(&r, 1, 5);
	if (reuse) hx_count("reused_handle_cases", 1);
	// variations: concatenation, padding, trailing data, mutation
	char md[200] = ""; size_t mw = 0;
	unsigned v = vrng_below(&r, 10);
	if (v < 3) { mutate(&r, &data, md, sizeof(md)); mw = strlen(md); }
	else if (v < 5) {
		// append something: padding of any length 0..12, garbage, magic prefixes, another file
		unsigned kk = vrng_below(&r, 5);
		if (kk == 0) { unsigned pad = vrng_below(&r, 13); for (unsigned i = 0; i < pad; ++i) vbuf_putc(&data, 0); mw += (size_t)snprintf(md + mw, sizeof(md) - mw, "pad+%u ", pad); }
		else if (kk == 1) { static const uint8_t lzm[4] = { 'L', 'Z', 'I', 'P' }; unsigned pl = vrng_below(&r, 5); vbuf_append(&data, lzm, pl); unsigned extra = vrng_below(&r, 6); for (unsigned i = 0; i < extra; ++i) vbuf_putc(&data, (uint8_t)('a' + vrng_below(&r, 26))); mw += (size_t)snprintf(md + mw, sizeof(md) - mw, "magicprefix%u+%u ", pl, extra); }
		else if (kk == 2) { unsigned l = 1 + vrng_below(&r, 20); for (unsigned i = 0; i < l; ++i) vbuf_putc(&data, (uint8_t)vrng_u64(&r)); mw += (size_t)snprintf(md + mw, sizeof(md) - mw, "garbage+%u ", l); }
		else { vbuf d2 = {0}, p2 = {0}; synth_info i2; unsigned w = vrng_below(&r, 3); if (w == 0) synth_alone(&r, &so, &d2, &p2, &i2); else if (w == 1) synth_lzip(&r, &so, &d2, &p2, &i2); else synth_xz(&r, &so, &d2, &p2, &i2);
			unsigned pad = vrng_chance(&r, 1, 2) ? 4 * vrng_below(&r, 3) : vrng_below(&r, 8); for (unsigned i = 0; i < pad; ++i) vbuf_putc(&data, 0);
			vbuf_append(&data, d2.p, d2.n); mw += (size_t)snprintf(md + mw, sizeof(md) - mw, "pad%u+file(fmt%u) ", pad, w); vbuf_free(&d2); vbuf_free(&p2); }
	}
	uint32_t flags = 0;
	if (vrng_chance(&r, 1, 2)) flags |= LZMA_CONCATENATED;
	if (vrng_chance(&r, 1, 6)) flags |= LZMA_TELL_NO_CHECK;
	if (vrng_chance(&r, 1, 6)) flags |= LZMA_TELL_UNSUPPORTED_CHECK;
	if (vrng_chance(&r, 1, 6)) flags |= LZMA_TELL_ANY_CHECK;
	if (vrng_chance(&r, 1, 8)) flags |= LZMA_IGNORE_CHECK;
	lzma_action fin = vrng_chance(&r, 3, 4) ? LZMA_FINISH : LZMA_RUN;
	hx_sample("c16 %s %s flags=0x%x fin=%d (%zu bytes)", desc, md, flags, (int)fin, data.n);
	char key[220];
	size_t lim = (1u << 20) + plain.n * 8;
	bool tell = (flags & (LZMA_TELL_NO_CHECK | LZMA_TELL_UNSUPPORTED_CHECK | LZMA_TELL_ANY_CHECK)) != 0;
	// --- specific decoder vs refdec ---
	int detected = rd_detect(data.p, data.n);
	for (int pass = 0; pass < 2; ++pass) {
		int df = pass == 0 ? fmt : (detected == 'x' ? F_XZ : detected == 'l' ? F_LZMA : detected == 'z' ? F_LZ : -1);
		if (pass == 1 && (df == fmt || df < 0)) break;
		rd_result R; memset(&R, 0, sizeof(R));
		dec_spec s; memset(&s, 0, sizeof(s)); s.memlimit = UINT64_MAX;
		bool conc = (flags & LZMA_CONCATENATED) != 0;
		if (df == F_LZMA) { rd_alone_decode(data.p, data.n, lim, &R); s.kind = D_ALONE; }
		else if (df == F_LZ) { rd_lzip_decode(data.p, data.n, conc ? RD_CONCATENATED : 0, lim, &R); s.kind = D_LZIP; s.flags = flags; }
		else { rd_xz_decode(data.p, data.n, conc ? RD_CONCATENATED : 0, lim, &R); s.kind = D_STREAM; s.flags = flags; }
		if (reuse) { s.warm_in = orig.p; s.warm_n = orig.n; }
		lres L; run_lib(&s, data.p, data.n, fin, &L); hx_eval();
		int vc = rd_class(&R);
		if (lib_noverdict(&L)) vc = V_NOVERDICT;
		// with LZMA_IGNORE_CHECK a Check mismatch is not verified by design
		if ((flags & LZMA_IGNORE_CHECK) && vc == V_INVALID && (strstr(R.why, "Check (") || strstr(R.why, ".lz CRC32 mismatch"))) vc = V_NOVERDICT;
		bool acc = lib_accepts(&L);
		const char *dn = d_names[s.kind];
		bool informational = false;
		if (L.protocol_violation) { snprintf(key, sizeof(key), "protocol|%s", dn); hx_violation("C16", key, idx, "%s; %s %s", L.why, desc, md); }
		else if (informational && tell) hx_count("informational_returns", 1);
		else if (vc == V_VALID || vc == V_VALID_UNVERIFIED_CHECK) {
			// without CONCATENATED the first stream must be accepted and the position must be just past it;
			// .lzma followed by anything: alone decoder itself stops at the end (no flag) -> accept
			bool expect_accept = true;
			size_t expect_in = R.consumed;
			if (df == F_LZ && conc) expect_in = (size_t)-1; // trailing-data rule: up to 3 bytes may be consumed, checked below
			if (fin == LZMA_RUN && df == F_XZ && conc) expect_accept = false; // cannot know that no more Streams follow
			if (fin == LZMA_RUN && df == F_LZ && conc) expect_accept = false;
			if (expect_accept && !acc) {
				snprintf(key, sizeof(key), "valid-file-rejected|%s", dn);
				hx_violation("C16", key, idx, "format rules accept (%s, %zu bytes) but %s returns %s after %" PRIu64 " bytes; %s %s flags=0x%x fin=%d", rd_status_name(R.status), R.consumed, dn, lzma_ret_name(L.ret), L.total_in, desc, md, flags, (int)fin);
			} else if (acc) {
				if (L.out.n != R.out_len || (R.out_len && memcmp(L.out.p, R.out, R.out_len))) {
					snprintf(key, sizeof(key), "content-differs|%s", dn);
					hx_violation("C16", key, idx, "%s delivers %zu bytes, the format defines %zu; %s %s flags=0x%x", dn, L.out.n, R.out_len, desc, md, flags);
				}
				if (expect_in != (size_t)-1 && L.total_in != expect_in) {
					snprintf(key, sizeof(key), "input-position-after-end|%s|%s", dn, conc ? "concatenated" : "single");
					hx_violation("C16", key, idx, "%s stopped at input offset %" PRIu64 ", the stream(s) end at %zu (file %zu bytes); %s %s flags=0x%x", dn, L.total_in, expect_in, data.n, desc, md, flags);
				}
				if (expect_in == (size_t)-1) {
					// .lz with trailing data: everything up to the last member, plus at most 3 bytes of magic prefix
					if (L.total_in < R.consumed || L.total_in > R.consumed + 3 || L.total_in > data.n) {
						snprintf(key, sizeof(key), "lzip-trailing-data-position|%s", dn);
						hx_violation("C16", key, idx, "%s stopped at %" PRIu64 ", members end at %zu; %s %s", dn, L.total_in, R.consumed, desc, md);
					}
				}
			}
			hx_count("specific_valid", 1);
		} else if (vc == V_INVALID || vc == V_UNSUPPORTED) {
			if (acc) {
				snprintf(key, sizeof(key), "invalid-file-accepted|%s", dn);
				hx_violation("C16", key, idx, "%s returns STREAM_END but the format rules reject: %s at %zu: %s; %s %s flags=0x%x", dn, rd_status_name(R.status), R.err_offset, R.why, desc, md, flags);
			}
			hx_count("specific_invalid", 1);
		} else hx_count("no_verdict", 1);
		// --- auto decoder vs the specific decoder (only pass 0 shape: file as the documents detect it) ---
		if (pass == 0 || df == fmt) {
			// nothing
		}
		lres_free(&L); rd_result_free(&R);
	}
	// --- auto-detection ---
	{
		dec_spec sa; memset(&sa, 0, sizeof(sa)); sa.memlimit = UINT64_MAX; sa.kind = D_AUTO; sa.flags = flags;
		if (reuse) { sa.warm_in = orig.p; sa.warm_n = orig.n; }
		lres LA; run_lib(&sa, data.p, data.n, fin, &LA); hx_eval();
		if (detected == 0) {
			// unrecognised by the documented rules -> LZMA_FORMAT_ERROR (needs enough bytes to decide)
			bool dict0 = data.n >= 13 && data.p[0] <= 224 && data.p[1] == 0 && data.p[2] == 0 && data.p[3] == 0 && data.p[4] == 0;
			if (data.n >= 13 && !dict0 && LA.ret != LZMA_FORMAT_ERROR && !(LA.ret == LZMA_BUF_ERROR)) {
				snprintf(key, sizeof(key), "auto-unrecognised-not-format-error");
				hx_violation("C16", key, idx, "auto decoder returns %s for a file no documented detection rule recognises; %s %s", lzma_ret_name(LA.ret), desc, md);
			}
			hx_count("auto_unrecognised", 1);
		} else {
			dec_spec ss; memset(&ss, 0, sizeof(ss)); ss.memlimit = UINT64_MAX;
			ss.kind = detected == 'x' ? D_STREAM : (detected == 'l' ? D_ALONE : D_LZIP);
			ss.flags = detected == 'l' ? 0 : flags;
			lres LS; run_lib(&ss, data.p, data.n, fin, &LS); hx_eval();
			const char *fn = detected == 'x' ? "xz" : detected == 'l' ? "lzma" : "lzip";
			// .lzma + CONCATENATED: "followed by anything is an error" applies to auto only
			bool lzma_conc = detected == 'l' && (flags & LZMA_CONCATENATED);
			if (lib_noverdict(&LA) || lib_noverdict(&LS)) hx_count("no_verdict", 1);
			else if (!lzma_conc) {
				bool same = LA.ret == LS.ret && LA.total_in == LS.total_in && LA.out.n == LS.out.n && (LA.out.n == 0 || memcmp(LA.out.p, LS.out.p, LA.out.n) == 0);
				if (!same) {
					bool trailing = detected == 'z' && (flags & LZMA_CONCATENATED) && LS.ret == LZMA_STREAM_END && LS.total_in < data.n;
					snprintf(key, sizeof(key), "auto-differs-from-specific|%s|%s%s", fn, (flags & LZMA_CONCATENATED) ? "CONCATENATED" : "single", trailing ? "|trailing-data" : "");
					hx_violation("C16", key, idx, "auto decoder: %s, total_in %" PRIu64 ", %zu bytes out; %s decoder: %s, total_in %" PRIu64 ", %zu bytes out; %s %s flags=0x%x fin=%d",
							lzma_ret_name(LA.ret), LA.total_in, LA.out.n, fn, lzma_ret_name(LS.ret), LS.total_in, LS.out.n, desc, md, flags, (int)fin);
				}
			} else {
				// .lzma followed by anything with CONCATENATED must be an error; alone it must succeed like the specific decoder
				bool followed = LS.ret == LZMA_STREAM_END && LS.total_in < data.n;
				if (followed && fin == LZMA_FINISH && LA.ret == LZMA_STREAM_END) {
					hx_violation("C16", "auto-lzma-concatenated-trailing-accepted", idx, ".lzma stream followed by %zu more bytes accepted with LZMA_CONCATENATED; %s %s", data.n - (size_t)LS.total_in, desc, md);
				}
				if (!followed && fin == LZMA_FINISH && (LA.ret != LS.ret || LA.out.n != LS.out.n || (LA.out.n && memcmp(LA.out.p, LS.out.p, LA.out.n)))) {
					snprintf(key, sizeof(key), "auto-differs-from-specific|lzma|CONCATENATED");
					hx_violation("C16", key, idx, "auto: %s/%zu bytes, alone: %s/%zu bytes; %s %s", lzma_ret_name(LA.ret), LA.out.n, lzma_ret_name(LS.ret), LS.out.n, desc, md);
				}
			}
			{ char nm[40]; snprintf(nm, sizeof(nm), "auto_%s", fn); hx_count(nm, 1); }
			lres_free(&LS);
		}
		lres_free(&LA);
	}
	if (!md[0]) {
		if (fmt == F_LZMA) { char nm[60]; snprintf(nm, sizeof(nm), "alone_known%d_eopm%d", (int)info.alone_size_known, (int)info.alone_eopm); hx_count(nm, 1); }
		if (fmt == F_LZ) { hx_count(info.lzip_v0 ? "lzip_v0" : "lzip_v1", 1); if (info.trailing) { char nm[40]; snprintf(nm, sizeof(nm), "lzip_trailing_prefix%u", info.trailing_magic_prefix); hx_count(nm, 1); } }
	}
	hx_distinct(vhash(data.p, data.n, vhash(&flags, 4, VHASH_INIT)), data.n > 13);
	vbuf_free(&data); vbuf_free(&plain); vbuf_free(&orig);
	if (g_valid) gstream_free(&g);
}

int main(int argc, char **argv)
{
	hx_parse(argc, argv, &A);
	if (A.corpus) ncorpus = list_dir(A.corpus, &corpus);
	uint64_t idx = UINT64_MAX;
	while (hx_next_case(&A, &idx)) {
		if (!strcmp(A.mode, "c05")) c05_case(idx);
		else if (!strcmp(A.mode, "c16")) c16_case(idx);
		else c03_case(idx);
	}
	for (size_t i = 0; i < ncorpus; ++i) free(corpus[i]);
	free(corpus);
	hx_finish();
	return 0;
}
