// hx_proto: C11 - the lzma_code() calling protocol is enforced and accounted
// exactly. A reference model of the wrapper (DESIGN.md Appendix C), written
// from base.h's documentation, is stepped in lock-step with the real handle
// over random call histories that mix legal and illegal steps.
#define _GNU_SOURCE
#include "vh.h"
#include "gen_stream.h"
#include "dec_common.h"

static hx_args A;

enum { T_EASY_ENC, T_STREAM_ENC, T_MT_ENC, T_ALONE_ENC, T_RAW_ENC, T_BLOCK_ENC, T_MICRO_ENC, T_INDEX_ENC,
	T_STREAM_DEC, T_MT_DEC, T_AUTO_DEC, T_ALONE_DEC, T_LZIP_DEC, T_RAW_DEC, T_BLOCK_DEC, T_INDEX_DEC, T_MICRO_DEC, T_FILEINFO_DEC, T_COUNT };
static const char *const t_names[T_COUNT] = { "easy_enc", "stream_enc", "mt_enc", "alone_enc", "raw_enc", "block_enc", "micro_enc", "index_enc",
	"stream_dec", "mt_dec", "auto_dec", "alone_dec", "lzip_dec", "raw_dec", "block_dec", "index_dec", "micro_dec", "fileinfo_dec" };

// documented action sets (container.h, filter.h, block.h, index.h)
static bool doc_supports(int t, lzma_action a)
{
	switch (t) {
	case T_EASY_ENC: case T_STREAM_ENC: return a == LZMA_RUN || a == LZMA_SYNC_FLUSH || a == LZMA_FULL_FLUSH || a == LZMA_FULL_BARRIER || a == LZMA_FINISH;
	case T_MT_ENC: return a == LZMA_RUN || a == LZMA_FULL_FLUSH || a == LZMA_FULL_BARRIER || a == LZMA_FINISH;
	case T_RAW_ENC: case T_BLOCK_ENC: return a == LZMA_RUN || a == LZMA_SYNC_FLUSH || a == LZMA_FINISH;
	case T_MICRO_ENC: return a == LZMA_FINISH;
	default: return a == LZMA_RUN || a == LZMA_FINISH;
	}
}

enum { M_UNINIT, M_RUN, M_FLUSHING, M_END, M_ERROR, M_UNSPEC };

typedef struct {
	int state; lzma_action cur; size_t remembered_avail_in; bool stuck;
} model;

typedef struct {
	int t; bool is_enc; bool timeout_coder;
	vcfg cfg; bool cfg_valid;
	gstream g; bool g_valid;
	vbuf src;               // bytes to feed
	lzma_index *idx;        // T_INDEX_ENC
	lzma_block block; lzma_filter bf[LZMA_FILTERS_MAX + 1]; bool block_inited;
	lzma_index *idx_out;
	dec_spec spec;
	size_t skip;
} pcase;

static lzma_ret init_handle(pcase *c, lzma_stream *strm, vrng *r)
{
	(void)r;
	switch (c->t) {
	case T_EASY_ENC: return lzma_easy_encoder(strm, c->cfg.preset & 0x1F ? (c->cfg.preset & 7) : 1, c->cfg.check);
	case T_STREAM_ENC: return lzma_stream_encoder(strm, c->cfg.filters, c->cfg.check);
	case T_MT_ENC: { lzma_mt mt = { .threads = 2, .block_size = 8192, .timeout = c->timeout_coder ? 1 : 0, .filters = c->cfg.filters, .check = c->cfg.check }; return lzma_stream_encoder_mt(strm, &mt); }
	case T_ALONE_ENC: return lzma_alone_encoder(strm, &c->cfg.lzma);
	case T_RAW_ENC: return lzma_raw_encoder(strm, c->cfg.filters);
	case T_MICRO_ENC: return lzma_microlzma_encoder(strm, &c->cfg.lzma);
	case T_BLOCK_ENC:
		memset(&c->block, 0, sizeof(c->block));
		c->block.version = 1; c->block.check = c->cfg.check; c->block.filters = c->cfg.filters;
		c->block.compressed_size = LZMA_VLI_UNKNOWN; c->block.uncompressed_size = LZMA_VLI_UNKNOWN;
		if (lzma_block_header_size(&c->block) != LZMA_OK) return LZMA_OPTIONS_ERROR;
		return lzma_block_encoder(strm, &c->block);
	case T_INDEX_ENC: return lzma_index_encoder(strm, c->idx);
	default: {
		lzma_ret ret = dec_init(strm, &c->spec, NULL, c->src.p, c->src.n);
		c->skip = c->spec.skip;
		return ret;
	}
	}
}

static void run_case(uint64_t idx)
{
	vrng r; vrng_init(&r, A.seed, 0xC11, idx, 0);
	hx_case_begin(idx);
	pcase c; memset(&c, 0, sizeof(c));
	c.t = (int)vrng_below(&r, T_COUNT);
	c.is_enc = c.t <= T_INDEX_ENC;
	c.timeout_coder = (c.t == T_MT_ENC || c.t == T_MT_DEC) && vrng_chance(&r, 1, 3);
	vbuf expect_plain = {0}; bool expect_known = false;
	char desc[500];
	if (c.is_enc) {
		unsigned fl = 0;
		switch (c.t) {
		case T_STREAM_ENC: case T_MT_ENC: case T_BLOCK_ENC: fl = VCFG_XZ; break;
		case T_ALONE_ENC: case T_MICRO_ENC: fl = VCFG_ONLY_LZMA1; break;
		case T_RAW_ENC: fl = VCFG_XZ | VCFG_ALLOW_LZMA1; break;
		}
		gen_cfg(&r, &c.cfg, fl, 1u << 18); c.cfg_valid = true;
		if (c.t == T_INDEX_ENC) {
			c.idx = lzma_index_init(NULL);
			unsigned n = vrng_below(&r, 300);
			for (unsigned i = 0; i < n; ++i) if (lzma_index_append(c.idx, NULL, 5 + vrng_logsize(&r, 1u << 20), vrng_logsize(&r, 1u << 22)) != LZMA_OK) break;
		} else {
			gen_data(&r, &c.src, gen_size(&r, 20000), -1, c.cfg.lzma.dict_size);
		}
		snprintf(desc, sizeof(desc), "%s cfg=%s src=%zuB", t_names[c.t], c.cfg.desc, c.src.n);
	} else {
		static const int sk[] = { SK_XZ, SK_XZ, SK_XZ, SK_ALONE, SK_LZIP, SK_RAW, SK_BLOCK, SK_INDEX, SK_MICROLZMA, SK_XZ };
		int kind = sk[c.t - T_STREAM_DEC];
		if (c.t == T_AUTO_DEC) { static const int ak[] = { SK_XZ, SK_ALONE, SK_LZIP }; kind = ak[vrng_below(&r, 3)]; }
		gen_stream(&r, &c.g, kind, 12000); c.g_valid = true;
		char md[120] = "";
		if (vrng_chance(&r, 1, 4)) { mutate(&r, &c.g.data, md, sizeof(md)); c.g.plain_known = false; }
		vbuf_append(&c.src, c.g.data.p, c.g.data.n);
		static const int dk[] = { D_STREAM, D_STREAM_MT, D_AUTO, D_ALONE, D_LZIP, D_RAW, D_BLOCK, D_INDEX, D_MICROLZMA, D_FILE_INFO };
		dec_spec_for(&c.spec, dk[c.t - T_STREAM_DEC], &c.g);
		if (c.timeout_coder) c.spec.timeout = 1;
		if (vrng_chance(&r, 1, 2) && (c.t == T_STREAM_DEC || c.t == T_MT_DEC || c.t == T_AUTO_DEC || c.t == T_LZIP_DEC)) c.spec.flags |= LZMA_CONCATENATED;
		if (vrng_chance(&r, 1, 4) && (c.t == T_STREAM_DEC || c.t == T_MT_DEC || c.t == T_AUTO_DEC)) c.spec.flags |= LZMA_TELL_ANY_CHECK;
		if (c.g.plain_known && (c.g.nstreams <= 1 || (c.spec.flags & LZMA_CONCATENATED))) { vbuf_append(&expect_plain, c.g.plain.p, c.g.plain.n); expect_known = true; }
		snprintf(desc, sizeof(desc), "%s input=%s %s flags=0x%x", t_names[c.t], c.g.desc, md, c.spec.flags);
	}
	hx_sample("c11 %s", desc);

	lzma_stream strm = LZMA_STREAM_INIT;
	model m = { .state = M_UNINIT };
	vbuf outacc = {0};
	char key[200];
	char hist[1200]; size_t hw = 0; hist[0] = 0;
	unsigned illegal_steps = 0, buf_err_episodes = 0;
	bool viol = false;
	uint64_t hh = VHASH_INIT;

	// sometimes call before init
	if (vrng_chance(&r, 1, 12)) {
		uint8_t b[4]; strm.next_out = b; strm.avail_out = 4;
		lzma_ret ret = lzma_code(&strm, LZMA_RUN);
		++illegal_steps;
		if (ret != LZMA_PROG_ERROR) { hx_violation("C11", "use-before-init-accepted", idx, "lzma_code on LZMA_STREAM_INIT handle returned %s; %s", lzma_ret_name(ret), desc); viol = true; }
		hx_eval();
	}
	// Handle reuse: a quarter of the histories first initialise the same lzma_stream as ANOTHER coder
	// (and use it a little) and then initialise the coder under test without lzma_end(). Nothing of the
	// previous coder - in particular its set of supported actions - may survive.
	if (vrng_chance(&r, 1, 4)) {
		static const int prev_kinds[] = { 0, 1, 2, 3, 4 };
		int pk = prev_kinds[vrng_below(&r, 5)];
		lzma_ret pr;
		static lzma_options_lzma po; lzma_lzma_preset(&po, 0);
		lzma_filter pf[2] = { { LZMA_FILTER_LZMA2, &po }, { LZMA_VLI_UNKNOWN, NULL } };
		switch (pk) {
		case 0: pr = lzma_easy_encoder(&strm, 0, LZMA_CHECK_CRC32); break;           // all five actions
		case 1: pr = lzma_raw_encoder(&strm, pf); break;                                 // RUN SYNC_FLUSH FINISH
		case 2: { lzma_mt pm = { .threads = 1, .block_size = 4096, .preset = 0, .check = LZMA_CHECK_CRC32 }; pr = lzma_stream_encoder_mt(&strm, &pm); break; }
		case 3: pr = lzma_stream_decoder(&strm, UINT64_MAX, 0); break;                  // RUN FINISH
		default: pr = lzma_microlzma_encoder(&strm, &po); break;                         // FINISH only
		}
		if (pr == LZMA_OK && pk != 4 && vrng_chance(&r, 1, 2)) {
			uint8_t pin[64] = "previous coder data previous coder data", pout[256];
			strm.next_in = pin; strm.avail_in = pk == 3 ? 0 : 40; strm.next_out = pout; strm.avail_out = sizeof(pout);
			(void)lzma_code(&strm, LZMA_RUN);
			if (vrng_chance(&r, 1, 2) && pk != 3) { strm.next_out = pout; strm.avail_out = sizeof(pout); (void)lzma_code(&strm, LZMA_FINISH); }
		}
		strm.next_in = NULL; strm.avail_in = 0; strm.next_out = NULL; strm.avail_out = 0;
		hx_count("handle_reuse_histories", 1);
		hx_eval();
	}
	lzma_ret iret = init_handle(&c, &strm, &r);
	if (iret != LZMA_OK) { hx_count("init_rejected", 1); goto end_case; }
	m.state = M_RUN;
	size_t in_pos = c.skip;
	bool fileinfo = c.t == T_FILEINFO_DEC;
	unsigned max_steps = 60 + vrng_below(&r, 240);
	unsigned post_end_calls = 0;
	bool finishing_full = false;
	for (unsigned step = 0; step < max_steps && !viol; ++step) {
		size_t in_left = c.src.n > in_pos ? c.src.n - in_pos : 0;
		size_t avail_in, avail_out;
		unsigned k = vrng_below(&r, 8);
		avail_in = k == 0 ? 0 : (k < 3 ? 1 + vrng_below(&r, 4) : (k < 6 ? 1 + vrng_logsize(&r, 4000) : in_left));
		if (avail_in > in_left) avail_in = in_left;
		k = vrng_below(&r, 8);
		avail_out = k == 0 ? 0 : (k < 3 ? 1 + vrng_below(&r, 4) : 1 + vrng_logsize(&r, 60000));
		lzma_action action = LZMA_RUN;
		if (c.t == T_MICRO_ENC) { action = LZMA_FINISH; avail_in = in_left; if (avail_out < 6) avail_out = 6 + vrng_below(&r, 3000); }
		if (m.state == M_FLUSHING) { action = m.cur; avail_in = m.remembered_avail_in; }
		else if (m.state == M_RUN && c.t != T_MICRO_ENC) {
			unsigned a = vrng_below(&r, 12);
			if (a == 0 && doc_supports(c.t, LZMA_SYNC_FLUSH)) action = LZMA_SYNC_FLUSH;
			else if (a == 1 && doc_supports(c.t, LZMA_FULL_FLUSH)) action = LZMA_FULL_FLUSH;
			else if (a == 2 && doc_supports(c.t, LZMA_FULL_BARRIER)) action = LZMA_FULL_BARRIER;
			else if ((a == 3 && step > 10) || (in_left == avail_in && vrng_chance(&r, 2, 3))) { action = LZMA_FINISH; }
		}
		// illegal variation?
		int illegal = 0; // 1 unsupported action, 2 out-of-range action, 3 switch action mid-flush, 4 change avail_in mid-flush, 5 NULL in, 6 NULL out, 7 reserved field
		if (vrng_chance(&r, 1, 14)) {
			illegal = 1 + (int)vrng_below(&r, 7);
			if ((illegal == 3 || illegal == 4) && m.state != M_FLUSHING) illegal = 2;
			if (illegal == 4 && in_left == 0 && m.remembered_avail_in == 0) illegal = 3;
			if (illegal == 1) {
				lzma_action cand[5] = { LZMA_RUN, LZMA_SYNC_FLUSH, LZMA_FULL_FLUSH, LZMA_FINISH, LZMA_FULL_BARRIER };
				int found = -1;
				for (int i = 0; i < 5; ++i) { int j = (i + (int)vrng_below(&r, 5)) % 5; if (!doc_supports(c.t, cand[j])) { found = j; break; } }
				if (found < 0) illegal = 2; else action = cand[found];
			}
			if (illegal == 2) action = (lzma_action)(5 + vrng_below(&r, 200));
			if (illegal == 3) { lzma_action cand[5] = { LZMA_RUN, LZMA_SYNC_FLUSH, LZMA_FULL_FLUSH, LZMA_FINISH, LZMA_FULL_BARRIER }; do action = cand[vrng_below(&r, 5)]; while (action == m.cur); }
			if (illegal == 4) { if (avail_in < in_left && vrng_chance(&r, 1, 2)) avail_in = m.remembered_avail_in + 1; else avail_in = m.remembered_avail_in ? m.remembered_avail_in - 1 : 1; if (avail_in > in_left) { illegal = 3; avail_in = m.remembered_avail_in; action = m.cur == LZMA_RUN ? LZMA_FINISH : LZMA_RUN; if (action == m.cur) action = LZMA_SYNC_FLUSH; } }
			if (illegal == 5 && avail_in == 0) { if (in_left) avail_in = 1; else illegal = 6; }
			if (illegal == 6 && avail_out == 0) avail_out = 1;
		}
		if (avail_in > vh_window_max()) avail_in = vh_window_max();
		uint8_t *ip = vh_in_window(c.src.p + (in_pos < c.src.n ? in_pos : 0), avail_in);
		uint8_t *op = vh_out_window(avail_out);
		strm.next_in = (illegal == 5) ? NULL : (avail_in ? ip : (vrng_chance(&r, 1, 2) ? NULL : ip));
		strm.avail_in = avail_in;
		strm.next_out = (illegal == 6) ? NULL : (avail_out ? op : (vrng_chance(&r, 1, 2) ? NULL : op));
		strm.avail_out = avail_out;
		if (illegal == 7) {
			switch (vrng_below(&r, 4)) {
			case 0: strm.reserved_ptr1 = &strm; break;
			case 1: strm.reserved_int2 = 1; break;
			case 2: strm.reserved_enum1 = (lzma_reserved_enum)1; break;
			default: strm.reserved_ptr4 = &strm; break;
			}
		}
		const uint8_t *ni0 = strm.next_in; uint8_t *no0 = strm.next_out;
		uint64_t ti0 = strm.total_in, to0 = strm.total_out;
		lzma_ret ret = lzma_code(&strm, action);
		hx_eval();
		size_t din = avail_in - strm.avail_in, dout = avail_out - strm.avail_out;
		if (hw < sizeof(hist) - 60) hw += (size_t)snprintf(hist + hw, sizeof(hist) - hw, "[a=%d in=%zu out=%zu%s%d->%s %zu/%zu]", (int)action, avail_in, avail_out, illegal ? " ILLEGAL" : " ", illegal, lzma_ret_name(ret), din, dout);
		hh = vhash(&action, sizeof(action), hh); hh = vhash(&avail_in, sizeof(avail_in), hh); hh = vhash(&avail_out, sizeof(avail_out), hh); hh = vhash(&illegal, sizeof(illegal), hh);
		if (illegal == 7) { strm.reserved_ptr1 = NULL; strm.reserved_ptr4 = NULL; strm.reserved_int2 = 0; strm.reserved_enum1 = LZMA_RESERVED_ENUM; }
		bool moved = strm.avail_in != avail_in || strm.avail_out != avail_out || strm.next_in != ni0 || strm.next_out != no0 || strm.total_in != ti0 || strm.total_out != to0;
		// ---- universal accounting checks ----
		if (strm.avail_in > avail_in || strm.avail_out > avail_out) { hx_violation("C11", "accounting|avail-grew", idx, "%s; history %s", desc, hist); viol = true; break; }
		if ((ni0 || din) && strm.next_in != ni0 + din) { hx_violation("C11", "accounting|next_in", idx, "next_in moved %td but avail_in %zu; %s; history %s", strm.next_in - ni0, din, desc, hist); viol = true; break; }
		if ((no0 || dout) && strm.next_out != no0 + dout) { hx_violation("C11", "accounting|next_out", idx, "next_out moved %td but avail_out %zu; %s; history %s", strm.next_out - no0, dout, desc, hist); viol = true; break; }
		if (strm.total_in != ti0 + din || strm.total_out != to0 + dout) { hx_violation("C11", "accounting|totals", idx, "totals moved %" PRIu64 "/%" PRIu64 " buffers %zu/%zu; %s; history %s", strm.total_in - ti0, strm.total_out - to0, din, dout, desc, hist); viol = true; break; }
		if (!vh_out_canary_ok()) { hx_violation("C11", "wrote-before-next_out", idx, "%s; history %s", desc, hist); viol = true; break; }
		if ((unsigned)ret > LZMA_SEEK_NEEDED) { snprintf(key, sizeof(key), "undocumented-ret|%s", t_names[c.t]); hx_violation("C11", key, idx, "returned %d; %s; history %s", (int)ret, desc, hist); viol = true; break; }
		// ---- model ----
		if (illegal) {
			++illegal_steps;
			bool ok_err = ret == LZMA_PROG_ERROR || (illegal == 7 && ret == LZMA_OPTIONS_ERROR);
			// post-END: STREAM_END takes precedence only for legal-argument calls; the
			// argument checks come first in the documentation too ("PROG_ERROR").
			if (m.state == M_ERROR && ret == LZMA_PROG_ERROR) ok_err = true;
			if (m.state == M_END && (illegal == 3 || illegal == 4) ) ok_err = ok_err || ret == LZMA_STREAM_END;
			if (m.state == M_END && illegal == 7) ok_err = ok_err || ret == LZMA_STREAM_END;
			if (!ok_err) {
				static const char *const in_[] = { "", "unsupported-action", "out-of-range-action", "action-switched-mid-flush", "avail_in-changed-mid-flush", "null-next_in", "null-next_out", "reserved-field" };
				snprintf(key, sizeof(key), "illegal-call-accepted|%s", in_[illegal]);
				hx_violation("C11", key, idx, "%s on %s in state %d returned %s instead of LZMA_PROG_ERROR; history %s", in_[illegal], t_names[c.t], m.state, lzma_ret_name(ret), hist);
				viol = true; break;
			}
			if (moved) { hx_violation("C11", "illegal-call-moved-fields", idx, "%s; history %s", desc, hist); viol = true; break; }
			if (outacc.n + dout < outacc.n) {}
			// The documentation says not to continue after PROG_ERROR: the rest is
			// unspecified. Stop the history here (then lzma_end must still work).
			m.state = M_UNSPEC;
			break;
		}
		if (dout) vbuf_append(&outacc, op, dout);
		if (!fileinfo) in_pos += din;
		switch (m.state) {
		case M_ERROR:
			if (ret != LZMA_PROG_ERROR) { hx_violation("C11", "use-after-fatal-error-accepted", idx, "returned %s; %s; history %s", lzma_ret_name(ret), desc, hist); viol = true; }
			if (moved) { hx_violation("C11", "use-after-fatal-error-moved-fields", idx, "%s; history %s", desc, hist); viol = true; }
			++post_end_calls;
			break;
		case M_END:
			if (ret != LZMA_STREAM_END) { hx_violation("C11", "post-end-call-not-stream-end", idx, "returned %s; %s; history %s", lzma_ret_name(ret), desc, hist); viol = true; }
			if (moved) { hx_violation("C11", "post-end-call-moved-fields", idx, "%s; history %s", desc, hist); viol = true; }
			++post_end_calls;
			break;
		default: {
			bool noprog = din == 0 && dout == 0;
			if (ret == LZMA_OK) {
				if (noprog) {
					if (m.stuck && !c.timeout_coder) { hx_violation("C11", "second-stuck-call-returned-ok", idx, "%s; history %s", desc, hist); viol = true; break; }
					m.stuck = true;
				} else m.stuck = false;
				if (action != LZMA_RUN && m.state == M_RUN) { m.state = M_FLUSHING; m.cur = action; }
				if (m.state == M_FLUSHING) m.remembered_avail_in = strm.avail_in;
			} else if (ret == LZMA_BUF_ERROR) {
				if (!noprog) { hx_violation("C11", "buf-error-with-progress", idx, "%s; history %s", desc, hist); viol = true; break; }
				if (!m.stuck) { hx_violation("C11", "buf-error-on-first-stuck-call", idx, "%s; history %s", desc, hist); viol = true; break; }
				++buf_err_episodes;
				if (action != LZMA_RUN && m.state == M_RUN) { m.state = M_FLUSHING; m.cur = action; }
				if (m.state == M_FLUSHING) m.remembered_avail_in = strm.avail_in;
				// not fatal: continue; stays "stuck" until progress
			} else if (ret == LZMA_STREAM_END) {
				m.stuck = false;
				if (action == LZMA_SYNC_FLUSH || action == LZMA_FULL_FLUSH || action == LZMA_FULL_BARRIER) { m.state = M_RUN; hx_count("flushes_completed", 1); }
				else { m.state = M_END; finishing_full = (action == LZMA_FINISH); }
			} else if (ret == LZMA_NO_CHECK || ret == LZMA_UNSUPPORTED_CHECK || ret == LZMA_GET_CHECK || ret == LZMA_MEMLIMIT_ERROR) {
				m.stuck = false;
				if (action != LZMA_RUN && m.state == M_RUN) { m.state = M_FLUSHING; m.cur = action; }
				if (m.state == M_FLUSHING) m.remembered_avail_in = strm.avail_in;
			} else if (ret == LZMA_SEEK_NEEDED) {
				m.stuck = false;
				if (strm.seek_pos > c.src.n) { hx_violation("C11", "seek-beyond-file", idx, "%s; history %s", desc, hist); viol = true; break; }
				in_pos = (size_t)strm.seek_pos;
				m.state = M_RUN;
			} else {
				m.state = M_ERROR;
			}
			if (fileinfo && ret != LZMA_SEEK_NEEDED) in_pos += din;
			break;
		}
		}
		if ((m.state == M_END || m.state == M_ERROR) && post_end_calls >= 3) break;
	}
	// results: an encoder that reached END after LZMA_FINISH must have produced a
	// decodable stream of exactly the bytes consumed (the BUF_ERROR episodes and
	// empty calls must not have damaged anything).
	if (!viol && m.state == M_END && c.is_enc && finishing_full && c.t != T_INDEX_ENC && c.t != T_MICRO_ENC) {
		lzma_stream d = LZMA_STREAM_INIT; lzma_ret ir;
		const uint8_t *dp = outacc.p; size_t dn = outacc.n;
		lzma_block b; lzma_filter bf[LZMA_FILTERS_MAX + 1]; bool binit = false;
		switch (c.t) {
		case T_ALONE_ENC: ir = lzma_alone_decoder(&d, UINT64_MAX); break;
		case T_RAW_ENC: ir = lzma_raw_decoder(&d, c.cfg.filters); break;
		case T_BLOCK_ENC: {
			// the Block encoder doesn't write the header; decode with our options
			b = c.block; memcpy(bf, c.cfg.filters, sizeof(bf)); b.filters = bf;
			ir = lzma_block_decoder(&d, &b); (void)binit; break;
		}
		default: ir = lzma_stream_decoder(&d, UINT64_MAX, 0); break;
		}
		if (ir == LZMA_OK) {
			vbuf dec = {0}; slice_plan p = { .mode = SL_WHOLE, .final_action = LZMA_FINISH }; slice_result sr;
			slicer_run(&d, dp, dn, &dec, &p, &sr);
			size_t consumed = (size_t)strm.total_in;
			if (sr.ret != LZMA_STREAM_END || dec.n != consumed || (consumed && memcmp(dec.p, c.src.p, consumed))) {
				snprintf(key, sizeof(key), "history-damaged-output|%s", t_names[c.t]);
				hx_violation("C11", key, idx, "after the history the encoder output decodes to %zu bytes with %s, expected the %zu bytes consumed; %s; history %s", dec.n, lzma_ret_name(sr.ret), consumed, desc, hist);
			}
			vbuf_free(&dec);
		}
		lzma_end(&d);
		hx_count("encoder_histories_verified", 1);
	}
	if (!viol && m.state == M_END && !c.is_enc && expect_known && c.t != T_INDEX_DEC && c.t != T_FILEINFO_DEC) {
		// With LZMA_CONCATENATED a history may issue LZMA_FINISH with no input left exactly at a Stream boundary
		// although it holds more Streams back: the decoder then rightly ends there. The output is then the plaintext
		// of the Streams consumed, i.e. a prefix of the whole (only a decoder that consumed everything owes everything).
		bool ended_at_earlier_boundary = (c.spec.flags & LZMA_CONCATENATED) && c.g.nstreams > 1 && strm.total_in < c.src.n
				&& outacc.n < expect_plain.n && (outacc.n == 0 || memcmp(outacc.p, expect_plain.p, outacc.n) == 0);
		if (ended_at_earlier_boundary) hx_count("decoder_histories_ended_at_earlier_stream_boundary", 1);
		else if (outacc.n != expect_plain.n || (outacc.n && memcmp(outacc.p, expect_plain.p, outacc.n))) {
			snprintf(key, sizeof(key), "history-damaged-output|%s", t_names[c.t]);
			hx_violation("C11", key, idx, "decoder history produced %zu bytes, expected %zu; %s; history %s", outacc.n, expect_plain.n, desc, hist);
		}
		hx_count("decoder_histories_verified", 1);
	}
	{
		char nm[64]; snprintf(nm, sizeof(nm), "t_%s", t_names[c.t]); hx_count(nm, 1);
		hx_count("illegal_steps", illegal_steps); hx_count("buf_error_episodes", buf_err_episodes);
		if (post_end_calls) hx_count("histories_with_post_end_calls", 1);
		if (m.state == M_ERROR) hx_count("histories_reaching_fatal_error", 1);
		hx_distinct(vhash(&idx, 8, hh), illegal_steps > 0 || buf_err_episodes > 0);
	}
end_case:
	lzma_end(&strm);
	// use after lzma_end
	if (vrng_chance(&r, 1, 6)) {
		uint8_t b[4]; strm.next_in = NULL; strm.avail_in = 0; strm.next_out = b; strm.avail_out = 4;
		lzma_ret ret = lzma_code(&strm, LZMA_RUN);
		if (ret != LZMA_PROG_ERROR) hx_violation("C11", "use-after-end-accepted", idx, "lzma_code after lzma_end returned %s; %s", lzma_ret_name(ret), desc);
		hx_eval(); hx_count("use_after_end_calls", 1);
	}
	dec_cleanup(&c.spec, NULL);
	if (c.idx) lzma_index_end(c.idx, NULL);
	if (c.cfg_valid) vcfg_free(&c.cfg);
	if (c.g_valid) gstream_free(&c.g);
	vbuf_free(&c.src); vbuf_free(&outacc); vbuf_free(&expect_plain);
}

// The amount of pending input the wrapper remembers across the calls of a flush/finish sequence is a size_t: with
// more than 4 GiB pending (a read-only MAP_NORESERVE mapping of zero pages - it costs no memory, and only the first
// few hundred KiB are ever read) a continuation with unchanged input must be accepted, and a change of avail_in by
// exactly 2^32 must be noticed.
#include <sys/mman.h>
static void big_avail_case(uint64_t idx)
{
	hx_case_begin(idx);
	const size_t SZ = ((size_t)4 << 30) + ((size_t)256 << 20);
	uint8_t *big = mmap(NULL, SZ, PROT_READ, MAP_PRIVATE | MAP_ANONYMOUS | MAP_NORESERVE, -1, 0);
	if (big == MAP_FAILED) { hx_note("big_avail_case: mmap of %zu bytes failed, case skipped", SZ); return; }
	static const lzma_action acts[] = { LZMA_FINISH, LZMA_SYNC_FLUSH, LZMA_FULL_FLUSH };
	for (unsigned k = 0; k < 6; ++k) {
		lzma_action act = acts[k % 3]; bool drop = k >= 3;
		lzma_stream s = LZMA_STREAM_INIT;
		if (lzma_easy_encoder(&s, 0, LZMA_CHECK_CRC32) != LZMA_OK) { lzma_end(&s); continue; }
		uint8_t ob[4]; lzma_ret ret = LZMA_OK;
		s.next_in = big; s.avail_in = SZ;
		for (int call = 0; call < 5 && ret == LZMA_OK; ++call) { s.next_out = ob; s.avail_out = 1; ret = lzma_code(&s, act); hx_eval(); }
		if (ret != LZMA_OK) {
			hx_violation("C11", "legal-continuation-refused|avail_in-over-4GiB", idx, "action %d with %zu bytes pending: a continuation with unchanged input returned %s", (int)act, SZ, lzma_ret_name(ret));
		} else if (drop && s.avail_in > ((size_t)1 << 32)) {
			s.avail_in -= (size_t)1 << 32;
			s.next_out = ob; s.avail_out = 1;
			ret = lzma_code(&s, act); hx_eval();
			if (ret != LZMA_PROG_ERROR)
				hx_violation("C11", "illegal-call-accepted|avail_in-changed-mid-flush|by-2^32", idx, "action %d: avail_in reduced by exactly 2^32 in the middle of the sequence, lzma_code returned %s instead of LZMA_PROG_ERROR", (int)act, lzma_ret_name(ret));
		}
		lzma_end(&s);
		hx_count("big_avail_in_sequences", 1);
	}
	munmap(big, SZ);
}

int main(int argc, char **argv)
{
	hx_parse(argc, argv, &A);
	uint64_t idx = UINT64_MAX;
	while (hx_next_case(&A, &idx)) { if (idx == 5 && sizeof(size_t) > 4) big_avail_case(idx); else run_case(idx); }
	hx_finish();
	return 0;
}
