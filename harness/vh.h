// Common building blocks of the /verif harness executables.
// See DESIGN.md section 3.3.
#ifndef VERIF_VH_H
#define VERIF_VH_H

#include <stdbool.h>
#include <stddef.h>
#include <stdint.h>
#include <stdio.h>
#include <stdlib.h>
#include <string.h>
#include <inttypes.h>
#include <lzma.h>

#ifndef TUKAANI_PROJECT_XZ_VERIF
#	define TUKAANI_PROJECT_XZ_VERIF 1
#endif
// Hook declarations (from /repo/src/liblzma/common/verif_hooks.h; the enum
// values are re-declared by including the header itself).
#include "verif_hooks.h"

///////////
// vrng  //
///////////

typedef struct { uint64_t s[4]; } vrng;

void vrng_init(vrng *r, uint64_t seed, uint64_t a, uint64_t b, uint64_t c);
uint64_t vrng_u64(vrng *r);
uint32_t vrng_below(vrng *r, uint32_t n);            // [0, n), n > 0
uint64_t vrng_below64(vrng *r, uint64_t n);
uint32_t vrng_range(vrng *r, uint32_t lo, uint32_t hi); // inclusive
bool vrng_chance(vrng *r, uint32_t num, uint32_t den);
size_t vrng_logsize(vrng *r, size_t max);            // log-uniform in [0, max]
void vrng_fill(vrng *r, uint8_t *p, size_t n);

///////////
// vbuf  //
///////////

typedef struct { uint8_t *p; size_t n, cap; } vbuf;

void vbuf_reserve(vbuf *b, size_t cap);
void vbuf_append(vbuf *b, const void *p, size_t n);
void vbuf_putc(vbuf *b, uint8_t c);
void vbuf_clear(vbuf *b);
void vbuf_free(vbuf *b);
uint64_t vhash(const void *p, size_t n, uint64_t h);  // FNV-1a 64, chainable
#define VHASH_INIT UINT64_C(0xcbf29ce484222325)

//////////////
// gen_data //
//////////////

enum {
	GD_EMPTY, GD_ONE, GD_RANDOM, GD_RUNS, GD_TEXT, GD_LONGDIST, GD_PERIODIC,
	GD_ZERORUNS, GD_MIXED, GD_CODE_X86, GD_CODE_FIXED32, GD_LOWENT, GD_MARKOV,
	GD_COUNT
};
extern const char *const gd_names[GD_COUNT];

/// Fill `out` with `size` bytes of kind `kind` (GD_*), or a random kind
/// if kind < 0. `hint` is a distance hint (e.g. dictionary size) used by
/// GD_LONGDIST. Returns the kind used.
int gen_data(vrng *r, vbuf *out, size_t size, int kind, size_t hint);

/// Sizes clustered at 0, 1, small, and around interesting limits.
size_t gen_size(vrng *r, size_t max);

/// Overwrite the tail of buf with one instruction that the BCJ filter `filter_id` (LZMA_FILTER_*) converts, so that
/// the stream ends exactly at an instruction boundary (end-of-stream handling of the filters).
void gen_tail_insn(vrng *r, lzma_vli filter_id, uint8_t *buf, size_t n);

/////////////
// gen_cfg //
/////////////

#define VCFG_ALLOW_LZMA1   0x01   // last filter may be LZMA1 (raw/alone)
#define VCFG_ONLY_LZMA1    0x02   // single LZMA1 filter (alone encoder)
#define VCFG_ALLOW_BCJ     0x04
#define VCFG_ALLOW_DELTA   0x08
#define VCFG_ALLOW_PRESETD 0x10   // preset dictionary (raw only)
#define VCFG_LZMA1EXT      0x20   // may use LZMA_FILTER_LZMA1EXT
#define VCFG_XZ            (VCFG_ALLOW_BCJ | VCFG_ALLOW_DELTA)

typedef struct {
	lzma_filter filters[LZMA_FILTERS_MAX + 1];
	lzma_options_lzma lzma;
	lzma_options_delta delta[3];
	lzma_options_bcj bcj[3];
	uint8_t *preset_dict;
	lzma_check check;
	uint32_t preset;       // valid when from_preset
	bool from_preset;
	unsigned nfilters;
	char desc[320];
} vcfg;

/// Random valid encoder configuration. dict sizes are within
/// [4 KiB, max_dict].
void gen_cfg(vrng *r, vcfg *c, unsigned flags, uint32_t max_dict);
void vcfg_free(vcfg *c);
/// Move a configuration to another object (re-points the embedded option pointers).
void vcfg_move(vcfg *dst, vcfg *src);
lzma_check gen_check(vrng *r);

///////////////
// alloc_mon //
///////////////

typedef struct alloc_mon alloc_mon;
struct alloc_mon {
	lzma_allocator a;        // pass &mon->a to liblzma
	// plan
	int64_t fail_at;         // fail exactly the k-th allocation (1-based); 0 = off
	int64_t fail_from;       // fail every allocation from the k-th on; 0 = off
	uint32_t fail_prob_num;  // random subset: num/65536 per allocation after fail_from_rand
	int64_t fail_rand_after;
	vrng fail_rng;
	uint64_t huge_limit;     // allocations above this fail "naturally" (0 = none)
	// observations
	uint64_t n_alloc, n_free, n_failed_injected, n_failed_huge;
	uint64_t live_bytes, peak_bytes, live_blocks;
	uint64_t errors;         // double free / unknown free
	char errmsg[160];
	// internal
	volatile int lock;
	struct am_ent *tab;
	size_t tabcap, tabn;
	bool poison;
};

void alloc_mon_init(alloc_mon *m);
void alloc_mon_reset_plan(alloc_mon *m);
void alloc_mon_fail_nth_from_now(alloc_mon *m, unsigned k);   // the k-th allocation counted from now fails (k >= 1)
void alloc_mon_reset_peak(alloc_mon *m);
void alloc_mon_destroy(alloc_mon *m);    // frees any leaked blocks too

////////////
// slicer //
////////////

enum { SL_WHOLE, SL_ONEBYTE, SL_RANDOM, SL_ONEIN, SL_ONEOUT, SL_TWOPIECE };

typedef struct {
	int mode;                 // SL_*
	uint64_t seed;            // for SL_RANDOM
	size_t max_in, max_out;   // piece-size caps for SL_RANDOM (0 = default)
	size_t split;             // SL_TWOPIECE: first piece length
	unsigned empty_pct;       // SL_RANDOM: % of calls with avail_in = avail_out = 0... (both empty)
	lzma_action final_action; // LZMA_FINISH or LZMA_RUN (never finish)
	size_t out_limit;         // stop after this many output bytes (0 = unlimited)
	uint64_t max_calls;       // safety bound (0 = automatic)
	bool timeout_coder;       // coder has a time-out: repeated empty LZMA_OK is legal
	bool continue_informational; // go on after LZMA_NO_CHECK / UNSUPPORTED_CHECK / GET_CHECK (counted in res)
} slice_plan;

typedef struct {
	lzma_ret ret;             // final return value
	uint64_t total_in, total_out;
	uint64_t calls;
	uint64_t noprogress_ok;   // calls returning LZMA_OK with no progress
	uint64_t buf_errors;      // LZMA_BUF_ERROR seen and recovered from
	bool protocol_violation;  // slicer-detected accounting/protocol problem
	char why[200];
	bool hit_call_limit;
	bool out_limit_hit;
	unsigned informational;   // NO_CHECK / UNSUPPORTED_CHECK / GET_CHECK returns passed over
	double max_call_cpu_s;
} slice_result;

/// Drive lzma_code() over `in` according to `plan`, appending output to
/// `out`. Input pieces end at a PROT_NONE page and output windows end at
/// one; a canary precedes the output window. Accounting of every call is
/// checked. When the input is exhausted and final_action is LZMA_RUN the
/// slicer keeps calling with empty input until LZMA_BUF_ERROR.
void slicer_run(lzma_stream *strm, const uint8_t *in, size_t in_size,
		vbuf *out, const slice_plan *plan, slice_result *res);

void slice_plan_random(vrng *r, slice_plan *p);
const char *slice_mode_name(int mode);

/// Guard-page windows for monitors that drive lzma_code() themselves:
/// the returned input window ends at a PROT_NONE page (contents copied from
/// src); the output window ends at one and is preceded by a canary.
uint8_t *vh_in_window(const uint8_t *src, size_t n);
uint8_t *vh_out_window(size_t n);
bool vh_out_canary_ok(void);
size_t vh_window_max(void);

/// Per-thread CPU time in seconds.
double cpu_now(void);

/////////////////////////
// harness main helper //
/////////////////////////

typedef struct {
	uint64_t seed;
	uint32_t shard, nshards;
	uint64_t cases;
	uint64_t start;
	int64_t only;          // >= 0: run just this case, verbosely
	uint64_t skip[64]; unsigned nskip;   // --skip K (repeatable): cases a resumed shard leaves out (they were run alone)
	int thorough;
	const char *mode;      // engine-specific sub-mode
	const char *prop;      // property id the run is for
	const char *corpus;    // directory with seed files (tests/files)
	const char *outdir;    // scratch/replay directory
	const char *extra;     // engine-specific string
} hx_args;

void hx_parse(int argc, char **argv, hx_args *a);
bool hx_next_case(const hx_args *a, uint64_t *idx);   // iteration helper
void hx_case_begin(uint64_t idx);
/// Abort the process (exit code 87, "HX-WATCHDOG" on stderr) when one case runs longer than this.
void hx_set_case_watchdog(unsigned seconds);
void hx_count(const char *name, uint64_t add);
void hx_max(const char *name, uint64_t v);
void hx_distinct(uint64_t hash, bool nontrivial);
void hx_eval(void);                                   // one more evaluation
/// Report a violation. key: stable class signature used for known-findings
/// matching. detail: printf-style free text (becomes part of the replay).
void hx_violation(const char *prop, const char *key, uint64_t idx,
		const char *fmt, ...) __attribute__((format(printf, 4, 5)));
/// Emit a sample case description (first few only are kept).
void hx_sample(const char *fmt, ...) __attribute__((format(printf, 1, 2)));
void hx_note(const char *fmt, ...) __attribute__((format(printf, 1, 2)));
void hx_finish(void);
const char *lzma_ret_name(lzma_ret r);
void hexdump_short(const uint8_t *p, size_t n, char *dst, size_t dstsize);

/// Load a whole file. Returns false if it cannot be read.
bool load_file(const char *path, vbuf *b);
/// List regular files in dir (sorted); returns count; names malloc'd.
size_t list_dir(const char *dir, char ***names);

/// Snapshot / diff of the H3 counters.
void visits_reset(void);

#endif
