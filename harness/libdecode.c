// libdecode - the library-side oracle of check C18.
//
//   libdecode MODE [--single-stream] [--ignore-check] [--passthru] FILE
//
// MODE selects which documented tool behaviour is reproduced with nothing but
// the public liblzma API (see DESIGN.md Appendix B, "Which decoder the tools
// use"):
//
//   xz-auto   xz -d            (format sniffed: .xz magic, .lz magic, else a
//                               plausible .lzma header by xz's own rule)
//   xz|lzma|lzip               xz -d --format=xz|lzma|lzip
//   xzdec     xzdec            lzma_stream_decoder(UINT64_MAX, CONCATENATED)
//   lzmadec   lzmadec          lzma_alone_decoder, LZMA_RUN throughout
//
// The decoded bytes are written to stdout exactly as the library delivered
// them before its final status; the final status goes to stderr as one line
//   LIBDECODE ret=<lzma_ret> name=<NAME> format=<fmt> warnings=<n> in=<n> out=<n>
// ("warnings" counts LZMA_UNSUPPORTED_CHECK returns, which xz treats as a
// warning only).  Always the single-threaded decoders: MT == ST is C07's job.
// I/O is done in 8 KiB pieces like the tools do (IO_BUFFER_SIZE / BUFSIZ), and
// LZMA_FINISH is used from the moment a read hits end of file.
#include "vh.h"
#include <errno.h>
#include <fcntl.h>
#include <unistd.h>

#ifndef CHUNK
#	define CHUNK 8192   // IO_BUFFER_SIZE of xz, BUFSIZ of xzdec; the driver passes the value it read from file_io.h
#endif

static const char *const ret_names[] = {
	"OK", "STREAM_END", "NO_CHECK", "UNSUPPORTED_CHECK", "GET_CHECK", "MEM_ERROR",
	"MEMLIMIT_ERROR", "FORMAT_ERROR", "OPTIONS_ERROR", "DATA_ERROR", "BUF_ERROR",
	"PROG_ERROR", "SEEK_NEEDED" };

static int src_fd = -1;
static bool src_eof = false;
static uint8_t in_buf[CHUNK], out_buf[CHUNK];
static uint64_t total_out = 0, total_in = 0;

// xz's io_read(): fill the request unless end of file is met.
static size_t
rd(size_t size)
{
	size_t pos = 0;
	while (pos < size) {
		const ssize_t n = read(src_fd, in_buf + pos, size - pos);
		if (n == 0) { src_eof = true; break; }
		if (n < 0) { if (errno == EINTR) continue; perror("libdecode: read"); exit(3); }
		pos += (size_t)n;
	}
	total_in += pos;
	return pos;
}

static void
wr(const uint8_t *p, size_t n)
{
	if (n > 0 && fwrite(p, 1, n, stdout) != n) { perror("libdecode: write"); exit(3); }
	total_out += n;
}

static void
finish(lzma_ret ret, const char *fmt, unsigned warnings)
{
	if (fflush(stdout)) { perror("libdecode: flush"); exit(3); }
	fprintf(stderr, "LIBDECODE ret=%d name=%s format=%s warnings=%u in=%" PRIu64 " out=%" PRIu64 "\n",
			(int)ret, (unsigned)ret < 13 ? ret_names[ret] : "?", fmt, warnings, total_in, total_out);
	exit(0);
}

// The tool's own format tests (coder.c is_format_*), written from the
// description in xz(1)/DESIGN.md Appendix A: 13-byte header, valid LZMA1
// properties, dictionary 2^n or 2^n + 2^(n-1) or UINT32_MAX (not 0), known
// size at most 2^38.
static bool
looks_lzma(const uint8_t *b, size_t n)
{
	if (n < 13 || b[0] > (4 * 5 + 4) * 9 + 8)
		return false;
	const unsigned lclp = b[0] % 45;   // lp * 9 + lc
	if (lclp / 9 + lclp % 9 > 4)
		return false;
	const uint32_t dict = (uint32_t)b[1] | (uint32_t)b[2] << 8 | (uint32_t)b[3] << 16 | (uint32_t)b[4] << 24;
	if (dict != UINT32_MAX) {
		if (dict == 0)
			return false;
		bool ok = false;
		for (unsigned i = 0; i < 32 && !ok; ++i)
			ok = dict == (UINT32_C(1) << i) || (i > 0 && dict == (UINT32_C(3) << (i - 1)));
		if (!ok)
			return false;
	}
	uint64_t us = 0;
	for (unsigned i = 0; i < 8; ++i)
		us |= (uint64_t)b[5 + i] << (8 * i);
	return us == UINT64_MAX || us <= (UINT64_C(1) << 38);
}

int
main(int argc, char **argv)
{
	const char *mode = NULL, *file = NULL;
	bool single = false, ignore_check = false, passthru = false;
	for (int i = 1; i < argc; ++i) {
		if (!strcmp(argv[i], "--single-stream")) single = true;
		else if (!strcmp(argv[i], "--ignore-check")) ignore_check = true;
		else if (!strcmp(argv[i], "--passthru")) passthru = true;
		else if (mode == NULL) mode = argv[i];
		else file = argv[i];
	}
	if (mode == NULL || file == NULL) {
		fprintf(stderr, "usage: libdecode xz-auto|xz|lzma|lzip|xzdec|lzmadec [--single-stream] "
				"[--ignore-check] [--passthru] FILE\n");
		return 2;
	}
	src_fd = open(file, O_RDONLY);
	if (src_fd < 0) { perror(file); return 3; }

	lzma_stream strm = LZMA_STREAM_INIT;
	const bool is_xzdec = !strcmp(mode, "xzdec"), is_lzmadec = !strcmp(mode, "lzmadec");
	enum { F_NONE, F_XZ, F_LZMA, F_LZIP } fmt = F_NONE;
	bool allow_trailing = false;
	lzma_ret ret;

	strm.next_in = in_buf;
	strm.avail_in = rd(CHUNK);

	if (is_xzdec) {
		fmt = F_XZ;
		ret = lzma_stream_decoder(&strm, UINT64_MAX, LZMA_CONCATENATED);
	} else if (is_lzmadec) {
		fmt = F_LZMA;
		ret = lzma_alone_decoder(&strm, UINT64_MAX);
	} else {
		static const uint8_t xzm[6] = { 0xFD, 0x37, 0x7A, 0x58, 0x5A, 0x00 }, lzm[4] = { 0x4C, 0x5A, 0x49, 0x50 };
		const bool isx = strm.avail_in >= 6 && !memcmp(in_buf, xzm, 6);
		const bool isz = strm.avail_in >= 4 && !memcmp(in_buf, lzm, 4);
		const bool isa = looks_lzma(in_buf, strm.avail_in);
		if (!strcmp(mode, "xz-auto")) fmt = isx ? F_XZ : isz ? F_LZIP : isa ? F_LZMA : F_NONE;
		else if (!strcmp(mode, "xz")) fmt = isx ? F_XZ : F_NONE;
		else if (!strcmp(mode, "lzip")) fmt = isz ? F_LZIP : F_NONE;
		else if (!strcmp(mode, "lzma")) fmt = isa ? F_LZMA : F_NONE;
		else { fprintf(stderr, "libdecode: unknown mode %s\n", mode); return 2; }

		if (fmt == F_NONE) {
			if (!passthru)
				finish(LZMA_FORMAT_ERROR, "unknown", 0);
			// xz -dcf on an unrecognised file: copied unchanged
			while (strm.avail_in > 0) { wr(in_buf, strm.avail_in); strm.avail_in = rd(CHUNK); }
			finish(LZMA_OK, "passthru", 0);
		}
		uint32_t flags = ignore_check ? LZMA_IGNORE_CHECK : LZMA_TELL_UNSUPPORTED_CHECK;
		if (single) allow_trailing = true; else flags |= LZMA_CONCATENATED;
		if (fmt == F_XZ) ret = lzma_stream_decoder(&strm, UINT64_MAX, flags);
		else if (fmt == F_LZMA) ret = lzma_alone_decoder(&strm, UINT64_MAX);
		else { allow_trailing = true; ret = lzma_lzip_decoder(&strm, UINT64_MAX, flags); }
	}
	const char *fname = fmt == F_XZ ? "xz" : fmt == F_LZMA ? "lzma" : "lzip";
	if (ret != LZMA_OK)
		finish(ret, fname, 0);

	unsigned warnings = 0;
	// lzmadec never uses LZMA_FINISH; everything else does once the input ended
	lzma_action action = (src_eof && !is_lzmadec) ? LZMA_FINISH : LZMA_RUN;
	strm.next_out = out_buf;
	strm.avail_out = CHUNK;
	for (;;) {
		if (strm.avail_in == 0 && action == LZMA_RUN && !src_eof) {
			strm.next_in = in_buf;
			strm.avail_in = rd(CHUNK);
			if (src_eof && !is_lzmadec) action = LZMA_FINISH;
		}
		ret = lzma_code(&strm, action);
		if (ret == LZMA_UNSUPPORTED_CHECK) { ++warnings; continue; }  // a warning: decoding goes on
		if (strm.avail_out == 0 || ret != LZMA_OK) {
			wr(out_buf, CHUNK - strm.avail_out);
			strm.next_out = out_buf;
			strm.avail_out = CHUNK;
		}
		if (ret == LZMA_OK)
			continue;
		if (ret == LZMA_STREAM_END && !allow_trailing) {
			// "no trailing bytes" rule (.lzma in xz; lzmadec; a no-op for CONCATENATED .xz)
			if (strm.avail_in == 0 && !src_eof) {
				strm.next_in = in_buf;
				strm.avail_in = rd(1);
			}
			if (strm.avail_in != 0) ret = LZMA_DATA_ERROR;
		}
		break;
	}
	lzma_end(&strm);
	finish(ret, fname, warnings);
	return 0;
}
