// hx_index: C13 - the Index and file-info APIs describe files exactly;
// random access is correct.
//   --mode ops    random lzma_index_* histories against a list-of-records model
//   --mode files  file-info decoder over real multi-Stream files with many read
//                 plans; locate + Block decode at the reported offsets
#define _GNU_SOURCE
#include "vh.h"
#include "gen_stream.h"
#ifdef WITH_REFDEC
#include "ref/refdec.h"
#endif

static hx_args A;

///////////////////////////
// list-of-records model //
///////////////////////////

#define VLI_MAX ((uint64_t)LZMA_VLI_MAX)
#define BACKWARD_MAX (UINT64_C(1) << 34)
#define UNPADDED_MAX (VLI_MAX & ~UINT64_C(3))

typedef struct { uint64_t unpadded, uncomp; } mrec;
typedef unsigned __int128 u128;
typedef struct { mrec *r; size_t n, cap; bool flags_set; lzma_check check; uint64_t backward; uint64_t padding;
	u128 agg_list, agg_blocks, agg_uncomp; /* cached sums over r[] */ } mstream;
typedef struct { mstream *s; size_t n, cap; } mindex;

static unsigned vli_size(uint64_t v) { unsigned n = 1; while (v >= 0x80) { v >>= 7; ++n; } return n; }
static uint64_t ceil4(uint64_t v) { return (v + 3) & ~UINT64_C(3); }

// sizes as 128-bit to detect overflow of the format limits

static u128 m_index_list_size(const mstream *s) { return s->agg_list; }
static u128 index_field_size(u128 count, u128 list_size) { u128 t = 1 + vli_size((uint64_t)count) + list_size; t = (t + 3) & ~(u128)3; return t + 4; }
static u128 m_blocks_size(const mstream *s) { return s->agg_blocks; }
static u128 m_uncomp(const mstream *s) { return s->agg_uncomp; }
static u128 m_stream_size(const mstream *s) { return 12 + m_blocks_size(s) + index_field_size(s->n, m_index_list_size(s)) + 12; }
static u128 m_file_size(const mindex *m) { u128 t = 0; for (size_t i = 0; i < m->n; ++i) t += m_stream_size(&m->s[i]) + m->s[i].padding; return t; }
static u128 m_total_uncomp(const mindex *m) { u128 t = 0; for (size_t i = 0; i < m->n; ++i) t += m_uncomp(&m->s[i]); return t; }
static u128 m_total_blocks(const mindex *m) { u128 t = 0; for (size_t i = 0; i < m->n; ++i) t += m_blocks_size(&m->s[i]); return t; }
static u128 m_count(const mindex *m) { u128 t = 0; for (size_t i = 0; i < m->n; ++i) t += m->s[i].n; return t; }
static u128 m_combined_index_size(const mindex *m) { u128 l = 0; for (size_t i = 0; i < m->n; ++i) l += m_index_list_size(&m->s[i]); return index_field_size(m_count(m), l); }

static void m_init(mindex *m) { memset(m, 0, sizeof(*m)); m->cap = 4; m->s = calloc(m->cap, sizeof(mstream)); m->n = 1; }
static void m_free(mindex *m) { for (size_t i = 0; i < m->n; ++i) free(m->s[i].r); free(m->s); memset(m, 0, sizeof(*m)); }
static void m_push_stream(mindex *m, mstream s) { if (m->n == m->cap) { m->cap *= 2; m->s = realloc(m->s, m->cap * sizeof(mstream)); } m->s[m->n++] = s; }
static void ms_push(mstream *s, mrec r) { if (s->n == s->cap) { s->cap = s->cap ? s->cap * 2 : 8; s->r = realloc(s->r, s->cap * sizeof(mrec)); } s->r[s->n++] = r;
	s->agg_list += vli_size(r.unpadded) + vli_size(r.uncomp); s->agg_blocks += ceil4(r.unpadded); s->agg_uncomp += r.uncomp; }
static void ms_pop(mstream *s) { mrec r = s->r[--s->n]; s->agg_list -= vli_size(r.unpadded) + vli_size(r.uncomp); s->agg_blocks -= ceil4(r.unpadded); s->agg_uncomp -= r.uncomp; }
static mindex m_dup(const mindex *m)
{
	mindex d; d.n = m->n; d.cap = m->n ? m->n : 1; d.s = calloc(d.cap, sizeof(mstream));
	for (size_t i = 0; i < m->n; ++i) { d.s[i] = m->s[i]; d.s[i].cap = m->s[i].n; d.s[i].r = malloc((m->s[i].n ? m->s[i].n : 1) * sizeof(mrec)); if (m->s[i].n) memcpy(d.s[i].r, m->s[i].r, m->s[i].n * sizeof(mrec)); }
	return d;
}

// Would the model stay within the format limits? (sizes <= VLI_MAX; the
// Index field that lzma_index_size() describes <= the Backward Size limit)
static bool m_within_limits2(const mindex *m, bool check_total_uncomp)
{
	if (m_file_size(m) > VLI_MAX) return false;
	// (lzma_index_append documents only per-Stream limits for the uncompressed
	// size; lzma_index_cat documents "dest would grow too big")
	if (check_total_uncomp && m_total_uncomp(m) > VLI_MAX) return false;
	if (m_combined_index_size(m) > BACKWARD_MAX) return false;
	for (size_t i = 0; i < m->n; ++i) {
		if (m_blocks_size(&m->s[i]) > UNPADDED_MAX) return false;
		if (m_uncomp(&m->s[i]) > VLI_MAX) return false;
	}
	return true;
}

static bool m_within_limits(const mindex *m) { return m_within_limits2(m, true); }

static const char *m_limit_reason(const mindex *m)
{
	if (m_file_size(m) > VLI_MAX) return "file size > 2^63-1";
	if (m_total_uncomp(m) > VLI_MAX) return "total uncompressed size > 2^63-1";
	if (m_combined_index_size(m) > BACKWARD_MAX) return "Index field > 2^34";
	for (size_t i = 0; i < m->n; ++i) {
		if (m_blocks_size(&m->s[i]) > UNPADDED_MAX) return "Blocks of one Stream > 2^63-4";
		if (m_uncomp(&m->s[i]) > VLI_MAX) return "uncompressed size of one Stream > 2^63-1";
	}
	return "within limits";
}

static uint32_t m_checks(const mindex *m) { uint32_t c = 0; for (size_t i = 0; i < m->n; ++i) if (m->s[i].flags_set) c |= UINT32_C(1) << m->s[i].check; return c; }

// iterator model
typedef struct { long s, b; } mpos;   // s = -1: before the first Stream; b = -1: Stream without (current) Block

static bool m_next(const mindex *m, mpos *p, int mode)
{
	mpos q = *p;
	for (;;) {
		if (mode == LZMA_INDEX_ITER_STREAM) {
			if (q.s + 1 >= (long)m->n) return true;
			++q.s; q.b = m->s[q.s].n ? 0 : -1;
		} else if (q.s >= 0 && q.b + 1 < (long)m->s[q.s].n) {
			++q.b;
		} else {
			long s2 = q.s + 1;
			if (mode >= LZMA_INDEX_ITER_BLOCK) while (s2 < (long)m->n && m->s[s2].n == 0) ++s2;
			if (s2 >= (long)m->n) return true;
			q.s = s2; q.b = m->s[s2].n ? 0 : -1;
		}
		if (mode == LZMA_INDEX_ITER_NONEMPTY_BLOCK && m->s[q.s].r[q.b].uncomp == 0) continue;
		*p = q;
		return false;
	}
}

static bool m_locate(const mindex *m, mpos *p, uint64_t target)
{
	if ((u128)target >= m_total_uncomp(m)) return true;
	u128 off = 0;
	for (size_t s = 0; s < m->n; ++s) for (size_t b = 0; b < m->s[s].n; ++b) {
		u128 sz = m->s[s].r[b].uncomp;
		if (sz && (u128)target >= off && (u128)target < off + sz) { p->s = (long)s; p->b = (long)b; return false; }
		off += sz;
	}
	return true;
}

// compare iterator info with the model at position p
static bool check_iter_info(const mindex *m, mpos p, const lzma_index_iter *it, char *why, size_t whysz)
{
	u128 coff = 0, uoff = 0; uint64_t blocks_before = 0;
	for (long s = 0; s < p.s; ++s) { coff += m_stream_size(&m->s[s]) + m->s[s].padding; uoff += m_uncomp(&m->s[s]); blocks_before += m->s[s].n; }
	const mstream *ms = &m->s[p.s];
#define CK(field, val) do { if ((u128)(it->field) != (u128)(val)) { snprintf(why, whysz, #field " = %" PRIu64 ", model says %" PRIu64, (uint64_t)(it->field), (uint64_t)(val)); return false; } } while (0)
	CK(stream.number, p.s + 1);
	CK(stream.block_count, ms->n);
	CK(stream.compressed_offset, coff);
	CK(stream.uncompressed_offset, uoff);
	CK(stream.compressed_size, m_stream_size(ms));
	CK(stream.uncompressed_size, m_uncomp(ms));
	CK(stream.padding, ms->padding);
	if ((it->stream.flags != NULL) != ms->flags_set) { snprintf(why, whysz, "stream.flags %s, model says %s", it->stream.flags ? "set" : "NULL", ms->flags_set ? "set" : "NULL"); return false; }
	if (ms->flags_set && (it->stream.flags->check != ms->check || it->stream.flags->backward_size != ms->backward)) { snprintf(why, whysz, "stream.flags content differs (check %d vs %d)", (int)it->stream.flags->check, (int)ms->check); return false; }
	if (p.b >= 0) {
		u128 cso = 12, uso = 0;
		for (long b = 0; b < p.b; ++b) { cso += ceil4(ms->r[b].unpadded); uso += ms->r[b].uncomp; }
		CK(block.number_in_file, blocks_before + (uint64_t)p.b + 1);
		CK(block.number_in_stream, p.b + 1);
		CK(block.compressed_stream_offset, cso);
		CK(block.uncompressed_stream_offset, uso);
		CK(block.compressed_file_offset, coff + cso);
		CK(block.uncompressed_file_offset, uoff + uso);
		CK(block.uncompressed_size, ms->r[p.b].uncomp);
		CK(block.unpadded_size, ms->r[p.b].unpadded);
		CK(block.total_size, ceil4(ms->r[p.b].unpadded));
	}
#undef CK
	return true;
}

static bool check_queries(const mindex *m, const lzma_index *i, char *why, size_t whysz)
{
#define Q(fn, val) do { uint64_t got = (uint64_t)fn(i); if ((u128)got != (u128)(val)) { snprintf(why, whysz, #fn " = %" PRIu64 ", model says %" PRIu64, got, (uint64_t)(val)); return false; } } while (0)
	Q(lzma_index_stream_count, m->n);
	Q(lzma_index_block_count, m_count(m));
	Q(lzma_index_size, m_combined_index_size(m));
	Q(lzma_index_total_size, m_total_blocks(m));
	Q(lzma_index_stream_size, 12 + m_total_blocks(m) + m_combined_index_size(m) + 12);
	Q(lzma_index_file_size, m_file_size(m));
	Q(lzma_index_uncompressed_size, m_total_uncomp(m));
	Q(lzma_index_checks, m_checks(m));
	Q(lzma_index_memused, lzma_index_memusage((lzma_vli)m->n, (lzma_vli)m_count(m)));
#undef Q
	return true;
}

// full iteration in all modes + compare. The persistent-iterator checks use
// check_iter_info() (O(n) per call); here the offsets are carried along so
// that an audit is O(n) per mode.
typedef struct { u128 coff, uoff; uint64_t blocks_before; long s; u128 cso, uso; long b; } runpos;

static bool check_iter_info_fast(const mindex *m, mpos p, runpos *rp, const lzma_index_iter *it, char *why, size_t whysz)
{
	// advance the running sums to stream p.s
	while (rp->s < p.s) {
		if (rp->s >= 0) { rp->coff += m_stream_size(&m->s[rp->s]) + m->s[rp->s].padding; rp->uoff += m_uncomp(&m->s[rp->s]); rp->blocks_before += m->s[rp->s].n; }
		++rp->s; rp->cso = 12; rp->uso = 0; rp->b = 0;
	}
	const mstream *ms = &m->s[p.s];
#define CK(field, val) do { if ((u128)(it->field) != (u128)(val)) { snprintf(why, whysz, #field " = %" PRIu64 ", model says %" PRIu64, (uint64_t)(it->field), (uint64_t)(val)); return false; } } while (0)
	CK(stream.number, p.s + 1);
	CK(stream.block_count, ms->n);
	CK(stream.compressed_offset, rp->coff);
	CK(stream.uncompressed_offset, rp->uoff);
	CK(stream.compressed_size, m_stream_size(ms));
	CK(stream.uncompressed_size, m_uncomp(ms));
	CK(stream.padding, ms->padding);
	if ((it->stream.flags != NULL) != ms->flags_set) { snprintf(why, whysz, "stream.flags %s, model says %s", it->stream.flags ? "set" : "NULL", ms->flags_set ? "set" : "NULL"); return false; }
	if (ms->flags_set && (it->stream.flags->check != ms->check || it->stream.flags->backward_size != ms->backward)) { snprintf(why, whysz, "stream.flags content differs"); return false; }
	if (p.b >= 0) {
		while (rp->b < p.b) { rp->cso += ceil4(ms->r[rp->b].unpadded); rp->uso += ms->r[rp->b].uncomp; ++rp->b; }
		CK(block.number_in_file, rp->blocks_before + (uint64_t)p.b + 1);
		CK(block.number_in_stream, p.b + 1);
		CK(block.compressed_stream_offset, rp->cso);
		CK(block.uncompressed_stream_offset, rp->uso);
		CK(block.compressed_file_offset, rp->coff + rp->cso);
		CK(block.uncompressed_file_offset, rp->uoff + rp->uso);
		CK(block.uncompressed_size, ms->r[p.b].uncomp);
		CK(block.unpadded_size, ms->r[p.b].unpadded);
		CK(block.total_size, ceil4(ms->r[p.b].unpadded));
	}
#undef CK
	return true;
}

static bool check_full_iteration(const mindex *m, const lzma_index *i, char *why, size_t whysz)
{
	for (int mode = 0; mode <= 3; ++mode) {
		lzma_index_iter it; lzma_index_iter_init(&it, i);
		mpos p = { -1, -1 };
		runpos rp = { 0, 0, 0, -1, 12, 0, 0 };
		for (;;) {
			bool me = m_next(m, &p, mode);
			bool le = lzma_index_iter_next(&it, (lzma_index_iter_mode)mode);
			if (me != le) { snprintf(why, whysz, "iter_next(mode %d) returned %d, model says %d at stream %ld block %ld", mode, (int)le, (int)me, p.s, p.b); return false; }
			if (me) break;
			char w2[200];
			if (!check_iter_info_fast(m, p, &rp, &it, w2, sizeof(w2))) { snprintf(why, whysz, "mode %d at stream %ld block %ld: %s", mode, p.s, p.b, w2); return false; }
		}
	}
	return true;
}

static uint64_t gen_sz(vrng *r, bool unpadded)
{
	unsigned k = vrng_below(r, 20);
	uint64_t v;
	if (k < 10) v = vrng_logsize(r, 1u << 20);
	else if (k < 14) { static const uint64_t marks[] = { 0, 1, 127, 128, 16383, 16384, (1u << 21) - 1, 1u << 21, (1ull << 28) - 1, 1ull << 28, 1ull << 35, 1ull << 42, 1ull << 49, 1ull << 56 }; v = marks[vrng_below(r, 14)] + vrng_below(r, 3); }
	else if (k < 17) v = vrng_u64(r) >> (1 + vrng_below(r, 40));
	else if (k < 19) v = VLI_MAX - vrng_logsize(r, 1u << 20);
	else v = VLI_MAX / (2 + vrng_below(r, 6));
	if (unpadded) { if (v < 5) v = 5 + vrng_below(r, 8); if (v > UNPADDED_MAX) v = UNPADDED_MAX; }
	if (v > VLI_MAX) v = VLI_MAX;
	return v;
}

typedef struct { lzma_index *i; mindex m; } pair;

static void ops_case(uint64_t idx)
{
	vrng r; vrng_init(&r, A.seed, 0xC13, idx, 0);
	hx_case_begin(idx);
	alloc_mon mon; alloc_mon_init(&mon);
	pair P[3]; memset(P, 0, sizeof(P));
	unsigned np = 1;
	P[0].i = lzma_index_init(&mon.a); m_init(&P[0].m);
	// persistent iterators on P[0]
	lzma_index_iter its[3]; mpos ips[3]; bool iv[3] = { false, false, false };
	char hist[1600]; size_t hw = 0; hist[0] = 0;
	char why[400]; char key[200];
	unsigned nops = 20 + vrng_below(&r, 280);
	bool big_values = vrng_chance(&r, 1, 3);
	bool viol = false;
	unsigned n_cat = 0, n_dup = 0, n_limit_fail = 0, n_iter_across_cat = 0, n_group_cross = 0, n_adopt = 0;
#define H(...) do { if (hw < sizeof(hist) - 100) hw += (size_t)snprintf(hist + hw, sizeof(hist) - hw, __VA_ARGS__); } while (0)
#define VIOL(k, ...) do { char d_[1000]; snprintf(d_, sizeof(d_), __VA_ARGS__); hx_violation("C13", k, idx, "%s; history: %s", d_, hist); viol = true; } while (0)
	for (unsigned op = 0; op < nops && !viol; ++op) {
		unsigned k = vrng_below(&r, 100);
		unsigned t = vrng_below(&r, np);      // target index
		pair *p = &P[t];
		hx_eval();
		if (k < 45) {
			// append (sometimes bursts to cross the 512-record group size)
			unsigned burst = vrng_chance(&r, 1, 12) ? 400 + vrng_below(&r, 300) : 1;
			for (unsigned b = 0; b < burst && !viol; ++b) {
				uint64_t un = big_values ? gen_sz(&r, true) : 5 + vrng_logsize(&r, 1u << 22);
				uint64_t uc = big_values ? gen_sz(&r, false) : vrng_logsize(&r, 1u << 24);
				if (vrng_chance(&r, 1, 10)) uc = 0;
				ms_push(&p->m.s[p->m.n - 1], (mrec){ un, uc });
				bool ok_model = m_within_limits2(&p->m, true);
				const char *reason = m_limit_reason(&p->m);
				lzma_ret ret = lzma_index_append(p->i, &mon.a, un, uc);
				if (burst == 1) H("app%u(%" PRIu64 ",%" PRIu64 ")=%s ", t, un, uc, lzma_ret_name(ret)); else if (b == 0) H("app%ux%u ", t, burst);
				if (ret == LZMA_OK && !ok_model) { VIOL("limit-exceeding-append-succeeded", "append(%" PRIu64 ",%" PRIu64 ") succeeded although the model exceeds the format limits (%s)", un, uc, reason); }
				else if (ret != LZMA_OK && ok_model && ret != LZMA_MEM_ERROR) { VIOL("append-failed-within-limits", "append(%" PRIu64 ",%" PRIu64 ") returned %s although within limits", un, uc, lzma_ret_name(ret)); }
				if (ret == LZMA_OK) { if (p->m.s[p->m.n - 1].n == 513) ++n_group_cross; }
				else { ms_pop(&p->m.s[p->m.n - 1]); ++n_limit_fail; if (burst == 1 && !check_queries(&p->m, p->i, why, sizeof(why))) VIOL("failed-op-changed-index|append", "after failed append: %s", why); }
			}
		} else if (k < 52) {
			lzma_stream_flags sf; memset(&sf, 0, sizeof(sf));
			sf.version = 0; sf.check = (lzma_check)vrng_below(&r, 16); sf.backward_size = 4 * (1 + vrng_below(&r, 100));
			if (vrng_chance(&r, 1, 10)) sf.version = 1;
			lzma_ret ret = lzma_index_stream_flags(p->i, &sf);
			H("flags%u(chk%d,v%u)=%s ", t, (int)sf.check, sf.version, lzma_ret_name(ret));
			if (sf.version == 0) {
				if (ret != LZMA_OK) VIOL("stream-flags-rejected", "stream_flags returned %s", lzma_ret_name(ret));
				else { mstream *s = &p->m.s[p->m.n - 1]; s->flags_set = true; s->check = sf.check; s->backward = sf.backward_size; }
			} else if (ret == LZMA_OK) VIOL("unsupported-stream-flags-version-accepted", "version 1 accepted");
		} else if (k < 59) {
			uint64_t pad = 4 * (uint64_t)vrng_below(&r, 1000);
			if (big_values && vrng_chance(&r, 1, 4)) pad = (VLI_MAX - vrng_logsize(&r, 1u << 16)) & ~UINT64_C(3);
			bool misaligned = vrng_chance(&r, 1, 8); if (misaligned) pad |= 1 + vrng_below(&r, 3);
			uint64_t oldpad = p->m.s[p->m.n - 1].padding; p->m.s[p->m.n - 1].padding = pad;
			bool ok_model = !misaligned && m_within_limits2(&p->m, false);
			lzma_ret ret = lzma_index_stream_padding(p->i, pad);
			H("pad%u(%" PRIu64 ")=%s ", t, pad, lzma_ret_name(ret));
			if (ret == LZMA_OK && !ok_model) VIOL("limit-exceeding-padding-succeeded", "stream_padding(%" PRIu64 ") succeeded", pad);
			else if (ret != LZMA_OK && ok_model) VIOL("padding-failed-within-limits", "stream_padding(%" PRIu64 ") returned %s", pad, lzma_ret_name(ret));
			if (ret != LZMA_OK) { p->m.s[p->m.n - 1].padding = oldpad; ++n_limit_fail; if (!check_queries(&p->m, p->i, why, sizeof(why))) VIOL("failed-op-changed-index|padding", "%s", why); }
		} else if (k < 66 && np < 3) {
			// new separate index
			P[np].i = lzma_index_init(&mon.a); m_init(&P[np].m); ++np;
			H("new%u ", np - 1);
		} else if (k < 74 && np >= 2) {
			// cat: dest = P[a], src = P[b], a != b
			unsigned a = vrng_chance(&r, 2, 3) ? 0 : vrng_below(&r, np), b;
			do b = vrng_below(&r, np); while (b == a);
			mindex trial = m_dup(&P[a].m);
			for (size_t s = 0; s < P[b].m.n; ++s) { mstream c = P[b].m.s[s]; c.cap = c.n; c.r = malloc((c.n ? c.n : 1) * sizeof(mrec)); if (c.n) memcpy(c.r, P[b].m.s[s].r, c.n * sizeof(mrec)); m_push_stream(&trial, c); }
			bool ok_model = m_within_limits(&trial);
			lzma_ret ret = lzma_index_cat(P[a].i, P[b].i, &mon.a);
			H("cat(%u<-%u)=%s ", a, b, lzma_ret_name(ret));
			if (ret == LZMA_OK && !ok_model) VIOL("limit-exceeding-cat-succeeded", "cat succeeded although the model exceeds the limits (%s)", m_limit_reason(&trial));
			else if (ret != LZMA_OK && ok_model && ret != LZMA_MEM_ERROR) VIOL("cat-failed-within-limits", "cat returned %s", lzma_ret_name(ret));
			if (ret == LZMA_OK) {
				m_free(&P[a].m); P[a].m = trial; m_free(&P[b].m);
				// src is gone: compact the array
				if (b == 0) { /* P[0] consumed: move dest to slot 0; its iterators are invalid now */ P[0] = P[a]; iv[0] = iv[1] = iv[2] = false; if (a != np - 1) P[a] = P[np - 1]; --np; }
				else { if (a == 0 && (iv[0] || iv[1] || iv[2])) ++n_iter_across_cat; if (b != np - 1) P[b] = P[np - 1]; --np; }
				memset(&P[np], 0, sizeof(P[np]));
				++n_cat;
			} else {
				m_free(&trial); ++n_limit_fail;
				if (!check_queries(&P[a].m, P[a].i, why, sizeof(why))) VIOL("failed-op-changed-index|cat-dest", "%s", why);
				if (!viol && !check_queries(&P[b].m, P[b].i, why, sizeof(why))) VIOL("failed-op-changed-index|cat-src", "%s", why);
			}
		} else if (k < 79) {
			lzma_index *d = lzma_index_dup(p->i, &mon.a);
			H("dup%u ", t);
			if (!d) VIOL("dup-failed", "lzma_index_dup returned NULL");
			else {
				++n_dup;
				if (!check_queries(&p->m, d, why, sizeof(why))) VIOL("dup-differs", "duplicate: %s", why);
				else if (!check_full_iteration(&p->m, d, why, sizeof(why))) VIOL("dup-differs|iteration", "duplicate: %s", why);
				// keep the duplicate instead of the original half of the time
				if (!viol && vrng_chance(&r, 1, 2) && t != 0) { lzma_index_end(p->i, &mon.a); p->i = d; }
				else lzma_index_end(d, &mon.a);
			}
		} else if (k < 86) {
			// persistent iterator on P[0]: init/rewind/next/locate
			unsigned w = vrng_below(&r, 3);
			unsigned what = vrng_below(&r, 10);
			if (!iv[w] || what == 0) { lzma_index_iter_init(&its[w], P[0].i); ips[w] = (mpos){ -1, -1 }; iv[w] = true; H("it%u.init ", w); }
			else if (what == 1) { lzma_index_iter_rewind(&its[w]); ips[w] = (mpos){ -1, -1 }; H("it%u.rewind ", w); }
			else if (what < 4) {
				uint64_t tot = (uint64_t)m_total_uncomp(&P[0].m);
				uint64_t target = tot ? vrng_below64(&r, tot + (vrng_chance(&r, 1, 5) ? 10 : 0)) : vrng_below(&r, 5);
				if (vrng_chance(&r, 1, 4) && P[0].m.n) { // aim at a Block boundary
					mpos q = { -1, -1 }; unsigned hops = vrng_below(&r, 50); uint64_t off = 0;
					while (hops-- && !m_next(&P[0].m, &q, LZMA_INDEX_ITER_BLOCK)) off += P[0].m.s[q.s].r[q.b].uncomp;
					target = off ? off - vrng_below(&r, 2) : 0;
				}
				mpos q = ips[w];
				bool me = m_locate(&P[0].m, &q, target);
				bool le = lzma_index_iter_locate(&its[w], target);
				H("it%u.locate(%" PRIu64 ")=%d ", w, target, (int)le);
				if (me != le) VIOL("locate-result", "locate(%" PRIu64 ") returned %d, model says %d", target, (int)le, (int)me);
				else if (!me) {
					ips[w] = q;
					if (!check_iter_info(&P[0].m, q, &its[w], why, sizeof(why))) VIOL("locate-wrong-block", "locate(%" PRIu64 "): %s", target, why);
					else if (its[w].block.uncompressed_size == 0) VIOL("locate-empty-block", "locate(%" PRIu64 ") returned an empty Block", target);
				}
			} else {
				int mode = (int)vrng_below(&r, 4);
				mpos q = ips[w];
				bool me = m_next(&P[0].m, &q, mode);
				bool le = lzma_index_iter_next(&its[w], (lzma_index_iter_mode)mode);
				H("it%u.next(%d)=%d ", w, mode, (int)le);
				if (me != le) VIOL("iter-next-result", "iter_next(mode %d) returned %d, model says %d (model position stream %ld block %ld)", mode, (int)le, (int)me, ips[w].s, ips[w].b);
				else if (!me) { ips[w] = q; if (!check_iter_info(&P[0].m, q, &its[w], why, sizeof(why))) VIOL("iter-info", "after next(mode %d): %s", mode, why); }
			}
		} else if (k < 93) {
			// encode (buffer or streaming) and decode back: flattened single-Stream index
			u128 isz = m_combined_index_size(&p->m);
			if (isz < (1u << 22)) {
				size_t sz = (size_t)isz;
				uint8_t *buf = malloc(sz + 16); size_t pos = 0;
				lzma_ret ret;
				bool streaming = vrng_chance(&r, 1, 2);
				if (!streaming) ret = lzma_index_buffer_encode(p->i, buf, &pos, sz);
				else {
					lzma_stream es = LZMA_STREAM_INIT; es.allocator = &mon.a;
					ret = lzma_index_encoder(&es, p->i);
					if (ret == LZMA_OK) { vbuf o = {0}; slice_plan sp; slice_plan_random(&r, &sp); sp.final_action = LZMA_RUN; slice_result sr; slicer_run(&es, NULL, 0, &o, &sp, &sr); ret = sr.ret == LZMA_STREAM_END ? LZMA_OK : sr.ret; pos = o.n <= sz + 16 ? o.n : 0; if (pos) memcpy(buf, o.p, pos); vbuf_free(&o); }
					lzma_end(&es);
				}
				H("enc%u(%s)=%s ", t, streaming ? "stream" : "buf", lzma_ret_name(ret));
				if (ret != LZMA_OK || pos != sz) VIOL("index-encode", "index encode returned %s, %zu bytes, lzma_index_size says %zu", lzma_ret_name(ret), pos, sz);
				else {
					// too small buffer must fail
					size_t p2 = 0; if (sz > 0 && lzma_index_buffer_encode(p->i, buf + 0, &p2, sz - 1) == LZMA_OK) VIOL("index-encode-overflow", "buffer_encode succeeded with a buffer one byte too small");
					lzma_index *d = NULL; uint64_t ml = UINT64_MAX; size_t ip = 0;
					lzma_ret dr;
					if (vrng_chance(&r, 1, 2)) { pos = 0; (void)lzma_index_buffer_encode(p->i, buf, &pos, sz); dr = lzma_index_buffer_decode(&d, &ml, &mon.a, buf, &ip, sz); }
					else {
						pos = 0; (void)lzma_index_buffer_encode(p->i, buf, &pos, sz);
						lzma_stream ds = LZMA_STREAM_INIT; ds.allocator = &mon.a;
						dr = lzma_index_decoder(&ds, &d, UINT64_MAX);
						if (dr == LZMA_OK) { vbuf o = {0}; slice_plan sp; slice_plan_random(&r, &sp); slice_result sr; slicer_run(&ds, buf, sz, &o, &sp, &sr); dr = sr.ret == LZMA_STREAM_END ? LZMA_OK : sr.ret; vbuf_free(&o); }
						lzma_end(&ds);
					}
					// flattened model: all Records in one Stream
					mindex f; m_init(&f);
					for (size_t s = 0; s < p->m.n; ++s) for (size_t b = 0; b < p->m.s[s].n; ++b) ms_push(&f.s[0], p->m.s[s].r[b]);
					bool flat_ok = m_within_limits(&f);
					if (!flat_ok) {
						// the Records of several Streams do not fit one Stream: the decoder must refuse
						if (dr == LZMA_OK) VIOL("index-decode-accepts-overflow", "decoded an Index whose sums exceed the limits of one Stream");
						hx_count("flattened_index_over_limits", 1);
					} else if (dr != LZMA_OK || !d) VIOL("index-decode", "decoding the encoded Index returned %s", lzma_ret_name(dr));
					else {
						if (!check_queries(&f, d, why, sizeof(why))) VIOL("index-roundtrip", "decoded Index: %s", why);
						else if (!check_full_iteration(&f, d, why, sizeof(why))) VIOL("index-roundtrip|iteration", "decoded Index: %s", why);
					}
					// a third of the decoded indexes join the history (replacing a slot other than 0, which carries the
					// persistent iterators): later appends/cats/dups then run on an object built by the decoder
					if (!viol && d && flat_ok && dr == LZMA_OK && vrng_chance(&r, 1, 3)) {
						unsigned slot;
						if (np < 3) slot = np++;
						else { slot = 1 + vrng_below(&r, 2); lzma_index_end(P[slot].i, &mon.a); m_free(&P[slot].m); }
						P[slot].i = d; P[slot].m = f; d = NULL;
						H("adopt%u ", slot);
						++n_adopt;
						if (f.s[0].n == 0) hx_count("decoded_empty_index_adopted", 1);
					} else m_free(&f);
					if (d) lzma_index_end(d, &mon.a);
				}
				free(buf);
			}
		} else {
			// full audit of one index
			H("audit%u ", t);
			if (!check_queries(&p->m, p->i, why, sizeof(why))) VIOL("query-differs", "%s", why);
			else if (!check_full_iteration(&p->m, p->i, why, sizeof(why))) VIOL("iteration-differs", "%s", why);
		}
	}
	// final audit of everything
	for (unsigned t = 0; t < np && !viol; ++t) {
		if (!check_queries(&P[t].m, P[t].i, why, sizeof(why))) VIOL("query-differs", "final audit index %u: %s", t, why);
		else if (!check_full_iteration(&P[t].m, P[t].i, why, sizeof(why))) VIOL("iteration-differs", "final audit index %u: %s", t, why);
	}
	bool nontrivial = n_cat > 0 || n_group_cross > 0;
	hx_count("cat_ops", n_cat); hx_count("dup_ops", n_dup); hx_count("decoded_indexes_adopted", n_adopt); hx_count("limit_failures", n_limit_fail);
	hx_count("iterators_alive_across_cat", n_iter_across_cat); hx_count("group_boundary_crossings", n_group_cross);
	hx_sample("c13 ops=%u big=%d history: %.300s", nops, big_values, hist);
	hx_distinct(vhash(hist, strlen(hist), vhash(&idx, 8, VHASH_INIT)), nontrivial);
	for (unsigned t = 0; t < np; ++t) { lzma_index_end(P[t].i, &mon.a); m_free(&P[t].m); }
	if (mon.live_blocks) hx_violation("C13", "leak|index-ops", idx, "%" PRIu64 " blocks still allocated after ending all indexes; history: %s", mon.live_blocks, hist);
	if (mon.errors) hx_violation("C13", "allocator-misuse|index-ops", idx, "%s; history: %s", mon.errmsg, hist);
	alloc_mon_destroy(&mon);
#undef H
#undef VIOL
}

/////////////////////////////
// files: file-info decoder //
/////////////////////////////

// run the file-info decoder with a read plan; returns index or NULL
static uint64_t memlimit_raises;
static lzma_index *file_info(const uint8_t *f, size_t n, size_t chunk, bool use_finish, vrng *r, bool random_chunks, lzma_ret *retp, uint64_t *seeks, bool *seek_bad, uint64_t memlimit)
{
	lzma_stream s = LZMA_STREAM_INIT; lzma_index *ix = NULL;
	*seeks = 0; *seek_bad = false;
	lzma_ret ret = lzma_file_info_decoder(&s, &ix, memlimit, n);
	if (ret != LZMA_OK) { *retp = ret; return NULL; }
	uint64_t pos = 0; uint64_t calls = 0;
	bool prev_noprog = false;
	for (;;) {
		size_t avail = pos < n ? n - (size_t)pos : 0;
		size_t take = avail < chunk ? avail : chunk;
		if (random_chunks && take > 1) take = 1 + (size_t)vrng_below64(r, take);
		uint8_t *ip = vh_in_window(f + (pos < n ? pos : 0), take);
		s.next_in = ip; s.avail_in = take;
		lzma_action a = (use_finish && pos + take >= n) ? LZMA_FINISH : LZMA_RUN;
		ret = lzma_code(&s, a);
		size_t used = take - s.avail_in;
		pos += used;
		if (ret == LZMA_MEMLIMIT_ERROR && memlimit != UINT64_MAX && calls < 200) {
			// raise the limit to what the decoder says it needs and go on
			uint64_t need = lzma_memusage(&s);
			if (need == 0 || lzma_memlimit_set(&s, need) != LZMA_OK) break;
			++calls; ++memlimit_raises;
			continue;
		}
		if (ret == LZMA_SEEK_NEEDED) { ++*seeks; if (s.seek_pos > n) { *seek_bad = true; break; } pos = s.seek_pos; prev_noprog = false; continue; }
		if (ret != LZMA_OK) break;
		if (used == 0) { if (prev_noprog) { ret = LZMA_BUF_ERROR; break; } prev_noprog = true; } else prev_noprog = false;
		if (++calls > 8 * (uint64_t)n + 100000) { ret = LZMA_PROG_ERROR; break; }
	}
	lzma_end(&s);
	*retp = ret;
	if (ret != LZMA_STREAM_END && ix) { lzma_index_end(ix, NULL); ix = NULL; }
	return ix;
}

static bool same_index(const lzma_index *a, const lzma_index *b, char *why, size_t whysz)
{
	if (lzma_index_stream_count(a) != lzma_index_stream_count(b) || lzma_index_block_count(a) != lzma_index_block_count(b)
			|| lzma_index_file_size(a) != lzma_index_file_size(b) || lzma_index_uncompressed_size(a) != lzma_index_uncompressed_size(b)
			|| lzma_index_checks(a) != lzma_index_checks(b)) { snprintf(why, whysz, "summary figures differ"); return false; }
	lzma_index_iter x, y; lzma_index_iter_init(&x, a); lzma_index_iter_init(&y, b);
	for (;;) {
		bool ex = lzma_index_iter_next(&x, LZMA_INDEX_ITER_ANY), ey = lzma_index_iter_next(&y, LZMA_INDEX_ITER_ANY);
		if (ex != ey) { snprintf(why, whysz, "iteration lengths differ"); return false; }
		if (ex) return true;
		if (x.stream.number != y.stream.number || x.stream.block_count != y.stream.block_count || x.stream.compressed_offset != y.stream.compressed_offset
				|| x.stream.padding != y.stream.padding || x.stream.compressed_size != y.stream.compressed_size) { snprintf(why, whysz, "stream %" PRIu64 " differs", (uint64_t)x.stream.number); return false; }
		if (x.stream.block_count && (x.block.unpadded_size != y.block.unpadded_size || x.block.uncompressed_size != y.block.uncompressed_size
				|| x.block.compressed_file_offset != y.block.compressed_file_offset)) { snprintf(why, whysz, "block %" PRIu64 " differs", (uint64_t)x.block.number_in_file); return false; }
	}
}

static void files_case(uint64_t idx)
{
	vrng r; vrng_init(&r, A.seed, 0xC13F, idx, 0);
	hx_case_begin(idx);
	gstream g;
	unsigned k = vrng_below(&r, 10);
	unsigned ns = k < 4 ? 1 : (k < 7 ? 2 : 3 + vrng_below(&r, 3));
	k = vrng_below(&r, 10);
	unsigned nb = k < 3 ? 1 : (k < 7 ? 2 + vrng_below(&r, 4) : 6 + vrng_below(&r, 40));
	gen_xz_multi(&r, &g, ns, nb, vrng_chance(&r, 1, 8) ? 300000 : 20000, vrng_chance(&r, 1, 3), true);
	// sometimes a Stream without Blocks in front of or behind the others
	if (vrng_chance(&r, 1, 5)) {
		uint8_t es[64]; size_t ep = 0;
		static const lzma_check cks[] = { LZMA_CHECK_NONE, LZMA_CHECK_CRC32, LZMA_CHECK_CRC64, LZMA_CHECK_SHA256 };
		if (lzma_easy_buffer_encode(0, cks[vrng_below(&r, 4)], NULL, NULL, 0, es, &ep, sizeof(es)) == LZMA_OK) {
			if (vrng_chance(&r, 2, 3)) { vbuf nd = {0}; vbuf_append(&nd, es, ep); vbuf_append(&nd, g.data.p, g.data.n); vbuf_free(&g.data); g.data = nd; hx_count("files_empty_first_stream", 1); }
			else vbuf_append(&g.data, es, ep);
			++ns;
		}
	}
	// extra trailing Stream Padding sometimes
	if (vrng_chance(&r, 1, 4)) { unsigned pad = 4 * (1 + vrng_below(&r, 3000)); for (unsigned i = 0; i < pad; ++i) vbuf_putc(&g.data, 0); }
	bool mutated = false; char md[120] = "";
	if (vrng_chance(&r, 1, 5)) { mutate(&r, &g.data, md, sizeof(md)); mutated = true; }
	hx_sample("c13 file %s%s%s size=%zu", g.desc, mutated ? " MUT:" : "", md, g.data.n);
	char why[300]; char key[200];
	lzma_ret r0; uint64_t seeks; bool bad;
	lzma_index *canon = file_info(g.data.p, g.data.n, g.data.n ? g.data.n : 1, true, &r, false, &r0, &seeks, &bad, UINT64_MAX);
	hx_eval();
	if (bad) hx_violation("C13", "seek-beyond-file", idx, "whole-buffer read requested a seek beyond the file; %s %s", g.desc, md);
	if (seeks && !mutated) hx_violation("C13", "seek-with-whole-file-in-buffer", idx, "LZMA_SEEK_NEEDED although the whole file was in the buffer; %s", g.desc);
	if (!mutated && !canon) { snprintf(key, sizeof(key), "file-info-rejects-valid-file"); hx_violation("C13", key, idx, "file-info decoder returned %s on a valid file; %s", lzma_ret_name(r0), g.desc); }
	static const size_t chunks[] = { 1, 2, 3, 7, 12, 13, 24, 100, 1000, 4096, 8191, 8192, 8193, 65536 };
	uint64_t total_seeks = 0;
	for (unsigned v = 0; v < 8; ++v) {
		size_t ch = chunks[vrng_below(&r, 14)];
		bool fin = vrng_chance(&r, 1, 2), rnd = vrng_chance(&r, 1, 3);
		lzma_ret rr;
		lzma_index *ix = file_info(g.data.p, g.data.n, ch, fin, &r, rnd, &rr, &seeks, &bad, UINT64_MAX);
		hx_eval(); total_seeks += seeks;
		if (bad) { hx_violation("C13", "seek-beyond-file", idx, "read size %zu: seek beyond the file size %zu; %s %s", ch, g.data.n, g.desc, md); }
		if ((ix != NULL) != (canon != NULL) || (!ix && rr != r0 && !(rr == LZMA_BUF_ERROR || r0 == LZMA_BUF_ERROR))) {
			hx_violation("C13", "file-info-depends-on-read-size|status", idx, "read size %zu finish=%d random=%d gives %s, whole buffer gives %s; %s %s", ch, fin, rnd, lzma_ret_name(rr), lzma_ret_name(r0), g.desc, md);
		} else if (ix && !same_index(ix, canon, why, sizeof(why))) {
			hx_violation("C13", "file-info-depends-on-read-size|index", idx, "read size %zu: %s; %s %s", ch, why, g.desc, md);
		}
		if (ix) lzma_index_end(ix, NULL);
	}
	hx_count("file_info_seeks", total_seeks);
	if (canon && !mutated) {
		// figures vs. the generator's knowledge
		if (lzma_index_uncompressed_size(canon) != g.plain.n) hx_violation("C13", "file-info-uncompressed-size", idx, "index says %" PRIu64 " uncompressed bytes, file holds %zu; %s", (uint64_t)lzma_index_uncompressed_size(canon), g.plain.n, g.desc);
		if (lzma_index_stream_count(canon) != ns) hx_violation("C13", "file-info-stream-count", idx, "index says %" PRIu64 " Streams, file has %u; %s", (uint64_t)lzma_index_stream_count(canon), ns, g.desc);
		if (lzma_index_file_size(canon) != g.data.n) hx_violation("C13", "file-info-file-size", idx, "index says file size %" PRIu64 ", real %zu; %s", (uint64_t)lzma_index_file_size(canon), g.data.n, g.desc);
		// random access: locate -> decode that Block at the reported offset -> compare
		unsigned tries = 6;
		for (unsigned t = 0; t < tries && g.plain.n; ++t) {
			uint64_t target = vrng_below64(&r, g.plain.n);
			lzma_index_iter it; lzma_index_iter_init(&it, canon);
			if (lzma_index_iter_locate(&it, target)) { hx_violation("C13", "locate-failed-inside-file", idx, "locate(%" PRIu64 ") failed, size %zu; %s", target, g.plain.n, g.desc); break; }
			if (!(it.block.uncompressed_file_offset <= target && target < it.block.uncompressed_file_offset + it.block.uncompressed_size)) {
				hx_violation("C13", "locate-wrong-block", idx, "locate(%" PRIu64 ") returned Block [%" PRIu64 ",+%" PRIu64 "); %s", target, (uint64_t)it.block.uncompressed_file_offset, (uint64_t)it.block.uncompressed_size, g.desc); break; }
			uint64_t off = it.block.compressed_file_offset;
			if (off >= g.data.n || !it.stream.flags) { hx_violation("C13", "block-offset-outside-file", idx, "compressed offset %" PRIu64 "; %s", off, g.desc); break; }
			lzma_block b; memset(&b, 0, sizeof(b)); lzma_filter bf[LZMA_FILTERS_MAX + 1];
			b.version = 1; b.check = it.stream.flags->check; b.filters = bf;
			b.header_size = lzma_block_header_size_decode(g.data.p[off]);
			lzma_ret hr = off + b.header_size <= g.data.n && g.data.p[off] ? lzma_block_header_decode(&b, NULL, g.data.p + off) : LZMA_DATA_ERROR;
			if (hr != LZMA_OK) { hx_violation("C13", "no-block-at-reported-offset", idx, "block_header_decode at offset %" PRIu64 " returned %s; %s", off, lzma_ret_name(hr), g.desc); break; }
			// give the decoder the sizes from the index as the API docs suggest
			lzma_ret cr = lzma_block_compressed_size(&b, it.block.unpadded_size);
			b.uncompressed_size = it.block.uncompressed_size;
			lzma_stream d = LZMA_STREAM_INIT;
			vbuf o = {0};
			if (cr == LZMA_OK && lzma_block_decoder(&d, &b) == LZMA_OK) {
				slice_plan sp = { .mode = SL_WHOLE, .final_action = LZMA_FINISH }; slice_result sr;
				size_t avail = g.data.n - (size_t)off - b.header_size;
				size_t give = it.block.total_size - b.header_size <= avail ? (size_t)(it.block.total_size - b.header_size) : avail;
				slicer_run(&d, g.data.p + off + b.header_size, give, &o, &sp, &sr);
				const uint8_t *exp = g.plain.p + it.block.uncompressed_file_offset;
				if (sr.ret != LZMA_STREAM_END || o.n != it.block.uncompressed_size || (o.n && memcmp(o.p, exp, o.n)))
					hx_violation("C13", "random-access-wrong-data", idx, "Block %" PRIu64 " decoded at compressed offset %" PRIu64 " gives %zu bytes (%s), expected %" PRIu64 " bytes of plaintext at %" PRIu64 "; %s",
							(uint64_t)it.block.number_in_file, off, o.n, lzma_ret_name(sr.ret), (uint64_t)it.block.uncompressed_size, (uint64_t)it.block.uncompressed_file_offset, g.desc);
				else hx_count("random_access_blocks_verified", 1);
			} else hx_violation("C13", "index-sizes-rejected-by-block-decoder", idx, "lzma_block_compressed_size/decoder init failed for the sizes in the index; %s", g.desc);
			lzma_end(&d); vbuf_free(&o); lzma_filters_free(bf, NULL);
			hx_eval();
		}
		// memory limit: start from 1 byte, raise to lzma_memusage() on every
		// LZMA_MEMLIMIT_ERROR; the decoder must finish with the same index
		memlimit_raises = 0;
		lzma_ret rr; lzma_index *ix = file_info(g.data.p, g.data.n, 4096, false, &r, false, &rr, &seeks, &bad, 1);
		if (!ix) hx_violation("C13", "file-info-memlimit-raise-fails", idx, "raising the limit to lzma_memusage() after each LZMA_MEMLIMIT_ERROR ends with %s after %" PRIu64 " raises; %s", lzma_ret_name(rr), memlimit_raises, g.desc);
		else { if (!same_index(ix, canon, why, sizeof(why))) hx_violation("C13", "file-info-memlimit-raise-changes-index", idx, "%s; %s", why, g.desc); lzma_index_end(ix, NULL); }
		hx_count("memlimit_raises", memlimit_raises);
		// the result is an ordinary lzma_index: it must take further Records
		{
			lzma_vli bc = lzma_index_block_count(canon), us = lzma_index_uncompressed_size(canon);
			unsigned extra = 1 + vrng_below(&r, 3);
			for (unsigned e = 0; e < extra; ++e) {
				lzma_ret ar = lzma_index_append(canon, NULL, 100 + e, 200);
				if (ar != LZMA_OK) { hx_violation("C13", "append-to-file-info-result-failed", idx, "lzma_index_append on the decoded index returned %s; %s", lzma_ret_name(ar), g.desc); break; }
			}
			if (lzma_index_block_count(canon) != bc + extra || lzma_index_uncompressed_size(canon) != us + 200 * (lzma_vli)extra)
				hx_violation("C13", "append-to-file-info-result-wrong", idx, "after %u appends: %" PRIu64 " Blocks (was %" PRIu64 "); %s", extra, (uint64_t)lzma_index_block_count(canon), (uint64_t)bc, g.desc);
			hx_count("file_info_results_appended", 1);
		}
		hx_count("files_valid", 1);
		if (ns >= 2) hx_count("files_multi_stream", 1);
	} else hx_count("files_rejected", 1);
	hx_distinct(vhash(g.data.p, g.data.n, VHASH_INIT), ns >= 2 || nb >= 2);
	if (canon) lzma_index_end(canon, NULL);
	gstream_free(&g);
}

int main(int argc, char **argv)
{
	hx_parse(argc, argv, &A);
	uint64_t idx = UINT64_MAX;
	while (hx_next_case(&A, &idx)) { if (!strcmp(A.mode, "files")) files_case(idx); else ops_case(idx); }
	hx_finish();
	return 0;
}
