"""setup_cmd: build every flavour and harness binary the registered checks use,
offline, from files on disk."""
import importlib, json, os, sys, traceback
import build


def main():
    man = json.load(open(os.path.join(build.VERIF, "MANIFEST.json")))
    rc = 0
    seen = set()
    for chk in man["checks"]:
        pid = chk["property_id"]
        if pid in seen:
            continue
        seen.add(pid)
        try:
            mod = importlib.import_module("checks." + pid.lower())
            if hasattr(mod, "prepare"):
                mod.prepare("quick")
            print("setup %s ok" % pid, flush=True)
        except Exception:
            traceback.print_exc()
            print("setup %s FAILED" % pid, flush=True)
            rc = 2
    return rc
