"""Source of truth for MANIFEST.json (python3 lib/manifest_gen.py regenerates it)."""

HOOK_COMMITS = ["1b1418a", "7a79fe2", "8ae2b65", "0f31715"]

NOTES = ("Runtime monitoring and sanitizers only. Every check rebuilds from a content-synchronised snapshot of /repo's "
         "working tree (lib/build.py), with the hook guard on. Exit 0 = held on what was observed, 1 = violation, "
         "2 = inconclusive (build failure, watchdog, minimum observations not reached).")

ENGINES = [
    {"name": "hx_rt", "path": "harness/hx_rt.c", "serves_properties": ["C01"],
     "kind_free_text": "round-trip monitor under gcc ASan+UBSan with assertions; guard-page slicer; hook H1 bias differential"},
]

ALL = ["C%02d" % i for i in range(1, 21)]

CHECKS = {
    "C01": dict(
        engine="hx_rt", category="exploration", design_ref="DESIGN.md section 4 C01",
        technique="runtime monitoring: sanitizer build + round-trip oracle + hook-driven normalisation differential",
        text="Random (entry point, configuration, input, slicing) cases are encoded and decoded by the real code under "
             "ASan+UBSan with assertions live; the decoded bytes and end status are compared with the input, and hook H1 "
             "forces match-finder normalisation inside small inputs with a byte-identity oracle. Held = held on the "
             "cases run (counts in the evidence), not proved.",
        note="Trusts the matching liblzma decoder as oracle (C02 uses an independent one), gcc's sanitizers, and that "
             "the H1 bias is semantically neutral. Input space and configuration product are sampled."),
}

NOT_APPLICABLE = {p: "check not built yet in this session; the technique applies (see DESIGN.md) and the check is being implemented"
                  for p in ALL if p not in CHECKS}
