"""Source of truth for MANIFEST.json (python3 lib/manifest_gen.py regenerates it)."""

HOOK_COMMITS = ["1b1418a", "7a79fe2", "8ae2b65", "0f31715"]

NOTES = ("Runtime monitoring and sanitizers only. Every check rebuilds from a content-synchronised snapshot of /repo's "
         "working tree (lib/build.py), with the hook guard on. Exit 0 = held on what was observed, 1 = violation, "
         "2 = inconclusive (build failure, watchdog, minimum observations not reached).")

ENGINES = [
    {"name": "hx_rt", "path": "harness/hx_rt.c", "serves_properties": ["C01"],
     "kind_free_text": "round-trip monitor under gcc ASan+UBSan with assertions; guard-page slicer; hook H1 bias differential"},
]

ALL = ["C%02d" % i for i in range(1, 21)]

CHECKS = {
    "C01": dict(
        engine="hx_rt", category="exploration", design_ref="DESIGN.md section 4 C01",
        technique="runtime monitoring: sanitizer build + round-trip oracle + hook-driven normalisation differential",
        text="Random (entry point, configuration, input, slicing) cases are encoded and decoded by the real code under "
             "ASan+UBSan with assertions live; the decoded bytes and end status are compared with the input, and hook H1 "
             "forces match-finder normalisation inside small inputs with a byte-identity oracle. Held = held on the "
             "cases run (counts in the evidence), not proved.",
        note="Trusts the matching liblzma decoder as oracle (C02 uses an independent one), gcc's sanitizers, and that "
             "the H1 bias is semantically neutral. Input space and configuration product are sampled."),
}

CHECKS.update({
    "C04": dict(
        engine="hx_dec", category="exploration", design_ref="DESIGN.md section 4 C04",
        technique="runtime monitoring: ASan+UBSan+assertions, MSan, guard-page slicer, leak-balance allocator monitor, return-code and stuck-call monitors over hostile inputs",
        text="Hostile inputs (tests/files, encoder output of every container kind, garbage; mutated, with CRC repair) are fed to "
             "every decoding and parsing entry point under varied flags, memory limits and buffer slicings in three "
             "instrumented builds (gcc ASan+UBSan with assertions; the same with the portable-C range decoder; clang MSan). "
             "Monitors: sanitizer reports, guard pages around the caller's buffers, documented-return-code set, BUF_ERROR on "
             "the second stuck call, per-call CPU budget, allocator leak balance after lzma_end. Held = no monitor fired on "
             "the executions counted in the evidence.",
        note="A clean sanitizer run is not memory safety (intra-object and non-adjacent overflows are invisible); only driven "
             "paths are observed; the threaded decoder's deadlock/race side is C07's; MSan never runs encoders (inputs come "
             "from files written by the ASan build)."),
    "C06": dict(
        engine="hx_dec+hx_rt", category="exploration", design_ref="DESIGN.md section 4 C06",
        technique="runtime monitoring: self-differential of every coder against its canonical whole-buffer run over all two-piece splits and random slicings; encoder byte-determinism across slicing/threads/timeouts/textual chains",
        text="Each decoder run is repeated under every two-piece split of short inputs, 1-byte and random slicings with empty "
             "calls; output bytes, final status and total_in must equal the whole-buffer run of the same build (valid and "
             "invalid inputs). Each encoder configuration is re-run under other slicings, thread counts 1-8, timeouts and "
             "with the chain passed through its textual form; bytes must be identical. Hook counters must show every LZMA "
             "resume point, LZMA2 sequence and BCJ hold-back path re-entered, else the run is inconclusive.",
        note="All 2-partitions of short inputs plus random k-partitions, not all partitions of long inputs. Threaded-decoder "
             "total_in at a fatal error is not compared (read-ahead dependent); file_info read-size independence is C13's."),
    "C17": dict(
        engine="xz-under-libxzio", category="fault_enumeration", design_ref="DESIGN.md section 4 C17, Appendix D",
        technique="runtime monitoring: enumerated syscall-fault, signal and crash injection at every call index of a traced clean run (LD_PRELOAD interposer); file-system snapshot oracle; offline unlink-ordering automaton over the call log; strace -e inject as independent witness",
        text="For each of 28 operation modes a clean traced run lists the N file-related libc calls xz makes; every k <= N is "
             "perturbed with every applicable fault kind (hard errno, EINTR/EAGAIN/short count, handled signal, signal+EINTR, "
             "SIGKILL). After each run: source intact or a complete valid target exists; no incomplete target left; absorbed "
             "faults give the clean result; listed-call failures give non-zero exit, removed target, untouched source; the "
             "Appendix D ordering automaton holds on the call log. Exhaustive in k per (mode, fault kind) for the modes, "
             "file sizes and errno/signal sets listed in the evidence.",
        note="Faults are injected at the libc boundary, not in the kernel/file system; durability is checked only as the order "
             "of successful fsyncs before unlink(source); target validity is decided by Python's lzma module; four call sites "
             "where xz ignores a failure on purpose are listed in known_findings.jsonl by call-site key."),
    "C18": dict(
        engine="c18_cli", category="exploration", design_ref="DESIGN.md section 4 C18, Appendix B",
        technique="runtime monitoring: differential of the real xz/xzdec/lzmadec binaries against a public-API decode of the same tree over driver-prepared sinks; ASan+UBSan sample",
        text="Sampled (input, tool, sink, options) cases; the real CLI binaries (rel build, sandbox active) write into prepared "
             "sinks (new file, pipe, > at offset 0 / at EOF / not at EOF / past EOF, >> O_APPEND, --no-sparse); sink content, "
             "st_size, exit status, file creation and the O_APPEND flag are compared with libdecode (liblzma public API), plus "
             "-T0/1/2/4 cross-comparison and xz|xz -d round trips over random option sets.",
        note="Trusts liblzma's single-threaded decoders as oracle (C02-C06 cover them; MT==ST is C07) and the format-sniff rule "
             "re-implemented from the documentation. st_blocks is reported, never asserted. Messages are not compared."),
    "C19": dict(
        engine="c19", category="exploration", design_ref="DESIGN.md section 4 C19, Appendix B",
        technique="runtime monitoring: model-based differential of directory post-state, exit status and diagnostics of the real xz binary; invertibility by real round trip; root and unprivileged runs",
        text="Seeded random cases (name x kind x mode/owner/times x format x -S suffix x flag subset x privilege) are run with "
             "the real -O2 -DNDEBUG, Landlock-sandboxed xz. Target name, refusals, overwrite protection, copied mode/owner/"
             "group/timestamps (ns), source removal, stdout content and exit status are compared with a reference model of "
             "xz(1). Every successful compression is undone with a real xz -d. Minimum-observation thresholds per refusal "
             "and suffix rule.",
        note="Trusts the Python model of xz(1) (incl. the longest-suffix rule of fix d3c8e7c); where the documentation leaves "
             "the order of two applicable conditions open either status is accepted; ext4/relatime; single directory."),
})

CHECKS.update({
    "C11": dict(
        engine="hx_proto", category="exploration", design_ref="DESIGN.md section 4 C11, Appendix C",
        technique="runtime monitoring: reference model of the lzma_code wrapper stepped in lock-step with the real handle over random legal/illegal call histories; guard-page windows",
        text="Random call histories (60-300 calls, 1 in 14 illegal) on handles of 18 coder types are executed while a model of "
             "the wrapper written from base.h predicts every wrapper-level guarantee: PROG_ERROR for illegal calls with no "
             "field moved, STREAM_END after end, BUF_ERROR only on the second stuck call and not fatal, exact pointer/avail/"
             "total accounting, nothing written before next_out, and correct data from histories that end normally.",
        note="The model is partial by design (coder results are inputs); histories stop at the first LZMA_PROG_ERROR because "
             "the documentation forbids continuing; finite random histories, not all sequences."),
    "C12": dict(
        engine="hx_flush", category="exploration", design_ref="DESIGN.md section 4 C12",
        technique="runtime monitoring: prefix-decodability monitor at the instant a flush returns, Block-boundary audit through the Index, refusal monitor for unsupported sync flush and illegal lzma_filters_update, final round trip",
        text="Random action scripts (RUN/SYNC_FLUSH/FULL_FLUSH/FULL_BARRIER/FINISH with lzma_filters_update in between) over "
             "the stream, easy, threaded, raw, Block and .lzma encoders; when a flush completes a fresh decoder over the "
             "output so far must reproduce the input so far; chains that cannot sync-flush must refuse; the Index must show "
             "Block boundaries exactly where requested and no empty Block; the final stream must decode to everything.",
        note="Prefix decoding uses the matching liblzma decoder and Block boundaries come from liblzma's file-info decoder; "
             "scripts and offsets are sampled."),
    "C20": dict(
        engine="c20", category="exploration", design_ref="DESIGN.md section 4 C20",
        technique="runtime monitoring: differential against system grep/diff/cmp on decompressed copies, strace exec-trace allow-list monitor, canary-file and cwd-listing monitors, label monitor; both label methods",
        text="Random invocations of the generated xzgrep/xzegrep/xzfgrep/xzdiff/xzcmp run under strace with 0-6 operands in all "
             "suffix-recognised formats, tame or hostile names and patterns, options in random spellings, with grep --label "
             "and with the sed fallback forced. stdout and exit status are compared with system grep/diff/cmp on the "
             "decompressed contents; every exec'd program is checked against an allow-list derived from the scripts; no "
             "canary or other file may appear; every output label must be one of the given names.",
        note="Trusts the image's GNU grep 3.8, diffutils 3.8, sed, expr, dash and strace; contradictory option pairs and "
             "xzdiff stdin-as-FILE2 are out of the workload (listed in the evidence assumptions); xzgrep -q -l printing the "
             "name is a listed known finding."),
})

CHECKS.update({
    "C13": dict(
        engine="hx_index", category="exploration", design_ref="DESIGN.md section 4 C13",
        technique="runtime monitoring: list-of-records reference model in lock-step with lzma_index operation histories (queries, iterators kept alive across append/cat, limits, encode/decode); file-info decoder under many read plans with seek-bound monitor; locate+Block-decode random-access oracle against the plaintext",
        text="Random lzma_index_* histories (sizes up to the VLI and Backward Size limits, group-boundary bursts, three "
             "long-lived iterators) run on the real objects and on a list-of-records model; every query, iterator field and "
             "success/failure is compared and failed operations must change nothing. Valid multi-Stream files are read by "
             "the file-info decoder under 8 read plans each (result must not depend on the plan, no seek beyond the file, "
             "memlimit-raise loop must converge) and random offsets are located and decoded at the reported Block offsets "
             "and compared with the plaintext.",
        note="Histories, files and offsets are sampled. Files come from liblzma's own encoders; the independent parse of the "
             "same files is C02/C03's. xz --list figures are compared in the thorough tier only when the CLI part is built."),
})

CHECKS.update({
    "C02": dict(
        engine="hx_rt+refdec", category="exploration", design_ref="DESIGN.md section 4 C02, Appendix A",
        technique="runtime monitoring: every encoder output judged by an independent decoder and field checker (refdec) under a sanitizer build; bound-function sufficiency monitor",
        text="The real encoders (all entry points incl. threaded, .lzma, raw, Block, MicroLZMA) run on random (configuration, "
             "input, slicing) cases; refdec - written from the format documents, sharing no code with liblzma - must accept "
             "the bytes, recover the input, consume everything, and finds every stored field truthful (flags, CRC32s, Block "
             "Header sizes, padding, Check, Index, Backward Size, LZMA2 chunk headers/order, dictionary size vs farthest "
             "match). Single-call encoders with out_size = bound(n) must never fail for lack of space.",
        note="refdec is independent code but one author's reading of the documents (cross-validated against tests/files, "
             "liblzma round trips, 300k mutants, 1.1M synthesised streams); inputs/configurations are sampled."),
    "C03": dict(
        engine="hx_fmt", category="exploration", design_ref="DESIGN.md section 4 C03, Appendix A",
        technique="runtime monitoring: three-way differential (independent synthesiser plaintext / independent decoder verdict / liblzma) over synthesised valid streams and their mutants, under a sanitizer build",
        text="Valid streams that xz's own encoder never emits are synthesised from the grammar by independent code, then "
             "mutated; for each, liblzma's .xz/Block/raw decoders must succeed exactly when the independent decoder says the "
             "format accepts it (documented relaxations give no verdict) and deliver byte-identical output and input position.",
        note="Accept/reject, output and consumed bytes are compared, never error kinds; the language of valid strings is "
             "sampled near-valid (where bugs live), not enumerated; refdec/synth are part of the trusted base."),
    "C05": dict(
        engine="hx_fmt", category="fault_enumeration", design_ref="DESIGN.md section 4 C05",
        technique="runtime monitoring: exhaustive single-bit-flip and truncation enumeration per base file (plus random multi-byte damage) through every applicable decoder, classified with the independent parser's field map",
        text="For each sampled valid base file (.xz all checks / multi-Block / multi-Stream, .lzma, .lz) every bit flip and every "
             "truncation length is decoded by the stream, threaded (sample), auto and format-specific decoders; success with "
             "different data, success after non-payload damage in .xz, or a cut file reported complete is a violation. "
             "Damaged files that are themselves valid by the format rules are classified, not alarmed.",
        note="Exhaustive in position per base file; base files are sampled and small (quick <= 2.2 KiB). 32-bit checks leave a "
             "2^-32 residual per random damage which would be reported with its witness."),
    "C14": dict(
        engine="hx_check", category="exploration", design_ref="DESIGN.md section 4 C14",
        technique="runtime monitoring: sanitizer build + differential oracle against independent bit-at-a-time references (cross-checked per run with zlib, hashlib, the CRC-64/XZ check value and released liblzma binaries) + guard-page over-read detection; hook H2 runs generic and CLMUL code separately",
        text="Every length 0..700 x 5 content classes x every start alignment 0..63 (buffer against PROT_NONE pages and in "
             "exact-size ASan heap blocks), every split point for short buffers, random multi-splits, random initial values, "
             "long buffers, SHA-256 lengths 0..320 with every two-piece split and messages above 2^32 bits are computed by "
             "lzma_crc32/64, by the generic and the CLMUL implementation separately and by lzma_check_*, and compared with "
             "bit-at-a-time references.",
        note="Contents per length are sampled; only x86-64 code paths run here; crc*_small.c and the CLMUL-less build are "
             "exercised in the thorough tier only; trusts harness/ref/check_ref.c (re-validated every run)."),
    "C15": dict(
        engine="hx_bcj", category="exploration", design_ref="DESIGN.md section 4 C15, Appendix A",
        technique="runtime monitoring: sanitizer build + round-trip and slicing self-differential + reference-transform differential (independent re-implementations and released liblzma binaries in a helper process) + one-shot API comparison",
        text="For delta (every distance) and the eight BCJ filters, random cases are pushed through the real streaming encoder "
             "and decoder under one-call, random and byte-at-a-time slicing; the filtered bytes must equal the independent "
             "reference transform, the released libraries' bytes and the one-shot functions' bytes, must not depend on "
             "slicing, and must decode back to the input; misaligned start offsets must be refused.",
        note="Input space sampled; trusts harness/ref/bcj_ref.c (agreed with liblzma 5.4.1/5.8.2 on every case); RISC-V has "
             "only 5.8.2 as released referee; a missing released library reduces coverage, not the verdict."),
    "C16": dict(
        engine="hx_fmt", category="exploration", design_ref="DESIGN.md section 4 C16, Appendix A",
        technique="runtime monitoring: differential of the .lzma/.lz/.xz decoders against the independent decoder's format rules, and of the auto decoder against the specific decoder chosen by the documented detection rules",
        text="Synthesised and real .lzma/.lz/.xz files, mutated and concatenated with padding, magic prefixes, garbage or other "
             "files, are decoded with random flag sets and endings; the specific decoder must accept exactly what the format "
             "rules accept, deliver the defined content and stop at the defined input position; the auto decoder must equal "
             "the specific decoder (status, output, total_in), report LZMA_FORMAT_ERROR for unrecognised input and reject "
             "'.lzma followed by anything' under LZMA_CONCATENATED.",
        note="Detection rules come from the documents; dictionary field 0 in .lzma is treated as no verdict; the CLI tools' "
             "sniffing is C18's."),
})

CHECKS.update({
    "C09": dict(
        engine="hx_mem", category="exploration", design_ref="DESIGN.md section 4 C09",
        technique="runtime monitoring: allocation monitor (peak requested bytes through lzma_allocator) against memory limits and lzma_*_memusage() estimates; MEMLIMIT_ERROR -> lzma_memusage -> lzma_memlimit_set -> resume loop compared with the unlimited run; LD_PRELOAD heap monitor (preload/libxzmem.c) on the real xz with --memlimit-* options",
        text="Files declaring dictionaries from 4 KiB to 64 MiB (thorough 1.5 GiB) are decoded by the stream, threaded, auto, "
             "file-info, .lzma and .lz decoders under limits swept around the measured need; the peak of bytes requested from "
             "the allocator must stay under limit + a fixed allowance, a MEMLIMIT_ERROR must report the needed amount and the "
             "decode must finish identically after raising the limit to it; the threaded decoder must respect "
             "memlimit_threading whenever one thread fits. Encoder/decoder estimates are compared with measured peaks. CLI part: "
             "the rel-build xz runs under a heap-counting preload with --memlimit-compress/-decompress/-mt-decompress/-M limits "
             "around its measured unlimited peak (presets, custom chains, -T1..8/0/+N, block sizes, xz/lzma/raw, --no-adjust; "
             "declared dictionaries to 1.5 GiB; --list of many-Block files): exit 0 needs peak <= limit + 128 KiB and a "
             "round-tripping result, exit 1 needs the memory-limit message, xz's own 'N MiB is required' followed until it "
             "succeeds.",
        note="Counts requested bytes only (no malloc overhead, no thread stacks); allowance 32 KiB + 1 KiB per thread (largest "
             "measured excess is in the evidence); configurations sampled; CLI heap = malloc_usable_size sums (stacks, static buffers "
             "and mmap outside malloc not counted), allowance 128 KiB."),
    "C10": dict(
        engine="hx_mem", category="fault_enumeration", design_ref="DESIGN.md section 4 C10",
        technique="runtime monitoring: fault-injecting lzma_allocator with live-block table; every k-th allocation failure (single and from-k) enumerated per API scenario plus random subsets; handle-reuse histories; ASan",
        text="26 API scenarios (all coder inits and coding loops incl. threaded, index operations, filter-chain handling, string "
             "conversions, header parsers, single-call coders) each get a clean run that counts N allocations and then every "
             "k <= N+2 as a single failure and as fail-from-k, plus random failure subsets; monitors: clean MEM_ERROR/NULL or a "
             "correct result, no double/unknown free, nothing live after *_end, nothing left by a failed init of a fresh "
             "handle, caller-owned objects unchanged; random handle-reuse histories with failures must end with an empty "
             "live set and a usable handle.",
        note="Exhaustive in k per scenario; scenarios are a catalogue (small inputs); threaded coders make k a global ordinal."),
})

CHECKS.update({
    "C07": dict(
        engine="hx_mt", category="exploration", design_ref="DESIGN.md section 4 C07, Appendix E",
        technique="runtime monitoring: ThreadSanitizer and ASan+UBSan builds driven through a pthread --wrap shim (seeded yield/sleep perturbation; serialising randomised scheduler with deadlock/lost-wake-up detection), differential against the single-threaded decoder, hook counters as minimum observations",
        text="Valid, corrupted and truncated multi-Block files are decoded by lzma_stream_decoder_mt under random thread counts, "
             "memory limits (with lzma_memlimit_set retry), time-outs, flags, slicings and early lzma_end, in three engines: "
             "TSan with perturbation at every pthread operation (data races), ASan with the same perturbation, and ASan under "
             "a serialising scheduler that picks the next thread at every synchronisation point (uniform / PCT / starvation, "
             "scheduler-chosen time-outs and spurious wake-ups) and reports 'no enabled thread' as deadlock. Output bytes and "
             "final status must equal the single-threaded decoder's; FAIL_FAST output must be a prefix.",
        note="Interleavings are sampled, not enumerated; TSan sees only races the executed schedules expose; the serial "
             "scheduler orders synchronisation operations only. Known finding: behind a BCJ filter the output length at a "
             "rejected input differs between the two decoders (hold-back buffer), listed by key."),
    "C08": dict(
        engine="hx_mt", category="exploration", design_ref="DESIGN.md section 4 C08, Appendix E",
        technique="runtime monitoring: ThreadSanitizer and ASan+UBSan builds driven through the pthread --wrap shim (perturbation / serialising scheduler with deadlock detection); action-script monitor with prefix-decodability, Block-boundary, progress and lifecycle (early end, re-init) oracles",
        text="Action scripts (RUN / FULL_FLUSH / FULL_BARRIER / lzma_filters_update / FINISH, early lzma_end, re-initialisation "
             "with the same or another thread count and block size while workers run) over lzma_stream_encoder_mt with random "
             "inputs around block_size x threads, in the same three engines as C07. The output must be one Stream decoding "
             "to the input; a completed FULL_FLUSH must make all input so far decodable; flush/barrier offsets must be Block "
             "boundaries; no empty or oversized Block; progress never exceeds the input given and finally equals the totals.",
        note="As C07. progress_out is compared only at the end (a finished but uncopied Block legitimately counts earlier); "
             "progress is sampled by the calling thread between calls."),
})

ENGINES += [
    {"name": "hx_mt", "path": "harness/hx_mt.c", "serves_properties": ["C07", "C08"],
     "kind_free_text": "threaded-coder monitors on top of harness/sched/sched.c (pthread --wrap shim: chaos perturbation, serialising scheduler)"},
    {"name": "hx_mem", "path": "harness/hx_mem.c", "serves_properties": ["C09", "C10"],
     "kind_free_text": "monitoring / fault-injecting lzma_allocator engines"},
    {"name": "hx_fmt", "path": "harness/hx_fmt.c", "serves_properties": ["C03", "C05", "C16"],
     "kind_free_text": "format-conformance monitors built on harness/ref/refdec.c (independent decoder) and harness/ref/synth.c (independent synthesiser)"},
    {"name": "hx_rt+refdec", "path": "harness/hx_rt.c", "serves_properties": ["C02"],
     "kind_free_text": "encoder output audited by the independent decoder"},
    {"name": "hx_check", "path": "harness/hx_check.c", "serves_properties": ["C14"],
     "kind_free_text": "CRC32/CRC64/SHA-256 differential monitor with hook H2"},
    {"name": "hx_bcj", "path": "harness/hx_bcj.c", "serves_properties": ["C15"],
     "kind_free_text": "BCJ/delta monitor with independent reference transforms and released-library referee"},
    {"name": "hx_index", "path": "harness/hx_index.c", "serves_properties": ["C13"],
     "kind_free_text": "lzma_index reference-model monitor and file-info/random-access monitor"},
    {"name": "hx_proto", "path": "harness/hx_proto.c", "serves_properties": ["C11"],
     "kind_free_text": "lock-step reference-model monitor of the lzma_code wrapper"},
    {"name": "hx_flush", "path": "harness/hx_flush.c", "serves_properties": ["C12"],
     "kind_free_text": "flush/option-update script monitor with prefix-decodability oracle"},
    {"name": "c20", "path": "lib/checks/c20.py", "serves_properties": ["C20"],
     "kind_free_text": "Python driver over the rel build's xzgrep/xzdiff scripts under strace"},
]

ENGINES += [
    {"name": "hx_dec", "path": "harness/hx_dec.c", "serves_properties": ["C04", "C06"],
     "kind_free_text": "decoder-side monitors (robustness, slicing independence) under ASan/UBSan/MSan with guard-page slicer and allocator monitor"},
    {"name": "xz-under-libxzio", "path": "preload/libxzio.c", "serves_properties": ["C17"],
     "kind_free_text": "real xz (rel flavour, Landlock active) under an LD_PRELOAD libc-call tracer and fault injector; strace -e inject as independent witness"},
    {"name": "c18_cli", "path": "lib/checks/c18.py", "serves_properties": ["C18"],
     "kind_free_text": "differential runtime monitor of xz/xzdec/lzmadec against harness/libdecode.c"},
    {"name": "c19", "path": "lib/checks/c19.py", "serves_properties": ["C19"],
     "kind_free_text": "runtime monitor of the real xz binary against lib/models/xz_naming.py"},
]

NOT_APPLICABLE = {}

# Dimensions added after the second round of seeded changes (DESIGN.md section 12)
EXTRA_TEXT = {
    "C01": "A quarter of the streaming cases carry a flush script (several Blocks, sync-flushed chunks, lc/lp/pb updates), 1 case in 25 a configuration just outside the documented domain (refused, or everything must hold); thorough adds 20 real long-haul streams of more than 4 GiB piped encoder->decoder->regenerated input without the hook.",
    "C02": "Flush scripts, lc/lp/pb updates and outside-domain configurations as in C01.",
    "C03": "LZMA1 chains are decoded under every valid way of marking their end (LZMA1 / LZMA1EXT with size known or unknown x ALLOW_EOPM); a fifth of the cases run on a reused handle whose first life decoded the original or a contrast file, whole or abandoned.",
    "C04": "A fifth of the cases run on a reused handle (first life: original or contrast file, whole or abandoned, optionally with one allocation failure; the limit given at init is read back); crafted Index fields carry Record counts at the edge of size arithmetic.",
    "C05": "A quarter of the base files hold stored (incompressible) plaintext of every length residue mod 64 under CRC32/CRC64/SHA-256, so every plaintext bit is flipped under every check.",
    "C06": "A third of the encoder cases carry a flush script (same actions at the same offsets in every run, only the slicing differs); two of the six variants run on a handle that was the same kind of encoder before (re-initialised without lzma_end).",
    "C07": "Lifecycles: early lzma_end, second life of the handle (re-init without lzma_end, other threads / threading limit) and output space that exactly fits and is never enlarged. 1/8 of the cases contain a Block that is well-formed but refused at decoder init (misaligned BCJ start offset); 2% are threshold cases: the smallest memlimit_threading that allows threaded mode is found by bisection on the hook counters and limit-1..limit+2 are run under the shim.",
    "C08": "Lifecycles: early end, re-init with the same / another thread count, and an allocation failure (usually inside a worker) that must surface as LZMA_MEM_ERROR without blocking or leaking; the progress rule is also checked for the second life. A third of the re-init lifecycles fail an allocation of the re-initialisation itself; a sixth of the cases use block sizes just below the Block Header field-width boundaries; two cases per run encode a 24 MiB incompressible Block behind delta,delta,lzma2 with SHA-256 so that the worker takes the uncompressed-chunk fallback, which rewrites the Block Header (floor: reached at least once).",
    "C10": "For index operations 'unchanged' also means: same digest as an untouched twin after a fixed continuation (other Stream Flags, padding, three appends). One scenario decodes Index fields declaring about 2^60 Records (the impossible allocation must be requested and refused, or never made). A fifth of the handle-reuse history steps are 1-3 lzma_index_decoder lives (whole or cut short, init under a failure plan half of the time).",
    "C12": "One more lzma_filters_update (whole chain or lc/lp/pb) is attempted at an arbitrary lzma_code call boundary under 1-3 byte output, also while a header is being copied out: accepted or refused, everything still has to decode. Chains that only the filter's own initialisation refuses are offered before the first input, mid-run and between Blocks after an accepted change.",
    "C13": "Decoded indexes join the operation history (a third), file-info results take further appends, files may contain Block-less Streams; xz --list --robot -vv figures are compared with an independent parser, including Stream Padding around the 8 KiB read window and Streams of thousands of Blocks.",
    "C09": "5% of the library cases are block-by-block cache-eviction cases for the threaded decoder (Blocks with different dictionaries, threading limit = need of the most demanding Block); Streams of mixed files declare different dictionaries; threading limits just above the single-thread need are swept. Half of the .lz files have two members whose dictionary grows from 4-16 KiB to the size under test (memory need per member).",
    "C11": "One case per run drives flush/finish sequences with more than 4 GiB of pending input (continuation accepted, change of avail_in by exactly 2^32 noticed).",
    "C17": "One unfaulted decompression per run has a zero run longer than 4 GiB (target verified by size, head, tail and reported extents before the source may go).",
    "C20": "Half of the stdin cases are fed by a writer that pauses (xz sees EAGAIN on its non-blocking stdin).",
    "C15": "A third of the cases also put the filter under test behind or in front of another filter (delta or x86) and compare the filtered bytes with the composed reference transforms; the ends of the delta distance range are drawn more often.",
    "C16": "A fifth of the cases run on a reused handle whose first life decoded the file before variation or a contrast file with other header bits.",
    "C18": "12% of the inputs are valid files whose compressed size is a multiple of the 8 KiB read buffer +- delta. Half of the stdin runs read from a pipe fed by a writer that pauses; one decode per run has a zero run longer than 4 GiB (sparse path)."
}
for _k, _v in EXTRA_TEXT.items():
    CHECKS[_k]["text"] = CHECKS[_k]["text"] + " " + _v
