"""Check context: sharded harness runs, sanitizer-report parsing, known-findings
matching, evidence and replay files, verdict.  Python stdlib only."""
import concurrent.futures, fnmatch, hashlib, json, os, re, shutil, signal, struct, subprocess, sys, tempfile, time

from build import VERIF, BUILD, SRC, NPROC, OUT

DEFAULT_SEED = 12648430

LEVEL = {  # property -> evidence level
    "C05": "fault_enumeration", "C10": "fault_enumeration", "C17": "fault_enumeration",
}

SAN_ENV = {
    "ASAN_OPTIONS": "abort_on_error=0:halt_on_error=1:detect_leaks=1:allocator_may_return_null=1:"
                    "max_allocation_size_mb=4096:detect_stack_use_after_return=0:exitcode=99:"
                    "handle_segv=1:handle_abort=1:quarantine_size_mb=16:malloc_context_size=8",
    "UBSAN_OPTIONS": "print_stacktrace=1:halt_on_error=1:exitcode=99",
    "LSAN_OPTIONS": "exitcode=98:print_suppressions=0",
    "TSAN_OPTIONS": "halt_on_error=0:exitcode=97:second_deadlock_stack=1:history_size=4:report_signal_unsafe=0",
    "MSAN_OPTIONS": "halt_on_error=1:exitcode=96",
}


def load_findings():
    p = os.path.join(VERIF, "known_findings.jsonl")
    out = []
    if os.path.exists(p):
        for line in open(p):
            line = line.strip()
            if line and not line.startswith("#"):
                out.append(json.loads(line))
    return out


def strip_nums(s):
    return re.sub(r"0x[0-9a-fA-F]+|\d+", "N", s)


FRAME_RE = re.compile(r"^\s*#(\d+) 0x[0-9a-f]+ in (\S+) (\S+)")


def _inrepo(path):
    return "/.build/src/" in path or path.startswith(SRC)


def parse_sanitizer(text):
    """Return a list of (key, excerpt) for each sanitizer/assert report found in
    stderr text."""
    out = []
    lines = text.splitlines()
    i = 0
    n = len(lines)

    def frames_from(j, limit=40):
        fr = []
        while j < n and len(fr) < limit:
            m = FRAME_RE.match(lines[j])
            if m:
                fr.append((m.group(2), m.group(3)))
            elif fr and not lines[j].strip():
                break
            elif fr and not lines[j].startswith(" "):
                break
            j += 1
        return fr, j

    def repo_funcs(fr, k=3):
        fs = [f for f, p in fr if _inrepo(p)]
        if not fs:
            fs = [f for f, p in fr if "harness/" in p][:1]
        return fs[:k]

    while i < n:
        ln = lines[i]
        m = re.search(r"ERROR: AddressSanitizer: (\S+)", ln)
        if m:
            kind = m.group(1)
            fr, j = frames_from(i + 1)
            key = "asan|%s|%s" % (kind, "<".join(repo_funcs(fr)))
            out.append((key, "\n".join(lines[i:min(n, i + 30)])))
            i = j
            continue
        m = re.search(r"ERROR: LeakSanitizer: detected memory leaks", ln)
        if m:
            # one key per leak block
            j = i + 1
            found = False
            while j < n and "SUMMARY" not in lines[j]:
                if re.match(r"^(Direct|Indirect) leak of", lines[j]):
                    fr, j2 = frames_from(j + 1)
                    key = "lsan|leak|%s" % "<".join(repo_funcs(fr))
                    out.append((key, "\n".join(lines[j:min(n, j + 14)])))
                    found = True
                    j = j2
                else:
                    j += 1
            if not found:
                out.append(("lsan|leak|?", "\n".join(lines[i:i + 10])))
            i = j
            continue
        m = re.search(r"^(\S+?):(\d+):(\d+): runtime error: (.*)$", ln)
        if m:
            fr, j = frames_from(i + 1)
            key = "ubsan|%s|%s|%s" % (strip_nums(m.group(4))[:80], os.path.basename(m.group(1)),
                                      "<".join(repo_funcs(fr, 2)))
            out.append((key, "\n".join(lines[i:min(n, i + 12)])))
            i = max(j, i + 1)
            continue
        m = re.search(r"WARNING: ThreadSanitizer: ([^(]+?)\s*\(pid=", ln)
        if m:
            kind = m.group(1).strip()
            # collect the block until the closing ====== line
            j = i + 1
            stacks = []
            while j < n and not lines[j].startswith("=================="):
                if re.match(r"^\s+(Write|Read|Previous write|Previous read|Atomic|Previous atomic|Mutex|Thread T|Location|Cycle|Lock order)", lines[j]) \
                        or "of size" in lines[j]:
                    fr, j2 = frames_from(j + 1)
                    if fr:
                        stacks.append(fr)
                    j = max(j2, j + 1)
                else:
                    j += 1
            tops = []
            for fr in stacks[:2]:
                rf = repo_funcs(fr, 1)
                tops.append(rf[0] if rf else "?")
            tops.sort()
            key = "tsan|%s|%s" % (kind, "<->".join(tops))
            out.append((key, "\n".join(lines[i:min(n, i + 60)])))
            i = j
            continue
        m = re.search(r"WARNING: MemorySanitizer: (\S+)", ln)
        if m:
            fr, j = frames_from(i + 1)
            key = "msan|%s|%s" % (m.group(1), "<".join(repo_funcs(fr)))
            out.append((key, "\n".join(lines[i:min(n, i + 30)])))
            i = j
            continue
        m = re.search(r"(\S+?):(\d+): (\S+): Assertion `(.*)' failed", ln)
        if m:
            key = "assert|%s:%s|%s" % (os.path.basename(m.group(1)), m.group(3), m.group(4)[:100])
            out.append((key, ln))
        i += 1
    return out


class Ctx:
    def __init__(self, prop, tier, seed):
        self.prop = prop
        self.tier = tier
        self.seed = seed
        self.t0 = time.time()
        self.level = LEVEL.get(prop, "exploration")
        self.evaluations = 0
        self.hashes = set()
        self.distinct_extra = 0
        self.counters = {}
        self.maxnames = set()
        self.visits = None
        self.samples = []
        self.notes = []
        self.violations = []      # dicts: key, detail, replay
        self.known_hits = {}      # key -> what
        self.inconclusive = []    # reasons
        self.findings = [f for f in load_findings() if f.get("property") == prop]
        self.rule = ""
        self.assumptions = []
        self.extra_cov = {}
        self.exhaustive = None
        self.minimums = []        # (name, observed, required, ok)
        self._viol_seen = {}
        self.replay_n = 0
        os.makedirs(BUILD, exist_ok=True)
        # stale witnesses of an earlier run with the same (property, tier, seed) would be confusing
        import glob
        for old in glob.glob(os.path.join(OUT, "replays", "%s-%s-%d-*.json" % (prop, tier, seed))):
            try:
                os.unlink(old)
            except OSError:
                pass
        self.scratch = tempfile.mkdtemp(prefix="verif-%s-" % prop, dir=os.path.join(BUILD))

    # ---- bookkeeping -------------------------------------------------
    def count(self, name, n=1):
        self.counters[name] = self.counters.get(name, 0) + n

    def merge_stats(self, st):
        self.evaluations += st.get("evaluations", 0)
        self.distinct_extra += 0
        mx = set(st.get("maxnames", []))
        self.maxnames |= mx
        for k, v in st.get("counters", {}).items():
            if k in mx:
                self.counters[k] = max(self.counters.get(k, 0), v)
            else:
                self.counters[k] = self.counters.get(k, 0) + v
        vis = st.get("visits")
        if vis:
            if self.visits is None:
                self.visits = [list(x) for x in vis]
            else:
                for d, row in enumerate(vis):
                    while len(self.visits) <= d:
                        self.visits.append([])
                    cur = self.visits[d]
                    for i, v in enumerate(row):
                        if i < len(cur):
                            cur[i] += v
                        else:
                            cur.append(v)

    def visit(self, domain, value):
        if self.visits is None or domain >= len(self.visits):
            return 0
        row = self.visits[domain]
        return row[value] if value < len(row) else 0

    def require(self, name, observed, required):
        ok = observed >= required
        self.minimums.append({"name": name, "observed": observed, "required": required, "ok": ok})
        if not ok:
            self.inconclusive.append("minimum observation not reached: %s = %s < %s" % (name, observed, required))

    def add_hash(self, h):
        self.hashes.add(h)

    # ---- violations --------------------------------------------------
    def match_finding(self, key):
        for f in self.findings:
            if fnmatch.fnmatchcase(key, f["key"]):
                return f
        return None

    def violation(self, key, detail, replay=None):
        f = self.match_finding(key)
        if f is not None and f.get("status") == "known":
            if key not in self.known_hits:
                self.known_hits[key] = f.get("what", "")
            self.count("known_finding_hits")
            return
        if key in self._viol_seen:
            self._viol_seen[key]["count"] += 1
            return
        self.replay_n += 1
        rp = os.path.join(OUT, "replays", "%s-%s-%d-%d.json" % (self.prop, self.tier, self.seed, self.replay_n))
        rec = {"property": self.prop, "key": key, "detail": detail, "seed": self.seed, "tier": self.tier,
               "replay": replay or {}, "count": 1}
        os.makedirs(os.path.dirname(rp), exist_ok=True)
        with open(rp, "w") as fh:
            json.dump(rec, fh, indent=1)
        rec["path"] = rp
        self._viol_seen[key] = rec
        self.violations.append(rec)

    # ---- running harness shards -------------------------------------
    def run_shards(self, binary, args, cases, nshards=None, env=None, timeout=3600,
                   max_crash_resumes=6, label=None, per_case_prop=None):
        """Run `binary args --seed S --cases N --shard i/n` over n processes.
        Handles crashes (sanitizer aborts): the crashing case is recorded as a
        violation keyed by the parsed report and the shard resumes after it."""
        if self.tier == "thorough":
            timeout = max(timeout, 4 * 3600)     # a loaded machine must not turn a long shard into "inconclusive"
        nshards = nshards or min(NPROC, max(1, cases))
        label = label or os.path.basename(binary)
        e = dict(os.environ)
        e.update(SAN_ENV)
        if env:
            e.update(env)
        base = [binary] + list(args) + ["--seed", str(self.seed), "--cases", str(cases)]
        if self.tier == "thorough":
            base.append("--thorough")

        def one(shard):
            start = 0
            resumes = 0
            slow = 0
            skips = []
            results = []
            while True:
                prog = os.path.join(self.scratch, "%s-%d.progress" % (label, shard))
                hashf = os.path.join(self.scratch, "%s-%d.hashes" % (label, shard))
                if os.path.exists(prog):
                    os.unlink(prog)
                ee = dict(e)
                ee["VERIF_PROGRESS"] = prog
                ee["VERIF_HASHFILE"] = hashf
                cmd = base + ["--shard", "%d/%d" % (shard, nshards), "--start", str(start)]
                for sk in skips:
                    cmd += ["--skip", str(sk)]
                try:
                    r = subprocess.run(cmd, stdout=subprocess.PIPE, stderr=subprocess.PIPE, env=ee,
                                       timeout=timeout)
                    rc, so, se, to = r.returncode, r.stdout, r.stderr, False
                except subprocess.TimeoutExpired as ex:
                    rc, so, se, to = -9, ex.stdout or b"", ex.stderr or b"", True
                so = so.decode("utf-8", "replace")
                se = se.decode("utf-8", "replace")
                last = None
                if os.path.exists(prog):
                    try:
                        last = int(open(prog).read().strip() or -1)
                    except ValueError:
                        last = None
                finished = '"final":1' in so
                results.append(dict(cmd=cmd, rc=rc, out=so, err=se, timeout=to, last=last, finished=finished))
                upto = None
                for ln in reversed(so.splitlines()):
                    if ln.startswith('{"t":"stats"'):
                        try:
                            upto = int(json.loads(ln).get("upto"))
                        except (ValueError, TypeError):
                            upto = None
                        break
                if finished and rc == 0:
                    break
                if finished and rc != 0:
                    # e.g. LeakSanitizer at exit: report, do not resume
                    break
                if last is None or resumes >= max_crash_resumes:
                    break
                if rc == 87:
                    # the case watchdog fired: re-run that case alone, once. A hang that repeats is a violation and
                    # ends the shard; a case that finishes alone was merely slow on a loaded machine - its result is
                    # taken from the solo run and the shard goes on behind it.
                    solo = base + ["--only", str(last)]
                    ee2 = dict(ee)
                    try:
                        wd = max(3 * int(ee.get("VERIF_CASE_WATCHDOG", "0") or 0), 300)
                    except ValueError:
                        wd = 300
                    ee2["VERIF_CASE_WATCHDOG"] = str(wd)
                    try:
                        r2 = subprocess.run(solo, stdout=subprocess.PIPE, stderr=subprocess.PIPE, env=ee2, timeout=wd + 120)
                        results[-1]["solo"] = dict(again=r2.returncode == 87, rc=r2.returncode, cmd=solo,
                                                   out=r2.stdout.decode("utf-8", "replace"), err=r2.stderr.decode("utf-8", "replace"))
                    except subprocess.TimeoutExpired:
                        results[-1]["solo"] = dict(again=True, rc=87, cmd=solo, out="", err="")
                    if results[-1]["solo"]["again"]:
                        break
                    slow += 1
                    if slow > 40 or len(skips) >= 60:
                        results[-1]["gave_up"] = True     # a machine this loaded decides nothing
                        break
                    # go on from the last checkpoint (the cases after it were lost with the process) minus the case
                    # that was run alone
                    skips.append(last)
                    if upto is not None and start <= upto <= last:
                        start = upto
                    # else: no checkpoint was written - nothing of this process was counted, so the same range is
                    # run again (without the slow case)
                    continue
                resumes += 1
                if len(skips) < 60:
                    skips.append(last)            # the crashing case is a violation already; do not lose its neighbours
                    if upto is not None and start <= upto <= last:
                        start = upto
                else:
                    start = last + 1
            return shard, results

        with concurrent.futures.ThreadPoolExecutor(max_workers=nshards) as ex:
            allres = list(ex.map(one, range(nshards)))
        for shard, results in allres:
            hashf = os.path.join(self.scratch, "%s-%d.hashes" % (label, shard))
            if os.path.exists(hashf):
                data = open(hashf, "rb").read()
                for (h,) in struct.iter_unpack("<Q", data[:len(data) // 8 * 8]):
                    self.hashes.add(h)
                os.unlink(hashf)
            for res in results:
                self._absorb(res, label)

    def _absorb(self, res, label):
        last_stats = None
        for line in res["out"].splitlines():
            if not line.startswith("{"):
                continue
            try:
                o = json.loads(line)
            except ValueError:
                continue
            t = o.get("t")
            if t == "stats":
                last_stats = o          # cumulative: only the last line of a process counts
            elif t == "sample":
                if len(self.samples) < 12:
                    self.samples.append(o["s"])
            elif t == "note":
                if len(self.notes) < 40:
                    self.notes.append(o["s"])
            elif t == "viol":
                if o.get("prop") not in (self.prop, "", None):
                    # a monitor for another property fired in a shared engine:
                    # still a violation worth reporting under this check's key space
                    pass
                cmd = [c for c in res["cmd"]]
                # replay: same command restricted to the case
                rcmd = []
                skip = False
                for c in cmd:
                    if skip:
                        skip = False
                        continue
                    if c in ("--shard", "--start"):
                        skip = True
                        continue
                    rcmd.append(c)
                rcmd += ["--only", str(o.get("case", 0))]
                self.violation(o["key"], o.get("detail", ""), {"argv": rcmd})
        if last_stats is not None:
            self.merge_stats(last_stats)
        if res["finished"] and res["rc"] == 0:
            return
        reports = parse_sanitizer(res["err"])
        rcmd = []
        skip = False
        for c in res["cmd"]:
            if skip:
                skip = False
                continue
            if c in ("--shard", "--start"):
                skip = True
                continue
            rcmd.append(c)
        if res["last"] is not None and not res["finished"]:
            rcmd += ["--only", str(res["last"])]
        if res["timeout"]:
            self.inconclusive.append("%s shard hit the wall-clock watchdog at case %s" % (label, res["last"]))
            self.violation_or_inconclusive_timeout(label, res, rcmd)
            return
        if res["rc"] == 87 and "HX-WATCHDOG" in res["err"] and res["last"] is not None:
            self.count("case_watchdog_fired")
            solo = res.get("solo")
            if solo is None or solo["again"]:
                self.violation("hang|%s" % label, "case %s did not finish within its wall-clock budget, twice (alone the second "
                               "time)" % res["last"], {"argv": rcmd, "exit": 87})
            else:
                # finished alone: that run is the case's result (sanitizer reports, violations, counters)
                if len(self.notes) < 20:
                    self.notes.append("%s: case %s exceeded the per-case wall-clock budget once (loaded machine) and finished "
                                      "when re-run alone; its result comes from the solo run" % (label, res["last"]))
                self._absorb(dict(cmd=solo["cmd"], rc=solo["rc"], out=solo["out"], err=solo["err"], timeout=False,
                                  last=res["last"], finished='"final":1' in solo["out"]), label)
                if res.get("gave_up"):
                    self.inconclusive.append("%s: more than 40 cases of one shard exceeded the per-case wall-clock budget and "
                                             "finished alone: the machine is too loaded for this run to decide anything" % label)
            return
        dl = [ln for ln in res["err"].splitlines() if ln.startswith("SCHED-DEADLOCK")]
        if dl:
            ops = sorted(set(re.findall(r"\[T\d+ ([a-z-]+)[^\]]* in (\w+)\]", dl[0])))
            key = "deadlock|%s|%s" % (label, ",".join("%s@%s" % (st, op) for st, op in ops))
            self.violation(key, dl[0], {"argv": rcmd, "exit": res["rc"]})
            return
        if reports:
            for key, excerpt in reports:
                self.violation(key, excerpt, {"argv": rcmd, "exit": res["rc"]})
            return
        if res["rc"] != 0:
            tail = res["err"][-1500:]
            if res["rc"] == 2:
                self.inconclusive.append("%s harness failure: %s" % (label, tail.strip()[-300:]))
            else:
                sig = -res["rc"] if res["rc"] < 0 else res["rc"]
                key = "crash|%s|%s" % (label, "signal-%d" % sig if res["rc"] < 0 else "exit-%d" % sig)
                self.violation(key, tail, {"argv": rcmd, "exit": res["rc"]})

    def violation_or_inconclusive_timeout(self, label, res, rcmd):
        # A watchdog firing is inconclusive by design (DESIGN.md section 1).
        self.count("watchdog_fired")

    # ---- finishing ---------------------------------------------------
    def finish(self):
        wall = time.time() - self.t0
        distinct = len(self.hashes) + self.distinct_extra
        cov = {
            "evaluations": int(self.evaluations),
            "distinct_nontrivial": int(distinct),
            "rule": self.rule,
            "samples": self.samples[:12] if self.samples else ["(no sample recorded)"],
            "counters": self.counters,
            "observed_minimums": self.minimums,
            "known_findings_seen": sorted(self.known_hits.keys()),
            "notes": self.notes[:40],
        }
        if self.visits is not None:
            cov["hook_visits"] = visits_named(self.visits)
        if self.exhaustive is not None:
            cov["exhaustive"] = bool(self.exhaustive)
        cov.update(self.extra_cov)
        if self.evaluations < 1 or distinct < 2:
            self.inconclusive.append("observed too little: evaluations=%d distinct_nontrivial=%d" % (self.evaluations, distinct))
        verdict = "held"
        if self.violations:
            verdict = "violated"
        elif self.inconclusive:
            verdict = "inconclusive"
        cov["verdict"] = verdict
        if self.inconclusive:
            cov["inconclusive_reasons"] = self.inconclusive[:20]
        ev = {
            "property_id": self.prop,
            "tier": self.tier,
            "seed": int(self.seed),
            "level": self.level,
            "coverage": cov,
            "assumptions": self.assumptions,
            "wall_s": round(wall, 2),
            "violations": len(self.violations),
        }
        os.makedirs(os.path.join(OUT, "evidence"), exist_ok=True)
        tmp = os.path.join(OUT, "evidence", ".%s.json.tmp" % self.prop)
        with open(tmp, "w") as fh:
            json.dump(ev, fh, indent=1, sort_keys=True)
        os.replace(tmp, os.path.join(OUT, "evidence", "%s.json" % self.prop))
        shutil.rmtree(self.scratch, ignore_errors=True)
        for k, what in sorted(self.known_hits.items()):
            print("KNOWN-FINDING: property=%s %s [%s]" % (self.prop, what, k))
        for v in self.violations:
            print("VIOLATION property=%s replay=%s" % (self.prop, v["path"]))
            print("  key: %s" % v["key"])
            d = v["detail"].strip().splitlines()
            for ln in d[:12]:
                print("  | " + ln)
        print("%s %s seed=%d: %s  evaluations=%d distinct_nontrivial=%d wall=%.1fs" % (
            self.prop, self.tier, self.seed, verdict.upper(), self.evaluations, distinct, wall))
        if verdict == "inconclusive":
            for r in self.inconclusive[:10]:
                print("  inconclusive: " + r)
        return {"held": 0, "violated": 1, "inconclusive": 2}[verdict]


VISIT_DOMAINS = ["lzma_seq", "lzma2_seq", "block_seq", "stream_seq", "stream_mt_seq", "alone_seq",
                 "lzip_seq", "file_info_seq", "index_dec_seq", "simple", "mt_dec", "mt_enc", "lz_enc"]
VISIT_NAMES = {
    "simple": ["flush_pos", "direct", "holdback", "buffered", "end_flush"],
    "mt_dec": ["direct_mode", "thread_start", "partial_start", "partial_enabled", "stalled_break",
               "thread_error", "pending_error", "cache_evict", "mem_wait", "timed_out", "worker_reuse",
               "wait", "threads_stop", "memlimit_error", "threads_end"],
    "mt_enc": ["thread_start", "worker_reuse", "incompressible", "wait", "timed_out", "reinit_reuse",
               "reinit_end", "thread_error", "flush_block", "filters_update", "threads_end"],
    "lz_enc": ["normalize", "move_window", "pending_replay", "move_pending"],
}


def visits_named(vis):
    out = {}
    for d, row in enumerate(vis):
        if d >= len(VISIT_DOMAINS) or not row:
            continue
        name = VISIT_DOMAINS[d]
        if name in VISIT_NAMES:
            out[name] = {VISIT_NAMES[name][i] if i < len(VISIT_NAMES[name]) else str(i): v
                         for i, v in enumerate(row) if v}
        else:
            out[name] = {str(i): v for i, v in enumerate(row) if v}
    return out
