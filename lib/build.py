"""Build machinery: source snapshot of /repo's working tree, xz build
flavours and harness binaries.  Everything lands in <verif>/.build (ignored,
derived).  Python stdlib only."""
import fcntl, hashlib, json, os, shutil, subprocess, sys, time

VERIF = os.path.dirname(os.path.dirname(os.path.abspath(__file__)))
REPO = os.environ.get("VERIF_REPO", "/repo")
# VERIF_BUILD / VERIF_OUT let tools/seed_par.sh run several trees side by side; registered commands never set them
BUILD = os.environ.get("VERIF_BUILD") or os.path.join(VERIF, ".build")
OUT = os.environ.get("VERIF_OUT") or VERIF
SRC = os.path.join(BUILD, "src")
GUARD = "TUKAANI_PROJECT_XZ_VERIF"
NPROC = os.cpu_count() or 4

SAN_COMMON = "-fno-omit-frame-pointer"
FLAVOURS = {
    # name: dict(cc, cflags, ldflags, cmake extra, harness cflags extra)
    "asan": dict(cc="gcc",
                 cflags="-O1 -g %s -fsanitize=address,undefined -fno-sanitize-recover=all" % SAN_COMMON,
                 cmake=["-DXZ_SANDBOX=no"]),
    # as asan, but the LZMA range decoder uses portable C instead of inline
    # x86-64 assembly, so sanitizers see every access of the decoder loop
    "asan_c": dict(cc="gcc",
                 cflags="-O1 -g %s -fsanitize=address,undefined -fno-sanitize-recover=all -DLZMA_RANGE_DECODER_CONFIG=0" % SAN_COMMON,
                 cmake=["-DXZ_SANDBOX=no"]),
    "tsan": dict(cc="gcc", cflags="-O1 -g %s -fsanitize=thread" % SAN_COMMON,
                 cmake=["-DXZ_SANDBOX=no"]),
    "msan": dict(cc="clang-14",
                 cflags="-O1 -g %s -fsanitize=memory -fsanitize-memory-track-origins -fno-sanitize-recover=all" % SAN_COMMON,
                 cmake=["-DXZ_SANDBOX=no"]),
    "plain": dict(cc="gcc", cflags="-O2 -g", cmake=[]),
    # what users and the baseline suite run: -O2 -DNDEBUG, sandbox auto
    "rel": dict(cc="gcc", cflags="-O2 -g -DNDEBUG", cmake=[]),
    "small": dict(cc="gcc", cflags="-O2 -g", cmake=["-DXZ_SMALL=ON"]),
    "noclmul": dict(cc="gcc", cflags="-O2 -g", cmake=["-DXZ_CLMUL_CRC=OFF"]),
}


def log(*a):
    print("[build]", *a, file=sys.stderr, flush=True)


class Lock:
    def __init__(self, name):
        os.makedirs(BUILD, exist_ok=True)
        self.path = os.path.join(BUILD, name + ".lock")

    def __enter__(self):
        self.f = open(self.path, "w")
        fcntl.flock(self.f, fcntl.LOCK_EX)
        return self

    def __exit__(self, *a):
        fcntl.flock(self.f, fcntl.LOCK_UN)
        self.f.close()


def run(cmd, **kw):
    r = subprocess.run(cmd, stdout=subprocess.PIPE, stderr=subprocess.STDOUT,
                       text=True, **kw)
    if r.returncode != 0:
        raise BuildError("command failed: %s\n%s" % (" ".join(cmd), r.stdout[-6000:]))
    return r.stdout


class BuildError(Exception):
    pass


def sync_source():
    """Mirror /repo's working tree (not .git, not _build) into .build/src by
    content.  Changed files get a fresh mtime so ninja rebuilds exactly those;
    unchanged files are untouched.  Returns a content hash of the tree."""
    with Lock("src"):
        os.makedirs(SRC, exist_ok=True)
        run(["rsync", "-rlpc", "--delete", "--exclude=/.git", "--exclude=/_build",
             REPO.rstrip("/") + "/", SRC + "/"])
        h = hashlib.sha256()
        for root, dirs, files in os.walk(SRC):
            dirs.sort()
            for fn in sorted(files):
                p = os.path.join(root, fn)
                if os.path.islink(p):
                    h.update(("L" + p + os.readlink(p)).encode())
                    continue
                h.update(os.path.relpath(p, SRC).encode())
                with open(p, "rb") as f:
                    h.update(hashlib.sha256(f.read()).digest())
        return h.hexdigest()


_src_hash = None


def src_hash():
    global _src_hash
    if _src_hash is None:
        _src_hash = sync_source()
    return _src_hash


def flavour_dir(name):
    return os.path.join(BUILD, name)


def build_flavour(name):
    """Configure+build xz for a flavour from the source snapshot.  Returns the
    build dir.  Re-runs ninja whenever the source hash changed."""
    spec = FLAVOURS[name]
    sh = src_hash()
    d = flavour_dir(name)
    stamp = os.path.join(d, ".verif_stamp")
    with Lock("flavour-" + name):
        want = json.dumps({"src": sh, "spec": spec}, sort_keys=True)
        if os.path.exists(stamp) and open(stamp).read() == want \
                and os.path.exists(os.path.join(d, "liblzma.a")):
            return d
        t0 = time.time()
        cfgstamp = os.path.join(d, ".verif_cfg")
        cfgwant = json.dumps(spec, sort_keys=True)
        if not (os.path.exists(cfgstamp) and open(cfgstamp).read() == cfgwant
                and os.path.exists(os.path.join(d, "build.ninja"))):
            shutil.rmtree(d, ignore_errors=True)
            os.makedirs(d)
            bt = "None"
            cmd = ["cmake", "-G", "Ninja", "-S", SRC, "-B", d,
                   "-DCMAKE_BUILD_TYPE=" + bt,
                   "-DCMAKE_C_COMPILER=" + spec["cc"],
                   "-DCMAKE_C_FLAGS=%s -D%s" % (spec["cflags"], GUARD),
                   "-DBUILD_SHARED_LIBS=OFF", "-DXZ_NLS=OFF", "-DXZ_DOC=OFF"] + spec["cmake"]
            run(cmd)
            open(cfgstamp, "w").write(cfgwant)
        run(["cmake", "--build", d, "-j", str(NPROC)])
        open(stamp, "w").write(want)
        log("flavour %s built in %.1fs" % (name, time.time() - t0))
        return d


HARNESS_COMMON = ["vh.c"]


def harness_flags(flavour):
    spec = FLAVOURS[flavour]
    d = flavour_dir(flavour)
    inc = ["-I" + os.path.join(SRC, "src/liblzma/api"), "-I" + os.path.join(VERIF, "harness"),
           "-I" + d, "-I" + os.path.join(SRC, "src/liblzma/common")]
    return spec["cc"], spec["cflags"].split() + ["-D" + GUARD, "-std=gnu11", "-Wall",
                                               "-Wno-unused-function"] + inc


def build_harness(flavour, name, sources, extra_cflags=(), extra_ldflags=(), extra_deps=()):
    """Compile harness executable `name` from harness/<sources> against the
    flavour's liblzma.a.  Rebuilt when any input changed (content hash)."""
    d = build_flavour(flavour)
    outdir = os.path.join(d, "hx")
    os.makedirs(outdir, exist_ok=True)
    out = os.path.join(outdir, name)
    cc, cflags = harness_flags(flavour)
    srcs = [os.path.join(VERIF, "harness", s) for s in sources]
    h = hashlib.sha256()
    h.update(open(os.path.join(d, ".verif_stamp")).read().encode())
    h.update(json.dumps([cc, cflags, list(extra_cflags), list(extra_ldflags)]).encode())
    hdrs = []
    for root, dirs, files in os.walk(os.path.join(VERIF, "harness")):
        for fn in files:
            if fn.endswith(".h"):
                hdrs.append(os.path.join(root, fn))
    for p in sorted(set(srcs + hdrs + list(extra_deps))):
        h.update(p.encode())
        h.update(open(p, "rb").read())
    want = h.hexdigest()
    stamp = out + ".stamp"
    with Lock("hx-%s-%s" % (flavour, name)):
        if os.path.exists(out) and os.path.exists(stamp) and open(stamp).read() == want:
            return out
        cmd = [cc] + cflags + list(extra_cflags) + srcs + \
              [os.path.join(d, "liblzma.a"), "-lpthread", "-lm"] + list(extra_ldflags) + ["-o", out]
        run(cmd)
        open(stamp, "w").write(want)
        return out


def build_shared(name, sources, cflags=()):
    """Uninstrumented shared object (LD_PRELOAD shims)."""
    outdir = os.path.join(BUILD, "preload")
    os.makedirs(outdir, exist_ok=True)
    out = os.path.join(outdir, name)
    srcs = [os.path.join(VERIF, s) for s in sources]
    h = hashlib.sha256()
    for p in srcs:
        h.update(open(p, "rb").read())
    h.update(json.dumps(list(cflags)).encode())
    stamp = out + ".stamp"
    with Lock("so-" + name):
        if os.path.exists(out) and os.path.exists(stamp) and open(stamp).read() == h.hexdigest():
            return out
        run(["gcc", "-O2", "-g", "-fPIC", "-shared", "-Wall"] + list(cflags) + srcs + ["-ldl", "-o", out])
        open(stamp, "w").write(h.hexdigest())
        return out


def baseline_off():
    """hooks.baseline_off_cmd: guard-less RelWithDebInfo build exactly like the
    baseline + the 19-test suite."""
    src_hash()
    d = os.path.join(BUILD, "baseline-off")
    with Lock("baseline-off"):
        shutil.rmtree(d, ignore_errors=True)
        run(["cmake", "-G", "Ninja", "-S", SRC, "-B", d, "-DCMAKE_BUILD_TYPE=RelWithDebInfo"])
        run(["cmake", "--build", d, "-j", str(NPROC)])
        r = subprocess.run(["ctest", "--test-dir", d, "-j8", "--timeout", "900"],
                           stdout=subprocess.PIPE, stderr=subprocess.STDOUT, text=True)
        sys.stdout.write(r.stdout)
        return r.returncode
