"""Regenerates MANIFEST.json from the CHECKS table below (keeps it valid)."""
import json, os, sys
HERE = os.path.dirname(os.path.dirname(os.path.abspath(__file__)))

HOOK_COMMITS = []

CHECKS = {}
NOT_APPLICABLE = {}


def load_tables():
    import importlib
    sys.path.insert(0, os.path.join(HERE, "lib"))
    tab = importlib.import_module("manifest_table")
    return tab


def main():
    tab = load_tables()
    man = {
        "version": 1,
        "setup_cmd": "./check --setup",
        "hooks": {
            "guard": "TUKAANI_PROJECT_XZ_VERIF",
            "enable": "every flavour built by lib/build.py passes -DTUKAANI_PROJECT_XZ_VERIF in CMAKE_C_FLAGS "
                      "(cmake -G Ninja -S <snapshot of /repo working tree> -B /verif/.build/<flavour> ...)",
            "baseline_off_cmd": "./check --baseline-off",
            "source_commits": tab.HOOK_COMMITS,
            "add_only": True,
        },
        "engines": tab.ENGINES,
        "checks": [],
        "notes": tab.NOTES,
        "not_applicable": [{"property_id": k, "reason": v} for k, v in sorted(tab.NOT_APPLICABLE.items())],
    }
    for pid in sorted(tab.CHECKS):
        c = tab.CHECKS[pid]
        man["checks"].append({
            "property_id": pid,
            "quick_cmd": "./check %s --tier quick" % pid,
            "thorough_cmd": "./check %s --tier thorough" % pid,
            "evidence_file": "/verif/evidence/%s.json" % pid,
            "replay_cmd_template": "./check --replay {path}",
            "engine": c["engine"],
            "level_claimed": {"category": c["category"], "text": c["text"], "design_ref": c["design_ref"]},
            "level_note": c["note"],
            "technique": c["technique"],
        })
    with open(os.path.join(HERE, "MANIFEST.json"), "w") as f:
        json.dump(man, f, indent=1)
        f.write("\n")
    return 0


if __name__ == "__main__":
    sys.exit(main())
