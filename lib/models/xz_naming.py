"""Reference model for C19: what xz(1) documents about target names, refusal
rules, overwrite protection, copied metadata, source removal and exit status.

The model is written from the man page (DESCRIPTION, -k/-f/-c/-S, EXIT STATUS,
--no-warn) and the property statement, in rule form (DESIGN.md Appendix B).
It knows nothing about the implementation: it works on an abstract directory
(names -> inodes) and predicts the directory after `xz` has processed its
operands in order, plus the set of acceptable exit statuses.

Where the documentation does not fix an order between two applicable
conditions of different severity (e.g. an unreadable setuid file: error or
warning?) the model accepts either status; it never accepts processing.

Python stdlib only; all names are bytes.
"""

NAME_MAX = 255

# Documented suffix tables -------------------------------------------------
# "When compressing, the suffix of the target file format (.xz or .lzma) is
#  appended"; refused when the name "already has a suffix of the target file
#  format (.xz or .txz when compressing to the .xz format, and .lzma or .tlz
#  when compressing to the .lzma format)".
FORMAT_SUFFIXES = {
    "xz": (b".xz", b".txz"),
    "lzma": (b".lzma", b".tlz"),
    "raw": (),           # "there is no default suffix for raw streams"
}
# "When decompressing, the .xz, .lzma, or .lz suffix is removed ... also
#  recognizes the suffixes .txz and .tlz, and replaces them with the .tar
#  suffix."  (How these combine with a -S suffix: see decompress_name().)
DECOMPRESS_SUFFIXES = (
    (b".xz", b""),
    (b".txz", b".tar"),
    (b".lzma", b""),
    (b".tlz", b".tar"),
    (b".lz", b""),
)

E_OK, E_ERROR, E_WARNING = 0, 1, 2


def split_path(path):
    i = path.rfind(b"/")
    return (path[:i + 1], path[i + 1:])


def carries(base, suffix):
    """The file name (last path component) has `suffix`, and at least one
    character remains in front of it."""
    return len(base) > len(suffix) and base.endswith(suffix)


def compress_name(path, fmt, custom):
    """-> ('target', path, suffix_appended) | ('skip', suffix_already_there)"""
    d, base = split_path(path)
    for s in FORMAT_SUFFIXES[fmt]:
        if carries(base, s):
            return ("skip", s)
    if custom is not None and carries(base, custom):
        return ("skip", custom)
    suf = custom if custom is not None else FORMAT_SUFFIXES[fmt][0]
    return ("target", d + base + suf, suf)


def decompress_name(path, fmt, custom):
    """-> ('target', path, suffix_matched) | ('skip', None)

    Built-in suffixes are recognised for every format but raw; the -S suffix
    is recognised "in addition" and "is removed to get the target filename".
    When both a built-in and the custom suffix match, the longer one is the
    file's suffix (ties: the custom one, it was asked for explicitly); a
    custom suffix shorter than the matching built-in one does not override it
    (`foo.xz` with `-S z` is `foo`) - the documented precedence."""
    d, base = split_path(path)
    best = None
    if fmt != "raw":
        for s, repl in DECOMPRESS_SUFFIXES:
            if carries(base, s):
                best = (s, repl)
                break
    if custom is not None and carries(base, custom) and (best is None or len(custom) >= len(best[0])):
        best = (custom, b"")
    if best is None:
        return ("skip", None)
    return ("target", d + base[:len(base) - len(best[0])] + best[1], best[0])


def suffix_usable(fmt, custom, to_stdout):
    """--format=raw needs -S unless writing to standard output."""
    return not (fmt == "raw" and custom is None and not to_stdout)


def inversion(path, fmt, custom):
    """Does decompress-name undo compress-name for this name?  Returns a dict:
    target (None when compress-name refuses), back (None when the decompress
    side refuses), invertible, exception (None | 'documented' |
    'unexplained'), builtin (the built-in suffix that won).

    The exception is derived, not listed: back != path can only happen
    because a built-in suffix matched the produced name and beat the custom
    one; it is the documented exception exactly when that built-in suffix is
    longer than the custom suffix (appending the - then necessarily dot-less -
    custom suffix has spelled it)."""
    r = compress_name(path, fmt, custom)
    out = {"target": None, "back": None, "invertible": None, "exception": None, "builtin": None}
    if r[0] != "target":
        return out
    out["target"] = r[1]
    # decompression of a non-raw file auto-detects the format, raw needs raw
    b = decompress_name(r[1], "raw" if fmt == "raw" else "auto", custom)
    if b[0] == "target":
        out["back"] = b[1]
    out["invertible"] = out["back"] == path
    if not out["invertible"]:
        matched = b[2] if b[0] == "target" else None
        builtin = matched is not None and matched in [s for s, _ in DECOMPRESS_SUFFIXES]
        out["builtin"] = matched if builtin else None
        if custom is not None and builtin and len(matched) > len(custom):
            out["exception"] = "documented"
        else:
            out["exception"] = "unexplained"
    return out


# Abstract directory -------------------------------------------------------

class Inode:
    """kind: 'reg' | 'dir' | 'fifo' | 'lnk' | 'other';  mode: 07777 bits;
    data: bytes for 'reg';  link: bytes for 'lnk';  ident: any hashable the
    caller uses to recognise the same inode again."""
    __slots__ = ("ident", "kind", "mode", "uid", "gid", "atime_ns", "mtime_ns", "data", "link")

    def __init__(self, ident, kind, mode, uid, gid, atime_ns, mtime_ns, data=None, link=None):
        self.ident, self.kind, self.mode, self.uid, self.gid = ident, kind, mode, uid, gid
        self.atime_ns, self.mtime_ns, self.data, self.link = atime_ns, mtime_ns, data, link


class Dir:
    def __init__(self):
        self.names = {}     # name -> Inode

    def nlink(self, ino):
        return sum(1 for v in self.names.values() if v is ino)


class Invocation:
    def __init__(self, op, fmt, custom, keep, force, stdout, no_warn, operands,
                 euid=0, egid=0, groups=()):
        self.op, self.fmt, self.custom = op, fmt, custom        # 'compress'|'decompress'; 'xz'|'lzma'|'raw'|'auto'
        self.keep, self.force, self.stdout, self.no_warn = keep, force, stdout, no_warn
        self.operands = list(operands)                          # paths as passed (dir prefix + name)
        self.euid, self.egid, self.groups = euid, egid, tuple(groups)


class Expect:
    """Predicted final state of one name.
    same: the pre-existing inode, unchanged (atime checked only if atime_strict)
    new:  a regular file created by xz with the listed attributes"""
    def __init__(self, how, role, operand=None, inode=None, **attrs):
        self.how, self.role, self.operand, self.inode = how, role, operand, inode
        self.attrs = attrs


class Outcome:
    def __init__(self, idx, path):
        self.idx, self.path = idx, path
        self.result = None          # 'ok' | 'skip' (warning) | 'error' | 'fatal'
        self.reason = None
        self.also = []              # other applicable conditions
        self.statuses = set()
        self.src_name = None
        self.pointee = None         # name the symlink operand resolved to
        self.target = None          # dir entry name of the target
        self.suffix_rule = None     # 'append:<s>' | 'strip:<s>' | 'has:<s>' | 'unknown'
        self.lifted = []            # refusal rules overridden by -f / -k
        self.replaced_target = False
        self.group_failed = False
        self.owner_failed = False
        self.stdout = None          # ('coded', plain) | ('data', bytes)
        self.plain = None
        self.touched = set()


class Prediction:
    def __init__(self):
        self.outcomes = []
        self.statuses = set()
        self.final = {}             # name -> Expect
        self.stdout = []            # pieces in order
        self.diagnostic = False     # a warning or error certainly occurred


def _may_read(ino, inv):
    if inv.euid == 0:
        return True
    if ino.uid == inv.euid:
        return bool(ino.mode & 0o400)
    if ino.gid == inv.egid or ino.gid in inv.groups:
        return bool(ino.mode & 0o040)
    return bool(ino.mode & 0o004)


def _may_set_group(gid, inv):
    return inv.euid == 0 or gid == inv.egid or gid in inv.groups


def restricted_mode(mode):
    """Permissions when the group could not be copied: owner bits kept, group
    and other both get only what group AND other had."""
    common = ((mode >> 3) & 7) & (mode & 7)
    return (mode & 0o700) | (common << 3) | common


def _combine(a, b):
    if a == E_ERROR or b == E_ERROR:
        return E_ERROR
    if a == E_WARNING or b == E_WARNING:
        return E_WARNING
    return E_OK


SEVERITY = {
    "missing": E_ERROR, "unreadable": E_ERROR, "symlink": E_WARNING, "directory": E_WARNING,
    "not-regular": E_WARNING, "setuid": E_WARNING, "setgid": E_WARNING, "sticky": E_WARNING,
    "hardlink": E_WARNING, "has-suffix": E_WARNING, "unknown-suffix": E_WARNING,
    "target-exists": E_ERROR, "name-too-long": E_ERROR, "cannot-remove-target": E_ERROR,
    "corrupt": E_ERROR, "unrecognized": E_ERROR,
}


def simulate(state, inv, decode, new_ident):
    """Process inv.operands in order on `state` (a Dir, modified in place).
    decode(data, fmt) -> ('ok', plain) | ('unrecognized',) | ('corrupt',)
    new_ident() -> fresh identity for a created inode.
    Returns a Prediction."""
    pred = Prediction()
    pre_inodes = {id(v): v for v in state.names.values()}
    read_inodes = set()
    operand_of = {}
    roles = {}

    if not suffix_usable(inv.fmt, inv.custom, inv.stdout):
        # fatal usage error before anything is processed
        for i, path in enumerate(inv.operands):
            o = Outcome(i, path)
            o.result, o.reason, o.statuses = "fatal", "raw-needs-suffix", {E_ERROR}
            o.src_name = split_path(path)[1]
            pred.outcomes.append(o)
        pred.statuses = {E_ERROR}
        pred.diagnostic = True
        _finalise(pred, state, read_inodes, roles, operand_of, created={})
        return pred

    created = {}
    vanish = set()
    for i, path in enumerate(inv.operands):
        o = Outcome(i, path)
        pred.outcomes.append(o)
        _one(state, inv, decode, new_ident, o, read_inodes, roles, operand_of, created, vanish)

    st = {E_OK}
    for o in pred.outcomes:
        st = {_combine(a, b) for a in st for b in o.statuses}
        if o.result != "ok" and E_OK not in o.statuses:
            pred.diagnostic = True
        if o.stdout is not None:
            pred.stdout.append(o.stdout)
    if inv.no_warn:
        st = {E_OK if s == E_WARNING else s for s in st}
    pred.statuses = st
    _finalise(pred, state, read_inodes, roles, operand_of, created, vanish)
    return pred


def _finalise(pred, state, read_inodes, roles, operand_of, created, vanish=()):
    for name, ino in state.names.items():
        if id(ino) in created:
            pred.final[name] = Expect("new", "target", operand_of.get(name), ino, **created[id(ino)])
        else:
            strict = id(ino) not in read_inodes and ino.kind != "lnk"
            n = state.nlink(ino)
            gone = sum(1 for v in vanish if state.names.get(v) is ino)
            pred.final[name] = Expect("same-or-absent" if name in vanish else "same",
                                      roles.get(name, "bystander"), operand_of.get(name), ino,
                                      atime_strict=strict, nlink=n, nlink_allowed=set(range(n - gone, n + 1)))


_DOT_DIRECTORY = Inode("dot", "dir", 0o755, 0, 0, 0, 0)


def _one(state, inv, decode, new_ident, o, read_inodes, roles, operand_of, created, vanish):
    dprefix, name = split_path(o.path)
    o.src_name = name
    o.touched.add(name)
    operand_of.setdefault(name, o.idx)
    roles.setdefault(name, "source")

    def stop(stage_conditions):
        # first stage with applicable conditions decides; any of their
        # severities is acceptable, the first one names the outcome
        o.reason = stage_conditions[0]
        o.also = stage_conditions[1:]
        o.statuses = {SEVERITY[c] for c in stage_conditions}
        o.result = "error" if SEVERITY[o.reason] == E_ERROR else "skip"

    # ---- the source ------------------------------------------------------
    ino = state.names.get(name)
    if ino is None:
        return stop(["missing"])
    follow = inv.stdout or inv.force or inv.keep
    if ino.kind == "lnk":
        # "Symbolic links are not followed, and thus they are not considered
        #  to be regular files";  -f / -k (and writing to stdout) follow them.
        read_inodes.add(id(ino))
        if not follow:
            return stop(["symlink"])
        o.lifted.append("symlink")
        tgt = state.names.get(ino.link)
        if tgt is None or tgt.kind == "lnk":
            return stop(["missing"])
        o.pointee = ino.link
        o.touched.add(ino.link)
        roles.setdefault(ino.link, "pointee")
        operand_of.setdefault(ino.link, o.idx)
        ino = tgt
    read_inodes.add(id(ino))        # its access time may legitimately move

    conds = []
    if not _may_read(ino, inv):
        conds.append("unreadable")
    if ino.kind == "dir":
        conds.append("directory")
    elif ino.kind != "reg" and not inv.stdout:
        conds.append("not-regular")
    if ino.kind == "reg" and not inv.stdout:
        special = []
        if ino.mode & 0o4000:
            special.append("setuid")
        if ino.mode & 0o2000:
            special.append("setgid")
        if ino.mode & 0o1000:
            special.append("sticky")
        if state.nlink(ino) > 1:
            special.append("hardlink")
        if inv.force or inv.keep:
            o.lifted += special
        else:
            conds += special
    if conds:
        return stop(conds)
    if ino.kind != "reg":
        # only reachable with --stdout on a special file: content unknown
        o.result, o.reason, o.statuses = "ok", "special-to-stdout", {E_OK, E_ERROR}
        return

    # ---- the data --------------------------------------------------------
    conds = []
    passthru = False
    if inv.op == "compress":
        o.plain = ino.data
        payload = ("coded", ino.data)
    else:
        r = decode(ino.data, inv.fmt)
        if r[0] == "ok":
            o.plain = r[1]
            payload = ("data", r[1])
        elif r[0] == "unrecognized" and inv.stdout and inv.force and inv.fmt != "raw":
            # -f "with --decompress --stdout and xz cannot recognize the type
            # of the source file, copy the source file as is to standard
            # output"; --format=F restricts what is recognised to F (raw data
            # has no type to recognise)
            passthru = True
            payload = ("data", ino.data)
        else:
            conds.append(r[0])

    if conds and not inv.stdout and inv.force:
        # Undecodable input.  --force: "If the target file already exists,
        # delete it before compressing or decompressing" - so an old target may
        # be gone although nothing could be put in its place.
        r = decompress_name(o.path, inv.fmt, inv.custom)
        if r[0] == "target":
            tname = split_path(r[1])[1]
            old = state.names.get(tname)
            if old is not None and old.kind != "dir":
                vanish.add(tname)
                o.touched.add(tname)
                roles.setdefault(tname, "existing-target")
                operand_of.setdefault(tname, o.idx)
    if inv.stdout:
        if conds:
            return stop(conds)
        o.result, o.reason, o.statuses = "ok", "passthru" if passthru else "stdout", {E_OK}
        o.stdout = payload
        return

    # ---- the target name -------------------------------------------------
    if inv.op == "compress":
        r = compress_name(o.path, inv.fmt, inv.custom)
        if r[0] == "skip":
            o.suffix_rule = b"has:" + r[1]
            conds.append("has-suffix")
        else:
            o.suffix_rule = b"append:" + r[2]
    else:
        r = decompress_name(o.path, inv.fmt, inv.custom)
        if r[0] == "skip":
            o.suffix_rule = b"unknown"
            conds.append("unknown-suffix")
        else:
            o.suffix_rule = b"strip:" + r[2]
    if r[0] != "target":
        return stop(conds)
    tname = split_path(r[1])[1]
    o.target = tname
    o.touched.add(tname)
    if len(tname) > NAME_MAX:
        conds.append("name-too-long")
    existing = state.names.get(tname)
    if tname in (b".", b".."):
        existing = _DOT_DIRECTORY       # "..xz" -> ".": always there, always a directory
    if existing is not None and not conds:
        roles.setdefault(tname, "existing-target")
        operand_of.setdefault(tname, o.idx)
        if not inv.force:
            conds.append("target-exists")
        elif existing.kind == "dir":
            conds.append("cannot-remove-target")
    if conds:
        return stop(conds)

    # ---- success ---------------------------------------------------------
    if existing is not None:
        del state.names[tname]          # --force: "delete it before compressing"
        o.replaced_target = True
    attrs = {"payload": payload, "atime_ns": ino.atime_ns, "mtime_ns": ino.mtime_ns, "source_mode": ino.mode}
    # owner "where permitted": only root may give a file away
    if inv.euid == 0 or ino.uid == inv.euid:
        attrs["uid"] = ino.uid
    else:
        attrs["uid"] = inv.euid
        o.owner_failed = True
    if _may_set_group(ino.gid, inv):
        attrs["gid"] = ino.gid
        attrs["mode"] = ino.mode & 0o777
        # an owner that may not be copied: silently or with a warning, the
        # documentation does not say
        o.statuses = {E_OK, E_WARNING} if o.owner_failed else {E_OK}
    else:
        # "If copying the group fails, the permissions are modified so that
        #  the target file doesn't become accessible to users who didn't have
        #  permission to access the source file."  Whether that is worth a
        #  warning is not documented.
        attrs["gid"] = inv.egid
        attrs["mode"] = restricted_mode(ino.mode)
        o.group_failed = True
        o.statuses = {E_OK, E_WARNING}
    new = Inode(new_ident(), "reg", attrs["mode"], attrs["uid"], attrs["gid"], ino.atime_ns, ino.mtime_ns,
                data=None)
    new.data = payload[1] if payload[0] == "data" else None
    state.names[tname] = new
    created[id(new)] = attrs
    operand_of[tname] = o.idx
    if not inv.keep:
        del state.names[name]           # the operand's own name (the link itself for a symlink)
    o.result, o.reason = "ok", "processed"
