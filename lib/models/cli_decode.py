"""Pure model side of check C18 (no I/O): plaintext shapes for the sparse-file
path, what a sink must contain after a tool wrote D into it, the documented
exit status, hole classification, and generators for compressed-input damage
and for `xz` compression option sets.  Everything is driven by a
random.Random handed in by the caller."""

# ---------------------------------------------------------------- plaintexts


def nz(rng, n):
    """n random bytes, none of them zero (so zero runs are exactly where the shape puts them)."""
    return rng.randbytes(n).replace(b"\0", b"\x01") if n > 0 else b""


def text(rng, n):
    words = [b"lorem", b"ipsum", b"dolor", b"sit", b"amet", b"xz", b"block", b"stream", b"\n", b"0123456789",
             b"the", b"quick", b"brown", b"fox"]
    out = bytearray()
    while len(out) < n:
        out += rng.choice(words) + b" "
    return bytes(out[:n])


def near(rng, B, kmax):
    """An offset at an interesting distance from a multiple of the I/O buffer size."""
    k = rng.randint(0, kmax)
    d = rng.choice([0, 0, 0, -1, 1, -1, 1, -7, 8, B // 2, rng.randint(1, B - 1)])
    return max(0, k * B + d)


SHAPES = ("allzero", "head", "tail", "middle", "headtail", "multi", "exact", "endhole", "big")


def sparse_plain(rng, B, shape=None, kmax=5):
    """Plaintext whose zero runs start/end at interesting offsets relative to B.
    Returns (bytes, shape)."""
    shape = shape or rng.choice(SHAPES[:-1])
    if shape == "allzero":
        n = max(1, near(rng, B, kmax))
        return b"\0" * n, shape
    if shape == "exact":            # exactly k buffers, one byte short / long
        k = rng.randint(1, kmax)
        n = k * B + rng.choice([0, -1, 1])
        kind = rng.choice(["zero", "zero-last-nz", "zero-first-nz", "nz-then-zero-buffer"])
        if kind == "zero":
            return b"\0" * n, shape
        if kind == "zero-last-nz":
            return b"\0" * (n - 1) + b"\x7f", shape
        if kind == "zero-first-nz":
            return b"\x7f" + b"\0" * (n - 1), shape
        return nz(rng, B) + b"\0" * n, shape
    if shape == "head":
        e = max(1, near(rng, B, kmax))
        return b"\0" * e + nz(rng, rng.choice([1, 7, B - 1, B, B + 1, rng.randint(1, 3 * B)])), shape
    if shape == "tail":
        s = max(1, near(rng, B, kmax))
        z = max(1, near(rng, B, kmax))
        return nz(rng, s) + b"\0" * z, shape
    if shape == "endhole":          # the file ends exactly at a buffer boundary inside a hole
        s = rng.choice([0, 1, B - 1, B, B + 1, near(rng, B, 3)])
        total = (s // B + rng.randint(1, kmax)) * B + (B if s % B == 0 and s > 0 else 0)
        total = max(total, (s + B - 1) // B * B + B)
        return nz(rng, s) + b"\0" * (total - s), shape
    if shape == "middle":
        s = max(1, near(rng, B, kmax))
        e = s + max(1, near(rng, B, kmax))
        return nz(rng, s) + b"\0" * (e - s) + nz(rng, rng.choice([1, B - 1, B, B + 1, rng.randint(1, 2 * B)])), shape
    if shape == "headtail":
        h = max(1, near(rng, B, 3))
        d = rng.choice([1, B - 1, B, B + 1, rng.randint(1, 2 * B)])
        t = max(1, near(rng, B, 3))
        return b"\0" * h + nz(rng, d) + b"\0" * t, shape
    if shape == "multi":
        out = bytearray()
        zero = rng.random() < 0.5
        for _ in range(rng.randint(3, 8)):
            n = max(1, near(rng, B, 3))
            # align some run ends to buffer boundaries of the *output* position
            if rng.random() < 0.5:
                tgt = (len(out) // B + rng.randint(1, 3)) * B + rng.choice([0, -1, 1])
                if tgt > len(out):
                    n = tgt - len(out)
            out += (b"\0" * n) if zero else nz(rng, min(n, 2 * B))
            zero = not zero
        return bytes(out), shape
    if shape == "big":              # >= 1 MiB, mostly zero, few data islands
        total = (1 << 20) + near(rng, B, 40)
        out = bytearray(total)
        for _ in range(rng.randint(0, 5)):
            p = min(total - 1, near(rng, B, total // B))
            d = nz(rng, rng.choice([1, 2, B - 1, B, B + 1, 3 * B]))
            d = d[:total - p]
            out[p:p + len(d)] = d
        where = rng.choice(["none", "first", "last", "both"])
        if where in ("first", "both"):
            out[0] = 0x55
        if where in ("last", "both"):
            out[-1] = 0x55
        return bytes(out), shape
    raise ValueError(shape)


def hole_classes(data, B):
    """Which kinds of hole a sparse-capable sink would make for output `data`:
    the all-zero full buffers at the head, in the middle, and as the very end
    of the file (the 'final byte after a trailing hole' path)."""
    n = len(data) // B
    if n == 0:
        return set()
    zero = bytes(B)
    z = [data[i * B:(i + 1) * B] == zero for i in range(n)]
    out = set()
    if z[0]:
        out.add("head")
    if len(data) % B == 0 and z[-1]:
        out.add("tail")
    last_nz = len(data.rstrip(b"\0")) - 1          # index of the last non-zero byte (-1: none)
    seen_data = False
    for i in range(n):
        if not z[i]:
            seen_data = True
        elif seen_data and last_nz >= (i + 1) * B:
            out.add("middle")
            break
    return out


# -------------------------------------------------------------------- sinks

STDOUT_SINKS = ("pipe", "redir0", "redirN-eof", "redirN-mid", "redirN-past", "append", "nosparse")
SPARSE_SINKS = ("newfile", "redir0", "redirN-eof", "append")   # sparse mode is expected to be active
ALL_SINKS = ("newfile",) + STDOUT_SINKS


def expected_sink(sink, prefix, pos, data):
    """Bytes the sink file must contain after the tool delivered `data` to an fd
    prepared as: file pre-filled with `prefix`, write offset `pos`."""
    if sink in ("pipe", "redir0", "nosparse", "newfile"):
        return data
    if sink in ("redirN-eof", "append"):
        return prefix + data
    if sink == "redirN-mid":
        return prefix[:pos] + data + prefix[pos + len(data):]
    if sink == "redirN-past":
        return prefix + bytes(pos - len(prefix)) + data if data else prefix
    raise ValueError(sink)


def expected_exit(tool, lib_error, warnings, no_warn):
    """Documented exit status: xz 1 = error, 2 = warning only (0 with
    --no-warn), 0 = fine; xzdec/lzmadec: 0 or 1 (they never warn)."""
    if lib_error:
        return 1
    if tool.startswith("xz-") and warnings and not no_warn:
        return 2
    return 0


# ------------------------------------------------------------ input damage

def bitflip(rng, data, n=None):
    b = bytearray(data)
    if not b:
        return bytes(b)
    for _ in range(n or rng.choice([1, 1, 1, 2, 3])):
        i = rng.randrange(len(b))
        if rng.random() < 0.35 and len(b) > 40:      # bias into headers/footers
            i = rng.choice([rng.randrange(0, 24), len(b) - 1 - rng.randrange(0, 24)])
        b[i] ^= 1 << rng.randrange(8)
    return bytes(b)


def truncate(rng, data):
    if len(data) <= 1:
        return b""
    r = rng.random()
    if r < 0.25:
        return data[:len(data) - rng.randint(1, min(13, len(data) - 1))]
    if r < 0.4:
        return data[:rng.randint(0, min(24, len(data) - 1))]
    return data[:rng.randrange(1, len(data))]


def garbage(rng, data):
    kind = rng.choice(["bytes", "zeros4", "zeros-odd", "onebyte", "magic-prefix"])
    if kind == "bytes":
        return data + rng.randbytes(rng.randint(1, 40)), kind
    if kind == "zeros4":
        return data + bytes(4 * rng.randint(1, 6)), kind
    if kind == "zeros-odd":
        return data + bytes(4 * rng.randint(0, 3) + rng.randint(1, 3)), kind
    if kind == "onebyte":
        return data + bytes([rng.randrange(256)]), kind
    return data + rng.choice([b"\xfd7zXZ", b"LZI", b"LZIP", b"\xfd7zXZ\0", b"L"]), kind


def lzma_header_edge(rng, data):
    """Rewrite dictionary size or uncompressed size of a .lzma header to values
    around the limits of xz's format sniffer (DESIGN.md Appendix A)."""
    import struct
    if len(data) < 13:
        return data, "too short"
    b = bytearray(data)
    if rng.random() < 0.5:
        n = rng.randint(12, 31)
        v = rng.choice([0, 1, 3, 4096, (1 << n), (1 << n) + (1 << (n - 1)), (1 << n) + 1, (1 << n) - 1, 0xFFFFFFFF,
                        0xFFFFFFFE])
        v &= 0xFFFFFFFF
        b[1:5] = struct.pack("<I", v)
        return bytes(b), "dict=%#x" % v
    v = rng.choice([(1 << 38) - 1, 1 << 38, (1 << 38) + 1, 1 << 40, (1 << 64) - 2, 0, 1,
                    struct.unpack("<Q", data[5:13])[0] ^ 1])
    b[5:13] = struct.pack("<Q", v)
    return bytes(b), "size=%#x" % v


def unsupported_check(rng, data):
    """Rewrite the Check ID of a single-Stream .xz file (header and footer Stream
    Flags, CRC32s fixed up) to an ID of the same Check size that liblzma cannot
    verify.  The Check fields of the Blocks stay as they are (they cannot be
    verified anyway).  Returns None when not applicable (Check 'none')."""
    import struct, zlib
    if len(data) < 32 or data[:6] != b"\xfd7zXZ\0" or data[-2:] != b"YZ":
        return None
    cid = data[7] & 15
    alt = {1: [2, 3], 4: [5, 6], 10: [11, 12]}.get(cid)
    if not alt or data[-4:-2] != data[6:8]:
        return None
    flags = bytes([0, rng.choice(alt)])
    b = bytearray(data)
    b[6:8] = flags
    b[8:12] = struct.pack("<I", zlib.crc32(flags))
    b[-4:-2] = flags
    b[-12:-8] = struct.pack("<I", zlib.crc32(bytes(b[-8:-2])))
    return bytes(b)


# ------------------------------------------------- compression option sets

PRESETS = ["-0", "-1", "-2", "-3", "-4", "-5", "-6", "-0e", "-1e", "-3e", "-6e"]
HEAVY = ["-7", "-8", "-9", "-9e", "-7e"]
BCJ = ["x86", "powerpc", "ia64", "arm", "armthumb", "arm64", "sparc", "riscv"]


def _size(rng, v):
    if v % (1 << 20) == 0 and v and rng.random() < 0.7:
        return "%dMiB" % (v >> 20)
    if v % 1024 == 0 and v and rng.random() < 0.7:
        return "%dKiB" % (v >> 10)
    return str(v)


def _lzma_opts(rng, allow_bad=True):
    o = []
    if rng.random() < 0.5:
        o.append("preset=%d%s" % (rng.randint(0, 6), rng.choice(["", "", "e"])))
    if rng.random() < 0.6:
        o.append("dict=" + _size(rng, rng.choice([4096, 8192, 65536, 1 << 20, 3 << 19, 1 << 22, 12345 + 4096])))
    if rng.random() < 0.4:
        lc = rng.randint(0, 4)
        lp = rng.randint(0, 4 - lc) if (not allow_bad or rng.random() < 0.9) else rng.randint(0, 4)
        o += ["lc=%d" % lc, "lp=%d" % lp]
    if rng.random() < 0.3:
        o.append("pb=%d" % rng.randint(0, 4))
    if rng.random() < 0.4:
        o.append("mf=" + rng.choice(["hc3", "hc4", "bt2", "bt3", "bt4"]))
    if rng.random() < 0.3:
        o.append("mode=" + rng.choice(["fast", "normal"]))
    if rng.random() < 0.3:
        o.append("nice=%d" % rng.choice([4, 8, 32, 64, 273, 2 if allow_bad else 5]))
    if rng.random() < 0.2:
        o.append("depth=%d" % rng.choice([0, 1, 4, 100]))
    return ",".join(o)


def _chain_string(rng):
    """liblzma filter-string syntax for --filters / --filtersN."""
    if rng.random() < 0.2:
        return rng.choice(["0", "3", "6", "1e", "-4", "-2e"])
    parts = []
    sep = rng.choice([" ", "--"])
    for _ in range(rng.choice([0, 0, 1, 1, 2, 3])):
        if rng.random() < 0.5:
            parts.append("delta" + rng.choice(["", ":dist=%d" % rng.choice([1, 2, 4, 16, 256]), "=dist=3"]))
        else:
            f = rng.choice(BCJ)
            parts.append(f + rng.choice(["", "", ":start=%d" % (rng.choice([0, 16, 4096, 1 << 20]))]))
    lz = "lzma2"
    o = []
    if rng.random() < 0.7:
        o.append("preset=%d%s" % (rng.randint(0, 6), rng.choice(["", "e"])))
    if rng.random() < 0.5:
        o.append("dict=" + rng.choice(["4KiB", "64KiB", "1MiB", "8192", "3MiB"]))
    if rng.random() < 0.3:
        o.append(rng.choice(["lc=0,lp=2", "lc=4", "pb=0", "mf=hc3", "mf=bt2,nice=2", "mode=fast", "lc=2,lp=2,pb=1"]))
    if o:
        lz += rng.choice([":", "="]) + ",".join(o)
    parts.append(lz)
    return sep.join(parts)


def option_set(rng, plain_len):
    """A random xz compression command line (without -z/-c/file arguments).
    Returns (argv, option_class, fmt) where fmt is 'xz' or 'lzma'.  Some sets
    are deliberately unacceptable; the tool decides (exit status) which are."""
    argv = []
    classes = []
    fmt = "xz"
    r = rng.random()
    if r < 0.15:
        fmt = "lzma"
        argv.append(rng.choice(["--format=lzma", "-Flzma"]))
        classes.append("format-lzma")
    elif r < 0.3:
        argv.append("--format=xz")
    # preset
    heavy = False
    if rng.random() < 0.7:
        heavy = rng.random() >= 0.93
        argv.append(rng.choice(HEAVY) if heavy else rng.choice(PRESETS))
        if rng.random() < 0.15:
            argv.append("-e")
        classes.append("preset")
    # threads
    if rng.random() < 0.6:
        argv.append(rng.choice(["-T0", "-T1", "-T2", "-T4", "--threads=3", "-T+1"]))
        classes.append("threads")
    if rng.random() < 0.4:
        argv.append("--check=" + rng.choice(["none", "crc32", "crc64", "sha256"]))
        classes.append("check")
    # keep the number of Blocks bounded (every Block re-initialises the encoder): <= 256, <= 8 with -7..-9
    min_bs = max(1, plain_len // (8 if heavy else 256))
    bs_choices = [b for b in [1, 4095, 4096, 8192, 10000, 65536, 100000, 1 << 20] if b >= min_bs]
    if rng.random() < 0.4:
        argv.append("--block-size=" + _size(rng, rng.choice(bs_choices + [max(1, plain_len // 3)])))
        classes.append("block-size")
    mode = rng.random()
    chains_defined = []
    if mode < 0.25:
        # individual filter options
        for _ in range(rng.choice([0, 0, 1, 1, 2, 3])):
            if rng.random() < 0.45:
                argv.append("--delta" + rng.choice(["", "=dist=%d" % rng.choice([1, 2, 3, 4, 100, 256])]))
                classes.append("delta")
            else:
                f = rng.choice(BCJ)
                argv.append("--" + f + rng.choice(["", "", "=start=%d" % rng.choice([0, 16, 256, 1 << 16])]))
                classes.append("bcj")
        which = "lzma1" if fmt == "lzma" and rng.random() < 0.9 else "lzma2"
        o = _lzma_opts(rng)
        argv.append("--" + which + ("=" + o if o else ""))
        classes.append(which)
    elif mode < 0.45:
        argv.append("--filters=" + _chain_string(rng))
        classes.append("filters")
    if rng.random() < 0.3:
        for k in sorted(rng.sample(range(1, 10), rng.randint(1, 3))):
            argv.append("--filters%d=%s" % (k, _chain_string(rng)))
            chains_defined.append(k)
        items = []
        for i in range(rng.randint(1, 6)):
            if rng.random() < 0.15 and items:
                items.append("")
                continue
            sz = _size(rng, rng.choice([1, 100, 4096, 5000, 8192, 65536, max(1, plain_len // 4), 1 << 20]))
            if i > 0 and rng.random() < 0.1:
                sz = "0"
            last_size = sz
            pool = chains_defined + [0] + ([rng.randint(1, 9)] if rng.random() < 0.1 else [])
            items.append(("%d:" % rng.choice(pool) if rng.random() < 0.7 else "") + sz)
            if sz == "0":
                break
        if last_size != "0" and not last_size.endswith("iB") and int(last_size) < min_bs:
            items.append(rng.choice(["0", str(min_bs)]))     # the last size repeats until the end of the input
        argv.append("--block-list=" + ",".join(items))
        classes.append("block-list")
    rng.shuffle(argv) if rng.random() < 0.15 else None
    for c in ("block-list", "filters", "bcj", "delta", "lzma1", "lzma2", "block-size", "check", "format-lzma",
              "threads", "preset"):
        if c in classes:
            return argv, c, fmt
    return argv, "default", fmt
