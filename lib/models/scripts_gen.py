"""Workload generator for C20 (xzgrep/xzdiff): hostile and tame file names,
text/binary contents, compressed containers (.xz/.lzma/.lz/.gz/.bz2) and
controlled damage.  Pure functions of a random.Random; stdlib only.

Everything here works on bytes: file names are arbitrary byte strings
without NUL and '/'."""
import bz2, gzip, lzma, re, struct, zlib

# --------------------------------------------------------------------------
# metacharacter classes (computed from the actual bytes, so the evidence
# counts what really was in a name / pattern, not what the generator intended)

CLASSES = ["nl", "nl_cmd", "squote", "dquote", "semi", "bslash", "amp", "pipe", "dollar", "cmdsubst",
           "backquote", "leading_dash", "space", "glob", "percent", "redirect", "hash", "ctrl_high"]
# classes that can occur in a pattern as well (a leading dash is a class of its own there too)
SED_CLASSES = ("amp", "bslash", "pipe", "nl")     # what the sed label fallback has to escape


def classes_of(s):
    c = set()
    if b"\n" in s:
        c.add("nl")
    if b"\ntouch" in s:
        c.add("nl_cmd")
    if b"'" in s:
        c.add("squote")
    if b'"' in s:
        c.add("dquote")
    if b";" in s:
        c.add("semi")
    if b"\\" in s:
        c.add("bslash")
    if b"&" in s:
        c.add("amp")
    if b"|" in s:
        c.add("pipe")
    if b"$" in s:
        c.add("dollar")
    if b"$(" in s:
        c.add("cmdsubst")
    if b"`" in s:
        c.add("backquote")
    if s.startswith(b"-") and len(s) > 1:
        c.add("leading_dash")
    if b" " in s or b"\t" in s:
        c.add("space")
    if any(ch in s for ch in (b"*", b"?", b"[")):
        c.add("glob")
    if b"%" in s:
        c.add("percent")
    if b"<" in s or b">" in s:
        c.add("redirect")
    if b"#" in s:
        c.add("hash")
    if any((b >= 0x80 or (b < 0x20 and b not in (0x0a, 0x09))) for b in s):
        c.add("ctrl_high")
    return c


def fragments(cls, canary):
    """Hostile fragments of one class.  `canary` is the bytes name of the file an
    injected command would create in the current directory."""
    c = canary
    t = {
        "nl": [b"\n", b"a\nb", b"\n\n"],
        "nl_cmd": [b"\ntouch " + c + b"\n", b"x\ntouch " + c + b" #", b"\ntouch " + c + b";\n"],
        "squote": [b"'", b"it's", b"';touch " + c + b";'", b"'$(touch " + c + b")'", b"''", b"'\\''",
                   b"a'", b";touch " + c + b";'"],
        "dquote": [b'"', b'";touch ' + c + b';"', b'"$(touch ' + c + b')"'],
        "semi": [b";", b";touch " + c + b";", b"; touch " + c],
        "bslash": [b"\\", b"a\\nb", b"\\\\", b"\\&", b"\\|", b"\\1", b"x\\"],
        "amp": [b"&", b"a&b", b"& touch " + c + b" &", b"&&touch " + c, b"&&"],
        "pipe": [b"|", b"a|b", b"|touch " + c, b"||touch " + c, b"|e touch " + c],
        "dollar": [b"$x", b"${IFS}", b"$((1+1))", b"$0", b"$"],
        "cmdsubst": [b"$(touch " + c + b")", b"$(touch${IFS}" + c + b")", b"$(>" + c + b")"],
        "backquote": [b"`touch " + c + b"`", b"`", b"`>" + c + b"`"],
        "space": [b" ", b"a b", b"  x ", b"\t", b" -e "],
        "glob": [b"*", b"?", b"[a-z]", b"[", b"*.xz", b"[!a]"],
        "percent": [b"%s", b"%n%n", b"%", b"%d%s"],
        "redirect": [b">" + c, b"<x", b"2>&1", b">>" + c],
        "hash": [b"#", b" #x"],
        "ctrl_high": [b"\xff\xfe", b"\xc3\xa9", b"\x01\x7f", b"\x1b[31m", b"\r"],
    }
    return t[cls]


TAME = [b"file", b"data", b"a", b"log1", b"notes", b"x_y", b"Report", b"b2", b"src.c", b"v1.2"]

# suffix patterns of the scripts' documentation ("formats are determined from the
# filename suffixes"), used only to keep *uncompressed* names from looking compressed
_COMPRESSED_LOOK = re.compile(
    rb"(?s).*([-.][zZ]|_z|[-.]gz|[-.]xz|\.t[abglx]z|[-.]bz2|[-.]tbz|\.tbz2|[-.]lzo|[-.]tzo|[-.]zst|[-.]tzst|"
    rb"[-.]lz4|[-.]lzma|[-.]lz)$")

SUFFIXES = {
    "xz": [b".xz", b".xz", b".txz", b"-xz"],
    "lzma": [b".lzma", b".tlz", b"-lzma"],
    "lz": [b".lz"],
    "gz": [b".gz", b".gz", b".tgz", b"-gz", b".z", b"_z"],
    "bz2": [b".bz2", b".tbz", b".tbz2", b"-bz2"],
    "plain": [b"", b"", b".txt", b".log", b".c", b".X", b"X"],
}
TOOL_OF = {"xz": "xz", "lzma": "xz", "lz": "xz", "plain": "xz", "gz": "gzip", "bz2": "bzip2"}


def gen_name(rng, hostile, used, canary, fmt, force_class=None, suffix=None):
    """A file name (bytes, no '/' or NUL) that is unique within `used`."""
    for _ in range(200):
        parts = []
        lead = False
        if hostile:
            k = rng.choice([1, 1, 1, 2, 2, 3])
            pool = [c for c in CLASSES if c != "leading_dash"]
            chosen = [rng.choice(pool) for _ in range(k)]
            if force_class and force_class != "leading_dash":
                chosen[0] = force_class
            if force_class == "leading_dash" or rng.random() < 0.12:
                lead = True
            for cl in chosen:
                if rng.random() < 0.5:
                    parts.append(rng.choice(TAME))
                parts.append(rng.choice(fragments(cl, canary)))
            if rng.random() < 0.5:
                parts.append(rng.choice(TAME))
        else:
            parts.append(rng.choice(TAME))
            if rng.random() < 0.5:
                parts.append(b"%d" % rng.randrange(100))
        stem = b"".join(parts)
        if lead:
            stem = rng.choice([b"-", b"--", b"-e", b"-rf ", b"--label=", b"-f"]) + stem
        elif stem.startswith(b"-"):
            stem = b"f" + stem
        suf = suffix if suffix is not None else rng.choice(SUFFIXES[fmt])
        name = stem + suf
        if fmt == "plain" and _COMPRESSED_LOOK.match(name):
            name += b".txt"
        if not name or name in (b"-", b".", b"..") or b"/" in name or b"\0" in name or len(name) > 200:
            continue
        if name in used:
            continue
        used.add(name)
        return name
    raise RuntimeError("name generator exhausted")


# --------------------------------------------------------------------------
# contents

WORDS = [b"alpha", b"beta", b"foo", b"Foo", b"FOO", b"bar", b"foobar", b"x*y", b"a.c", b"abc", b"a+b", b"(x)",
         b"two words", b"tab\there", b"-dash", b"it's", b'quo"te', b"back\\slash", b"$HOME", b"&amp;", b"pipe|d",
         b"semi;colon", b"`bq`", b"100%", b"[set]", b"end.", b"", b"  ", b"caf\xc3\xa9", b"a{2}", b"^hat", b"dollar$"]


def gen_text(rng, nlines=None, plant=None):
    if nlines is None:
        nlines = rng.choice([0, 1, 2, 3, 5, 8, 13, 21, 40])
    lines = []
    for _ in range(nlines):
        k = rng.choice([1, 1, 2, 3])
        lines.append(b" ".join(rng.choice(WORDS) for _ in range(k)))
    if plant is not None and b"\n" not in plant:
        lines.insert(rng.randrange(len(lines) + 1), plant)
    data = b"\n".join(lines)
    if lines and rng.random() < 0.85:
        data += b"\n"
    return data


def gen_content(rng, plant=None, allow_big=True, allow_binary=True):
    """-> (bytes, kind) with kind in text|empty|binary|big"""
    r = rng.random()
    if r < 0.06 and plant is None:
        return b"", "empty"
    if r < 0.16 and allow_binary:
        t = gen_text(rng, plant=plant)
        pos = rng.randrange(len(t) + 1)
        return t[:pos] + rng.choice([b"\0", b"\0\0\xff", b"\x00\x01\x02"]) + t[pos:], "binary"
    if r < 0.22 and allow_big:
        # bigger than a pipe buffer so that an early exit of grep/cmp makes the
        # decompressor die from SIGPIPE
        block = gen_text(rng, nlines=40, plant=plant)
        if not block.endswith(b"\n"):
            block += b"\n"
        reps = (rng.randrange(150, 400) * 1024) // max(1, len(block)) + 1
        return block * reps, "big"
    return gen_text(rng, plant=plant), "text"


# --------------------------------------------------------------------------
# containers

def lzip_member(data):
    raw = lzma.compress(data, format=lzma.FORMAT_ALONE,
                        filters=[{"id": lzma.FILTER_LZMA1, "preset": 6, "dict_size": 1 << 20,
                                  "lc": 3, "lp": 0, "pb": 2}])
    member = b"LZIP\x01\x14" + raw[13:]
    return member + struct.pack("<IQQ", zlib.crc32(data), len(data), len(member) + 20)


def compress(rng, fmt, data, multi=True):
    if fmt == "plain":
        return data
    if fmt == "xz":
        chk = rng.choice([lzma.CHECK_CRC32, lzma.CHECK_CRC64, lzma.CHECK_CRC64, lzma.CHECK_NONE])
        if multi and len(data) > 2 and rng.random() < 0.2:       # two concatenated streams
            cut = rng.randrange(1, len(data))
            return (lzma.compress(data[:cut], format=lzma.FORMAT_XZ, check=chk, preset=0) +
                    lzma.compress(data[cut:], format=lzma.FORMAT_XZ, check=chk, preset=1))
        return lzma.compress(data, format=lzma.FORMAT_XZ, check=chk, preset=rng.choice([0, 1, 6]))
    if fmt == "lzma":
        return lzma.compress(data, format=lzma.FORMAT_ALONE, preset=rng.choice([0, 6]))
    if fmt == "lz":
        return lzip_member(data)
    if fmt == "gz":
        if multi and len(data) > 2 and rng.random() < 0.2:
            cut = rng.randrange(1, len(data))
            return gzip.compress(data[:cut], mtime=0) + gzip.compress(data[cut:], mtime=0)
        return gzip.compress(data, mtime=0)
    if fmt == "bz2":
        return bz2.compress(data)
    raise ValueError(fmt)


def damage(rng, fmt, blob):
    """Turn a valid container into one that its decompressor must refuse while
    still recognising the format (the scripts pass -f, so a file whose magic is
    gone would legitimately be copied through as uncompressed data)."""
    b = bytearray(blob)
    if fmt == "xz":
        how = rng.choice(["hdrcrc", "trunc", "tail"])
        if how == "hdrcrc":
            b[rng.randrange(8, 12)] ^= 1 << rng.randrange(8)
        elif how == "trunc":
            del b[rng.randrange(13, len(b)):]
        else:
            b[len(b) - rng.randrange(3, 13)] ^= 1 << rng.randrange(8)
        return bytes(b), how
    if fmt == "lzma":
        del b[rng.randrange(14, len(b)):]
        return bytes(b), "trunc"
    if fmt == "lz":
        if rng.random() < 0.5:
            b[len(b) - 20 + rng.randrange(4)] ^= 1 << rng.randrange(8)      # stored CRC32
            return bytes(b), "crc"
        del b[rng.randrange(7, len(b)):]
        return bytes(b), "trunc"
    if fmt == "gz":
        if rng.random() < 0.5:
            b[len(b) - 8 + rng.randrange(4)] ^= 1 << rng.randrange(8)       # stored CRC32
            return bytes(b), "crc"
        del b[rng.randrange(11, len(b)):]
        return bytes(b), "trunc"
    if fmt == "bz2":
        del b[rng.randrange(11, len(b) - 1):]
        return bytes(b), "trunc"
    raise ValueError(fmt)
