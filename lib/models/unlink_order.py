"""C17 - offline checker for the libxzio.so call log: the unlink-ordering
automaton of DESIGN.md Appendix D, one instance per (source, target) pair.

Identity is by (st_dev, st_ino) as recorded by the interposer at the call, not
by name: the source identity is fixed when the source is opened, the target
identity when xz creates a file (O_CREAT) and the directory identity when a
directory is opened (O_DIRECTORY), all within the *segment* of the log that
belongs to the pair (from the open of the pair's source up to the open of the
next source; xz handles one pair at a time, and inode numbers of unlinked files
are reused quickly, so identities must not leak from one segment to the next).

The rules are the property statement's ordering, nothing about buffer sizes or
call counts:

  unlink(source) may only be attempted when, in this order,
    - every write to the target completed (an error or short count was followed
      by a retry that wrote the remainder),
    - the metadata calls on the target are not later than its fsync,
    - fsync(target) succeeded after the last write / seek / metadata call,
      fsync(directory) succeeded after the target was created (both unless
      --no-sync),
    - close(target) succeeded,
    - none of write/seek/fsync/close on the target or fsync on the directory
      failed (EINTR/EAGAIN on write are retries, not failures),
    - and never with --keep / --stdout.
  Dual rule: if the run ended (not by SIGKILL) with the created target still
  present, the complete successful sequence up to close(target) was seen;
  if the created target is gone, a successful unlink of it is in the log.
"""
import os

O_CREAT = os.O_CREAT
O_DIRECTORY = os.O_DIRECTORY
EINTR, EAGAIN = 4, 11

ATTR_KINDS = ("fchmod", "fchown", "futimens")


def parse_log(text):
    recs = []
    for line in text.splitlines():
        if not line.startswith("n="):
            continue
        head, sep, path = line.partition(" path=")
        r = {}
        for tok in head.split(" "):
            k, _, v = tok.partition("=")
            r[k] = v
        for k in ("n", "kn", "tid", "fd", "ino", "sz", "a0", "a1", "res", "err"):
            try:
                r[k] = int(r.get(k, "0"))
            except ValueError:
                r[k] = 0
        r["path"] = None if path == "-" else path
        r["id"] = (r.get("dev", "0"), r["ino"])
        r["line"] = line
        recs.append(r)
    return recs


def is_pseudo(r):
    return r["call"] in ("signal", "kill", "badplan")


class PairTrace:
    """Automaton state of one pair."""

    def __init__(self, index):
        self.index = index
        self.s_id = None
        self.t_id = None
        self.d_id = None
        self.t_created_at = None
        self.owed = 0              # bytes of the last write still to be retried
        self.last_data = -1        # index of last write/lseek on T
        self.last_attr = -1
        self.fsync_t = -1          # index of last successful fsync(T)
        self.fsync_d = -1
        self.close_t = -1
        self.failed = []           # (call:role, errno, index) hard failures on T / fsync(D)
        self.unlink_s = []         # indices of unlink attempts on S
        self.unlink_t_ok = False
        self.unlink_t_failed = False
        self.attr_seen = False


def analyse(recs, pairs, keep=False, to_stdout=False, nosync=False, std_roles=None):
    """pairs: list of (source path, target path or None).  Returns a dict:
    roles      - per record: (pair index or -1, role) with role in S T D O I ?
    violations - list of (key, detail)
    notes      - list of strings (trace incompleteness etc.)
    traces     - PairTrace per pair
    """
    std_roles = std_roles or {}
    src_index = {p[0]: i for i, p in enumerate(pairs) if p[0] is not None}
    roles = []
    viol = []
    notes = []
    traces = [PairTrace(i) for i in range(len(pairs))]
    cur = None
    # With stdin as the source there is no open(source): the single pair is
    # current from the start.
    if len(pairs) == 1 and pairs[0][0] is None:
        cur = traces[0]

    def bad(key, detail, i):
        viol.append((key, "%s (record %d: %s)" % (detail, i, recs[i]["line"])))

    for i, r in enumerate(recs):
        kind = r.get("kind", "")
        call = r["call"]
        if is_pseudo(r):
            roles.append((cur.index if cur else -1, "?"))
            continue
        ok = r["res"] >= 0
        if kind == "open" and r["path"] in src_index:
            cur = traces[src_index[r["path"]]]
            cur.__init__(cur.index)
            if ok:
                cur.s_id = r["id"]
            roles.append((cur.index, "S"))
            continue
        if cur is None:
            roles.append((-1, "?"))
            continue
        role = "?"
        if kind == "open":
            if r["a0"] & O_DIRECTORY:
                role = "D"
                if ok:
                    cur.d_id = r["id"]
            elif r["a0"] & O_CREAT:
                role = "T"
                if ok:
                    cur.t_id = r["id"]
                    cur.t_created_at = i
                    cur.owed = 0
                    cur.last_data = cur.last_attr = cur.fsync_t = cur.fsync_d = cur.close_t = -1
            roles.append((cur.index, role))
            continue
        if r["fd"] in std_roles and r["fd"] >= 0:
            role = std_roles[r["fd"]]
        elif r["id"] == cur.t_id and cur.t_id is not None and (r["fd"] >= 0 or kind in ("unlink", "stat", "lstat")):
            role = "T"
        elif r["id"] == cur.s_id and cur.s_id is not None:
            role = "S"
        elif r["id"] == cur.d_id and cur.d_id is not None:
            role = "D"
        elif kind in ("unlink", "stat", "lstat") and r["path"] is not None:
            # by name only when the object does not exist (any more) or was
            # never opened: needed to attribute a failed removal attempt
            if r["path"] == pairs[cur.index][1]:
                role = "t"      # the target *name*, not the created inode
            elif r["path"] == pairs[cur.index][0]:
                role = "s"
        roles.append((cur.index, role))

        if role == "T":
            if kind == "write":
                # owed: 0 = everything handed to write() so far was accepted;
                # n > 0 = the remainder of a failed/short write that the next
                # write must carry; -1 = a remainder was dropped (sticky).
                if cur.owed not in (0, r["a0"]):
                    cur.owed = -1
                elif ok:
                    cur.owed = r["a0"] - r["res"]
                else:
                    cur.owed = r["a0"]
                if not ok and r["err"] not in (EINTR, EAGAIN):
                    cur.failed.append(("write", r["err"], i))
                cur.last_data = i
            elif kind == "lseek":
                if not ok:
                    cur.failed.append(("lseek", r["err"], i))
                cur.last_data = i
            elif kind in ATTR_KINDS:
                cur.attr_seen = True
                cur.last_attr = i
            elif kind == "fsync":
                if ok:
                    cur.fsync_t = i
                else:
                    cur.failed.append(("fsync", r["err"], i))
            elif kind == "close":
                if ok:
                    cur.close_t = i
                else:
                    cur.failed.append(("close", r["err"], i))
            elif kind == "unlink":
                if ok:
                    cur.unlink_t_ok = True
                else:
                    cur.unlink_t_failed = True
        elif role == "D":
            if kind == "fsync":
                if ok and cur.t_created_at is not None:
                    cur.fsync_d = i
                elif not ok:
                    cur.failed.append(("fsync-dir", r["err"], i))
        elif role == "S":
            if kind in ("write",) + ATTR_KINDS:
                bad("source-modified|%s" % kind, "a modifying call was made on the source", i)
            if kind == "unlink":
                cur.unlink_s.append(i)
                if keep or to_stdout:
                    bad("unlink-with-keep", "unlink(source) although the source must be kept", i)
                if cur.t_id is None:
                    bad("unlink-without-target", "unlink(source) but no target was created", i)
                    continue
                if cur.owed != 0:
                    bad("unlink-after-incomplete-write",
                        "unlink(source) while a failed/short write to the target was not retried to completion", i)
                for what, err, at in cur.failed:
                    bad("unlink-after-failed|%s" % what,
                        "unlink(source) although %s failed with errno %d at record %d" % (what, err, at), i)
                if not nosync:
                    if cur.fsync_t < 0 or cur.fsync_t < cur.last_data:
                        bad("unlink-before-fsync|target",
                            "unlink(source) without a successful fsync(target) after the last write", i)
                    elif cur.fsync_t < cur.last_attr:
                        bad("attr-after-fsync",
                            "target metadata was set after the last successful fsync(target)", i)
                    if cur.fsync_d < 0:
                        bad("unlink-before-fsync|dir",
                            "unlink(source) without a successful fsync(directory) after the target was created", i)
                if cur.close_t < 0:
                    bad("unlink-before-close",
                        "unlink(source) before a successful close(target)", i)
                elif cur.close_t < cur.last_data or cur.close_t < cur.last_attr:
                    bad("unlink-before-close", "calls on the target after its close", i)
        elif role == "t" and kind == "unlink" and not ok:
            cur.unlink_t_failed = True
    return {"roles": roles, "violations": viol, "notes": notes, "traces": traces}


def dual_rule(result, pair_index, target_state, nosync=False):
    """Failure-path rule, evaluated after the process ended other than by
    SIGKILL.  target_state: 'created-present' (the inode xz created is still
    there), 'absent', or 'other'.  Returns (violations, notes)."""
    tr = result["traces"][pair_index]
    viol, notes = [], []
    if tr.t_id is None:
        return viol, notes
    if target_state == "created-present":
        complete = tr.close_t >= 0 and tr.owed == 0 and not tr.failed
        if not nosync:
            complete = complete and tr.fsync_t >= tr.last_data and tr.fsync_t >= 0 and tr.fsync_d >= 0
        if not complete and not tr.unlink_t_failed:
            viol.append(("target-left-after-incomplete-sequence",
                         "the target xz created is still present although the log shows no complete "
                         "write/fsync/close sequence (close_t=%d fsync_t=%d fsync_d=%d owed=%d failed=%r)"
                         % (tr.close_t, tr.fsync_t, tr.fsync_d, tr.owed, tr.failed)))
    elif target_state == "absent":
        if not tr.unlink_t_ok:
            notes.append("target created by xz is gone but the log has no successful unlink of it")
    return viol, notes
