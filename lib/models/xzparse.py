"""Independent .xz structure parser (written from doc/xz-file-format.txt) used as the model for `xz --list`."""
import struct, zlib

CHECK_SIZE = {0: 0, 1: 4, 2: 4, 3: 4, 4: 8, 5: 8, 6: 8, 7: 16, 8: 16, 9: 16, 10: 32, 11: 32, 12: 32, 13: 64, 14: 64, 15: 64}
CHECK_NAME = {0: "None", 1: "CRC32", 4: "CRC64", 10: "SHA-256"}


def vli(b, pos):
    v = 0
    shift = 0
    while True:
        c = b[pos]
        pos += 1
        v |= (c & 0x7F) << shift
        if not c & 0x80:
            return v, pos
        shift += 7


def parse(data):
    """Returns list of streams from first to last: dict(offset, size, check, padding, blocks=[dict(...)])."""
    streams = []
    end = len(data)
    while end > 0:
        pad = 0
        while end >= 4 and data[end - 4:end] == b"\0\0\0\0":
            end -= 4
            pad += 4
        if end == 0:
            break
        footer = data[end - 12:end]
        assert footer[10:12] == b"YZ", "footer magic"
        assert zlib.crc32(footer[4:10]) == struct.unpack("<I", footer[0:4])[0], "footer crc"
        backward = (struct.unpack("<I", footer[4:8])[0] + 1) * 4
        check = footer[9] & 0x0F
        idx_start = end - 12 - backward
        idx = data[idx_start:end - 12]
        assert idx[0] == 0
        n, pos = vli(idx, 1)
        recs = []
        for _ in range(n):
            unpadded, pos = vli(idx, pos)
            uncomp, pos = vli(idx, pos)
            recs.append((unpadded, uncomp))
        blocks_size = sum((u + 3) & ~3 for u, _ in recs)
        start = idx_start - blocks_size - 12
        assert data[start:start + 6] == b"\xfd7zXZ\0", "header magic"
        assert data[start + 7] & 0x0F == check
        blocks = []
        off = start + 12
        uoff = 0
        for unpadded, uncomp in recs:
            hsize = (data[off] + 1) * 4
            flags = data[off + 1]
            csz = CHECK_SIZE[check]
            total = (unpadded + 3) & ~3
            blocks.append(dict(coffset=off, uoffset=uoff, total=total, uncomp=uncomp, unpadded=unpadded, header=hsize,
                               has_c=bool(flags & 0x40), has_u=bool(flags & 0x80),
                               comp_data=unpadded - hsize - csz,
                               # Block = header, compressed data, Block Padding (to a multiple of 4), Check
                               check_value=data[off + total - csz:off + total]))
            off += total
            uoff += uncomp
        streams.append(dict(offset=start, size=end - start, check=check, padding=pad, blocks=blocks,
                            uncomp=uoff))
        end = start
    streams.reverse()
    return streams
