"""C18 - the command-line tools deliver exactly the library's decoding, whatever the sink.

Runtime monitor: the real `xz`, `xzdec`, `lzmadec` (flavour `rel`, what users
run) are executed on valid / corrupt / truncated / concatenated inputs into
every kind of sink (new file, pipe, `>` at offset 0, `>` at EOF of an existing
file, `>` not at EOF, `>>` append, --no-sparse) and what arrived is compared
byte for byte (content, st_size, exit status, file creation) with `libdecode`
(harness/libdecode.c), a small program that performs the documented decode
with the public liblzma API of the same tree.  A sample is repeated with the
ASan+UBSan tools where only sanitizer events count."""
import concurrent.futures, fcntl, hashlib, os, random, re, shutil, subprocess, sys, time

import build, core
from models import cli_decode as M

RULE = ("case idx -> PRNG(VERIF_SEED, idx); kinds by idx%16: 8x 'one' (one input x one tool x one sink x options), "
        "2x 'sinks' (one sparse-pattern plaintext, compressed by the rel xz, optionally damaged, decoded into all 8 sink "
        "kinds), 1x 'threads' (same input and sink under -T0/1/2/4), 3x 'roundtrip' (xz <random option set> then xz -d), "
        "1x 'multi' (two inputs, one stdout), 1x 'asan' (ASan+UBSan tools, sanitizer events only). Inputs: tests/files "
        "corpus, files made by the rel xz from plaintexts whose zero runs start/end at k*8192-1/+0/+1 and other offsets, "
        "and bit-flipped / truncated / garbage-appended / concatenated(+padding) versions. evaluations = tool runs "
        "(libdecode runs and the compressions that merely prepare inputs are not counted); distinct = "
        "hash(input, tool, sink, options); non-trivial = the library delivers >= 1 output byte")

SCHEDULE = ["one", "sinks", "one", "roundtrip", "one", "threads", "one", "roundtrip", "one", "sinks", "one", "multi",
            "one", "roundtrip", "one", "asan"]
RUNS_PER_16 = 8 + 2 * 8 + 4 + 3 * 2 + 1 + 1

ENV = {k: v for k, v in os.environ.items() if k not in ("XZ_DEFAULTS", "XZ_OPT", "LANG", "LC_ALL", "LC_MESSAGES")}
ENV["LC_ALL"] = "C"
ASAN_ENV = dict(ENV)
ASAN_ENV.update(core.SAN_ENV)
ASAN_ENV["ASAN_OPTIONS"] = core.SAN_ENV["ASAN_OPTIONS"].replace("detect_leaks=1", "detect_leaks=0")

FILEDIR = os.path.join(build.VERIF, "replays", "C18-files")
TIMEOUT = 300


def io_buffer_size():
    txt = open(os.path.join(build.SRC, "src/xz/file_io.h")).read()
    m = re.search(r"#\s*define\s+IO_BUFFER_SIZE\s+(\d+)", txt)
    return int(m.group(1)) if m else 8192


def prepare(tier):
    rel = build.build_flavour("rel")
    B = io_buffer_size()
    lib = build.build_harness("rel", "libdecode", ["libdecode.c", "vh.c"], extra_cflags=["-DCHUNK=%d" % B])
    asan = build.build_flavour("asan")
    return {"xz": os.path.join(rel, "xz"), "xzdec": os.path.join(rel, "xzdec"), "lzmadec": os.path.join(rel, "lzmadec"),
            "libdecode": lib, "asan": asan, "B": B}


class Res:
    """What one case reports back to the main thread."""

    def __init__(self):
        self.evals = 0
        self.counts = {}
        self.hashes = []
        self.samples = []
        self.viols = []

    def count(self, k, n=1):
        self.counts[k] = self.counts.get(k, 0) + n


class Env:
    def __init__(self, ctx, tools):
        self.ctx = ctx
        self.t = tools
        self.B = tools["B"]
        self.seed = ctx.seed
        self.tier = ctx.tier
        d = os.path.join(build.SRC, "tests/files")
        self.corpus = [os.path.join(d, f) for f in sorted(os.listdir(d)) if f.endswith((".xz", ".lzma", ".lz"))]
        self.good = [p for p in self.corpus if os.path.basename(p).startswith("good-")]

    def tool(self, name, flavour):
        if flavour == "asan":
            return os.path.join(self.t["asan"], name)
        return self.t[name]


def sh(argv):
    return " ".join("'" + a + "'" if re.search(r"[^\w@%+=:,./-]", a) else a for a in argv)


def save_input(data, suffix):
    os.makedirs(FILEDIR, exist_ok=True)
    p = os.path.join(FILEDIR, hashlib.sha256(data).hexdigest()[:16] + suffix)
    if not os.path.exists(p):
        with open(p, "wb") as f:
            f.write(data)
    return p


def first_diff(a, b):
    n = min(len(a), len(b))
    if a[:n] == b[:n]:
        return n
    lo, hi = 0, n
    while lo < hi:                    # binary search over a common prefix
        mid = (lo + hi) // 2
        if a[:mid + 1] == b[:mid + 1]:
            lo = mid + 1
        else:
            hi = mid
    return lo


# --------------------------------------------------------------------- oracle

def oracle(E, path, mode, single=False, ignore_check=False, passthru=False):
    argv = [E.t["libdecode"], mode]
    if single:
        argv.append("--single-stream")
    if ignore_check:
        argv.append("--ignore-check")
    if passthru:
        argv.append("--passthru")
    argv.append(path)
    r = subprocess.run(argv, stdout=subprocess.PIPE, stderr=subprocess.PIPE, env=ENV, timeout=TIMEOUT)
    m = re.search(rb"LIBDECODE ret=(\d+) name=(\w+) format=(\w+) warnings=(\d+) in=(\d+) out=(\d+)", r.stderr)
    if r.returncode != 0 or not m or int(m.group(6)) != len(r.stdout):
        raise RuntimeError("libdecode failed: %s rc=%d %r" % (sh(argv), r.returncode, r.stderr[-300:]))
    name = m.group(2).decode()
    return {"ret": name, "error": name not in ("OK", "STREAM_END"), "fmt": m.group(3).decode(),
            "warnings": int(m.group(4)), "out": r.stdout, "argv": argv}


def oracle_for(E, path, tool, o):
    if tool == "xzdec":
        return oracle(E, path, "xzdec")
    if tool == "lzmadec":
        return oracle(E, path, "lzmadec")
    mode = {None: "xz-auto", "auto": "xz-auto", "xz": "xz", "lzma": "lzma", "lzip": "lzip"}[o.get("fmt")]
    return oracle(E, path, mode, single=o.get("single", False), ignore_check=o.get("ignore_check", False),
                  passthru=(tool == "xz-dc" and o.get("force", False)))


# ------------------------------------------------------------------ tool runs

def xz_opts(o):
    a = []
    if o.get("T") is not None:
        a.append("-T" + o["T"])
    if o.get("single"):
        a.append("--single-stream")
    if o.get("ignore_check"):
        a.append("--ignore-check")
    if o.get("force"):
        a.append("-f")
    if o.get("fmt"):
        a.append("--format=" + o["fmt"])
    if o.get("no_warn"):
        a.append("-Q")
    if o.get("no_sparse"):
        a.append("--no-sparse")
    if o.get("keep"):
        a.append("-k")
    if o.get("quiet"):
        a.append("-" + "q" * o["quiet"])
    return a


def opt_sig(o):
    return ",".join("%s=%s" % (k, o[k]) for k in sorted(o) if o[k] not in (None, False, 0))


class Sink:
    """Prepares stdout for a tool and reads back what arrived."""

    def __init__(self, kind, rng, rdir, B, dlen):
        self.kind = kind
        self.path = os.path.join(rdir, "out.bin")
        self.prefix = b""
        self.pos = 0
        self.fd = None
        self.how = ""
        if kind == "pipe":
            self.how = "stdout = pipe"
            return
        if kind in ("redir0", "nosparse"):
            self.fd = os.open(self.path, os.O_WRONLY | os.O_CREAT | os.O_TRUNC, 0o644)
            self.how = "stdout = new regular file (O_WRONLY|O_CREAT|O_TRUNC), offset 0"
            return
        n = rng.choice([1, 100, B - 1, B, B + 1, 3 * B + 5, rng.randint(1, 4 * B)])
        if kind == "redirN-mid" and rng.random() < 0.7:
            n += dlen + rng.choice([0, 1, B])          # old bytes beyond the written region must survive
        self.prefix = bytes((0xA5 if (i // 7) % 2 else 0x3C) for i in range(min(n, 64))) + b"\xaa" * max(0, n - 64)
        with open(self.path, "wb") as f:
            f.write(self.prefix)
        if kind == "append":
            self.fd = os.open(self.path, os.O_WRONLY | os.O_APPEND)
            self.pos = rng.choice([0, 0, n, n // 2])
            os.lseek(self.fd, self.pos, os.SEEK_SET)
            self.how = "stdout = existing %d-byte file (0xAA..) opened O_WRONLY|O_APPEND, fd offset %d" % (n, self.pos)
            return
        self.fd = os.open(self.path, os.O_WRONLY)
        if kind == "redirN-eof":
            self.pos = n
        elif kind == "redirN-mid":
            self.pos = rng.choice([0, 1, B, n // 2, n - 1, rng.randrange(0, n)])
            self.pos = min(self.pos, n - 1)
        elif kind == "redirN-past":
            self.pos = n + rng.choice([1, 10, B, 2 * B + 3])
        else:
            raise ValueError(kind)
        os.lseek(self.fd, self.pos, os.SEEK_SET)
        self.how = "stdout = existing %d-byte file (0xAA..) opened O_WRONLY, fd offset %d" % (n, self.pos)

    def flags(self):
        return fcntl.fcntl(self.fd, fcntl.F_GETFL) if self.fd is not None else 0

    def close(self):
        if self.fd is not None:
            os.close(self.fd)
            self.fd = None

    def read(self):
        st = os.stat(self.path)
        with open(self.path, "rb") as f:
            return f.read(), st


def run_tool(argv, stdin_path=None, stdout=None, cwd=None, env=None, slow_seed=None):
    if stdin_path and slow_seed is not None:
        # standard input is a pipe fed by a writer that pauses a few times (the tools then see short reads, and xz -
        # whose stdin is non-blocking - EAGAIN)
        import threading
        data = open(stdin_path, "rb").read()
        rng = random.Random(slow_seed)
        cuts = sorted(set(rng.randrange(0, len(data) + 1) for _ in range(rng.randint(1, 4))))
        rfd, wfd = os.pipe()
        try:
            p = subprocess.Popen(argv, stdin=rfd, stdout=subprocess.PIPE if stdout is None else stdout,
                                 stderr=subprocess.PIPE, cwd=cwd, env=env or ENV)
        finally:
            os.close(rfd)

        def feed():
            try:
                pos = 0
                for c in cuts + [len(data)]:
                    while pos < c:
                        pos += os.write(wfd, data[pos:min(pos + 60000, c)])
                    time.sleep(rng.uniform(0.02, 0.05))
            except OSError as ex:
                feed_err.append(repr(ex))
            finally:
                os.close(wfd)
        feed_err = []
        t = threading.Thread(target=feed, daemon=True)
        t.start()
        try:
            so, se = p.communicate(timeout=TIMEOUT)
            t.join(5)
            if feed_err and os.environ.get("VERIF_DEBUG_FEED"):
                sys.stderr.write("feed error: %s argv=%s\n" % (feed_err, argv))
            return p.returncode, (so if stdout is None else b""), se.decode("utf-8", "replace"), False
        except subprocess.TimeoutExpired:
            p.kill()
            so, se = p.communicate()
            return -9, b"", (se or b"").decode("utf-8", "replace"), True
    fin = open(stdin_path, "rb") if stdin_path else subprocess.DEVNULL
    try:
        r = subprocess.run(argv, stdin=fin, stdout=subprocess.PIPE if stdout is None else stdout,
                           stderr=subprocess.PIPE, cwd=cwd, env=env or ENV, timeout=TIMEOUT)
        return r.returncode, (r.stdout if stdout is None else b""), r.stderr.decode("utf-8", "replace"), False
    except subprocess.TimeoutExpired as ex:
        return -9, b"", (ex.stderr or b"").decode("utf-8", "replace"), True
    finally:
        if stdin_path:
            fin.close()


def decode_run(E, R, idx, rng, cdir, tag, data, suffix, tool, sink_kind, o, info, orc=None, flavour="rel"):
    """One tool run into one sink, judged against the oracle.  Returns the
    bytes the tool delivered (None when not applicable)."""
    B = E.B
    rdir = os.path.join(cdir, tag)
    os.makedirs(rdir)
    inp = os.path.join(rdir, "in" + suffix)
    with open(inp, "wb") as f:
        f.write(data)
    if orc is None:
        orc = oracle_for(E, inp, tool, o)
    if orc["ret"] in ("MEM_ERROR", "MEMLIMIT_ERROR"):
        R.count("skipped_mem_error")
        return None
    D = orc["out"]
    exe = E.tool("xz" if tool.startswith("xz-") else tool, flavour)
    if tool.startswith("xz-"):
        argv = [exe, {"xz-dc": "-dc", "xz-d": "-d", "xz-t": "-t"}[tool]] + xz_opts(o)
    else:
        argv = [exe]
    use_stdin = bool(o.get("stdin")) and tool != "xz-d"
    if not use_stdin:
        argv.append(inp)
    sink = None
    if tool == "xz-d":
        assert sink_kind == "newfile"
        how = "target file created by xz -d next to the input"
        rc, so, se, to = run_tool(argv, cwd=rdir, env=ASAN_ENV if flavour == "asan" else None)
    else:
        sink = Sink(sink_kind, rng, rdir, B, len(D))
        how = sink.how
        fl0 = sink.flags()
        slow = rng.getrandbits(32) if (use_stdin and rng.random() < 0.5) else None
        if slow is not None:
            R.count("stdin_pipe_from_pausing_writer")
        rc, so, se, to = run_tool(argv, stdin_path=inp if use_stdin else None, stdout=sink.fd, cwd=rdir,
                                  env=ASAN_ENV if flavour == "asan" else None, slow_seed=slow)
    R.evals += 1
    R.count("runs_" + tool)
    R.count("sink_" + sink_kind)
    R.count("flavour_" + flavour)
    if o.get("T") is not None and tool.startswith("xz-"):
        R.count("T" + o["T"])
    R.count("class_" + info["cls"])
    R.count("lib_" + orc["ret"])
    if orc["warnings"]:
        R.count("lib_unsupported_check_warning")
    if orc["fmt"] == "passthru":
        R.count("passthru")
    h = hashlib.sha256(data).digest()
    if D:
        R.hashes.append(int.from_bytes(hashlib.sha256(h + ("|%s|%s|%s|%s" % (tool, sink_kind, opt_sig(o), flavour))
                                                     .encode()).digest()[:8], "little"))
        if orc["error"]:
            R.count("error_after_output")

    def viol(key, detail):
        ip = save_input(data, suffix)
        cmd = list(argv)
        if not use_stdin:
            cmd[-1] = ip if tool != "xz-d" else "<copy of %s>" % ip
        txt = ("input: %s (%d bytes, %s)\noracle: %s\n  -> library status %s, %d bytes, %d unsupported-check warning(s), "
               "format %s\ntool:   %s%s\n  sink %s: %s\n  -> exit %s\n%s\nregenerate: VERIF_ONLY_CASE=%d VERIF_SEED=%d "
               "./check C18 --tier %s") % (
            ip, len(data), info["descr"], sh(orc["argv"][:-1] + [ip]), orc["ret"], len(D), orc["warnings"],
            orc["fmt"], sh(cmd), " < " + ip if use_stdin else "", sink_kind, how, rc, detail, idx, E.seed, E.tier)
        R.viols.append((key, txt + "\ntool stderr: " + se[-600:], {"how": txt}))

    if flavour == "asan":
        if sink:
            sink.close()
        reps = core.parse_sanitizer(se)
        for key, excerpt in reps:
            viol(key, excerpt)
        if not reps and (rc == 99 or rc < 0):
            viol("sanitizer-exit|%s|%s" % (tool, rc), "asan-flavour tool ended with status %d and no parsable report" % rc)
        return None
    if to:
        if sink:
            sink.close()
        viol("hang|%s" % tool, "no exit within %d s" % TIMEOUT)
        return None
    if rc < 0:
        if sink:
            sink.close()
        viol("crash|%s|signal-%d" % (tool, -rc), "tool killed by signal %d" % -rc)
        return None

    # ---- exit status
    want = M.expected_exit(tool, orc["error"], orc["warnings"], o.get("no_warn", False))
    if rc != want:
        viol("status|%s|lib=%s%s|exit=%d" % (tool, orc["ret"], "+warning" if orc["warnings"] and not orc["error"] else "",
                                              rc), "expected exit status %d" % want)

    # ---- what reached the sink
    delivered = None
    if tool == "xz-t":
        sink.close()
        if so:
            viol("output-from-test-mode|xz-t", "xz -t wrote %d bytes to stdout" % len(so))
        return None
    if tool == "xz-d":
        target = os.path.join(rdir, "in")
        made = os.path.lexists(target)
        src_there = os.path.exists(inp)
        if orc["error"]:
            if made:
                viol("file-created-from-invalid-input", "target exists (%d bytes) although the library reports %s" % (
                    os.path.getsize(target), orc["ret"]))
            if not src_there:
                viol("source-removed-on-failure", "the input file was removed although decoding failed")
            R.count("newfile_refused")
            return None
        if not made:
            viol("no-file-from-valid-input|xz-d", "library decodes the input completely but no target was created")
            return None
        st = os.stat(target)
        with open(target, "rb") as f:
            got = f.read()
        exp = D
        delivered = got
        stt = st
    else:
        if sink.fd is not None:
            fl1 = sink.flags()
            if (fl0 ^ fl1) & os.O_APPEND:
                viol("append-flag-not-restored|%s|%s" % (tool, sink_kind),
                     "O_APPEND of the stdout file description: before %s, after %s" % (bool(fl0 & os.O_APPEND),
                                                                                     bool(fl1 & os.O_APPEND)))
            sink.close()
            got, stt = sink.read()
        else:
            got, stt = so, None
        exp = M.expected_sink(sink_kind, sink.prefix, sink.pos, D)
        if sink_kind in ("pipe", "redir0", "nosparse"):
            delivered = got

    if stt is not None:
        if stt.st_size != len(exp):
            pass    # reported below through the content comparison (len(got) == st_size)
        if sink_kind in M.SPARSE_SINKS and not o.get("no_sparse") and tool.startswith("xz-") and not orc["error"]:
            for hc in M.hole_classes(D, B):
                R.count("hole_" + hc)
            if stt.st_blocks * 512 < stt.st_size:
                R.count("st_blocks_show_a_hole")
                R.count("st_blocks_saved", (stt.st_size - stt.st_blocks * 512) // 512)
    if got != exp:
        lost = exp[len(got):]
        sparse_on = sink_kind in M.SPARSE_SINKS and not o.get("no_sparse")
        if (orc["error"] and sparse_on and len(got) < len(exp) and exp.startswith(got) and len(lost) % B == 0
                and lost.strip(b"\0") == b""):
            key = "trailing-hole-lost-on-error|%s|%s" % (tool, sink_kind)
        elif len(got) != len(exp):
            key = "size-differs|%s|%s" % (tool, sink_kind)
        else:
            key = "output-differs|%s|%s" % (tool, sink_kind)
        fd = first_diff(got, exp)
        viol(key, "sink holds %d bytes, expected %d (library delivered %d before %s); first difference at sink offset %d "
             "(= buffer %d + %d): got %s expected %s%s" % (
                 len(got), len(exp), len(D), orc["ret"], fd, fd // B, fd % B, got[fd:fd + 8].hex() or "EOF",
                 exp[fd:fd + 8].hex() or "EOF",
                 "" if stt is None else "; st_size %d st_blocks %d" % (stt.st_size, stt.st_blocks)))
    if len(R.samples) < 2:
        R.samples.append("#%d %s %s sink=%s opts[%s] input=%s(%dB) -> lib %s %dB, exit %d" % (
            idx, tool, flavour, sink_kind, opt_sig(o), info["descr"], len(data), orc["ret"], len(D), rc))
    return delivered


# ------------------------------------------------------------------- inputs

def compress(E, plain, args, cdir, name):
    p = os.path.join(cdir, name)
    with open(p, "wb") as f:
        f.write(plain)
    r = subprocess.run([E.t["xz"], "-c"] + args + [p], stdout=subprocess.PIPE, stderr=subprocess.PIPE, env=ENV,
                       timeout=TIMEOUT)
    os.unlink(p)
    if r.returncode not in (0, 2):
        raise RuntimeError("rel xz failed to prepare an input: %s: %s" % (sh(args), r.stderr[-300:]))
    return r.stdout


def some_plain(E, rng, maxlen):
    r = rng.random()
    if r < 0.55:
        p, shape = M.sparse_plain(rng, E.B)
        return p[:maxlen] if len(p) > maxlen else p, "sparse-" + shape
    n = rng.choice([0, 1, 100, E.B, rng.randint(1, maxlen), rng.randint(1, maxlen)])
    if r < 0.8:
        return M.text(rng, n), "text"
    return rng.randbytes(n), "random"


def made_input(E, rng, cdir, maxlen=200000, multiblock=False, force_mt=False):
    """(bytes, suffix, descr) of a valid file made by the rel xz."""
    plain, pk = some_plain(E, rng, maxlen)
    args = [rng.choice(["-0", "-1", "-2", "-6"])]
    suffix = ".xz"
    if rng.random() < 0.2 and not multiblock:
        args.append("--format=lzma")
        suffix = ".lzma"
    else:
        if rng.random() < 0.5:
            args.append("--check=" + rng.choice(["none", "crc32", "crc64", "sha256"]))
        if multiblock or rng.random() < 0.5:
            args.append("--block-size=%d" % rng.choice([4096, E.B, 3 * E.B + 1, 65536, max(4096, len(plain) // 5)]))
            args.append(rng.choice(["-T2", "-T4"]) if force_mt else rng.choice(["-T1", "-T2", "-T4"]))
    return compress(E, plain, args, cdir, "plain.tmp"), suffix, "xz %s of %s(%d)" % (" ".join(args), pk, len(plain))


def aligned_input(E, rng, cdir):
    """A VALID file whose compressed size is (a multiple of the tools' 8 KiB read buffer) + delta: the last read() /
    fread() then returns a full buffer and end of file is only seen by the next one."""
    k = rng.choice([1, 1, 2, 3, 5])
    if rng.random() < 0.3:
        fmt, suffix, delta = "lzma", ".lzma", rng.choice([0, 0, 0, -1, 1])
    else:
        fmt, suffix, delta = "xz", ".xz", rng.choice([0, 0, 0, -4, 4])
    target = k * E.B + delta
    args = ["-0", "--format=" + fmt] + ([] if fmt == "lzma" else ["-T1", "--check=" + rng.choice(["none", "crc32", "crc64", "sha256"])])
    if fmt == "xz" and rng.random() < 0.5:
        plain, pk = some_plain(E, rng, target // 2)
        data = compress(E, plain, args, cdir, "plain.tmp")
        if len(data) <= target:
            data += bytes(target - len(data))       # Stream Padding, a multiple of four bytes
            return data, suffix, "xz %s of %s(%d) + Stream Padding to %d*%d%+d bytes" % (" ".join(args), pk, len(plain), k, E.B, delta)
    pool = rng.randbytes(target + 64)                # incompressible: size grows with the length almost byte by byte
    n = max(0, target - 40)
    best = None
    for _ in range(40):
        data = compress(E, pool[:n], args, cdir, "plain.tmp")
        if len(data) == target:
            return data, suffix, "xz %s of random(%d) = exactly %d*%d%+d bytes" % (" ".join(args), n, k, E.B, delta)
        best = data
        step = target - len(data)
        n = max(0, min(len(pool), n + (step if abs(step) > 1 or fmt == "lzma" else (1 if step > 0 else -1))))
    return best, suffix, "xz %s of random(%d) (%d bytes; exact size not reached)" % (" ".join(args), n, len(best))


def gen_input(E, rng, cdir):
    """-> (bytes, suffix, info) with info = {cls, descr}."""
    r = rng.random()
    if r < 0.12:
        r = 2.0                                      # fall through to the common path below with a size-aligned base
        base, suffix, descr = aligned_input(E, rng, cdir)
        if rng.random() < 0.8:
            return base, suffix, {"cls": "valid-size-aligned", "descr": descr}
        d = M.truncate(rng, base) if rng.random() < 0.5 else M.garbage(rng, base)[0]
        return d, suffix, {"cls": "corrupt", "descr": descr + " truncated or with trailing garbage (%d bytes)" % len(d)}
    r = (r - 0.12) / 0.88
    if r < 0.07:
        kind = rng.choice(["text", "text", "random", "random", "empty", "short-magic"])
        data = {"text": M.text(rng, rng.choice([1, 12, 13, E.B, E.B + 1, rng.randint(1, 30000)])),
                "random": rng.randbytes(rng.choice([5, 13, 2 * E.B, rng.randint(1, 30000)])),
                "empty": b"", "short-magic": rng.choice([b"\xfd7zXZ", b"LZI", b"\x5d\0\0\x80\0"])}[kind]
        return data, rng.choice([".xz", ".lzma", ".lz"]), {"cls": "unknown-format", "descr": "not compressed: " + kind}
    if r < 0.10:
        p = rng.choice([q for q in E.good if q.endswith(".lzma")])
        d, what = M.lzma_header_edge(rng, open(p, "rb").read())
        return d, ".lzma", {"cls": "lzma-header-edge", "descr": "tests/files/%s with header %s" % (os.path.basename(p), what)}
    if r < 0.30:
        p = rng.choice(E.corpus)
        name = os.path.basename(p)
        cls = "corpus-" + name.split("-")[0]
        return open(p, "rb").read(), os.path.splitext(p)[1], {"cls": cls, "descr": "tests/files/" + name}
    if r < 0.55:
        p = rng.choice(E.corpus if rng.random() < 0.4 else E.good)
        base, suffix, descr = open(p, "rb").read(), os.path.splitext(p)[1], "tests/files/" + os.path.basename(p)
    else:
        base, suffix, descr = made_input(E, rng, cdir)
        if rng.random() < 0.15:
            u = M.unsupported_check(rng, base)
            if u is not None:
                return u, suffix, {"cls": "unsupported-check", "descr": descr + " with the Check ID rewritten to %d" % u[7]}
        if rng.random() < 0.35:
            return base, suffix, {"cls": "valid", "descr": descr}
    if suffix == ".lzma" and rng.random() < 0.3:
        d, what = M.lzma_header_edge(rng, base)
        return d, suffix, {"cls": "lzma-header-edge", "descr": descr + " with header " + what}
    m = rng.choice(["bitflip", "bitflip", "truncate", "truncate", "garbage", "concat", "concat"])
    if m == "bitflip":
        return M.bitflip(rng, base), suffix, {"cls": "corrupt", "descr": descr + " + bit flip(s)"}
    if m == "truncate":
        d = M.truncate(rng, base)
        return d, suffix, {"cls": "truncated", "descr": descr + " truncated to %d" % len(d)}
    if m == "garbage":
        d, k = M.garbage(rng, base)
        return d, suffix, {"cls": "garbage", "descr": descr + " + trailing " + k}
    if rng.random() < 0.5:
        p2 = rng.choice(E.good)
        other, d2 = open(p2, "rb").read(), "tests/files/" + os.path.basename(p2)
    else:
        other, _, d2 = made_input(E, rng, cdir, maxlen=40000)
        u = M.unsupported_check(rng, other) if rng.random() < 0.3 else None
        if u is not None:       # a later Stream whose Check cannot be verified: still only a warning
            other, d2 = u, d2 + " with the Check ID rewritten to %d" % u[7]
    pad = bytes(rng.choice([0, 0, 4, 8, 12, 1, 3, 6]))
    if rng.random() < 0.2:
        other = M.bitflip(rng, other) if rng.random() < 0.5 else M.truncate(rng, other)
        d2 += " (damaged)"
    return base + pad + other, suffix, {"cls": "concat", "descr": "%s + %d pad + %s" % (descr, len(pad), d2)}


def rand_opts(rng, tool):
    o = {}
    if tool.startswith("xz-"):
        o["T"] = rng.choice([None, "0", "1", "1", "2", "4"])
        if rng.random() < 0.15:
            o["single"] = True
        if rng.random() < 0.15:
            o["ignore_check"] = True
        if rng.random() < 0.15:
            o["force"] = True
        if rng.random() < 0.2:
            o["fmt"] = rng.choice(["auto", "xz", "lzma", "lzip"])
        if rng.random() < 0.1:
            o["no_warn"] = True
        if rng.random() < 0.1 and tool != "xz-t":
            o["no_sparse"] = True
        if rng.random() < 0.3 and tool == "xz-d":
            o["keep"] = True
        if rng.random() < 0.3:
            o["quiet"] = rng.choice([1, 2])
    if tool != "xz-d" and rng.random() < 0.15:
        o["stdin"] = True
    return o


# -------------------------------------------------------------------- cases

def case_one(E, R, idx, rng, cdir, flavour="rel"):
    data, suffix, info = gen_input(E, rng, cdir)
    tool = rng.choice(["xz-dc"] * 8 + ["xz-d"] * 3 + ["xz-t"] * 2 + ["xzdec"] * 4 + ["lzmadec"] * 3)
    if info["cls"] == "unknown-format" and rng.random() < 0.5:
        tool = "xz-dc"                        # (the pass-through path exists only there)
    if info["cls"] == "valid-size-aligned":  # every tool that reads this format gets its share of these files
        tool = rng.choice(["xz-dc", "xz-d", "xz-t"] + (["lzmadec"] * 3 if suffix == ".lzma" else ["xzdec"] * 3))
    if tool == "xz-dc":
        sink = rng.choice(M.STDOUT_SINKS)
    elif tool == "xz-d":
        sink = "newfile"
    elif tool == "xz-t":
        sink = "pipe"
    else:
        sink = rng.choice(["pipe", "pipe", "redir0", "append", "redirN-mid", "redirN-eof"])
    o = rand_opts(rng, tool)
    if sink == "nosparse":
        o["no_sparse"] = True
    if info["cls"] == "unknown-format" and tool == "xz-dc" and rng.random() < 0.8:
        o["force"] = True                     # xz -dcf: unrecognised input is copied unchanged
    decode_run(E, R, idx, rng, cdir, "r0", data, suffix, tool, sink, o, info, flavour=flavour)


def case_asan(E, R, idx, rng, cdir):
    case_one(E, R, idx, rng, cdir, flavour="asan")


def case_sinks(E, R, idx, rng, cdir):
    B = E.B
    shape = "big" if rng.random() < (0.06 if E.tier == "quick" else 0.1) else None
    plain, shape = M.sparse_plain(rng, B, shape)
    args = [rng.choice(["-0", "-1"])]
    suffix = ".xz"
    if rng.random() < 0.15:
        args.append("--format=lzma")
        suffix = ".lzma"
    elif rng.random() < 0.5:
        args += ["--block-size=%d" % rng.choice([B, 2 * B, 3 * B - 1, 65536]), rng.choice(["-T1", "-T2"])]
    data = compress(E, plain, args, cdir, "plain.tmp")
    descr = "xz %s of sparse-%s(%d)" % (" ".join(args), shape, len(plain))
    cls = "valid"
    r = rng.random()
    if r < 0.18:
        data, k = M.garbage(rng, data)
        cls, descr = "garbage", descr + " + trailing " + k
    elif r < 0.28:
        data = data[:len(data) - rng.randint(1, min(30, len(data) - 1))]
        cls, descr = "truncated", descr + " truncated to %d" % len(data)
    elif r < 0.38 and suffix == ".xz":
        p2, _ = M.sparse_plain(rng, B)
        data = data + bytes(rng.choice([0, 4])) + compress(E, p2, ["-0"], cdir, "plain2.tmp")
        cls, descr = "concat", descr + " + second stream of sparse(%d)" % len(p2)
    info = {"cls": cls, "descr": descr}
    base = {"T": rng.choice([None, "0", "1", "2", "4"])}
    if rng.random() < 0.1:
        base["single"] = True
    for n, sink in enumerate(M.ALL_SINKS):
        o = dict(base)
        tool = "xz-d" if sink == "newfile" else "xz-dc"
        if sink == "nosparse":
            o["no_sparse"] = True
        if sink == "newfile" and rng.random() < 0.3:
            o["keep"] = True
        decode_run(E, R, idx, rng, cdir, "s%d" % n, data, suffix, tool, sink, o, info)


def case_threads(E, R, idx, rng, cdir):
    big = E.tier == "thorough" and rng.random() < 0.2
    early = rng.random() < 0.4
    if early:
        # half incompressible, so that the compressed file is long: many sized Blocks, much input behind the damage
        n = rng.randint(150000, 600000)
        plain = b"".join(rng.randbytes(4096) if rng.random() < 0.5 else M.text(rng, 4096) for _ in range(n // 4096 + 1))[:n]
        args = ["-0", rng.choice(["-T2", "-T4"]), "--block-size=%d" % rng.choice([16384, 32768, 65536])]
        data, suffix, descr = compress(E, plain, args, cdir, "plain.tmp"), ".xz", "xz %s of mixed(%d)" % (" ".join(args), n)
    else:
        data, suffix, descr = made_input(E, rng, cdir, maxlen=3000000 if big else 500000, multiblock=True)
    cls = "valid"
    r = rng.random()
    if early and len(data) > 40000:
        # damage in the first third of a file whose Block Headers carry sizes: the threaded decoder finds the error
        # while workers of earlier Blocks are busy and a lot of input is still unread
        pos = rng.randrange(12, len(data) // 3)
        data = data[:pos] + bytes([data[pos] ^ (1 << rng.randrange(8))]) + data[pos + 1:]
        cls, descr = "corrupt", descr + " + bit flip at %d (first third)" % pos
        R.count("threads_cases_early_damage")
    elif r < 0.3:
        data, cls, descr = M.bitflip(rng, data), "corrupt", descr + " + bit flip(s)"
    elif r < 0.5:
        data = M.truncate(rng, data)
        cls, descr = "truncated", descr + " truncated to %d" % len(data)
    elif r < 0.6:
        data, k = M.garbage(rng, data)
        cls, descr = "garbage", descr + " + trailing " + k
    elif r < 0.7:
        d2, _, dd = made_input(E, rng, cdir, maxlen=100000, multiblock=True)
        data, cls, descr = data + bytes(rng.choice([0, 4, 8])) + d2, "concat", descr + " + " + dd
    info = {"cls": cls, "descr": descr}
    sink = rng.choice(["pipe", "redir0", "newfile", "append", "redirN-eof"])
    tool = "xz-d" if sink == "newfile" else "xz-dc"
    base = {}
    if rng.random() < 0.1:
        base["ignore_check"] = True
    outs = {}
    nv = len(R.viols)
    for T in ("1", "0", "2", "4"):
        o = dict(base)
        o["T"] = T
        outs[T] = decode_run(E, R, idx, rng, cdir, "t" + T, data, suffix, tool, sink, o, info)
    if sink in ("pipe", "redir0", "newfile") and outs["1"] is not None:
        for T in ("0", "2", "4"):
            if outs[T] is not None and outs[T] != outs["1"]:
                # re-key the plain output mismatch of this -T value as a thread-count dependence
                for i in range(nv, len(R.viols)):
                    k, d, rp = R.viols[i]
                    if ("-T" + T) in d and k.split("|")[0] in ("output-differs", "size-differs"):
                        R.viols[i] = ("threads-change-output|T" + T, d, rp)
                        break
                else:
                    R.viols.append(("threads-change-output|T" + T, "-T%s and -T1 deliver different bytes for %s" % (
                        T, descr), {"how": "VERIF_ONLY_CASE=%d VERIF_SEED=%d ./check C18 --tier %s" % (idx, E.seed, E.tier)}))


def case_multi(E, R, idx, rng, cdir):
    """Two inputs, one standard output: the second file starts where the first ended."""
    B = E.B
    tool = rng.choice(["xz-dc", "xz-dc", "xz-dc", "xzdec"])
    ins = []
    # a third of the two-file runs aim at state that must not be carried from one file to the next: the first
    # file is a valid file of one format (e.g. .lz, whose trailing data is allowed), the second a file of
    # another format that is invalid only because of what follows its end (trailing bytes) or a cut
    carry = rng.random() < 0.35
    for n in range(2):
        if carry:
            fmt = rng.choice([".lz", ".lz", ".lzma", ".xz"]) if n == 0 else rng.choice([".lzma", ".lzma", ".xz", ".lz"])
            cands = [q for q in E.good if q.endswith(fmt)]
            p = rng.choice(cands)
            data, suffix, descr = open(p, "rb").read(), fmt, "tests/files/" + os.path.basename(p)
            if n == 0:
                info = {"cls": "valid", "descr": descr}
            elif rng.random() < 0.7:
                data, k = M.garbage(rng, data)
                info = {"cls": "garbage", "descr": descr + " + trailing " + k}
            else:
                data = M.truncate(rng, data)
                info = {"cls": "truncated", "descr": descr + " truncated to %d" % len(data)}
            R.count("multi_carry_state_cases")
        elif rng.random() < 0.6:
            plain, shape = M.sparse_plain(rng, B, rng.choice(["endhole", "tail", "head", "allzero", "exact", "middle"]))
            data = compress(E, plain, ["-0"], cdir, "plain.tmp")
            info = {"cls": "valid", "descr": "xz -0 of sparse-%s(%d)" % (shape, len(plain))}
            if rng.random() < 0.2:
                data, k = M.garbage(rng, data)
                info = {"cls": "garbage", "descr": info["descr"] + " + trailing " + k}
            suffix = ".xz"
        else:
            data, suffix, info = gen_input(E, rng, cdir)
        ins.append((data, suffix, info))
    sink_kind = rng.choice(["pipe", "redir0", "redirN-eof", "append", "nosparse", "redirN-mid"])
    if tool == "xzdec" and sink_kind == "nosparse":
        sink_kind = "redir0"
    o = {"T": rng.choice([None, "1", "2"])} if tool == "xz-dc" else {}
    if sink_kind == "nosparse":
        o["no_sparse"] = True
    rdir = os.path.join(cdir, "m")
    os.makedirs(rdir)
    paths, orcs = [], []
    for n, (data, suffix, info) in enumerate(ins):
        p = os.path.join(rdir, "in%d%s" % (n, suffix))
        with open(p, "wb") as f:
            f.write(data)
        paths.append(p)
        orcs.append(oracle_for(E, p, tool, o))
    if any(x["ret"] in ("MEM_ERROR", "MEMLIMIT_ERROR") for x in orcs):
        R.count("skipped_mem_error")
        return
    if tool == "xzdec":       # stops at the first failing file
        D = orcs[0]["out"] + (b"" if orcs[0]["error"] else orcs[1]["out"])
        err = orcs[0]["error"] or orcs[1]["error"]
        warn = 0
    else:
        D = orcs[0]["out"] + orcs[1]["out"]
        err = orcs[0]["error"] or orcs[1]["error"]
        warn = orcs[0]["warnings"] + orcs[1]["warnings"]
    exe = E.t["xz"] if tool == "xz-dc" else E.t["xzdec"]
    argv = [exe] + (["-dc"] + xz_opts(o) if tool == "xz-dc" else []) + paths
    sink = Sink(sink_kind, rng, rdir, B, len(D))
    fl0 = sink.flags()
    rc, so, se, to = run_tool(argv, stdout=sink.fd, cwd=rdir)
    R.evals += 1
    R.count("runs_" + tool)
    R.count("runs_multi")
    R.count("sink_" + sink_kind)
    h = hashlib.sha256(ins[0][0] + b"|" + ins[1][0]).digest()
    if D:
        R.hashes.append(int.from_bytes(hashlib.sha256(h + ("|multi|%s|%s|%s" % (tool, sink_kind, opt_sig(o))).encode())
                                       .digest()[:8], "little"))

    def viol(key, detail):
        ips = [save_input(d, s) for d, s, _ in ins]
        txt = ("inputs: %s (%s) and %s (%s)\noracle per file: %s\n  -> %s/%dB and %s/%dB\ntool: %s\n  sink %s: %s\n"
               "  -> exit %s\n%s\nregenerate: VERIF_ONLY_CASE=%d VERIF_SEED=%d ./check C18 --tier %s") % (
            ips[0], ins[0][2]["descr"], ips[1], ins[1][2]["descr"], sh(orcs[0]["argv"][:-1] + ["FILE"]),
            orcs[0]["ret"], len(orcs[0]["out"]), orcs[1]["ret"], len(orcs[1]["out"]), sh(argv[:-2] + ips), sink_kind,
            sink.how, rc, detail, idx, E.seed, E.tier)
        R.viols.append((key, txt + "\ntool stderr: " + se[-600:], {"how": txt}))

    if to or rc < 0:
        sink.close()
        viol("hang|%s" % tool if to else "crash|%s|signal-%d" % (tool, -rc), "two-file run")
        return
    want = 1 if err else (2 if warn else 0)
    if rc != want:
        viol("status|%s|multi|lib=%s,%s|exit=%d" % (tool, orcs[0]["ret"], orcs[1]["ret"], rc), "expected exit %d" % want)
    if sink.fd is not None:
        fl1 = sink.flags()
        if (fl0 ^ fl1) & os.O_APPEND:
            viol("append-flag-not-restored|%s|%s" % (tool, sink_kind), "O_APPEND changed across the run")
        sink.close()
        got, stt = sink.read()
    else:
        got, stt = so, None
    exp = M.expected_sink(sink_kind, sink.prefix, sink.pos, D)
    if stt is not None and sink_kind in M.SPARSE_SINKS and tool == "xz-dc" and not err:
        if stt.st_blocks * 512 < stt.st_size:
            R.count("st_blocks_show_a_hole")
    if got != exp:
        lost = exp[len(got):]
        def unholed(x):      # what a failed file leaves behind if its pending trailing hole is dropped
            d = x["out"]
            if not x["error"] or len(d) % B:
                return d
            while d and d[-B:] == bytes(B):
                d = d[:-B]
            return d
        if (err and tool == "xz-dc" and sink_kind in M.SPARSE_SINKS and len(got) < len(exp) and exp.startswith(got)
                and len(lost) % B == 0 and lost.strip(b"\0") == b""):
            key = "trailing-hole-lost-on-error|%s|%s" % (tool, sink_kind)
        elif err and tool == "xz-dc" and got == M.expected_sink(sink_kind, sink.prefix, sink.pos,
                                                               unholed(orcs[0]) + unholed(orcs[1])):
            key = "trailing-hole-lost-on-error|%s|%s|two-files" % (tool, sink_kind)
        else:
            key = "%s|%s|%s|two-files" % ("size-differs" if len(got) != len(exp) else "output-differs", tool, sink_kind)
        fd = first_diff(got, exp)
        viol(key, "sink holds %d bytes, expected %d; first difference at sink offset %d: got %s expected %s" % (
            len(got), len(exp), fd, got[fd:fd + 8].hex() or "EOF", exp[fd:fd + 8].hex() or "EOF"))
    if len(R.samples) < 1:
        R.samples.append("#%d multi %s sink=%s: %s ; %s -> exit %d, %dB" % (
            idx, tool, sink_kind, ins[0][2]["descr"], ins[1][2]["descr"], rc, len(D)))


def case_roundtrip(E, R, idx, rng, cdir):
    r = rng.random()
    if r < 0.05:
        plain, pk = b"", "empty"
    elif r < 0.1:
        plain, pk = bytes([rng.randrange(256)]), "one-byte"
    else:
        plain, pk = some_plain(E, rng, 1500000 if rng.random() < 0.05 else 300000)
    argv, cls, fmt = M.option_set(rng, len(plain))
    via = rng.choice(["pipeline", "pipeline", "file"])
    dT = rng.choice([None, "0", "1", "2", "4"])
    dopts = ["-T" + dT] if dT else []
    xz = E.t["xz"]
    rdir = os.path.join(cdir, "rt")
    os.makedirs(rdir)
    src = os.path.join(rdir, "in")
    with open(src, "wb") as f:
        f.write(plain)
    suffix = ".lzma" if fmt == "lzma" else ".xz"
    ccmd = [xz] + argv
    dcmd = [xz, "-d"] + dopts

    def viol(key, detail, se=""):
        ip = save_input(plain, ".plain")
        if via == "pipeline":
            how = "%s < %s | %s | cmp - %s" % (sh(ccmd), ip, sh(dcmd), ip)
        else:
            how = "cp %s in && %s in && %s in%s && cmp in %s" % (ip, sh(ccmd), sh(dcmd), suffix, ip)
        txt = ("plaintext: %s (%d bytes, %s)\n%s\n%s\nregenerate: VERIF_ONLY_CASE=%d VERIF_SEED=%d ./check C18 --tier %s"
               % (ip, len(plain), pk, how, detail, idx, E.seed, E.tier))
        R.viols.append((key, txt + "\nstderr: " + se[-600:], {"how": txt}))

    if via == "pipeline":
        with open(src, "rb") as fin:
            p1 = subprocess.Popen(ccmd, stdin=fin, stdout=subprocess.PIPE, stderr=subprocess.PIPE, env=ENV, cwd=rdir)
            p2 = subprocess.Popen(dcmd, stdin=p1.stdout, stdout=subprocess.PIPE, stderr=subprocess.PIPE, env=ENV,
                                  cwd=rdir)
            p1.stdout.close()
            try:
                out, se2 = p2.communicate(timeout=TIMEOUT)
                se1 = p1.stderr.read()
                rc1 = p1.wait(timeout=TIMEOUT)
            except subprocess.TimeoutExpired:
                p1.kill()
                p2.kill()
                viol("hang|roundtrip|" + cls, "pipeline did not finish within %d s" % TIMEOUT)
                R.evals += 2
                return
            p1.stderr.close()
        rc2 = p2.returncode
        se1, se2 = se1.decode("utf-8", "replace"), se2.decode("utf-8", "replace")
        R.evals += 2
        got = out
    else:
        rc1, _, se1, to = run_tool(ccmd + [src], cwd=rdir)
        R.evals += 1
        got, rc2, se2 = None, None, ""
        if not to and rc1 in (0, 2):
            comp = src + suffix
            if not os.path.exists(comp) or os.path.exists(src):
                if rc1 == 0:
                    viol("roundtrip-failed|%s|compress-postcondition" % cls,
                         "after a successful xz FILE: target exists=%s, source exists=%s" % (
                             os.path.exists(comp), os.path.exists(src)), se1)
                R.count("roundtrip_skipped_file")
                return
            rc2, _, se2, to2 = run_tool(dcmd + [comp], cwd=rdir)
            R.evals += 1
            if to2:
                viol("hang|roundtrip|" + cls, "xz -d did not finish", se2)
                return
            if os.path.exists(src):
                with open(src, "rb") as f:
                    got = f.read()
        elif to:
            viol("hang|roundtrip|" + cls, "xz did not finish", se1)
            return
    if rc1 < 0 or (rc2 is not None and rc2 < 0):
        viol("crash|roundtrip|%s" % cls, "compressor status %s, decompressor status %s" % (rc1, rc2), se1 + se2)
        return
    if rc1 not in (0, 2):
        R.count("roundtrip_rejected_option_set")      # the tool does not accept this combination
        R.count("roundtrip_rejected_" + cls)
        return
    R.count("roundtrip_accepted")
    R.count("roundtrip_" + cls)
    R.count("roundtrip_via_" + via)
    if dT:
        R.count("T" + dT)
    if plain:
        R.hashes.append(int.from_bytes(hashlib.sha256(hashlib.sha256(plain).digest() + ("|rt|%s|%s|%s" % (
            " ".join(argv), via, dT)).encode()).digest()[:8], "little"))
    if rc2 != 0 or got != plain:
        if got is None:
            d = "xz -d exit %s, no file came back" % rc2
        else:
            fd = first_diff(got, plain)
            d = "xz -d exit %s; got %d bytes, original %d; first difference at %d" % (rc2, len(got), len(plain), fd)
        viol("roundtrip-failed|" + cls, d, se1 + se2)
    if len(R.samples) < 1:
        R.samples.append("#%d roundtrip via %s: xz %s ; xz -d %s on %s(%dB) -> ok" % (
            idx, via, " ".join(argv), " ".join(dopts), pk, len(plain)))


KINDS = {"one": case_one, "sinks": case_sinks, "threads": case_threads, "roundtrip": case_roundtrip,
         "multi": case_multi, "asan": case_asan}


def run_case(E, idx):
    R = Res()
    kind = SCHEDULE[idx % len(SCHEDULE)]
    rng = random.Random("C18:%d:%d" % (E.seed, idx))
    cdir = os.path.join(E.ctx.scratch, "c%d" % idx)
    os.makedirs(cdir)
    try:
        KINDS[kind](E, R, idx, rng, cdir)
    finally:
        shutil.rmtree(cdir, ignore_errors=True)
    R.count("cases_" + kind)
    return R


def sparse_probe(ctx):
    p = os.path.join(ctx.scratch, "sparse.probe")
    with open(p, "wb") as f:
        f.seek((1 << 20) - 1)
        f.write(b"\0")
    st = os.stat(p)
    os.unlink(p)
    return st.st_blocks * 512 < st.st_size, st.st_blocks


def huge_sparse(ctx, E, xz=None, B=None, key=None):
    """One decoded zero run longer than 4 GiB (every 32-bit byte counter on the sparse path wraps): 8 KiB of data, 65 x
    64 MiB of zeros, 8 KiB of data, as concatenated Streams (about 0.6 MiB compressed).  The expected content is known
    analytically; the target is verified by size, head, tail and by reading every extent SEEK_DATA reports."""
    rng = random.Random(ctx.seed ^ 0x5A125E)
    B = B or E.B
    head, tail = rng.randbytes(B) + b"H", b"T" + rng.randbytes(B)
    zeros = bytes(64 << 20)
    xz = xz or E.tool("xz", "rel")

    def comp(data):
        r = subprocess.run([xz, "-0", "-T1", "-c"], input=data, stdout=subprocess.PIPE, stderr=subprocess.PIPE, env=ENV)
        if r.returncode != 0:
            raise RuntimeError("preparing the huge-sparse input failed: %r" % r.stderr[-200:])
        return r.stdout
    blob = comp(head) + comp(zeros) * 65 + comp(tail)
    total = len(head) + 65 * len(zeros) + len(tail)
    d = os.path.join(ctx.scratch, "huge-sparse")
    os.makedirs(d, exist_ok=True)
    free = shutil.disk_usage(d).free
    for how in ("xz-d", "xz-dc-redirect"):
        src = os.path.join(d, "big.xz")
        tgt = os.path.join(d, "big")
        for pth in (src, tgt):
            if os.path.exists(pth):
                os.unlink(pth)
        with open(src, "wb") as f:
            f.write(blob)
        if how == "xz-d":
            r = subprocess.run([xz, "-d", "-T1", src], stdout=subprocess.PIPE, stderr=subprocess.PIPE, env=ENV, timeout=TIMEOUT * 4)
        else:
            with open(tgt, "wb") as out:
                r = subprocess.run([xz, "-dc", "-T1", src], stdout=out, stderr=subprocess.PIPE, env=ENV, timeout=TIMEOUT * 4)
        ctx.evaluations += 1
        ctx.count("huge_sparse_runs")
        problems = []
        if r.returncode != 0:
            problems.append("exit status %d (%s)" % (r.returncode, r.stderr[-200:].decode("utf-8", "replace")))
        if not os.path.exists(tgt):
            problems.append("no target file")
        else:
            st = os.stat(tgt)
            if st.st_size != total:
                problems.append("target has %d bytes, expected %d (difference %d)" % (st.st_size, total, total - st.st_size))
            else:
                with open(tgt, "rb") as f:
                    if f.read(len(head)) != head:
                        problems.append("head differs")
                    f.seek(total - len(tail))
                    if f.read() != tail:
                        problems.append("tail differs")
                    # everything SEEK_DATA reports between head and tail must read as zeros
                    pos, scanned = 0, 0
                    fd = f.fileno()
                    while pos < total and scanned < (1 << 30):
                        try:
                            ds = os.lseek(fd, pos, os.SEEK_DATA)
                        except OSError:
                            break
                        try:
                            he = os.lseek(fd, ds, os.SEEK_HOLE)
                        except OSError:
                            he = total
                        lo, hi = max(ds, len(head)), min(he, total - len(tail))
                        q = lo
                        while q < hi:
                            f.seek(q)
                            chunk = f.read(min(1 << 22, hi - q))
                            scanned += len(chunk)
                            if chunk.count(0) != len(chunk):
                                problems.append("non-zero byte inside the zero run near offset %d" % q)
                                q = hi
                                break
                            q += len(chunk)
                        pos = max(he, pos + 1)
                    if st.st_blocks * 512 < st.st_size:
                        ctx.count("huge_sparse_target_has_holes")
            if how == "xz-d" and os.path.exists(src) and r.returncode == 0:
                problems.append("source not removed after a successful xz -d")
        if problems:
            ctx.violation((key or "size-differs|%s|huge-sparse") % how.split("-redirect")[0],
                          "decoding 8 KiB + 65 x 64 MiB zeros + 8 KiB (%d bytes, one zero run > 4 GiB) with `%s`: %s; free space %d"
                          % (total, "xz -d -T1 big.xz" if how == "xz-d" else "xz -dc -T1 big.xz > big", "; ".join(problems), free),
                          {"how": "concatenate `xz -0 -T1` of 8193 random bytes, 65 copies of `xz -0 -T1` of 64 MiB zeros, 8193 random bytes; %s" % how})
        for pth in (src, tgt):
            if os.path.exists(pth):
                os.unlink(pth)


def run(ctx):
    tools = prepare(ctx.tier)
    E = Env(ctx, tools)
    ctx.rule = RULE
    ctx.assumptions = [
        "the oracle is liblzma's own single-threaded decoder of the same tree driven through the public API by "
        "harness/libdecode.c in 8 KiB pieces (decoder correctness is C02-C06's job, MT == ST is C07's); the tools under "
        "test are the rel flavour (-O2 -DNDEBUG, sandbox active) plus a sample under ASan+UBSan",
        "format selection follows the tool's documented sniffing (xz magic, lzip magic, plausible .lzma header by xz's "
        "own rule) and --format; unsupported check type = warning (exit 2, 0 with -Q); messages are not compared",
        "st_blocks is reported, never asserted; sparse behaviour is judged by content and st_size only",
        "no memory limit is in force (MEM_ERROR/MEMLIMIT_ERROR from the oracle skip the case)",
    ]
    sparse_ok, blocks = sparse_probe(ctx)
    ctx.notes.append("IO_BUFFER_SIZE read from src/xz/file_io.h = %d" % E.B)
    ctx.notes.append("scratch file system %s holes (1 MiB seek+1 byte file occupies %d blocks)" % (
        "supports" if sparse_ok else "DOES NOT support", blocks))
    runs = 1500 if ctx.tier == "quick" else 40000
    ncases = (runs * 16 + RUNS_PER_16 - 1) // RUNS_PER_16
    only = os.environ.get("VERIF_ONLY_CASE")
    idxs = [int(only)] if only not in (None, "") else list(range(ncases))

    def safe(idx):
        try:
            return idx, run_case(E, idx), None
        except Exception as ex:      # harness trouble, not a verdict
            import traceback
            return idx, None, "case %d: %s" % (idx, traceback.format_exc()[-500:])

    with concurrent.futures.ThreadPoolExecutor(max_workers=build.NPROC) as ex:
        for idx, R, err in ex.map(safe, idxs):
            if err:
                ctx.count("harness_errors")
                if len(ctx.inconclusive) < 5:
                    ctx.inconclusive.append("harness error in " + err)
                continue
            ctx.evaluations += R.evals
            for k, v in R.counts.items():
                ctx.count(k, v)
            for h in R.hashes:
                ctx.add_hash(h)
            for s in R.samples:
                if len(ctx.samples) < 12 and (idx % 16 in (0, 1, 3, 5, 11, 15) or len(ctx.samples) < 4):
                    ctx.samples.append(s)
            for key, detail, replay in R.viols:
                ctx.violation(key, detail, replay)
    if only in (None, ""):
        if sparse_ok:
            try:
                huge_sparse(ctx, E)
            except Exception as ex:       # harness trouble, not a verdict
                ctx.inconclusive.append("huge-sparse case: %r" % (ex,))
        c = ctx.counters
        for s in M.ALL_SINKS:
            ctx.require("sink_" + s, c.get("sink_" + s, 0), 20)
        for hcl in ("head", "middle", "tail"):
            ctx.require("hole_" + hcl, c.get("hole_" + hcl, 0), 5)
        for T in ("0", "1", "2", "4"):
            ctx.require("T" + T, c.get("T" + T, 0), 20)
        for cl in ("corrupt", "truncated", "garbage", "concat", "valid"):
            ctx.require("class_" + cl, c.get("class_" + cl, 0), 10)
        for tl in ("xz-dc", "xz-d", "xz-t", "xzdec", "lzmadec"):
            ctx.require("runs_" + tl, c.get("runs_" + tl, 0), 10)
        ctx.require("error_after_output", c.get("error_after_output", 0), 20)
        ctx.require("lib_unsupported_check_warning", c.get("lib_unsupported_check_warning", 0), 1)
        ctx.require("passthru", c.get("passthru", 0), 3)
        ctx.require("roundtrip_accepted", c.get("roundtrip_accepted", 0), 30)
        ctx.require("flavour_asan", c.get("flavour_asan", 0), 10)
        ctx.require("newfile_refused", c.get("newfile_refused", 0), 5)
        if sparse_ok:
            ctx.require("st_blocks_show_a_hole", c.get("st_blocks_show_a_hole", 0), 5)
