"""C15 - BCJ and delta filters are exact inverses, size-preserving and stable."""
import hashlib, os, subprocess

import build

FILTERS = ["delta", "x86", "powerpc", "ia64", "arm", "armthumb", "sparc", "arm64", "riscv"]

# released liblzma binaries used as the second referee (DESIGN.md C15); the
# first one has no RISC-V filter
REF_LIBS = ["/usr/lib/x86_64-linux-gnu/liblzma.so.5.4.1", "/root/miniconda/lib/liblzma.so.5.8.2"]

RULE = ("case = (filter [round-robin over delta + the 8 BCJ filters], start_offset {0, NULL options, small, just below "
        "2^32 so that it wraps inside the buffer, random; always aligned} or delta distance {every 1..256, random}, input "
        "buffer {instruction-dense for the filter: every opcode pattern it recognises, near misses, both endiannesses, stray "
        "bytes shifting the alignment; dense islands inside other data; another architecture's code; random}, three slicing "
        "plans) drawn from PRNG(VERIF_SEED, case index). The filter's encoder output is observed by raw-encoding with "
        "[filter, LZMA2] and decoding with [LZMA2] only, its decoder output by raw-decoding an LZMA2 wrapping of the input "
        "with [filter, LZMA2]; each under one-call, random and (<= 1500 bytes) byte-at-a-time slicing. Compared with the "
        "independent reference transforms (harness/ref/bcj_ref.c), with released liblzma binaries run in an un-sanitized "
        "helper process, with the one-shot lzma_bcj_* functions, and decode(encode(x)) with x. "
        "distinct = hash(input, filter, offset/distance); non-trivial = input >= 16 bytes")

# minimum number of converted instructions (delta: changed bytes) per filter and direction
MIN_CONVERTED = {"quick": 3000, "thorough": 30000}


def build_refhelper():
    """Plain gcc, un-sanitized, dlopen()s the library named on its command line."""
    outdir = os.path.join(build.BUILD, "refhelper")
    os.makedirs(outdir, exist_ok=True)
    out = os.path.join(outdir, "refhelper")
    src = os.path.join(build.VERIF, "harness", "refhelper.c")
    build.src_hash()
    inc = "/usr/include" if os.path.exists("/usr/include/lzma.h") else os.path.join(build.SRC, "src/liblzma/api")
    want = hashlib.sha256(open(src, "rb").read() + inc.encode()).hexdigest()
    stamp = out + ".stamp"
    with build.Lock("refhelper"):
        if os.path.exists(out) and os.path.exists(stamp) and open(stamp).read() == want:
            return out
        build.run(["gcc", "-O2", "-g", "-Wall", "-I" + inc, src, "-ldl", "-o", out])
        open(stamp, "w").write(want)
    return out


def referee_spec():
    """helper:lib:lib string for --extra, and the list of usable libraries."""
    try:
        helper = build_refhelper()
    except build.BuildError:
        return "", []
    libs = []
    for lib in REF_LIBS:
        if not os.path.exists(lib):
            continue
        try:
            # op 4 = version query; a library that cannot be loaded drops out
            rq = bytes([4]) + bytes(23)
            r = subprocess.run([helper, lib], input=rq, stdout=subprocess.PIPE, stderr=subprocess.PIPE, timeout=30, env={})
            if r.returncode == 0 and len(r.stdout) > 8:
                libs.append((lib, r.stdout[8:].decode("ascii", "replace")))
        except (OSError, subprocess.TimeoutExpired):
            pass
    if not libs:
        return "", []
    return ":".join([helper] + [l for l, _ in libs]), libs


def prepare(tier):
    build_refhelper()
    return build.build_harness("asan", "hx_bcj", ["hx_bcj.c", "vh.c", "ref/bcj_ref.c"])


def run(ctx):
    exe = prepare(ctx.tier)
    spec, libs = referee_spec()
    cases = 36000 if ctx.tier == "quick" else 400000
    ctx.rule = RULE
    ctx.assumptions = [
        "gcc ASan+UBSan build with assertions (flavour asan); the one-shot functions run on exact-size heap copies",
        "the reference transforms in harness/ref/bcj_ref.c are whole-buffer re-implementations written from the reference "
        "algorithms (LZMA SDK branch converters, the published ARM64/RISC-V transform descriptions, xz-file-format.txt "
        "5.3.3); they agree with released liblzma 5.4.1 and 5.8.2 on every case of this run, which is checked per case",
        "the LZMA2 stage behind the filter is transparent (it is the subject of C01/C02), so the bytes recovered through "
        "it are the filter's bytes",
        "buffers are <= 64 KiB in the quick tier and <= 4 MiB in the thorough tier",
    ]
    ctx.extra_cov["referees"] = {
        "reference_transforms": "harness/ref/bcj_ref.c",
        "released_libraries": [{"path": l, "version": v} for l, v in libs],
        "released_libraries_missing": [l for l in REF_LIBS if l not in [p for p, _ in libs]],
    }
    if not libs:
        ctx.notes.append("no released liblzma available as second referee: coverage reduced to the reference transforms")
    args = ["--prop", "C15"]
    if spec:
        args += ["--extra", spec]
    # the wall-clock limit is only a safety net against a coder that stops returning (no verdict is taken from it)
    ctx.run_shards(exe, args, cases, timeout=1200 if ctx.tier == "quick" else 6 * 3600)
    c = ctx.counters
    need = MIN_CONVERTED[ctx.tier]
    for f in FILTERS:
        ctx.require("cases_" + f, c.get("cases_" + f, 0), (cases // 9) * 9 // 10)
        ctx.require("converted_enc_" + f, c.get("converted_enc_" + f, 0), need)
        ctx.require("converted_dec_" + f, c.get("converted_dec_" + f, 0), need)
    # the streaming coder's branches (hook H3 counters of simple_coder.c)
    for i, name in enumerate(["flush_pos", "direct", "holdback", "buffered", "end_flush"]):
        ctx.require("simple_" + name, ctx.visit(9, i), 1000)
    ctx.require("delta_dist_1", c.get("delta_dist_1", 0), 5)
    ctx.require("delta_dist_256", c.get("delta_dist_256", 0), 5)
    for b in range(8):
        ctx.require("delta_dist_bucket_%d" % b, c.get("delta_dist_bucket_%d" % b, 0), 100)
    ctx.require("oneshot_cases", c.get("oneshot_cases", 0), 1000)
    ctx.require("misaligned_refused", c.get("misaligned_refused", 0), 1000)
    ctx.require("offset_wraps_inside_buffer", c.get("offset_wraps_inside_buffer", 0), 100)
    for lib, ver in libs:
        got = sum(v for k, v in c.items() if k.startswith("released_%s_" % ver) and "unsupported" not in k and "errors" not in k)
        ctx.extra_cov["referees"]["cases_checked_against_%s" % ver] = got
