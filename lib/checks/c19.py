"""C19 - xz naming, overwrite protection and metadata handling are safe and
invertible.

Runtime monitoring of the real `xz` (flavour `rel`, Landlock sandbox active):
every case builds a scratch directory, runs xz on it (as root or as uid
nobody), snapshots the directory before and after and compares the result
with the reference model lib/models/xz_naming.py (written from xz(1) and the
property statement).  Successful compressions are followed by a real
`xz -d` of the produced name (invertibility).

VERIF_ONLY_CASE=<idx> re-runs exactly one case (verbosely); exit 1 = the
violation reproduced.
"""
import concurrent.futures, hashlib, json, lzma, os, random, shlex, shutil, stat, subprocess, sys

import build
from models import xz_naming as M

RULE = ("case = PRNG(VERIF_SEED, index) -> (privilege root|nobody, operation, format xz|lzma|raw|auto, -S suffix, "
        "flag subset of -k -f -c --no-warn -q -qq -v, 1-2 operands, scratch directory with the main file "
        "(regular/empty/symlink to file|dir|dangling/hard-linked pair/FIFO/directory/missing; mode 0000-7777; random "
        "owner, group, atime/mtime with ns), optional pre-existing target, bystander, second operand); the real xz "
        "(-O2 -DNDEBUG, sandboxed) is run with a clean environment and the directory's lstat/content snapshot, exit "
        "status and stderr are compared with the reference model; every successful compression is followed by a real "
        "`xz -d` of the produced name. evaluations = xz invocations; distinct = hash(main name, kind, mode, flags, "
        "suffix, format, operation, privilege); non-trivial = the main operand existed and xz was run on it")

NOBODY = 65534
BUILTINS = [b".xz", b".txz", b".lzma", b".tlz", b".lz"]
RAW_FILTERS = [{"id": lzma.FILTER_LZMA2, "dict_size": 4096}]
RAW_OPTS = ["--format=raw", "--lzma2=dict=4KiB"]
REFUSALS = ("symlink", "hardlink", "setuid", "setgid", "sticky", "directory", "not-regular",
            "target-exists", "has-suffix", "unknown-suffix")
LIFTABLE = ("symlink", "hardlink", "setuid", "setgid", "sticky")


def prepare(tier):
    return os.path.join(build.build_flavour("rel"), "xz")


# ---------------------------------------------------------------------------
# codecs (python's lzma module = an independent released liblzma)

def py_encode(plain, fmt):
    if fmt == "xz":
        return lzma.compress(plain, format=lzma.FORMAT_XZ, preset=0)
    if fmt == "lzma":
        return lzma.compress(plain, format=lzma.FORMAT_ALONE, preset=0)
    return lzma.compress(plain, format=lzma.FORMAT_RAW, filters=RAW_FILTERS)


def py_decode_all(data, fmt):
    """Decode one or more concatenated streams; raises lzma.LZMAError/EOFError."""
    out = []
    first = True
    while data or first:
        first = False
        if fmt == "raw":
            d = lzma.LZMADecompressor(lzma.FORMAT_RAW, filters=RAW_FILTERS)
        else:
            d = lzma.LZMADecompressor(lzma.FORMAT_AUTO)
        out.append(d.decompress(data))
        if not d.eof:
            raise EOFError("truncated stream")
        data = d.unused_data
    return b"".join(out)


# ---------------------------------------------------------------------------
# case generation

ALNUM = b"abcdefghijklmnopqrstuvwxyzABCDEFGHIJKLMNOPQRSTUVWXYZ0123456789_"
NAMEBYTES = bytes(b for b in range(1, 256) if b != 0x2F)


def tame(rng, lo=1, hi=9):
    return bytes(rng.choice(ALNUM) for _ in range(rng.randint(lo, hi)))


def rbytes(rng, n):
    return bytes(rng.choice(NAMEBYTES) for _ in range(n))


def gen_custom(rng, op, fmt):
    pool = [b".foo", b".x", b".XZ", b".Xz", b".LZMA", b"xz", b"z", b"lzma", b"zma", b"tlz", b"txz", b"lz", b"a",
            b"-suf", b".", b".xz", b".lzma", b".txz", b".tlz", b".lz", b".tar.xz", b".bak.lzma", b"a.txz", b"x.lz",
            b".raw", b".lzma2", b" ", b"\xff", b".\xe4\xf6", b".t", b"..xz"]
    r = rng.random()
    if r < 0.80:
        return rng.choice(pool)
    if r < 0.9:
        return rbytes(rng, rng.randint(1, 6))
    return b"." + tame(rng, 10, 30)


def spelled_prefixes(custom):
    """name endings p such that p + custom is a built-in suffix longer than custom"""
    out = []
    if custom:
        for b in BUILTINS:
            if b.endswith(custom) and len(b) > len(custom):
                out.append(b[:len(b) - len(custom)])
    return out


def gen_stem(rng):
    r = rng.random()
    if r < 0.40:
        return tame(rng)
    if r < 0.50:
        return tame(rng) + b".tar"
    if r < 0.56:
        return b"." + tame(rng)
    if r < 0.62:
        return b"-" + tame(rng, 0, 6)
    if r < 0.66:
        return rng.choice([b"--force", b"-k", b"-S.xz", b"--", b"-d", b"--suffix=", b"-c"])
    if r < 0.76:
        return rbytes(rng, rng.randint(1, 24))
    if r < 0.84:
        return tame(rng, 0, 4) + rng.choice([b"\xff", b"\x80\x81", b"\xc3", b"\xe4\xf6\xfc", b"\xf0\x28\x8c\x28"]) \
            + tame(rng, 0, 4)
    if r < 0.88:
        return rng.choice([b" ", b"a b", b"a\nb", b"*", b"$(x)", b"`x`", b"a\\b", b"\t", b"'q'", b"\x01\x1b[31m"])
    if r < 0.92:
        return rng.choice([b".", b"..", b"...", b"x.", b".."]) + tame(rng, 0, 3)
    return tame(rng) + rng.choice([b".txt", b".c", b".gz", b".t", b".x", b".l", b".tar.gz"])


def gen_name(rng, op, fmt, custom):
    """-> (name, class)"""
    sufs = list(BUILTINS) + ([custom] if custom else [])
    r = rng.random()
    if op == "decompress":
        weights = (("ends", 0.62), ("only", 0.06), ("case", 0.05), ("near", 0.07), ("plain", 0.12), ("long", 0.08))
    else:
        weights = (("plain", 0.40), ("ends", 0.16), ("only", 0.06), ("case", 0.04), ("near", 0.08), ("spell", 0.16),
                   ("long", 0.10))
    acc, cls = 0.0, weights[-1][0]
    for c, w in weights:
        acc += w
        if r < acc:
            cls = c
            break
    if op == "compress" and spelled_prefixes(custom) and rng.random() < 0.35:
        cls = "spell"
    if cls == "spell" and not spelled_prefixes(custom):
        cls = "plain"
    if cls == "plain":
        name = gen_stem(rng)
    elif cls == "ends":
        if op == "decompress" and custom and rng.random() < 0.35:
            s = custom
        elif op == "compress" and rng.random() < 0.6:
            s = rng.choice(list(M.FORMAT_SUFFIXES[fmt]) + ([custom] if custom else []) or sufs)
        else:
            s = rng.choice(sufs)
        name = gen_stem(rng) + s
        if rng.random() < 0.08:
            name = name + rng.choice(sufs)          # double suffix
    elif cls == "only":
        name = rng.choice(sufs)
        if rng.random() < 0.2:
            name = name + rng.choice(sufs)
    elif cls == "case":
        s = rng.choice(sufs)
        name = gen_stem(rng) + bytes(rng.choice([c, c ^ 0x20]) if chr(c).isalpha() else c for c in s.upper())
    elif cls == "near":
        name = gen_stem(rng) + rng.choice([b"xz", b".x", b".xzz", b".xz ", b".xz.", b"lzma", b".lzm", b".tx", b".tl",
                                           b".lz2", b"txz", b".z", b"."])
    elif cls == "spell":
        name = gen_stem(rng) + rng.choice(spelled_prefixes(custom))
    else:
        total = rng.randint(240, 255)
        s = rng.choice(sufs + [b""]) if op == "decompress" or rng.random() < 0.3 else b""
        body = tame(rng, 1, 1) if rng.random() < 0.7 else rbytes(rng, 1)
        name = (gen_stem(rng) + body * 255)[:max(1, total - len(s))] + s
    name = name.replace(b"/", b"_").replace(b"\0", b"_")[:255]
    if name in (b"", b".", b".."):
        name = b"n" + name
    return name, cls


def gen_mode(rng, priv, special_idx):
    r = rng.random()
    if r < 0.45:
        m = rng.choice([0o644, 0o600, 0o755, 0o640, 0o444, 0o664, 0o666, 0o604, 0o660, 0o400, 0o700])
    elif r < 0.72:
        m = rng.randrange(0o1000)
    else:
        m = (special_idx % 7 + 1) << 9 | rng.choice([0o644, 0o755, 0o600, rng.randrange(0o1000), 0o555, 0o711])
    if priv == "nobody" and rng.random() < 0.7:
        m |= 0o444      # keep most files readable for the unprivileged runs
    return m


def gen_owner(rng, priv):
    if priv == "root":
        return rng.choice([0, 0, 1000, NOBODY, 12345]), rng.choice([0, 0, 1000, NOBODY, 12345, 54321])
    r = rng.random()
    if r < 0.50:
        return NOBODY, NOBODY
    if r < 0.68:
        return NOBODY, rng.choice([12345, 0, 1000])
    if r < 0.84:
        return rng.choice([0, 1000]), rng.choice([0, 1000, NOBODY])
    return 0, NOBODY


def gen_time(rng):
    sec = rng.choice([0, 1, rng.randrange(0, 2**31), rng.randrange(2**31, 2**32 + 10**8), rng.randrange(10**9, 2 * 10**9)])
    ns = rng.choice([0, 1, 999999999, rng.randrange(10**9), rng.randrange(10**9)])
    return sec * 10**9 + ns


def gen_plain(rng):
    r = rng.random()
    if r < 0.1:
        return b""
    if r < 0.6:
        return (b"The quick brown fox %d\n" % rng.randrange(10**6)) * rng.randint(1, 40)
    return rng.randbytes(rng.randint(1, 3000))


def gen_case(seed, idx, can_drop):
    rng = random.Random("C19:%d:%d" % (seed, idx))
    c = {"idx": idx}
    c["priv"] = "nobody" if (can_drop and rng.random() < 0.38) else "root"
    c["op"] = op = "compress" if rng.random() < 0.56 else "decompress"
    if op == "compress":
        c["fmt"] = fmt = rng.choices(["xz", "lzma", "raw"], [50, 30, 20])[0]
        c["content_fmt"] = None
    else:
        c["fmt"] = fmt = rng.choices(["auto", "xz", "lzma", "raw"], [50, 15, 15, 20])[0]
        c["content_fmt"] = fmt if fmt != "auto" else rng.choice(["xz", "lzma"])
    fl = {"k": rng.random() < 0.30, "f": rng.random() < 0.30, "c": rng.random() < 0.13,
          "no_warn": rng.random() < 0.25, "q": rng.choices([0, 1, 2], [60, 25, 15])[0], "v": rng.random() < 0.15}
    c["flags"] = fl
    need_custom = fmt == "raw" and not (rng.random() < 0.06)
    c["custom"] = custom = gen_custom(rng, op, fmt) if (need_custom or (fmt != "raw" and rng.random() < 0.40)) else None
    c["suffix_style"] = rng.choice(["S", "S", "long", "joined"])
    c["style"] = rng.choice(["dd", "dd", "dot", "abs"])
    c["spell"] = {k: rng.randrange(3) for k in ("k", "f", "c", "nw", "d", "fmt")}
    c["extra"] = []
    if op == "compress" and fmt != "raw":
        c["extra"] = rng.choice([["-0"], ["-0"], ["-1"], ["-T1", "-0"], ["-T2", "-0"], ["-0", "--no-sync"], []])

    name, ncls = gen_name(rng, op, fmt, custom)
    c["name_class"] = ncls
    kind = rng.choices(["reg", "empty", "lnk-file", "lnk-dir", "lnk-dangling", "hard", "fifo", "dir", "missing"],
                       [46, 6, 11, 3, 3, 11, 5, 6, 2])[0]
    if kind == "fifo" and fl["c"]:
        kind = "reg"            # xz --stdout on a FIFO without a writer waits for input by design
    c["kind"] = kind
    files = []
    uid, gid = gen_owner(rng, c["priv"])
    mode = gen_mode(rng, c["priv"], idx + rng.randrange(7))
    plain = b"" if kind == "empty" else gen_plain(rng)
    coded = "plain"
    if op == "decompress":
        coded = c["content_fmt"]
        r = rng.random()
        if r < 0.04:
            coded = "garbage"
        elif r < 0.06:
            coded = "zero-length"
        elif r < 0.09:
            coded = "truncated"
    base = {"mode": mode, "uid": uid, "gid": gid, "atime_ns": gen_time(rng), "mtime_ns": gen_time(rng),
            "plain": plain, "coded": coded}

    def reg(nm, **over):
        e = dict(base)
        e.update({"name": nm, "kind": "reg"})
        e.update(over)
        return e

    helper = b"pt_" + tame(rng, 3, 6)
    if kind in ("reg", "empty"):
        files.append(reg(name))
    elif kind == "hard":
        files.append(reg(name))
        files.append({"name": None, "kind": "hard", "of": name})        # sibling name decided below
    elif kind == "lnk-file":
        files.append(reg(helper))
        files.append({"name": name, "kind": "lnk", "link": helper})
        if rng.random() < 0.25:
            files.append({"name": b"pt2_" + tame(rng, 3, 5), "kind": "hard", "of": helper})
    elif kind == "lnk-dir":
        files.append({"name": helper, "kind": "dir", "mode": 0o755, "uid": uid, "gid": gid})
        files.append({"name": name, "kind": "lnk", "link": helper})
    elif kind == "lnk-dangling":
        files.append({"name": name, "kind": "lnk", "link": helper})
    elif kind == "fifo":
        files.append({"name": name, "kind": "fifo", "mode": mode & 0o777 | 0o444, "uid": uid, "gid": gid})
    elif kind == "dir":
        files.append({"name": name, "kind": "dir", "mode": rng.choice([0o755, 0o700, 0o1777, 0o755]), "uid": uid,
                      "gid": gid})

    # where would the target be?  (for obstacles; the verdict uses the model on the real snapshot)
    if op == "compress":
        tn = M.compress_name(name, fmt, custom) if M.suffix_usable(fmt, custom, False) else ("skip",)
    else:
        tn = M.decompress_name(name, fmt, custom)
    target = tn[1] if tn[0] == "target" and len(tn[1]) <= 255 and tn[1] not in (b".", b"..") else None
    used = {f["name"] for f in files if f["name"]}
    for f in files:
        if f["kind"] == "hard" and f["name"] is None:
            if target and target not in used and rng.random() < 0.15:
                f["name"] = target          # the other link IS the would-be target
            else:
                f["name"] = b"hl_" + tame(rng, 3, 6)
            used.add(f["name"])
    if target and target not in used and rng.random() < 0.27:
        ok = rng.choices(["reg", "empty", "lnk-file", "lnk-dangling", "dir"], [50, 10, 15, 10, 15])[0]
        ou, og = gen_owner(rng, c["priv"])
        ob = {"mode": rng.choice([0o644, 0o600, 0o444, 0o000, 0o4755, 0o666]), "uid": ou, "gid": og,
              "atime_ns": gen_time(rng), "mtime_ns": gen_time(rng), "plain": b"OLD TARGET %d\n" % rng.randrange(10**6),
              "coded": "plain"}
        if ok == "reg":
            files.append(dict(ob, name=target, kind="reg"))
        elif ok == "empty":
            files.append(dict(ob, name=target, kind="reg", plain=b""))
        elif ok == "lnk-file":
            files.append(dict(ob, name=b"obpt_" + tame(rng, 3, 5), kind="reg"))
            files.append({"name": target, "kind": "lnk", "link": files[-1]["name"]})
        elif ok == "lnk-dangling":
            files.append({"name": target, "kind": "lnk", "link": b"nowhere_" + tame(rng, 2, 4)})
        else:
            files.append({"name": target, "kind": "dir", "mode": 0o755, "uid": ou, "gid": og})
        c["obstacle"] = ok
        used.add(target)
    if rng.random() < 0.30:
        bu, bg = gen_owner(rng, c["priv"])
        files.append({"name": b"by_" + tame(rng, 3, 6), "kind": "reg", "mode": rng.randrange(0o10000), "uid": bu,
                      "gid": bg, "atime_ns": gen_time(rng), "mtime_ns": gen_time(rng),
                      "plain": b"bystander %d\n" % rng.randrange(10**6), "coded": "plain"})
    operands = [name]
    if rng.random() < 0.30:
        ak = rng.choices(["ok", "dir", "missing"], [50, 25, 25])[0]
        an = b"aux_" + tame(rng, 3, 6)
        au, ag = (NOBODY, NOBODY) if c["priv"] == "nobody" else (0, 0)
        if ak == "ok":
            if op == "decompress":
                an += (custom if (fmt == "raw" and custom) else rng.choice([b".xz", b".lzma"]))
            files.append({"name": an, "kind": "reg", "mode": 0o644, "uid": au, "gid": ag, "atime_ns": gen_time(rng),
                          "mtime_ns": gen_time(rng), "plain": b"aux %d\n" % rng.randrange(10**6),
                          "coded": c["content_fmt"] if op == "decompress" else "plain"})
        elif ak == "dir":
            files.append({"name": an, "kind": "dir", "mode": 0o755, "uid": au, "gid": ag})
        c["aux"] = ak
        if rng.random() < 0.5:
            operands.append(an)
        else:
            operands.insert(0, an)
    # drop accidental duplicates (keep first definition of a name)
    seen, uniq = set(), []
    for f in files:
        if f["name"] in seen:
            continue
        seen.add(f["name"])
        uniq.append(f)
    c["files"] = uniq
    c["operands"] = operands
    c["main"] = name
    return c


def jsonable(x):
    if isinstance(x, bytes):
        return {"bytes_hex": x.hex(), "repr": repr(x)[:80]}
    if isinstance(x, dict):
        return {(k if isinstance(k, str) else repr(k)): jsonable(v) for k, v in x.items()}
    if isinstance(x, (list, tuple, set)):
        return [jsonable(v) for v in x]
    return x


# ---------------------------------------------------------------------------
# scratch directory

def file_bytes(f):
    coded = f["coded"]
    plain = f["plain"]
    if coded == "plain":
        return plain, None
    if coded == "garbage":
        return b"\x03\x07\x07\x07\x07" + plain + b"garbage", ("unrecognized",)
    if coded == "zero-length":
        return b"", ("unrecognized",)
    if coded == "truncated":
        data = py_encode(plain + b"some more bytes so that the stream is not tiny", f.get("tfmt", "xz"))
        return data[:max(1, len(data) - 7)], ("corrupt",)
    return py_encode(plain, coded), ("ok", plain)


def populate(case, d, registry):
    """Create the files of the case under directory d (bytes path)."""
    made = {}
    for f in case["files"]:
        p = d + b"/" + f["name"]
        k = f["kind"]
        if k == "reg":
            ff = dict(f)
            ff["tfmt"] = case["content_fmt"] or "xz"
            data, meaning = file_bytes(ff)
            if meaning is not None:
                registry[hashlib.sha1(data).digest()] = meaning
            with open(p, "wb") as fh:
                fh.write(data)
        elif k == "dir":
            os.mkdir(p)
        elif k == "fifo":
            os.mkfifo(p)
        elif k == "hard":
            os.link(d + b"/" + f["of"], p)
        elif k == "lnk":
            os.symlink(f["link"], p)
        made[f["name"]] = f
    for f in case["files"]:
        p = d + b"/" + f["name"]
        if f["kind"] in ("reg", "dir", "fifo"):
            os.chown(p, f["uid"], f["gid"])
            os.chmod(p, f["mode"])
            if "mtime_ns" in f:
                os.utime(p, ns=(f["atime_ns"], f["mtime_ns"]))
    # hard links were created before the metadata was applied: fine, same inode


def snapshot(d):
    out = {}
    for n in os.listdir(d):
        p = d + b"/" + n
        st = os.lstat(p)
        e = {"mode": stat.S_IMODE(st.st_mode), "uid": st.st_uid, "gid": st.st_gid, "nlink": st.st_nlink,
             "size": st.st_size, "atime_ns": st.st_atime_ns, "mtime_ns": st.st_mtime_ns, "ino": st.st_ino,
             "link": None, "data": None}
        if stat.S_ISREG(st.st_mode):
            e["kind"] = "reg"
            fd = os.open(p, os.O_RDONLY | os.O_NOATIME | os.O_NONBLOCK)
            try:
                chunks = []
                while True:
                    b = os.read(fd, 1 << 20)
                    if not b:
                        break
                    chunks.append(b)
                e["data"] = b"".join(chunks)
            finally:
                os.close(fd)
        elif stat.S_ISDIR(st.st_mode):
            e["kind"] = "dir"
        elif stat.S_ISLNK(st.st_mode):
            e["kind"] = "lnk"
            e["link"] = os.readlink(p)
        elif stat.S_ISFIFO(st.st_mode):
            e["kind"] = "fifo"
        else:
            e["kind"] = "other"
        out[n] = e
    return out


def to_state(snap):
    state = M.Dir()
    by_ino = {}
    for n, e in snap.items():
        ino = by_ino.get(e["ino"])
        if ino is None:
            ino = M.Inode(e["ino"], e["kind"], e["mode"], e["uid"], e["gid"], e["atime_ns"], e["mtime_ns"],
                          data=e["data"], link=e["link"])
            by_ino[e["ino"]] = ino
        state.names[n] = ino
    return state


def brief_entry(n, e):
    s = "%r: %s mode=%04o uid=%d gid=%d nlink=%d size=%d mtime=%d atime=%d ino=%d" % (
        n, e["kind"], e["mode"], e["uid"], e["gid"], e["nlink"], e["size"], e["mtime_ns"], e["atime_ns"], e["ino"])
    if e["link"] is not None:
        s += " -> %r" % e["link"]
    if e["data"] is not None:
        s += " sha1=" + hashlib.sha1(e["data"]).hexdigest()[:12]
    return s


def show_snap(snap):
    return "\n".join("    " + brief_entry(n, snap[n]) for n in sorted(snap)) or "    (empty)"


# ---------------------------------------------------------------------------
# running xz

def operand_path(style, d, name):
    if style == "abs":
        return d + b"/" + name
    if style == "dot" or name == b"-":
        return b"./" + name
    return name


def build_argv(xz, case, d, op, fmt, custom, flags, operands, extra):
    sp = case["spell"]
    a = [xz.encode()]
    if op == "decompress":
        a.append([b"-d", b"--decompress", b"--uncompress"][sp["d"]])
    elif sp["d"] == 2:
        a.append(b"-z")
    if fmt == "raw":
        a += [x.encode() for x in RAW_OPTS]
    elif fmt in ("xz", "lzma"):
        if op == "compress" and fmt == "xz" and sp["fmt"] == 0:
            pass
        elif sp["fmt"] == 1:
            a += [b"-F", fmt.encode()]
        else:
            a.append(b"--format=" + fmt.encode())
    a += [x.encode() for x in extra]
    if custom is not None:
        if case["suffix_style"] == "S":
            a += [b"-S", custom]
        elif case["suffix_style"] == "joined":
            a.append(b"-S" + custom)
        else:
            a.append(b"--suffix=" + custom)
    if flags["k"]:
        a.append([b"-k", b"--keep", b"-k"][sp["k"]])
    if flags["f"]:
        a.append([b"-f", b"--force", b"-f"][sp["f"]])
    if flags["c"]:
        a.append([b"-c", b"--stdout", b"--to-stdout"][sp["c"]])
    if flags["no_warn"]:
        a.append([b"-Q", b"--no-warn", b"-Q"][sp["nw"]])
    if flags["q"] == 1:
        a.append(b"-q")
    elif flags["q"] == 2:
        a += [b"-qq"] if sp["k"] else [b"--quiet", b"-q"]
    if flags["v"]:
        a.append(b"-v")
    paths = [operand_path(case["style"], d, n) for n in operands]
    if case["style"] == "dd" or any(p.startswith(b"-") for p in paths):
        a.append(b"--")
    a += paths
    return a, paths


def run_xz(argv, d, priv):
    kw = {}
    if priv == "nobody":
        kw = {"user": NOBODY, "group": NOBODY, "extra_groups": []}
    try:
        r = subprocess.run(argv, cwd=d, env={"LC_ALL": "C"}, stdin=subprocess.DEVNULL, stdout=subprocess.PIPE,
                           stderr=subprocess.PIPE, timeout=25, **kw)
        return r.returncode, r.stdout, r.stderr
    except subprocess.TimeoutExpired as ex:
        return None, ex.stdout or b"", ex.stderr or b""


def sh(argv):
    return " ".join(shlex.quote(x.decode("utf-8", "surrogateescape")) if isinstance(x, bytes) else shlex.quote(x)
                    for x in argv).encode("utf-8", "surrogateescape").decode("utf-8", "backslashreplace")


# ---------------------------------------------------------------------------
# comparison of one xz run with the model

def entry_diff(e, p, exp):
    """fields of a 'same' expectation that differ"""
    ino = exp.inode
    diffs = []
    if p["ino"] != ino.ident:
        diffs.append("inode")
    if p["kind"] != ino.kind:
        diffs.append("kind")
    if p["mode"] != ino.mode:
        diffs.append("mode %04o->%04o" % (ino.mode, p["mode"]))
    if p["uid"] != ino.uid or p["gid"] != ino.gid:
        diffs.append("owner")
    if p["mtime_ns"] != ino.mtime_ns:
        diffs.append("mtime")
    if exp.attrs.get("atime_strict") and p["atime_ns"] != ino.atime_ns:
        diffs.append("atime")
    if p["data"] != ino.data:
        diffs.append("content")
    if p["link"] != ino.link:
        diffs.append("link")
    if ino.kind == "reg" and p["nlink"] not in exp.attrs.get("nlink_allowed", ()):
        diffs.append("nlink %s->%d" % (exp.attrs.get("nlink"), p["nlink"]))
    return diffs


def refusal_key(o, target_touched):
    if o.reason in REFUSALS and o.reason != "target-exists":
        return "refusal-missed|" + o.reason
    if o.reason == "target-exists" and target_touched:
        return "overwrite-without-force"
    return "modified-despite-error|" + str(o.reason)


def compare(inv, flags, pre, post, pred, rc, out, err, registry):
    """-> list of (key, detail)"""
    V = []
    tag = "%s|%s" % (inv.op, inv.fmt)
    # exit status -----------------------------------------------------------
    if rc is None:
        V.append(("hang|" + tag, "xz did not finish within 25 s"))
        return V
    if rc < 0:
        V.append(("killed-by-signal|%d" % -rc, "xz died with signal %d" % -rc))
    elif rc not in pred.statuses:
        V.append(("exit-status|expected=%s|got=%d" % ("/".join(str(s) for s in sorted(pred.statuses)), rc),
                  "model outcomes: " + "; ".join("%r: %s(%s%s)" % (o.path, o.result, o.reason,
                                                                    "+" + "+".join(o.also) if o.also else "")
                                                 for o in pred.outcomes)))
    if pred.diagnostic and flags["q"] == 0 and not err.strip():
        why = [o.reason for o in pred.outcomes if o.result != "ok"]
        V.append(("no-diagnostic|" + str(why[0] if why else "?"), "a warning/error condition occurred, stderr is empty"))

    new_names = [n for n in post if n not in pre]
    explained = set()
    # per operand -----------------------------------------------------------
    for o in pred.outcomes:
        S = o.src_name
        if o.result == "ok" and o.target is not None:
            T = o.target
            exp = pred.final[T]
            p = post.get(T)
            if p is None or (T in pre and p["ino"] == pre[T]["ino"] and p["data"] == pre[T]["data"]
                             and p["mtime_ns"] == pre[T]["mtime_ns"] and p["kind"] == pre[T]["kind"]
                             and p["link"] == pre[T]["link"]):
                stray = [n for n in new_names if n not in pred.final]
                explained.update(stray)
                V.append(("target-name|" + tag, "expected target %r %s; new names observed: %r" % (
                    T, "is missing" if p is None else "was not rewritten", stray)))
            else:
                a = exp.attrs
                if p["kind"] != "reg":
                    V.append(("target-not-regular|" + tag, "%r is %s" % (T, p["kind"])))
                else:
                    kind, want = a["payload"]
                    if kind == "data":
                        if p["data"] != want:
                            V.append(("target-content|" + tag, "%r: %d bytes, expected %d bytes (sha1 %s vs %s)" % (
                                T, len(p["data"]), len(want), hashlib.sha1(p["data"]).hexdigest()[:12],
                                hashlib.sha1(want).hexdigest()[:12])))
                    else:
                        try:
                            got = py_decode_all(p["data"], inv.fmt)
                        except (lzma.LZMAError, EOFError) as ex:
                            got = None
                            V.append(("target-content|" + tag, "%r does not decode: %s" % (T, ex)))
                        if got is not None and got != want:
                            V.append(("target-content|" + tag, "%r decodes to %d bytes, source had %d" % (
                                T, len(got), len(want))))
                        if got is not None:
                            registry[hashlib.sha1(p["data"]).digest()] = ("ok", got)
                m = p["mode"]
                srcm = a["source_mode"]
                if m & 0o7000:
                    V.append(("special-bits-on-target", "%r has mode %04o (source %04o)" % (T, m, srcm)))
                elif m & ~(srcm & 0o777):
                    V.append(("mode-broader-than-source", "%r has mode %04o, source %04o" % (T, m, srcm)))
                elif o.group_failed and (m & ~a["mode"]):
                    V.append(("mode-not-restricted|group-not-copied",
                              "%r has mode %04o, source %04o gid %d could not be copied: at most %04o" % (
                                  T, m, srcm, pre_gid(pre, o), a["mode"])))
                elif m != a["mode"]:
                    V.append(("mode-not-copied", "%r has mode %04o, expected %04o (source %04o)" % (T, m, a["mode"], srcm)))
                if p["uid"] != a["uid"]:
                    V.append(("owner-not-copied", "%r uid %d, expected %d" % (T, p["uid"], a["uid"])))
                if p["gid"] != a["gid"]:
                    V.append(("group-not-copied", "%r gid %d, expected %d" % (T, p["gid"], a["gid"])))
                bad = [w for w in ("mtime_ns", "atime_ns") if p[w] != a[w]]
                if bad:
                    V.append(("timestamps-not-copied|" + "+".join(b[:5] for b in bad), "%r: %s" % (T, ", ".join(
                        "%s %d expected %d" % (w, p[w], a[w]) for w in bad))))
            if inv.keep:
                if S not in post:
                    V.append(("source-removed-with-keep", "%r is gone after xz --keep" % S))
            elif S in post and S in pre and pred.final.get(S) is None:
                V.append(("source-not-removed", "%r still exists after successful processing without --keep" % S))
        elif o.result == "ok":
            if S in pre and S not in post:
                V.append(("source-removed-with-stdout", "%r is gone after xz --stdout" % S))
        else:
            ev = []
            if S in pre and S not in post:
                ev.append("source %r removed" % S)
            if o.pointee and o.pointee in pre and o.pointee not in post:
                ev.append("link target %r removed" % o.pointee)
            if o.target is not None and o.target in pre:
                tp = post.get(o.target)
                te = pred.final.get(o.target)
                if tp is None and te is not None and te.how == "same-or-absent":
                    pass        # --force deleted the old target before the input turned out to be undecodable
                elif tp is None:
                    ev.append("existing target %r removed" % o.target)
                elif tp["ino"] != pre[o.target]["ino"] or tp["data"] != pre[o.target]["data"] \
                        or tp["mtime_ns"] != pre[o.target]["mtime_ns"] or tp["mode"] != pre[o.target]["mode"] \
                        or tp["link"] != pre[o.target]["link"]:
                    ev.append("existing target %r changed" % o.target)
            stray = [n for n in new_names if n not in pred.final]
            if stray and (len(pred.outcomes) == 1 or not o.src_name.startswith(b"aux_")):
                ev.append("new file(s) %r" % stray)
                explained.update(stray)
            if ev:
                V.append((refusal_key(o, any("existing target" in x for x in ev)), "operand %r should have been %s (%s): %s" % (
                    o.path, "skipped with a warning" if o.result == "skip" else "rejected", o.reason, "; ".join(ev))))

    # every name ---------------------------------------------------------------
    for n in sorted(set(pred.final) | set(post)):
        exp = pred.final.get(n)
        p = post.get(n)
        if exp is None and p is not None:
            if n in pre:
                continue        # reported as source-not-removed above
            if n not in explained:
                V.append(("unexpected-file|" + tag, "%r appeared: %s" % (n, brief_entry(n, p))))
            continue
        if exp is not None and p is None:
            if exp.how in ("new", "same-or-absent"):
                continue        # new: reported as target-name
            o = pred.outcomes[exp.operand] if exp.operand is not None else None
            if exp.role == "source" and o is not None and (o.result != "ok" or o.target is not None):
                continue        # reported above
            if exp.role == "existing-target" and o is not None and o.reason == "target-exists":
                continue
            V.append(("skipped-file-modified|%s-removed" % exp.role, "%r (%s) disappeared" % (n, exp.role)))
            continue
        if exp.how in ("same", "same-or-absent"):
            diffs = entry_diff(n, p, exp)
            if diffs:
                o = pred.outcomes[exp.operand] if exp.operand is not None else None
                if exp.role == "existing-target" and o is not None and o.reason == "target-exists":
                    if not any(v[0] == "overwrite-without-force" for v in V):
                        V.append(("overwrite-without-force", "%r changed: %s" % (n, ", ".join(diffs))))
                else:
                    V.append(("skipped-file-modified|" + exp.role, "%r (%s) changed: %s" % (n, exp.role, ", ".join(diffs))))

    # standard output ----------------------------------------------------------------
    if inv.stdout and rc in (0, 2) and all(o.result == "ok" or o.stdout is None for o in pred.outcomes) \
            and not any(o.reason == "special-to-stdout" for o in pred.outcomes):
        want = b"".join(x[1] for x in pred.stdout)
        if inv.op == "decompress" or all(x[0] == "data" for x in pred.stdout):
            got = out
        else:
            try:
                got = py_decode_all(out, inv.fmt) if out else b""
            except (lzma.LZMAError, EOFError) as ex:
                got = None
                V.append(("stdout-content|" + tag, "standard output does not decode: %s" % ex))
        if got is not None and got != want:
            V.append(("stdout-content|" + tag, "standard output carries %d bytes of data, expected %d" % (len(got), len(want))))
    return V


def pre_gid(pre, o):
    e = pre.get(o.pointee or o.src_name)
    return e["gid"] if e else -1


# ---------------------------------------------------------------------------
# one case

class CaseResult:
    def __init__(self):
        self.evals = 0
        self.viol = []          # (key, detail, how, casejson)
        self.counts = {}
        self.hash = None
        self.sample = None
        self.log = []

    def count(self, k, n=1):
        self.counts[k] = self.counts.get(k, 0) + n


def one_step(xz, case, d, res, registry, op, fmt, custom, flags, operands, extra, label):
    """Run xz once and compare.  Returns (pred, post, violations, text)."""
    pre = snapshot(d)
    argv, paths = build_argv(xz, case, d, op, fmt, custom, flags, operands, extra)
    priv = case["priv"]
    euid = 0 if priv == "root" else NOBODY
    inv = M.Invocation(op, fmt, custom, flags["k"] or flags["c"], flags["f"], flags["c"], flags["no_warn"], paths,
                       euid=euid, egid=euid, groups=())

    def decode(data, f):
        r = registry.get(hashlib.sha1(data).digest())
        if r is not None:
            return r
        try:
            return ("ok", py_decode_all(data, f))
        except (lzma.LZMAError, EOFError):
            return ("corrupt",)

    counter = [0]

    def new_ident():
        counter[0] += 1
        return "new%d" % counter[0]

    # the model works on names relative to the directory; give it the dir entry
    # names by stripping the directory part it was passed with
    pred = M.simulate(to_state(pre), inv, decode, new_ident)
    rc, out, err = run_xz(argv, d, priv)
    res.evals += 1
    post = snapshot(d)
    V = compare(inv, flags, pre, post, pred, rc, out, err, registry)
    text = ("[%s] as %s, cwd=<case dir>: %s\n  before:\n%s\n  exit status %s (model accepts %s); stderr: %s\n"
            "  model: %s\n  after:\n%s\n  model's final directory: %s\n" % (
                label, priv, sh(argv), show_snap(pre), rc, sorted(pred.statuses),
                err.decode("utf-8", "backslashreplace").strip()[:600] or "(empty)",
                "; ".join("%r -> %s/%s%s target=%r lifted=%s" % (o.path, o.result, o.reason,
                                                                  ("+" + "+".join(o.also)) if o.also else "",
                                                                  o.target, o.lifted) for o in pred.outcomes),
                show_snap(post),
                ", ".join("%r:%s(%s)" % (n, e.how, e.role) for n, e in sorted(pred.final.items()))))
    return inv, pred, pre, post, rc, V, text


def run_case(xz, seed, idx, scratch, can_drop, tier, verbose=False):
    res = CaseResult()
    case = gen_case(seed, idx, can_drop)
    d = os.path.join(scratch, "c%d" % idx).encode()
    os.mkdir(d)
    os.chmod(d, 0o777)
    registry = {}
    try:
        populate(case, d, registry)
        fl = case["flags"]
        inv, pred, pre, post, rc, V, text = one_step(xz, case, d, res, registry, case["op"], case["fmt"],
                                                     case["custom"], fl, case["operands"], case["extra"], "step 1")
        texts = [text]
        main_o = [o for o in pred.outcomes if o.src_name == case["main"]][0]
        account(res, case, pred, main_o, rc, pre)
        # invertibility ------------------------------------------------------------
        if not V and case["op"] == "compress" and not fl["c"] and main_o.result == "ok" and main_o.target:
            N, T = case["main"], main_o.target
            path = operand_path(case["style"], d, N)
            info = M.inversion(path, case["fmt"], case["custom"])
            if N in post:
                os.unlink(d + b"/" + N)         # kept source (or kept symlink): make room for the way back
            f2 = {"k": False, "f": False, "c": False, "no_warn": False, "q": 0, "v": False}
            fmt2 = "raw" if case["fmt"] == "raw" else ("auto" if idx % 3 else case["fmt"])
            inv2, pred2, pre2, post2, rc2, V2, text2 = one_step(xz, case, d, res, registry, "decompress", fmt2,
                                                                case["custom"], f2, [T], [], "step 2 (way back)")
            texts.append(text2)
            res.count("invert_runs")
            back = [n for n in post2 if n not in pre2]
            o2 = pred2.outcomes[0]
            cls = "custom=%s|target-ends-in=%s" % (
                "none" if case["custom"] is None else ("dotted" if case["custom"].startswith(b".") else "dot-less"),
                next((b.decode() for b in BUILTINS if M.carries(T, b)), "none"))
            if o2.result != "ok":
                res.count("invert_blocked_" + str(o2.reason))       # e.g. unreadable for uid nobody
            elif info["invertible"]:
                res.count("invert_expected_identity")
                if back != [N] and not V2:
                    V2.append(("not-invertible|" + cls, "%r -> %r -> %r" % (N, T, back)))
                elif back != [N]:
                    V2.insert(0, ("not-invertible|" + cls, "%r -> %r -> %r" % (N, T, back)))
            elif info["exception"] == "documented":
                res.count("invert_exception_documented")
                res.count("invert_exception_via_" + info["builtin"].decode())
                if back == [N]:
                    res.count("invert_exception_but_identity")
            else:
                V2.append(("not-invertible|model|" + cls, "the documented rules themselves do not invert %r -> %r -> %r"
                           % (N, T, info["back"])))
            if not V2 and back:
                b = post2[back[0]]
                if b["data"] != main_o.plain:
                    V2.append(("not-invertible|content", "%r -> %r -> %r: content differs" % (N, T, back[0])))
            V += V2
        if V or verbose:
            how = ("re-run: VERIF_ONLY_CASE=%d VERIF_SEED=%d ./check C19 --tier %s   (exit 1 = reproduced)\n"
                   "privilege: %s; clean environment (LC_ALL=C only), stdin=/dev/null\nfile setup (main operand %r, kind %s):\n%s\n%s"
                   % (idx, seed, tier, case["priv"], case["main"], case["kind"],
                      "\n".join("    " + json.dumps(jsonable({k: v for k, v in f.items() if k != "plain"}))
                                for f in case["files"]), "\n".join(texts)))
            cj = jsonable(case)
            for key, detail in V:
                res.viol.append((key, detail, how, cj))
            if verbose:
                res.log.append(how)
        h = hashlib.sha1(repr((case["main"], case["kind"], case["files"][0].get("mode") if case["files"] else None,
                               sorted(fl.items()), case["custom"], case["fmt"], case["op"], case["priv"])).encode())
        if case["kind"] != "missing":
            res.hash = int.from_bytes(h.digest()[:8], "little")
        res.sample = "case %d [%s] %s | main %r kind=%s -> exit %s, model: %s/%s" % (
            idx, case["priv"], sh(build_argv("xz", case, d, case["op"], case["fmt"], case["custom"], fl,
                                             case["operands"], case["extra"])[0]).replace(d.decode(), "<dir>"),
            case["main"][:60], case["kind"], rc, main_o.result, main_o.reason)
    finally:
        shutil.rmtree(d, ignore_errors=True)
    return res


def account(res, case, pred, o, rc, pre):
    fl = case["flags"]
    c = res.count
    c("priv_" + case["priv"])
    c("op_" + case["op"])
    c("fmt_%s_%s" % (case["op"], case["fmt"]))
    c("kind_" + case["kind"])
    c("exit_%s" % rc)
    c("outcome_" + o.result)
    if len(case["operands"]) > 1:
        c("two_operands")
        sev = sorted({o2.result for o2 in pred.outcomes})
        c("two_operands_" + "+".join(sev))
    if fl["no_warn"] and any(M.E_WARNING in o2.statuses and o2.result == "skip" for o2 in pred.outcomes) \
            and not any(o2.result in ("error", "fatal") for o2 in pred.outcomes):
        c("nowarn_mapped_2_to_0")
    if o.result != "ok":
        for r in [o.reason] + list(o.also):
            c("refuse_" + r)
        if o.reason == "has-suffix":
            s = o.suffix_rule[4:]
            c("suffix_has:" + (s.decode() if s in BUILTINS else "custom"))
    else:
        for r in o.lifted:
            c("lifted_" + r + ("_by_force" if fl["f"] else "_by_keep" if fl["k"] else "_by_stdout"))
            if not fl["c"]:
                c("lifted_" + r)
        if o.target is not None:
            c("processed_to_file")
            rule, _, s = o.suffix_rule.partition(b":")
            c("suffix_%s:%s" % (rule.decode(), s.decode() if s in BUILTINS else "custom"))
            if o.replaced_target:
                c("forced_overwrite")
            if fl["k"]:
                c("keep_processed")
            if o.group_failed:
                c("group_copy_failed_restricted_mode")
                src = pre.get(o.pointee or o.src_name)
                if src and M.restricted_mode(src["mode"]) != src["mode"] & 0o777:
                    c("restricted_mode_differs")
            if o.owner_failed:
                c("owner_copy_not_permitted")
            src = pre.get(o.pointee or o.src_name)
            if src and src["mode"] & 0o7000:
                c("special_bits_dropped")
        else:
            c("stdout_processed")
    src = pre.get(case["main"])
    if src and src["kind"] == "reg" and src["mode"] & 0o7000:
        c("mode_special_%o" % (src["mode"] >> 9))
    n = case["main"]
    try:
        n.decode("utf-8")
    except UnicodeDecodeError:
        c("name_non_utf8")
    if n.startswith(b"-"):
        c("name_leading_dash")
    if n.startswith(b"."):
        c("name_leading_dot")
    if n in BUILTINS or n == case["custom"]:
        c("name_suffix_only")
    if len(n) >= 240:
        c("name_long")
    if case["custom"] is not None:
        c("custom_suffix")
        if not case["custom"].startswith(b"."):
            c("custom_suffix_dotless")
    for k in ("k", "f", "c", "no_warn", "v"):
        if fl[k]:
            c("flag_" + k)
    if fl["q"]:
        c("flag_q%d" % fl["q"])
    if "obstacle" in case:
        c("obstacle_" + case["obstacle"])
    c("style_" + case["style"])


# ---------------------------------------------------------------------------

def can_drop_privileges(xz, scratch):
    if os.geteuid() != 0:
        return False, "not running as root"
    try:
        r = subprocess.run([xz, "--version"], user=NOBODY, group=NOBODY, extra_groups=[], cwd=scratch,
                           stdout=subprocess.PIPE, stderr=subprocess.PIPE, timeout=30)
        if r.returncode != 0:
            return False, "xz --version as uid %d failed: %s" % (NOBODY, r.stderr.decode("utf-8", "replace")[:200])
        pd = os.path.join(scratch, "probe")
        os.mkdir(pd)
        os.chmod(pd, 0o777)
        with open(os.path.join(pd, "src"), "wb") as fh:
            fh.write(b"probe\n")
        os.chown(os.path.join(pd, "src"), NOBODY, 12345)
        r = subprocess.run([xz, "-k", "src"], user=NOBODY, group=NOBODY, extra_groups=[], cwd=pd,
                           env={"LC_ALL": "C"}, stdin=subprocess.DEVNULL, stdout=subprocess.PIPE,
                           stderr=subprocess.PIPE, timeout=30)
        tp = os.path.join(pd, "src.xz")
        ok = os.path.exists(tp) and os.lstat(tp).st_uid == NOBODY and os.lstat(tp).st_gid == NOBODY
        shutil.rmtree(pd, ignore_errors=True)
        return ok, "" if ok else "uid drop probe failed: rc=%s %r" % (r.returncode, r.stderr)
    except (OSError, subprocess.SubprocessError) as ex:
        return False, "cannot drop privileges: %s" % ex


def run(ctx):
    xz = prepare(ctx.tier)
    ctx.rule = RULE
    ctx.assumptions = [
        "the reference model lib/models/xz_naming.py encodes xz(1) (DESCRIPTION, -k/-f/-c/-S, EXIT STATUS, --no-warn) "
        "and the property statement; where those leave the order of two applicable conditions open, either status is "
        "accepted",
        "decompress-name with -S: the longest matching suffix is the file's suffix, a custom suffix wins ties; the only "
        "non-invertible names are those where a dot-less custom suffix spells a longer built-in one (derived from the model)",
        "ext4 scratch directory with nanosecond timestamps; Linux semantics for chown/chmod by unprivileged users; "
        "uid/gid 65534 without supplementary groups is the unprivileged identity",
        "target content is verified with python's lzma module (released liblzma 5.4.1), not with the tree under test",
        "FIFO sources are not combined with --stdout (xz waits for a writer by design)",
    ]
    os.chmod(ctx.scratch, 0o755)
    can_drop, why = can_drop_privileges(xz, ctx.scratch) if True else (False, "")
    os.chmod(ctx.scratch, 0o755)
    if not can_drop:
        ctx.notes.append("unprivileged mode unavailable (%s): root-only run, fchown-failure branch NOT observed" % why)
    only = os.environ.get("VERIF_ONLY_CASE")
    ncases = 2500 if ctx.tier == "quick" else 50000
    indices = [int(only)] if only not in (None, "") else range(ncases)

    def work(i):
        try:
            return run_case(xz, ctx.seed, i, ctx.scratch, can_drop, ctx.tier, verbose=only not in (None, ""))
        except Exception:
            import traceback
            r = CaseResult()
            r.log.append("case %d: harness exception\n%s" % (i, traceback.format_exc()))
            r.counts["harness_exceptions"] = 1
            return r

    with concurrent.futures.ThreadPoolExecutor(max_workers=16) as ex:
        results = list(ex.map(work, indices))
    for r in results:
        ctx.evaluations += r.evals
        for k, v in r.counts.items():
            ctx.count(k, v)
        if r.hash is not None:
            ctx.add_hash(r.hash)
        if r.sample and len(ctx.samples) < 12 and (len(ctx.samples) < 4 or "skip" in r.sample or "error" in r.sample):
            ctx.samples.append(r.sample)
        for key, detail, how, cj in r.viol:
            ctx.violation(key, detail, {"how": how, "case": cj})
        for ln in r.log:
            if only not in (None, ""):
                print(ln)
            elif len(ctx.notes) < 10:
                ctx.notes.append(ln[-600:])
    c = ctx.counters
    if c.get("harness_exceptions"):
        ctx.inconclusive.append("%d cases raised a harness exception (see notes)" % c["harness_exceptions"])
    if only not in (None, ""):
        return
    n = 5 if ctx.tier == "quick" else 60
    for r in REFUSALS:
        ctx.require("refuse_" + r, c.get("refuse_" + r, 0), n)
    for r in LIFTABLE:
        ctx.require("lifted_" + r, c.get("lifted_" + r, 0), n)
    for s in (".xz", ".txz", ".lzma", ".tlz", ".lz", "custom"):
        ctx.require("suffix_strip:" + s, c.get("suffix_strip:" + s, 0), n)
    for s in (".xz", ".lzma", "custom"):
        ctx.require("suffix_append:" + s, c.get("suffix_append:" + s, 0), n)
    for s in (".xz", ".txz", ".lzma", ".tlz", "custom"):
        ctx.require("suffix_has:" + s, c.get("suffix_has:" + s, 0), 3 if ctx.tier == "quick" else 30)
    for k in ("keep_processed", "stdout_processed", "forced_overwrite", "special_bits_dropped", "priv_root",
              "name_non_utf8", "name_leading_dash", "name_leading_dot", "name_suffix_only", "name_long",
              "invert_runs", "invert_exception_documented", "nowarn_mapped_2_to_0", "two_operands", "exit_0", "exit_1",
              "exit_2"):
        ctx.require(k, c.get(k, 0), n)
    for i in range(1, 8):
        ctx.require("mode_special_%o" % i, c.get("mode_special_%o" % i, 0), 3 if ctx.tier == "quick" else 30)
    if can_drop:
        for k in ("priv_nobody", "group_copy_failed_restricted_mode", "restricted_mode_differs",
                  "owner_copy_not_permitted", "refuse_unreadable"):
            ctx.require(k, c.get(k, 0), n)
